import AmVerif.Model.Leb128
/-
  Proofs about the LEB128 model (`AmVerif.Model.Leb128`): round trip, canonicity, prefix
  incompleteness and progress for the unsigned and the signed reader/writer pairs.
-/
namespace AmVerif.Leb
open AmVerif

/-! ### Bit-operation bridges -/

theorem and_7f (x : Nat) : x &&& 0x7f = x % 128 :=
  Nat.and_two_pow_sub_one_eq_mod x 7

theorem and_80 (b : UInt8) : (b.toNat &&& 0x80 = 0) ↔ b.toNat < 128 := by
  have key : ∀ k : Fin 256, (k.val &&& 0x80 = 0) ↔ k.val < 128 := by decide +kernel
  exact key ⟨b.toNat, b.toNat_lt⟩

theorem and_40 (b : UInt8) : (b.toNat &&& 0x40 = 0) ↔ b.toNat % 128 < 64 := by
  have key : ∀ k : Fin 256, (k.val &&& 0x40 = 0) ↔ k.val % 128 < 64 := by decide +kernel
  exact key ⟨b.toNat, b.toNat_lt⟩

theorem and_40_pos (b : UInt8) : (b.toNat &&& 0x40 > 0) ↔ 64 ≤ b.toNat % 128 := by
  have key : ∀ k : Fin 256, (k.val &&& 0x40 > 0) ↔ 64 ≤ k.val % 128 := by decide +kernel
  exact key ⟨b.toNat, b.toNat_lt⟩

/-- One accumulation step: with `res < 2^shift` the `|`/`<<` is an addition. -/
theorem or_shift (res x shift : Nat) (h : res < 2 ^ shift) :
    res ||| (x <<< shift) = res + 2 ^ shift * x := by
  rw [Nat.or_comm, ← Nat.shiftLeft_add_eq_or_of_lt h, Nat.shiftLeft_eq, Nat.add_comm, Nat.mul_comm]

/-- The set of shifts that occur: `0, 7, …, 63`. -/
def Sh (shift : Nat) : Prop := shift % 7 = 0 ∧ shift ≤ 63

theorem Sh.cases {shift : Nat} (h : Sh shift) :
    shift = 0 ∨ shift = 7 ∨ shift = 14 ∨ shift = 21 ∨ shift = 28 ∨ shift = 35 ∨ shift = 42 ∨
    shift = 49 ∨ shift = 56 ∨ shift = 63 := by
  unfold Sh at h; omega

/-- `ulebLoop` on a non-empty input, in arithmetic form. -/
theorem ulebLoop_cons (b : UInt8) (rest : Bytes) (res shift : Nat) (h : res < 2 ^ shift) :
    ulebLoop (b :: rest) res shift =
      if b.toNat < 128 then
        if shift + 7 > 64 ∧ b.toNat > 1 then .error .tooLarge
        else if shift + 7 > 7 ∧ b.toNat = 0 then .error .overlong
        else .ok ((res + 2 ^ shift * (b.toNat % 128)) % 2 ^ 64, rest)
      else if shift + 7 > 64 then .error .tooLarge
      else ulebLoop rest ((res + 2 ^ shift * (b.toNat % 128)) % 2 ^ 64) (shift + 7) := by
  rw [ulebLoop]
  simp only [and_7f, and_80, or_shift _ _ _ h]

/-! ### Unsigned -/

theorem ulebEncode_lt {n : Nat} (h : n < 128) : ulebEncode n = [UInt8.ofNat n] := by
  rw [ulebEncode, if_pos h]

theorem ulebEncode_ge {n : Nat} (h : ¬ n < 128) :
    ulebEncode n = UInt8.ofNat (n % 128 + 128) :: ulebEncode (n / 128) := by
  rw [ulebEncode, if_neg h]

theorem toNat_ofNat_lt {n : Nat} (h : n < 256) : (UInt8.ofNat n).toNat = n := by
  rw [UInt8.toNat_ofNat']; exact Nat.mod_eq_of_lt h

syntax "sh_cases " term : tactic
macro_rules
  | `(tactic| sh_cases $h) =>
    `(tactic| (rcases Sh.cases $h with h | h | h | h | h | h | h | h | h | h <;> subst h))

/-- Generalised round trip. -/
theorem ulebLoop_encode (n : Nat) : ∀ (res shift : Nat) (rest : Bytes), Sh shift →
    res < 2 ^ shift → res + 2 ^ shift * n < 2 ^ 64 → (n ≠ 0 ∨ shift = 0) →
    ulebLoop (ulebEncode n ++ rest) res shift = .ok (res + 2 ^ shift * n, rest) := by
  induction n using Nat.strongRecOn with
  | _ n ih =>
    intro res shift rest hs hr hb hz
    by_cases hn : n < 128
    · rw [ulebEncode_lt hn, List.singleton_append, ulebLoop_cons _ _ _ _ hr,
        toNat_ofNat_lt (by omega), if_pos hn]
      sh_cases hs <;>
        rw [if_neg (by omega), if_neg (by omega), Nat.mod_eq_of_lt hn, Nat.mod_eq_of_lt (by omega)]
    · have h56 : shift ≤ 56 := by sh_cases hs <;> omega
      rw [ulebEncode_ge hn, List.cons_append, ulebLoop_cons _ _ _ _ hr,
        toNat_ofNat_lt (by omega), if_neg (by omega), if_neg (by omega)]
      have e1 : (n % 128 + 128) % 128 = n % 128 := by omega
      have hp : 2 ^ (shift + 7) = 128 * 2 ^ shift := by rw [Nat.pow_add]; omega
      have hs' : Sh (shift + 7) := by unfold Sh at hs ⊢; omega
      rw [e1]
      sh_cases hs
      all_goals first
        | omega
        | (rw [Nat.mod_eq_of_lt (by omega),
            ih (n / 128) (by omega) _ _ rest hs' (by omega) (by omega) (by omega)]
           congr 2; omega)

/-- 1. Round trip. -/
theorem uleb64_encode (n : Nat) (hn : n < 2 ^ 64) (rest : Bytes) :
    uleb64 (ulebEncode n ++ rest) = .ok (n, rest) := by
  have := ulebLoop_encode n 0 0 rest (by unfold Sh; omega) (by omega) (by omega) (Or.inr rfl)
  simpa [uleb64] using this

/-- Generalised canonicity: a successful read consumed exactly the encoding of what it added. -/
theorem ulebLoop_canonical (bs : Bytes) : ∀ (res shift v : Nat) (rest : Bytes), Sh shift →
    res < 2 ^ shift → ulebLoop bs res shift = .ok (v, rest) →
    ∃ n, v = res + 2 ^ shift * n ∧ v < 2 ^ 64 ∧ bs = ulebEncode n ++ rest ∧ (shift = 0 ∨ n ≠ 0) := by
  induction bs with
  | nil => intro res shift v rest _ _ h; simp [ulebLoop] at h
  | cons b bs ih =>
    intro res shift v rest hs hr h
    rw [ulebLoop_cons _ _ _ _ hr] at h
    by_cases hb : b.toNat < 128
    · rw [if_pos hb] at h
      split at h
      · cases h
      · split at h
        · cases h
        · rename_i h1 h2
          simp only [Except.ok.injEq, Prod.mk.injEq] at h
          obtain ⟨rfl, rfl⟩ := h
          refine ⟨b.toNat, ?_, Nat.mod_lt _ (by omega), ?_, ?_⟩
          · sh_cases hs <;> omega
          · rw [ulebEncode_lt hb, UInt8.ofNat_toNat]; rfl
          · omega
    · rw [if_neg hb] at h
      split at h
      · cases h
      · rename_i h64
        have hs' : Sh (shift + 7) := by unfold Sh at hs ⊢; omega
        have hlt : res + 2 ^ shift * (b.toNat % 128) < 2 ^ (shift + 7) := by
          sh_cases hs <;> omega
        have hmod : (res + 2 ^ shift * (b.toNat % 128)) % 2 ^ 64
            = res + 2 ^ shift * (b.toNat % 128) := by
          apply Nat.mod_eq_of_lt
          sh_cases hs <;> omega
        rw [hmod] at h
        obtain ⟨m, hv, hv64, hbs, hm⟩ := ih _ _ _ _ hs' hlt h
        have hm0 : m ≠ 0 := by omega
        have hb256 := b.toNat_lt
        refine ⟨b.toNat % 128 + 128 * m, ?_, hv64, ?_, Or.inr (by omega)⟩
        · rw [hv]; sh_cases hs <;> omega
        · have e1 : (b.toNat % 128 + 128 * m) % 128 + 128 = b.toNat := by omega
          have e2 : (b.toNat % 128 + 128 * m) / 128 = m := by omega
          rw [ulebEncode_ge (by omega), e1, e2, UInt8.ofNat_toNat, hbs]; rfl

/-- 2. Canonicity: only the writer's output is accepted. -/
theorem uleb64_canonical (bs rest : Bytes) (n : Nat) (h : uleb64 bs = .ok (n, rest)) :
    n < 2 ^ 64 ∧ bs = ulebEncode n ++ rest := by
  obtain ⟨m, hv, hlt, hbs, _⟩ :=
    ulebLoop_canonical bs 0 0 n rest (by unfold Sh; omega) (by omega) h
  have : n = m := by omega
  subst this
  exact ⟨hlt, hbs⟩

theorem ulebLoop_nil (res shift : Nat) : ulebLoop [] res shift = .error .incomplete := by
  rw [ulebLoop]

/-- Generalised prefix incompleteness. -/
theorem ulebLoop_prefix (n : Nat) : ∀ (res shift k : Nat), Sh shift →
    res < 2 ^ shift → res + 2 ^ shift * n < 2 ^ 64 → k < (ulebEncode n).length →
    ulebLoop ((ulebEncode n).take k) res shift = .error .incomplete := by
  induction n using Nat.strongRecOn with
  | _ n ih =>
    intro res shift k hs hr hb hk
    by_cases hn : n < 128
    · rw [ulebEncode_lt hn] at hk ⊢
      have : k = 0 := by simpa using hk
      subst this
      exact ulebLoop_nil _ _
    · rw [ulebEncode_ge hn] at hk ⊢
      cases k with
      | zero => exact ulebLoop_nil _ _
      | succ k =>
        have h56 : shift ≤ 56 := by sh_cases hs <;> omega
        have hs' : Sh (shift + 7) := by unfold Sh at hs ⊢; omega
        have e1 : (n % 128 + 128) % 128 = n % 128 := by omega
        rw [List.take_succ_cons, ulebLoop_cons _ _ _ _ hr, toNat_ofNat_lt (by omega),
          if_neg (by omega), if_neg (by omega), e1]
        have hk' : k < (ulebEncode (n / 128)).length := by simpa using hk
        sh_cases hs
        all_goals first
          | omega
          | (rw [Nat.mod_eq_of_lt (by omega)]
             exact ih (n / 128) (by omega) _ _ _ hs' (by omega) (by omega) hk')

/-- 3. Every proper prefix of an encoding is `Incomplete`. -/
theorem uleb64_prefix_incomplete (n : Nat) (hn : n < 2 ^ 64) (k : Nat)
    (hk : k < (ulebEncode n).length) :
    uleb64 ((ulebEncode n).take k) = .error .incomplete :=
  ulebLoop_prefix n 0 0 k (by unfold Sh; omega) (by omega) (by omega) hk

theorem ulebEncode_length_pos (n : Nat) : 1 ≤ (ulebEncode n).length := by
  by_cases hn : n < 128
  · rw [ulebEncode_lt hn]; simp
  · rw [ulebEncode_ge hn]; simp

theorem ulebEncode_length_le_of_lt (k : Nat) : ∀ n, n < 2 ^ (7 * (k + 1)) →
    (ulebEncode n).length ≤ k + 1 := by
  induction k with
  | zero =>
    intro n hn
    rw [ulebEncode_lt (by omega)]; simp
  | succ k ih =>
    intro n hn
    by_cases h : n < 128
    · rw [ulebEncode_lt h]; simp
    · rw [ulebEncode_ge h, List.length_cons]
      have e : 2 ^ (7 * (k + 1 + 1)) = 2 ^ (7 * (k + 1)) * 128 := by
        rw [show 7 * (k + 1 + 1) = 7 * (k + 1) + 7 by omega, Nat.pow_add]
      have := ih (n / 128) (by rw [e] at hn; exact Nat.div_lt_of_lt_mul (by rw [Nat.mul_comm]; exact hn))
      omega

/-- 5. Encodings of `u64` values are 1 to 10 bytes long. -/
theorem ulebEncode_length_le (n : Nat) (hn : n < 2 ^ 64) :
    1 ≤ (ulebEncode n).length ∧ (ulebEncode n).length ≤ 10 :=
  ⟨ulebEncode_length_pos n, ulebEncode_length_le_of_lt 9 n (by omega)⟩

/-- 4. Progress, precise form. -/
theorem uleb64_consumes_pre (bs rest : Bytes) (n : Nat) (h : uleb64 bs = .ok (n, rest)) :
    ∃ pre, bs = pre ++ rest ∧ 1 ≤ pre.length ∧ pre.length ≤ 10 := by
  obtain ⟨hn, hbs⟩ := uleb64_canonical bs rest n h
  exact ⟨ulebEncode n, hbs, ulebEncode_length_le n hn⟩

/-- 4. Progress. -/
theorem uleb64_consumes (bs rest : Bytes) (n : Nat) (h : uleb64 bs = .ok (n, rest)) :
    rest.length < bs.length := by
  obtain ⟨pre, rfl, h1, _⟩ := uleb64_consumes_pre bs rest n h
  rw [List.length_append]; omega

/-- 6. The writer is injective (on all of `Nat`). -/
theorem ulebEncode_injective (a b : Nat) (h : ulebEncode a = ulebEncode b) : a = b := by
  induction a using Nat.strongRecOn generalizing b with
  | _ a ih =>
    by_cases ha : a < 128 <;> by_cases hb : b < 128
    · rw [ulebEncode_lt ha, ulebEncode_lt hb] at h
      have := congrArg UInt8.toNat (List.cons.inj h).1
      rwa [toNat_ofNat_lt (by omega), toNat_ofNat_lt (by omega)] at this
    · rw [ulebEncode_lt ha, ulebEncode_ge hb] at h
      have := congrArg UInt8.toNat (List.cons.inj h).1
      rw [toNat_ofNat_lt (by omega), toNat_ofNat_lt (by omega)] at this
      omega
    · rw [ulebEncode_ge ha, ulebEncode_lt hb] at h
      have := congrArg UInt8.toNat (List.cons.inj h).1
      rw [toNat_ofNat_lt (by omega), toNat_ofNat_lt (by omega)] at this
      omega
    · rw [ulebEncode_ge ha, ulebEncode_ge hb] at h
      have h1 := congrArg UInt8.toNat (List.cons.inj h).1
      rw [toNat_ofNat_lt (by omega), toNat_ofNat_lt (by omega)] at h1
      have h2 := ih (a / 128) (by omega) (b / 128) (List.cons.inj h).2
      omega

/-! ### `uleb32` / `nonzeroUleb64` corollaries -/

/-- 8.1 -/
theorem uleb32_encode (n : Nat) (hn : n < 2 ^ 32) (rest : Bytes) :
    uleb32 (ulebEncode n ++ rest) = .ok (n, rest) := by
  unfold uleb32
  rw [uleb64_encode n (by omega) rest]
  simp only [if_pos hn]

/-- 8.2 -/
theorem uleb32_canonical (bs rest : Bytes) (n : Nat) (h : uleb32 bs = .ok (n, rest)) :
    n < 2 ^ 32 ∧ bs = ulebEncode n ++ rest := by
  unfold uleb32 at h
  split at h
  · rename_i m r heq
    split at h
    · rename_i hm
      simp only [Except.ok.injEq, Prod.mk.injEq] at h
      obtain ⟨rfl, rfl⟩ := h
      exact ⟨hm, (uleb64_canonical bs _ _ heq).2⟩
    · cases h
  · cases h

/-- 8.3 -/
theorem uleb32_prefix_incomplete (n : Nat) (hn : n < 2 ^ 32) (k : Nat)
    (hk : k < (ulebEncode n).length) :
    uleb32 ((ulebEncode n).take k) = .error .incomplete := by
  unfold uleb32
  rw [uleb64_prefix_incomplete n (by omega) k hk]

theorem uleb32_consumes (bs rest : Bytes) (n : Nat) (h : uleb32 bs = .ok (n, rest)) :
    ∃ pre, bs = pre ++ rest ∧ 1 ≤ pre.length ∧ pre.length ≤ 5 := by
  obtain ⟨hn, hbs⟩ := uleb32_canonical bs rest n h
  exact ⟨ulebEncode n, hbs, ulebEncode_length_pos n, ulebEncode_length_le_of_lt 4 n (by omega)⟩

theorem nonzeroUleb64_encode (n : Nat) (hn : n < 2 ^ 64) (h0 : n ≠ 0) (rest : Bytes) :
    nonzeroUleb64 (ulebEncode n ++ rest) = .ok (n, rest) := by
  unfold nonzeroUleb64
  rw [uleb64_encode n hn rest]
  simp only [if_neg h0]

theorem nonzeroUleb64_zero (rest : Bytes) :
    nonzeroUleb64 (ulebEncode 0 ++ rest) = .error .unexpectedZero := by
  unfold nonzeroUleb64
  rw [uleb64_encode 0 (by omega) rest]
  simp

theorem nonzeroUleb64_canonical (bs rest : Bytes) (n : Nat)
    (h : nonzeroUleb64 bs = .ok (n, rest)) :
    0 < n ∧ n < 2 ^ 64 ∧ bs = ulebEncode n ++ rest := by
  unfold nonzeroUleb64 at h
  split at h
  · rename_i m r heq
    split at h
    · cases h
    · rename_i hm
      simp only [Except.ok.injEq, Prod.mk.injEq] at h
      obtain ⟨rfl, rfl⟩ := h
      have := uleb64_canonical bs _ _ heq
      exact ⟨by omega, this.1, this.2⟩
  · cases h

/-! ### Signed -/

/-- Sign extension of a 7-bit group. -/
def sext7 (x : Nat) : Int := if x < 64 then (x : Int) else (x : Int) - 128

theorem u8_and_7f (x : Nat) (hx : x < 256) : UInt8.ofNat x &&& 0x7f = UInt8.ofNat (x % 128) := by
  have key : ∀ k : Fin 256, UInt8.ofNat k.val &&& 0x7f = UInt8.ofNat (k.val % 128) := by
    decide +kernel
  exact key ⟨x, hx⟩

theorem u8_or_80 (x : Nat) (hx : x < 256) :
    UInt8.ofNat x ||| 0x80 = UInt8.ofNat (x % 128 + 128) := by
  have key : ∀ k : Fin 256, UInt8.ofNat k.val ||| 0x80 = UInt8.ofNat (k.val % 128 + 128) := by
    decide +kernel
  exact key ⟨x, hx⟩

theorem slebEncode_small {v : Int} (h : -64 ≤ v ∧ v < 64) :
    slebEncode v = [UInt8.ofNat (v % 128).toNat] := by
  rw [slebEncode]
  simp only [Int.shiftRight_eq_div_pow]
  rw [if_pos (by omega), u8_and_7f _ (by omega)]
  congr 2; omega

theorem slebEncode_big {v : Int} (h : ¬(-64 ≤ v ∧ v < 64)) :
    slebEncode v = UInt8.ofNat ((v % 128).toNat + 128) :: slebEncode (v / 128) := by
  rw [slebEncode]
  simp only [Int.shiftRight_eq_div_pow]
  rw [if_neg (by omega), u8_or_80 _ (by omega)]
  congr 2
  · congr 1; omega
  · omega

/-- `-1 << s` as a 64-bit pattern. -/
theorem mask_eq (s : Nat) (hs : s ≤ 64) : ((2 ^ 64 - 1) <<< s) % 2 ^ 64 = 2 ^ 64 - 2 ^ s := by
  have hB : 1 ≤ 2 ^ s := Nat.one_le_two_pow
  have hBA : 2 ^ s ≤ 2 ^ 64 := Nat.pow_le_pow_right (by omega) hs
  have e : (2 ^ 64 - 1) * 2 ^ s = (2 ^ 64 - 2 ^ s) + (2 ^ s - 1) * 2 ^ 64 := by
    rw [Nat.sub_mul, Nat.sub_mul, Nat.one_mul, Nat.one_mul, Nat.mul_comm (2 ^ s) (2 ^ 64)]
    have : 2 ^ 64 ≤ 2 ^ 64 * 2 ^ s := Nat.le_mul_of_pos_right _ hB
    omega
  rw [Nat.shiftLeft_eq, e, Nat.add_mul_mod_self_right]
  exact Nat.mod_eq_of_lt (by omega)

theorem or_mask (r s : Nat) (hs : s ≤ 64) (hr : r < 2 ^ s) :
    r ||| (2 ^ 64 - 2 ^ s) = r + (2 ^ 64 - 2 ^ s) := by
  have e : 2 ^ 64 - 2 ^ s = (2 ^ (64 - s) - 1) <<< s := by
    rw [Nat.shiftLeft_eq, Nat.sub_mul, Nat.one_mul, ← Nat.pow_add, Nat.sub_add_cancel hs]
  rw [e, or_shift _ _ _ hr, Nat.shiftLeft_eq, Nat.mul_comm]

/-- `slebLoop` on a non-empty input: bit operations replaced by arithmetic. -/
theorem slebLoop_cons_raw (b : UInt8) (rest : Bytes) (res shift : Nat) (prev : UInt8)
    (h : res < 2 ^ shift) :
    slebLoop (b :: rest) res shift prev =
      if b.toNat < 128 then
        if shift + 7 > 64 ∧ b.toNat ≠ 0 ∧ b.toNat ≠ 0x7f then .error .tooLarge
        else if shift + 7 > 7 ∧ ((b.toNat = 0 ∧ prev.toNat % 128 < 64)
                                ∨ (b.toNat = 0x7f ∧ 64 ≤ prev.toNat % 128)) then .error .overlong
        else if shift + 7 < 64 ∧ 64 ≤ b.toNat % 128 then
          .ok (toI64 ((res + 2 ^ shift * (b.toNat % 128)) % 2 ^ 64
                        ||| (((2 ^ 64 - 1) <<< (shift + 7)) % 2 ^ 64)), rest)
        else .ok (toI64 ((res + 2 ^ shift * (b.toNat % 128)) % 2 ^ 64), rest)
      else if shift + 7 > 64 then .error .tooLarge
      else slebLoop rest ((res + 2 ^ shift * (b.toNat % 128)) % 2 ^ 64) (shift + 7) b := by
  rw [slebLoop]
  simp only [and_7f, and_80, and_40, and_40_pos, or_shift _ _ _ h]

/-- The value returned at a final byte `b < 128`, when not rejected as too large. -/
theorem sleb_final (res shift b : Nat) (hs : Sh shift) (hr : res < 2 ^ shift) (hb : b < 128)
    (h64 : ¬(shift = 63 ∧ b ≠ 0 ∧ b ≠ 0x7f)) :
    (if shift + 7 < 64 ∧ 64 ≤ b % 128 then
        toI64 ((res + 2 ^ shift * (b % 128)) % 2 ^ 64 ||| (((2 ^ 64 - 1) <<< (shift + 7)) % 2 ^ 64))
      else toI64 ((res + 2 ^ shift * (b % 128)) % 2 ^ 64))
      = (res : Int) + 2 ^ shift * sext7 b := by
  have hlt : res + 2 ^ shift * (b % 128) < 2 ^ (shift + 7) := by sh_cases hs <;> omega
  split
  · rename_i hc
    have h56 : shift + 7 ≤ 64 := by omega
    have hp : 2 ^ (shift + 7) ≤ 2 ^ 64 := Nat.pow_le_pow_right (by omega) h56
    rw [Nat.mod_eq_of_lt (by omega), mask_eq _ h56, or_mask _ _ h56 hlt]
    unfold toI64 sext7
    sh_cases hs <;> (split <;> split <;> omega)
  · rename_i hc
    unfold toI64 sext7
    sh_cases hs <;> (split <;> split <;> omega)

/-- `slebLoop` on a non-empty input, in arithmetic form (no bit operations, no wrap-around). -/
theorem slebLoop_cons (b : UInt8) (rest : Bytes) (res shift : Nat) (prev : UInt8)
    (hs : Sh shift) (hr : res < 2 ^ shift) :
    slebLoop (b :: rest) res shift prev =
      if b.toNat < 128 then
        if shift = 63 ∧ b.toNat ≠ 0 ∧ b.toNat ≠ 0x7f then .error .tooLarge
        else if shift ≠ 0 ∧ ((b.toNat = 0 ∧ prev.toNat % 128 < 64)
                              ∨ (b.toNat = 0x7f ∧ 64 ≤ prev.toNat % 128)) then .error .overlong
        else .ok ((res : Int) + 2 ^ shift * sext7 b.toNat, rest)
      else if shift = 63 then .error .tooLarge
      else slebLoop rest (res + 2 ^ shift * (b.toNat % 128)) (shift + 7) b := by
  rw [slebLoop_cons_raw _ _ _ _ _ hr]
  have c1 : shift + 7 > 64 ↔ shift = 63 := by unfold Sh at hs; omega
  have c2 : shift + 7 > 7 ↔ shift ≠ 0 := by omega
  simp only [c1, c2]
  by_cases hb : b.toNat < 128
  · simp only [if_pos hb]
    by_cases h1 : shift = 63 ∧ b.toNat ≠ 0 ∧ b.toNat ≠ 0x7f
    · simp only [if_pos h1]
    · simp only [if_neg h1]
      split
      · rfl
      · rw [← sleb_final res shift b.toNat hs hr hb h1]
        split <;> rfl
  · simp only [if_neg hb]
    by_cases h1 : shift = 63
    · simp only [if_pos h1]
    · simp only [if_neg h1]
      rw [Nat.mod_eq_of_lt]
      have := b.toNat_lt
      sh_cases hs <;> omega

theorem slebLoop_nil (res shift : Nat) (prev : UInt8) :
    slebLoop [] res shift prev = .error .incomplete := by
  rw [slebLoop]

/-- The link between the byte before a final byte and the value of that final byte that the
    writer guarantees (and the reader's `Overlong` test demands). -/
def PrevOk (shift : Nat) (prev : UInt8) (v : Int) : Prop :=
  shift = 0 ∨ ((v = 0 → 64 ≤ prev.toNat % 128) ∧ (v = -1 → prev.toNat % 128 < 64))

/-- Generalised round trip. -/
theorem slebLoop_encode : ∀ (m : Nat) (v : Int), v.natAbs = m →
    ∀ (res shift : Nat) (prev : UInt8) (rest : Bytes), Sh shift → res < 2 ^ shift →
    -2 ^ 63 ≤ (res : Int) + 2 ^ shift * v → (res : Int) + 2 ^ shift * v < 2 ^ 63 →
    PrevOk shift prev v →
    slebLoop (slebEncode v ++ rest) res shift prev = .ok ((res : Int) + 2 ^ shift * v, rest) := by
  intro m
  induction m using Nat.strongRecOn with
  | _ m ih =>
    intro v hv res shift prev rest hs hr hlo hhi hp
    by_cases hsm : -64 ≤ v ∧ v < 64
    · have hb : (v % 128).toNat < 128 := by omega
      have hsx : sext7 (v % 128).toNat = v := by unfold sext7; split <;> omega
      rw [slebEncode_small hsm, List.singleton_append, slebLoop_cons _ _ _ _ _ hs hr,
        toNat_ofNat_lt (by omega), if_pos hb, hsx]
      have h1 : ¬(shift = 63 ∧ (v % 128).toNat ≠ 0 ∧ (v % 128).toNat ≠ 0x7f) := by
        rintro ⟨rfl, h1, h2⟩; omega
      have h2 : ¬(shift ≠ 0 ∧ (((v % 128).toNat = 0 ∧ prev.toNat % 128 < 64)
          ∨ ((v % 128).toNat = 0x7f ∧ 64 ≤ prev.toNat % 128))) := by
        rintro ⟨h0, h⟩
        rcases hp with hp | ⟨hp0, hp1⟩
        · exact h0 hp
        · omega
      rw [if_neg h1, if_neg h2]
    · have hb : (v % 128).toNat + 128 < 256 := by omega
      have h63 : shift ≠ 63 := by rintro rfl; omega
      have hs' : Sh (shift + 7) := by unfold Sh at hs ⊢; omega
      have e1 : ((v % 128).toNat + 128) % 128 = (v % 128).toNat := by omega
      rw [slebEncode_big hsm, List.cons_append, slebLoop_cons _ _ _ _ _ hs hr,
        toNat_ofNat_lt hb, if_neg (by omega), if_neg h63, e1]
      have hp' : PrevOk (shift + 7) (UInt8.ofNat ((v % 128).toNat + 128)) (v / 128) := by
        right; rw [toNat_ofNat_lt hb]; omega
      sh_cases hs
      all_goals first
        | omega
        | (rw [ih (v / 128).natAbs (by omega) (v / 128) rfl _ _ _ rest hs' (by omega) (by omega)
            (by omega) hp']
           congr 2; omega)

/-- 7.1 Round trip. -/
theorem sleb64_encode (v : Int) (hlo : -2 ^ 63 ≤ v) (hhi : v < 2 ^ 63) (rest : Bytes) :
    sleb64 (slebEncode v ++ rest) = .ok (v, rest) := by
  have := slebLoop_encode _ v rfl 0 0 0 rest (by unfold Sh; omega) (by omega) (by omega) (by omega)
    (Or.inl rfl)
  simpa [sleb64] using this

theorem sext7_range (b : Nat) (hb : b < 128) : -64 ≤ sext7 b ∧ sext7 b < 64 := by
  unfold sext7; split <;> omega

theorem sext7_mod (b : Nat) (hb : b < 128) : (sext7 b % 128).toNat = b := by
  unfold sext7; split <;> omega

/-- Generalised canonicity. -/
theorem slebLoop_canonical (bs : Bytes) : ∀ (res shift : Nat) (prev : UInt8) (v : Int)
    (rest : Bytes), Sh shift → res < 2 ^ shift → slebLoop bs res shift prev = .ok (v, rest) →
    ∃ u : Int, v = (res : Int) + 2 ^ shift * u ∧ -2 ^ 63 ≤ v ∧ v < 2 ^ 63 ∧
      bs = slebEncode u ++ rest ∧ PrevOk shift prev u := by
  induction bs with
  | nil => intro res shift prev v rest _ _ h; simp [slebLoop] at h
  | cons b bs ih =>
    intro res shift prev v rest hs hr h
    rw [slebLoop_cons _ _ _ _ _ hs hr] at h
    by_cases hb : b.toNat < 128
    · rw [if_pos hb] at h
      split at h
      · cases h
      · split at h
        · cases h
        · rename_i h1 h2
          simp only [Except.ok.injEq, Prod.mk.injEq] at h
          obtain ⟨rfl, rfl⟩ := h
          have hr7 := sext7_range b.toNat hb
          refine ⟨sext7 b.toNat, rfl, ?_, ?_, ?_, ?_⟩
          · unfold sext7 at *; sh_cases hs <;> (split <;> omega)
          · unfold sext7 at *; sh_cases hs <;> (split <;> omega)
          · rw [slebEncode_small hr7, sext7_mod _ hb, UInt8.ofNat_toNat]; rfl
          · by_cases h0 : shift = 0
            · exact Or.inl h0
            · right
              unfold sext7; split <;> omega
    · rw [if_neg hb] at h
      split at h
      · cases h
      · rename_i h63
        have hs' : Sh (shift + 7) := by unfold Sh at hs ⊢; omega
        have hb256 := b.toNat_lt
        have hlt : res + 2 ^ shift * (b.toNat % 128) < 2 ^ (shift + 7) := by
          sh_cases hs <;> omega
        obtain ⟨u, hv, hlo, hhi, hbs, hp⟩ := ih _ _ _ _ _ hs' hlt h
        have hp' : (u = 0 → 64 ≤ b.toNat % 128) ∧ (u = -1 → b.toNat % 128 < 64) := by
          rcases hp with hp | hp
          · omega
          · exact hp
        refine ⟨(b.toNat % 128 : Nat) + 128 * u, ?_, hlo, hhi, ?_, ?_⟩
        · rw [hv]; sh_cases hs <;> omega
        · have e0 : ¬(-64 ≤ ((b.toNat % 128 : Nat) : Int) + 128 * u
              ∧ ((b.toNat % 128 : Nat) : Int) + 128 * u < 64) := by omega
          have e1 : ((((b.toNat % 128 : Nat) : Int) + 128 * u) % 128).toNat + 128 = b.toNat := by
            omega
          have e2 : (((b.toNat % 128 : Nat) : Int) + 128 * u) / 128 = u := by omega
          rw [slebEncode_big e0, e1, e2, UInt8.ofNat_toNat, hbs]; rfl
        · by_cases h0 : shift = 0
          · exact Or.inl h0
          · right; omega

/-- 7.2 Canonicity. -/
theorem sleb64_canonical (bs rest : Bytes) (v : Int) (h : sleb64 bs = .ok (v, rest)) :
    -2 ^ 63 ≤ v ∧ v < 2 ^ 63 ∧ bs = slebEncode v ++ rest := by
  obtain ⟨u, hv, hlo, hhi, hbs, _⟩ :=
    slebLoop_canonical bs 0 0 0 v rest (by unfold Sh; omega) (by omega) h
  have : v = u := by omega
  subst this
  exact ⟨hlo, hhi, hbs⟩

/-- Generalised prefix incompleteness. -/
theorem slebLoop_prefix : ∀ (m : Nat) (v : Int), v.natAbs = m →
    ∀ (res shift k : Nat) (prev : UInt8), Sh shift → res < 2 ^ shift →
    -2 ^ 63 ≤ (res : Int) + 2 ^ shift * v → (res : Int) + 2 ^ shift * v < 2 ^ 63 →
    k < (slebEncode v).length →
    slebLoop ((slebEncode v).take k) res shift prev = .error .incomplete := by
  intro m
  induction m using Nat.strongRecOn with
  | _ m ih =>
    intro v hv res shift k prev hs hr hlo hhi hk
    by_cases hsm : -64 ≤ v ∧ v < 64
    · rw [slebEncode_small hsm] at hk ⊢
      have : k = 0 := by simpa using hk
      subst this
      exact slebLoop_nil _ _ _
    · rw [slebEncode_big hsm] at hk ⊢
      cases k with
      | zero => exact slebLoop_nil _ _ _
      | succ k =>
        have hb : (v % 128).toNat + 128 < 256 := by omega
        have h63 : shift ≠ 63 := by rintro rfl; omega
        have hs' : Sh (shift + 7) := by unfold Sh at hs ⊢; omega
        have e1 : ((v % 128).toNat + 128) % 128 = (v % 128).toNat := by omega
        rw [List.take_succ_cons, slebLoop_cons _ _ _ _ _ hs hr,
          toNat_ofNat_lt hb, if_neg (by omega), if_neg h63, e1]
        have hk' : k < (slebEncode (v / 128)).length := by simpa using hk
        sh_cases hs
        all_goals first
          | omega
          | exact ih (v / 128).natAbs (by omega) (v / 128) rfl _ _ _ _ hs' (by omega) (by omega)
              (by omega) hk'

/-- 7.3 Every proper prefix of an encoding is `Incomplete`. -/
theorem sleb64_prefix_incomplete (v : Int) (hlo : -2 ^ 63 ≤ v) (hhi : v < 2 ^ 63) (k : Nat)
    (hk : k < (slebEncode v).length) :
    sleb64 ((slebEncode v).take k) = .error .incomplete :=
  slebLoop_prefix _ v rfl 0 0 k 0 (by unfold Sh; omega) (by omega) (by omega) (by omega) hk

theorem slebEncode_length_pos (v : Int) : 1 ≤ (slebEncode v).length := by
  by_cases h : -64 ≤ v ∧ v < 64
  · rw [slebEncode_small h]; simp
  · rw [slebEncode_big h]; simp

theorem slebEncode_length_le_of (k : Nat) : ∀ v : Int,
    -((2 ^ (7 * k + 6) : Nat) : Int) ≤ v → v < ((2 ^ (7 * k + 6) : Nat) : Int) →
    (slebEncode v).length ≤ k + 1 := by
  induction k with
  | zero =>
    intro v h1 h2
    rw [slebEncode_small (by omega)]; simp
  | succ k ih =>
    intro v h1 h2
    by_cases h : -64 ≤ v ∧ v < 64
    · rw [slebEncode_small h]; simp
    · rw [slebEncode_big h, List.length_cons]
      have e : 2 ^ (7 * (k + 1) + 6) = 128 * 2 ^ (7 * k + 6) := by
        rw [show 7 * (k + 1) + 6 = 7 + (7 * k + 6) by omega, Nat.pow_add]
      rw [e] at h1 h2
      have := ih (v / 128) (by omega) (by omega)
      omega

/-- Encodings of `i64` values are 1 to 10 bytes long. -/
theorem slebEncode_length_le (v : Int) (hlo : -2 ^ 63 ≤ v) (hhi : v < 2 ^ 63) :
    1 ≤ (slebEncode v).length ∧ (slebEncode v).length ≤ 10 :=
  ⟨slebEncode_length_pos v, slebEncode_length_le_of 9 v (by omega) (by omega)⟩

/-- 7.4 Progress, precise form. -/
theorem sleb64_consumes_pre (bs rest : Bytes) (v : Int) (h : sleb64 bs = .ok (v, rest)) :
    ∃ pre, bs = pre ++ rest ∧ 1 ≤ pre.length ∧ pre.length ≤ 10 := by
  obtain ⟨hlo, hhi, hbs⟩ := sleb64_canonical bs rest v h
  exact ⟨slebEncode v, hbs, slebEncode_length_le v hlo hhi⟩

/-- 7.4 Progress. -/
theorem sleb64_consumes (bs rest : Bytes) (v : Int) (h : sleb64 bs = .ok (v, rest)) :
    rest.length < bs.length := by
  obtain ⟨pre, rfl, h1, _⟩ := sleb64_consumes_pre bs rest v h
  rw [List.length_append]; omega

/-- The signed writer is injective on the `i64` range. -/
theorem slebEncode_injective (a b : Int) (ha : -2 ^ 63 ≤ a ∧ a < 2 ^ 63)
    (hb : -2 ^ 63 ≤ b ∧ b < 2 ^ 63) (h : slebEncode a = slebEncode b) : a = b := by
  have h1 := sleb64_encode a ha.1 ha.2 []
  have h2 := sleb64_encode b hb.1 hb.2 []
  rw [h, h2] at h1
  simp only [Except.ok.injEq, Prod.mk.injEq, and_true] at h1
  exact h1.symm

/-! ### Sanity checks -/

/-- Decidable equality of parse results, local to this file (only used by the `decide` checks). -/
@[instance_reducible] def exceptDecEq {ε α : Type} [DecidableEq ε] [DecidableEq α] : DecidableEq (Except ε α)
  | .ok a, .ok b => if h : a = b then isTrue (h ▸ rfl) else isFalse (fun h' => h (Except.ok.inj h'))
  | .error a, .error b =>
    if h : a = b then isTrue (h ▸ rfl) else isFalse (fun h' => h (Except.error.inj h'))
  | .ok _, .error _ => isFalse nofun
  | .error _, .ok _ => isFalse nofun

attribute [local instance] exceptDecEq

example : uleb64 [0x81, 0x00] = .error .overlong := by decide
example : uleb64 (List.replicate 9 0xff ++ [0x01]) = .ok (2 ^ 64 - 1, []) := by decide
example : uleb64 (List.replicate 9 0xff ++ [0x02]) = .error .tooLarge := by decide
example : uleb64 [0xff] = .error .incomplete := by decide
example : uleb64 [0x80, 0x01, 0x07] = .ok (128, [0x07]) := by decide
example : uleb32 [0xff, 0xff, 0xff, 0xff, 0x1f] = .error .tooLarge := by decide
example : uleb32 [0xff, 0xff, 0xff, 0xff, 0x0f] = .ok (2 ^ 32 - 1, []) := by decide
example : nonzeroUleb64 [0x00] = .error .unexpectedZero := by decide
example : sleb64 [0x7f] = .ok (-1, []) := by decide
example : sleb64 [0x80, 0x7f] = .ok (-128, []) := by decide
example : sleb64 [0x3f] = .ok (63, []) := by decide
example : sleb64 [0x40] = .ok (-64, []) := by decide
example : sleb64 [0xff, 0x3f] = .ok (8191, []) := by decide
example : sleb64 [0x80, 0x40] = .ok (-8192, []) := by decide
example : sleb64 (List.replicate 9 0xff ++ [0x00]) = .ok (2 ^ 63 - 1, []) := by decide
example : sleb64 (List.replicate 9 0x80 ++ [0x7f]) = .ok (-2 ^ 63, []) := by decide
example : sleb64 (List.replicate 9 0xff ++ [0x01]) = .error .tooLarge := by decide
example : sleb64 (List.replicate 9 0x80 ++ [0x7e]) = .error .tooLarge := by decide
example : sleb64 [0xbf, 0x00] = .error .overlong := by decide
example : sleb64 [0x81, 0xff, 0x7f] = .error .overlong := by decide
example : sleb64 [0x90] = .error .incomplete := by decide

end AmVerif.Leb
