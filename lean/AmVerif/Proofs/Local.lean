import AmVerif.Model.Local
import AmVerif.Proofs.Spec
/-
  Proofs about `AmVerif.Model.Local` (which ops a local editing call appends) read through
  `AmVerif.Model.Spec` (what an op set shows): helper lemmas for C03 / C04.

  §1  appending one op to an op list: `visible`, `counterValue`, `entryOf`, registers.
  §2  `resolveAction`, and the shape of the op produced by `localMapOp` / `localListOp`.
  §3  failure characterisations.
  §4  map effects.
  §5  RGA: fuel, insertion.
  §6  transaction ids (C04).
-/
namespace AmVerif.Crdt
open AmVerif

/-- equality of call results is decidable (used by the `decide` examples) -/
instance instDecidableEqExcept {ε α : Type} [DecidableEq ε] [DecidableEq α] : DecidableEq (Except ε α)
  | .ok a, .ok b => if h : a = b then isTrue (by rw [h]) else isFalse (by intro h'; cases h'; exact h rfl)
  | .error a, .error b => if h : a = b then isTrue (by rw [h]) else isFalse (by intro h'; cases h'; exact h rfl)
  | .ok _, .error _ => isFalse (by intro h; cases h)
  | .error _, .ok _ => isFalse (by intro h; cases h)

/-! ## §1 appending one op -/

theorem overwritten_append (ops : List Op) (o x : Op) :
    overwritten (ops ++ [o]) x = (overwritten ops x || overwrites o x) := by
  simp [overwritten, List.any_append]

theorem visible_append (ops : List Op) (o x : Op) :
    visible (ops ++ [o]) x = (visible ops x && !overwrites o x) := by
  simp [visible, overwritten_append, Bool.and_assoc]

theorem overwrites_of_not_pred {o x : Op} (h : x.id ∉ o.pred) : overwrites o x = false := by
  simp [overwrites, h]

theorem filter_append_singleton {α : Type} (p : α → Bool) (l : List α) (a : α) :
    (l ++ [a]).filter p = l.filter p ++ (if p a = true then [a] else []) := by
  rw [List.filter_append]
  by_cases h : p a = true <;> simp [h]

theorem counterValue_append (ops : List Op) (o x : Op) (init : Int) :
    counterValue (ops ++ [o]) x init =
      counterValue ops x init + (if (o.isInc && o.pred.contains x.id) = true then o.incAmount else 0) := by
  rw [counter_value_sum, counter_value_sum, filter_append_singleton, List.map_append, List.sum_append]
  split
  · simp only [List.map_cons, List.map_nil, List.sum_cons, List.sum_nil]; omega
  · simp only [List.map_nil, List.sum_nil]; omega

theorem counterValue_append_of_not (ops : List Op) (o x : Op) (init : Int)
    (h : (o.isInc && o.pred.contains x.id) = false) :
    counterValue (ops ++ [o]) x init = counterValue ops x init := by
  rw [counterValue_append, h]; simp

theorem entryOf_append_of_not (ops : List Op) (o x : Op)
    (h : (o.isInc && o.pred.contains x.id) = false) : entryOf (ops ++ [o]) x = entryOf ops x := by
  unfold entryOf
  split <;> simp only [counterValue_append_of_not ops o x _ h]

/-- the visible ops (ascending id) selected by `sel`: the common shape of `mapRegOps`/`elemRegOps` -/
def regOps (ops : List Op) (sel : Op → Bool) : List Op :=
  sortById (ops.filter (fun x => sel x && visible ops x))

def mapSel (obj : ObjId) (k : Bytes) (o : Op) : Bool := o.obj == obj && o.key == .map k
def elemSel (obj : ObjId) (e : OpId) (o : Op) : Bool := o.obj == obj && o.elem == some e

theorem mapRegOps_eq (ops : List Op) (obj : ObjId) (k : Bytes) :
    mapRegOps ops obj k = regOps ops (mapSel obj k) := rfl
theorem elemRegOps_eq (ops : List Op) (obj : ObjId) (e : OpId) :
    elemRegOps ops obj e = regOps ops (elemSel obj e) := rfl
theorem mapRegister_eq (ops : List Op) (obj : ObjId) (k : Bytes) :
    mapRegister ops obj k = (regOps ops (mapSel obj k)).map (entryOf ops) := rfl
theorem elemRegister_eq (ops : List Op) (obj : ObjId) (e : OpId) :
    elemRegister ops obj e = (regOps ops (elemSel obj e)).map (entryOf ops) := rfl

theorem mem_regOps {ops : List Op} {sel : Op → Bool} {x : Op} :
    x ∈ regOps ops sel ↔ x ∈ ops ∧ sel x = true ∧ visible ops x = true := by
  simp [regOps, mem_sortById, List.mem_filter]

theorem regOps_append (ops : List Op) (o : Op) (sel : Op → Bool) :
    regOps (ops ++ [o]) sel =
      sortById (ops.filter (fun x => sel x && (visible ops x && !overwrites o x)) ++
        (if (sel o && visible (ops ++ [o]) o) = true then [o] else [])) := by
  unfold regOps
  rw [filter_append_singleton]
  simp only [visible_append]

/-- an appended op that names none of the selected ops and is not selected itself leaves the
    selection alone -/
theorem regOps_append_other {ops : List Op} {o : Op} {sel : Op → Bool}
    (hp : ∀ x ∈ ops, sel x = true → x.id ∉ o.pred)
    (ho : (sel o && visible (ops ++ [o]) o) = false) :
    regOps (ops ++ [o]) sel = regOps ops sel := by
  rw [regOps_append, ho]
  simp only [Bool.false_eq_true, if_false, List.append_nil]
  unfold regOps
  congr 1
  apply List.filter_congr
  intro x hx
  by_cases hs : sel x = true
  · simp [hs, overwrites_of_not_pred (hp x hx hs)]
  · simp [hs]

theorem register_append_other {ops : List Op} {o : Op} {sel : Op → Bool}
    (hp : ∀ x ∈ ops, sel x = true → x.id ∉ o.pred)
    (ho : (sel o && visible (ops ++ [o]) o) = false) :
    (regOps (ops ++ [o]) sel).map (entryOf (ops ++ [o])) = (regOps ops sel).map (entryOf ops) := by
  rw [regOps_append_other hp ho]
  apply List.map_congr_left
  intro x hx
  obtain ⟨hx, hs, _⟩ := mem_regOps.mp hx
  apply entryOf_append_of_not
  have := hp x hx hs
  simp [this]

/-! ### sorting with a greatest element appended -/

theorem insertById_append_last {x o : Op} (h : x.id.lt o.id = true) (s : List Op) :
    insertById x (s ++ [o]) = insertById x s ++ [o] := by
  induction s with
  | nil => simp [insertById, h]
  | cons y s ih =>
    simp only [List.cons_append, insertById]
    split
    · rfl
    · rw [ih]; rfl

theorem sortById_append_last {l : List Op} {o : Op} (h : ∀ x ∈ l, x.id.lt o.id = true) :
    sortById (l ++ [o]) = sortById l ++ [o] := by
  induction l with
  | nil => rfl
  | cons y l ih =>
    show insertById y (sortById (l ++ [o])) = insertById y (sortById l) ++ [o]
    rw [ih (fun x hx => h x (List.mem_cons_of_mem _ hx)),
      insertById_append_last (h y List.mem_cons_self)]

/-! ## §2 `resolveAction` and the op a map / list call produces -/

/-- how a scalar reads as a register value -/
def Val.ofScalar : Scalar → Val
  | .counter i => .counter i
  | s => .scalar s

/-- the comparison made by `resolveAction`: the put value equals the winner's current value -/
def putEqLast (ops : List Op) (last : Op) (v : Scalar) : Bool :=
  match last.action with
  | .put w => v == (match w with | .counter i => Scalar.counter (counterValue ops last i) | x => x)
  | _ => false

theorem putEqLast_iff {ops : List Op} {last : Op} {v : Scalar} (hv : last.isValue = true) :
    putEqLast ops last v = true ↔ (entryOf ops last).val = Val.ofScalar v := by
  unfold putEqLast entryOf
  cases ha : last.action with
  | put w => cases w <;> cases v <;> simp [Val.ofScalar] <;>
      (constructor <;> intro h <;> simp [h])
  | make t => cases v <;> simp [Val.ofScalar]
  | del => simp [Op.isValue, ha] at hv
  | inc n => simp [Op.isValue, ha] at hv
  | markBegin a b c => simp [Op.isValue, ha] at hv
  | markEnd a => simp [Op.isValue, ha] at hv

theorem getLast?_length_one {α : Type} {l : List α} {a : α} (h : l.getLast? = some a) :
    (l.length == 1) = true ↔ l = [a] := by
  cases l with
  | nil => simp at h
  | cons x xs =>
    cases xs with
    | nil => simp at h; simp [h]
    | cons y ys => simp

theorem resolveAction_nil (ops : List Op) (a : Action) :
    resolveAction ops [] a = if a == .del then none else some (a, []) := rfl

theorem resolveAction_put {ops reg : List Op} {last : Op} (hg : reg.getLast? = some last) (v : Scalar) :
    resolveAction ops reg (.put v) =
      if putEqLast ops last v = true then (if reg = [last] then none else some (.del, reg.dropLast))
      else some (.put v, reg) := by
  have h1 := getLast?_length_one hg
  unfold resolveAction
  rw [hg]
  cases hl : last.action <;> simp [putEqLast, hl]
  by_cases h : reg = [last]
  · rename_i w; cases w <;> simp [h]
  · have : ¬ reg.length = 1 := fun hh => h (h1.mp (by simpa using hh))
    rename_i w; cases w <;> simp [h, this]

theorem resolveAction_nonput {ops reg : List Op} {a : Action} (hne : reg ≠ [])
    (ha : ∀ v, a ≠ .put v) : resolveAction ops reg a = some (a, reg) := by
  unfold resolveAction
  cases hg : reg.getLast? with
  | none => exact absurd (by simpa using hg) hne
  | some last =>
    cases a <;> first | exact absurd rfl (ha _) | rfl

/-- the common tail of `localMapOp` / `localListOp` -/
def emitOp (ops reg : List Op) (a : Action) (mk : Action → List Op → Op) : Except EditErr (List Op) :=
  match resolveAction ops reg a with
  | none => .ok []
  | some (act, preds) =>
    let isIncr := match act with | .inc _ => true | _ => false
    if isIncr && preds.all (fun o => !o.isCounterPut) then .error .missingCounter
    else .ok [mk act preds]

def mkMapOp (t : Tx) (obj : ObjId) (k : Bytes) (act : Action) (preds : List Op) : Op :=
  ⟨t.nextId, obj, .map k, false, act, preds.map (·.id)⟩

def mkElemOp (t : Tx) (obj : ObjId) (e : OpId) (act : Action) (preds : List Op) : Op :=
  ⟨t.nextId, obj, .elem e, false, act, preds.map (·.id)⟩

theorem localMapOp_eq (ops : List Op) (t : Tx) (obj : ObjId) (k : Bytes) (a : Action) :
    localMapOp ops t obj k a = emitOp ops (mapRegOps ops obj k) a (mkMapOp t obj k) := rfl

theorem emitOp_put_nil (ops : List Op) (v : Scalar) (mk : Action → List Op → Op) :
    emitOp ops [] (.put v) mk = .ok [mk (.put v) []] := rfl

theorem emitOp_put {ops reg : List Op} {last : Op} (hg : reg.getLast? = some last) (v : Scalar)
    (mk : Action → List Op → Op) :
    emitOp ops reg (.put v) mk =
      if putEqLast ops last v = true then (if reg = [last] then .ok [] else .ok [mk .del reg.dropLast])
      else .ok [mk (.put v) reg] := by
  unfold emitOp
  rw [resolveAction_put hg]
  by_cases h1 : putEqLast ops last v = true <;> by_cases h2 : reg = [last] <;> simp [h1, h2]

theorem emitOp_del (ops reg : List Op) (mk : Action → List Op → Op) :
    emitOp ops reg .del mk = if reg = [] then .ok [] else .ok [mk .del reg] := by
  unfold emitOp
  by_cases h : reg = []
  · subst h; simp [resolveAction_nil]
  · rw [resolveAction_nonput h (by intro v hv; cases hv)]; simp [h]

theorem emitOp_make (ops reg : List Op) (ty : ObjType) (mk : Action → List Op → Op) :
    emitOp ops reg (.make ty) mk = .ok [mk (.make ty) reg] := by
  unfold emitOp
  by_cases h : reg = []
  · subst h; simp [resolveAction_nil]
  · rw [resolveAction_nonput h (by intro v hv; cases hv)]; simp

theorem emitOp_inc (ops reg : List Op) (n : Int) (mk : Action → List Op → Op) :
    emitOp ops reg (.inc n) mk =
      if reg.all (fun o => !o.isCounterPut) = true then .error .missingCounter else .ok [mk (.inc n) reg] := by
  unfold emitOp
  by_cases h : reg = []
  · subst h; simp [resolveAction_nil]
  · rw [resolveAction_nonput h (by intro v hv; cases hv)]; simp

/-- `emitOp` fails only for an increment of a register with no visible counter -/
theorem emitOp_error_iff {ops reg : List Op} {a : Action} {mk : Action → List Op → Op} {e : EditErr} :
    emitOp ops reg a mk = .error e ↔
      e = .missingCounter ∧ (∃ n, a = .inc n) ∧ ∀ x ∈ reg, x.isCounterPut = false := by
  cases a with
  | inc n =>
    rw [emitOp_inc]
    by_cases h : reg.all (fun o => !o.isCounterPut) = true
    · simp only [h, if_true]
      have h' : ∀ x ∈ reg, x.isCounterPut = false := by simpa using h
      constructor
      · intro he; cases he; exact ⟨rfl, ⟨n, rfl⟩, h'⟩
      · rintro ⟨rfl, _, _⟩; rfl
    · simp only [h, if_false]
      have h' : ¬ ∀ x ∈ reg, x.isCounterPut = false := by simpa using h
      constructor
      · intro he; cases he
      · rintro ⟨_, _, hh⟩; exact absurd hh h'
  | put v =>
    cases hg : reg.getLast? with
    | none =>
      have : reg = [] := by simpa using hg
      subst this
      simp [emitOp_put_nil]
    | some last =>
      rw [emitOp_put hg]
      by_cases h1 : putEqLast ops last v = true <;> by_cases h2 : reg = [last] <;> simp [h1, h2]
  | del => rw [emitOp_del]; by_cases h : reg = [] <;> simp [h]
  | make ty => simp [emitOp_make]
  | markBegin a b c =>
    unfold emitOp
    by_cases h : reg = []
    · subst h; simp [resolveAction_nil]
    · rw [resolveAction_nonput h (by intro v hv; cases hv)]; simp
  | markEnd a =>
    unfold emitOp
    by_cases h : reg = []
    · subst h; simp [resolveAction_nil]
    · rw [resolveAction_nonput h (by intro v hv; cases hv)]; simp

/-! ## §3 failure characterisations -/

/-- width in units of a visible element: the width of its winner -/
def regWidth (e : Enc) (isText : Bool) (r : List Op) : Nat :=
  match r.getLast? with | some o => opWidth e isText o | none => 0

/-- total length in units of a sequence -/
def unitsLen (e : Enc) (isText : Bool) (regs : List (OpId × List Op)) : Nat :=
  (regs.map (fun p => regWidth e isText p.2)).sum

theorem unitsLen_cons (e : Enc) (isText : Bool) (p : OpId × List Op) (regs : List (OpId × List Op)) :
    unitsLen e isText (p :: regs) = regWidth e isText p.2 + unitsLen e isText regs := by
  simp [unitsLen]

theorem seekByIndex_cons (e : Enc) (isText : Bool) (id : OpId) (r : List Op) (rest : List (OpId × List Op))
    (index start : Nat) :
    seekByIndex e isText ((id, r) :: rest) index start =
      if index < start + regWidth e isText r then some (id, r, start)
      else seekByIndex e isText rest index (start + regWidth e isText r) := rfl

theorem insertRef_cons (e : Enc) (isText : Bool) (id : OpId) (r : List Op) (rest : List (OpId × List Op))
    (target acc : Nat) (last : Key) :
    insertRef e isText ((id, r) :: rest) target acc last =
      if acc ≥ target then .ok (last, acc)
      else insertRef e isText rest target (acc + regWidth e isText r) (.elem id) := rfl

theorem seekByIndex_eq_none {e : Enc} {isText : Bool} {regs : List (OpId × List Op)} {index start : Nat}
    (hs : start ≤ index) :
    seekByIndex e isText regs index start = none ↔ start + unitsLen e isText regs ≤ index := by
  induction regs generalizing start with
  | nil => simp [seekByIndex, unitsLen, hs]
  | cons p regs ih =>
    obtain ⟨id, r⟩ := p
    rw [seekByIndex_cons, unitsLen_cons]
    generalize regWidth e isText r = w
    split
    · simp; omega
    · rw [ih (by omega)]; omega

theorem insertRef_error_iff {e : Enc} {isText : Bool} {regs : List (OpId × List Op)} {target acc : Nat}
    {last : Key} {err : EditErr} :
    insertRef e isText regs target acc last = .error err ↔
      err = .index ∧ acc + unitsLen e isText regs < target := by
  induction regs generalizing acc last with
  | nil =>
    simp only [insertRef, unitsLen, List.map_nil, List.sum_nil, Nat.add_zero]
    split
    · simp; omega
    · simp; constructor
      · intro h; exact ⟨h.symm, by omega⟩
      · intro h; exact h.1.symm
  | cons p regs ih =>
    obtain ⟨id, r⟩ := p
    rw [insertRef_cons, unitsLen_cons]
    generalize regWidth e isText r = w
    split
    · simp; omega
    · rw [ih, Nat.add_assoc]


theorem objMeta_eq_error {ops : List Op} {obj : ObjId} {err : EditErr} :
    objMeta ops obj = .error err ↔ err = .objid ∧ objType ops obj = none := by
  unfold objMeta
  cases objType ops obj
  · simp; exact eq_comm
  · simp

theorem objMeta_eq_ok {ops : List Op} {obj : ObjId} {ty : ObjType} :
    objMeta ops obj = .ok ty ↔ objType ops obj = some ty := by
  unfold objMeta
  cases objType ops obj <;> simp

theorem localListOp_eq (e : Enc) (ops : List Op) (t : Tx) (obj : ObjId) (ty : ObjType) (i : Nat) (a : Action) :
    localListOp e ops t obj ty i a =
      if !isSeq ty then .error .invalidOp else
      match seekByIndex e (ty == .text) (seqRegs ops obj) i 0 with
      | none => .error .index
      | some (eid, reg, _) => emitOp ops reg a (mkElemOp t obj eid) := by
  unfold localListOp emitOp mkElemOp
  rfl

theorem localListOp_error_iff {e : Enc} {ops : List Op} {t : Tx} {obj : ObjId} {ty : ObjType} {i : Nat}
    {a : Action} {err : EditErr} :
    localListOp e ops t obj ty i a = .error err ↔
      (err = .invalidOp ∧ isSeq ty = false) ∨
      (err = .index ∧ isSeq ty = true ∧ unitsLen e (ty == .text) (seqRegs ops obj) ≤ i) ∨
      (err = .missingCounter ∧ isSeq ty = true ∧ (∃ n, a = .inc n) ∧
        ∃ eid reg st, seekByIndex e (ty == .text) (seqRegs ops obj) i 0 = some (eid, reg, st) ∧
          ∀ x ∈ reg, x.isCounterPut = false) := by
  rw [localListOp_eq]
  cases hs : isSeq ty
  · simp; exact eq_comm
  · simp only [Bool.not_true, Bool.false_eq_true, if_false]
    cases hk : seekByIndex e (ty == .text) (seqRegs ops obj) i 0 with
    | none =>
      have := (seekByIndex_eq_none (Nat.zero_le _)).mp hk
      simp at this
      simp [this]; exact eq_comm
    | some r =>
      obtain ⟨eid, reg, st⟩ := r
      have hn : ¬ (unitsLen e (ty == .text) (seqRegs ops obj) ≤ i) := by
        intro h
        have := (seekByIndex_eq_none (start := 0) (Nat.zero_le _)).mpr (by simpa using h)
        rw [hk] at this; cases this
      simp only [emitOp_error_iff]
      constructor
      · rintro ⟨h1, h2, h3⟩; exact .inr (.inr ⟨h1, trivial, h2, eid, reg, st, rfl, h3⟩)
      · rintro (⟨_, h⟩ | ⟨_, _, h⟩ | ⟨h1, _, h2, eid', reg', st', he, h3⟩)
        · cases h
        · exact absurd h hn
        · cases he; exact ⟨h1, h2, h3⟩

/-- `localPut` unfolded once the object type is known -/
theorem localPut_of_type {e : Enc} {ops : List Op} {t : Tx} {obj : ObjId} {ty : ObjType}
    (hty : objType ops obj = some ty) (prop : Sum Bytes Nat) (a : Action) (ck : Bool) :
    localPut e ops t obj prop a ck =
      match prop with
      | .inl k => if ck && !(ty == .map) then .error .invalidOp else localMapOp ops t obj k a
      | .inr i => if ck && !isSeq ty then .error .invalidOp else localListOp e ops t obj ty i a := by
  unfold localPut
  rw [objMeta_eq_ok.mpr hty]
  cases prop <;> rfl

theorem localPut_of_none {e : Enc} {ops : List Op} {t : Tx} {obj : ObjId}
    (hty : objType ops obj = none) (prop : Sum Bytes Nat) (a : Action) (ck : Bool) :
    localPut e ops t obj prop a ck = .error .objid := by
  unfold localPut objMeta
  rw [hty]

theorem localPut_error_objid {e : Enc} {ops : List Op} {t : Tx} {obj : ObjId} {prop : Sum Bytes Nat}
    {a : Action} {ck : Bool} :
    localPut e ops t obj prop a ck = .error .objid ↔ objType ops obj = none := by
  cases hty : objType ops obj with
  | none => simp [localPut_of_none hty]
  | some ty =>
    rw [localPut_of_type hty]
    cases prop with
    | inl k =>
      simp only
      split
      · simp
      · rw [localMapOp_eq, emitOp_error_iff]; simp
    | inr i =>
      simp only
      split
      · simp
      · rw [localListOp_error_iff]; simp


theorem localPut_error_invalidOp {e : Enc} {ops : List Op} {t : Tx} {obj : ObjId} {prop : Sum Bytes Nat}
    {a : Action} {ck : Bool} :
    localPut e ops t obj prop a ck = .error .invalidOp ↔
      ∃ ty, objType ops obj = some ty ∧
        match prop with
        | .inl _ => ck = true ∧ ty ≠ .map
        | .inr _ => isSeq ty = false := by
  cases hty : objType ops obj with
  | none => simp [localPut_of_none hty]
  | some ty =>
    rw [localPut_of_type hty]
    cases prop with
    | inl k =>
      simp only [Option.some.injEq, exists_eq_left']
      by_cases h : (ck && !(ty == .map)) = true
      · rw [if_pos h]; simpa using h
      · rw [if_neg h, localMapOp_eq, emitOp_error_iff]
        simp at h ⊢
        exact h
    | inr i =>
      simp only [Option.some.injEq, exists_eq_left']
      by_cases h : (ck && !isSeq ty) = true
      · rw [if_pos h]; simp at h; simp [h.2]
      · rw [if_neg h, localListOp_error_iff]
        simp

theorem localPut_error_index {e : Enc} {ops : List Op} {t : Tx} {obj : ObjId} {prop : Sum Bytes Nat}
    {a : Action} {ck : Bool} :
    localPut e ops t obj prop a ck = .error .index ↔
      ∃ ty i, objType ops obj = some ty ∧ prop = .inr i ∧ isSeq ty = true ∧
        unitsLen e (ty == .text) (seqRegs ops obj) ≤ i := by
  cases hty : objType ops obj with
  | none => simp [localPut_of_none hty]
  | some ty =>
    rw [localPut_of_type hty]
    cases prop with
    | inl k =>
      simp only
      split
      · simp
      · simp [localMapOp_eq, emitOp_error_iff]
    | inr i =>
      simp only
      split
      · rename_i h; simp at h; simp [h.2]
      · simp [localListOp_error_iff]

theorem localPut_error_missingCounter {e : Enc} {ops : List Op} {t : Tx} {obj : ObjId}
    {prop : Sum Bytes Nat} {a : Action} {ck : Bool} :
    localPut e ops t obj prop a ck = .error .missingCounter ↔
      (∃ n, a = .inc n) ∧ ∃ ty, objType ops obj = some ty ∧
        match prop with
        | .inl k => (ck = true → ty = .map) ∧ ∀ x ∈ mapRegOps ops obj k, x.isCounterPut = false
        | .inr i => isSeq ty = true ∧
            ∃ eid reg st, seekByIndex e (ty == .text) (seqRegs ops obj) i 0 = some (eid, reg, st) ∧
              ∀ x ∈ reg, x.isCounterPut = false := by
  cases hty : objType ops obj with
  | none => simp [localPut_of_none hty]
  | some ty =>
    rw [localPut_of_type hty]
    cases prop with
    | inl k =>
      simp only [Option.some.injEq, exists_eq_left']
      by_cases h : (ck && !(ty == .map)) = true
      · rw [if_pos h]
        simp at h
        simp [h]
      · rw [if_neg h, localMapOp_eq, emitOp_error_iff]
        simp at h
        simp
        intro _ _ _; exact h
    | inr i =>
      simp only [Option.some.injEq, exists_eq_left']
      by_cases h : (ck && !isSeq ty) = true
      · rw [if_pos h]
        simp at h
        simp [h.2]
      · rw [if_neg h, localListOp_error_iff]
        simp
        constructor
        · rintro ⟨h1, h2, h3⟩; exact ⟨h2, h1, h3⟩
        · rintro ⟨h2, h1, h3⟩; exact ⟨h1, h2, h3⟩

theorem localPut_error_other {e : Enc} {ops : List Op} {t : Tx} {obj : ObjId}
    {prop : Sum Bytes Nat} {a : Action} {ck : Bool} :
    localPut e ops t obj prop a ck ≠ .error .other := by
  cases hty : objType ops obj with
  | none => simp [localPut_of_none hty]
  | some ty =>
    rw [localPut_of_type hty]
    cases prop with
    | inl k =>
      simp only
      split
      · simp
      · simp [localMapOp_eq, emitOp_error_iff]
    | inr i =>
      simp only
      split
      · simp
      · simp [localListOp_error_iff]


theorem localInsert_error_iff {e : Enc} {ops : List Op} {t : Tx} {obj : ObjId} {index : Nat}
    {a : Action} {err : EditErr} :
    localInsert e ops t obj index a = .error err ↔
      (err = .objid ∧ objType ops obj = none) ∨
      ∃ ty, objType ops obj = some ty ∧
        ((err = .invalidOp ∧ isSeq ty = false) ∨
         (err = .index ∧ isSeq ty = true ∧ unitsLen e (ty == .text) (seqRegs ops obj) < index)) := by
  unfold localInsert
  cases hty : objType ops obj with
  | none =>
    rw [objMeta_eq_error.mpr ⟨rfl, hty⟩]
    simp; exact eq_comm
  | some ty =>
    rw [objMeta_eq_ok.mpr hty]
    simp only [reduceCtorEq, and_false, false_or, Option.some.injEq, exists_eq_left']
    cases hs : isSeq ty
    · simp; exact eq_comm
    · simp only [Bool.not_true, Bool.false_eq_true, if_false]
      cases hr : insertRef e (ty == .text) (seqRegs ops obj) index 0 .head with
      | error err' =>
        have := insertRef_error_iff.mp hr
        simp at this
        simp [this]; exact eq_comm
      | ok p =>
        have hn : ¬ (unitsLen e (ty == .text) (seqRegs ops obj) < index) := by
          intro h
          have := (insertRef_error_iff (e := e) (isText := ty == .text) (regs := seqRegs ops obj)
            (target := index) (acc := 0) (last := .head) (err := .index)).mpr ⟨rfl, by simpa using h⟩
          rw [hr] at this; cases this
        simp [hn]

theorem utf8Chars_eq_nil {b : Bytes} : utf8Chars b = [] ↔ b = [] := by
  cases b with
  | nil => simp [utf8Chars]
  | cons x xs => simp [utf8Chars]


theorem localSpliceText_error_iff {e : Enc} {ops : List Op} {t : Tx} {obj : ObjId} {index del : Nat}
    {text : Bytes} {err : EditErr} :
    localSpliceText e ops t obj index del text = .error err ↔
      (err = .objid ∧ objType ops obj = none) ∨
      ∃ ty, objType ops obj = some ty ∧
        ((err = .invalidOp ∧ ty ≠ .text) ∨
         (err = .index ∧ ty = .text ∧ text ≠ [] ∧ unitsLen e true (seqRegs ops obj) < index)) := by
  unfold localSpliceText
  cases hty : objType ops obj with
  | none =>
    rw [objMeta_eq_error.mpr ⟨rfl, hty⟩]
    simp; exact eq_comm
  | some ty =>
    rw [objMeta_eq_ok.mpr hty]
    simp only [reduceCtorEq, and_false, false_or, Option.some.injEq, exists_eq_left']
    by_cases hs : ty = .text
    · subst hs
      simp only [bne_self_eq_false, Bool.false_eq_true, if_false, ne_eq, not_true_eq_false, and_false,
        false_or, true_and]
      by_cases hp : text = []
      · subst hp
        simp [utf8Chars]
      · have hp' : (utf8Chars text).isEmpty = false := by
          cases h : utf8Chars text with
          | nil => exact absurd (utf8Chars_eq_nil.mp h) hp
          | cons _ _ => rfl
        simp only [hp', Bool.false_eq_true, if_false]
        cases hr : insertRef e true (seqRegs ops obj) index 0 .head with
        | error err' =>
          have := insertRef_error_iff.mp hr
          simp at this
          simp [this, hp]; exact eq_comm
        | ok p =>
          have hn : ¬ (unitsLen e true (seqRegs ops obj) < index) := by
            intro h
            have := (insertRef_error_iff (e := e) (isText := true) (regs := seqRegs ops obj)
              (target := index) (acc := 0) (last := .head) (err := .index)).mpr ⟨rfl, by simpa using h⟩
            rw [hr] at this; cases this
          simp [hn]
    · have : (ty != .text) = true := by simpa using hs
      simp [this, hs]; exact eq_comm


theorem filterMap_congr' {α β : Type} {f g : α → Option β} {l : List α} (h : ∀ a ∈ l, f a = g a) :
    l.filterMap f = l.filterMap g := by
  induction l with
  | nil => rfl
  | cons x xs ih =>
    rw [List.filterMap_cons, List.filterMap_cons, h x List.mem_cons_self,
      ih (fun a ha => h a (List.mem_cons_of_mem _ ha))]

theorem seqElems_eq_map_seqRegs (ops : List Op) (obj : ObjId) :
    seqElems ops obj = (seqRegs ops obj).map (fun p => (p.1, p.2.map (entryOf ops))) := by
  unfold seqElems seqRegs
  rw [List.map_filterMap]
  apply filterMap_congr'
  intro c _
  cases c.isMark
  · simp only [Bool.false_eq_true, if_false]
    show (match (elemRegOps ops obj c.id).map (entryOf ops) with | [] => none | r => some (c.id, r)) = _
    cases elemRegOps ops obj c.id <;> simp
  · simp

theorem seqRegs_nonempty {ops : List Op} {obj : ObjId} {p : OpId × List Op} (h : p ∈ seqRegs ops obj) :
    p.2 ≠ [] := by
  unfold seqRegs at h
  rw [List.mem_filterMap] at h
  obtain ⟨c, _, hc⟩ := h
  split at hc
  · cases hc
  · split at hc
    · cases hc
    · rename_i hne
      cases hc
      exact fun hh => hne hh

theorem unitsLen_list {e : Enc} {regs : List (OpId × List Op)} (h : ∀ p ∈ regs, p.2 ≠ []) :
    unitsLen e false regs = regs.length := by
  induction regs with
  | nil => rfl
  | cons p regs ih =>
    rw [unitsLen_cons, ih (fun q hq => h q (List.mem_cons_of_mem _ hq))]
    have := h p List.mem_cons_self
    have : regWidth e false p.2 = 1 := by
      unfold regWidth
      cases hg : p.2.getLast? with
      | none => simp at hg; exact absurd hg this
      | some o => simp [opWidth]
    simp [this]; omega

/-- in a list object one unit = one visible element -/
theorem unitsLen_list_seqElems (e : Enc) (ops : List Op) (obj : ObjId) :
    unitsLen e false (seqRegs ops obj) = (seqElems ops obj).length := by
  rw [unitsLen_list (fun p hp => seqRegs_nonempty hp), seqElems_eq_map_seqRegs, List.length_map]

/-! ## §4 effects of an appended op on registers -/

theorem sortById_filter {l : List Op} (hd : StrictIds l) (p : Op → Bool) :
    sortById (l.filter p) = (sortById l).filter p := by
  symm
  apply sortById_unique (hd.filter p)
  · exact List.Pairwise.filter p (sortById_strict hd)
  · intro x; simp [List.mem_filter, mem_sortById]

theorem strictIds_append_fresh {ops : List Op} {o : Op} (hs : StrictIds ops)
    (hlt : ∀ x ∈ ops, x.id.lt o.id = true) : StrictIds (ops ++ [o]) := by
  unfold StrictIds at *
  rw [List.pairwise_append]
  refine ⟨hs, List.pairwise_singleton _ _, ?_⟩
  intro a ha b hb
  have : b = o := by simpa using hb
  subst this
  intro he
  have := hlt a ha
  rw [he, OpId.lt_irrefl] at this
  cases this

/-- a fresh op (named by nobody, not naming itself) is visible iff it is a value -/
theorem visible_fresh {ops : List Op} {o : Op} (hnp : ∀ p ∈ ops, o.id ∉ p.pred) (hself : o.id ∉ o.pred) :
    visible (ops ++ [o]) o = o.isValue := by
  rw [visible_append, overwrites_of_not_pred hself]
  have : overwritten ops o = false := by
    simp only [overwritten, List.any_eq_false]
    intro p hp
    simp [overwrites_of_not_pred (hnp p hp)]
  simp [visible, this]

/-- (A) a fresh visible op with the greatest id joins the selection as its last member; what it
    overwrites leaves -/
theorem regOps_append_value {ops : List Op} {o : Op} {sel : Op → Bool} (hs : StrictIds ops)
    (hlt : ∀ x ∈ ops, x.id.lt o.id = true) (hsel : sel o = true) (hv : visible (ops ++ [o]) o = true) :
    regOps (ops ++ [o]) sel = (regOps ops sel).filter (fun x => !overwrites o x) ++ [o] := by
  rw [regOps_append, hsel, hv]
  simp only [Bool.and_self, if_true]
  rw [sortById_append_last (fun x hx => hlt x (List.mem_filter.mp hx).1)]
  congr 1
  unfold regOps
  rw [← sortById_filter (hs.filter _), List.filter_filter]
  congr 1
  apply List.filter_congr
  intro x _
  cases sel x <;> cases overwrites o x <;> cases visible ops x <;> rfl

/-- (B) an op that does not join the selection only removes what it overwrites -/
theorem regOps_append_nonvalue {ops : List Op} {o : Op} {sel : Op → Bool} (hs : StrictIds ops)
    (ho : (sel o && visible (ops ++ [o]) o) = false) :
    regOps (ops ++ [o]) sel = (regOps ops sel).filter (fun x => !overwrites o x) := by
  rw [regOps_append, ho]
  simp only [Bool.false_eq_true, if_false, List.append_nil]
  unfold regOps
  rw [← sortById_filter (hs.filter _), List.filter_filter]
  congr 1
  apply List.filter_congr
  intro x _
  cases sel x <;> cases overwrites o x <;> cases visible ops x <;> rfl


/-- `o` is an op the open transaction may append on the register selected by `sel`: ids are
    pairwise distinct, `o.id` is greater than every id, nobody names it as predecessor, and it
    names only visible ops of that register -/
structure TxOp (ops : List Op) (o : Op) (sel : Op → Bool) : Prop where
  strict : StrictIds ops
  lt : ∀ x ∈ ops, x.id.lt o.id = true
  notPred : ∀ x ∈ ops, o.id ∉ x.pred
  preds : ∀ p ∈ o.pred, ∃ x ∈ regOps ops sel, x.id = p

namespace TxOp
variable {ops : List Op} {o : Op} {sel : Op → Bool}

theorem self (h : TxOp ops o sel) : o.id ∉ o.pred := by
  intro hm
  obtain ⟨x, hx, he⟩ := h.preds _ hm
  have := h.lt x (mem_regOps.mp hx).1
  rw [he, OpId.lt_irrefl] at this
  cases this

theorem visible_self (h : TxOp ops o sel) : visible (ops ++ [o]) o = o.isValue :=
  visible_fresh h.notPred h.self

/-- only ops of the register are named -/
theorem predsIn (h : TxOp ops o sel) : ∀ x ∈ ops, x.id ∈ o.pred → x ∈ regOps ops sel := by
  intro x hx hm
  obtain ⟨y, hy, he⟩ := h.preds _ hm
  have := h.strict.distinctIds y (mem_regOps.mp hy).1 x hx he
  exact this ▸ hy

theorem strict' (h : TxOp ops o sel) : StrictIds (ops ++ [o]) := strictIds_append_fresh h.strict h.lt

/-- a register selected by a predicate disjoint from `sel`, which does not select `o`, is unchanged -/
theorem other_regOps (h : TxOp ops o sel) {sel' : Op → Bool}
    (hdis : ∀ x ∈ ops, sel x = true → sel' x = true → False) (ho : sel' o = false) :
    regOps (ops ++ [o]) sel' = regOps ops sel' :=
  regOps_append_other (fun x hx hs hm => hdis x hx (mem_regOps.mp (h.predsIn x hx hm)).2.1 hs) (by simp [ho])

theorem other_register (h : TxOp ops o sel) {sel' : Op → Bool}
    (hdis : ∀ x ∈ ops, sel x = true → sel' x = true → False) (ho : sel' o = false) :
    (regOps (ops ++ [o]) sel').map (entryOf (ops ++ [o])) = (regOps ops sel').map (entryOf ops) :=
  register_append_other (fun x hx hs hm => hdis x hx (mem_regOps.mp (h.predsIn x hx hm)).2.1 hs) (by simp [ho])

end TxOp

/-- how an action reads as a register value -/
def Val.ofAction : Action → Val
  | .put v => Val.ofScalar v
  | .make t => .obj t
  | _ => .scalar .null

theorem counterValue_fresh {ops : List Op} {o : Op} (hnp : ∀ p ∈ ops, o.id ∉ p.pred) (hself : o.id ∉ o.pred)
    (init : Int) : counterValue (ops ++ [o]) o init = init := by
  rw [counter_value_sum]
  have : (ops ++ [o]).filter (fun p => p.isInc && p.pred.contains o.id) = [] := by
    rw [List.filter_eq_nil_iff]
    intro p hp
    rcases List.mem_append.mp hp with hp | hp
    · simp [hnp p hp]
    · have : p = o := by simpa using hp
      subst this; simp [hself]
  rw [this]; simp

theorem entryOf_fresh {ops : List Op} {o : Op} (hnp : ∀ p ∈ ops, o.id ∉ p.pred) (hself : o.id ∉ o.pred) :
    entryOf (ops ++ [o]) o = ⟨o.id, Val.ofAction o.action⟩ := by
  unfold entryOf
  cases ha : o.action with
  | put v => cases v <;> simp [Val.ofAction, Val.ofScalar, counterValue_fresh hnp hself]
  | _ => simp [Val.ofAction]


theorem isInc_of_isValue {o : Op} (h : o.isValue = true) : o.isInc = false := by
  cases ha : o.action <;> simp_all [Op.isValue, Op.isInc]

namespace TxOp
variable {ops : List Op} {o : Op} {sel : Op → Bool}

/-- a value op naming the whole register: the register becomes exactly that value -/
theorem overwrite_all (h : TxOp ops o sel) (hsel : sel o = true) (hv : o.isValue = true)
    (hall : ∀ x ∈ regOps ops sel, x.id ∈ o.pred) :
    regOps (ops ++ [o]) sel = [o] ∧
    (regOps (ops ++ [o]) sel).map (entryOf (ops ++ [o])) = [⟨o.id, Val.ofAction o.action⟩] := by
  have h1 : regOps (ops ++ [o]) sel = [o] := by
    rw [regOps_append_value h.strict h.lt hsel (by rw [h.visible_self, hv])]
    have : (regOps ops sel).filter (fun x => !overwrites o x) = [] := by
      rw [List.filter_eq_nil_iff]
      intro x hx
      simp [overwrites, hall x hx, isInc_of_isValue hv]
    rw [this]; rfl
  refine ⟨h1, ?_⟩
  rw [h1, List.map_singleton, entryOf_fresh h.notPred h.self]

/-- a delete naming the whole register empties it -/
theorem delete_all (h : TxOp ops o sel) (hv : o.isValue = false) (hni : o.isInc = false)
    (hall : ∀ x ∈ regOps ops sel, x.id ∈ o.pred) :
    regOps (ops ++ [o]) sel = [] := by
  rw [regOps_append_nonvalue h.strict (by rw [h.visible_self, hv]; simp)]
  rw [List.filter_eq_nil_iff]
  intro x hx
  simp [overwrites, hall x hx, hni]

/-- a delete naming all but the winner leaves exactly the winner -/
theorem delete_losers (h : TxOp ops o sel) (hv : o.isValue = false) (hni : o.isInc = false)
    {init : List Op} {last : Op} (hreg : regOps ops sel = init ++ [last])
    (hp : o.pred = init.map (·.id)) :
    regOps (ops ++ [o]) sel = [last] ∧
    (regOps (ops ++ [o]) sel).map (entryOf (ops ++ [o])) = [entryOf ops last] := by
  have hstrict : (regOps ops sel).Pairwise (fun a b => a.id.lt b.id = true) :=
    sortById_strict (h.strict.filter _)
  rw [hreg, List.pairwise_append] at hstrict
  have hlast : last.id ∉ init.map (·.id) := by
    intro hm
    obtain ⟨x, hx, he⟩ := List.mem_map.mp hm
    have := hstrict.2.2 x hx last (List.mem_singleton.mpr rfl)
    rw [he, OpId.lt_irrefl] at this
    cases this
  have h1 : regOps (ops ++ [o]) sel = [last] := by
    rw [regOps_append_nonvalue h.strict (by rw [h.visible_self, hv]; simp), hreg, List.filter_append]
    have e1 : init.filter (fun x => !overwrites o x) = [] := by
      rw [List.filter_eq_nil_iff]
      intro x hx
      have : x.id ∈ o.pred := hp ▸ List.mem_map.mpr ⟨x, hx, rfl⟩
      simp [overwrites, this, hni]
    have e2 : [last].filter (fun x => !overwrites o x) = [last] := by
      have : overwrites o last = false := overwrites_of_not_pred (hp ▸ hlast)
      simp [this]
    rw [e1, e2]; rfl
  refine ⟨h1, ?_⟩
  rw [h1, List.map_singleton, entryOf_append_of_not _ _ _ (by simp [hni])]

/-- an increment naming the whole register: counters stay, everything else leaves -/
theorem increment_all (h : TxOp ops o sel) (hi : o.isInc = true)
    (hall : ∀ x ∈ regOps ops sel, x.id ∈ o.pred) :
    regOps (ops ++ [o]) sel = (regOps ops sel).filter (fun x => x.isCounterPut) := by
  have hv : o.isValue = false := by
    cases ha : o.action <;> simp_all [Op.isValue, Op.isInc]
  rw [regOps_append_nonvalue h.strict (by rw [h.visible_self, hv]; simp)]
  apply List.filter_congr
  intro x hx
  simp [overwrites, hall x hx, hi]

end TxOp


/-! ### the ops `localPut` produces on a map key -/

theorem localPut_map_ok {e : Enc} {ops : List Op} {t : Tx} {obj : ObjId} {k : Bytes} {a : Action} {ck : Bool}
    {l : List Op} (h : localPut e ops t obj (.inl k) a ck = .ok l) :
    ∃ ty, objType ops obj = some ty ∧ (ck = true → ty = .map) ∧
      emitOp ops (mapRegOps ops obj k) a (mkMapOp t obj k) = .ok l := by
  cases hty : objType ops obj with
  | none => rw [localPut_of_none hty] at h; cases h
  | some ty =>
    rw [localPut_of_type hty] at h
    simp only at h
    by_cases hc : (ck && !(ty == .map)) = true
    · rw [if_pos hc] at h; cases h
    · rw [if_neg hc, localMapOp_eq] at h
      refine ⟨ty, rfl, ?_, h⟩
      simpa using hc

theorem txOp_mkMapOp {ops : List Op} {t : Tx} {obj : ObjId} {k : Bytes} {act : Action} {preds : List Op}
    (hs : StrictIds ops) (hlt : ∀ x ∈ ops, x.id.lt t.nextId = true) (hnp : ∀ x ∈ ops, t.nextId ∉ x.pred)
    (hsub : ∀ p ∈ preds, p ∈ mapRegOps ops obj k) :
    TxOp ops (mkMapOp t obj k act preds) (mapSel obj k) where
  strict := hs
  lt := hlt
  notPred := hnp
  preds := by
    intro p hp
    obtain ⟨x, hx, he⟩ := List.mem_map.mp hp
    exact ⟨x, hsub x hx, he⟩

theorem txOp_mkElemOp {ops : List Op} {t : Tx} {obj : ObjId} {el : OpId} {act : Action} {preds : List Op}
    (hs : StrictIds ops) (hlt : ∀ x ∈ ops, x.id.lt t.nextId = true) (hnp : ∀ x ∈ ops, t.nextId ∉ x.pred)
    (hsub : ∀ p ∈ preds, p ∈ elemRegOps ops obj el) :
    TxOp ops (mkElemOp t obj el act preds) (elemSel obj el) where
  strict := hs
  lt := hlt
  notPred := hnp
  preds := by
    intro p hp
    obtain ⟨x, hx, he⟩ := List.mem_map.mp hp
    exact ⟨x, hsub x hx, he⟩

/-- every op `emitOp` produces is `mk act preds` with `preds` taken from the register -/
theorem emitOp_ok_singleton {ops reg : List Op} {a : Action} {mk : Action → List Op → Op} {o : Op}
    (h : emitOp ops reg a mk = .ok [o]) :
    ∃ act preds, o = mk act preds ∧ (∀ p ∈ preds, p ∈ reg) ∧
      ((act = a ∧ preds = reg) ∨
       (∃ v last, a = .put v ∧ act = .del ∧ preds = reg.dropLast ∧ reg.getLast? = some last ∧
          putEqLast ops last v = true ∧ reg ≠ [last])) := by
  cases a with
  | put v =>
    cases hg : reg.getLast? with
    | none =>
      have : reg = [] := by simpa using hg
      subst this
      rw [emitOp_put_nil] at h
      cases h
      exact ⟨_, _, rfl, fun _ hp => hp, .inl ⟨rfl, rfl⟩⟩
    | some last =>
      rw [emitOp_put hg] at h
      by_cases h1 : putEqLast ops last v = true
      · rw [if_pos h1] at h
        by_cases h2 : reg = [last]
        · rw [if_pos h2] at h; cases h
        · rw [if_neg h2] at h; cases h
          exact ⟨_, _, rfl, fun p hp => List.dropLast_subset _ hp,
            .inr ⟨v, last, rfl, rfl, rfl, rfl, h1, h2⟩⟩
      · rw [if_neg h1] at h; cases h
        exact ⟨_, _, rfl, fun _ hp => hp, .inl ⟨rfl, rfl⟩⟩
  | del =>
    rw [emitOp_del] at h
    split at h
    · cases h
    · cases h; exact ⟨_, _, rfl, fun _ hp => hp, .inl ⟨rfl, rfl⟩⟩
  | make ty =>
    rw [emitOp_make] at h; cases h
    exact ⟨_, _, rfl, fun _ hp => hp, .inl ⟨rfl, rfl⟩⟩
  | inc n =>
    rw [emitOp_inc] at h
    split at h
    · cases h
    · cases h; exact ⟨_, _, rfl, fun _ hp => hp, .inl ⟨rfl, rfl⟩⟩
  | markBegin x y z =>
    unfold emitOp at h
    by_cases hr : reg = []
    · subst hr; simp [resolveAction_nil] at h
      exact ⟨_, _, h.symm, fun _ hp => hp, .inl ⟨rfl, rfl⟩⟩
    · rw [resolveAction_nonput hr (by intro v hv; cases hv)] at h
      simp at h
      exact ⟨_, _, h.symm, fun _ hp => hp, .inl ⟨rfl, rfl⟩⟩
  | markEnd x =>
    unfold emitOp at h
    by_cases hr : reg = []
    · subst hr; simp [resolveAction_nil] at h
      exact ⟨_, _, h.symm, fun _ hp => hp, .inl ⟨rfl, rfl⟩⟩
    · rw [resolveAction_nonput hr (by intro v hv; cases hv)] at h
      simp at h
      exact ⟨_, _, h.symm, fun _ hp => hp, .inl ⟨rfl, rfl⟩⟩


/-! ### map effects in final form -/

/-- what a successful single-op map call produced -/
theorem localPut_map_shape {e : Enc} {ops : List Op} {t : Tx} {obj : ObjId} {k : Bytes} {a : Action}
    {ck : Bool} {o : Op} (h : localPut e ops t obj (.inl k) a ck = .ok [o]) :
    ∃ act preds, o = mkMapOp t obj k act preds ∧ (∀ p ∈ preds, p ∈ mapRegOps ops obj k) ∧
      ((act = a ∧ preds = mapRegOps ops obj k) ∨
       (∃ v last, a = .put v ∧ act = .del ∧ preds = (mapRegOps ops obj k).dropLast ∧
          (mapRegOps ops obj k).getLast? = some last ∧ putEqLast ops last v = true ∧
          mapRegOps ops obj k ≠ [last])) := by
  obtain ⟨_, _, _, h'⟩ := localPut_map_ok h
  exact emitOp_ok_singleton h'

theorem localPut_map_txOp {e : Enc} {ops : List Op} {t : Tx} {obj : ObjId} {k : Bytes} {a : Action}
    {ck : Bool} {o : Op} (hs : StrictIds ops) (hlt : ∀ x ∈ ops, x.id.lt t.nextId = true)
    (hnp : ∀ x ∈ ops, t.nextId ∉ x.pred) (h : localPut e ops t obj (.inl k) a ck = .ok [o]) :
    TxOp ops o (mapSel obj k) ∧ o.id = t.nextId ∧ o.obj = obj ∧ o.key = .map k ∧ o.insert = false := by
  obtain ⟨act, preds, rfl, hsub, _⟩ := localPut_map_shape h
  exact ⟨txOp_mkMapOp hs hlt hnp hsub, rfl, rfl, rfl, rfl⟩

section
variable {ops : List Op} {o : Op} {obj : ObjId} {k : Bytes}

/-- a map op leaves every other key of the object and every key of every other object alone -/
theorem TxOp.map_other_register (h : TxOp ops o (mapSel obj k)) (ho : o.obj = obj) (hk : o.key = .map k)
    {obj' : ObjId} {k' : Bytes} (hne : obj' ≠ obj ∨ k' ≠ k) :
    mapRegister (ops ++ [o]) obj' k' = mapRegister ops obj' k' := by
  rw [mapRegister_eq, mapRegister_eq]
  apply h.other_register
  · intro x _ h1 h2
    simp only [mapSel, Bool.and_eq_true, beq_iff_eq] at h1 h2
    rcases hne with hne | hne
    · exact hne (h2.1.symm.trans h1.1)
    · have := h2.2.symm.trans h1.2
      exact hne (Key.map.inj this)
  · simp only [mapSel, ho, hk, Bool.and_eq_false_iff, beq_eq_false_iff_ne, ne_eq]
    rcases hne with hne | hne
    · exact .inl (fun h => hne h.symm)
    · exact .inr (fun h => hne (Key.map.inj h).symm)

/-- a map op leaves the element registers of every other object alone -/
theorem TxOp.map_other_elemRegister (h : TxOp ops o (mapSel obj k)) (ho : o.obj = obj)
    {obj' : ObjId} (el : OpId) (hne : obj' ≠ obj) :
    elemRegister (ops ++ [o]) obj' el = elemRegister ops obj' el := by
  rw [elemRegister_eq, elemRegister_eq]
  apply h.other_register
  · intro x _ h1 h2
    simp only [mapSel, elemSel, Bool.and_eq_true, beq_iff_eq] at h1 h2
    exact hne (h2.1.symm.trans h1.1)
  · simp only [elemSel, ho, Bool.and_eq_false_iff, beq_eq_false_iff_ne, ne_eq]
    exact .inl (fun h => hne h.symm)

end

theorem mapKeys_eq_of_register_iff {ops₁ ops₂ : List Op} {obj₁ obj₂ : ObjId}
    (h : ∀ k, mapRegister ops₁ obj₁ k = [] ↔ mapRegister ops₂ obj₂ k = []) :
    mapKeys ops₁ obj₁ = mapKeys ops₂ obj₂ := by
  refine eq_of_pairwise_of_mem_iff (fun _ _ h₁ h₂ => bytesLt_asymm h₁ h₂) _ _ (mapKeys_sorted _ _)
    (mapKeys_sorted _ _) (fun k => ?_)
  rw [mem_mapKeys_iff_register_ne_nil, mem_mapKeys_iff_register_ne_nil, ne_eq, ne_eq, h k]


theorem mapKeys_of_nonempty {ops ops' : List Op} {obj : ObjId} {k : Bytes}
    (hother : ∀ k', k' ≠ k → mapRegister ops' obj k' = mapRegister ops obj k')
    (hk : mapRegister ops' obj k ≠ []) : mapKeys ops' obj = insertKey k (mapKeys ops obj) := by
  refine eq_of_pairwise_of_mem_iff (fun _ _ h₁ h₂ => bytesLt_asymm h₁ h₂) _ _ (mapKeys_sorted _ _)
    (insertKey_sorted _ (mapKeys_sorted _ _)) (fun k' => ?_)
  rw [mem_insertKey, mem_mapKeys_iff_register_ne_nil, mem_mapKeys_iff_register_ne_nil]
  by_cases h : k' = k
  · subst h; simp [hk]
  · rw [hother k' h]; simp [h]

theorem mapKeys_of_empty {ops ops' : List Op} {obj : ObjId} {k : Bytes}
    (hother : ∀ k', k' ≠ k → mapRegister ops' obj k' = mapRegister ops obj k')
    (hk : mapRegister ops' obj k = []) : mapKeys ops' obj = (mapKeys ops obj).filter (fun x => x != k) := by
  refine eq_of_pairwise_of_mem_iff (fun _ _ h₁ h₂ => bytesLt_asymm h₁ h₂) _ _ (mapKeys_sorted _ _)
    (List.Pairwise.filter _ (mapKeys_sorted _ _)) (fun k' => ?_)
  rw [List.mem_filter, mem_mapKeys_iff_register_ne_nil, mem_mapKeys_iff_register_ne_nil]
  by_cases h : k' = k
  · subst h; simp [hk]
  · rw [hother k' h]; simp [h]

theorem map_filter_eq_filterMap {α β : Type} (p : α → Bool) (f : α → β) (l : List α) :
    (l.filter p).map f = l.filterMap (fun x => if p x = true then some (f x) else none) := by
  induction l with
  | nil => rfl
  | cons x xs ih =>
    by_cases h : p x = true <;> simp [h, ih]

/-- an increment of `n` seen on a register entry: counters grow, anything else leaves -/
def Entry.bump (n : Int) (e : Entry) : Option Entry :=
  match e.val with
  | .counter c => some ⟨e.id, .counter (c + n)⟩
  | _ => none

theorem bump_entryOf {ops : List Op} {o x : Op} {n : Int} (hi : o.action = .inc n) (hm : x.id ∈ o.pred) :
    (if x.isCounterPut = true then some (entryOf (ops ++ [o]) x) else none) =
      Entry.bump n (entryOf ops x) := by
  have hinc : o.isInc = true := by simp [Op.isInc, hi]
  have hamt : o.incAmount = n := by simp [Op.incAmount, hi]
  unfold entryOf Entry.bump Op.isCounterPut
  cases ha : x.action with
  | put v =>
    cases v <;> simp
    rw [counterValue_append]
    simp [hinc, hm, hamt]
  | _ => simp

section
variable {e : Enc} {ops : List Op} {t : Tx} {obj : ObjId} {k : Bytes} {ck : Bool} {o : Op}

/-- put / put_object on a map key: the register holds exactly the new value -/
theorem map_value_effect {a : Action} (hs : StrictIds ops) (hlt : ∀ x ∈ ops, x.id.lt t.nextId = true)
    (hnp : ∀ x ∈ ops, t.nextId ∉ x.pred) (h : localPut e ops t obj (.inl k) a ck = .ok [o])
    (hv : o.isValue = true) :
    mapRegister (ops ++ [o]) obj k = [⟨t.nextId, Val.ofAction a⟩] := by
  obtain ⟨act, preds, rfl, hsub, hc⟩ := localPut_map_shape h
  have htx := txOp_mkMapOp (act := act) hs hlt hnp hsub
  rcases hc with ⟨rfl, rfl⟩ | ⟨v, last, rfl, rfl, _⟩
  · rw [mapRegister_eq]
    refine (htx.overwrite_all (by simp [mapSel, mkMapOp]) hv ?_).2
    intro x hx
    exact List.mem_map.mpr ⟨x, hx, rfl⟩
  · simp [mkMapOp, Op.isValue] at hv

/-- put equal to the winner of a conflicted register: the losers are deleted, the winner stays -/
theorem map_put_conflict_effect {v : Scalar} (hs : StrictIds ops) (hlt : ∀ x ∈ ops, x.id.lt t.nextId = true)
    (hnp : ∀ x ∈ ops, t.nextId ∉ x.pred) (h : localPut e ops t obj (.inl k) (.put v) ck = .ok [o])
    (ha : o.action = .del) :
    ∃ w, (mapRegister ops obj k).getLast? = some w ∧ w.val = Val.ofScalar v ∧
      2 ≤ (mapRegister ops obj k).length ∧ mapRegister (ops ++ [o]) obj k = [w] := by
  obtain ⟨act, preds, rfl, hsub, hc⟩ := localPut_map_shape h
  have htx := txOp_mkMapOp (act := act) hs hlt hnp hsub
  rcases hc with ⟨rfl, rfl⟩ | ⟨v', last, hv', rfl, rfl, hg, heq, hne⟩
  · simp [mkMapOp] at ha
  · cases hv'
    have hreg : mapRegOps ops obj k = (mapRegOps ops obj k).dropLast ++ [last] := by
      have hnn : mapRegOps ops obj k ≠ [] := by intro h0; rw [h0] at hg; cases hg
      have := List.dropLast_concat_getLast hnn
      rw [List.getLast?_eq_some_getLast hnn] at hg
      cases hg
      exact this.symm
    have hlv : last.isValue = true := by
      have : last ∈ mapRegOps ops obj k := by rw [hreg]; simp
      have := (mem_regOps.mp this).2.2
      simp only [visible, Bool.and_eq_true] at this
      exact this.1
    refine ⟨entryOf ops last, ?_, (putEqLast_iff hlv).mp heq, ?_, ?_⟩
    · rw [mapRegister_eq, ← mapRegOps_eq, List.getLast?_map, hg]; rfl
    · rw [mapRegister_eq, ← mapRegOps_eq, List.length_map]
      rw [hreg] at hne ⊢
      cases hd : (mapRegOps ops obj k).dropLast with
      | nil => rw [hd] at hne; exact absurd rfl hne
      | cons _ _ => simp
    · rw [mapRegister_eq]
      exact (htx.delete_losers (by simp [mkMapOp, Op.isValue]) (by simp [mkMapOp, Op.isInc])
        (by rw [← mapRegOps_eq]; exact hreg) rfl).2

/-- delete of a map key: the register becomes empty -/
theorem map_delete_effect (hs : StrictIds ops) (hlt : ∀ x ∈ ops, x.id.lt t.nextId = true)
    (hnp : ∀ x ∈ ops, t.nextId ∉ x.pred) (h : localPut e ops t obj (.inl k) .del ck = .ok [o]) :
    mapRegister (ops ++ [o]) obj k = [] := by
  obtain ⟨act, preds, rfl, hsub, hc⟩ := localPut_map_shape h
  have htx := txOp_mkMapOp (act := act) hs hlt hnp hsub
  rcases hc with ⟨rfl, rfl⟩ | ⟨v, last, hv, _⟩
  · rw [mapRegister_eq, htx.delete_all (by simp [mkMapOp, Op.isValue]) (by simp [mkMapOp, Op.isInc])]
    · rfl
    · intro x hx; exact List.mem_map.mpr ⟨x, hx, rfl⟩
  · cases hv

/-- increment of a map key: the counters of the register grow by `n`, other values leave -/
theorem map_increment_effect {n : Int} (hs : StrictIds ops) (hlt : ∀ x ∈ ops, x.id.lt t.nextId = true)
    (hnp : ∀ x ∈ ops, t.nextId ∉ x.pred) (h : localPut e ops t obj (.inl k) (.inc n) ck = .ok [o]) :
    mapRegister (ops ++ [o]) obj k = (mapRegister ops obj k).filterMap (Entry.bump n) := by
  obtain ⟨act, preds, rfl, hsub, hc⟩ := localPut_map_shape h
  have htx := txOp_mkMapOp (act := act) hs hlt hnp hsub
  rcases hc with ⟨rfl, rfl⟩ | ⟨v, last, hv, _⟩
  · have hall : ∀ x ∈ regOps ops (mapSel obj k), x.id ∈ (mkMapOp t obj k (.inc n) (mapRegOps ops obj k)).pred :=
      fun x hx => List.mem_map.mpr ⟨x, hx, rfl⟩
    rw [mapRegister_eq, mapRegister_eq, htx.increment_all (by simp [mkMapOp, Op.isInc]) hall,
      map_filter_eq_filterMap, List.filterMap_map]
    apply filterMap_congr'
    intro x hx
    exact bump_entryOf (by simp [mkMapOp]) (hall x hx)
  · cases hv

end


theorem emitOp_ok_nil_iff {ops reg : List Op} {a : Action} {mk : Action → List Op → Op} :
    emitOp ops reg a mk = .ok [] ↔
      (reg = [] ∧ a = .del) ∨ ∃ v last, a = .put v ∧ reg = [last] ∧ putEqLast ops last v = true := by
  cases a with
  | put v =>
    cases hg : reg.getLast? with
    | none =>
      have : reg = [] := by simpa using hg
      subst this
      simp [emitOp_put_nil]
    | some last =>
      rw [emitOp_put hg]
      by_cases h1 : putEqLast ops last v = true <;> by_cases h2 : reg = [last]
      · simp [h1, h2]
      · have : reg ≠ [] := by intro h; simp [h] at hg
        simp [h1, h2, this]
        intro x hx; rw [hx] at hg; simp at hg; subst hg; exact absurd hx h2
      · subst h2; simp [h1]
      · have : reg ≠ [] := by intro h; simp [h] at hg
        simp [h1, h2, this]
        intro x hx; rw [hx] at hg; simp at hg; subst hg; exact absurd hx h2
  | del => rw [emitOp_del]; by_cases h : reg = [] <;> simp [h]
  | make ty => simp [emitOp_make]
  | inc n => rw [emitOp_inc]; split <;> simp
  | markBegin x y z =>
    unfold emitOp
    by_cases hr : reg = []
    · subst hr; simp [resolveAction_nil]
    · rw [resolveAction_nonput hr (by intro v hv; cases hv)]; simp
  | markEnd x =>
    unfold emitOp
    by_cases hr : reg = []
    · subst hr; simp [resolveAction_nil]
    · rw [resolveAction_nonput hr (by intro v hv; cases hv)]; simp

theorem isValue_of_mem_regOps {ops : List Op} {sel : Op → Bool} {x : Op} (h : x ∈ regOps ops sel) :
    x.isValue = true := by
  have := (mem_regOps.mp h).2.2
  simp only [visible, Bool.and_eq_true] at this
  exact this.1

/-- put on a map key is a no-op exactly when the key holds that single value already -/
theorem localPut_map_put_nil_iff {e : Enc} {ops : List Op} {t : Tx} {obj : ObjId} {k : Bytes} {v : Scalar}
    {ck : Bool} :
    localPut e ops t obj (.inl k) (.put v) ck = .ok [] ↔
      (∃ ty, objType ops obj = some ty ∧ (ck = true → ty = .map)) ∧
      ∃ w, mapRegister ops obj k = [w] ∧ w.val = Val.ofScalar v := by
  cases hty : objType ops obj with
  | none => simp [localPut_of_none hty]
  | some ty =>
    rw [localPut_of_type hty]
    simp only [Option.some.injEq, exists_eq_left']
    by_cases hc : (ck && !(ty == .map)) = true
    · rw [if_pos hc]
      simp at hc
      simp [hc]
    · rw [if_neg hc, localMapOp_eq, emitOp_ok_nil_iff]
      have hc' : ck = true → ty = .map := by simpa using hc
      rw [mapRegister_eq, ← mapRegOps_eq]
      constructor
      · rintro (⟨_, h⟩ | ⟨v', last, hv', hr, hp⟩)
        · cases h
        · cases hv'
          have hlv : last.isValue = true :=
            isValue_of_mem_regOps (sel := mapSel obj k) (by rw [← mapRegOps_eq, hr]; simp)
          exact ⟨hc', entryOf ops last, by rw [hr]; rfl, (putEqLast_iff hlv).mp hp⟩
      · rintro ⟨_, w, hw, hv⟩
        right
        cases hr : mapRegOps ops obj k with
        | nil => rw [hr] at hw; cases hw
        | cons last rest =>
          cases rest with
          | cons _ _ => rw [hr] at hw; simp at hw
          | nil =>
            rw [hr] at hw
            simp at hw
            have hlv : last.isValue = true :=
              isValue_of_mem_regOps (sel := mapSel obj k) (by rw [← mapRegOps_eq, hr]; simp)
            exact ⟨v, last, rfl, rfl, (putEqLast_iff hlv).mpr (hw ▸ hv)⟩

/-- delete of a map key is a no-op exactly when the key has no value -/
theorem localPut_map_del_nil_iff {e : Enc} {ops : List Op} {t : Tx} {obj : ObjId} {k : Bytes} {ck : Bool} :
    localPut e ops t obj (.inl k) .del ck = .ok [] ↔
      (∃ ty, objType ops obj = some ty ∧ (ck = true → ty = .map)) ∧ mapRegister ops obj k = [] := by
  cases hty : objType ops obj with
  | none => simp [localPut_of_none hty]
  | some ty =>
    rw [localPut_of_type hty]
    simp only [Option.some.injEq, exists_eq_left']
    by_cases hc : (ck && !(ty == .map)) = true
    · rw [if_pos hc]
      simp at hc
      simp [hc]
    · rw [if_neg hc, localMapOp_eq, emitOp_ok_nil_iff]
      have hc' : ck = true → ty = .map := by simpa using hc
      simp [mapRegister_eq, mapRegOps_eq]
      exact fun _ => hc'


/-! ## §5 RGA: fuel -/

theorem filter_length_le {α : Type} {p q : α → Bool} {l : List α}
    (hpq : ∀ x ∈ l, p x = true → q x = true) : (l.filter p).length ≤ (l.filter q).length := by
  induction l with
  | nil => simp
  | cons x xs ih =>
    have ih := ih (fun y hy => hpq y (List.mem_cons_of_mem _ hy))
    have hx := hpq x List.mem_cons_self
    cases hp : p x <;> cases hq : q x <;> simp [hp, hq] <;> first | omega | simp_all

theorem filter_length_lt {α : Type} {p q : α → Bool} {l : List α} {c : α}
    (hpq : ∀ x ∈ l, p x = true → q x = true) (hc : c ∈ l) (hq : q c = true) (hp : p c = false) :
    (l.filter p).length < (l.filter q).length := by
  induction l with
  | nil => cases hc
  | cons x xs ih =>
    have hle := filter_length_le (fun y hy => hpq y (List.mem_cons_of_mem _ hy))
    rcases List.mem_cons.mp hc with rfl | hc
    · simp [hp, hq]; omega
    · have ih := ih (fun y hy => hpq y (List.mem_cons_of_mem _ hy)) hc
      have hx := hpq x List.mem_cons_self
      cases hp' : p x <;> cases hq' : q x <;> simp [hp', hq'] <;> first | omega | simp_all

/-- every insert op's reference element has a smaller id (an element is created after the element
    it is inserted behind) -/
def RefsSmaller (ops : List Op) : Prop :=
  ∀ o ∈ ops, o.insert = true → (match o.key with | .elem e => e.lt o.id | _ => true) = true

instance (ops : List Op) : Decidable (RefsSmaller ops) := by
  unfold RefsSmaller; infer_instance

theorem RefsSmaller.lt {ops : List Op} (h : RefsSmaller ops) {o : Op} (ho : o ∈ ops) (hi : o.insert = true)
    {e : OpId} (hk : o.key = .elem e) : e.lt o.id = true := by
  have := h o ho hi
  rw [hk] at this
  exact this

/-- number of ops with an id above the reference element: bounds the depth of the walk below it -/
def above (ops : List Op) : Key → Nat
  | .elem e => (ops.filter (fun x => e.lt x.id)).length
  | _ => ops.length

theorem above_le (ops : List Op) (p : Key) : above ops p ≤ ops.length := by
  cases p <;> simp [above, List.length_filter_le]

theorem above_child {ops : List Op} (h : RefsSmaller ops) {obj : ObjId} {p : Key} {c : Op}
    (hc : c ∈ children ops obj p) : above ops (.elem c.id) < above ops p := by
  obtain ⟨hco, _, hci, hck⟩ := mem_children.mp hc
  have hlt : (ops.filter (fun x => c.id.lt x.id)).length < ops.length := by
    simp
    exact ⟨c, hco, OpId.lt_irrefl _⟩
  cases p with
  | elem e =>
    have hec := h.lt hco hci hck
    exact filter_length_lt (fun x _ hx => OpId.lt_trans hec hx) hco hec (OpId.lt_irrefl _)
  | head => exact hlt
  | map k => exact hlt

theorem flatMap_congr' {α β : Type} {f g : α → List β} {l : List α} (h : ∀ a ∈ l, f a = g a) :
    l.flatMap f = l.flatMap g := by
  induction l with
  | nil => rfl
  | cons x xs ih =>
    rw [List.flatMap_cons, List.flatMap_cons, h x List.mem_cons_self,
      ih (fun a ha => h a (List.mem_cons_of_mem _ ha))]

/-- one more unit of fuel changes nothing once the fuel exceeds the depth bound -/
theorem rgaFrom_fuel_succ {ops : List Op} (h : RefsSmaller ops) (obj : ObjId) :
    ∀ (f : Nat) (p : Key), above ops p < f → rgaFrom ops obj f p = rgaFrom ops obj (f + 1) p
  | 0, _, hf => by omega
  | f + 1, p, hf => by
    rw [rgaFrom_succ, rgaFrom_succ]
    apply flatMap_congr'
    intro c hc
    have := above_child h hc
    rw [rgaFrom_fuel_succ h obj f (.elem c.id) (by omega)]

theorem rgaFrom_fuel {ops : List Op} (h : RefsSmaller ops) (obj : ObjId) (p : Key) :
    ∀ (n : Nat), rgaFrom ops obj (ops.length + 1 + n) p = rgaFrom ops obj (ops.length + 1) p
  | 0 => rfl
  | n + 1 => by
    rw [← rgaFrom_fuel h obj p n, ← Nat.add_assoc]
    exact (rgaFrom_fuel_succ h obj _ p (by have := above_le ops p; omega)).symm

/-- `rgaOrder` with any fuel beyond its own -/
theorem rgaOrder_eq_fuel {ops : List Op} (h : RefsSmaller ops) (obj : ObjId) {f : Nat}
    (hf : ops.length + 1 ≤ f) : rgaFrom ops obj f .head = rgaOrder ops obj := by
  obtain ⟨n, rfl⟩ := Nat.exists_eq_add_of_le hf
  exact rgaFrom_fuel h obj .head n

/-! ### a non-insert op does not touch the order -/

theorem children_append_noninsert (ops : List Op) {o : Op} (ho : o.insert = false) (obj : ObjId) (p : Key) :
    children (ops ++ [o]) obj p = children ops obj p := by
  unfold children
  rw [filter_append_singleton]
  simp [ho]

theorem rgaFrom_append_noninsert (ops : List Op) {o : Op} (ho : o.insert = false) (obj : ObjId) :
    ∀ (f : Nat) (p : Key), rgaFrom (ops ++ [o]) obj f p = rgaFrom ops obj f p
  | 0, _ => rfl
  | f + 1, p => by
    rw [rgaFrom_succ, rgaFrom_succ, children_append_noninsert ops ho]
    apply flatMap_congr'
    intro c _
    rw [rgaFrom_append_noninsert ops ho obj f]

theorem rgaOrder_append_noninsert {ops : List Op} (h : RefsSmaller ops) {o : Op} (ho : o.insert = false)
    (obj : ObjId) : rgaOrder (ops ++ [o]) obj = rgaOrder ops obj := by
  unfold rgaOrder
  rw [rgaFrom_append_noninsert ops ho]
  exact rgaOrder_eq_fuel h obj (by simp)


theorem seqElems_congr {ops ops' : List Op} {obj : ObjId} (ho : rgaOrder ops' obj = rgaOrder ops obj)
    (hr : ∀ c ∈ rgaOrder ops obj, elemRegister ops' obj c.id = elemRegister ops obj c.id) :
    seqElems ops' obj = seqElems ops obj := by
  unfold seqElems
  rw [ho]
  apply filterMap_congr'
  intro c hc
  rw [hr c hc]

/-- a map op leaves every other object's sequence reading alone, and the element order of every
    object -/
theorem TxOp.map_other_seq {ops : List Op} {o : Op} {obj : ObjId} {k : Bytes}
    (h : TxOp ops o (mapSel obj k)) (hr : RefsSmaller ops) (ho : o.obj = obj) (hi : o.insert = false)
    (obj' : ObjId) :
    rgaOrder (ops ++ [o]) obj' = rgaOrder ops obj' ∧
    (obj' ≠ obj → seqElems (ops ++ [o]) obj' = seqElems ops obj') :=
  ⟨rgaOrder_append_noninsert hr hi obj', fun hne =>
    seqElems_congr (rgaOrder_append_noninsert hr hi obj') (fun c _ => h.map_other_elemRegister ho c.id hne)⟩

/-- a map op leaves the key set of every other object alone -/
theorem TxOp.map_other_keys {ops : List Op} {o : Op} {obj : ObjId} {k : Bytes}
    (h : TxOp ops o (mapSel obj k)) (ho : o.obj = obj) (hk : o.key = .map k) {obj' : ObjId} (hne : obj' ≠ obj) :
    mapKeys (ops ++ [o]) obj' = mapKeys ops obj' :=
  mapKeys_eq_of_register_iff (fun k' => by rw [h.map_other_register ho hk (.inl hne)])


/-! ### objects: type lookup and emptiness of a new object -/

theorem objType_append_new {ops : List Op} {o : Op} {ty : ObjType} (hlt : ∀ x ∈ ops, x.id.lt o.id = true)
    (ha : o.action = .make ty) : objType (ops ++ [o]) (.id o.id) = some ty := by
  have hnone : ops.find? (fun p => p.id == o.id) = none := by
    rw [List.find?_eq_none]
    intro x hx he
    have := hlt x hx
    rw [beq_iff_eq.mp he, OpId.lt_irrefl] at this
    cases this
  simp [objType, List.find?_append, hnone, ha]

theorem objType_append_old {ops : List Op} {o : Op} {obj : ObjId} (hne : obj ≠ .id o.id) :
    objType (ops ++ [o]) obj = objType ops obj := by
  cases obj with
  | root => rfl
  | id i =>
    have hi : (o.id == i) = false := by
      simp only [beq_eq_false_iff_ne, ne_eq]
      intro h; exact hne (by rw [h])
    simp only [objType, List.find?_append]
    cases ops.find? (fun p => p.id == i) with
    | some x => rfl
    | none => simp [hi]

/-- an object that exists has an id below the transaction's next id -/
theorem obj_ne_next_of_objType {ops : List Op} {obj : ObjId} {n : OpId} {ty : ObjType}
    (hlt : ∀ x ∈ ops, x.id.lt n = true) (h : objType ops obj = some ty) : obj ≠ .id n := by
  rintro rfl
  simp only [objType] at h
  cases hf : ops.find? (fun p => p.id == n) with
  | none => rw [hf] at h; cases h
  | some x =>
    have hx := List.mem_of_find?_eq_some hf
    have he : x.id = n := by simpa using List.find?_some hf
    have := hlt x hx
    rw [he, OpId.lt_irrefl] at this
    cases this

theorem mapKeys_eq_nil_of_no_ops {ops : List Op} {obj : ObjId} (h : ∀ x ∈ ops, x.obj ≠ obj) :
    mapKeys ops obj = [] := by
  have : ops.filter (fun o => o.obj == obj && visible ops o) = [] := by
    rw [List.filter_eq_nil_iff]
    intro x hx
    simp [h x hx]
  rw [mapKeys_eq_keysOf, this]; rfl

theorem rgaOrder_eq_nil_of_no_ops {ops : List Op} {obj : ObjId} (h : ∀ x ∈ ops, x.obj ≠ obj) :
    rgaOrder ops obj = [] := by
  have : children ops obj .head = [] := by
    unfold children
    have : ops.filter (fun o => o.obj == obj && o.insert && o.key == Key.head) = [] := by
      rw [List.filter_eq_nil_iff]
      intro x hx
      simp [h x hx]
    rw [this]; rfl
  unfold rgaOrder
  rw [rgaFrom_succ, this]; rfl

theorem seqElems_eq_nil_of_no_ops {ops : List Op} {obj : ObjId} (h : ∀ x ∈ ops, x.obj ≠ obj) :
    seqElems ops obj = [] := by
  unfold seqElems
  rw [rgaOrder_eq_nil_of_no_ops h]; rfl

/-- the object a `make` op of the transaction creates is empty -/
theorem new_object_empty {ops : List Op} {o : Op} {ty : ObjType} (hlt : ∀ x ∈ ops, x.id.lt o.id = true)
    (hobj : ∀ x ∈ ops, x.obj ≠ .id o.id) (hoo : o.obj ≠ .id o.id) (ha : o.action = .make ty) :
    objType (ops ++ [o]) (.id o.id) = some ty ∧ mapKeys (ops ++ [o]) (.id o.id) = [] ∧
      seqElems (ops ++ [o]) (.id o.id) = [] := by
  have hno : ∀ x ∈ ops ++ [o], x.obj ≠ .id o.id := by
    intro x hx
    rcases List.mem_append.mp hx with hx | hx
    · exact hobj x hx
    · have : x = o := by simpa using hx
      subst this; exact hoo
  exact ⟨objType_append_new hlt ha, mapKeys_eq_nil_of_no_ops hno, seqElems_eq_nil_of_no_ops hno⟩

/-! ### the transaction after a call, and commit -/

/-- the open transaction after a call (what `Driver.Crdt.edit` does with the result): new ops are
    appended on success, a failed call leaves the transaction as it was -/
def Tx.after (t : Tx) (res : Except EditErr (List Op)) : Tx :=
  match res with
  | .ok new => { t with pending := t.pending ++ new }
  | .error _ => t

theorem emitOp_ok_cases {ops reg : List Op} {a : Action} {mk : Action → List Op → Op} {l : List Op}
    (h : emitOp ops reg a mk = .ok l) : l = [] ∨ ∃ o, l = [o] := by
  unfold emitOp at h
  cases hr : resolveAction ops reg a with
  | none => rw [hr] at h; cases h; exact .inl rfl
  | some p =>
    obtain ⟨act, preds⟩ := p
    rw [hr] at h
    simp only at h
    (repeat' split at h) <;> first | (cases h; done) | (cases h; exact .inr ⟨_, rfl⟩)

theorem localPut_map_ok_cases {e : Enc} {ops : List Op} {t : Tx} {obj : ObjId} {k : Bytes} {a : Action}
    {ck : Bool} {l : List Op} (h : localPut e ops t obj (.inl k) a ck = .ok l) : l = [] ∨ ∃ o, l = [o] := by
  obtain ⟨_, _, _, h'⟩ := localPut_map_ok h
  exact emitOp_ok_cases h'

/-- `localSpliceText` with the pieces of the text as a parameter (`utf8Chars` is defined by
    well-founded recursion and does not evaluate in the kernel) -/
def spliceWith (e : Enc) (ops : List Op) (t : Tx) (obj : ObjId) (index del : Nat) (pieces : List Bytes) :
    Except EditErr (List Op) :=
  match objMeta ops obj with
  | .error err => .error err
  | .ok ty =>
    if ty != .text then .error .invalidOp else
    match (if pieces.isEmpty then (.ok (.head, index) : Except EditErr (Key × Nat))
           else insertRef e true (seqRegs ops obj) index 0 .head) with
    | .error err => .error err
    | .ok (key, idx) =>
      let ins := chainInserts t obj pieces key 0
      let insertedWidth := (pieces.map (width e)).foldl (· + ·) 0
      let t' : Tx := { t with pending := t.pending ++ ins }
      let dels := deleteLoop e true t' obj (del + 1) (ops ++ ins) (idx + insertedWidth) 0 del []
      .ok (ins ++ dels)

theorem localSpliceText_eq (e : Enc) (ops : List Op) (t : Tx) (obj : ObjId) (index del : Nat) (text : Bytes) :
    localSpliceText e ops t obj index del text = spliceWith e ops t obj index del (utf8Chars text) := rfl

theorem utf8Chars_nil : utf8Chars [] = [] := by simp [utf8Chars]

/-- a run of ASCII bytes splits into single bytes -/
theorem utf8Chars_ascii : ∀ (bs : Bytes), (∀ b ∈ bs, b.toNat < 0x80) → utf8Chars bs = bs.map (fun b => [b])
  | [], _ => by simp [utf8Chars]
  | b :: rest, h => by
    have hb := h b List.mem_cons_self
    rw [utf8Chars]
    simp only [hb, if_true, List.take_zero, List.drop_zero, List.map_cons]
    rw [utf8Chars_ascii rest (fun x hx => h x (List.mem_cons_of_mem _ hx))]

end AmVerif.Crdt
