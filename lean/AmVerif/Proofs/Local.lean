import AmVerif.Model.Local
import AmVerif.Proofs.Spec
/-
  Proofs about `AmVerif.Model.Local` (which ops a local editing call appends) read through
  `AmVerif.Model.Spec` (what an op set shows): helper lemmas for C03 / C04.

  §1  appending one op to an op list: `visible`, `counterValue`, `entryOf`, registers (`regOps`).
  §2  `resolveAction`, and the op `localMapOp` / `localListOp` produce (`emitOp`).
  §3  failure characterisations of every call.
  §4  effects of an appended op on a register (`TxOp`); map put / delete / increment / put_object.
  §5  RGA: fuel suffices under `RefsSmaller`; a non-insert op leaves the order alone.
  §6  metadata of the committed change (C04): start op, numbering of ops, seq, deps.
  §7  list / text elements: update, delete, increment.
  §8  RGA: inserting an element (`rgaFrom_insert`), registers and visible elements after an insert.
  Continued in `Proofs/LocalSeq.lean` (`localInsert`, positions, no id twice in the order) and
  `Proofs/LocalSplice.lean` (`localSpliceText`).
-/
namespace AmVerif.Crdt
open AmVerif

/-- equality of call results is decidable (used by the `decide` examples) -/
instance instDecidableEqExcept {ε α : Type} [DecidableEq ε] [DecidableEq α] : DecidableEq (Except ε α)
  | .ok a, .ok b => if h : a = b then isTrue (by rw [h]) else isFalse (by intro h'; cases h'; exact h rfl)
  | .error a, .error b => if h : a = b then isTrue (by rw [h]) else isFalse (by intro h'; cases h'; exact h rfl)
  | .ok _, .error _ => isFalse (by intro h; cases h)
  | .error _, .ok _ => isFalse (by intro h; cases h)

/-! ## §1 appending one op -/

theorem overwritten_append (ops : List Op) (o x : Op) :
    overwritten (ops ++ [o]) x = (overwritten ops x || overwrites o x) := by
  simp [overwritten, List.any_append]

theorem visible_append (ops : List Op) (o x : Op) :
    visible (ops ++ [o]) x = (visible ops x && !overwrites o x) := by
  simp [visible, overwritten_append, Bool.and_assoc]

theorem overwrites_of_not_pred {o x : Op} (h : x.id ∉ o.pred) : overwrites o x = false := by
  simp [overwrites, h]

theorem filter_append_singleton {α : Type} (p : α → Bool) (l : List α) (a : α) :
    (l ++ [a]).filter p = l.filter p ++ (if p a = true then [a] else []) := by
  rw [List.filter_append]
  by_cases h : p a = true <;> simp [h]

theorem counterValue_append (ops : List Op) (o x : Op) (init : Int) :
    counterValue (ops ++ [o]) x init =
      counterValue ops x init + (if (o.isInc && o.pred.contains x.id) = true then o.incAmount else 0) := by
  rw [counter_value_sum, counter_value_sum, filter_append_singleton, List.map_append, List.sum_append]
  split
  · simp only [List.map_cons, List.map_nil, List.sum_cons, List.sum_nil]; omega
  · simp only [List.map_nil, List.sum_nil]; omega

theorem counterValue_append_of_not (ops : List Op) (o x : Op) (init : Int)
    (h : (o.isInc && o.pred.contains x.id) = false) :
    counterValue (ops ++ [o]) x init = counterValue ops x init := by
  rw [counterValue_append, h]; simp

theorem entryOf_append_of_not (ops : List Op) (o x : Op)
    (h : (o.isInc && o.pred.contains x.id) = false) : entryOf (ops ++ [o]) x = entryOf ops x := by
  unfold entryOf
  split <;> simp only [counterValue_append_of_not ops o x _ h]

/-- the visible ops (ascending id) selected by `sel`: the common shape of `mapRegOps`/`elemRegOps` -/
def regOps (ops : List Op) (sel : Op → Bool) : List Op :=
  sortById (ops.filter (fun x => sel x && visible ops x))

def mapSel (obj : ObjId) (k : Bytes) (o : Op) : Bool := o.obj == obj && o.key == .map k
def elemSel (obj : ObjId) (e : OpId) (o : Op) : Bool := o.obj == obj && o.elem == some e

theorem mapRegOps_eq (ops : List Op) (obj : ObjId) (k : Bytes) :
    mapRegOps ops obj k = regOps ops (mapSel obj k) := rfl
theorem elemRegOps_eq (ops : List Op) (obj : ObjId) (e : OpId) :
    elemRegOps ops obj e = regOps ops (elemSel obj e) := rfl
theorem mapRegister_eq (ops : List Op) (obj : ObjId) (k : Bytes) :
    mapRegister ops obj k = (regOps ops (mapSel obj k)).map (entryOf ops) := rfl
theorem elemRegister_eq (ops : List Op) (obj : ObjId) (e : OpId) :
    elemRegister ops obj e = (regOps ops (elemSel obj e)).map (entryOf ops) := rfl

theorem mem_regOps {ops : List Op} {sel : Op → Bool} {x : Op} :
    x ∈ regOps ops sel ↔ x ∈ ops ∧ sel x = true ∧ visible ops x = true := by
  simp [regOps, mem_sortById, List.mem_filter]

theorem regOps_append (ops : List Op) (o : Op) (sel : Op → Bool) :
    regOps (ops ++ [o]) sel =
      sortById (ops.filter (fun x => sel x && (visible ops x && !overwrites o x)) ++
        (if (sel o && visible (ops ++ [o]) o) = true then [o] else [])) := by
  unfold regOps
  rw [filter_append_singleton]
  simp only [visible_append]

/-- an appended op that names none of the selected ops and is not selected itself leaves the
    selection alone -/
theorem regOps_append_other {ops : List Op} {o : Op} {sel : Op → Bool}
    (hp : ∀ x ∈ ops, sel x = true → x.id ∉ o.pred)
    (ho : (sel o && visible (ops ++ [o]) o) = false) :
    regOps (ops ++ [o]) sel = regOps ops sel := by
  rw [regOps_append, ho]
  simp only [Bool.false_eq_true, if_false, List.append_nil]
  unfold regOps
  congr 1
  apply List.filter_congr
  intro x hx
  by_cases hs : sel x = true
  · simp [hs, overwrites_of_not_pred (hp x hx hs)]
  · simp [hs]

theorem register_append_other {ops : List Op} {o : Op} {sel : Op → Bool}
    (hp : ∀ x ∈ ops, sel x = true → x.id ∉ o.pred)
    (ho : (sel o && visible (ops ++ [o]) o) = false) :
    (regOps (ops ++ [o]) sel).map (entryOf (ops ++ [o])) = (regOps ops sel).map (entryOf ops) := by
  rw [regOps_append_other hp ho]
  apply List.map_congr_left
  intro x hx
  obtain ⟨hx, hs, _⟩ := mem_regOps.mp hx
  apply entryOf_append_of_not
  have := hp x hx hs
  simp [this]

/-! ### sorting with a greatest element appended -/

theorem insertById_append_last {x o : Op} (h : x.id.lt o.id = true) (s : List Op) :
    insertById x (s ++ [o]) = insertById x s ++ [o] := by
  induction s with
  | nil => simp [insertById, h]
  | cons y s ih =>
    simp only [List.cons_append, insertById]
    split
    · rfl
    · rw [ih]; rfl

theorem sortById_append_last {l : List Op} {o : Op} (h : ∀ x ∈ l, x.id.lt o.id = true) :
    sortById (l ++ [o]) = sortById l ++ [o] := by
  induction l with
  | nil => rfl
  | cons y l ih =>
    show insertById y (sortById (l ++ [o])) = insertById y (sortById l) ++ [o]
    rw [ih (fun x hx => h x (List.mem_cons_of_mem _ hx)),
      insertById_append_last (h y List.mem_cons_self)]

/-! ## §2 `resolveAction` and the op a map / list call produces -/

/-- how a scalar reads as a register value -/
def Val.ofScalar : Scalar → Val
  | .counter i => .counter i
  | s => .scalar s

/-- the comparison made by `resolveAction`: the put value equals the winner's current value -/
def putEqLast (ops : List Op) (last : Op) (v : Scalar) : Bool :=
  match last.action with
  | .put w => v == (match w with | .counter i => Scalar.counter (counterValue ops last i) | x => x)
  | _ => false

theorem putEqLast_iff {ops : List Op} {last : Op} {v : Scalar} (hv : last.isValue = true) :
    putEqLast ops last v = true ↔ (entryOf ops last).val = Val.ofScalar v := by
  unfold putEqLast entryOf
  cases ha : last.action with
  | put w => cases w <;> cases v <;> simp [Val.ofScalar] <;>
      (constructor <;> intro h <;> simp [h])
  | make t => cases v <;> simp [Val.ofScalar]
  | del => simp [Op.isValue, ha] at hv
  | inc n => simp [Op.isValue, ha] at hv
  | markBegin a b c => simp [Op.isValue, ha] at hv
  | markEnd a => simp [Op.isValue, ha] at hv

theorem getLast?_length_one {α : Type} {l : List α} {a : α} (h : l.getLast? = some a) :
    (l.length == 1) = true ↔ l = [a] := by
  cases l with
  | nil => simp at h
  | cons x xs =>
    cases xs with
    | nil => simp at h; simp [h]
    | cons y ys => simp

theorem resolveAction_nil (ops : List Op) (a : Action) :
    resolveAction ops [] a = if a == .del then none else some (a, []) := rfl

theorem resolveAction_put {ops reg : List Op} {last : Op} (hg : reg.getLast? = some last) (v : Scalar) :
    resolveAction ops reg (.put v) =
      if putEqLast ops last v = true then (if reg = [last] then none else some (.del, reg.dropLast))
      else some (.put v, reg) := by
  have h1 := getLast?_length_one hg
  unfold resolveAction
  rw [hg]
  cases hl : last.action <;> simp [putEqLast, hl]
  by_cases h : reg = [last]
  · rename_i w; cases w <;> simp [h]
  · have : ¬ reg.length = 1 := fun hh => h (h1.mp (by simpa using hh))
    rename_i w; cases w <;> simp [h, this]

theorem resolveAction_nonput {ops reg : List Op} {a : Action} (hne : reg ≠ [])
    (ha : ∀ v, a ≠ .put v) : resolveAction ops reg a = some (a, reg) := by
  unfold resolveAction
  cases hg : reg.getLast? with
  | none => exact absurd (by simpa using hg) hne
  | some last =>
    cases a <;> first | exact absurd rfl (ha _) | rfl

/-- the common tail of `localMapOp` / `localListOp` -/
def emitOp (ops reg : List Op) (a : Action) (mk : Action → List Op → Op) : Except EditErr (List Op) :=
  match resolveAction ops reg a with
  | none => .ok []
  | some (act, preds) =>
    let isIncr := match act with | .inc _ => true | _ => false
    if isIncr && preds.all (fun o => !o.isCounterPut) then .error .missingCounter
    else .ok [mk act preds]

def mkMapOp (t : Tx) (obj : ObjId) (k : Bytes) (act : Action) (preds : List Op) : Op :=
  ⟨t.nextId, obj, .map k, false, act, preds.map (·.id)⟩

def mkElemOp (t : Tx) (obj : ObjId) (e : OpId) (act : Action) (preds : List Op) : Op :=
  ⟨t.nextId, obj, .elem e, false, act, preds.map (·.id)⟩

theorem localMapOp_eq (ops : List Op) (t : Tx) (obj : ObjId) (k : Bytes) (a : Action) :
    localMapOp ops t obj k a = emitOp ops (mapRegOps ops obj k) a (mkMapOp t obj k) := rfl

theorem emitOp_put_nil (ops : List Op) (v : Scalar) (mk : Action → List Op → Op) :
    emitOp ops [] (.put v) mk = .ok [mk (.put v) []] := rfl

theorem emitOp_put {ops reg : List Op} {last : Op} (hg : reg.getLast? = some last) (v : Scalar)
    (mk : Action → List Op → Op) :
    emitOp ops reg (.put v) mk =
      if putEqLast ops last v = true then (if reg = [last] then .ok [] else .ok [mk .del reg.dropLast])
      else .ok [mk (.put v) reg] := by
  unfold emitOp
  rw [resolveAction_put hg]
  by_cases h1 : putEqLast ops last v = true <;> by_cases h2 : reg = [last] <;> simp [h1, h2]

theorem emitOp_del (ops reg : List Op) (mk : Action → List Op → Op) :
    emitOp ops reg .del mk = if reg = [] then .ok [] else .ok [mk .del reg] := by
  unfold emitOp
  by_cases h : reg = []
  · subst h; simp [resolveAction_nil]
  · rw [resolveAction_nonput h (by intro v hv; cases hv)]; simp [h]

theorem emitOp_make (ops reg : List Op) (ty : ObjType) (mk : Action → List Op → Op) :
    emitOp ops reg (.make ty) mk = .ok [mk (.make ty) reg] := by
  unfold emitOp
  by_cases h : reg = []
  · subst h; simp [resolveAction_nil]
  · rw [resolveAction_nonput h (by intro v hv; cases hv)]; simp

theorem emitOp_inc (ops reg : List Op) (n : Int) (mk : Action → List Op → Op) :
    emitOp ops reg (.inc n) mk =
      if reg.all (fun o => !o.isCounterPut) = true then .error .missingCounter else .ok [mk (.inc n) reg] := by
  unfold emitOp
  by_cases h : reg = []
  · subst h; simp [resolveAction_nil]
  · rw [resolveAction_nonput h (by intro v hv; cases hv)]; simp

/-- `emitOp` fails only for an increment of a register with no visible counter -/
theorem emitOp_error_iff {ops reg : List Op} {a : Action} {mk : Action → List Op → Op} {e : EditErr} :
    emitOp ops reg a mk = .error e ↔
      e = .missingCounter ∧ (∃ n, a = .inc n) ∧ ∀ x ∈ reg, x.isCounterPut = false := by
  cases a with
  | inc n =>
    rw [emitOp_inc]
    by_cases h : reg.all (fun o => !o.isCounterPut) = true
    · simp only [h, if_true]
      have h' : ∀ x ∈ reg, x.isCounterPut = false := by simpa using h
      constructor
      · intro he; cases he; exact ⟨rfl, ⟨n, rfl⟩, h'⟩
      · rintro ⟨rfl, _, _⟩; rfl
    · simp only [h]
      have h' : ¬ ∀ x ∈ reg, x.isCounterPut = false := by simpa using h
      constructor
      · intro he; cases he
      · rintro ⟨_, _, hh⟩; exact absurd hh h'
  | put v =>
    cases hg : reg.getLast? with
    | none =>
      have : reg = [] := by simpa using hg
      subst this
      simp [emitOp_put_nil]
    | some last =>
      rw [emitOp_put hg]
      by_cases h1 : putEqLast ops last v = true <;> by_cases h2 : reg = [last] <;> simp [h1, h2]
  | del => rw [emitOp_del]; by_cases h : reg = [] <;> simp [h]
  | make ty => simp [emitOp_make]
  | markBegin a b c =>
    unfold emitOp
    by_cases h : reg = []
    · subst h; simp [resolveAction_nil]
    · rw [resolveAction_nonput h (by intro v hv; cases hv)]; simp
  | markEnd a =>
    unfold emitOp
    by_cases h : reg = []
    · subst h; simp [resolveAction_nil]
    · rw [resolveAction_nonput h (by intro v hv; cases hv)]; simp

/-! ## §3 failure characterisations -/

/-- width in units of a visible element: the width of its winner -/
def regWidth (e : Enc) (isText : Bool) (r : List Op) : Nat :=
  match r.getLast? with | some o => opWidth e isText o | none => 0

/-- total length in units of a sequence -/
def unitsLen (e : Enc) (isText : Bool) (regs : List (OpId × List Op)) : Nat :=
  (regs.map (fun p => regWidth e isText p.2)).sum

theorem unitsLen_cons (e : Enc) (isText : Bool) (p : OpId × List Op) (regs : List (OpId × List Op)) :
    unitsLen e isText (p :: regs) = regWidth e isText p.2 + unitsLen e isText regs := by
  simp [unitsLen]

theorem seekByIndex_cons (e : Enc) (isText : Bool) (id : OpId) (r : List Op) (rest : List (OpId × List Op))
    (index start : Nat) :
    seekByIndex e isText ((id, r) :: rest) index start =
      if index < start + regWidth e isText r then some (id, r, start)
      else seekByIndex e isText rest index (start + regWidth e isText r) := rfl

theorem insertRef_cons (e : Enc) (isText : Bool) (id : OpId) (r : List Op) (rest : List (OpId × List Op))
    (target acc : Nat) (last : Key) :
    insertRef e isText ((id, r) :: rest) target acc last =
      if acc ≥ target then .ok (last, acc)
      else insertRef e isText rest target (acc + regWidth e isText r) (.elem id) := rfl

theorem seekByIndex_eq_none {e : Enc} {isText : Bool} {regs : List (OpId × List Op)} {index start : Nat}
    (hs : start ≤ index) :
    seekByIndex e isText regs index start = none ↔ start + unitsLen e isText regs ≤ index := by
  induction regs generalizing start with
  | nil => simp [seekByIndex, unitsLen, hs]
  | cons p regs ih =>
    obtain ⟨id, r⟩ := p
    rw [seekByIndex_cons, unitsLen_cons]
    generalize regWidth e isText r = w
    split
    · simp; omega
    · rw [ih (by omega)]; omega

theorem insertRef_error_iff {e : Enc} {isText : Bool} {regs : List (OpId × List Op)} {target acc : Nat}
    {last : Key} {err : EditErr} :
    insertRef e isText regs target acc last = .error err ↔
      err = .index ∧ acc + unitsLen e isText regs < target := by
  induction regs generalizing acc last with
  | nil =>
    simp only [insertRef, unitsLen, List.map_nil, List.sum_nil, Nat.add_zero]
    split
    · simp; omega
    · simp; constructor
      · intro h; exact ⟨h.symm, by omega⟩
      · intro h; exact h.1.symm
  | cons p regs ih =>
    obtain ⟨id, r⟩ := p
    rw [insertRef_cons, unitsLen_cons]
    generalize regWidth e isText r = w
    split
    · simp; omega
    · rw [ih, Nat.add_assoc]


theorem objMeta_eq_error {ops : List Op} {obj : ObjId} {err : EditErr} :
    objMeta ops obj = .error err ↔ err = .objid ∧ objType ops obj = none := by
  unfold objMeta
  cases objType ops obj
  · simp; exact eq_comm
  · simp

theorem objMeta_eq_ok {ops : List Op} {obj : ObjId} {ty : ObjType} :
    objMeta ops obj = .ok ty ↔ objType ops obj = some ty := by
  unfold objMeta
  cases objType ops obj <;> simp

theorem localListOp_eq (e : Enc) (ops : List Op) (t : Tx) (obj : ObjId) (ty : ObjType) (i : Nat) (a : Action) :
    localListOp e ops t obj ty i a =
      if !isSeq ty then .error .invalidOp else
      match seekByIndex e (ty == .text) (seqRegs ops obj) i 0 with
      | none => .error .index
      | some (eid, reg, _) => emitOp ops reg a (mkElemOp t obj eid) := by
  unfold localListOp emitOp mkElemOp
  rfl

theorem localListOp_error_iff {e : Enc} {ops : List Op} {t : Tx} {obj : ObjId} {ty : ObjType} {i : Nat}
    {a : Action} {err : EditErr} :
    localListOp e ops t obj ty i a = .error err ↔
      (err = .invalidOp ∧ isSeq ty = false) ∨
      (err = .index ∧ isSeq ty = true ∧ unitsLen e (ty == .text) (seqRegs ops obj) ≤ i) ∨
      (err = .missingCounter ∧ isSeq ty = true ∧ (∃ n, a = .inc n) ∧
        ∃ eid reg st, seekByIndex e (ty == .text) (seqRegs ops obj) i 0 = some (eid, reg, st) ∧
          ∀ x ∈ reg, x.isCounterPut = false) := by
  rw [localListOp_eq]
  cases hs : isSeq ty
  · simp; exact eq_comm
  · simp only [Bool.not_true, Bool.false_eq_true, if_false]
    cases hk : seekByIndex e (ty == .text) (seqRegs ops obj) i 0 with
    | none =>
      have := (seekByIndex_eq_none (Nat.zero_le _)).mp hk
      simp at this
      simp [this]; exact eq_comm
    | some r =>
      obtain ⟨eid, reg, st⟩ := r
      have hn : ¬ (unitsLen e (ty == .text) (seqRegs ops obj) ≤ i) := by
        intro h
        have := (seekByIndex_eq_none (start := 0) (Nat.zero_le _)).mpr (by simpa using h)
        rw [hk] at this; cases this
      simp only [emitOp_error_iff]
      constructor
      · rintro ⟨h1, h2, h3⟩; exact .inr (.inr ⟨h1, trivial, h2, eid, reg, st, rfl, h3⟩)
      · rintro (⟨_, h⟩ | ⟨_, _, h⟩ | ⟨h1, _, h2, eid', reg', st', he, h3⟩)
        · cases h
        · exact absurd h hn
        · cases he; exact ⟨h1, h2, h3⟩

/-- `localPut` unfolded once the object type is known -/
theorem localPut_of_type {e : Enc} {ops : List Op} {t : Tx} {obj : ObjId} {ty : ObjType}
    (hty : objType ops obj = some ty) (prop : Sum Bytes Nat) (a : Action) (ck : Bool) :
    localPut e ops t obj prop a ck =
      match prop with
      | .inl k => if ck && !(ty == .map) then .error .invalidOp else localMapOp ops t obj k a
      | .inr i => if ck && !isSeq ty then .error .invalidOp else localListOp e ops t obj ty i a := by
  unfold localPut
  rw [objMeta_eq_ok.mpr hty]
  cases prop <;> rfl

theorem localPut_of_none {e : Enc} {ops : List Op} {t : Tx} {obj : ObjId}
    (hty : objType ops obj = none) (prop : Sum Bytes Nat) (a : Action) (ck : Bool) :
    localPut e ops t obj prop a ck = .error .objid := by
  unfold localPut objMeta
  rw [hty]

theorem localPut_error_objid {e : Enc} {ops : List Op} {t : Tx} {obj : ObjId} {prop : Sum Bytes Nat}
    {a : Action} {ck : Bool} :
    localPut e ops t obj prop a ck = .error .objid ↔ objType ops obj = none := by
  cases hty : objType ops obj with
  | none => simp [localPut_of_none hty]
  | some ty =>
    rw [localPut_of_type hty]
    cases prop with
    | inl k =>
      simp only
      split
      · simp
      · rw [localMapOp_eq, emitOp_error_iff]; simp
    | inr i =>
      simp only
      split
      · simp
      · rw [localListOp_error_iff]; simp


theorem localPut_error_invalidOp {e : Enc} {ops : List Op} {t : Tx} {obj : ObjId} {prop : Sum Bytes Nat}
    {a : Action} {ck : Bool} :
    localPut e ops t obj prop a ck = .error .invalidOp ↔
      ∃ ty, objType ops obj = some ty ∧
        match prop with
        | .inl _ => ck = true ∧ ty ≠ .map
        | .inr _ => isSeq ty = false := by
  cases hty : objType ops obj with
  | none => simp [localPut_of_none hty]
  | some ty =>
    rw [localPut_of_type hty]
    cases prop with
    | inl k =>
      simp only [Option.some.injEq, exists_eq_left']
      by_cases h : (ck && !(ty == .map)) = true
      · rw [if_pos h]; simpa using h
      · rw [if_neg h, localMapOp_eq, emitOp_error_iff]
        simp at h ⊢
        exact h
    | inr i =>
      simp only [Option.some.injEq, exists_eq_left']
      by_cases h : (ck && !isSeq ty) = true
      · rw [if_pos h]; simp at h; simp [h.2]
      · rw [if_neg h, localListOp_error_iff]
        simp

theorem localPut_error_index {e : Enc} {ops : List Op} {t : Tx} {obj : ObjId} {prop : Sum Bytes Nat}
    {a : Action} {ck : Bool} :
    localPut e ops t obj prop a ck = .error .index ↔
      ∃ ty i, objType ops obj = some ty ∧ prop = .inr i ∧ isSeq ty = true ∧
        unitsLen e (ty == .text) (seqRegs ops obj) ≤ i := by
  cases hty : objType ops obj with
  | none => simp [localPut_of_none hty]
  | some ty =>
    rw [localPut_of_type hty]
    cases prop with
    | inl k =>
      simp only
      split
      · simp
      · simp [localMapOp_eq, emitOp_error_iff]
    | inr i =>
      simp only
      split
      · rename_i h; simp at h; simp [h.2]
      · simp [localListOp_error_iff]

theorem localPut_error_missingCounter {e : Enc} {ops : List Op} {t : Tx} {obj : ObjId}
    {prop : Sum Bytes Nat} {a : Action} {ck : Bool} :
    localPut e ops t obj prop a ck = .error .missingCounter ↔
      (∃ n, a = .inc n) ∧ ∃ ty, objType ops obj = some ty ∧
        match prop with
        | .inl k => (ck = true → ty = .map) ∧ ∀ x ∈ mapRegOps ops obj k, x.isCounterPut = false
        | .inr i => isSeq ty = true ∧
            ∃ eid reg st, seekByIndex e (ty == .text) (seqRegs ops obj) i 0 = some (eid, reg, st) ∧
              ∀ x ∈ reg, x.isCounterPut = false := by
  cases hty : objType ops obj with
  | none => simp [localPut_of_none hty]
  | some ty =>
    rw [localPut_of_type hty]
    cases prop with
    | inl k =>
      simp only [Option.some.injEq, exists_eq_left']
      by_cases h : (ck && !(ty == .map)) = true
      · rw [if_pos h]
        simp at h
        simp [h]
      · rw [if_neg h, localMapOp_eq, emitOp_error_iff]
        simp at h
        simp
        intro _ _ _; exact h
    | inr i =>
      simp only [Option.some.injEq, exists_eq_left']
      by_cases h : (ck && !isSeq ty) = true
      · rw [if_pos h]
        simp at h
        simp [h.2]
      · rw [if_neg h, localListOp_error_iff]
        simp
        constructor
        · rintro ⟨h1, h2, h3⟩; exact ⟨h2, h1, h3⟩
        · rintro ⟨h2, h1, h3⟩; exact ⟨h1, h2, h3⟩

theorem localPut_error_other {e : Enc} {ops : List Op} {t : Tx} {obj : ObjId}
    {prop : Sum Bytes Nat} {a : Action} {ck : Bool} :
    localPut e ops t obj prop a ck ≠ .error .other := by
  cases hty : objType ops obj with
  | none => simp [localPut_of_none hty]
  | some ty =>
    rw [localPut_of_type hty]
    cases prop with
    | inl k =>
      simp only
      split
      · simp
      · simp [localMapOp_eq, emitOp_error_iff]
    | inr i =>
      simp only
      split
      · simp
      · simp [localListOp_error_iff]


theorem localInsert_error_iff {e : Enc} {ops : List Op} {t : Tx} {obj : ObjId} {index : Nat}
    {a : Action} {err : EditErr} :
    localInsert e ops t obj index a = .error err ↔
      (err = .objid ∧ objType ops obj = none) ∨
      ∃ ty, objType ops obj = some ty ∧
        ((err = .invalidOp ∧ isSeq ty = false) ∨
         (err = .index ∧ isSeq ty = true ∧ unitsLen e (ty == .text) (seqRegs ops obj) < index)) := by
  unfold localInsert
  cases hty : objType ops obj with
  | none =>
    rw [objMeta_eq_error.mpr ⟨rfl, hty⟩]
    simp; exact eq_comm
  | some ty =>
    rw [objMeta_eq_ok.mpr hty]
    simp only [reduceCtorEq, and_false, false_or, Option.some.injEq, exists_eq_left']
    cases hs : isSeq ty
    · simp; exact eq_comm
    · simp only [Bool.not_true, Bool.false_eq_true, if_false]
      cases hr : insertRef e (ty == .text) (seqRegs ops obj) index 0 .head with
      | error err' =>
        have := insertRef_error_iff.mp hr
        simp at this
        simp [this]; exact eq_comm
      | ok p =>
        have hn : ¬ (unitsLen e (ty == .text) (seqRegs ops obj) < index) := by
          intro h
          have := (insertRef_error_iff (e := e) (isText := ty == .text) (regs := seqRegs ops obj)
            (target := index) (acc := 0) (last := .head) (err := .index)).mpr ⟨rfl, by simpa using h⟩
          rw [hr] at this; cases this
        simp [hn]

theorem utf8Chars_eq_nil {b : Bytes} : utf8Chars b = [] ↔ b = [] := by
  cases b with
  | nil => simp [utf8Chars]
  | cons x xs => simp [utf8Chars]


theorem localSpliceText_error_iff {e : Enc} {ops : List Op} {t : Tx} {obj : ObjId} {index del : Nat}
    {text : Bytes} {err : EditErr} :
    localSpliceText e ops t obj index del text = .error err ↔
      (err = .objid ∧ objType ops obj = none) ∨
      ∃ ty, objType ops obj = some ty ∧
        ((err = .invalidOp ∧ ty ≠ .text) ∨
         (err = .index ∧ ty = .text ∧ text ≠ [] ∧ unitsLen e true (seqRegs ops obj) < index)) := by
  unfold localSpliceText
  cases hty : objType ops obj with
  | none =>
    rw [objMeta_eq_error.mpr ⟨rfl, hty⟩]
    simp; exact eq_comm
  | some ty =>
    rw [objMeta_eq_ok.mpr hty]
    simp only [reduceCtorEq, and_false, false_or, Option.some.injEq, exists_eq_left']
    by_cases hs : ty = .text
    · subst hs
      simp only [bne_self_eq_false, Bool.false_eq_true, if_false, ne_eq, not_true_eq_false, and_false,
        false_or, true_and]
      by_cases hp : text = []
      · subst hp
        simp [utf8Chars]
      · have hp' : (utf8Chars text).isEmpty = false := by
          cases h : utf8Chars text with
          | nil => exact absurd (utf8Chars_eq_nil.mp h) hp
          | cons _ _ => rfl
        simp only [hp', Bool.false_eq_true, if_false]
        cases hr : insertRef e true (seqRegs ops obj) index 0 .head with
        | error err' =>
          have := insertRef_error_iff.mp hr
          simp at this
          simp [this, hp]; exact eq_comm
        | ok p =>
          have hn : ¬ (unitsLen e true (seqRegs ops obj) < index) := by
            intro h
            have := (insertRef_error_iff (e := e) (isText := true) (regs := seqRegs ops obj)
              (target := index) (acc := 0) (last := .head) (err := .index)).mpr ⟨rfl, by simpa using h⟩
            rw [hr] at this; cases this
          simp [hn]
    · have : (ty != .text) = true := by simpa using hs
      simp [this, hs]; exact eq_comm


theorem filterMap_congr' {α β : Type} {f g : α → Option β} {l : List α} (h : ∀ a ∈ l, f a = g a) :
    l.filterMap f = l.filterMap g := by
  induction l with
  | nil => rfl
  | cons x xs ih =>
    rw [List.filterMap_cons, List.filterMap_cons, h x List.mem_cons_self,
      ih (fun a ha => h a (List.mem_cons_of_mem _ ha))]

theorem seqElems_eq_map_seqRegs (ops : List Op) (obj : ObjId) :
    seqElems ops obj = (seqRegs ops obj).map (fun p => (p.1, p.2.map (entryOf ops))) := by
  unfold seqElems seqRegs
  rw [List.map_filterMap]
  apply filterMap_congr'
  intro c _
  cases c.isMark
  · simp only [Bool.false_eq_true, if_false]
    show (match (elemRegOps ops obj c.id).map (entryOf ops) with | [] => none | r => some (c.id, r)) = _
    cases elemRegOps ops obj c.id <;> simp
  · simp

theorem seqRegs_nonempty {ops : List Op} {obj : ObjId} {p : OpId × List Op} (h : p ∈ seqRegs ops obj) :
    p.2 ≠ [] := by
  unfold seqRegs at h
  rw [List.mem_filterMap] at h
  obtain ⟨c, _, hc⟩ := h
  split at hc
  · cases hc
  · split at hc
    · cases hc
    · rename_i hne
      cases hc
      exact fun hh => hne hh

theorem unitsLen_list {e : Enc} {regs : List (OpId × List Op)} (h : ∀ p ∈ regs, p.2 ≠ []) :
    unitsLen e false regs = regs.length := by
  induction regs with
  | nil => rfl
  | cons p regs ih =>
    rw [unitsLen_cons, ih (fun q hq => h q (List.mem_cons_of_mem _ hq))]
    have := h p List.mem_cons_self
    have : regWidth e false p.2 = 1 := by
      unfold regWidth
      cases hg : p.2.getLast? with
      | none => simp at hg; exact absurd hg this
      | some o => simp [opWidth]
    simp [this]; omega

/-- in a list object one unit = one visible element -/
theorem unitsLen_list_seqElems (e : Enc) (ops : List Op) (obj : ObjId) :
    unitsLen e false (seqRegs ops obj) = (seqElems ops obj).length := by
  rw [unitsLen_list (fun p hp => seqRegs_nonempty hp), seqElems_eq_map_seqRegs, List.length_map]

/-! ## §4 effects of an appended op on registers -/

theorem sortById_filter {l : List Op} (hd : StrictIds l) (p : Op → Bool) :
    sortById (l.filter p) = (sortById l).filter p := by
  symm
  apply sortById_unique (hd.filter p)
  · exact List.Pairwise.filter p (sortById_strict hd)
  · intro x; simp [List.mem_filter, mem_sortById]

theorem strictIds_append_fresh {ops : List Op} {o : Op} (hs : StrictIds ops)
    (hlt : ∀ x ∈ ops, x.id.lt o.id = true) : StrictIds (ops ++ [o]) := by
  unfold StrictIds at *
  rw [List.pairwise_append]
  refine ⟨hs, List.pairwise_singleton _ _, ?_⟩
  intro a ha b hb
  have : b = o := by simpa using hb
  subst this
  intro he
  have := hlt a ha
  rw [he, OpId.lt_irrefl] at this
  cases this

/-- a fresh op (named by nobody, not naming itself) is visible iff it is a value -/
theorem visible_fresh {ops : List Op} {o : Op} (hnp : ∀ p ∈ ops, o.id ∉ p.pred) (hself : o.id ∉ o.pred) :
    visible (ops ++ [o]) o = o.isValue := by
  rw [visible_append, overwrites_of_not_pred hself]
  have : overwritten ops o = false := by
    simp only [overwritten, List.any_eq_false]
    intro p hp
    simp [overwrites_of_not_pred (hnp p hp)]
  simp [visible, this]

/-- (A) a fresh visible op with the greatest id joins the selection as its last member; what it
    overwrites leaves -/
theorem regOps_append_value {ops : List Op} {o : Op} {sel : Op → Bool} (hs : StrictIds ops)
    (hlt : ∀ x ∈ ops, x.id.lt o.id = true) (hsel : sel o = true) (hv : visible (ops ++ [o]) o = true) :
    regOps (ops ++ [o]) sel = (regOps ops sel).filter (fun x => !overwrites o x) ++ [o] := by
  rw [regOps_append, hsel, hv]
  simp only [Bool.and_self, if_true]
  rw [sortById_append_last (fun x hx => hlt x (List.mem_filter.mp hx).1)]
  congr 1
  unfold regOps
  rw [← sortById_filter (hs.filter _), List.filter_filter]
  congr 1
  apply List.filter_congr
  intro x _
  cases sel x <;> cases overwrites o x <;> cases visible ops x <;> rfl

/-- (B) an op that does not join the selection only removes what it overwrites -/
theorem regOps_append_nonvalue {ops : List Op} {o : Op} {sel : Op → Bool} (hs : StrictIds ops)
    (ho : (sel o && visible (ops ++ [o]) o) = false) :
    regOps (ops ++ [o]) sel = (regOps ops sel).filter (fun x => !overwrites o x) := by
  rw [regOps_append, ho]
  simp only [Bool.false_eq_true, if_false, List.append_nil]
  unfold regOps
  rw [← sortById_filter (hs.filter _), List.filter_filter]
  congr 1
  apply List.filter_congr
  intro x _
  cases sel x <;> cases overwrites o x <;> cases visible ops x <;> rfl


/-- `o` is an op the open transaction may append on the register selected by `sel`: ids are
    pairwise distinct, `o.id` is greater than every id, nobody names it as predecessor, and it
    names only visible ops of that register -/
structure TxOp (ops : List Op) (o : Op) (sel : Op → Bool) : Prop where
  strict : StrictIds ops
  lt : ∀ x ∈ ops, x.id.lt o.id = true
  notPred : ∀ x ∈ ops, o.id ∉ x.pred
  preds : ∀ p ∈ o.pred, ∃ x ∈ regOps ops sel, x.id = p

namespace TxOp
variable {ops : List Op} {o : Op} {sel : Op → Bool}

theorem self (h : TxOp ops o sel) : o.id ∉ o.pred := by
  intro hm
  obtain ⟨x, hx, he⟩ := h.preds _ hm
  have := h.lt x (mem_regOps.mp hx).1
  rw [he, OpId.lt_irrefl] at this
  cases this

theorem visible_self (h : TxOp ops o sel) : visible (ops ++ [o]) o = o.isValue :=
  visible_fresh h.notPred h.self

/-- only ops of the register are named -/
theorem predsIn (h : TxOp ops o sel) : ∀ x ∈ ops, x.id ∈ o.pred → x ∈ regOps ops sel := by
  intro x hx hm
  obtain ⟨y, hy, he⟩ := h.preds _ hm
  have := h.strict.distinctIds y (mem_regOps.mp hy).1 x hx he
  exact this ▸ hy

theorem strict' (h : TxOp ops o sel) : StrictIds (ops ++ [o]) := strictIds_append_fresh h.strict h.lt

/-- a register selected by a predicate disjoint from `sel`, which does not select `o`, is unchanged -/
theorem other_regOps (h : TxOp ops o sel) {sel' : Op → Bool}
    (hdis : ∀ x ∈ ops, sel x = true → sel' x = true → False) (ho : sel' o = false) :
    regOps (ops ++ [o]) sel' = regOps ops sel' :=
  regOps_append_other (fun x hx hs hm => hdis x hx (mem_regOps.mp (h.predsIn x hx hm)).2.1 hs) (by simp [ho])

theorem other_register (h : TxOp ops o sel) {sel' : Op → Bool}
    (hdis : ∀ x ∈ ops, sel x = true → sel' x = true → False) (ho : sel' o = false) :
    (regOps (ops ++ [o]) sel').map (entryOf (ops ++ [o])) = (regOps ops sel').map (entryOf ops) :=
  register_append_other (fun x hx hs hm => hdis x hx (mem_regOps.mp (h.predsIn x hx hm)).2.1 hs) (by simp [ho])

end TxOp

/-- how an action reads as a register value -/
def Val.ofAction : Action → Val
  | .put v => Val.ofScalar v
  | .make t => .obj t
  | _ => .scalar .null

theorem counterValue_fresh {ops : List Op} {o : Op} (hnp : ∀ p ∈ ops, o.id ∉ p.pred) (hself : o.id ∉ o.pred)
    (init : Int) : counterValue (ops ++ [o]) o init = init := by
  rw [counter_value_sum]
  have : (ops ++ [o]).filter (fun p => p.isInc && p.pred.contains o.id) = [] := by
    rw [List.filter_eq_nil_iff]
    intro p hp
    rcases List.mem_append.mp hp with hp | hp
    · simp [hnp p hp]
    · have : p = o := by simpa using hp
      subst this; simp [hself]
  rw [this]; simp

theorem entryOf_fresh {ops : List Op} {o : Op} (hnp : ∀ p ∈ ops, o.id ∉ p.pred) (hself : o.id ∉ o.pred) :
    entryOf (ops ++ [o]) o = ⟨o.id, Val.ofAction o.action⟩ := by
  unfold entryOf
  cases ha : o.action with
  | put v => cases v <;> simp [Val.ofAction, Val.ofScalar, counterValue_fresh hnp hself]
  | _ => simp [Val.ofAction]


theorem isInc_of_isValue {o : Op} (h : o.isValue = true) : o.isInc = false := by
  cases ha : o.action <;> simp_all [Op.isValue, Op.isInc]

namespace TxOp
variable {ops : List Op} {o : Op} {sel : Op → Bool}

/-- a value op naming the whole register: the register becomes exactly that value -/
theorem overwrite_all (h : TxOp ops o sel) (hsel : sel o = true) (hv : o.isValue = true)
    (hall : ∀ x ∈ regOps ops sel, x.id ∈ o.pred) :
    regOps (ops ++ [o]) sel = [o] ∧
    (regOps (ops ++ [o]) sel).map (entryOf (ops ++ [o])) = [⟨o.id, Val.ofAction o.action⟩] := by
  have h1 : regOps (ops ++ [o]) sel = [o] := by
    rw [regOps_append_value h.strict h.lt hsel (by rw [h.visible_self, hv])]
    have : (regOps ops sel).filter (fun x => !overwrites o x) = [] := by
      rw [List.filter_eq_nil_iff]
      intro x hx
      simp [overwrites, hall x hx, isInc_of_isValue hv]
    rw [this]; rfl
  refine ⟨h1, ?_⟩
  rw [h1, List.map_singleton, entryOf_fresh h.notPred h.self]

/-- a delete naming the whole register empties it -/
theorem delete_all (h : TxOp ops o sel) (hv : o.isValue = false) (hni : o.isInc = false)
    (hall : ∀ x ∈ regOps ops sel, x.id ∈ o.pred) :
    regOps (ops ++ [o]) sel = [] := by
  rw [regOps_append_nonvalue h.strict (by rw [h.visible_self, hv]; simp)]
  rw [List.filter_eq_nil_iff]
  intro x hx
  simp [overwrites, hall x hx, hni]

/-- a delete naming all but the winner leaves exactly the winner -/
theorem delete_losers (h : TxOp ops o sel) (hv : o.isValue = false) (hni : o.isInc = false)
    {init : List Op} {last : Op} (hreg : regOps ops sel = init ++ [last])
    (hp : o.pred = init.map (·.id)) :
    regOps (ops ++ [o]) sel = [last] ∧
    (regOps (ops ++ [o]) sel).map (entryOf (ops ++ [o])) = [entryOf ops last] := by
  have hstrict : (regOps ops sel).Pairwise (fun a b => a.id.lt b.id = true) :=
    sortById_strict (h.strict.filter _)
  rw [hreg, List.pairwise_append] at hstrict
  have hlast : last.id ∉ init.map (·.id) := by
    intro hm
    obtain ⟨x, hx, he⟩ := List.mem_map.mp hm
    have := hstrict.2.2 x hx last (List.mem_singleton.mpr rfl)
    rw [he, OpId.lt_irrefl] at this
    cases this
  have h1 : regOps (ops ++ [o]) sel = [last] := by
    rw [regOps_append_nonvalue h.strict (by rw [h.visible_self, hv]; simp), hreg, List.filter_append]
    have e1 : init.filter (fun x => !overwrites o x) = [] := by
      rw [List.filter_eq_nil_iff]
      intro x hx
      have : x.id ∈ o.pred := hp ▸ List.mem_map.mpr ⟨x, hx, rfl⟩
      simp [overwrites, this, hni]
    have e2 : [last].filter (fun x => !overwrites o x) = [last] := by
      have : overwrites o last = false := overwrites_of_not_pred (hp ▸ hlast)
      simp [this]
    rw [e1, e2]; rfl
  refine ⟨h1, ?_⟩
  rw [h1, List.map_singleton, entryOf_append_of_not _ _ _ (by simp [hni])]

/-- an increment naming the whole register: counters stay, everything else leaves -/
theorem increment_all (h : TxOp ops o sel) (hi : o.isInc = true)
    (hall : ∀ x ∈ regOps ops sel, x.id ∈ o.pred) :
    regOps (ops ++ [o]) sel = (regOps ops sel).filter (fun x => x.isCounterPut) := by
  have hv : o.isValue = false := by
    cases ha : o.action <;> simp_all [Op.isValue, Op.isInc]
  rw [regOps_append_nonvalue h.strict (by rw [h.visible_self, hv]; simp)]
  apply List.filter_congr
  intro x hx
  simp [overwrites, hall x hx, hi]

end TxOp


/-! ### the ops `localPut` produces on a map key -/

theorem localPut_map_ok {e : Enc} {ops : List Op} {t : Tx} {obj : ObjId} {k : Bytes} {a : Action} {ck : Bool}
    {l : List Op} (h : localPut e ops t obj (.inl k) a ck = .ok l) :
    ∃ ty, objType ops obj = some ty ∧ (ck = true → ty = .map) ∧
      emitOp ops (mapRegOps ops obj k) a (mkMapOp t obj k) = .ok l := by
  cases hty : objType ops obj with
  | none => rw [localPut_of_none hty] at h; cases h
  | some ty =>
    rw [localPut_of_type hty] at h
    simp only at h
    by_cases hc : (ck && !(ty == .map)) = true
    · rw [if_pos hc] at h; cases h
    · rw [if_neg hc, localMapOp_eq] at h
      refine ⟨ty, rfl, ?_, h⟩
      simpa using hc

theorem txOp_mkMapOp {ops : List Op} {t : Tx} {obj : ObjId} {k : Bytes} {act : Action} {preds : List Op}
    (hs : StrictIds ops) (hlt : ∀ x ∈ ops, x.id.lt t.nextId = true) (hnp : ∀ x ∈ ops, t.nextId ∉ x.pred)
    (hsub : ∀ p ∈ preds, p ∈ mapRegOps ops obj k) :
    TxOp ops (mkMapOp t obj k act preds) (mapSel obj k) where
  strict := hs
  lt := hlt
  notPred := hnp
  preds := by
    intro p hp
    obtain ⟨x, hx, he⟩ := List.mem_map.mp hp
    exact ⟨x, hsub x hx, he⟩

theorem txOp_mkElemOp {ops : List Op} {t : Tx} {obj : ObjId} {el : OpId} {act : Action} {preds : List Op}
    (hs : StrictIds ops) (hlt : ∀ x ∈ ops, x.id.lt t.nextId = true) (hnp : ∀ x ∈ ops, t.nextId ∉ x.pred)
    (hsub : ∀ p ∈ preds, p ∈ elemRegOps ops obj el) :
    TxOp ops (mkElemOp t obj el act preds) (elemSel obj el) where
  strict := hs
  lt := hlt
  notPred := hnp
  preds := by
    intro p hp
    obtain ⟨x, hx, he⟩ := List.mem_map.mp hp
    exact ⟨x, hsub x hx, he⟩

/-- every op `emitOp` produces is `mk act preds` with `preds` taken from the register -/
theorem emitOp_ok_singleton {ops reg : List Op} {a : Action} {mk : Action → List Op → Op} {o : Op}
    (h : emitOp ops reg a mk = .ok [o]) :
    ∃ act preds, o = mk act preds ∧ (∀ p ∈ preds, p ∈ reg) ∧
      ((act = a ∧ preds = reg) ∨
       (∃ v last, a = .put v ∧ act = .del ∧ preds = reg.dropLast ∧ reg.getLast? = some last ∧
          putEqLast ops last v = true ∧ reg ≠ [last])) := by
  cases a with
  | put v =>
    cases hg : reg.getLast? with
    | none =>
      have : reg = [] := by simpa using hg
      subst this
      rw [emitOp_put_nil] at h
      cases h
      exact ⟨_, _, rfl, fun _ hp => hp, .inl ⟨rfl, rfl⟩⟩
    | some last =>
      rw [emitOp_put hg] at h
      by_cases h1 : putEqLast ops last v = true
      · rw [if_pos h1] at h
        by_cases h2 : reg = [last]
        · rw [if_pos h2] at h; cases h
        · rw [if_neg h2] at h; cases h
          exact ⟨_, _, rfl, fun p hp => List.dropLast_subset _ hp,
            .inr ⟨v, last, rfl, rfl, rfl, rfl, h1, h2⟩⟩
      · rw [if_neg h1] at h; cases h
        exact ⟨_, _, rfl, fun _ hp => hp, .inl ⟨rfl, rfl⟩⟩
  | del =>
    rw [emitOp_del] at h
    split at h
    · cases h
    · cases h; exact ⟨_, _, rfl, fun _ hp => hp, .inl ⟨rfl, rfl⟩⟩
  | make ty =>
    rw [emitOp_make] at h; cases h
    exact ⟨_, _, rfl, fun _ hp => hp, .inl ⟨rfl, rfl⟩⟩
  | inc n =>
    rw [emitOp_inc] at h
    split at h
    · cases h
    · cases h; exact ⟨_, _, rfl, fun _ hp => hp, .inl ⟨rfl, rfl⟩⟩
  | markBegin x y z =>
    unfold emitOp at h
    by_cases hr : reg = []
    · subst hr; simp [resolveAction_nil] at h
      exact ⟨_, _, h.symm, fun _ hp => hp, .inl ⟨rfl, rfl⟩⟩
    · rw [resolveAction_nonput hr (by intro v hv; cases hv)] at h
      simp at h
      exact ⟨_, _, h.symm, fun _ hp => hp, .inl ⟨rfl, rfl⟩⟩
  | markEnd x =>
    unfold emitOp at h
    by_cases hr : reg = []
    · subst hr; simp [resolveAction_nil] at h
      exact ⟨_, _, h.symm, fun _ hp => hp, .inl ⟨rfl, rfl⟩⟩
    · rw [resolveAction_nonput hr (by intro v hv; cases hv)] at h
      simp at h
      exact ⟨_, _, h.symm, fun _ hp => hp, .inl ⟨rfl, rfl⟩⟩


/-! ### map effects in final form -/

/-- what a successful single-op map call produced -/
theorem localPut_map_shape {e : Enc} {ops : List Op} {t : Tx} {obj : ObjId} {k : Bytes} {a : Action}
    {ck : Bool} {o : Op} (h : localPut e ops t obj (.inl k) a ck = .ok [o]) :
    ∃ act preds, o = mkMapOp t obj k act preds ∧ (∀ p ∈ preds, p ∈ mapRegOps ops obj k) ∧
      ((act = a ∧ preds = mapRegOps ops obj k) ∨
       (∃ v last, a = .put v ∧ act = .del ∧ preds = (mapRegOps ops obj k).dropLast ∧
          (mapRegOps ops obj k).getLast? = some last ∧ putEqLast ops last v = true ∧
          mapRegOps ops obj k ≠ [last])) := by
  obtain ⟨_, _, _, h'⟩ := localPut_map_ok h
  exact emitOp_ok_singleton h'

theorem localPut_map_txOp {e : Enc} {ops : List Op} {t : Tx} {obj : ObjId} {k : Bytes} {a : Action}
    {ck : Bool} {o : Op} (hs : StrictIds ops) (hlt : ∀ x ∈ ops, x.id.lt t.nextId = true)
    (hnp : ∀ x ∈ ops, t.nextId ∉ x.pred) (h : localPut e ops t obj (.inl k) a ck = .ok [o]) :
    TxOp ops o (mapSel obj k) ∧ o.id = t.nextId ∧ o.obj = obj ∧ o.key = .map k ∧ o.insert = false := by
  obtain ⟨act, preds, rfl, hsub, _⟩ := localPut_map_shape h
  exact ⟨txOp_mkMapOp hs hlt hnp hsub, rfl, rfl, rfl, rfl⟩

section
variable {ops : List Op} {o : Op} {obj : ObjId} {k : Bytes}

/-- a map op leaves every other key of the object and every key of every other object alone -/
theorem TxOp.map_other_register (h : TxOp ops o (mapSel obj k)) (ho : o.obj = obj) (hk : o.key = .map k)
    {obj' : ObjId} {k' : Bytes} (hne : obj' ≠ obj ∨ k' ≠ k) :
    mapRegister (ops ++ [o]) obj' k' = mapRegister ops obj' k' := by
  rw [mapRegister_eq, mapRegister_eq]
  apply h.other_register
  · intro x _ h1 h2
    simp only [mapSel, Bool.and_eq_true, beq_iff_eq] at h1 h2
    rcases hne with hne | hne
    · exact hne (h2.1.symm.trans h1.1)
    · have := h2.2.symm.trans h1.2
      exact hne (Key.map.inj this)
  · simp only [mapSel, ho, hk, Bool.and_eq_false_iff, beq_eq_false_iff_ne, ne_eq]
    rcases hne with hne | hne
    · exact .inl (fun h => hne h.symm)
    · exact .inr (fun h => hne (Key.map.inj h).symm)

/-- a map op leaves the element registers of every other object alone -/
theorem TxOp.map_other_elemRegister (h : TxOp ops o (mapSel obj k)) (ho : o.obj = obj)
    {obj' : ObjId} (el : OpId) (hne : obj' ≠ obj) :
    elemRegister (ops ++ [o]) obj' el = elemRegister ops obj' el := by
  rw [elemRegister_eq, elemRegister_eq]
  apply h.other_register
  · intro x _ h1 h2
    simp only [mapSel, elemSel, Bool.and_eq_true, beq_iff_eq] at h1 h2
    exact hne (h2.1.symm.trans h1.1)
  · simp only [elemSel, ho, Bool.and_eq_false_iff, beq_eq_false_iff_ne, ne_eq]
    exact .inl (fun h => hne h.symm)

end

theorem mapKeys_eq_of_register_iff {ops₁ ops₂ : List Op} {obj₁ obj₂ : ObjId}
    (h : ∀ k, mapRegister ops₁ obj₁ k = [] ↔ mapRegister ops₂ obj₂ k = []) :
    mapKeys ops₁ obj₁ = mapKeys ops₂ obj₂ := by
  refine eq_of_pairwise_of_mem_iff (fun _ _ h₁ h₂ => bytesLt_asymm h₁ h₂) _ _ (mapKeys_sorted _ _)
    (mapKeys_sorted _ _) (fun k => ?_)
  rw [mem_mapKeys_iff_register_ne_nil, mem_mapKeys_iff_register_ne_nil, ne_eq, ne_eq, h k]


theorem mapKeys_of_nonempty {ops ops' : List Op} {obj : ObjId} {k : Bytes}
    (hother : ∀ k', k' ≠ k → mapRegister ops' obj k' = mapRegister ops obj k')
    (hk : mapRegister ops' obj k ≠ []) : mapKeys ops' obj = insertKey k (mapKeys ops obj) := by
  refine eq_of_pairwise_of_mem_iff (fun _ _ h₁ h₂ => bytesLt_asymm h₁ h₂) _ _ (mapKeys_sorted _ _)
    (insertKey_sorted _ (mapKeys_sorted _ _)) (fun k' => ?_)
  rw [mem_insertKey, mem_mapKeys_iff_register_ne_nil, mem_mapKeys_iff_register_ne_nil]
  by_cases h : k' = k
  · subst h; simp [hk]
  · rw [hother k' h]; simp [h]

theorem mapKeys_of_empty {ops ops' : List Op} {obj : ObjId} {k : Bytes}
    (hother : ∀ k', k' ≠ k → mapRegister ops' obj k' = mapRegister ops obj k')
    (hk : mapRegister ops' obj k = []) : mapKeys ops' obj = (mapKeys ops obj).filter (fun x => x != k) := by
  refine eq_of_pairwise_of_mem_iff (fun _ _ h₁ h₂ => bytesLt_asymm h₁ h₂) _ _ (mapKeys_sorted _ _)
    (List.Pairwise.filter _ (mapKeys_sorted _ _)) (fun k' => ?_)
  rw [List.mem_filter, mem_mapKeys_iff_register_ne_nil, mem_mapKeys_iff_register_ne_nil]
  by_cases h : k' = k
  · subst h; simp [hk]
  · rw [hother k' h]; simp [h]

theorem map_filter_eq_filterMap {α β : Type} (p : α → Bool) (f : α → β) (l : List α) :
    (l.filter p).map f = l.filterMap (fun x => if p x = true then some (f x) else none) := by
  induction l with
  | nil => rfl
  | cons x xs ih =>
    by_cases h : p x = true <;> simp [h, ih]

/-- an increment of `n` seen on a register entry: counters grow, anything else leaves -/
def Entry.bump (n : Int) (e : Entry) : Option Entry :=
  match e.val with
  | .counter c => some ⟨e.id, .counter (c + n)⟩
  | _ => none

theorem bump_entryOf {ops : List Op} {o x : Op} {n : Int} (hi : o.action = .inc n) (hm : x.id ∈ o.pred) :
    (if x.isCounterPut = true then some (entryOf (ops ++ [o]) x) else none) =
      Entry.bump n (entryOf ops x) := by
  have hinc : o.isInc = true := by simp [Op.isInc, hi]
  have hamt : o.incAmount = n := by simp [Op.incAmount, hi]
  unfold entryOf Entry.bump Op.isCounterPut
  cases ha : x.action with
  | put v =>
    cases v <;> simp
    rw [counterValue_append]
    simp [hinc, hm, hamt]
  | _ => simp

section
variable {e : Enc} {ops : List Op} {t : Tx} {obj : ObjId} {k : Bytes} {ck : Bool} {o : Op}

/-- put / put_object on a map key: the register holds exactly the new value -/
theorem map_value_effect {a : Action} (hs : StrictIds ops) (hlt : ∀ x ∈ ops, x.id.lt t.nextId = true)
    (hnp : ∀ x ∈ ops, t.nextId ∉ x.pred) (h : localPut e ops t obj (.inl k) a ck = .ok [o])
    (hv : o.isValue = true) :
    mapRegister (ops ++ [o]) obj k = [⟨t.nextId, Val.ofAction a⟩] := by
  obtain ⟨act, preds, rfl, hsub, hc⟩ := localPut_map_shape h
  have htx := txOp_mkMapOp (act := act) hs hlt hnp hsub
  rcases hc with ⟨rfl, rfl⟩ | ⟨v, last, rfl, rfl, _⟩
  · rw [mapRegister_eq]
    refine (htx.overwrite_all (by simp [mapSel, mkMapOp]) hv ?_).2
    intro x hx
    exact List.mem_map.mpr ⟨x, hx, rfl⟩
  · simp [mkMapOp, Op.isValue] at hv

/-- put equal to the winner of a conflicted register: the losers are deleted, the winner stays -/
theorem map_put_conflict_effect {v : Scalar} (hs : StrictIds ops) (hlt : ∀ x ∈ ops, x.id.lt t.nextId = true)
    (hnp : ∀ x ∈ ops, t.nextId ∉ x.pred) (h : localPut e ops t obj (.inl k) (.put v) ck = .ok [o])
    (ha : o.action = .del) :
    ∃ w, (mapRegister ops obj k).getLast? = some w ∧ w.val = Val.ofScalar v ∧
      2 ≤ (mapRegister ops obj k).length ∧ mapRegister (ops ++ [o]) obj k = [w] := by
  obtain ⟨act, preds, rfl, hsub, hc⟩ := localPut_map_shape h
  have htx := txOp_mkMapOp (act := act) hs hlt hnp hsub
  rcases hc with ⟨rfl, rfl⟩ | ⟨v', last, hv', rfl, rfl, hg, heq, hne⟩
  · simp [mkMapOp] at ha
  · cases hv'
    have hreg : mapRegOps ops obj k = (mapRegOps ops obj k).dropLast ++ [last] := by
      have hnn : mapRegOps ops obj k ≠ [] := by intro h0; rw [h0] at hg; cases hg
      have := List.dropLast_concat_getLast hnn
      rw [List.getLast?_eq_some_getLast hnn] at hg
      cases hg
      exact this.symm
    have hlv : last.isValue = true := by
      have : last ∈ mapRegOps ops obj k := by rw [hreg]; simp
      have := (mem_regOps.mp this).2.2
      simp only [visible, Bool.and_eq_true] at this
      exact this.1
    refine ⟨entryOf ops last, ?_, (putEqLast_iff hlv).mp heq, ?_, ?_⟩
    · rw [mapRegister_eq, ← mapRegOps_eq, List.getLast?_map, hg]; rfl
    · rw [mapRegister_eq, ← mapRegOps_eq, List.length_map]
      rw [hreg] at hne ⊢
      cases hd : (mapRegOps ops obj k).dropLast with
      | nil => rw [hd] at hne; exact absurd rfl hne
      | cons _ _ => simp
    · rw [mapRegister_eq]
      exact (htx.delete_losers (by simp [mkMapOp, Op.isValue]) (by simp [mkMapOp, Op.isInc])
        (by rw [← mapRegOps_eq]; exact hreg) rfl).2

/-- delete of a map key: the register becomes empty -/
theorem map_delete_effect (hs : StrictIds ops) (hlt : ∀ x ∈ ops, x.id.lt t.nextId = true)
    (hnp : ∀ x ∈ ops, t.nextId ∉ x.pred) (h : localPut e ops t obj (.inl k) .del ck = .ok [o]) :
    mapRegister (ops ++ [o]) obj k = [] := by
  obtain ⟨act, preds, rfl, hsub, hc⟩ := localPut_map_shape h
  have htx := txOp_mkMapOp (act := act) hs hlt hnp hsub
  rcases hc with ⟨rfl, rfl⟩ | ⟨v, last, hv, _⟩
  · rw [mapRegister_eq, htx.delete_all (by simp [mkMapOp, Op.isValue]) (by simp [mkMapOp, Op.isInc])]
    · rfl
    · intro x hx; exact List.mem_map.mpr ⟨x, hx, rfl⟩
  · cases hv

/-- increment of a map key: the counters of the register grow by `n`, other values leave -/
theorem map_increment_effect {n : Int} (hs : StrictIds ops) (hlt : ∀ x ∈ ops, x.id.lt t.nextId = true)
    (hnp : ∀ x ∈ ops, t.nextId ∉ x.pred) (h : localPut e ops t obj (.inl k) (.inc n) ck = .ok [o]) :
    mapRegister (ops ++ [o]) obj k = (mapRegister ops obj k).filterMap (Entry.bump n) := by
  obtain ⟨act, preds, rfl, hsub, hc⟩ := localPut_map_shape h
  have htx := txOp_mkMapOp (act := act) hs hlt hnp hsub
  rcases hc with ⟨rfl, rfl⟩ | ⟨v, last, hv, _⟩
  · have hall : ∀ x ∈ regOps ops (mapSel obj k), x.id ∈ (mkMapOp t obj k (.inc n) (mapRegOps ops obj k)).pred :=
      fun x hx => List.mem_map.mpr ⟨x, hx, rfl⟩
    rw [mapRegister_eq, mapRegister_eq, htx.increment_all (by simp [mkMapOp, Op.isInc]) hall,
      map_filter_eq_filterMap, List.filterMap_map]
    apply filterMap_congr'
    intro x hx
    exact bump_entryOf (by simp [mkMapOp]) (hall x hx)
  · cases hv

end


theorem emitOp_ok_nil_iff {ops reg : List Op} {a : Action} {mk : Action → List Op → Op} :
    emitOp ops reg a mk = .ok [] ↔
      (reg = [] ∧ a = .del) ∨ ∃ v last, a = .put v ∧ reg = [last] ∧ putEqLast ops last v = true := by
  cases a with
  | put v =>
    cases hg : reg.getLast? with
    | none =>
      have : reg = [] := by simpa using hg
      subst this
      simp [emitOp_put_nil]
    | some last =>
      rw [emitOp_put hg]
      by_cases h1 : putEqLast ops last v = true <;> by_cases h2 : reg = [last]
      · simp [h1, h2]
      · have : reg ≠ [] := by intro h; simp [h] at hg
        simp [h1, h2, this]
        intro x hx; rw [hx] at hg; simp at hg; subst hg; exact absurd hx h2
      · subst h2; simp [h1]
      · have : reg ≠ [] := by intro h; simp [h] at hg
        simp [h1, this]
        intro x hx; rw [hx] at hg; simp at hg; subst hg; exact absurd hx h2
  | del => rw [emitOp_del]; by_cases h : reg = [] <;> simp [h]
  | make ty => simp [emitOp_make]
  | inc n => rw [emitOp_inc]; split <;> simp
  | markBegin x y z =>
    unfold emitOp
    by_cases hr : reg = []
    · subst hr; simp [resolveAction_nil]
    · rw [resolveAction_nonput hr (by intro v hv; cases hv)]; simp
  | markEnd x =>
    unfold emitOp
    by_cases hr : reg = []
    · subst hr; simp [resolveAction_nil]
    · rw [resolveAction_nonput hr (by intro v hv; cases hv)]; simp

theorem isValue_of_mem_regOps {ops : List Op} {sel : Op → Bool} {x : Op} (h : x ∈ regOps ops sel) :
    x.isValue = true := by
  have := (mem_regOps.mp h).2.2
  simp only [visible, Bool.and_eq_true] at this
  exact this.1

/-- put on a map key is a no-op exactly when the key holds that single value already -/
theorem localPut_map_put_nil_iff {e : Enc} {ops : List Op} {t : Tx} {obj : ObjId} {k : Bytes} {v : Scalar}
    {ck : Bool} :
    localPut e ops t obj (.inl k) (.put v) ck = .ok [] ↔
      (∃ ty, objType ops obj = some ty ∧ (ck = true → ty = .map)) ∧
      ∃ w, mapRegister ops obj k = [w] ∧ w.val = Val.ofScalar v := by
  cases hty : objType ops obj with
  | none => simp [localPut_of_none hty]
  | some ty =>
    rw [localPut_of_type hty]
    simp only [Option.some.injEq, exists_eq_left']
    by_cases hc : (ck && !(ty == .map)) = true
    · rw [if_pos hc]
      simp at hc
      simp [hc]
    · rw [if_neg hc, localMapOp_eq, emitOp_ok_nil_iff]
      have hc' : ck = true → ty = .map := by simpa using hc
      rw [mapRegister_eq, ← mapRegOps_eq]
      constructor
      · rintro (⟨_, h⟩ | ⟨v', last, hv', hr, hp⟩)
        · cases h
        · cases hv'
          have hlv : last.isValue = true :=
            isValue_of_mem_regOps (sel := mapSel obj k) (by rw [← mapRegOps_eq, hr]; simp)
          exact ⟨hc', entryOf ops last, by rw [hr]; rfl, (putEqLast_iff hlv).mp hp⟩
      · rintro ⟨_, w, hw, hv⟩
        right
        cases hr : mapRegOps ops obj k with
        | nil => rw [hr] at hw; cases hw
        | cons last rest =>
          cases rest with
          | cons _ _ => rw [hr] at hw; simp at hw
          | nil =>
            rw [hr] at hw
            simp at hw
            have hlv : last.isValue = true :=
              isValue_of_mem_regOps (sel := mapSel obj k) (by rw [← mapRegOps_eq, hr]; simp)
            exact ⟨v, last, rfl, rfl, (putEqLast_iff hlv).mpr (hw ▸ hv)⟩

/-- delete of a map key is a no-op exactly when the key has no value -/
theorem localPut_map_del_nil_iff {e : Enc} {ops : List Op} {t : Tx} {obj : ObjId} {k : Bytes} {ck : Bool} :
    localPut e ops t obj (.inl k) .del ck = .ok [] ↔
      (∃ ty, objType ops obj = some ty ∧ (ck = true → ty = .map)) ∧ mapRegister ops obj k = [] := by
  cases hty : objType ops obj with
  | none => simp [localPut_of_none hty]
  | some ty =>
    rw [localPut_of_type hty]
    simp only [Option.some.injEq, exists_eq_left']
    by_cases hc : (ck && !(ty == .map)) = true
    · rw [if_pos hc]
      simp at hc
      simp [hc]
    · rw [if_neg hc, localMapOp_eq, emitOp_ok_nil_iff]
      have hc' : ck = true → ty = .map := by simpa using hc
      simp [mapRegister_eq, mapRegOps_eq]
      exact fun _ => hc'


/-! ## §5 RGA: fuel -/

theorem filter_length_le {α : Type} {p q : α → Bool} {l : List α}
    (hpq : ∀ x ∈ l, p x = true → q x = true) : (l.filter p).length ≤ (l.filter q).length := by
  induction l with
  | nil => simp
  | cons x xs ih =>
    have ih := ih (fun y hy => hpq y (List.mem_cons_of_mem _ hy))
    have hx := hpq x List.mem_cons_self
    cases hp : p x <;> cases hq : q x <;> simp [hp, hq] <;> first | omega | simp_all

theorem filter_length_lt_local {α : Type} {p q : α → Bool} {l : List α} {c : α}
    (hpq : ∀ x ∈ l, p x = true → q x = true) (hc : c ∈ l) (hq : q c = true) (hp : p c = false) :
    (l.filter p).length < (l.filter q).length := by
  induction l with
  | nil => cases hc
  | cons x xs ih =>
    have hle := filter_length_le (fun y hy => hpq y (List.mem_cons_of_mem _ hy))
    rcases List.mem_cons.mp hc with rfl | hc
    · simp [hp, hq]; omega
    · have ih := ih (fun y hy => hpq y (List.mem_cons_of_mem _ hy)) hc
      have hx := hpq x List.mem_cons_self
      cases hp' : p x <;> cases hq' : q x <;> simp [hp', hq'] <;> first | omega | simp_all

/-- every insert op's reference element has a smaller id (an element is created after the element
    it is inserted behind) -/
def RefsSmaller (ops : List Op) : Prop :=
  ∀ o ∈ ops, o.insert = true → (match o.key with | .elem e => e.lt o.id | _ => true) = true

instance (ops : List Op) : Decidable (RefsSmaller ops) := by
  unfold RefsSmaller; infer_instance

theorem RefsSmaller.lt {ops : List Op} (h : RefsSmaller ops) {o : Op} (ho : o ∈ ops) (hi : o.insert = true)
    {e : OpId} (hk : o.key = .elem e) : e.lt o.id = true := by
  have := h o ho hi
  rw [hk] at this
  exact this

/-- number of ops with an id above the reference element: bounds the depth of the walk below it -/
def above (ops : List Op) : Key → Nat
  | .elem e => (ops.filter (fun x => e.lt x.id)).length
  | _ => ops.length

theorem above_le (ops : List Op) (p : Key) : above ops p ≤ ops.length := by
  cases p <;> simp [above, List.length_filter_le]

theorem above_child {ops : List Op} (h : RefsSmaller ops) {obj : ObjId} {p : Key} {c : Op}
    (hc : c ∈ children ops obj p) : above ops (.elem c.id) < above ops p := by
  obtain ⟨hco, _, hci, hck⟩ := mem_children.mp hc
  have hlt : (ops.filter (fun x => c.id.lt x.id)).length < ops.length := by
    simp
    exact ⟨c, hco, OpId.lt_irrefl _⟩
  cases p with
  | elem e =>
    have hec := h.lt hco hci hck
    exact filter_length_lt_local (fun x _ hx => OpId.lt_trans hec hx) hco hec (OpId.lt_irrefl _)
  | head => exact hlt
  | map k => exact hlt

theorem flatMap_congr' {α β : Type} {f g : α → List β} {l : List α} (h : ∀ a ∈ l, f a = g a) :
    l.flatMap f = l.flatMap g := by
  induction l with
  | nil => rfl
  | cons x xs ih =>
    rw [List.flatMap_cons, List.flatMap_cons, h x List.mem_cons_self,
      ih (fun a ha => h a (List.mem_cons_of_mem _ ha))]

/-- one more unit of fuel changes nothing once the fuel exceeds the depth bound -/
theorem rgaFrom_fuel_succ {ops : List Op} (h : RefsSmaller ops) (obj : ObjId) :
    ∀ (f : Nat) (p : Key), above ops p < f → rgaFrom ops obj f p = rgaFrom ops obj (f + 1) p
  | 0, _, hf => by omega
  | f + 1, p, hf => by
    rw [rgaFrom_succ, rgaFrom_succ]
    apply flatMap_congr'
    intro c hc
    have := above_child h hc
    rw [rgaFrom_fuel_succ h obj f (.elem c.id) (by omega)]

theorem rgaFrom_fuel {ops : List Op} (h : RefsSmaller ops) (obj : ObjId) (p : Key) :
    ∀ (n : Nat), rgaFrom ops obj (ops.length + 1 + n) p = rgaFrom ops obj (ops.length + 1) p
  | 0 => rfl
  | n + 1 => by
    rw [← rgaFrom_fuel h obj p n, ← Nat.add_assoc]
    exact (rgaFrom_fuel_succ h obj _ p (by have := above_le ops p; omega)).symm

/-- `rgaOrder` with any fuel beyond its own -/
theorem rgaOrder_eq_fuel {ops : List Op} (h : RefsSmaller ops) (obj : ObjId) {f : Nat}
    (hf : ops.length + 1 ≤ f) : rgaFrom ops obj f .head = rgaOrder ops obj := by
  obtain ⟨n, rfl⟩ := Nat.exists_eq_add_of_le hf
  exact rgaFrom_fuel h obj .head n

/-! ### a non-insert op does not touch the order -/

theorem children_append_noninsert (ops : List Op) {o : Op} (ho : o.insert = false) (obj : ObjId) (p : Key) :
    children (ops ++ [o]) obj p = children ops obj p := by
  unfold children
  rw [filter_append_singleton]
  simp [ho]

theorem rgaFrom_append_noninsert (ops : List Op) {o : Op} (ho : o.insert = false) (obj : ObjId) :
    ∀ (f : Nat) (p : Key), rgaFrom (ops ++ [o]) obj f p = rgaFrom ops obj f p
  | 0, _ => rfl
  | f + 1, p => by
    rw [rgaFrom_succ, rgaFrom_succ, children_append_noninsert ops ho]
    apply flatMap_congr'
    intro c _
    rw [rgaFrom_append_noninsert ops ho obj f]

theorem rgaOrder_append_noninsert {ops : List Op} (h : RefsSmaller ops) {o : Op} (ho : o.insert = false)
    (obj : ObjId) : rgaOrder (ops ++ [o]) obj = rgaOrder ops obj := by
  unfold rgaOrder
  rw [rgaFrom_append_noninsert ops ho]
  exact rgaOrder_eq_fuel h obj (by simp)


theorem seqElems_congr {ops ops' : List Op} {obj : ObjId} (ho : rgaOrder ops' obj = rgaOrder ops obj)
    (hr : ∀ c ∈ rgaOrder ops obj, elemRegister ops' obj c.id = elemRegister ops obj c.id) :
    seqElems ops' obj = seqElems ops obj := by
  unfold seqElems
  rw [ho]
  apply filterMap_congr'
  intro c hc
  rw [hr c hc]

/-- a map op leaves every other object's sequence reading alone, and the element order of every
    object -/
theorem TxOp.map_other_seq {ops : List Op} {o : Op} {obj : ObjId} {k : Bytes}
    (h : TxOp ops o (mapSel obj k)) (hr : RefsSmaller ops) (ho : o.obj = obj) (hi : o.insert = false)
    (obj' : ObjId) :
    rgaOrder (ops ++ [o]) obj' = rgaOrder ops obj' ∧
    (obj' ≠ obj → seqElems (ops ++ [o]) obj' = seqElems ops obj') :=
  ⟨rgaOrder_append_noninsert hr hi obj', fun hne =>
    seqElems_congr (rgaOrder_append_noninsert hr hi obj') (fun c _ => h.map_other_elemRegister ho c.id hne)⟩

/-- a map op leaves the key set of every other object alone -/
theorem TxOp.map_other_keys {ops : List Op} {o : Op} {obj : ObjId} {k : Bytes}
    (h : TxOp ops o (mapSel obj k)) (ho : o.obj = obj) (hk : o.key = .map k) {obj' : ObjId} (hne : obj' ≠ obj) :
    mapKeys (ops ++ [o]) obj' = mapKeys ops obj' :=
  mapKeys_eq_of_register_iff (fun k' => by rw [h.map_other_register ho hk (.inl hne)])


/-! ### objects: type lookup and emptiness of a new object -/

theorem objType_append_new {ops : List Op} {o : Op} {ty : ObjType} (hlt : ∀ x ∈ ops, x.id.lt o.id = true)
    (ha : o.action = .make ty) : objType (ops ++ [o]) (.id o.id) = some ty := by
  have hnone : ops.find? (fun p => p.id == o.id) = none := by
    rw [List.find?_eq_none]
    intro x hx he
    have := hlt x hx
    rw [beq_iff_eq.mp he, OpId.lt_irrefl] at this
    cases this
  simp [objType, List.find?_append, hnone, ha]

theorem objType_append_old {ops : List Op} {o : Op} {obj : ObjId} (hne : obj ≠ .id o.id) :
    objType (ops ++ [o]) obj = objType ops obj := by
  cases obj with
  | root => rfl
  | id i =>
    have hi : (o.id == i) = false := by
      simp only [beq_eq_false_iff_ne, ne_eq]
      intro h; exact hne (by rw [h])
    simp only [objType, List.find?_append]
    cases ops.find? (fun p => p.id == i) with
    | some x => rfl
    | none => simp [hi]

/-- an object that exists has an id below the transaction's next id -/
theorem obj_ne_next_of_objType {ops : List Op} {obj : ObjId} {n : OpId} {ty : ObjType}
    (hlt : ∀ x ∈ ops, x.id.lt n = true) (h : objType ops obj = some ty) : obj ≠ .id n := by
  rintro rfl
  simp only [objType] at h
  cases hf : ops.find? (fun p => p.id == n) with
  | none => rw [hf] at h; cases h
  | some x =>
    have hx := List.mem_of_find?_eq_some hf
    have he : x.id = n := by simpa using List.find?_some hf
    have := hlt x hx
    rw [he, OpId.lt_irrefl] at this
    cases this

theorem mapKeys_eq_nil_of_no_ops {ops : List Op} {obj : ObjId} (h : ∀ x ∈ ops, x.obj ≠ obj) :
    mapKeys ops obj = [] := by
  have : ops.filter (fun o => o.obj == obj && visible ops o) = [] := by
    rw [List.filter_eq_nil_iff]
    intro x hx
    simp [h x hx]
  rw [mapKeys_eq_keysOf, this]; rfl

theorem rgaOrder_eq_nil_of_no_ops {ops : List Op} {obj : ObjId} (h : ∀ x ∈ ops, x.obj ≠ obj) :
    rgaOrder ops obj = [] := by
  have : children ops obj .head = [] := by
    unfold children
    have : ops.filter (fun o => o.obj == obj && o.insert && o.key == Key.head) = [] := by
      rw [List.filter_eq_nil_iff]
      intro x hx
      simp [h x hx]
    rw [this]; rfl
  unfold rgaOrder
  rw [rgaFrom_succ, this]; rfl

theorem seqElems_eq_nil_of_no_ops {ops : List Op} {obj : ObjId} (h : ∀ x ∈ ops, x.obj ≠ obj) :
    seqElems ops obj = [] := by
  unfold seqElems
  rw [rgaOrder_eq_nil_of_no_ops h]; rfl

/-- the object a `make` op of the transaction creates is empty -/
theorem new_object_empty {ops : List Op} {o : Op} {ty : ObjType} (hlt : ∀ x ∈ ops, x.id.lt o.id = true)
    (hobj : ∀ x ∈ ops, x.obj ≠ .id o.id) (hoo : o.obj ≠ .id o.id) (ha : o.action = .make ty) :
    objType (ops ++ [o]) (.id o.id) = some ty ∧ mapKeys (ops ++ [o]) (.id o.id) = [] ∧
      seqElems (ops ++ [o]) (.id o.id) = [] := by
  have hno : ∀ x ∈ ops ++ [o], x.obj ≠ .id o.id := by
    intro x hx
    rcases List.mem_append.mp hx with hx | hx
    · exact hobj x hx
    · have : x = o := by simpa using hx
      subst this; exact hoo
  exact ⟨objType_append_new hlt ha, mapKeys_eq_nil_of_no_ops hno, seqElems_eq_nil_of_no_ops hno⟩

/-! ### the transaction after a call, and commit -/

/-- the open transaction after a call (what `Driver.Crdt.edit` does with the result): new ops are
    appended on success, a failed call leaves the transaction as it was -/
def Tx.after (t : Tx) (res : Except EditErr (List Op)) : Tx :=
  match res with
  | .ok new => { t with pending := t.pending ++ new }
  | .error _ => t

theorem emitOp_ok_cases {ops reg : List Op} {a : Action} {mk : Action → List Op → Op} {l : List Op}
    (h : emitOp ops reg a mk = .ok l) : l = [] ∨ ∃ o, l = [o] := by
  unfold emitOp at h
  cases hr : resolveAction ops reg a with
  | none => rw [hr] at h; cases h; exact .inl rfl
  | some p =>
    obtain ⟨act, preds⟩ := p
    rw [hr] at h
    simp only at h
    (repeat' split at h) <;> first | (cases h; done) | (cases h; exact .inr ⟨_, rfl⟩)

theorem localPut_map_ok_cases {e : Enc} {ops : List Op} {t : Tx} {obj : ObjId} {k : Bytes} {a : Action}
    {ck : Bool} {l : List Op} (h : localPut e ops t obj (.inl k) a ck = .ok l) : l = [] ∨ ∃ o, l = [o] := by
  obtain ⟨_, _, _, h'⟩ := localPut_map_ok h
  exact emitOp_ok_cases h'

/-- `localSpliceText` with the pieces of the text as a parameter (`utf8Chars` is defined by
    well-founded recursion and does not evaluate in the kernel) -/
def spliceWith (e : Enc) (ops : List Op) (t : Tx) (obj : ObjId) (index del : Nat) (pieces : List Bytes) :
    Except EditErr (List Op) :=
  match objMeta ops obj with
  | .error err => .error err
  | .ok ty =>
    if ty != .text then .error .invalidOp else
    match (if pieces.isEmpty then (.ok (.head, index) : Except EditErr (Key × Nat))
           else insertRef e true (seqRegs ops obj) index 0 .head) with
    | .error err => .error err
    | .ok (key, idx) =>
      let ins := chainInserts t obj pieces key 0
      let insertedWidth := (pieces.map (width e)).foldl (· + ·) 0
      let t' : Tx := { t with pending := t.pending ++ ins }
      let dels := deleteLoop e true t' obj (del + 1) (ops ++ ins) (idx + insertedWidth) 0 del []
      .ok (ins ++ dels)

theorem localSpliceText_eq (e : Enc) (ops : List Op) (t : Tx) (obj : ObjId) (index del : Nat) (text : Bytes) :
    localSpliceText e ops t obj index del text = spliceWith e ops t obj index del (utf8Chars text) := rfl

theorem utf8Chars_nil : utf8Chars [] = [] := by simp [utf8Chars]

/-- a run of ASCII bytes splits into single bytes -/
theorem utf8Chars_ascii : ∀ (bs : Bytes), (∀ b ∈ bs, b.toNat < 0x80) → utf8Chars bs = bs.map (fun b => [b])
  | [], _ => by simp [utf8Chars]
  | b :: rest, h => by
    have hb := h b List.mem_cons_self
    rw [utf8Chars]
    simp only [hb, if_true, List.take_zero, List.drop_zero, List.map_cons]
    rw [utf8Chars_ascii rest (fun x hx => h x (List.mem_cons_of_mem _ hx))]


/-! ## §6 metadata of the change a transaction commits (C04) -/

/-! ### start op -/

theorem foldl_max_ge_init {α : Type} (f : α → Nat) (l : List α) (init : Nat) :
    init ≤ l.foldl (fun m c => max m (f c)) init := by
  induction l generalizing init with
  | nil => exact Nat.le_refl _
  | cons x xs ih => exact Nat.le_trans (Nat.le_max_left _ _) (ih _)

theorem foldl_max_ge {α : Type} (f : α → Nat) (l : List α) (init : Nat) {c : α} (hc : c ∈ l) :
    f c ≤ l.foldl (fun m c => max m (f c)) init := by
  induction l generalizing init with
  | nil => cases hc
  | cons x xs ih =>
    rcases List.mem_cons.mp hc with rfl | hc
    · exact Nat.le_trans (Nat.le_max_right _ _) (foldl_max_ge_init f xs _)
    · exact ih _ hc

theorem Doc.maxOp_ge (d : Doc) {c : Change} (hc : c ∈ d.applied) :
    c.startOp + c.ops.length - 1 ≤ d.maxOp :=
  foldl_max_ge (fun c => c.startOp + c.ops.length - 1) d.applied 0 hc

/-! ### numbering of ops -/

/-- the ids `start@actor, (start+1)@actor, …` (`n` of them) -/
def idsFrom (actor : Bytes) : Nat → Nat → List OpId
  | _, 0 => []
  | s, n + 1 => ⟨s, actor⟩ :: idsFrom actor (s + 1) n

/-- the ops carry consecutive ids of one actor starting at `start` -/
def Numbered (actor : Bytes) (start : Nat) (l : List Op) : Prop :=
  l.map (·.id) = idsFrom actor start l.length

instance (actor : Bytes) (start : Nat) (l : List Op) : Decidable (Numbered actor start l) := by
  unfold Numbered; infer_instance

/-- the ops of a change are numbered from its start op with its actor (what the change encoding
    stores: only `startOp` and the actor; ids are implicit) -/
def OpsNumbered (c : Change) : Prop := Numbered c.actor c.startOp c.ops

instance (c : Change) : Decidable (OpsNumbered c) := by unfold OpsNumbered; infer_instance

theorem idsFrom_add (actor : Bytes) (s n m : Nat) :
    idsFrom actor s (n + m) = idsFrom actor s n ++ idsFrom actor (s + n) m := by
  induction n generalizing s with
  | zero => simp [idsFrom]
  | succ n ih =>
    rw [Nat.add_right_comm, idsFrom, idsFrom, ih (s + 1)]
    simp [Nat.add_assoc, Nat.add_comm 1 n]

theorem mem_idsFrom {actor : Bytes} {s n : Nat} {x : OpId} :
    x ∈ idsFrom actor s n ↔ x.actor = actor ∧ s ≤ x.ctr ∧ x.ctr < s + n := by
  induction n generalizing s with
  | zero =>
    simp only [idsFrom, List.not_mem_nil, false_iff]
    omega
  | succ n ih =>
    simp only [idsFrom, List.mem_cons, ih]
    constructor
    · rintro (rfl | ⟨h1, h2, h3⟩)
      · exact ⟨rfl, Nat.le_refl _, by show s < s + (n + 1); omega⟩
      · exact ⟨h1, by omega, by omega⟩
    · rintro ⟨h1, h2, h3⟩
      by_cases h : x.ctr = s
      · left; cases x; simp_all
      · right; exact ⟨h1, by omega, by omega⟩

theorem Numbered.nil (actor : Bytes) (s : Nat) : Numbered actor s [] := rfl

theorem Numbered.append {actor : Bytes} {s : Nat} {l₁ l₂ : List Op} (h₁ : Numbered actor s l₁)
    (h₂ : Numbered actor (s + l₁.length) l₂) : Numbered actor s (l₁ ++ l₂) := by
  unfold Numbered at *
  rw [List.map_append, List.length_append, idsFrom_add, h₁, h₂]

theorem Numbered.singleton {actor : Bytes} {s : Nat} {o : Op} (h : o.id = ⟨s, actor⟩) :
    Numbered actor s [o] := by
  simp [Numbered, idsFrom, h]

theorem Numbered.mem {actor : Bytes} {s : Nat} {l : List Op} (h : Numbered actor s l) {o : Op} (ho : o ∈ l) :
    o.id.actor = actor ∧ s ≤ o.id.ctr ∧ o.id.ctr < s + l.length := by
  have : o.id ∈ l.map (·.id) := List.mem_map.mpr ⟨o, ho, rfl⟩
  rw [h] at this
  exact mem_idsFrom.mp this

/-- "a start op greater than every op counter in the changes it has applied" -/
theorem beginTx_startOp_gt (d : Doc) (actor : Bytes) {c : Change} (hc : c ∈ d.applied) {o : Op}
    (_ho : o ∈ c.ops) (hw : o.id.ctr < c.startOp + c.ops.length) : o.id.ctr < (d.beginTx actor).startOp := by
  have := d.maxOp_ge hc
  show o.id.ctr < d.maxOp + 1
  omega

theorem beginTx_startOp_gt_of_numbered (d : Doc) (actor : Bytes) (hn : ∀ c ∈ d.applied, OpsNumbered c) :
    ∀ o ∈ d.ops, o.id.ctr < (d.beginTx actor).startOp := by
  intro o ho
  obtain ⟨c, hc, hoc⟩ := List.mem_flatMap.mp ho
  exact beginTx_startOp_gt d actor hc hoc ((hn c hc).mem hoc).2.2


/-! ### every call hands the transaction consecutively numbered ops -/

/-- the id the transaction gives to its next op -/
theorem Tx.nextId_eq (t : Tx) (n : Nat) : t.nextId n = ⟨t.startOp + t.pending.length + n, t.actor⟩ := rfl

theorem emitOp_numbered {ops reg : List Op} {a : Action} {mk : Action → List Op → Op} {t : Tx} {l : List Op}
    (hmk : ∀ act preds, (mk act preds).id = t.nextId) (h : emitOp ops reg a mk = .ok l) :
    Numbered t.actor (t.startOp + t.pending.length) l := by
  unfold emitOp at h
  cases hr : resolveAction ops reg a with
  | none => rw [hr] at h; cases h; exact Numbered.nil _ _
  | some p =>
    obtain ⟨act, preds⟩ := p
    rw [hr] at h
    simp only at h
    (repeat' split at h) <;> first | (cases h; done) | (cases h; exact Numbered.singleton (hmk _ _))

theorem localPut_numbered {e : Enc} {ops : List Op} {t : Tx} {obj : ObjId} {prop : Sum Bytes Nat}
    {a : Action} {ck : Bool} {l : List Op} (h : localPut e ops t obj prop a ck = .ok l) :
    Numbered t.actor (t.startOp + t.pending.length) l := by
  cases hty : objType ops obj with
  | none => rw [localPut_of_none hty] at h; cases h
  | some ty =>
    rw [localPut_of_type hty] at h
    cases prop with
    | inl k =>
      simp only at h
      split at h
      · cases h
      · rw [localMapOp_eq] at h
        exact emitOp_numbered (fun _ _ => rfl) h
    | inr i =>
      simp only at h
      split at h
      · cases h
      · rw [localListOp_eq] at h
        split at h
        · cases h
        · split at h
          · cases h
          · exact emitOp_numbered (fun _ _ => rfl) h

theorem localInsert_numbered {e : Enc} {ops : List Op} {t : Tx} {obj : ObjId} {index : Nat}
    {a : Action} {l : List Op} (h : localInsert e ops t obj index a = .ok l) :
    Numbered t.actor (t.startOp + t.pending.length) l := by
  unfold localInsert at h
  split at h
  · cases h
  · split at h
    · cases h
    · split at h
      · cases h
      · cases h; exact Numbered.singleton rfl

theorem chainInserts_numbered (t : Tx) (obj : ObjId) :
    ∀ (ps : List Bytes) (key : Key) (n : Nat),
      Numbered t.actor (t.startOp + t.pending.length + n) (chainInserts t obj ps key n)
  | [], _, _ => Numbered.nil _ _
  | p :: ps, key, n => by
    have ih := chainInserts_numbered t obj ps (.elem (t.nextId n)) (n + 1)
    show Numbered _ _ ([_] ++ chainInserts t obj ps _ (n + 1))
    exact Numbered.append (Numbered.singleton rfl) (by simpa [Nat.add_assoc] using ih)

theorem chainInserts_length (t : Tx) (obj : ObjId) :
    ∀ (ps : List Bytes) (key : Key) (n : Nat), (chainInserts t obj ps key n).length = ps.length
  | [], _, _ => rfl
  | p :: ps, key, n => by simp [chainInserts, chainInserts_length t obj ps]

theorem deleteLoop_numbered (e : Enc) (isText : Bool) (t : Tx) (obj : ObjId) :
    ∀ (fuel : Nat) (ops : List Op) (di dd del : Nat) (acc : List Op),
      Numbered t.actor (t.startOp + t.pending.length) acc →
      Numbered t.actor (t.startOp + t.pending.length) (deleteLoop e isText t obj fuel ops di dd del acc)
  | 0, _, _, _, _, _, h => h
  | fuel + 1, ops, di, dd, del, acc, h => by
    unfold deleteLoop
    split
    · exact h
    · split
      · exact h
      · simp only
        split
        · exact deleteLoop_numbered e isText t obj fuel _ _ _ _ _ h
        · exact deleteLoop_numbered e isText t obj fuel _ _ _ _ _
            (Numbered.append h (Numbered.singleton rfl))

theorem localSpliceText_numbered {e : Enc} {ops : List Op} {t : Tx} {obj : ObjId} {index del : Nat}
    {text : Bytes} {l : List Op} (h : localSpliceText e ops t obj index del text = .ok l) :
    Numbered t.actor (t.startOp + t.pending.length) l := by
  rw [localSpliceText_eq] at h
  unfold spliceWith at h
  split at h
  · cases h
  · split at h
    · cases h
    · split at h
      · cases h
      · rename_i key idx _
        simp only at h
        cases h
        have h1 := chainInserts_numbered t obj (utf8Chars text) key 0
        refine Numbered.append h1 ?_
        have := deleteLoop_numbered e true { t with pending := t.pending ++ chainInserts t obj (utf8Chars text) key 0 }
          obj (del + 1) (ops ++ chainInserts t obj (utf8Chars text) key 0)
          (idx + ((utf8Chars text).map (width e)).foldl (· + ·) 0) 0 del [] (Numbered.nil _ _)
        simpa [Nat.add_assoc] using this


/-- the result of one editing call of the model, evaluated on applied ++ pending -/
inductive LocalCall (e : Enc) (applied : List Op) (t : Tx) : Except EditErr (List Op) → Prop
  | put (obj : ObjId) (prop : Sum Bytes Nat) (a : Action) (ck : Bool) :
      LocalCall e applied t (localPut e (applied ++ t.pending) t obj prop a ck)
  | insert (obj : ObjId) (index : Nat) (a : Action) :
      LocalCall e applied t (localInsert e (applied ++ t.pending) t obj index a)
  | spliceText (obj : ObjId) (index del : Nat) (text : Bytes) :
      LocalCall e applied t (localSpliceText e (applied ++ t.pending) t obj index del text)

/-- the transactions reachable from `t₀` by a sequence of editing calls (failed ones included) -/
inductive TxRun (e : Enc) (applied : List Op) (t₀ : Tx) : Tx → Prop
  | start : TxRun e applied t₀ t₀
  | step {t : Tx} {res : Except EditErr (List Op)} :
      TxRun e applied t₀ t → LocalCall e applied t res → TxRun e applied t₀ (t.after res)

theorem LocalCall.numbered {e : Enc} {applied : List Op} {t : Tx} {res : Except EditErr (List Op)}
    (h : LocalCall e applied t res) {l : List Op} (hl : res = .ok l) :
    Numbered t.actor (t.startOp + t.pending.length) l := by
  cases h with
  | put obj prop a ck => exact localPut_numbered hl
  | insert obj index a => exact localInsert_numbered hl
  | spliceText obj index del text => exact localSpliceText_numbered hl

/-- the pending ops of a transaction are numbered `startOp, startOp + 1, …` with its actor -/
theorem TxRun.numbered {e : Enc} {applied : List Op} {t₀ t : Tx} (h : TxRun e applied t₀ t)
    (h₀ : Numbered t₀.actor t₀.startOp t₀.pending) :
    t.actor = t₀.actor ∧ t.startOp = t₀.startOp ∧ Numbered t.actor t.startOp t.pending := by
  induction h with
  | start => exact ⟨rfl, rfl, h₀⟩
  | @step t res _ hc ih =>
    obtain ⟨ha, hs, hn⟩ := ih
    cases hres : res with
    | error err => exact ⟨ha, hs, hn⟩
    | ok l =>
      refine ⟨ha, hs, ?_⟩
      show Numbered t.actor t.startOp (t.pending ++ l)
      exact Numbered.append hn (hc.numbered hres)

/-! ### sequence number -/

theorem foldl_max_range' (m s n : Nat) :
    (List.range' s (n + 1)).foldl max m = max m (s + n) := by
  induction n generalizing m s with
  | zero => simp [List.range']
  | succ n ih =>
    rw [List.range'_succ, List.foldl_cons, ih]
    omega

/-- `seqForActor` = number of applied changes of the actor, when these carry 1, 2, …, n -/
theorem seqForActor_eq_length (d : Doc) (a : Bytes)
    (hc : (d.applied.filter (fun c => c.actor == a)).map (·.seq) =
      List.range' 1 (d.applied.filter (fun c => c.actor == a)).length) :
    d.seqForActor a = (d.applied.filter (fun c => c.actor == a)).length := by
  unfold Doc.seqForActor
  have : ∀ (l : List Change) (m : Nat), l.foldl (fun m c => max m c.seq) m = (l.map (·.seq)).foldl max m := by
    intro l
    induction l with
    | nil => intro m; rfl
    | cons x xs ih => intro m; simp [ih]
  rw [this, hc]
  cases hn : (d.applied.filter (fun c => c.actor == a)).length with
  | zero => rfl
  | succ n => rw [foldl_max_range']; omega

/-! ### dependencies -/

theorem insertHash_eq_insertKey (h : Hash) (l : List Hash) : insertHash h l = insertKey h l := by
  induction l with
  | nil => rfl
  | cons x xs ih => simp only [insertHash, insertKey, ih]

theorem sortHashes_sorted_local (hs : List Hash) : (sortHashes hs).Pairwise (fun a b => bytesLt a b = true) := by
  induction hs with
  | nil => exact List.Pairwise.nil
  | cons x xs ih =>
    show (insertHash x (sortHashes xs)).Pairwise _
    rw [insertHash_eq_insertKey]
    exact insertKey_sorted x ih

theorem heads_nodup (d : Doc) : d.heads.Nodup :=
  List.Pairwise.imp (fun {a b} h he => by rw [he, bytesLt_irrefl] at h; cases h) (sortHashes_sorted_local _)

/-- the three cases of `transaction_args` for the deps of a non-isolated transaction -/
theorem localDeps_cases (d : Doc) (actor : Bytes) :
    ((d.applied.filter (fun c => c.actor == actor)).getLast? = none ∧ d.localDeps actor = d.heads) ∨
    ∃ last, (d.applied.filter (fun c => c.actor == actor)).getLast? = some last ∧
      ((last.hash ∈ d.heads ∧ d.localDeps actor = d.heads) ∨
       (last.hash ∉ d.heads ∧ d.localDeps actor = d.heads ++ [last.hash])) := by
  unfold Doc.localDeps
  cases hg : (d.applied.filter (fun c => c.actor == actor)).getLast? with
  | none => exact .inl ⟨rfl, rfl⟩
  | some last =>
    right
    refine ⟨last, rfl, ?_⟩
    by_cases hm : last.hash ∈ d.heads
    · left; exact ⟨hm, by simp [hm]⟩
    · right; exact ⟨hm, by simp [hm]⟩

theorem mem_localDeps {d : Doc} {actor : Bytes} {h : Hash} :
    h ∈ d.localDeps actor ↔
      h ∈ d.heads ∨ ∃ last, (d.applied.filter (fun c => c.actor == actor)).getLast? = some last ∧ h = last.hash := by
  rcases localDeps_cases d actor with ⟨hg, he⟩ | ⟨last, hg, ⟨hm, he⟩ | ⟨hm, he⟩⟩
  · rw [he, hg]; simp
  · rw [he, hg]
    constructor
    · exact fun h => .inl h
    · rintro (h | ⟨l, hl, rfl⟩)
      · exact h
      · cases hl; exact hm
  · rw [he, hg]
    simp only [List.mem_append, List.mem_singleton, Option.some.injEq]
    constructor
    · rintro (h | rfl)
      · exact .inl h
      · exact .inr ⟨last, rfl, rfl⟩
    · rintro (h | ⟨l, rfl, rfl⟩)
      · exact .inl h
      · exact .inr rfl

theorem localDeps_nodup (d : Doc) (actor : Bytes) : (d.localDeps actor).Nodup := by
  rcases localDeps_cases d actor with ⟨_, he⟩ | ⟨last, _, ⟨_, he⟩ | ⟨hm, he⟩⟩
  · rw [he]; exact heads_nodup d
  · rw [he]; exact heads_nodup d
  · rw [he, List.nodup_append]
    refine ⟨heads_nodup d, (by simp), ?_⟩
    intro a ha b hb
    have : b = last.hash := by simpa using hb
    subst this
    intro hab; exact hm (hab ▸ ha)


/-- the C03 freshness hypothesis follows from the numbering: every op the call sees has an id
    below the transaction's next id -/
theorem TxRun.ids_lt_next {e : Enc} {d : Doc} {actor : Bytes} {t : Tx}
    (hn : ∀ c ∈ d.applied, OpsNumbered c) (h : TxRun e d.ops (d.beginTx actor) t) :
    ∀ x ∈ d.ops ++ t.pending, x.id.lt t.nextId = true := by
  obtain ⟨_, hs, hnum⟩ := h.numbered (Numbered.nil _ _)
  intro x hx
  have hlt : x.id.ctr < t.startOp + t.pending.length := by
    rcases List.mem_append.mp hx with hx | hx
    · have := beginTx_startOp_gt_of_numbered d actor hn x hx
      rw [hs]; omega
    · exact (hnum.mem hx).2.2
  have : t.nextId = ⟨t.startOp + t.pending.length + 0, t.actor⟩ := rfl
  rw [this]
  simp only [OpId.lt, Bool.or_eq_true, decide_eq_true_eq]
  left; omega


/-! ## §7 list / text elements: update, delete, increment -/

theorem seekByIndex_some_mem {e : Enc} {isText : Bool} {regs : List (OpId × List Op)} {i st : Nat}
    {id : OpId} {r : List Op} {s : Nat} (h : seekByIndex e isText regs i st = some (id, r, s)) :
    (id, r) ∈ regs := by
  induction regs generalizing st with
  | nil => cases h
  | cons p regs ih =>
    obtain ⟨id', r'⟩ := p
    rw [seekByIndex_cons] at h
    split at h
    · cases h; exact List.mem_cons_self
    · exact List.mem_cons_of_mem _ (ih h)

theorem mem_seqRegs {ops : List Op} {obj : ObjId} {id : OpId} {r : List Op} (h : (id, r) ∈ seqRegs ops obj) :
    ∃ c ∈ rgaOrder ops obj, c.isMark = false ∧ c.id = id ∧ r = elemRegOps ops obj id ∧ r ≠ [] := by
  unfold seqRegs at h
  rw [List.mem_filterMap] at h
  obtain ⟨c, hc, hh⟩ := h
  refine ⟨c, hc, ?_⟩
  cases hm : c.isMark
  · simp only [hm, Bool.false_eq_true, if_false] at hh
    split at hh
    · cases hh
    · rename_i hne
      simp only [Option.some.injEq, Prod.mk.injEq] at hh
      obtain ⟨rfl, rfl⟩ := hh
      exact ⟨rfl, rfl, rfl, fun h0 => hne h0⟩
  · simp [hm] at hh

/-- what a successful single-op indexed call produced: an op on the element found at the index -/
theorem localPut_list_shape {e : Enc} {ops : List Op} {t : Tx} {obj : ObjId} {i : Nat} {a : Action}
    {ck : Bool} {o : Op} (h : localPut e ops t obj (.inr i) a ck = .ok [o]) :
    ∃ ty el st act preds, objType ops obj = some ty ∧ isSeq ty = true ∧
      seekByIndex e (ty == .text) (seqRegs ops obj) i 0 = some (el, elemRegOps ops obj el, st) ∧
      elemRegOps ops obj el ≠ [] ∧
      o = mkElemOp t obj el act preds ∧ (∀ p ∈ preds, p ∈ elemRegOps ops obj el) ∧
      ((act = a ∧ preds = elemRegOps ops obj el) ∨
       (∃ v last, a = .put v ∧ act = .del ∧ preds = (elemRegOps ops obj el).dropLast ∧
          (elemRegOps ops obj el).getLast? = some last ∧ putEqLast ops last v = true ∧
          elemRegOps ops obj el ≠ [last])) := by
  cases hty : objType ops obj with
  | none => rw [localPut_of_none hty] at h; cases h
  | some ty =>
    rw [localPut_of_type hty] at h
    simp only at h
    split at h
    · cases h
    · rw [localListOp_eq] at h
      cases hs : isSeq ty
      · simp [hs] at h
      · simp only [hs, Bool.not_true, Bool.false_eq_true, if_false] at h
        cases hk : seekByIndex e (ty == .text) (seqRegs ops obj) i 0 with
        | none => rw [hk] at h; cases h
        | some r =>
          obtain ⟨el, reg, st⟩ := r
          rw [hk] at h
          simp only at h
          obtain ⟨c, _, _, _, rfl, hne⟩ := mem_seqRegs (seekByIndex_some_mem hk)
          obtain ⟨act, preds, rfl, hsub, hc⟩ := emitOp_ok_singleton h
          exact ⟨ty, el, st, act, preds, rfl, hs, hk, hne, rfl, hsub, hc⟩


section
variable {e : Enc} {ops : List Op} {t : Tx} {obj : ObjId} {i : Nat} {ck : Bool} {o : Op} {el : OpId}

theorem localPut_list_txOp {a : Action} (hs : StrictIds ops) (hlt : ∀ x ∈ ops, x.id.lt t.nextId = true)
    (hnp : ∀ x ∈ ops, t.nextId ∉ x.pred) (h : localPut e ops t obj (.inr i) a ck = .ok [o])
    (hk : o.key = .elem el) :
    TxOp ops o (elemSel obj el) ∧ o.id = t.nextId ∧ o.obj = obj ∧ o.insert = false := by
  obtain ⟨_, el', _, act, preds, _, _, _, _, rfl, hsub, _⟩ := localPut_list_shape h
  cases hk
  exact ⟨txOp_mkElemOp hs hlt hnp hsub, rfl, rfl, rfl⟩

/-- put / put_object on a list element: the element holds exactly the new value -/
theorem list_value_effect {a : Action} (hs : StrictIds ops) (hlt : ∀ x ∈ ops, x.id.lt t.nextId = true)
    (hnp : ∀ x ∈ ops, t.nextId ∉ x.pred) (h : localPut e ops t obj (.inr i) a ck = .ok [o])
    (hk : o.key = .elem el) (hv : o.isValue = true) :
    elemRegister (ops ++ [o]) obj el = [⟨t.nextId, Val.ofAction a⟩] := by
  obtain ⟨_, el', _, act, preds, _, _, _, _, rfl, hsub, hc⟩ := localPut_list_shape h
  cases hk
  have htx := txOp_mkElemOp (act := act) hs hlt hnp hsub
  rcases hc with ⟨rfl, rfl⟩ | ⟨v, last, rfl, rfl, _⟩
  · rw [elemRegister_eq]
    refine (htx.overwrite_all (by simp [elemSel, mkElemOp, Op.elem]) hv ?_).2
    intro x hx
    exact List.mem_map.mpr ⟨x, hx, rfl⟩
  · simp [mkElemOp, Op.isValue] at hv

/-- put equal to the winner of a conflicted element: the losers are deleted, the winner stays -/
theorem list_put_conflict_effect {v : Scalar} (hs : StrictIds ops) (hlt : ∀ x ∈ ops, x.id.lt t.nextId = true)
    (hnp : ∀ x ∈ ops, t.nextId ∉ x.pred) (h : localPut e ops t obj (.inr i) (.put v) ck = .ok [o])
    (hk : o.key = .elem el) (ha : o.action = .del) :
    ∃ w, (elemRegister ops obj el).getLast? = some w ∧ w.val = Val.ofScalar v ∧
      2 ≤ (elemRegister ops obj el).length ∧ elemRegister (ops ++ [o]) obj el = [w] := by
  obtain ⟨_, el', _, act, preds, _, _, _, _, rfl, hsub, hc⟩ := localPut_list_shape h
  cases hk
  have htx := txOp_mkElemOp (act := act) hs hlt hnp hsub
  rcases hc with ⟨rfl, rfl⟩ | ⟨v', last, hv', rfl, rfl, hg, heq, hne⟩
  · simp [mkElemOp] at ha
  · cases hv'
    have hreg : elemRegOps ops obj el = (elemRegOps ops obj el).dropLast ++ [last] := by
      have hnn : elemRegOps ops obj el ≠ [] := by intro h0; rw [h0] at hg; cases hg
      have := List.dropLast_concat_getLast hnn
      rw [List.getLast?_eq_some_getLast hnn] at hg
      cases hg
      exact this.symm
    have hlv : last.isValue = true :=
      isValue_of_mem_regOps (sel := elemSel obj el) (by rw [← elemRegOps_eq, hreg]; simp)
    refine ⟨entryOf ops last, ?_, (putEqLast_iff hlv).mp heq, ?_, ?_⟩
    · rw [elemRegister_eq, ← elemRegOps_eq, List.getLast?_map, hg]; rfl
    · rw [elemRegister_eq, ← elemRegOps_eq, List.length_map]
      rw [hreg] at hne ⊢
      cases hd : (elemRegOps ops obj el).dropLast with
      | nil => rw [hd] at hne; exact absurd rfl hne
      | cons _ _ => simp
    · rw [elemRegister_eq]
      exact (htx.delete_losers (by simp [mkElemOp, Op.isValue]) (by simp [mkElemOp, Op.isInc])
        (by rw [← elemRegOps_eq]; exact hreg) rfl).2

/-- delete of a list element: its register becomes empty -/
theorem list_delete_effect (hs : StrictIds ops) (hlt : ∀ x ∈ ops, x.id.lt t.nextId = true)
    (hnp : ∀ x ∈ ops, t.nextId ∉ x.pred) (h : localPut e ops t obj (.inr i) .del ck = .ok [o])
    (hk : o.key = .elem el) :
    elemRegister (ops ++ [o]) obj el = [] := by
  obtain ⟨_, el', _, act, preds, _, _, _, _, rfl, hsub, hc⟩ := localPut_list_shape h
  cases hk
  have htx := txOp_mkElemOp (act := act) hs hlt hnp hsub
  rcases hc with ⟨rfl, rfl⟩ | ⟨v, last, hv, _⟩
  · rw [elemRegister_eq, htx.delete_all (by simp [mkElemOp, Op.isValue]) (by simp [mkElemOp, Op.isInc])]
    · rfl
    · intro x hx; exact List.mem_map.mpr ⟨x, hx, rfl⟩
  · cases hv

/-- increment of a list element: its counters grow by `n`, other values leave -/
theorem list_increment_effect {n : Int} (hs : StrictIds ops) (hlt : ∀ x ∈ ops, x.id.lt t.nextId = true)
    (hnp : ∀ x ∈ ops, t.nextId ∉ x.pred) (h : localPut e ops t obj (.inr i) (.inc n) ck = .ok [o])
    (hk : o.key = .elem el) :
    elemRegister (ops ++ [o]) obj el = (elemRegister ops obj el).filterMap (Entry.bump n) := by
  obtain ⟨_, el', _, act, preds, _, _, _, _, rfl, hsub, hc⟩ := localPut_list_shape h
  cases hk
  have htx := txOp_mkElemOp (act := act) hs hlt hnp hsub
  rcases hc with ⟨rfl, rfl⟩ | ⟨v, last, hv, _⟩
  · have hall : ∀ x ∈ regOps ops (elemSel obj el), x.id ∈ (mkElemOp t obj el (.inc n) (elemRegOps ops obj el)).pred :=
      fun x hx => List.mem_map.mpr ⟨x, hx, rfl⟩
    rw [elemRegister_eq, elemRegister_eq, htx.increment_all (by simp [mkElemOp, Op.isInc]) hall,
      map_filter_eq_filterMap, List.filterMap_map]
    apply filterMap_congr'
    intro x hx
    exact bump_entryOf (by simp [mkElemOp]) (hall x hx)
  · cases hv

end


section
variable {ops : List Op} {o : Op} {obj : ObjId} {el : OpId}

theorem elem_of_noninsert {o : Op} {el : OpId} (hk : o.key = .elem el) (hi : o.insert = false) :
    o.elem = some el := by
  simp [Op.elem, hk, hi]

/-- an op on a list element leaves every other element register alone -/
theorem TxOp.elem_other_elemRegister (h : TxOp ops o (elemSel obj el)) (ho : o.obj = obj)
    (hk : o.key = .elem el) (hi : o.insert = false) {obj' : ObjId} {el' : OpId} (hne : obj' ≠ obj ∨ el' ≠ el) :
    elemRegister (ops ++ [o]) obj' el' = elemRegister ops obj' el' := by
  rw [elemRegister_eq, elemRegister_eq]
  apply h.other_register
  · intro x _ h1 h2
    simp only [elemSel, Bool.and_eq_true, beq_iff_eq] at h1 h2
    rcases hne with hne | hne
    · exact hne (h2.1.symm.trans h1.1)
    · have := h2.2.symm.trans h1.2
      exact hne (Option.some.inj this)
  · simp only [elemSel, ho, elem_of_noninsert hk hi, Bool.and_eq_false_iff, beq_eq_false_iff_ne, ne_eq]
    rcases hne with hne | hne
    · exact .inl (fun h => hne h.symm)
    · exact .inr (fun h => hne (Option.some.inj h).symm)

/-- … and the map registers and key sets of every other object -/
theorem TxOp.elem_other_mapRegister (h : TxOp ops o (elemSel obj el)) (ho : o.obj = obj)
    {obj' : ObjId} (k' : Bytes) (hne : obj' ≠ obj) :
    mapRegister (ops ++ [o]) obj' k' = mapRegister ops obj' k' := by
  rw [mapRegister_eq, mapRegister_eq]
  apply h.other_register
  · intro x _ h1 h2
    simp only [mapSel, elemSel, Bool.and_eq_true, beq_iff_eq] at h1 h2
    exact hne (h2.1.symm.trans h1.1)
  · simp only [mapSel, ho, Bool.and_eq_false_iff, beq_eq_false_iff_ne, ne_eq]
    exact .inl (fun h => hne h.symm)

theorem TxOp.elem_other_keys (h : TxOp ops o (elemSel obj el)) (ho : o.obj = obj)
    {obj' : ObjId} (hne : obj' ≠ obj) : mapKeys (ops ++ [o]) obj' = mapKeys ops obj' :=
  mapKeys_eq_of_register_iff (fun k' => by rw [h.elem_other_mapRegister ho k' hne])

end

/-- if the order is unchanged and only element `el` (visible before) has a new register, the
    visible element list changes at `el` only: its entry is replaced, or dropped when the new
    register is empty -/
theorem seqElems_replace {ops ops' : List Op} {obj : ObjId} {el : OpId}
    (ho : rgaOrder ops' obj = rgaOrder ops obj)
    (hr : ∀ el', el' ≠ el → elemRegister ops' obj el' = elemRegister ops obj el')
    (hold : elemRegister ops obj el ≠ []) :
    seqElems ops' obj = (seqElems ops obj).filterMap (fun p =>
      if p.1 = el then (match elemRegister ops' obj el with | [] => none | r => some (el, r)) else some p) := by
  unfold seqElems
  rw [ho, List.filterMap_filterMap]
  apply filterMap_congr'
  intro c _
  cases hm : c.isMark
  · simp only [Bool.false_eq_true, if_false]
    by_cases hc : c.id = el
    · rw [hc]
      cases hreg : elemRegister ops obj el with
      | nil => exact absurd hreg hold
      | cons x xs =>
        simp
        cases elemRegister ops' obj el <;> rfl
    · rw [hr c.id hc]
      cases hreg : elemRegister ops obj c.id with
      | nil => simp
      | cons x xs => simp [hc]
  · simp


/-! ## §8 RGA: inserting an element -/

/-- `l` with `o` put immediately after every element whose id is the reference `ref` names -/
def insAfter (ref : Key) (o : Op) (l : List Op) : List Op :=
  l.flatMap (fun c => c :: (if Key.elem c.id = ref then [o] else []))

theorem insAfter_nil (ref : Key) (o : Op) : insAfter ref o [] = [] := rfl

theorem insAfter_cons (ref : Key) (o c : Op) (l : List Op) :
    insAfter ref o (c :: l) = c :: ((if Key.elem c.id = ref then [o] else []) ++ insAfter ref o l) := by
  simp [insAfter]

theorem insAfter_append (ref : Key) (o : Op) (l₁ l₂ : List Op) :
    insAfter ref o (l₁ ++ l₂) = insAfter ref o l₁ ++ insAfter ref o l₂ := by
  simp [insAfter]

theorem insAfter_flatMap {α : Type} (ref : Key) (o : Op) (l : List α) (g : α → List Op) :
    insAfter ref o (l.flatMap g) = l.flatMap (fun a => insAfter ref o (g a)) := by
  unfold insAfter
  rw [List.flatMap_assoc]

theorem insAfter_head (o : Op) (l : List Op) : insAfter .head o l = l := by
  simp [insAfter]

theorem children_append_insert {ops : List Op} {o : Op} (hlt : ∀ x ∈ ops, x.id.lt o.id = true)
    (obj : ObjId) (p : Key) :
    children (ops ++ [o]) obj p =
      (if (o.obj == obj && o.insert && o.key == p) = true then [o] else []) ++ children ops obj p := by
  unfold children
  rw [filter_append_singleton]
  split
  · rw [sortById_append_last (fun x hx => hlt x (List.mem_filter.mp hx).1)]
    simp
  · simp

theorem rgaFrom_no_children {ops : List Op} {obj : ObjId} {p : Key}
    (h : ∀ x ∈ ops, x.insert = true → x.key ≠ p) :
    ∀ f, rgaFrom ops obj f p = []
  | 0 => rfl
  | f + 1 => by
    have : children ops obj p = [] := by
      unfold children
      have : ops.filter (fun o => o.obj == obj && o.insert && o.key == p) = [] := by
        rw [List.filter_eq_nil_iff]
        intro x hx
        by_cases hi : x.insert = true
        · simp [h x hx hi]
        · simp [hi]
      rw [this]; rfl
    rw [rgaFrom_succ, this]; rfl

/-- **RGA insertion.**  Appending an insert op `o` with the greatest id, which nobody references
    yet: every walk is the old walk with `o` spliced in immediately after its reference element
    (at the front of the walk from `o.key` itself). -/
theorem rgaFrom_insert {ops : List Op} {o : Op} {obj : ObjId} (hlt : ∀ x ∈ ops, x.id.lt o.id = true)
    (hr : RefsSmaller (ops ++ [o])) (hnr : ∀ x ∈ ops ++ [o], x.insert = true → x.key ≠ .elem o.id)
    (hi : o.insert = true) (ho : o.obj = obj) :
    ∀ (f : Nat) (p : Key), above (ops ++ [o]) p < f →
      rgaFrom (ops ++ [o]) obj f p =
        (if p = o.key then [o] else []) ++ insAfter o.key o (rgaFrom ops obj f p)
  | 0, _, hf => by omega
  | f + 1, p, hf => by
    rw [rgaFrom_succ, rgaFrom_succ, children_append_insert hlt, List.flatMap_append, insAfter_flatMap]
    have hcond : ((o.obj == obj && o.insert && o.key == p) = true) ↔ p = o.key := by
      simp only [ho, hi, beq_self_eq_true, Bool.and_self, Bool.true_and, beq_iff_eq]
      exact eq_comm
    congr 1
    · by_cases hp : p = o.key
      · rw [if_pos (hcond.mpr hp), if_pos hp]
        simp [rgaFrom_no_children hnr f]
      · rw [if_neg (fun h => hp (hcond.mp h)), if_neg hp]; rfl
    · apply flatMap_congr'
      intro c hc
      have hc' : c ∈ children (ops ++ [o]) obj p := by
        rw [children_append_insert hlt]
        exact List.mem_append_right _ hc
      have := above_child hr hc'
      rw [rgaFrom_insert hlt hr hnr hi ho f (.elem c.id) (by omega), insAfter_cons]


theorem mem_rgaFrom {ops : List Op} {obj : ObjId} {x : Op} :
    ∀ {f : Nat} {p : Key}, x ∈ rgaFrom ops obj f p → x ∈ ops ∧ x.obj = obj ∧ x.insert = true
  | 0, _, h => by cases h
  | f + 1, p, h => by
    rw [rgaFrom_succ, List.mem_flatMap] at h
    obtain ⟨c, hc, hx⟩ := h
    rcases List.mem_cons.mp hx with rfl | hx
    · obtain ⟨h1, h2, h3, _⟩ := mem_children.mp hc
      exact ⟨h1, h2, h3⟩
    · exact mem_rgaFrom hx

theorem refsSmaller_append {ops : List Op} {o : Op} (hr : RefsSmaller ops)
    (ho : o.insert = true → (match o.key with | .elem e => e.lt o.id | _ => true) = true) :
    RefsSmaller (ops ++ [o]) := by
  intro x hx hi
  rcases List.mem_append.mp hx with hx | hx
  · exact hr x hx hi
  · have : x = o := by simpa using hx
    subst this; exact ho hi

/-- nobody can reference the greatest id -/
theorem no_ref_to_greatest {ops : List Op} {o : Op} (hlt : ∀ x ∈ ops, x.id.lt o.id = true)
    (hr : RefsSmaller (ops ++ [o])) : ∀ x ∈ ops ++ [o], x.insert = true → x.key ≠ .elem o.id := by
  intro x hx hi hk
  have h1 := hr.lt hx hi hk
  rcases List.mem_append.mp hx with hx | hx
  · exact OpId.lt_asymm h1 (hlt x hx)
  · have : x = o := by simpa using hx
    subst this
    rw [OpId.lt_irrefl] at h1; cases h1

/-- the element order after an insert: the old order with the new element immediately after its
    reference element, or in front for HEAD -/
theorem rgaOrder_insert {ops : List Op} {o : Op} (hlt : ∀ x ∈ ops, x.id.lt o.id = true)
    (hr : RefsSmaller ops) (hr' : RefsSmaller (ops ++ [o])) (hi : o.insert = true) :
    rgaOrder (ops ++ [o]) o.obj =
      (if o.key = .head then [o] else []) ++ insAfter o.key o (rgaOrder ops o.obj) := by
  unfold rgaOrder
  rw [rgaFrom_insert hlt hr' (no_ref_to_greatest hlt hr') hi rfl _ .head (by simp [above])]
  have : rgaFrom ops o.obj ((ops ++ [o]).length + 1) .head = rgaFrom ops o.obj (ops.length + 1) .head :=
    rgaOrder_eq_fuel hr o.obj (by simp)
  rw [this]
  by_cases h : o.key = .head
  · rw [if_pos h, if_pos h.symm]
  · rw [if_neg h, if_neg (fun hh => h hh.symm)]

/-- … and the order of every other object is untouched -/
theorem rgaOrder_insert_other {ops : List Op} {o : Op} (hlt : ∀ x ∈ ops, x.id.lt o.id = true)
    (hr : RefsSmaller ops) {obj' : ObjId} (hne : obj' ≠ o.obj) :
    rgaOrder (ops ++ [o]) obj' = rgaOrder ops obj' := by
  have hch : ∀ p, children (ops ++ [o]) obj' p = children ops obj' p := by
    intro p
    rw [children_append_insert hlt]
    have : (o.obj == obj' && o.insert && o.key == p) = false := by
      have : (o.obj == obj') = false := by simp; exact fun h => hne h.symm
      simp [this]
    simp [this]
  have hall : ∀ f p, rgaFrom (ops ++ [o]) obj' f p = rgaFrom ops obj' f p := by
    intro f
    induction f with
    | zero => intro p; rfl
    | succ f ih =>
      intro p
      rw [rgaFrom_succ, rgaFrom_succ, hch]
      apply flatMap_congr'
      intro c _
      rw [ih]
  unfold rgaOrder
  rw [hall]
  exact rgaOrder_eq_fuel hr obj' (by simp)


/-! ### registers after an insert -/

section
variable {ops : List Op} {o : Op}

theorem register_append_nopred (hp : o.pred = []) {sel : Op → Bool}
    (ho : (sel o && visible (ops ++ [o]) o) = false) :
    (regOps (ops ++ [o]) sel).map (entryOf (ops ++ [o])) = (regOps ops sel).map (entryOf ops) :=
  register_append_other (fun _ _ _ => by rw [hp]; exact List.not_mem_nil) ho

/-- an insert op (no predecessors) leaves every map register alone -/
theorem insert_mapRegister (hp : o.pred = []) (hk : ∀ k, o.key ≠ .map k) (obj' : ObjId) (k' : Bytes) :
    mapRegister (ops ++ [o]) obj' k' = mapRegister ops obj' k' := by
  rw [mapRegister_eq, mapRegister_eq]
  apply register_append_nopred hp
  have : mapSel obj' k' o = false := by
    simp only [mapSel, Bool.and_eq_false_iff, beq_eq_false_iff_ne, ne_eq]
    exact .inr (hk k')
  simp [this]

theorem insert_mapKeys (hp : o.pred = []) (hk : ∀ k, o.key ≠ .map k) (obj' : ObjId) :
    mapKeys (ops ++ [o]) obj' = mapKeys ops obj' :=
  mapKeys_eq_of_register_iff (fun k' => by rw [insert_mapRegister hp hk])

/-- … and every element register but its own -/
theorem insert_elemRegister_other (hp : o.pred = []) (hi : o.insert = true) {obj' : ObjId} {el' : OpId}
    (hne : obj' ≠ o.obj ∨ el' ≠ o.id) :
    elemRegister (ops ++ [o]) obj' el' = elemRegister ops obj' el' := by
  rw [elemRegister_eq, elemRegister_eq]
  apply register_append_nopred hp
  have : elemSel obj' el' o = false := by
    simp only [elemSel, Op.elem, hi, if_true, Bool.and_eq_false_iff, beq_eq_false_iff_ne, ne_eq]
    rcases hne with hne | hne
    · exact .inl (fun h => hne h.symm)
    · exact .inr (fun h => hne (Option.some.inj h).symm)
  simp [this]

/-- the new element holds exactly the inserted value -/
theorem insert_elemRegister_new (hs : StrictIds ops) (hlt : ∀ x ∈ ops, x.id.lt o.id = true)
    (hnp : ∀ x ∈ ops, o.id ∉ x.pred) (hnk : ∀ x ∈ ops, x.key ≠ .elem o.id)
    (hp : o.pred = []) (hi : o.insert = true) (hv : o.isValue = true) :
    elemRegister (ops ++ [o]) o.obj o.id = [⟨o.id, Val.ofAction o.action⟩] := by
  have hself : o.id ∉ o.pred := by rw [hp]; exact List.not_mem_nil
  have hvis : visible (ops ++ [o]) o = true := by rw [visible_fresh hnp hself, hv]
  have hsel : elemSel o.obj o.id o = true := by simp [elemSel, Op.elem, hi]
  have hold : regOps ops (elemSel o.obj o.id) = [] := by
    unfold regOps
    have : ops.filter (fun x => elemSel o.obj o.id x && visible ops x) = [] := by
      rw [List.filter_eq_nil_iff]
      intro x hx
      have : elemSel o.obj o.id x = false := by
        simp only [elemSel, Op.elem, Bool.and_eq_false_iff, beq_eq_false_iff_ne, ne_eq]
        right
        by_cases hxi : x.insert = true
        · simp only [hxi, if_true, Option.some.injEq]
          intro he
          have := hlt x hx
          rw [he, OpId.lt_irrefl] at this; cases this
        · simp only [hxi, Bool.false_eq_true, if_false]
          have := hnk x hx
          cases hkx : x.key with
          | elem e => simp only [Option.some.injEq]; intro he; exact this (by rw [hkx, he])
          | _ => simp
      simp [this]
    rw [this]; rfl
  rw [elemRegister_eq, regOps_append_value hs hlt hsel hvis, hold]
  simp [entryOf_fresh hnp hself]

end


/-! ### the visible element list after an insert -/

/-- what `seqElems` lists for one element of the order -/
def elemEntry (ops : List Op) (obj : ObjId) (c : Op) : Option (OpId × List Entry) :=
  if c.isMark then none else
  match elemRegister ops obj c.id with
  | [] => none
  | r => some (c.id, r)

theorem seqElems_eq_filterMap (ops : List Op) (obj : ObjId) :
    seqElems ops obj = (rgaOrder ops obj).filterMap (elemEntry ops obj) := rfl

theorem elemEntry_fst {ops : List Op} {obj : ObjId} {c : Op} {p : OpId × List Entry}
    (h : elemEntry ops obj c = some p) : p.1 = c.id := by
  unfold elemEntry at h
  split at h
  · cases h
  · split at h
    · cases h
    · cases h; rfl

/-- a list of (id, value) pairs with `new` put immediately after every pair whose id `ref` names -/
def insAfterE {α : Type} (ref : Key) (new : OpId × α) (l : List (OpId × α)) : List (OpId × α) :=
  l.flatMap (fun p => p :: (if Key.elem p.1 = ref then [new] else []))

theorem insAfterE_cons {α : Type} (ref : Key) (new p : OpId × α) (l : List (OpId × α)) :
    insAfterE ref new (p :: l) = p :: ((if Key.elem p.1 = ref then [new] else []) ++ insAfterE ref new l) := by
  simp [insAfterE]

theorem filterMap_insAfter {ops ops' : List Op} {obj : ObjId} {o : Op} {new : OpId × List Entry}
    (hnew : elemEntry ops' obj o = some new) :
    ∀ (R : List Op),
      (∀ c ∈ R, elemEntry ops' obj c = elemEntry ops obj c) →
      (∀ c ∈ R, Key.elem c.id = o.key → elemEntry ops obj c ≠ none) →
      (insAfter o.key o R).filterMap (elemEntry ops' obj) = insAfterE o.key new (R.filterMap (elemEntry ops obj))
  | [], _, _ => rfl
  | c :: R, h1, h2 => by
    have ih := filterMap_insAfter hnew R (fun x hx => h1 x (List.mem_cons_of_mem _ hx))
      (fun x hx => h2 x (List.mem_cons_of_mem _ hx))
    rw [insAfter_cons, List.filterMap_cons, h1 c List.mem_cons_self, List.filterMap_append, ih]
    cases hg : elemEntry ops obj c with
    | none =>
      have : Key.elem c.id ≠ o.key := fun hk => h2 c List.mem_cons_self hk hg
      simp [hg, this]
    | some p =>
      have hp := elemEntry_fst hg
      rw [List.filterMap_cons, hg, insAfterE_cons, hp]
      by_cases hk : Key.elem c.id = o.key
      · simp [hk, hnew]
      · simp [hk]

theorem seqElems_insert {ops : List Op} {o : Op} {new : OpId × List Entry}
    (horder : rgaOrder (ops ++ [o]) o.obj =
      (if o.key = .head then [o] else []) ++ insAfter o.key o (rgaOrder ops o.obj))
    (hnew : elemEntry (ops ++ [o]) o.obj o = some new)
    (hsame : ∀ c ∈ rgaOrder ops o.obj, elemEntry (ops ++ [o]) o.obj c = elemEntry ops o.obj c)
    (href : ∀ c ∈ rgaOrder ops o.obj, Key.elem c.id = o.key → elemEntry ops o.obj c ≠ none) :
    seqElems (ops ++ [o]) o.obj =
      (if o.key = .head then [new] else []) ++ insAfterE o.key new (seqElems ops o.obj) := by
  rw [seqElems_eq_filterMap, seqElems_eq_filterMap, horder, List.filterMap_append,
    filterMap_insAfter hnew _ hsame href]
  congr 1
  split <;> simp [hnew]

end AmVerif.Crdt
