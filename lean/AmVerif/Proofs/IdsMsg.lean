import AmVerif.Model.IdsMsg
import AmVerif.Proofs.Ids
import AmVerif.Proofs.Leb128
/-
  Helper lemmas for the sync `State` / `Message` codec theorems of Props/C19.lean and
  Props/C15Ids.lean.
-/
namespace AmVerif.IdsMsg
open AmVerif AmVerif.Leb AmVerif.Ids

/-! ### combinators -/

theorem repeatN_encode {α : Type} (g : Bytes → MResult α) (enc : α → Bytes) (xs : List α)
    (rest : Bytes) (h : ∀ x ∈ xs, ∀ r, g (enc x ++ r) = .ok (x, r)) :
    repeatN g xs.length (xs.flatMap enc ++ rest) = .ok (xs, rest) := by
  induction xs with
  | nil => simp [repeatN]
  | cons x xs ih =>
    simp only [List.length_cons, List.flatMap_cons, List.append_assoc, repeatN]
    rw [h x (by simp)]
    simp only
    rw [ih (fun y hy => h y (by simp [hy]))]

theorem lengthPrefixed_encodeMany {α : Type} (g : Bytes → MResult α) (enc : α → Bytes)
    (xs : List α) (rest : Bytes) (hl : xs.length < 2 ^ 64)
    (h : ∀ x ∈ xs, ∀ r, g (enc x ++ r) = .ok (x, r)) :
    lengthPrefixed g (encodeMany enc xs ++ rest) = .ok (xs, rest) := by
  unfold lengthPrefixed encodeMany
  rw [List.append_assoc, uleb64_encode _ hl]
  simp only
  exact repeatN_encode g enc xs rest h

theorem changeHash_append (h r : Bytes) (hl : h.length = 32) : changeHash (h ++ r) = .ok (h, r) := by
  unfold changeHash
  have : Consts.HASH_SIZE = h.length := by rw [hl]; rfl
  rw [this, Ids.takeN_append]

theorem lengthPrefixedBytes_chunk (c r : Bytes) (hl : c.length < 2 ^ 64) :
    lengthPrefixedBytes (chunkEncode c ++ r) = .ok (c, r) := by
  unfold lengthPrefixedBytes chunkEncode
  rw [List.append_assoc, uleb64_encode _ hl]
  simp only [Ids.takeN_append]

theorem parseHashes_encode (hs : List Hash) (rest : Bytes) (hl : hs.length < 2 ^ 64)
    (h32 : ∀ h ∈ hs, h.length = 32) :
    lengthPrefixed changeHash (encodeMany id hs ++ rest) = .ok (hs, rest) :=
  lengthPrefixed_encodeMany changeHash id hs rest hl
    (fun x hx r => by simpa using changeHash_append x r (h32 x hx))

/-! ### Bloom filter bytes -/

/-- the filters whose bytes decode back to themselves: an empty filter must be THE default one
    (its parameters are not written), a non-empty one has `u32` parameters and exactly
    `bits_capacity` bytes of bits — every filter made by `from_hashes` or by `parse` of its own
    bytes is of this form. -/
def BloomWF (f : Bloom.Filter) : Prop :=
  (f.numEntries = 0 → f = Bloom.default) ∧
  (f.numEntries ≠ 0 → f.numEntries < 2 ^ 32 ∧ f.bitsPerEntry < 2 ^ 32 ∧ f.numProbes < 2 ^ 32 ∧
      f.bits.length = Bloom.bitsCapacity f.numEntries f.bitsPerEntry ∧
      -- since fix D2b the parser refuses more probes than bits
      (f.bits = [] ∨ f.numProbes ≤ 8 * f.bits.length))

theorem bloomTakeN_append (a rest : Bytes) : Bloom.takeN a.length (a ++ rest) = .ok (a, rest) := by
  unfold Bloom.takeN
  simp

theorem bloom_parse_toBytes (f : Bloom.Filter) (h : BloomWF f) :
    Bloom.parse (Bloom.toBytes f) = .ok (f, []) := by
  by_cases h0 : f.numEntries = 0
  · have := h.1 h0
    rw [this]
    rfl
  · obtain ⟨hn, hb, hp, hbits, hcap⟩ := h.2 h0
    unfold Bloom.toBytes Bloom.parse
    simp only [h0, ne_eq, not_false_eq_true, if_true]
    have hne : (ulebEncode f.numEntries ++ ulebEncode f.bitsPerEntry ++ ulebEncode f.numProbes
        ++ f.bits).isEmpty = false := by
      have := ulebEncode_length_pos f.numEntries
      cases hh : ulebEncode f.numEntries with
      | nil => rw [hh] at this; simp at this
      | cons a r => simp
    simp only [List.append_assoc] at hne ⊢
    rw [hne]
    simp only [Bool.false_eq_true, if_false]
    rw [uleb32_encode _ hn]
    simp only
    rw [uleb32_encode _ hb]
    simp only
    rw [uleb32_encode _ hp]
    simp only
    rw [← hbits]
    have := bloomTakeN_append f.bits []
    simp only [List.append_nil] at this
    rw [this]
    have hc : (!f.bits.isEmpty && decide (f.numProbes > 8 * f.bits.length)) = false := by
      rcases hcap with he | hle
      · simp [he]
      · have : ¬ (f.numProbes > 8 * f.bits.length) := by omega
        simp [this]
    simp only [hc, Bool.false_eq_true, if_false]

theorem bloom_toBytes_default : Bloom.toBytes Bloom.default = [] := rfl

/-! ### have section -/

def HashesWF (dbg : Bool) (hs : List Hash) : Prop :=
  hs.length < 2 ^ 64 ∧ (∀ h ∈ hs, h.length = 32) ∧ (dbg = true → sortedHashes hs = true)

theorem encodeHashes_ok (dbg : Bool) (hs : List Hash) (h : HashesWF dbg hs) :
    encodeHashes dbg hs = .ok (encodeMany id hs) := by
  unfold encodeHashes
  cases dbg with
  | false => simp
  | true => simp [h.2.2 rfl]

def HaveWF (dbg : Bool) (h : Have) : Prop :=
  HashesWF dbg h.lastSync ∧ BloomWF h.bloom ∧ (Bloom.toBytes h.bloom).length < 2 ^ 64

/-- bytes of one `have` element -/
def haveBytes (h : Have) : Bytes :=
  encodeMany id h.lastSync ++ ulebEncode (Bloom.toBytes h.bloom).length ++ Bloom.toBytes h.bloom

theorem haveEncode_ok (dbg : Bool) (h : Have) (hw : HaveWF dbg h) :
    haveEncode dbg h = .ok (haveBytes h) := by
  unfold haveEncode
  rw [encodeHashes_ok dbg _ hw.1]
  rfl

theorem havesEncode_ok (dbg : Bool) (hs : List Have) (hw : ∀ h ∈ hs, HaveWF dbg h) :
    havesEncode dbg hs = .ok (hs.flatMap haveBytes) := by
  induction hs with
  | nil => rfl
  | cons h rest ih =>
    simp only [havesEncode]
    rw [haveEncode_ok dbg h (hw h (by simp))]
    simp only
    rw [ih (fun x hx => hw x (by simp [hx]))]
    simp

theorem parseHave_haveBytes (dbg : Bool) (h : Have) (r : Bytes) (hw : HaveWF dbg h) :
    parseHave (haveBytes h ++ r) = .ok (h, r) := by
  unfold parseHave haveBytes
  simp only [List.append_assoc]
  rw [parseHashes_encode _ _ hw.1.1 hw.1.2.1]
  simp only
  have := lengthPrefixedBytes_chunk (Bloom.toBytes h.bloom) r hw.2.2
  unfold chunkEncode at this
  simp only [List.append_assoc] at this
  rw [this]
  simp only
  rw [bloom_parse_toBytes _ hw.2.1]

/-! ### whole message -/

/-- the bytes `Message::encode` writes for a message whose hash lists pass the sortedness check -/
def messageBytes (m : Message) : Bytes :=
  m.version.encode :: (encodeMany id m.heads ++ encodeMany id m.need
    ++ (ulebEncode m.have_.length ++ m.have_.flatMap haveBytes)
    ++ encodeMany chunkEncode m.changes
    ++ flagsSection m.flags)

theorem messageEncode_ok (dbg : Bool) (m : Message) (hh : HashesWF dbg m.heads)
    (hn : HashesWF dbg m.need) (hv : ∀ h ∈ m.have_, HaveWF dbg h) :
    messageEncode dbg m = .ok (messageBytes m) := by
  unfold messageEncode
  rw [encodeHashes_ok dbg _ hh, encodeHashes_ok dbg _ hn, havesEncode_ok dbg _ hv]
  rfl

/-! ### flags -/

theorem flags_roundtrip_fin : ∀ k : Fin 128,
    flagsParseBytes [0x02, 0x80 ||| UInt8.ofNat k.val] = UInt8.ofNat k.val := by
  decide

theorem flags_roundtrip (f : UInt8) (h : f.toNat < 128) :
    flagsParseBytes [0x02, 0x80 ||| f] = f := by
  have := flags_roundtrip_fin ⟨f.toNat, h⟩
  simpa using this

theorem lengthPrefixedBytes_flags (f : UInt8) :
    lengthPrefixedBytes (flagsEncode f) = .ok ([0x02, 0x80 ||| f], []) := by
  unfold flagsEncode
  have := lengthPrefixedBytes_chunk [0x02, 0x80 ||| f] [] (by simp)
  simpa [chunkEncode] using this

/-! ### progress of the element parsers (for the iteration bound) -/

/-- number of element-parser calls made by the `for _ in 0..count` loop of `length_prefixed` -/
def repeatCalls {α : Type} (g : Bytes → MResult α) : Nat → Bytes → Nat
  | 0, _ => 0
  | n + 1, i =>
    match g i with
    | .error _ => 1
    | .ok (_, i') => 1 + repeatCalls g n i'

theorem changeHash_consumes (i : Bytes) (x : Hash) (r : Bytes) (h : changeHash i = .ok (x, r)) :
    r.length < i.length := by
  unfold changeHash Ids.takeN at h
  split at h
  · simp at h
  · rename_i r' heq
    split at heq
    · simp at heq
    · simp only [Except.ok.injEq] at heq
      subst heq
      simp only [Except.ok.injEq, Prod.mk.injEq] at h
      rw [← h.2, List.length_drop]
      simp only [Consts.HASH_SIZE] at *
      omega

theorem lengthPrefixedBytes_consumes (i : Bytes) (x r : Bytes)
    (h : lengthPrefixedBytes i = .ok (x, r)) : r.length < i.length := by
  unfold lengthPrefixedBytes at h
  split at h
  · simp at h
  · rename_i len i' hu
    have := uleb64_consumes i i' len hu
    unfold Ids.takeN at h
    split at h
    · simp at h
    · rename_i r' heq
      split at heq
      · simp at heq
      · simp only [Except.ok.injEq] at heq
        subst heq
        simp only [Except.ok.injEq, Prod.mk.injEq] at h
        rw [← h.2, List.length_drop]
        omega

end AmVerif.IdsMsg
