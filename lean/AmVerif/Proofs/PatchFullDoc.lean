import AmVerif.Model.PatchDiff
import AmVerif.Proofs.Spec
/-
  C09, full register statement, part 1: the reference reading of a batch on one register
  (`regEntryAfter`) and the characterisation of `foldDoc` (`ValueState::process_doc_op` folded over
  the register's visible document operations, some of them deleted by the batch).
-/
namespace AmVerif.Crdt
open AmVerif

/-- the document operations of the register the batch does not delete -/
def survivors (ds : List DocOp) : List DocOp := ds.filter (fun d => !d.deleted)

/-- the value `v` of operation `id` after every increment of `cs` that names `id` -/
def bumpAll (cs : List ChgOp) (id : OpId) (v : PVal) : PVal :=
  cs.foldl (fun v op => match op with
    | .inc pred n => if pred.contains id then v.bump n else v
    | .value _ _ => v) v

/-- the incoming visible values with the incoming increments that follow and name them -/
def valuesAfter : List ChgOp → List (OpId × PVal)
  | [] => []
  | .value id v :: rest => (id, bumpAll rest id v) :: valuesAfter rest
  | .inc _ _ :: rest => valuesAfter rest

/-- The register after the batch, read off the CRDT rules: its visible operations are the
    surviving document operations (counters plus the incoming increments naming them) and the
    incoming values (plus the increments naming them); both lists ascend by id, so the winner is the
    greater of the two last ones; the register is conflicted when more than one is visible. -/
def regEntryAfter (ds : List DocOp) (cs : List ChgOp) : REntry :=
  let S := (survivors ds).map (fun d => (d.id, bumpAll cs d.id d.val))
  let V := valuesAfter cs
  let conflict := decide (S.length + V.length > 1)
  match S.getLast?, V.getLast? with
  | none, none => none
  | some s, none => some (conflict, s.2)
  | none, some v => some (conflict, v.2)
  | some s, some v => some (conflict, if s.1.lt v.1 then v.2 else s.2)

/-! ### `foldDoc` -/

/-- what `doc` knows after the document operations `pre` -/
def DocInv (pre : List DocOp) (cur : Option OpValue) : Prop :=
  match cur with
  | none => pre = []
  | some d =>
    if d.deleted then survivors pre = [] ∧ pre ≠ [] ∧ d.conflict = false ∧ d.expose = false
    else (survivors pre).getLast? = some ⟨d.id, d.val, false⟩
      ∧ d.conflict = decide ((survivors pre).length > 1)
      ∧ (d.expose = false → docEntryBefore pre = some (d.conflict, d.val))

theorem survivors_append (a b : List DocOp) : survivors (a ++ b) = survivors a ++ survivors b := by
  simp [survivors]

theorem survivors_concat_del (pre : List DocOp) (xi : OpId) (xv : PVal) :
    survivors (pre ++ [⟨xi, xv, true⟩]) = survivors pre := by
  simp [survivors]

theorem survivors_concat_keep (pre : List DocOp) (xi : OpId) (xv : PVal) :
    survivors (pre ++ [⟨xi, xv, false⟩]) = survivors pre ++ [⟨xi, xv, false⟩] := by
  simp [survivors]

theorem DocInv_step (pre : List DocOp) (cur : Option OpValue) (x : DocOp) (h : DocInv pre cur) :
    DocInv (pre ++ [x]) (ovSet cur x.val x.id x.deleted) := by
  cases cur with
  | none =>
    have hp : pre = [] := h
    subst hp
    cases x with
    | mk xi xv xd =>
      cases xd <;> simp [ovSet, DocInv, survivors, docEntryBefore]
  | some d =>
    cases x with
    | mk xi xv xd =>
      cases hdd : d.deleted with
      | true =>
        have h' : survivors pre = [] ∧ pre ≠ [] ∧ d.conflict = false ∧ d.expose = false := by
          simpa [DocInv, hdd] using h
        cases xd with
        | true => simp [ovSet, DocInv, hdd, survivors_concat_del, h'.1]
        | false => simp [ovSet, DocInv, hdd, survivors_concat_keep, h'.1]
      | false =>
        have h' : (survivors pre).getLast? = some ⟨d.id, d.val, false⟩
            ∧ d.conflict = decide ((survivors pre).length > 1)
            ∧ (d.expose = false → docEntryBefore pre = some (d.conflict, d.val)) := by
          simpa [DocInv, hdd] using h
        cases xd with
        | true =>
          simp [ovSet, DocInv, hdd, survivors_concat_del]
          exact ⟨h'.1, by simpa using h'.2.1⟩
        | false =>
          have hne : survivors pre ≠ [] := by
            intro he; rw [he] at h'; simp at h'
          have hlen : (survivors pre).length > 0 := List.length_pos_iff.mpr hne
          have hpre : pre ≠ [] := by
            intro he; subst he; simp [survivors] at hne
          have hplen : pre.length > 0 := List.length_pos_iff.mpr hpre
          simp [ovSet, DocInv, hdd, survivors_concat_keep, docEntryBefore]
          omega

theorem DocInv_fold (rest : List DocOp) : ∀ (pre : List DocOp) (cur : Option OpValue),
    DocInv pre cur → DocInv (pre ++ rest) (rest.foldl (fun cur d => ovSet cur d.val d.id d.deleted) cur) := by
  induction rest with
  | nil => intro pre cur h; simpa using h
  | cons x rest ih =>
    intro pre cur h
    have := ih (pre ++ [x]) _ (DocInv_step pre cur x h)
    simpa using this

theorem DocInv_foldDoc (ds : List DocOp) : DocInv ds (foldDoc ds) := by
  have := DocInv_fold ds [] none (by simp [DocInv])
  simpa [foldDoc] using this

end AmVerif.Crdt
