import AmVerif.Model.Spec
/- Well-formedness predicate used by C30 (Props files hold theorems only). -/
namespace AmVerif.Crdt
open AmVerif

/-- every op belongs to the root or to an object some make op of the set created -/
def ObjsExist (ops : List Op) : Prop :=
  ∀ x ∈ ops, match x.obj with
    | .root => True
    | .id i => ∃ m ∈ ops, m.id = i ∧ ∃ ty, m.action = .make ty

end AmVerif.Crdt
