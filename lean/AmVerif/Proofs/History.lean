import AmVerif.Proofs.Graph
import AmVerif.Proofs.Local
import AmVerif.Proofs.Leb128
/-
  History: ancestors of a set of heads, the document at those heads (`fork_at`), the vector clock
  the implementation reads history with (`change_graph.rs clock_at` / `seq_clock_for_heads`),
  `get_changes`, actor isolation.

  §1  `Reach` (the ancestor relation) and the correctness of `ancestorsLoop` / `Doc.ancestors`
  §2  acyclicity from the topological order; `Doc.at`: dependency-closed, its heads
  §3  the per-actor chain invariant (`Hist`) and the sequence clock
  §4  the op clock: `clockAt`, `covers`, `clockAt_covers_iff_ancestor`
  §5  `get_changes`
  §6  `with_concurrency`, `isolate_actor`
-/
namespace AmVerif.Crdt
open AmVerif

/-! ## §1 ancestors -/

/-- `h` is reachable from `heads` through dependencies of applied changes (inclusive: the heads
    themselves are reachable; the hash reached last need not be applied) -/
inductive Reach (applied : List Change) (heads : List Hash) : Hash → Prop
  | head {h : Hash} : h ∈ heads → Reach applied heads h
  | dep {c : Change} {dep : Hash} :
      Reach applied heads c.hash → c ∈ applied → dep ∈ c.deps → Reach applied heads dep

theorem Reach.mono {l l' : List Change} {H H' : List Hash} {x : Hash} (h : Reach l H x)
    (hH : ∀ h ∈ H, Reach l' H' h) (hl : ∀ c ∈ l, c ∈ l') : Reach l' H' x := by
  induction h with
  | head hh => exact hH _ hh
  | dep _ hc hd ih => exact .dep ih (hl _ hc) hd

theorem Reach.trans {l : List Change} {H : List Hash} {y x : Hash} (h₁ : Reach l H y)
    (h₂ : Reach l [y] x) : Reach l H x :=
  h₂.mono (fun h hh => by simp only [List.mem_singleton] at hh; subst hh; exact h₁) (fun _ hc => hc)

theorem Reach.of_subset {l : List Change} {H H' : List Hash} {x : Hash} (h : Reach l H x)
    (hs : ∀ h ∈ H, h ∈ H') : Reach l H' x :=
  h.mono (fun h hh => .head (hs h hh)) (fun _ hc => hc)

theorem Reach.single {l : List Change} {H : List Hash} {x : Hash} (h : Reach l H x) :
    ∃ h₀ ∈ H, Reach l [h₀] x := by
  induction h with
  | head hh => exact ⟨_, hh, .head (by simp)⟩
  | dep _ hc hd ih =>
    obtain ⟨h₀, hh₀, hr⟩ := ih
    exact ⟨h₀, hh₀, .dep hr hc hd⟩

/-- inversion: a reachable hash is a head or a dependency of a reachable applied change -/
theorem Reach.cases_head {l : List Change} {H : List Hash} {x : Hash} (h : Reach l H x) :
    x ∈ H ∨ ∃ c ∈ l, Reach l H c.hash ∧ x ∈ c.deps := by
  cases h with
  | head hh => exact .inl hh
  | dep hr hc hd => exact .inr ⟨_, hc, hr, hd⟩

/-- invariant of the traversal `ancestorsLoop` -/
structure AInv (applied : List Change) (heads frontier acc : List Hash) : Prop where
  reach : ∀ h ∈ frontier ++ acc, Reach applied heads h
  accApplied : ∀ h ∈ acc, h ∈ hashes applied
  closed : ∀ c ∈ applied, c.hash ∈ acc →
    ∀ dep ∈ c.deps, dep ∈ acc ∨ dep ∈ frontier ∨ dep ∉ hashes applied
  start : ∀ h ∈ heads, h ∈ acc ∨ h ∈ frontier ∨ h ∉ hashes applied
  nodup : acc.Nodup

theorem ancestorsLoop_inv {applied : List Change} {heads : List Hash} (hn : (hashes applied).Nodup) :
    ∀ (fuel : Nat) (frontier acc : List Hash), AInv applied heads frontier acc →
      frontier.length + mWeight applied acc < fuel →
      AInv applied heads [] (ancestorsLoop applied fuel frontier acc) := by
  intro fuel
  induction fuel with
  | zero => intro _ _ _ hf; omega
  | succ fuel ih =>
    intro frontier acc m hf
    cases frontier with
    | nil => simpa [ancestorsLoop] using m
    | cons h rest =>
      simp only [ancestorsLoop]
      split
      · -- already collected
        rename_i hacc
        have hacc : h ∈ acc := List.contains_iff_mem.mp hacc
        apply ih
        · refine ⟨fun x hx => m.reach x ?_, m.accApplied, ?_, ?_, m.nodup⟩
          · rcases List.mem_append.mp hx with hx | hx
            · exact List.mem_append_left _ (List.mem_cons_of_mem _ hx)
            · exact List.mem_append_right _ hx
          · intro c hc hca dep hd
            rcases m.closed c hc hca dep hd with h1 | h1 | h1
            · exact .inl h1
            · rcases List.mem_cons.mp h1 with rfl | h1
              · exact .inl hacc
              · exact .inr (.inl h1)
            · exact .inr (.inr h1)
          · intro x hx
            rcases m.start x hx with h1 | h1 | h1
            · exact .inl h1
            · rcases List.mem_cons.mp h1 with rfl | h1
              · exact .inl hacc
              · exact .inr (.inl h1)
            · exact .inr (.inr h1)
        · simp only [List.length_cons] at hf; omega
      · rename_i hnacc
        have hnacc : h ∉ acc := fun hm => hnacc (List.contains_iff_mem.mpr hm)
        have hreach : Reach applied heads h := m.reach h (by simp)
        split
        · -- an applied change: descend into its deps
          rename_i c hfind
          have hca : c ∈ applied := List.mem_of_find?_eq_some hfind
          have hch : c.hash = h := by simpa using List.find?_some hfind
          apply ih
          · refine ⟨?_, ?_, ?_, ?_, ?_⟩
            · intro x hx
              rcases List.mem_append.mp hx with hx | hx
              · rcases List.mem_append.mp hx with hx | hx
                · exact .dep (hch ▸ hreach) hca hx
                · exact m.reach x (List.mem_append_left _ (List.mem_cons_of_mem _ hx))
              · rcases List.mem_cons.mp hx with rfl | hx
                · exact hreach
                · exact m.reach x (List.mem_append_right _ hx)
            · intro x hx
              rcases List.mem_cons.mp hx with rfl | hx
              · exact hch ▸ mem_hashes_of_mem hca
              · exact m.accApplied x hx
            · intro c' hc' hcs dep hd
              rcases List.mem_cons.mp hcs with hcs | hcs
              · have : c' = c := hash_inj hn hc' hca (by rw [hcs, hch])
                subst this
                exact .inr (.inl (List.mem_append_left _ hd))
              · rcases m.closed c' hc' hcs dep hd with h1 | h1 | h1
                · exact .inl (List.mem_cons_of_mem _ h1)
                · rcases List.mem_cons.mp h1 with rfl | h1
                  · exact .inl List.mem_cons_self
                  · exact .inr (.inl (List.mem_append_right _ h1))
                · exact .inr (.inr h1)
            · intro x hx
              rcases m.start x hx with h1 | h1 | h1
              · exact .inl (List.mem_cons_of_mem _ h1)
              · rcases List.mem_cons.mp h1 with rfl | h1
                · exact .inl List.mem_cons_self
                · exact .inr (.inl (List.mem_append_right _ h1))
              · exact .inr (.inr h1)
            · exact List.nodup_cons.mpr ⟨hnacc, m.nodup⟩
          · have := mWeight_found hca hch hnacc
            simp only [List.length_cons, List.length_append] at hf ⊢
            omega
        · -- not an applied change: ignored
          rename_i hfind
          have hna : h ∉ hashes applied := by
            intro hm
            obtain ⟨c, hc, hch⟩ := mem_hashes.mp hm
            have := List.find?_eq_none.mp hfind c hc
            simp [hch] at this
          apply ih
          · refine ⟨fun x hx => m.reach x ?_, m.accApplied, ?_, ?_, m.nodup⟩
            · rcases List.mem_append.mp hx with hx | hx
              · exact List.mem_append_left _ (List.mem_cons_of_mem _ hx)
              · exact List.mem_append_right _ hx
            · intro c hc hca dep hd
              rcases m.closed c hc hca dep hd with h1 | h1 | h1
              · exact .inl h1
              · rcases List.mem_cons.mp h1 with rfl | h1
                · exact .inr (.inr hna)
                · exact .inr (.inl h1)
              · exact .inr (.inr h1)
            · intro x hx
              rcases m.start x hx with h1 | h1 | h1
              · exact .inl h1
              · rcases List.mem_cons.mp h1 with rfl | h1
                · exact .inr (.inr hna)
                · exact .inr (.inl h1)
              · exact .inr (.inr h1)
          · simp only [List.length_cons] at hf; omega

theorem ancestors_ainv {d : Doc} (hn : (hashes d.applied).Nodup) (heads : List Hash) :
    AInv d.applied heads [] (d.ancestors heads) := by
  unfold Doc.ancestors
  apply ancestorsLoop_inv hn
  · exact ⟨fun h hh => .head (by simpa using hh), by simp, by simp, fun h hh => .inr (.inl hh),
      List.nodup_nil⟩
  · rw [foldl_eq_mWeight]; omega

/-- **`Doc.ancestors` is the ancestor set**: the applied hashes reachable from the given heads
    through dependencies of applied changes.  Hashes among `heads` that are not applied contribute
    nothing. -/
theorem mem_ancestors {d : Doc} (hn : (hashes d.applied).Nodup) {heads : List Hash} {h : Hash} :
    h ∈ d.ancestors heads ↔ h ∈ hashes d.applied ∧ Reach d.applied heads h := by
  have m := ancestors_ainv hn heads
  constructor
  · intro hh
    exact ⟨m.accApplied h hh, m.reach h (by simpa using hh)⟩
  · rintro ⟨ha, hr⟩
    have hall : ∀ x, Reach d.applied heads x → x ∈ hashes d.applied → x ∈ d.ancestors heads := by
      intro x hx
      induction hx with
      | head hh =>
        intro hxa
        rcases m.start _ hh with h1 | h1 | h1
        · exact h1
        · cases h1
        · exact (h1 hxa).elim
      | @dep c dep _ hc hd ih =>
        intro hxa
        rcases m.closed c hc (ih (mem_hashes_of_mem hc)) dep hd with h1 | h1 | h1
        · exact h1
        · cases h1
        · exact (h1 hxa).elim
    exact hall h hr ha

theorem ancestors_nodup {d : Doc} (hn : (hashes d.applied).Nodup) (heads : List Hash) :
    (d.ancestors heads).Nodup := (ancestors_ainv hn heads).nodup

theorem ancestors_contains_iff {d : Doc} (hn : (hashes d.applied).Nodup) {heads : List Hash} {c : Change}
    (hc : c ∈ d.applied) : (d.ancestors heads).contains c.hash = true ↔ Reach d.applied heads c.hash := by
  rw [List.contains_iff_mem, mem_ancestors hn]
  exact ⟨fun h => h.2, fun h => ⟨mem_hashes_of_mem hc, h⟩⟩

/-- in a dependency-closed history everything reachable from applied heads is applied -/
theorem Reach.applied {l : List Change} (hc : DepsClosed l) {H : List Hash} (hH : ∀ h ∈ H, h ∈ hashes l)
    {x : Hash} (h : Reach l H x) : x ∈ hashes l := by
  induction h with
  | head hh => exact hH _ hh
  | dep _ hcl hd _ => exact hc.deps_applied hcl _ hd


/-! ## §2 acyclicity; the document at a set of heads -/

/-- a topological order with distinct hashes yields a rank that every dependency decreases
    (the form of `WF.acyclic`; here derived, not assumed) -/
theorem exists_rank {l : List Change} (hc : DepsClosed l) (hn : (hashes l).Nodup) :
    ∃ rank : Hash → Nat, (∀ c ∈ l, ∀ dep ∈ c.deps, rank dep < rank c.hash) ∧
      ∀ h ∈ hashes l, rank h < l.length := by
  induction l using snoc_induction with
  | nil => exact ⟨fun _ => 0, by simp, by simp⟩
  | snoc l c ih =>
    obtain ⟨hcl, hdeps⟩ := depsClosed_snoc.mp hc
    rw [hashes_append, List.nodup_append] at hn
    obtain ⟨hnl, _, hdisj⟩ := hn
    have hfresh : c.hash ∉ hashes l := fun hm => hdisj _ hm c.hash (by simp [hashes]) rfl
    obtain ⟨rank, hr, hb⟩ := ih hcl hnl
    refine ⟨fun h => if h = c.hash then l.length else rank h, ?_, ?_⟩
    · intro x hx dep hd
      rcases List.mem_append.mp hx with hx | hx
      · have h1 : x.hash ≠ c.hash := fun he => hfresh (he ▸ mem_hashes_of_mem hx)
        have h2 : dep ≠ c.hash := fun he => hfresh (he ▸ hcl.deps_applied hx dep hd)
        simp only [h1, h2, if_false]
        exact hr x hx dep hd
      · simp only [List.mem_singleton] at hx
        subst hx
        have h2 : dep ≠ x.hash := fun he => hfresh (he ▸ hdeps dep hd)
        simp only [h2, if_false, if_true]
        exact hb dep (hdeps dep hd)
    · intro h hh
      rw [hashes_append] at hh
      simp only [List.length_append, List.length_cons, List.length_nil]
      split
      · omega
      · rcases List.mem_append.mp hh with hh | hh
        · have := hb h hh; omega
        · simp only [hashes, List.map_cons, List.map_nil, List.mem_singleton] at hh
          contradiction

theorem Reach.rank_le {l : List Change} {rank : Hash → Nat}
    (hr : ∀ c ∈ l, ∀ dep ∈ c.deps, rank dep < rank c.hash) {h₀ x : Hash} (h : Reach l [h₀] x) :
    x = h₀ ∨ rank x < rank h₀ := by
  induction h with
  | head hh => exact .inl (by simpa using hh)
  | dep _ hc hd ih =>
    have := hr _ hc _ hd
    rcases ih with ih | ih
    · rw [ih] at this; exact .inr this
    · exact .inr (by omega)

/-- no applied change is a strict ancestor of itself -/
theorem no_cycle {l : List Change} (hc : DepsClosed l) (hn : (hashes l).Nodup) {h : Hash} {c : Change}
    (hcl : c ∈ l) (hr : Reach l [h] c.hash) (hd : h ∈ c.deps) : False := by
  obtain ⟨rank, hrk, _⟩ := exists_rank hc hn
  have h1 := hrk c hcl h hd
  rcases hr.rank_le hrk with he | hlt
  · rw [he] at h1; omega
  · omega

theorem DepsClosed.filter {l : List Change} (hc : DepsClosed l) (p : Change → Bool)
    (hp : ∀ c ∈ l, p c = true → ∀ dep ∈ c.deps, ∀ x ∈ l, x.hash = dep → p x = true) :
    DepsClosed (l.filter p) := by
  induction l using snoc_induction with
  | nil => simp
  | snoc l c ih =>
    obtain ⟨hcl, hdeps⟩ := depsClosed_snoc.mp hc
    have ih' := ih hcl (fun x hx hpx dep hd y hy hyd =>
      hp x (List.mem_append_left _ hx) hpx dep hd y (List.mem_append_left _ hy) hyd)
    rw [List.filter_append]
    by_cases hpc : p c = true
    · simp only [List.filter_cons, hpc, if_true, List.filter_nil]
      rw [depsClosed_snoc]
      refine ⟨ih', fun dep hd => ?_⟩
      obtain ⟨x, hx, hxd⟩ := mem_hashes.mp (hdeps dep hd)
      have := hp c (by simp) hpc dep hd x (List.mem_append_left _ hx) hxd
      exact mem_hashes.mpr ⟨x, List.mem_filter.mpr ⟨hx, this⟩, hxd⟩
    · simp only [List.filter_cons, hpc, if_false, List.filter_nil, List.append_nil, Bool.false_eq_true]
      exact ih'

theorem mem_at_applied {d : Doc} {heads : List Hash} {c : Change} :
    c ∈ (d.at heads).applied ↔ c ∈ d.applied ∧ c.hash ∈ d.ancestors heads := by
  simp [Doc.at, List.mem_filter]

theorem at_applied_sublist (d : Doc) (heads : List Hash) : (d.at heads).applied.Sublist d.applied :=
  List.filter_sublist

theorem at_queue (d : Doc) (heads : List Hash) : (d.at heads).queue = [] := rfl

/-- the document at `heads` is a history of its own: closed under dependencies, in topological
    order, nothing held -/
theorem at_inv {d : Doc} (h : d.Inv0) (heads : List Hash) : (d.at heads).Inv := by
  have hn := h.applied_nodup
  have hsub : ((d.at heads).applied ++ (d.at heads).queue).Sublist (d.applied ++ d.queue) := by
    rw [at_queue, List.append_nil]
    exact (at_applied_sublist d heads).trans (List.sublist_append_left _ _)
  refine ⟨List.Nodup.sublist (hsub.map _) h.hashNodup, ?_, by simp [at_queue],
    List.Nodup.sublist (hsub.map _) h.seqNodup⟩
  show DepsClosed (d.applied.filter (fun c => (d.ancestors heads).contains c.hash))
  apply h.depsClosed.filter
  intro c hc hpc dep hd x hx hxd
  rw [ancestors_contains_iff hn hc] at hpc
  rw [ancestors_contains_iff hn hx, hxd]
  exact .dep hpc hc hd

/-- **heads of the document at `heads`**: when the given heads are applied and none of them is an
    ancestor of another, they are exactly the heads of `d.at heads` -/
theorem at_heads {d : Doc} (h : d.Inv0) {heads : List Hash} (happ : ∀ x ∈ heads, x ∈ hashes d.applied)
    (hanti : ∀ a ∈ heads, ∀ b ∈ heads, a ≠ b → a ∉ d.ancestors [b]) :
    (d.at heads).heads = sortHashes heads := by
  have hn := h.applied_nodup
  have hi := (at_inv h heads).inv0
  apply SortedHashes.ext (Doc.heads_sorted _) (sortHashes_sorted _)
  intro x
  rw [hi.mem_heads, mem_sortHashes]
  constructor
  · rintro ⟨⟨c, hc, rfl⟩, hno⟩
    obtain ⟨hca, hanc⟩ := mem_at_applied.mp hc
    rcases ((mem_ancestors hn).mp hanc).2.cases_head with hh | ⟨y, hy, hry, hyd⟩
    · exact hh
    · exfalso
      apply hno
      refine ⟨y, mem_at_applied.mpr ⟨hy, (mem_ancestors hn).mpr ⟨mem_hashes_of_mem hy, hry⟩⟩, hyd⟩
  · intro hx
    obtain ⟨c, hc, rfl⟩ := mem_hashes.mp (happ x hx)
    refine ⟨⟨c, mem_at_applied.mpr ⟨hc, (mem_ancestors hn).mpr ⟨mem_hashes_of_mem hc, .head hx⟩⟩, rfl⟩, ?_⟩
    rintro ⟨y, hy, hyd⟩
    obtain ⟨hya, hyanc⟩ := mem_at_applied.mp hy
    obtain ⟨b, hb, hrb⟩ := ((mem_ancestors hn).mp hyanc).2.single
    by_cases hbc : c.hash = b
    · subst hbc
      exact no_cycle h.depsClosed hn hya hrb hyd
    · apply hanti c.hash hx b hb hbc
      exact (mem_ancestors hn).mpr ⟨mem_hashes_of_mem hc, .dep hrb hya hyd⟩

/-- every applied change is an ancestor of the heads -/
theorem reach_headsOf {l : List Change} (hc : DepsClosed l) :
    ∀ x ∈ hashes l, Reach l (headsOf l) x := by
  induction l using snoc_induction with
  | nil => simp
  | snoc l c ih =>
    obtain ⟨hcl, _⟩ := depsClosed_snoc.mp hc
    intro x hx
    rw [hashes_append] at hx
    have hchead : Reach (l ++ [c]) (headsOf (l ++ [c])) c.hash := .head (by rw [headsOf_snoc]; simp)
    rcases List.mem_append.mp hx with hx | hx
    · refine (ih hcl x hx).mono ?_ (fun y hy => List.mem_append_left _ hy)
      intro h hh
      by_cases hcd : h ∈ c.deps
      · exact .dep hchead (by simp) hcd
      · apply Reach.head
        rw [headsOf_snoc]
        apply List.mem_append_left
        rw [List.mem_filter]
        refine ⟨hh, ?_⟩
        cases hcc : c.deps.contains h
        · rfl
        · exact (hcd (List.contains_iff_mem.mp hcc)).elim
    · simp only [hashes, List.map_cons, List.map_nil, List.mem_singleton] at hx
      subst hx
      exact hchead

theorem ancestors_heads {d : Doc} (h : d.Inv0) {x : Hash} : x ∈ d.ancestors d.heads ↔ x ∈ hashes d.applied := by
  rw [mem_ancestors h.applied_nodup]
  refine ⟨fun hx => hx.1, fun hx => ⟨hx, ?_⟩⟩
  exact (reach_headsOf h.depsClosed x hx).of_subset (fun y hy => mem_sortHashes.mpr hy)

/-- reading at the current heads is reading the present document -/
theorem at_heads_applied {d : Doc} (h : d.Inv0) : (d.at d.heads).applied = d.applied := by
  unfold Doc.at
  simp only
  rw [List.filter_eq_self]
  intro c hc
  exact List.contains_iff_mem.mpr ((ancestors_heads h).mpr (mem_hashes_of_mem hc))


/-! ## §3 the per-actor chain and the sequence clock -/

/-- `Doc.ancestors` only looks at the applied changes -/
theorem ancestors_applied_only (d : Doc) (heads : List Hash) :
    (⟨d.applied, []⟩ : Doc).ancestors heads = d.ancestors heads := rfl

/-- The history invariant behind the implementation's clocks (all fields decidable):
    distinct hashes, topological order, distinct (actor, seq), and the **per-actor chain**: a
    change of actor `a` with sequence number `n > 1` has `a`'s change number `n − 1` among its
    ancestors.  (A non-isolated transaction names the actor's previous change as a dependency —
    `WF.seqChain`; an isolated one depends on heads of which that change is an ancestor —
    `isolate_preserves_chain`.) -/
structure Chain (l : List Change) : Prop where
  hashNodup : (hashes l).Nodup
  depsClosed : DepsClosed l
  seqNodup : (actorSeqs l).Nodup
  seqChain : ∀ c ∈ l, c.seq = 1 ∨
    ∃ p ∈ l, p.actor = c.actor ∧ p.seq + 1 = c.seq ∧ p.hash ∈ (⟨l, []⟩ : Doc).ancestors [c.hash]

instance (l : List Change) : Decidable (Chain l) :=
  decidable_of_iff
    ((hashes l).Nodup ∧ DepsClosed l ∧ (actorSeqs l).Nodup ∧
      ∀ c ∈ l, c.seq = 1 ∨
        ∃ p ∈ l, p.actor = c.actor ∧ p.seq + 1 = c.seq ∧ p.hash ∈ (⟨l, []⟩ : Doc).ancestors [c.hash])
    ⟨fun ⟨a, b, c, e⟩ => ⟨a, b, c, e⟩, fun h => ⟨h.1, h.2, h.3, h.4⟩⟩

theorem Chain.seq_pos {l : List Change} (h : Chain l) {c : Change} (hc : c ∈ l) : 1 ≤ c.seq := by
  rcases h.seqChain c hc with h1 | ⟨_, _, _, h1, _⟩ <;> omega

theorem Chain.prev {l : List Change} (h : Chain l) {c : Change} (hc : c ∈ l) (hs : c.seq ≠ 1) :
    ∃ p ∈ l, p.actor = c.actor ∧ p.seq + 1 = c.seq ∧ Reach l [c.hash] p.hash := by
  rcases h.seqChain c hc with h1 | ⟨p, hp, h1, h2, h3⟩
  · exact (hs h1).elim
  · exact ⟨p, hp, h1, h2, ((mem_ancestors (d := ⟨l, []⟩) h.hashNodup).mp h3).2⟩

/-- all earlier changes of the actor are ancestors -/
theorem Chain.down {l : List Change} (h : Chain l) :
    ∀ (n : Nat) (q : Change), q ∈ l → q.seq = n → ∀ k, 1 ≤ k → k ≤ n →
      ∃ p ∈ l, p.actor = q.actor ∧ p.seq = k ∧ Reach l [q.hash] p.hash := by
  intro n
  induction n with
  | zero => intro q _ _ k h1 h2; omega
  | succ n ih =>
    intro q hq hqs k h1 h2
    by_cases hk : k = n + 1
    · exact ⟨q, hq, rfl, by omega, .head (by simp)⟩
    · obtain ⟨p, hp, hpa, hps, hpr⟩ := h.prev hq (by omega)
      obtain ⟨y, hy, hya, hys, hyr⟩ := ih p hp (by omega) k h1 (by omega)
      exact ⟨y, hy, by rw [hya, hpa], hys, hpr.trans hyr⟩

/-- an actor's changes are totally ordered by ancestry: the one with the smaller sequence number
    is an ancestor of the other -/
theorem Chain.anc_of_seq_lt {l : List Change} (h : Chain l) {p c : Change} (hp : p ∈ l) (hc : c ∈ l)
    (ha : p.actor = c.actor) (hs : p.seq < c.seq) : Reach l [c.hash] p.hash ∧ p.hash ≠ c.hash := by
  obtain ⟨y, hy, hya, hys, hyr⟩ := h.down c.seq c hc rfl p.seq (h.seq_pos hp) (by omega)
  have : y = p := actorSeq_inj h.seqNodup hy hp (by rw [hya, ha]) hys
  subst this
  refine ⟨hyr, fun he => ?_⟩
  have := hash_inj h.hashNodup hy hc he
  subst this
  omega

/-- a universe of honestly produced changes (`WF`: each change names the actor's previous change
    as a dependency) gives the chain on every document delivered from it -/
theorem Chain.of_wf {cs : List Change} (wf : WF cs) {d : Doc} (hd : DInv cs d) : Chain d.applied := by
  have hn := hd.inv.inv0.applied_nodup
  refine ⟨hn, hd.inv.depsClosed, ?_, ?_⟩
  · have := hd.inv.seqNodup
    rw [actorSeqs_append, List.nodup_append] at this
    exact this.1
  · intro c hc
    have hcc : c ∈ cs := hd.sub c (List.mem_append_left _ hc)
    rcases wf.seqChain c hcc with h1 | ⟨p, hp, hpa, hps, hpd⟩
    · exact .inl h1
    · right
      obtain ⟨p', hp', hpp⟩ := mem_hashes.mp (hd.inv.depsClosed.deps_applied hc _ hpd)
      have : p' = p := hash_inj wf.hashNodup (hd.sub p' (List.mem_append_left _ hp')) hp hpp
      subst this
      refine ⟨p', hp', hpa, hps, ?_⟩
      rw [mem_ancestors (d := ⟨d.applied, []⟩) hn]
      exact ⟨mem_hashes_of_mem hp', .dep (.head (by simp)) hc hpd⟩

/-- `seq_clock_for_heads` / `calculate_clock`: the greatest sequence number among the ancestors of
    `heads` made by actor `a` (0 = `None`) -/
def seqClockAt (d : Doc) (heads : List Hash) (a : Bytes) : Nat :=
  (d.applied.filter (fun c => c.actor == a && (d.ancestors heads).contains c.hash)).foldl
    (fun m c => max m c.seq) 0

theorem le_seqClockAt {d : Doc} {heads : List Hash} {c : Change} (hc : c ∈ d.applied)
    (ha : c.hash ∈ d.ancestors heads) : c.seq ≤ seqClockAt d heads c.actor := by
  unfold seqClockAt
  apply (foldl_max_le _ 0).2
  simp [hc, ha]

theorem seqClockAt_attained {d : Doc} {heads : List Hash} {a : Bytes} (h : 0 < seqClockAt d heads a) :
    ∃ q ∈ d.applied, q.actor = a ∧ q.hash ∈ d.ancestors heads ∧ q.seq = seqClockAt d heads a := by
  unfold seqClockAt at *
  rcases foldl_max_attained
      (d.applied.filter (fun c => c.actor == a && (d.ancestors heads).contains c.hash)) 0 with h0 | ⟨c, hc, he⟩
  · omega
  · simp only [List.mem_filter, Bool.and_eq_true, beq_iff_eq, List.contains_iff_mem] at hc
    exact ⟨c, hc.1, hc.2.1, hc.2.2, he⟩

/-- **the sequence clock decides ancestry**: under the chain invariant an applied change is an
    ancestor of `heads` iff its sequence number is at most the clock entry of its actor -/
theorem anc_iff_seq_le {d : Doc} (h : Chain d.applied) (heads : List Hash) {c : Change} (hc : c ∈ d.applied) :
    c.hash ∈ d.ancestors heads ↔ c.seq ≤ seqClockAt d heads c.actor := by
  constructor
  · exact le_seqClockAt hc
  · intro hle
    have hpos := h.seq_pos hc
    obtain ⟨q, hq, hqa, hqanc, hqs⟩ := seqClockAt_attained (d := d) (heads := heads) (a := c.actor) (by omega)
    obtain ⟨y, hy, hya, hys, hyr⟩ := h.down q.seq q hq rfl c.seq hpos (by omega)
    have : y = c := actorSeq_inj h.seqNodup hy hc (by rw [hya, hqa]) hys
    subst this
    rw [mem_ancestors h.hashNodup] at hqanc ⊢
    exact ⟨mem_hashes_of_mem hy, hqanc.2.trans hyr⟩


/-! ## §4 the op clock -/

/-- what the change encoding and `transaction_args` guarantee about op counters (all fields
    decidable): start ops are positive; the ops of a change carry its actor and the counters
    `startOp … startOp + #ops − 1` (implied by `OpsNumbered`); the start op of a change is greater
    than every op counter of every strict ancestor (C04) -/
structure OpOrder (l : List Change) : Prop where
  startPos : ∀ c ∈ l, 1 ≤ c.startOp
  inRange : ∀ c ∈ l, ∀ o ∈ c.ops,
    o.id.actor = c.actor ∧ c.startOp ≤ o.id.ctr ∧ o.id.ctr < c.startOp + c.ops.length
  startAbove : ∀ c ∈ l, ∀ p ∈ l, p.hash ≠ c.hash → p.hash ∈ (⟨l, []⟩ : Doc).ancestors [c.hash] →
    p.startOp + p.ops.length ≤ c.startOp

instance (l : List Change) : Decidable (OpOrder l) :=
  decidable_of_iff
    ((∀ c ∈ l, 1 ≤ c.startOp) ∧
      (∀ c ∈ l, ∀ o ∈ c.ops,
        o.id.actor = c.actor ∧ c.startOp ≤ o.id.ctr ∧ o.id.ctr < c.startOp + c.ops.length) ∧
      ∀ c ∈ l, ∀ p ∈ l, p.hash ≠ c.hash → p.hash ∈ (⟨l, []⟩ : Doc).ancestors [c.hash] →
        p.startOp + p.ops.length ≤ c.startOp)
    ⟨fun ⟨a, b, c⟩ => ⟨a, b, c⟩, fun h => ⟨h.1, h.2, h.3⟩⟩

theorem OpOrder.above {l : List Change} (ho : OpOrder l) (hn : (hashes l).Nodup) {c p : Change}
    (hc : c ∈ l) (hp : p ∈ l) (hne : p.hash ≠ c.hash) (hr : Reach l [c.hash] p.hash) :
    p.startOp + p.ops.length ≤ c.startOp :=
  ho.startAbove c hc p hp hne ((mem_ancestors (d := ⟨l, []⟩) hn).mpr ⟨mem_hashes_of_mem hp, hr⟩)

/-- the actor table: the actors of the applied changes, sorted, without duplicates
    (`sortHashes` is the sorted duplicate-free list of byte strings) -/
def actorTable (l : List Change) : List Bytes := sortHashes (l.map (·.actor))

theorem mem_actorTable {l : List Change} {a : Bytes} : a ∈ actorTable l ↔ ∃ c ∈ l, c.actor = a := by
  simp [actorTable, mem_sortHashes]

/-- `max_ops[i]`: the counter of the last op of a change -/
def maxOpOf (c : Change) : Nat := c.startOp + c.ops.length - 1

/-- `ChangeGraph::clock_at`: per actor, the max op of that actor's change whose sequence number is
    the sequence-clock entry (`seq_index[actor][seq − 1]` → `max_ops`), 0 when the actor has no
    change among the ancestors -/
def clockAt (d : Doc) (heads : List Hash) : List (Bytes × Nat) :=
  (actorTable d.applied).map (fun a =>
    (a, match d.applied.find? (fun c => c.actor == a && c.seq == seqClockAt d heads a) with
        | some q => maxOpOf q
        | none => 0))

/-- `Clock::covers`: the op's counter is at most the clock entry of its actor (an actor missing
    from the clock — a panic in the code — covers nothing) -/
def covers (clock : List (Bytes × Nat)) (id : OpId) : Bool :=
  match clock.find? (fun p => p.1 == id.actor) with
  | some p => decide (id.ctr ≤ p.2)
  | none => false

theorem find?_map_pair {β : Type} (f : Bytes → β) (x : Bytes) :
    ∀ (l : List Bytes), x ∈ l → (l.map (fun a => (a, f a))).find? (fun p => p.1 == x) = some (x, f x)
  | [], h => by cases h
  | a :: l, h => by
    simp only [List.map_cons, List.find?_cons]
    by_cases hax : a = x
    · subst hax; simp
    · have : (a == x) = false := by simpa using hax
      simp only [this]
      rcases List.mem_cons.mp h with h | h
      · exact (hax h.symm).elim
      · exact find?_map_pair f x l h

theorem covers_clockAt {d : Doc} {heads : List Hash} {c : Change} (hc : c ∈ d.applied) (ctr : Nat) :
    covers (clockAt d heads) ⟨ctr, c.actor⟩ =
      decide (ctr ≤ match d.applied.find? (fun x => x.actor == c.actor && x.seq == seqClockAt d heads c.actor) with
        | some q => maxOpOf q
        | none => 0) := by
  unfold covers clockAt
  rw [find?_map_pair _ c.actor _ (mem_actorTable.mpr ⟨c, hc, rfl⟩)]

/-- **the clock decides ancestry, counter form**: a counter in the range of an applied change `c`,
    with `c`'s actor, is covered by the clock at `heads` iff `c` is an ancestor of `heads` -/
theorem clockAt_covers_ctr {d : Doc} (h : Chain d.applied) (ho : OpOrder d.applied) (heads : List Hash)
    {c : Change} (hc : c ∈ d.applied) {ctr : Nat} (h1 : c.startOp ≤ ctr)
    (h2 : ctr < c.startOp + c.ops.length) :
    covers (clockAt d heads) ⟨ctr, c.actor⟩ = true ↔ c.hash ∈ d.ancestors heads := by
  rw [covers_clockAt hc, anc_iff_seq_le h heads hc, decide_eq_true_eq]
  have hcpos := h.seq_pos hc
  have hcs := ho.startPos c hc
  by_cases hm : seqClockAt d heads c.actor = 0
  · have hnone : d.applied.find? (fun x => x.actor == c.actor && x.seq == seqClockAt d heads c.actor) = none := by
      rw [List.find?_eq_none]
      intro x hx
      have := h.seq_pos hx
      simp only [hm, Bool.and_eq_true, beq_iff_eq, not_and]
      intro _; omega
    rw [hnone, hm]
    simp only
    omega
  · obtain ⟨q, hq, hqa, _, hqs⟩ := seqClockAt_attained (d := d) (heads := heads) (a := c.actor) (by omega)
    have hsome : ∃ q', d.applied.find? (fun x => x.actor == c.actor && x.seq == seqClockAt d heads c.actor) = some q' := by
      cases hf : d.applied.find? (fun x => x.actor == c.actor && x.seq == seqClockAt d heads c.actor) with
      | some q' => exact ⟨q', rfl⟩
      | none =>
        have := List.find?_eq_none.mp hf q hq
        simp [hqa, hqs] at this
    obtain ⟨q', hf⟩ := hsome
    have hq' : q' ∈ d.applied := List.mem_of_find?_eq_some hf
    have hp := List.find?_some hf
    simp only [Bool.and_eq_true, beq_iff_eq] at hp
    have : q' = q := actorSeq_inj h.seqNodup hq' hq (by rw [hp.1, hqa]) (by rw [hp.2, hqs])
    subst this
    rw [hf]
    simp only [maxOpOf]
    have hqsp := ho.startPos q' hq
    rw [← hqs]
    constructor
    · intro hle
      apply Classical.byContradiction
      intro hgt
      obtain ⟨hr, hne⟩ := h.anc_of_seq_lt hq hc hqa (by omega)
      have := ho.above h.hashNodup hc hq hne hr
      omega
    · intro hle
      by_cases he : c.seq = q'.seq
      · have : c = q' := actorSeq_inj h.seqNodup hc hq hqa.symm he
        subst this
        omega
      · obtain ⟨hr, hne⟩ := h.anc_of_seq_lt hc hq hqa.symm (by omega)
        have := ho.above h.hashNodup hq hc hne hr
        omega

/-- **`clockAt_covers_iff_ancestor`**: an op of an applied change is covered by the clock at
    `heads` iff its change is an ancestor of `heads` -/
theorem clockAt_covers_iff_ancestor {d : Doc} (h : Chain d.applied) (ho : OpOrder d.applied)
    (heads : List Hash) {c : Change} (hc : c ∈ d.applied) {o : Op} (hoc : o ∈ c.ops) :
    covers (clockAt d heads) o.id = true ↔ c.hash ∈ d.ancestors heads := by
  obtain ⟨ha, h1, h2⟩ := ho.inRange c hc o hoc
  have : o.id = ⟨o.id.ctr, c.actor⟩ := by rw [← ha]
  rw [this]
  exact clockAt_covers_ctr h ho heads hc h1 h2

theorem filter_flatMap_uniform {α β : Type} (f : α → List β) (p : β → Bool) (q : α → Bool) :
    ∀ (l : List α), (∀ c ∈ l, ∀ o ∈ f c, p o = q c) → (l.flatMap f).filter p = (l.filter q).flatMap f
  | [], _ => rfl
  | c :: l, h => by
    have ih := filter_flatMap_uniform f p q l (fun x hx => h x (List.mem_cons_of_mem _ hx))
    have hc := h c List.mem_cons_self
    rw [List.flatMap_cons, List.filter_append, ih, List.filter_cons]
    cases hq : q c
    · have : (f c).filter p = [] := by
        rw [List.filter_eq_nil_iff]; intro o ho; rw [hc o ho, hq]; simp
      simp [this]
    · have : (f c).filter p = f c := by
        rw [List.filter_eq_self]; intro o ho; rw [hc o ho, hq]
      simp [this]

/-- **reading at the clock = reading the document at the heads**: the ops the clock covers are,
    as a list (same ops, same order), the ops of `d.at heads` -/
theorem restrict_clockAt {d : Doc} (h : Chain d.applied) (ho : OpOrder d.applied) (heads : List Hash) :
    restrict d.ops (covers (clockAt d heads)) = (d.at heads).ops := by
  unfold restrict Doc.ops Doc.at
  apply filter_flatMap_uniform
  intro c hc o hoc
  rw [Bool.eq_iff_iff, clockAt_covers_iff_ancestor h ho heads hc hoc, List.contains_iff_mem]


/-- `OpsNumbered` gives the range part of `OpOrder` -/
theorem OpOrder.of_numbered {l : List Change} (hp : ∀ c ∈ l, 1 ≤ c.startOp)
    (hn : ∀ c ∈ l, OpsNumbered c)
    (ha : ∀ c ∈ l, ∀ p ∈ l, p.hash ≠ c.hash → p.hash ∈ (⟨l, []⟩ : Doc).ancestors [c.hash] →
      p.startOp + p.ops.length ≤ c.startOp) : OpOrder l :=
  ⟨hp, fun c hc _ ho => (hn c hc).mem ho, ha⟩

/-! ## §5 `get_changes` -/

/-- `get_changes(have_deps)` as the driver models it: the applied changes, in application order,
    that are not ancestors of `have_deps` -/
def getChanges (d : Doc) (have_ : List Hash) : List Change :=
  d.applied.filter (fun c => !(d.ancestors have_).contains c.hash)

/-- `get_changes` as the code computes it (`seq_clock_for_heads` + `get_build_indexes`): per actor
    the changes whose sequence number exceeds the clock entry, in graph (application) order -/
def getChangesClock (d : Doc) (have_ : List Hash) : List Change :=
  d.applied.filter (fun c => decide (seqClockAt d have_ c.actor < c.seq))

theorem mem_getChanges {d : Doc} (hn : (hashes d.applied).Nodup) {have_ : List Hash} {c : Change} :
    c ∈ getChanges d have_ ↔ c ∈ d.applied ∧ ¬ Reach d.applied have_ c.hash := by
  unfold getChanges
  rw [List.mem_filter]
  constructor
  · rintro ⟨hc, hnot⟩
    refine ⟨hc, fun hr => ?_⟩
    rw [(ancestors_contains_iff hn hc).mpr hr] at hnot
    cases hnot
  · rintro ⟨hc, hnot⟩
    refine ⟨hc, ?_⟩
    cases hcc : (d.ancestors have_).contains c.hash
    · rfl
    · exact (hnot ((ancestors_contains_iff hn hc).mp hcc)).elim

/-- "each after its dependencies": at every position of the returned list, each dependency of the
    change there is an ancestor of `have_deps` (the receiver has it) or occurs EARLIER in the list -/
theorem getChanges_ordered {d : Doc} (hc : DepsClosed d.applied) {have_ : List Hash}
    {pre post : List Change} {c : Change} (h : getChanges d have_ = pre ++ c :: post) :
    ∀ dep ∈ c.deps, dep ∈ d.ancestors have_ ∨ dep ∈ hashes pre := by
  unfold getChanges at h
  obtain ⟨l₁, l₂, hl, h1, h2⟩ := List.filter_eq_append_iff.mp h
  obtain ⟨m₁, m₂, hl₂, hm₁, _, _⟩ := List.filter_eq_cons_iff.mp h2
  intro dep hd
  have hsplit : d.applied = (l₁ ++ m₁) ++ c :: m₂ := by rw [hl, hl₂]; simp
  obtain ⟨x, hx, hxd⟩ := mem_hashes.mp (hc.deps_mem hsplit dep hd)
  have hanc : ∀ y : Change, ¬ ((!(d.ancestors have_).contains y.hash) = true) → y.hash ∈ d.ancestors have_ := by
    intro y hy
    cases hcc : (d.ancestors have_).contains y.hash
    · rw [hcc] at hy; exact (hy rfl).elim
    · exact List.contains_iff_mem.mp hcc
  rcases List.mem_append.mp hx with hx | hx
  · by_cases hpx : (!(d.ancestors have_).contains x.hash) = true
    · right
      rw [← h1]
      exact mem_hashes.mpr ⟨x, List.mem_filter.mpr ⟨hx, hpx⟩, hxd⟩
    · left; rw [← hxd]; exact hanc x hpx
  · left; rw [← hxd]; exact hanc x (hm₁ x hx)

theorem reach_known_heads {l : List Change} {H : List Hash} {x : Hash} (h : Reach l H x)
    (hx : x ∈ hashes l) : Reach l (H.filter (fun h => l.any (fun c => c.hash == h))) x := by
  induction h with
  | head hh => exact .head (List.mem_filter.mpr ⟨hh, any_hash_iff.mpr hx⟩)
  | dep _ hc hd ih => exact .dep (ih (mem_hashes_of_mem hc)) hc hd

/-- hashes in `have_deps` that are not applied changes of the document are ignored -/
theorem ancestors_known_only {d : Doc} (hn : (hashes d.applied).Nodup) (have_ : List Hash) (x : Hash) :
    x ∈ d.ancestors have_ ↔ x ∈ d.ancestors (have_.filter d.hasChange) := by
  rw [mem_ancestors hn, mem_ancestors hn]
  constructor
  · rintro ⟨hx, hr⟩; exact ⟨hx, reach_known_heads hr hx⟩
  · rintro ⟨hx, hr⟩; exact ⟨hx, hr.of_subset (fun h hh => (List.mem_filter.mp hh).1)⟩

theorem getChanges_known_only {d : Doc} (hn : (hashes d.applied).Nodup) (have_ : List Hash) :
    getChanges d have_ = getChanges d (have_.filter d.hasChange) := by
  unfold getChanges
  apply List.filter_congr
  intro c _
  congr 1
  rw [Bool.eq_iff_iff, List.contains_iff_mem, List.contains_iff_mem]
  exact ancestors_known_only hn have_ c.hash

/-- the implementation's clock computation returns the same list -/
theorem getChangesClock_eq {d : Doc} (h : Chain d.applied) (have_ : List Hash) :
    getChangesClock d have_ = getChanges d have_ := by
  unfold getChangesClock getChanges
  apply List.filter_congr
  intro c hc
  have := anc_iff_seq_le h have_ hc
  cases hcc : (d.ancestors have_).contains c.hash
  · have hn : ¬ c.seq ≤ seqClockAt d have_ c.actor := fun hle => by
      have := List.contains_iff_mem.mpr (this.mpr hle)
      rw [hcc] at this; cases this
    simp only [Bool.not_false, decide_eq_true_eq]
    omega
  · have := this.mp (List.contains_iff_mem.mp hcc)
    simp only [Bool.not_true, decide_eq_false_iff_not]
    omega


/-! ## §6 `with_concurrency`, `isolate_actor` -/

/-- distinct concurrency levels give distinct actors -/
theorem withConcurrency_injective (base : Bytes) (i j : Nat)
    (h : withConcurrency base i = withConcurrency base j) : i = j := by
  unfold withConcurrency at h
  rw [List.append_assoc, List.append_assoc] at h
  exact Leb.ulebEncode_injective i j (List.append_cancel_right (List.append_cancel_left h))

/-- a derived actor differs from its base actor -/
theorem withConcurrency_ne_base (base : Bytes) (i : Nat) : withConcurrency base i ≠ base := by
  intro h
  have := congrArg List.length h
  simp only [withConcurrency, List.length_append] at this
  have h4 : Consts.CONCURRENCY_MAGIC_BYTES.length = 4 := rfl
  omega

/-- for levels that fit the `u64` the code writes, the derived actor determines level AND base
    (the LEB128 encoding is self-delimiting) -/
theorem withConcurrency_injective₂ {b₁ b₂ : Bytes} {i j : Nat} (hi : i < 2 ^ 64) (hj : j < 2 ^ 64)
    (h : withConcurrency b₁ i = withConcurrency b₂ j) : i = j ∧ b₁ = b₂ := by
  unfold withConcurrency at h
  rw [List.append_assoc, List.append_assoc] at h
  have h' := List.append_cancel_left h
  have h1 := Leb.uleb64_encode i hi b₁
  rw [h', Leb.uleb64_encode j hj b₂] at h1
  simp only [Except.ok.injEq, Prod.mk.injEq] at h1
  exact ⟨h1.1.symm, h1.2.symm⟩

/-- the candidate of level `k`: the base actor for 0, else `with_concurrency(k)` -/
def isoCand (base : Bytes) (level : Nat) : Bytes :=
  if level == 0 then base else withConcurrency base level

/-- the acceptance test of `isolate_actor`: the actor has no applied change, or its last applied
    change is among `anc` -/
def isoFree (d : Doc) (anc : List Hash) (a : Bytes) : Bool :=
  match (d.applied.filter (fun c => c.actor == a)).getLast? with
  | none => true
  | some last => anc.contains last.hash

theorem isoCand_injective (base : Bytes) {i j : Nat} (h : isoCand base i = isoCand base j) : i = j := by
  unfold isoCand at h
  by_cases hi : i = 0 <;> by_cases hj : j = 0
  · omega
  · subst hi; simp [hj] at h; exact (withConcurrency_ne_base base j h.symm).elim
  · subst hj; simp [hi] at h; exact (withConcurrency_ne_base base i h).elim
  · simp [hi, hj] at h; exact withConcurrency_injective base i j h

theorem isolateActorLoop_succ (d : Doc) (base : Bytes) (anc : List Hash) (fuel level : Nat) :
    isolateActorLoop d base anc (fuel + 1) level =
      if isoFree d anc (isoCand base level) = true then isoCand base level
      else isolateActorLoop d base anc fuel (level + 1) := by
  unfold isoFree
  simp only [isolateActorLoop]
  show (match (d.applied.filter (fun c => c.actor == isoCand base level)).getLast? with
        | none => isoCand base level
        | some last => if anc.contains last.hash = true then isoCand base level
            else isolateActorLoop d base anc fuel (level + 1)) = _
  split
  · simp
  · simp only

theorem isolateActorLoop_zero (d : Doc) (base : Bytes) (anc : List Hash) (level : Nat) :
    isolateActorLoop d base anc 0 level = isoCand base level := rfl

theorem isolateActorLoop_spec (d : Doc) (base : Bytes) (anc : List Hash) :
    ∀ (fuel level k : Nat), level ≤ k → k < level + fuel → isoFree d anc (isoCand base k) = true →
      (∀ j, level ≤ j → j < k → isoFree d anc (isoCand base j) = false) →
      isolateActorLoop d base anc fuel level = isoCand base k := by
  intro fuel
  induction fuel with
  | zero => intro level k h1 h2; omega
  | succ fuel ih =>
    intro level k h1 h2 hf hb
    rw [isolateActorLoop_succ]
    by_cases hk : level = k
    · subst hk; simp [hf]
    · have := hb level (Nat.le_refl _) (by omega)
      simp only [this, Bool.false_eq_true, if_false]
      exact ih (level + 1) k (by omega) (by omega) hf (fun j hj1 hj2 => hb j (by omega) hj2)

theorem not_isoFree_has_change {d : Doc} {anc : List Hash} {a : Bytes} (h : isoFree d anc a = false) :
    ∃ c ∈ d.applied, c.actor = a := by
  unfold isoFree at h
  cases hg : (d.applied.filter (fun c => c.actor == a)).getLast? with
  | none => rw [hg] at h; cases h
  | some last =>
    have := List.mem_of_getLast? hg
    simp only [List.mem_filter, beq_iff_eq] at this
    exact ⟨last, this⟩

/-- **the fuel of `isolate_actor` suffices**: among the candidates of levels `0 … #applied` at
    least one is acceptable — each rejected candidate is the actor of an applied change, the
    candidates are pairwise distinct, and there are more of them than applied changes -/
theorem exists_free_level (d : Doc) (base : Bytes) (anc : List Hash) :
    ∃ k, k ≤ d.applied.length ∧ isoFree d anc (isoCand base k) = true := by
  apply Classical.byContradiction
  intro hno
  have hall : ∀ k, k ≤ d.applied.length → isoFree d anc (isoCand base k) = false := by
    intro k hk
    cases hf : isoFree d anc (isoCand base k)
    · rfl
    · exact (hno ⟨k, hk, hf⟩).elim
  have hnd : ((List.range (d.applied.length + 1)).map (isoCand base)).Nodup := by
    unfold List.Nodup
    rw [List.pairwise_map]
    exact List.Pairwise.imp (fun hne he => hne (isoCand_injective base he)) List.nodup_range
  have hsub : ∀ a ∈ (List.range (d.applied.length + 1)).map (isoCand base), a ∈ d.applied.map (·.actor) := by
    intro a ha
    obtain ⟨k, hk, rfl⟩ := List.mem_map.mp ha
    obtain ⟨c, hc, hca⟩ := not_isoFree_has_change (hall k (by have := List.mem_range.mp hk; omega))
    exact List.mem_map.mpr ⟨c, hc, hca⟩
  have := nodup_subset_length_le hnd hsub
  simp only [List.length_map, List.length_range] at this
  omega

theorem least_of_exists {P : Nat → Prop} [DecidablePred P] :
    ∀ (n : Nat), P n → ∃ k, k ≤ n ∧ P k ∧ ∀ j, j < k → ¬ P j := by
  intro n
  induction n using Nat.strongRecOn with
  | _ n ih =>
    intro hn
    by_cases hex : ∃ j, j < n ∧ P j
    · obtain ⟨j, hj, hpj⟩ := hex
      obtain ⟨k, hk, hpk, hl⟩ := ih j hj hpj
      exact ⟨k, by omega, hpk, hl⟩
    · exact ⟨n, Nat.le_refl _, hn, fun j hj hpj => hex ⟨j, hj, hpj⟩⟩

/-- **`isolate_actor`**: the chosen actor is the candidate of the LEAST level — base,
    `with_concurrency(1)`, `with_concurrency(2)`, … — that has no applied change or whose last
    applied change is an ancestor of `heads`; that level is at most the number of applied changes
    (so the model's fuel is never exhausted) -/
theorem isolateActor_spec (d : Doc) (base : Bytes) (heads : List Hash) :
    ∃ k, k ≤ d.applied.length ∧ d.isolateActor base heads = isoCand base k ∧
      isoFree d (d.ancestors heads) (isoCand base k) = true ∧
      ∀ j, j < k → isoFree d (d.ancestors heads) (isoCand base j) = false := by
  obtain ⟨n, hn, hfn⟩ := exists_free_level d base (d.ancestors heads)
  obtain ⟨k, hk, hfk, hl⟩ := least_of_exists (P := fun k => isoFree d (d.ancestors heads) (isoCand base k) = true) n hfn
  have hl' : ∀ j, j < k → isoFree d (d.ancestors heads) (isoCand base j) = false := by
    intro j hj
    cases hf : isoFree d (d.ancestors heads) (isoCand base j)
    · rfl
    · exact (hl j hj hf).elim
  refine ⟨k, by omega, ?_, hfk, hl'⟩
  unfold Doc.isolateActor
  exact isolateActorLoop_spec d base _ _ 0 k (Nat.zero_le _) (by omega) hfk (fun j _ hj => hl' j hj)

/-! ### the chain survives an isolated commit -/

/-- strict ancestors stand earlier in a topologically ordered list -/
theorem Reach.in_prefix {pre post : List Change} {x : Change} (hc : DepsClosed (pre ++ x :: post))
    (hn : (hashes (pre ++ x :: post)).Nodup) {h : Hash} (hr : Reach (pre ++ x :: post) [x.hash] h) :
    h ∈ hashes (pre ++ [x]) := by
  induction hr with
  | head hh => simp only [List.mem_singleton] at hh; subst hh; simp [hashes]
  | @dep c dep _ hcl hd ih =>
    obtain ⟨y, hy, hyc⟩ := mem_hashes.mp ih
    have hyl : y ∈ pre ++ x :: post := by
      rcases List.mem_append.mp hy with h1 | h1
      · exact List.mem_append_left _ h1
      · simp only [List.mem_singleton] at h1; subst h1; simp
    have : y = c := hash_inj hn hyl hcl hyc
    subst this
    rcases List.mem_append.mp hy with h1 | h1
    · obtain ⟨p1, p2, rfl⟩ := List.append_of_mem h1
      have := hc.deps_mem (pre := p1) (post := p2 ++ x :: post) (c := y) (by simp) dep hd
      rw [hashes_append, hashes_append]
      exact List.mem_append_left _ (List.mem_append_left _ this)
    · simp only [List.mem_singleton] at h1; subst h1
      have := hc.deps_mem rfl dep hd
      rw [hashes_append]
      exact List.mem_append_left _ this

/-- under the chain invariant the actor's LAST applied change carries its greatest sequence number -/
theorem Chain.last_max_seq {l : List Change} (h : Chain l) {a : Bytes} {last : Change}
    (hg : (l.filter (fun c => c.actor == a)).getLast? = some last) :
    last ∈ l ∧ last.actor = a ∧ ∀ q ∈ l, q.actor = a → q.seq ≤ last.seq := by
  obtain ⟨l', hl'⟩ := List.getLast?_eq_some_iff.mp hg
  obtain ⟨l₁, l₂, hl, _, h2⟩ := List.filter_eq_append_iff.mp hl'
  obtain ⟨m₁, m₂, hl₂, _, hlast, hm₂⟩ := List.filter_eq_cons_iff.mp h2
  have hla : last.actor = a := by simpa using hlast
  have hsplit : l = (l₁ ++ m₁) ++ last :: m₂ := by rw [hl, hl₂]; simp
  have hlastl : last ∈ l := by rw [hsplit]; simp
  refine ⟨hlastl, hla, fun q hq hqa => ?_⟩
  apply Classical.byContradiction
  intro hgt
  obtain ⟨hr, hne⟩ := h.anc_of_seq_lt hlastl hq (by rw [hla, hqa]) (by omega)
  rw [hsplit] at hq
  rcases List.mem_append.mp hq with hq | hq
  · -- `q` stands before `last`, yet `last` is a strict ancestor of `q`
    obtain ⟨p1, p2, hp⟩ := List.append_of_mem hq
    have hsplit' : l = p1 ++ q :: (p2 ++ last :: m₂) := by rw [hsplit, hp]; simp
    have hc := h.depsClosed
    have hn := h.hashNodup
    rw [hsplit'] at hc hn hr
    have hin := hr.in_prefix hc hn
    rw [hashes_append, List.nodup_append] at hn
    rw [hashes_append] at hin
    rcases List.mem_append.mp hin with hin | hin
    · exact hn.2.2 _ hin last.hash (by simp [hashes]) rfl
    · simp only [hashes, List.map_cons, List.map_nil, List.mem_singleton] at hin
      exact hne hin
  · rcases List.mem_cons.mp hq with rfl | hq
    · omega
    · have := List.filter_eq_nil_iff.mp hm₂ q hq
      simp [hqa] at this

theorem ancestors_snoc_mono {l : List Change} {c : Change} {H : List Hash} {x : Hash}
    (hn : (hashes l).Nodup) (hn' : (hashes (l ++ [c])).Nodup)
    (h : x ∈ (⟨l, []⟩ : Doc).ancestors H) : x ∈ (⟨l ++ [c], []⟩ : Doc).ancestors H := by
  rw [mem_ancestors (d := ⟨l, []⟩) hn] at h
  rw [mem_ancestors (d := ⟨l ++ [c], []⟩) hn', hashes_append]
  exact ⟨List.mem_append_left _ h.1, h.2.mono (fun _ hh => .head hh) (fun _ hy => List.mem_append_left _ hy)⟩

/-- **committing as an acceptable actor keeps the chain**: a new change by an actor that passes
    the `isolate_actor` test for `heads`, with the next sequence number of that actor, depending
    exactly on (applied) `heads`, has the actor's previous change among its ancestors -/
theorem chain_snoc_isolated {d : Doc} (h : Chain d.applied) {heads : List Hash} {c : Change}
    (hfree : isoFree d (d.ancestors heads) c.actor = true)
    (hseq : c.seq = d.seqForActor c.actor + 1) (hdeps : c.deps = heads)
    (happ : ∀ x ∈ heads, x ∈ hashes d.applied) (hfresh : c.hash ∉ hashes d.applied) :
    Chain (d.applied ++ [c]) := by
  have hn' : (hashes (d.applied ++ [c])).Nodup := by
    rw [hashes_append, List.nodup_append]
    refine ⟨h.hashNodup, by simp [hashes], ?_⟩
    intro a ha b hb hab
    simp only [hashes, List.map_cons, List.map_nil, List.mem_singleton] at hb
    subst hb; subst hab
    exact hfresh ha
  refine ⟨hn', ?_, ?_, ?_⟩
  · rw [depsClosed_snoc]
    exact ⟨h.depsClosed, fun dep hd => happ dep (hdeps ▸ hd)⟩
  · rw [actorSeqs_append, List.nodup_append]
    refine ⟨h.seqNodup, by simp [actorSeqs], ?_⟩
    intro a ha b hb hab
    simp only [actorSeqs, List.map_cons, List.map_nil, List.mem_singleton] at hb
    subst hb; subst hab
    obtain ⟨x, hx, h1, h2⟩ := mem_actorSeqs.mp ha
    have := le_seqForActor hx
    simp only at h1 h2
    rw [h1] at this
    omega
  · intro x hx
    rcases List.mem_append.mp hx with hx | hx
    · rcases h.seqChain x hx with h1 | ⟨p, hp, h1, h2, h3⟩
      · exact .inl h1
      · exact .inr ⟨p, List.mem_append_left _ hp, h1, h2, ancestors_snoc_mono h.hashNodup hn' h3⟩
    · simp only [List.mem_singleton] at hx
      subst hx
      by_cases h0 : d.seqForActor x.actor = 0
      · left; omega
      · right
        obtain ⟨q, hq, hqa, hqs⟩ := seqForActor_attained (d := d) (a := x.actor) (by omega)
        unfold isoFree at hfree
        cases hg : (d.applied.filter (fun c => c.actor == x.actor)).getLast? with
        | none =>
          have hnil := List.getLast?_eq_none_iff.mp hg
          have := List.filter_eq_nil_iff.mp hnil q hq
          simp [hqa] at this
        | some last =>
          rw [hg] at hfree
          simp only at hfree
          obtain ⟨hl, hla, hmax⟩ := h.last_max_seq hg
          have h1 := hmax q hq hqa
          have h2 := le_seqForActor hl
          rw [hla] at h2
          refine ⟨last, List.mem_append_left _ hl, hla, by omega, ?_⟩
          have hanc := (mem_ancestors h.hashNodup).mp (List.contains_iff_mem.mp hfree)
          rw [mem_ancestors (d := ⟨d.applied ++ [x], []⟩) hn', hashes_append]
          refine ⟨List.mem_append_left _ hanc.1, ?_⟩
          refine hanc.2.mono ?_ (fun _ hy => List.mem_append_left _ hy)
          intro y hy
          exact .dep (.head (by simp)) (by simp) (hdeps ▸ hy)


/-- the actor `isolate_actor` picks passes its own test -/
theorem isolateActor_free (d : Doc) (base : Bytes) (heads : List Hash) :
    isoFree d (d.ancestors heads) (d.isolateActor base heads) = true := by
  obtain ⟨k, _, hk, hf, _⟩ := isolateActor_spec d base heads
  rw [hk]; exact hf

/-! ### reads and dependencies of an isolated transaction -/

/-- the op list an editing call or a read of an isolated transaction is evaluated on (driver
    `edit` / `crdt.state` with isolation heads): the ops of the document at the isolation heads
    followed by the transaction's own pending ops -/
def isolatedView (d : Doc) (heads : List Hash) (t : Tx) : List Op := (d.at heads).ops ++ t.pending

/-- changes that arrive later (merged concurrently, or the isolated commits themselves) do not
    change the document at heads the document already had -/
theorem at_append_stable {l more : List Change} {q q' : List Change} {heads : List Hash}
    (hc : DepsClosed l) (hn : (hashes (l ++ more)).Nodup) (happ : ∀ x ∈ heads, x ∈ hashes l) :
    ((⟨l ++ more, q⟩ : Doc).at heads).applied = ((⟨l, q'⟩ : Doc).at heads).applied := by
  have hnl : (hashes l).Nodup := by
    rw [hashes_append, List.nodup_append] at hn; exact hn.1
  have hdisj : ∀ c ∈ more, c.hash ∉ hashes l := by
    intro c hcm hcl
    rw [hashes_append, List.nodup_append] at hn
    exact hn.2.2 _ hcl _ (mem_hashes_of_mem hcm) rfl
  have hreach : ∀ x, Reach (l ++ more) heads x → x ∈ hashes l ∧ Reach l heads x := by
    intro x hx
    induction hx with
    | head hh => exact ⟨happ _ hh, .head hh⟩
    | @dep c dep _ hcl hd ih =>
      obtain ⟨c', hc', hcc⟩ := mem_hashes.mp ih.1
      have : c' = c := hash_inj hn (List.mem_append_left _ hc') hcl hcc
      subst this
      exact ⟨hc.deps_applied hc' dep hd, .dep ih.2 hc' hd⟩
  have hiff : ∀ x, x ∈ (⟨l ++ more, q⟩ : Doc).ancestors heads ↔ x ∈ (⟨l, q'⟩ : Doc).ancestors heads := by
    intro x
    rw [mem_ancestors (d := ⟨l ++ more, q⟩) hn, mem_ancestors (d := ⟨l, q'⟩) hnl]
    constructor
    · rintro ⟨_, hr⟩; exact hreach x hr
    · rintro ⟨hx, hr⟩
      exact ⟨by rw [hashes_append]; exact List.mem_append_left _ hx,
        hr.mono (fun _ hh => .head hh) (fun _ hy => List.mem_append_left _ hy)⟩
  unfold Doc.at
  simp only
  rw [List.filter_append]
  have h2 : more.filter (fun c => ((⟨l ++ more, q⟩ : Doc).ancestors heads).contains c.hash) = [] := by
    rw [List.filter_eq_nil_iff]
    intro c hcm hcc
    have := (hiff c.hash).mp (List.contains_iff_mem.mp hcc)
    exact hdisj c hcm ((mem_ancestors (d := ⟨l, q'⟩) hnl).mp this).1
  rw [h2, List.append_nil]
  apply List.filter_congr
  intro c _
  rw [Bool.eq_iff_iff, List.contains_iff_mem, List.contains_iff_mem]
  exact hiff c.hash

/-- the ancestors of a change committed on `heads` are itself and the ancestors of `heads`:
    it depends on nothing else -/
theorem ancestors_of_commit {l : List Change} {c : Change} (hc : DepsClosed l) (hn : (hashes (l ++ [c])).Nodup)
    (happ : ∀ x ∈ c.deps, x ∈ hashes l) (x : Hash) :
    x ∈ (⟨l ++ [c], []⟩ : Doc).ancestors [c.hash] ↔ x = c.hash ∨ x ∈ (⟨l, []⟩ : Doc).ancestors c.deps := by
  have hnl : (hashes l).Nodup := by
    rw [hashes_append, List.nodup_append] at hn; exact hn.1
  have hfresh : c.hash ∉ hashes l := by
    intro hcl
    rw [hashes_append, List.nodup_append] at hn
    exact hn.2.2 _ hcl c.hash (by simp [hashes]) rfl
  rw [mem_ancestors (d := ⟨l ++ [c], []⟩) hn, mem_ancestors (d := ⟨l, []⟩) hnl]
  constructor
  · rintro ⟨_, hr⟩
    have : ∀ y, Reach (l ++ [c]) [c.hash] y → y = c.hash ∨ (y ∈ hashes l ∧ Reach l c.deps y) := by
      intro y hy
      induction hy with
      | head hh => exact .inl (by simpa using hh)
      | @dep c' dep _ hcl hd ih =>
        right
        rcases ih with ih | ih
        · have : c' = c := hash_inj hn hcl (by simp) ih
          subst this
          exact ⟨happ dep hd, .head hd⟩
        · obtain ⟨c'', hc'', hcc⟩ := mem_hashes.mp ih.1
          have : c'' = c' := hash_inj hn (List.mem_append_left _ hc'') hcl hcc
          subst this
          exact ⟨hc.deps_applied hc'' dep hd, .dep ih.2 hc'' hd⟩
    exact this x hr
  · rintro (rfl | ⟨hx, hr⟩)
    · exact ⟨by simp [hashes], .head (by simp)⟩
    · refine ⟨by rw [hashes_append]; exact List.mem_append_left _ hx, ?_⟩
      refine hr.mono ?_ (fun _ hy => List.mem_append_left _ hy)
      intro y hy
      exact .dep (.head (by simp)) (by simp) hy

/-! ### integrate = merge -/

/-- Splitting the applied changes of a document by any predicate `p` ("made under isolation")
    such that the rest is a history of its own (no other change depends on an isolated one) and
    the isolated changes of an actor carry greater sequence numbers than that actor's other
    changes: merging the isolated changes into the rest with `apply_changes` succeeds, leaves
    nothing held, and yields exactly the applied changes of the document. -/
theorem integrate_merge {d : Doc} (hinv : d.Inv) (p : Change → Bool)
    (hclosed : DepsClosed (d.applied.filter (fun c => !p c)))
    (hpos : ∀ c ∈ d.applied, 1 ≤ c.seq)
    (hseq : ∀ c ∈ d.applied, p c = true → ∀ x ∈ d.applied, p x = false → x.actor = c.actor → x.seq < c.seq) :
    (applyBatch ⟨d.applied.filter (fun c => !p c), []⟩ (d.applied.filter p)).2 = .ok () ∧
    (applyBatch ⟨d.applied.filter (fun c => !p c), []⟩ (d.applied.filter p)).1.applied.Perm d.applied ∧
    (applyBatch ⟨d.applied.filter (fun c => !p c), []⟩ (d.applied.filter p)).1.queue = [] := by
  have hn := hinv.inv0.applied_nodup
  have hsn : (actorSeqs d.applied).Nodup := by
    have := hinv.seqNodup
    rw [actorSeqs_append, List.nodup_append] at this
    exact this.1
  generalize hd₁ : (⟨d.applied.filter (fun c => !p c), []⟩ : Doc) = d₁
  have hd₁a : d₁.applied = d.applied.filter (fun c => !p c) := by rw [← hd₁]
  have hd₁q : d₁.queue = [] := by rw [← hd₁]
  have hsub₁ : d₁.applied.Sublist d.applied := by rw [hd₁a]; exact List.filter_sublist
  have hmem₁ : ∀ c, c ∈ d₁.applied ↔ c ∈ d.applied ∧ p c = false := by
    intro c; rw [hd₁a, List.mem_filter]; simp
  have hinv₁ : d₁.Inv := by
    refine ⟨?_, by rw [hd₁a]; exact hclosed, by rw [hd₁q]; simp, ?_⟩
    · rw [hd₁q, List.append_nil]; exact List.Nodup.sublist (hsub₁.map _) hn
    · rw [hd₁q, List.append_nil]; exact List.Nodup.sublist (hsub₁.map _) hsn
  have hiso : ∀ c, c ∈ d.applied.filter p ↔ c ∈ d.applied ∧ p c = true := fun c => List.mem_filter
  have hisoNot : ∀ c ∈ d.applied.filter p, c.hash ∉ hashes d₁.applied := by
    intro c hc hm
    obtain ⟨x, hx, hxc⟩ := mem_hashes.mp hm
    have := hash_inj hn ((hmem₁ x).mp hx).1 ((hiso c).mp hc).1 hxc
    subst this
    have h1 := ((hmem₁ x).mp hx).2
    rw [((hiso x).mp hc).2] at h1; cases h1
  obtain ⟨batch, hcb⟩ := collectBatch_no_err (d := d₁) (U := d.applied.filter p)
    (by
      intro c hc _ _
      constructor
      · cases hh : d₁.hasActorSeq c
        · rfl
        · exfalso
          simp only [Doc.hasActorSeq, decide_eq_true_eq] at hh
          have hcp := hpos c ((hiso c).mp hc).1
          obtain ⟨x, hx, hxa, hxs⟩ := seqForActor_attained (d := d₁) (a := c.actor) (by omega)
          have := hseq c ((hiso c).mp hc).1 ((hiso c).mp hc).2 x ((hmem₁ x).mp hx).1 ((hmem₁ x).mp hx).2 hxa
          omega
      · rw [hd₁q]; rfl)
    (by
      intro x hx c hc ha hs
      rw [actorSeq_inj hsn ((hiso x).mp hx).1 ((hiso c).mp hc).1 ha hs])
    (d.applied.filter p) [] (fun _ h => h) (by simp)
  obtain ⟨topo, hb, hbsub, hcov, hok, happ, hperm, _, hinv'⟩ := applyBatch_ok_spec hinv₁ hcb
  rw [hd₁q, List.nil_append] at hperm
  have hbatch : ∀ c, c ∈ batch ↔ c ∈ d.applied.filter p := by
    intro c
    refine ⟨hbsub c, fun hc => ?_⟩
    rcases hcov c hc with h | h | h
    · exact (hisoNot c hc h).elim
    · rw [hd₁q] at h; cases h
    · obtain ⟨y, hy, hyc⟩ := mem_hashes.mp h
      have := hash_inj hn ((hiso y).mp (hbsub y hy)).1 ((hiso c).mp hc).1 hyc
      subst this; exact hy
  generalize hm : applyBatch d₁ (d.applied.filter p) = m at *
  -- nothing stays held: a held change would have a held dependency of smaller rank
  obtain ⟨rank, hrank, _⟩ := exists_rank hinv.depsClosed hn
  have hnoq : ∀ (n : Nat) (c : Change), c ∈ m.1.queue → rank c.hash = n → False := by
    intro n
    induction n using Nat.strongRecOn with
    | _ n ih =>
      intro c hc hcn
      have hcb' : c ∈ batch := hperm.mem_iff.mp (List.mem_append_right _ hc)
      have hcd : c ∈ d.applied := ((hiso c).mp ((hbatch c).mp hcb')).1
      obtain ⟨dep, hdep, hna⟩ := hinv'.noneReady c hc
      rw [hasChange_false_iff, happ, hashes_append, List.mem_append, not_or] at hna
      obtain ⟨x, hx, hxd⟩ := mem_hashes.mp (hinv.depsClosed.deps_applied hcd dep hdep)
      have hlt := hrank c hcd dep hdep
      cases hpx : p x
      · exact hna.1 (hxd ▸ mem_hashes_of_mem ((hmem₁ x).mpr ⟨hx, hpx⟩))
      · have hxb : x ∈ batch := (hbatch x).mpr ((hiso x).mpr ⟨hx, hpx⟩)
        rcases List.mem_append.mp (hperm.mem_iff.mpr hxb) with h | h
        · exact hna.2 (hxd ▸ mem_hashes_of_mem h)
        · exact ih (rank x.hash) (by rw [hxd]; omega) x h rfl
  have hq : m.1.queue = [] := by
    cases hq : m.1.queue with
    | nil => rfl
    | cons c q => exact (hnoq _ c (by rw [hq]; exact List.mem_cons_self) rfl).elim
  refine ⟨hok, ?_, hq⟩
  rw [hq, List.append_nil] at hperm
  have hn' : m.1.applied.Nodup := nodup_of_hashes hinv'.inv0.applied_nodup
  rw [List.perm_ext_iff_of_nodup hn' (nodup_of_hashes hn)]
  intro c
  rw [happ, List.mem_append, hperm.mem_iff, hbatch, hmem₁, hiso]
  constructor
  · rintro (h | h) <;> exact h.1
  · intro hc
    cases hpc : p c
    · exact .inl ⟨hc, rfl⟩
    · exact .inr ⟨hc, rfl⟩


/-- documents with the same set of applied changes have the same heads -/
theorem heads_eq_of_perm {d d' : Doc} (h : d.Inv0) (h' : d'.Inv0) (hp : d.applied.Perm d'.applied) :
    d.heads = d'.heads := by
  apply SortedHashes.ext (Doc.heads_sorted _) (Doc.heads_sorted _)
  intro x
  rw [h.mem_heads, h'.mem_heads]
  constructor
  · rintro ⟨⟨c, hc, hcx⟩, hno⟩
    exact ⟨⟨c, hp.mem_iff.mp hc, hcx⟩, fun ⟨y, hy, hyx⟩ => hno ⟨y, hp.mem_iff.mpr hy, hyx⟩⟩
  · rintro ⟨⟨c, hc, hcx⟩, hno⟩
    exact ⟨⟨c, hp.mem_iff.mpr hc, hcx⟩, fun ⟨y, hy, hyx⟩ => hno ⟨y, hp.mem_iff.mp hy, hyx⟩⟩

end AmVerif.Crdt
