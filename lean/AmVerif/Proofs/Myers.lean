import AmVerif.Model.Myers
/-
  Helper lemmas for C27 about the Myers model: the hook calls `conquer` produces form a well-formed
  script (`Wf`), whatever split points `find_middle_snake` returns, and fuel `|a| + |b| + 1` is enough.
-/
namespace AmVerif.Myers
open AmVerif

variable {α : Type}

/-- `Wf old new script o n o' n'`: the hook calls walk `old` from `o` to `o'` and `new` from `n` to
    `n'`, consecutively; `equal` ranges really are equal, every range lies inside its slice.  (The old index of an
    `insert` call is not constrained: after a failed snake search `conquer` reports the start of the
    deleted range there, and no hook reads it.) -/
inductive Wf (old new : List α) : List Hook → Nat → Nat → Nat → Nat → Prop
  | nil (o n : Nat) : Wf old new [] o n o n
  | equal {o n len o' n' : Nat} {r : List Hook} :
      (∀ i, i < len → old[o+i]? = new[n+i]?) → o + len ≤ old.length → n + len ≤ new.length →
      Wf old new r (o+len) (n+len) o' n' → Wf old new (.equal o n len :: r) o n o' n'
  | delete {o n len o' n' : Nat} {r : List Hook} :
      o + len ≤ old.length → Wf old new r (o+len) n o' n' → Wf old new (.delete o len n :: r) o n o' n'
  | insert {oi o n len o' n' : Nat} {r : List Hook} :
      n + len ≤ new.length → Wf old new r o (n+len) o' n' → Wf old new (.insert oi n len :: r) o n o' n'

theorem Wf.append {old new : List α} {s1 s2 : List Hook} {o n o1 n1 o2 n2 : Nat}
    (h1 : Wf old new s1 o n o1 n1) (h2 : Wf old new s2 o1 n1 o2 n2) : Wf old new (s1 ++ s2) o n o2 n2 := by
  induction h1 with
  | nil => simpa using h2
  | equal a b c _ ih => exact Wf.equal a b c (ih h2)
  | delete a _ ih => exact Wf.delete a (ih h2)
  | insert a _ ih => exact Wf.insert a (ih h2)

theorem Wf.mono {old new : List α} {s : List Hook} {o n o' n' : Nat}
    (h : Wf old new s o n o' n') : o ≤ o' ∧ n ≤ n' := by
  induction h with
  | nil => exact ⟨Nat.le_refl _, Nat.le_refl _⟩
  | equal _ _ _ _ ih => omega
  | delete _ _ ih => omega
  | insert _ _ ih => omega

theorem take_drop_eq_of_getElem? {xs ys : List α} {o n len : Nat}
    (h : ∀ i, i < len → xs[o+i]? = ys[n+i]?) : (xs.drop o).take len = (ys.drop n).take len := by
  apply List.ext_getElem?
  intro i
  simp only [List.getElem?_take, List.getElem?_drop]
  by_cases hi : i < len
  · simp [hi, h i hi]
  · simp [hi]

theorem take_append_drop_drop (xs : List α) (n len : Nat) :
    (xs.drop n).take len ++ xs.drop (n + len) = xs.drop n := by
  rw [← List.drop_drop]
  exact List.take_append_drop len (xs.drop n)

/-- What a consumer of the script builds, followed by the rest of `new`, is `new` from the start. -/
theorem Wf.applyScript_eq {old new : List α} {s : List Hook} {o n o' n' : Nat}
    (h : Wf old new s o n o' n') : applyScript old new s ++ new.drop n' = new.drop n := by
  induction h with
  | nil => simp [applyScript]
  | @equal o n len o' n' r heq _ _ _ ih =>
    simp only [applyScript, List.append_assoc, ih]
    rw [take_drop_eq_of_getElem? heq]
    exact take_append_drop_drop new n len
  | delete _ _ ih => simpa [applyScript] using ih
  | @insert oi o n len o' n' r _ _ ih =>
    simp only [applyScript, List.append_assoc, ih]
    exact take_append_drop_drop new n len

/-- The ranges of `old` the script walks over are consecutive and exhaust `old[o .. o']`. -/
theorem Wf.consumed_eq {old new : List α} {s : List Hook} {o n o' n' : Nat}
    (h : Wf old new s o n o' n') : consumed old s ++ old.drop o' = old.drop o := by
  induction h with
  | nil => simp [consumed]
  | @equal o n len o' n' r _ _ _ _ ih =>
    simp only [consumed, List.append_assoc, ih]
    exact take_append_drop_drop old o len
  | @delete o n len o' n' r _ _ ih =>
    simp only [consumed, List.append_assoc, ih]
    exact take_append_drop_drop old o len
  | insert _ _ ih => simpa [consumed] using ih

section
variable [BEq α] [LawfulBEq α]

theorem prefixCount_spec (old new : List α) : ∀ (k os ns : Nat),
    prefixCount old new os ns k ≤ k ∧
    (∀ i, i < prefixCount old new os ns k → old[os+i]? = new[ns+i]? ∧ os + i < old.length ∧ ns + i < new.length) := by
  intro k
  induction k with
  | zero => intro os ns; simp [prefixCount]
  | succ k ih =>
    intro os ns
    unfold prefixCount
    split
    · rename_i a b ha hb
      split
      · rename_i hab
        have hab' : b = a := by simpa using hab
        obtain ⟨h1, h2⟩ := ih (os+1) (ns+1)
        refine ⟨by omega, ?_⟩
        intro i hi
        cases i with
        | zero =>
          obtain ⟨hl1, _⟩ := List.getElem?_eq_some_iff.mp ha
          obtain ⟨hl2, _⟩ := List.getElem?_eq_some_iff.mp hb
          simp only [Nat.add_zero]
          exact ⟨by rw [ha, hb, hab'], hl1, hl2⟩
        | succ i =>
          have := h2 i (by omega)
          have e1 : os + (i + 1) = os + 1 + i := by omega
          have e2 : ns + (i + 1) = ns + 1 + i := by omega
          rw [e1, e2]
          exact this
      · simp
    · simp

theorem commonPrefixLen_spec (old : List α) (os oe : Nat) (new : List α) (ns ne : Nat) :
    os + commonPrefixLen old os oe new ns ne ≤ max os oe ∧
    ns + commonPrefixLen old os oe new ns ne ≤ max ns ne ∧
    (∀ i, i < commonPrefixLen old os oe new ns ne →
      old[os+i]? = new[ns+i]? ∧ os + i < old.length ∧ ns + i < new.length) := by
  unfold commonPrefixLen isEmptyRange
  split
  · simp; omega
  · rename_i h
    simp only [Bool.or_eq_true, Bool.not_eq_true', decide_eq_false_iff_not, not_or, Decidable.not_not] at h
    obtain ⟨h1, h2⟩ := prefixCount_spec old new (min (oe - os) (ne - ns)) os ns
    refine ⟨by omega, by omega, h2⟩

theorem suffixCount_spec (old new : List α) : ∀ (k oe ne : Nat),
    suffixCount old new oe ne k ≤ k ∧ suffixCount old new oe ne k ≤ oe ∧ suffixCount old new oe ne k ≤ ne ∧
    (∀ i, i < suffixCount old new oe ne k →
      old[oe - suffixCount old new oe ne k + i]? = new[ne - suffixCount old new oe ne k + i]? ∧
      oe - suffixCount old new oe ne k + i < old.length ∧ ne - suffixCount old new oe ne k + i < new.length) := by
  intro k
  induction k with
  | zero => intro oe ne; simp [suffixCount]
  | succ k ih =>
    intro oe ne
    unfold suffixCount
    split
    · rename_i oe' ne'
      split
      · rename_i a b ha hb
        split
        · rename_i hab
          have hab' : b = a := by simpa using hab
          obtain ⟨h1, h2, h3, h4⟩ := ih oe' ne'
          refine ⟨by omega, by omega, by omega, ?_⟩
          intro i hi
          obtain ⟨hl1, hv1⟩ := List.getElem?_eq_some_iff.mp ha
          obtain ⟨hl2, hv2⟩ := List.getElem?_eq_some_iff.mp hb
          by_cases hlt : i < suffixCount old new oe' ne' k
          · have := h4 i hlt
            have e1 : oe' + 1 - (suffixCount old new oe' ne' k + 1) + i = oe' - suffixCount old new oe' ne' k + i := by omega
            have e2 : ne' + 1 - (suffixCount old new oe' ne' k + 1) + i = ne' - suffixCount old new oe' ne' k + i := by omega
            rw [e1, e2]; exact this
          · have e1 : oe' + 1 - (suffixCount old new oe' ne' k + 1) + i = oe' := by omega
            have e2 : ne' + 1 - (suffixCount old new oe' ne' k + 1) + i = ne' := by omega
            rw [e1, e2]
            exact ⟨by rw [ha, hb, hab'], hl1, hl2⟩
        · simp
      · simp
    · simp

theorem commonSuffixLen_spec (old : List α) (os oe : Nat) (new : List α) (ns ne : Nat) :
    let s := commonSuffixLen old os oe new ns ne
    os + s ≤ max os oe ∧ ns + s ≤ max ns ne ∧
    (∀ i, i < s → old[oe - s + i]? = new[ne - s + i]? ∧ oe - s + i < old.length ∧ ne - s + i < new.length) := by
  unfold commonSuffixLen isEmptyRange
  split
  · simp; omega
  · rename_i h
    simp only [Bool.or_eq_true, Bool.not_eq_true', decide_eq_false_iff_not, not_or, Decidable.not_not] at h
    obtain ⟨h1, h2, h3, h4⟩ := suffixCount_spec old new (min (oe - os) (ne - ns)) oe ne
    refine ⟨by omega, by omega, h4⟩

theorem Res.bind_eq_ok {β γ : Type} {x : Res β} {f : β → Res γ} {c : γ} (h : x.bind f = .ok c) :
    ∃ b, x = .ok b ∧ f b = .ok c := by
  cases x with
  | ok b => exact ⟨b, rfl, h⟩
  | invalidSplit => cases h
  | outOfFuel => cases h
  | panic p => cases h

/-- Divide-and-conquer correctness: whatever `find_middle_snake` answers, a successful `conquer`
    produced a well-formed script for exactly its two ranges. -/
theorem conquer_wf (old new : List α) : ∀ (fuel os oe ns ne : Nat) (vf vb : V) (r : List Hook × V × V),
    conquer old new fuel os oe ns ne vf vb = .ok r →
    os ≤ oe → ns ≤ ne → oe ≤ old.length → ne ≤ new.length → Wf old new r.1 os ns oe ne := by
  intro fuel
  induction fuel with
  | zero => intro os oe ns ne vf vb r h; simp [conquer] at h
  | succ fuel ih =>
    intro os oe ns ne vf vb r h hos hns hoe hne
    unfold conquer at h
    simp only at h
    obtain ⟨m, hm, hr⟩ := Res.bind_eq_ok h
    -- names for the stripped ranges
    generalize hp : commonPrefixLen old os oe new ns ne = p at hm hr
    obtain ⟨pp1, pp2, pp3⟩ := commonPrefixLen_spec old os oe new ns ne
    rw [hp] at pp1 pp2 pp3
    generalize hs : commonSuffixLen old (os + p) oe new (ns + p) ne = s at hm hr
    obtain ⟨ss1, ss2, ss3⟩ := commonSuffixLen_spec old (os + p) oe new (ns + p) ne
    simp only [hs] at ss1 ss2 ss3
    have hp1 : os + p ≤ oe := by omega
    have hp2 : ns + p ≤ ne := by omega
    have hs1 : os + p + s ≤ oe := by omega
    have hs2 : ns + p + s ≤ ne := by omega
    cases hr
    -- prefix and suffix hooks
    have wpre : Wf old new (if p > 0 then [Hook.equal os ns p] else []) os ns (os + p) (ns + p) := by
      split
      · refine Wf.equal (fun i hi => (pp3 i hi).1) (by omega) (by omega) (Wf.nil _ _)
      · have : p = 0 := by omega
        subst this; exact Wf.nil _ _
    have wsuf : Wf old new (if s > 0 then [Hook.equal (oe - s) (ne - s) s] else []) (oe - s) (ne - s) oe ne := by
      split
      · have e1 : oe - s + s = oe := by omega
        have e2 : ne - s + s = ne := by omega
        have := Wf.equal (old := old) (new := new) (o := oe - s) (n := ne - s) (len := s)
          (fun i hi => (ss3 i hi).1) (by omega) (by omega) (Wf.nil _ _)
        rw [e1, e2] at this; exact this
      · have : s = 0 := by omega
        subst this; simpa using Wf.nil (old := old) (new := new) oe ne
    suffices wmid : Wf old new m.1 (os + p) (ns + p) (oe - s) (ne - s) by
      exact (wpre.append wmid).append wsuf
    -- the middle part
    clear h wpre wsuf
    simp only [isEmptyRange] at hm
    by_cases c1 : os + p < oe - s <;> by_cases c2 : ns + p < ne - s
    · -- both ranges non-empty: `find_middle_snake`
      simp only [c1, c2, decide_true, Bool.not_true, Bool.and_self, Bool.false_eq_true, if_false] at hm
      cases hf : findMiddleSnake old (os + p) (oe - s) new (ns + p) (ne - s) vf vb with
      | panic q => rw [hf] at hm; cases hm
      | cont vf' vb' =>
        rw [hf] at hm
        cases hm
        have e1 : os + p + (oe - s - (os + p)) = oe - s := by omega
        have e2 : ns + p + (ne - s - (ns + p)) = ne - s := by omega
        apply Wf.delete
        · omega
        · rw [e1]
          apply Wf.insert
          · omega
          · rw [e2]; exact Wf.nil _ _
      | found x y vf' vb' =>
        rw [hf] at hm
        simp only at hm
        by_cases hc : (↑(os + p) : Int) ≤ x ∧ x ≤ ↑(oe - s) ∧ (↑(ns + p) : Int) ≤ y ∧ y ≤ ↑(ne - s)
            ∧ ¬(x = ↑(os + p) ∧ y = ↑(ns + p)) ∧ ¬(x = ↑(oe - s) ∧ y = ↑(ne - s))
        · rw [if_pos hc] at hm
          obtain ⟨hx1, hx2, hy1, hy2, _, _⟩ := hc
          obtain ⟨r1, hr1, hm⟩ := Res.bind_eq_ok hm
          obtain ⟨r2, hr2, hm⟩ := Res.bind_eq_ok hm
          cases hm
          have hxn : (x.toNat : Int) = x := Int.toNat_of_nonneg (by omega)
          have hyn : (y.toNat : Int) = y := Int.toNat_of_nonneg (by omega)
          have w1 := ih (os + p) x.toNat (ns + p) y.toNat vf' vb' r1 hr1 (by omega) (by omega) (by omega) (by omega)
          have w2 := ih x.toNat (oe - s) y.toNat (ne - s) r1.2.1 r1.2.2 r2 hr2 (by omega) (by omega) (by omega) (by omega)
          exact w1.append w2
        · rw [if_neg hc] at hm; cases hm
    · -- new range empty: delete
      simp only [c1, c2, decide_true, decide_false, Bool.not_true, Bool.not_false, Bool.false_and,
        Bool.false_eq_true, if_false, if_true] at hm
      cases hm
      have e2 : ns + p = ne - s := by omega
      have e : os + p + (oe - s - (os + p)) = oe - s := by omega
      apply Wf.delete
      · omega
      · rw [e, e2]; exact Wf.nil _ _
    · -- old range empty: insert
      simp only [c1, c2, decide_true, decide_false, Bool.not_true, Bool.not_false, Bool.and_false,
        Bool.false_eq_true, if_false, if_true] at hm
      cases hm
      have e1 : os + p = oe - s := by omega
      have e : ns + p + (ne - s - (ns + p)) = ne - s := by omega
      apply Wf.insert
      · omega
      · rw [e, e1]; exact Wf.nil _ _
    · -- both empty
      simp only [c1, c2, decide_false, Bool.not_false, Bool.and_self, if_true] at hm
      cases hm
      have e1 : os + p = oe - s := by omega
      have e2 : ns + p = ne - s := by omega
      simp only [e1, e2]; exact Wf.nil _ _

theorem diffFuel_wf (fuel : Nat) (old new : List α) (script : List Hook)
    (h : diffFuel fuel old new = .ok script) : Wf old new script 0 0 old.length new.length := by
  unfold diffFuel at h
  obtain ⟨r, hc, hr⟩ := Res.bind_eq_ok h
  cases hr
  exact conquer_wf old new fuel 0 old.length 0 new.length _ _ _ hc (Nat.zero_le _) (Nat.zero_le _)
    (Nat.le_refl _) (Nat.le_refl _)

/-! ### fuel -/

theorem Res.bind_ne_outOfFuel {β γ : Type} {x : Res β} {f : β → Res γ}
    (hx : x ≠ .outOfFuel) (hf : ∀ b, x = .ok b → f b ≠ .outOfFuel) : x.bind f ≠ .outOfFuel := by
  cases x with
  | ok b => exact hf b rfl
  | invalidSplit => intro h; cases h
  | outOfFuel => exact absurd rfl hx
  | panic p => intro h; cases h

omit [LawfulBEq α] in
/-- The recursion depth of `conquer` is bounded by the size of its rectangle: a split that passes
    the range / corner check makes both halves strictly smaller. -/
theorem conquer_ne_outOfFuel (old new : List α) : ∀ (fuel os oe ns ne : Nat) (vf vb : V),
    (oe - os) + (ne - ns) < fuel → conquer old new fuel os oe ns ne vf vb ≠ .outOfFuel := by
  intro fuel
  induction fuel with
  | zero => intro os oe ns ne vf vb h; omega
  | succ fuel ih =>
    intro os oe ns ne vf vb hfuel
    unfold conquer
    simp only
    generalize hp : commonPrefixLen old os oe new ns ne = p
    generalize hs : commonSuffixLen old (os + p) oe new (ns + p) ne = s
    apply Res.bind_ne_outOfFuel
    · split
      · intro h; cases h
      · split
        · intro h; cases h
        · split
          · intro h; cases h
          · rename_i hc1 hc2 hc3
            simp only [isEmptyRange, Bool.not_eq_true', decide_eq_false_iff_not, Nat.not_lt,
              Bool.and_eq_true, not_and, Nat.not_le] at hc1 hc2 hc3
            split
            · intro h; cases h
            · intro h; cases h
            · rename_i x y vf' vb' _
              split
              · rename_i hc
                obtain ⟨hx1, hx2, hy1, hy2, hn1, hn2⟩ := hc
                have hxn : (x.toNat : Int) = x := Int.toNat_of_nonneg (by omega)
                have hyn : (y.toNat : Int) = y := Int.toNat_of_nonneg (by omega)
                apply Res.bind_ne_outOfFuel
                · apply ih
                  omega
                · intro r1 _
                  apply Res.bind_ne_outOfFuel
                  · apply ih
                    omega
                  · intro r2 _ h; cases h
              · intro h; cases h
    · intro b _ h; cases h

omit [LawfulBEq α] in
theorem diff_ne_outOfFuel (old new : List α) : diff old new ≠ .outOfFuel := by
  unfold diff diffFuel
  apply Res.bind_ne_outOfFuel
  · exact conquer_ne_outOfFuel old new (old.length + new.length + 1) 0 old.length 0 new.length _ _ (by omega)
  · intro b _ h; cases h

/-! ### inputs on which `find_middle_snake` is never reached -/

omit [LawfulBEq α] in
theorem diff_nil_left (b : List α) :
    diff ([] : List α) b = .ok (if b.length = 0 then [] else [Hook.insert 0 0 b.length]) := by
  cases b with
  | nil => simp [diff, diffFuel, conquer, commonPrefixLen, commonSuffixLen, isEmptyRange, Res.bind]
  | cons x xs =>
    simp [diff, diffFuel, conquer, commonPrefixLen, commonSuffixLen, isEmptyRange, Res.bind]

omit [LawfulBEq α] in
theorem diff_nil_right (a : List α) :
    diff a ([] : List α) = .ok (if a.length = 0 then [] else [Hook.delete 0 a.length 0]) := by
  cases a with
  | nil => simp [diff, diffFuel, conquer, commonPrefixLen, commonSuffixLen, isEmptyRange, Res.bind]
  | cons x xs =>
    simp [diff, diffFuel, conquer, commonPrefixLen, commonSuffixLen, isEmptyRange, Res.bind]

theorem prefixCount_self (a : List α) : ∀ k i, i + k ≤ a.length → prefixCount a a i i k = k := by
  intro k
  induction k with
  | zero => intro i _; simp [prefixCount]
  | succ k ih =>
    intro i h
    have hi : i < a.length := by omega
    simp [prefixCount, List.getElem?_eq_getElem hi, ih (i+1) (by omega)]

theorem diff_self (a : List α) :
    diff a a = .ok (if a.length = 0 then [] else [Hook.equal 0 0 a.length]) := by
  cases a with
  | nil => simp [diff, diffFuel, conquer, commonPrefixLen, commonSuffixLen, isEmptyRange, Res.bind]
  | cons x xs =>
    have hp : commonPrefixLen (x :: xs) 0 (xs.length + 1) (x :: xs) 0 (xs.length + 1) = xs.length + 1 := by
      simp [commonPrefixLen, isEmptyRange]
      exact prefixCount_self (x :: xs) (xs.length + 1) 0 (by simp)
    simp [diff, diffFuel, conquer, hp, commonSuffixLen, isEmptyRange, Res.bind]

end
end AmVerif.Myers
