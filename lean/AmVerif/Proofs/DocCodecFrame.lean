import AmVerif.Model.DocCodec
import AmVerif.Proofs.Chunk
/-
  Helper lemmas for C11 (document chunk): the FRAMING of the chunk body — actor table, heads, the two
  column-metadata tables, the column data blocks and the head-index suffix written by `encodeDoc` are
  read back by `parseBody`.
-/
namespace AmVerif.DocCodec
open AmVerif AmVerif.Leb AmVerif.Chunk
open AmVerif.ChangeCodec (Rng colRanges parseColPairs parseRawColumns parseActors parseHashes parseActor lenPrefixed
  normalSorted specNorm specDeflate)

/-! ### the small parsers -/

theorem parseActor_lenPrefixed (a rest : Bytes) (h : a.length < 2 ^ 64) :
    parseActor (lenPrefixed a ++ rest) = .ok (a, rest) := by
  unfold parseActor lenPrefixed
  rw [List.append_assoc, uleb64_encode _ h]
  simp only
  rw [takeN_append _ _ _ rfl]

theorem parseActors_encode : ∀ (as : List Bytes) (rest : Bytes), (∀ a ∈ as, a.length < 2 ^ 64) →
    parseActors as.length ((as.map lenPrefixed).flatten ++ rest) = .ok (as, rest)
  | [], rest, _ => by simp [parseActors]
  | a :: as, rest, h => by
    simp only [List.length_cons, parseActors, List.map_cons, List.flatten_cons, List.append_assoc]
    rw [parseActor_lenPrefixed a _ (h a List.mem_cons_self)]
    simp only
    rw [parseActors_encode as rest (fun x hx => h x (List.mem_cons_of_mem _ hx))]

theorem parseHashes_encode : ∀ (hs : List Bytes) (rest : Bytes), (∀ h ∈ hs, h.length = Consts.HASH_SIZE) →
    parseHashes hs.length (hs.flatten ++ rest) = .ok (hs, rest)
  | [], rest, _ => by simp [parseHashes]
  | h :: hs, rest, hl => by
    simp only [List.length_cons, parseHashes, List.flatten_cons, List.append_assoc]
    rw [takeN_append _ _ _ (hl h List.mem_cons_self)]
    simp only
    rw [parseHashes_encode hs rest (fun x hx => hl x (List.mem_cons_of_mem _ hx))]

theorem parseUlebs_encode : ∀ (xs : List Nat) (rest : Bytes), (∀ x ∈ xs, x < 2 ^ 64) →
    parseUlebs xs.length ((xs.map ulebEncode).flatten ++ rest) = .ok (xs, rest)
  | [], rest, _ => by simp [parseUlebs]
  | x :: xs, rest, h => by
    simp only [List.length_cons, parseUlebs, List.map_cons, List.flatten_cons, List.append_assoc]
    rw [uleb64_encode x (h x List.mem_cons_self)]
    simp only
    rw [parseUlebs_encode xs rest (fun y hy => h y (List.mem_cons_of_mem _ hy))]

/-! ### the column metadata table -/

/-- the (spec, length) pairs `RawColumns::write` stores -/
def metaPairs (cols : List (Nat × Bytes)) : List (Nat × Nat) := cols.map (fun c => (c.1, c.2.length))

theorem parseColPairs_encode : ∀ (cols : List (Nat × Bytes)) (rest : Bytes),
    (∀ c ∈ cols, c.1 < 2 ^ 32 ∧ c.2.length < 2 ^ 64) →
    parseColPairs cols.length ((cols.map (fun c => ulebEncode c.1 ++ ulebEncode c.2.length)).flatten ++ rest)
      = .ok (metaPairs cols, rest)
  | [], rest, _ => by simp [parseColPairs, metaPairs]
  | c :: cols, rest, h => by
    obtain ⟨h1, h2⟩ := h c List.mem_cons_self
    simp only [List.length_cons, parseColPairs, List.map_cons, List.flatten_cons, List.append_assoc]
    rw [uleb32_encode c.1 h1]
    simp only
    rw [uleb64_encode _ h2]
    simp only
    rw [parseColPairs_encode cols rest (fun x hx => h x (List.mem_cons_of_mem _ hx))]
    simp [metaPairs]

/-- the ranges of the columns inside their data block -/
def rangesOf (cols : List (Nat × Bytes)) : List (Nat × Rng) := colRanges (metaPairs cols) 0

theorem parseRawColumns_encode (cols : List (Nat × Bytes)) (rest : Bytes)
    (hlen : cols.length < 2 ^ 64)
    (h : ∀ c ∈ cols, c.1 < 2 ^ 32 ∧ c.2.length < 2 ^ 64)
    (hs : normalSorted (rangesOf cols) = true) :
    parseRawColumns (colMeta cols ++ rest) = .ok (rangesOf cols, rest) := by
  unfold parseRawColumns colMeta
  rw [List.append_assoc, uleb64_encode _ hlen]
  simp only
  rw [parseColPairs_encode cols rest h]
  simp only
  unfold rangesOf at hs
  rw [if_pos hs]
  rfl

/-! ### the data blocks -/

theorem colData_length (cols : List (Nat × Bytes)) :
    (colData cols).length = ((metaPairs cols).map (·.2)).sum := by
  induction cols with
  | nil => rfl
  | cons c cs ih =>
    simp only [colData, List.map_cons, List.flatten_cons, List.length_append, metaPairs, List.sum_cons] at ih ⊢
    rw [ih]

theorem colRanges_lens : ∀ (pairs : List (Nat × Nat)) (off : Nat), off + (pairs.map (·.2)).sum < 2 ^ 64 →
    ((colRanges pairs off).map (fun c => c.2.len)).sum = (pairs.map (·.2)).sum
  | [], _, _ => rfl
  | (spec, len) :: r, off, h => by
    simp only [List.map_cons, List.sum_cons] at h
    have hm : min (off + len) ChangeCodec.usizeMax = off + len := by
      unfold ChangeCodec.usizeMax; omega
    have ih := colRanges_lens r (off + len) (by omega)
    simp only [colRanges, List.map_cons, List.sum_cons, hm, Rng.len] at ih ⊢
    rw [ih]
    omega

/-- no column of the tables `encodeDoc` writes is marked as compressed -/
def NoDeflate (cols : List (Nat × Bytes)) : Prop := ∀ c ∈ cols, specDeflate c.1 = false

theorem colRanges_specs : ∀ (pairs : List (Nat × Nat)) (off : Nat),
    (colRanges pairs off).map (·.1) = pairs.map (·.1)
  | [], _ => rfl
  | (spec, len) :: r, off => by simp [colRanges, colRanges_specs r]

theorem decompress_plain (cols : List (Nat × Bytes)) (data : Bytes) (h : NoDeflate cols) :
    decompress (rangesOf cols) data = some (rangesOf cols, data) := by
  unfold decompress
  have : (rangesOf cols).any (fun c => specDeflate c.1) = false := by
    rw [List.any_eq_false]
    intro c hc
    have hm : c.1 ∈ (rangesOf cols).map (·.1) := List.mem_map.mpr ⟨c, hc, rfl⟩
    unfold rangesOf at hm
    rw [colRanges_specs] at hm
    simp only [metaPairs, List.map_map, List.mem_map, Function.comp] at hm
    obtain ⟨x, hx, hx1⟩ := hm
    rw [← hx1]
    simp [h x hx]
  rw [this]
  rfl

/-- what the framing needs from an image: sizes that fit their length fields, 32-byte heads, one
    head index per head -/
structure FrameWF (img : DocImage) : Prop where
  nActors : img.actors.length < 2 ^ 64
  actorLen : ∀ a ∈ img.actors, a.length < 2 ^ 64
  nHeads : img.heads.length < 2 ^ 64
  headLen : ∀ h ∈ img.heads, h.length = Consts.HASH_SIZE
  headIdxLen : img.headIdx.length = img.heads.length
  headIdxVal : ∀ x ∈ img.headIdx, x < 2 ^ 64
  changeData : (colData (nonEmptyCols (changeCols img.changes))).length < 2 ^ 64
  opData : (colData (nonEmptyCols (opCols img.ops))).length < 2 ^ 64

/-- `Columns::parse2` accepts both column tables -/
structure LayoutOk (img : DocImage) : Prop where
  ops : ∃ r, ChangeCodec.parseLayout (colData (nonEmptyCols (opCols img.ops))).length
    (rangesOf (nonEmptyCols (opCols img.ops))) {} = .ok r
  changes : ∃ r, ChangeCodec.parseLayout (colData (nonEmptyCols (changeCols img.changes))).length
    (rangesOf (nonEmptyCols (changeCols img.changes))) {} = .ok r

theorem nonEmptyCols_sub (cols : List (Nat × Bytes)) : ∀ c ∈ nonEmptyCols cols, c ∈ cols := by
  intro c hc
  exact (List.mem_filter.mp hc).1

theorem nonEmptyCols_length_le (cols : List (Nat × Bytes)) : (nonEmptyCols cols).length ≤ cols.length :=
  List.length_filter_le _ _

theorem mem_colData_len {cols : List (Nat × Bytes)} {c : Nat × Bytes} (hc : c ∈ cols) :
    c.2.length ≤ (colData cols).length := by
  induction cols with
  | nil => cases hc
  | cons x xs ih =>
    simp only [colData, List.map_cons, List.flatten_cons, List.length_append] at ih ⊢
    rcases List.mem_cons.mp hc with rfl | h
    · omega
    · have := ih h; omega

theorem opCols_specs (rows : List OpRow) : (opCols rows).map (·.1) = opSpecs := rfl
theorem changeCols_specs (cs : List ChangeMeta) : (changeCols cs).map (·.1) = changeSpecs := rfl

theorem opCols_spec_mem {rows : List OpRow} {c : Nat × Bytes} (hc : c ∈ opCols rows) : c.1 ∈ opSpecs := by
  rw [← opCols_specs rows]; exact List.mem_map.mpr ⟨c, hc, rfl⟩

theorem changeCols_spec_mem {cs : List ChangeMeta} {c : Nat × Bytes} (hc : c ∈ changeCols cs) : c.1 ∈ changeSpecs := by
  rw [← changeCols_specs cs]; exact List.mem_map.mpr ⟨c, hc, rfl⟩

theorem opSpecs_small : ∀ s ∈ opSpecs, s < 2 ^ 32 ∧ specDeflate s = false := by decide
theorem changeSpecs_small : ∀ s ∈ changeSpecs, s < 2 ^ 32 ∧ specDeflate s = false := by decide

/-- `are_normal_sorted` of a sublist of a table whose specs are strictly increasing -/
theorem normalSorted_of_pairwise : ∀ (cols : List (Nat × Rng)),
    cols.Pairwise (fun a b => specNorm a.1 ≤ specNorm b.1) → normalSorted cols = true
  | [], _ => rfl
  | [_], _ => rfl
  | a :: b :: r, h => by
    have h1 := List.pairwise_cons.mp h
    simp only [normalSorted, Bool.and_eq_true, Bool.not_eq_true', decide_eq_false_iff_not, Nat.not_lt]
    exact ⟨h1.1 b List.mem_cons_self, normalSorted_of_pairwise (b :: r) h1.2⟩

theorem colRanges_pairwise (R : Nat → Nat → Prop) : ∀ (pairs : List (Nat × Nat)) (off : Nat),
    pairs.Pairwise (fun a b => R a.1 b.1) → (colRanges pairs off).Pairwise (fun a b => R a.1 b.1)
  | [], _, _ => List.Pairwise.nil
  | (spec, len) :: r, off, h => by
    have h1 := List.pairwise_cons.mp h
    simp only [colRanges]
    refine List.pairwise_cons.mpr ⟨?_, colRanges_pairwise R r _ h1.2⟩
    intro c hc
    have hm : c.1 ∈ (colRanges r (min (off + len) ChangeCodec.usizeMax)).map (·.1) := List.mem_map.mpr ⟨c, hc, rfl⟩
    rw [colRanges_specs] at hm
    obtain ⟨x, hx, hx1⟩ := List.mem_map.mp hm
    have := h1.1 x hx
    rw [hx1] at this
    exact this

theorem opSpecs_sorted : opSpecs.Pairwise (fun a b => specNorm a ≤ specNorm b) := by decide
theorem changeSpecs_sorted : changeSpecs.Pairwise (fun a b => specNorm a ≤ specNorm b) := by decide

theorem nonEmpty_normalSorted (cols : List (Nat × Bytes))
    (h : (cols.map (·.1)).Pairwise (fun a b => specNorm a ≤ specNorm b)) :
    normalSorted (rangesOf (nonEmptyCols cols)) = true := by
  apply normalSorted_of_pairwise
  unfold rangesOf
  apply colRanges_pairwise (fun a b => specNorm a ≤ specNorm b)
  unfold metaPairs nonEmptyCols
  rw [List.pairwise_map] at h ⊢
  exact h.filter _

/-- the framing round trip for arbitrary column tables -/
theorem parseBody_frame (actors heads : List Bytes) (headIdx : List Nat) (cc oc : List (Nat × Bytes))
    (hna : actors.length < 2 ^ 64) (hal : ∀ a ∈ actors, a.length < 2 ^ 64)
    (hnh : heads.length < 2 ^ 64) (hhl : ∀ h ∈ heads, h.length = Consts.HASH_SIZE)
    (hil : headIdx.length = heads.length) (hiv : ∀ x ∈ headIdx, x < 2 ^ 64)
    (hcd : (colData cc).length < 2 ^ 64) (hod : (colData oc).length < 2 ^ 64)
    (hcclen : cc.length < 2 ^ 64) (hoclen : oc.length < 2 ^ 64)
    (hccs : ∀ c ∈ cc, c.1 < 2 ^ 32 ∧ specDeflate c.1 = false ∧ changeSpecs.contains c.1 = true)
    (hocs : ∀ c ∈ oc, c.1 < 2 ^ 32 ∧ specDeflate c.1 = false ∧ opSpecs.contains c.1 = true)
    (hccn : normalSorted (rangesOf cc) = true) (hocn : normalSorted (rangesOf oc) = true)
    (hlo : ∃ r, ChangeCodec.parseLayout (colData oc).length (rangesOf oc) {} = .ok r)
    (hlc : ∃ r, ChangeCodec.parseLayout (colData cc).length (rangesOf cc) {} = .ok r) :
    parseBody (ulebEncode actors.length ++ (actors.map lenPrefixed).flatten
      ++ ulebEncode heads.length ++ heads.flatten
      ++ colMeta cc ++ colMeta oc ++ colData cc ++ colData oc
      ++ (headIdx.map ulebEncode).flatten) = .ok
      { actors := actors, heads := heads, changeCols := rangesOf cc, changeData := colData cc,
        opCols := rangesOf oc, opData := colData oc, headIdx := headIdx } := by
  have hccsmall : ∀ c ∈ cc, c.1 < 2 ^ 32 ∧ c.2.length < 2 ^ 64 := fun c hc =>
    ⟨(hccs c hc).1, Nat.lt_of_le_of_lt (mem_colData_len hc) hcd⟩
  have hocsmall : ∀ c ∈ oc, c.1 < 2 ^ 32 ∧ c.2.length < 2 ^ 64 := fun c hc =>
    ⟨(hocs c hc).1, Nat.lt_of_le_of_lt (mem_colData_len hc) hod⟩
  have hcsum : ((rangesOf cc).map (fun c => c.2.len)).sum = (colData cc).length := by
    unfold rangesOf
    rw [colRanges_lens _ 0 (by rw [← colData_length]; simpa using hcd), colData_length]
  have hosum : ((rangesOf oc).map (fun c => c.2.len)).sum = (colData oc).length := by
    unfold rangesOf
    rw [colRanges_lens _ 0 (by rw [← colData_length]; simpa using hod), colData_length]
  obtain ⟨ro, hro⟩ := hlo
  obtain ⟨rc, hrc⟩ := hlc
  unfold parseBody
  simp only [List.append_assoc]
  rw [uleb64_encode _ hna]
  simp only
  rw [parseActors_encode _ _ hal]
  simp only
  rw [uleb64_encode _ hnh]
  simp only
  rw [parseHashes_encode _ _ hhl]
  simp only
  rw [parseRawColumns_encode cc _ hcclen hccsmall hccn]
  simp only
  rw [parseRawColumns_encode oc _ hoclen hocsmall hocn]
  simp only
  rw [hcsum, takeN_append _ _ _ rfl]
  simp only
  rw [hosum]
  have hsuf : (if ((headIdx.map ulebEncode).flatten).isEmpty then (Except.ok ([], []) : PResult (List Nat))
      else parseUlebs heads.length (headIdx.map ulebEncode).flatten) = .ok (headIdx, []) := by
    cases headIdx with
    | nil => simp
    | cons x xs =>
      have hne : ((List.map ulebEncode (x :: xs)).flatten).isEmpty = false := by
        simp only [List.map_cons, List.flatten_cons]
        have := ulebEncode_length_pos x
        cases h : ulebEncode x with
        | nil => rw [h] at this; simp at this
        | cons a b => rfl
      rw [hne]
      simp only [Bool.false_eq_true, if_false]
      rw [← hil]
      have := parseUlebs_encode (x :: xs) [] hiv
      rwa [List.append_nil] at this
  have htk : takeN (colData oc).length (colData oc ++ (headIdx.map ulebEncode).flatten)
      = .ok (colData oc, (headIdx.map ulebEncode).flatten) := takeN_append _ _ _ rfl
  rw [htk]
  simp only [hsuf]
  rw [decompress_plain cc _ (fun c hc => (hccs c hc).2.1), decompress_plain oc _ (fun c hc => (hocs c hc).2.1)]
  simp only [hro, hrc, List.isEmpty_nil, Bool.not_true, Bool.false_eq_true, if_false]
  have hf1 : (rangesOf cc).filter (fun c => changeSpecs.contains c.1) = rangesOf cc := by
    rw [List.filter_eq_self]
    intro c hc
    have hm : c.1 ∈ (rangesOf cc).map (·.1) := List.mem_map.mpr ⟨c, hc, rfl⟩
    unfold rangesOf at hm
    rw [colRanges_specs] at hm
    simp only [metaPairs, List.map_map, List.mem_map, Function.comp] at hm
    obtain ⟨x, hx, hx1⟩ := hm
    rw [← hx1]
    exact (hccs x hx).2.2
  have hf2 : (rangesOf oc).filter (fun c => opSpecs.contains c.1) = rangesOf oc := by
    rw [List.filter_eq_self]
    intro c hc
    have hm : c.1 ∈ (rangesOf oc).map (·.1) := List.mem_map.mpr ⟨c, hc, rfl⟩
    unfold rangesOf at hm
    rw [colRanges_specs] at hm
    simp only [metaPairs, List.map_map, List.mem_map, Function.comp] at hm
    obtain ⟨x, hx, hx1⟩ := hm
    rw [← hx1]
    exact (hocs x hx).2.2
  rw [hf1, hf2]

/-- **the framing round trip**: `Document::parse` of what `Document::new` wrote -/
theorem parseBody_encode (img : DocImage) (hw : FrameWF img) (hl : LayoutOk img) :
    parseBody (encodeDoc img) = .ok
      { actors := img.actors, heads := img.heads,
        changeCols := rangesOf (nonEmptyCols (changeCols img.changes)),
        changeData := colData (nonEmptyCols (changeCols img.changes)),
        opCols := rangesOf (nonEmptyCols (opCols img.ops)),
        opData := colData (nonEmptyCols (opCols img.ops)),
        headIdx := img.headIdx } := by
  unfold encodeDoc
  apply parseBody_frame img.actors img.heads img.headIdx _ _ hw.nActors hw.actorLen hw.nHeads hw.headLen
    hw.headIdxLen hw.headIdxVal hw.changeData hw.opData
  · have := nonEmptyCols_length_le (changeCols img.changes)
    have h9 : (changeCols img.changes).length = 9 := rfl
    omega
  · have := nonEmptyCols_length_le (opCols img.ops)
    have h16 : (opCols img.ops).length = 16 := rfl
    omega
  · intro c hc
    have hm := changeCols_spec_mem (nonEmptyCols_sub _ c hc)
    exact ⟨(changeSpecs_small _ hm).1, (changeSpecs_small _ hm).2, by simpa using hm⟩
  · intro c hc
    have hm := opCols_spec_mem (nonEmptyCols_sub _ c hc)
    exact ⟨(opSpecs_small _ hm).1, (opSpecs_small _ hm).2, by simpa using hm⟩
  · apply nonEmpty_normalSorted; rw [changeCols_specs]; exact changeSpecs_sorted
  · apply nonEmpty_normalSorted; rw [opCols_specs]; exact opSpecs_sorted
  · exact hl.ops
  · exact hl.changes

end AmVerif.DocCodec
