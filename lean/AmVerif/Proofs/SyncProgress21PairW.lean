import AmVerif.Proofs.SyncProgress21Net
/-
  C21, n peers, part 3 (PairW, first file): the pair session inside a network under the WEAK
  invariants — `SessW` (survives deliveries from third parties), `Inv2` (sent ⊆ arrived-or-in-flight,
  no ready queued change, nobody read-only) and documents made of known changes of a topological
  universe `K` — bundled as `WP`, closed under the message steps of the pair; and the shape of a
  round of the pair during which nothing arrives and no reset message is sent (`Calm`).
-/
namespace AmVerif.Sync.Prog
open AmVerif AmVerif.Sync

/-! ### `Inv2` is preserved by the message steps without the strong invariant -/

theorem Inv2.genW (fp : Hash → Bool) {c : Cfg} (hro : c.stA.readOnly = false) (i2 : Inv2 c) :
    Inv2 (c.genA fp) := by
  rcases generate_cases fp c.docA c.stA with ⟨_, hg⟩ | ⟨_, _, hg⟩ | ⟨_, _, hg⟩
  · -- a reset message (never happens between two peers that lost nothing, but harmless)
    have hc' : c.genA fp = { c with linkAB := c.linkAB ++ [Message.reset c.docA.heads] } := by
      unfold Cfg.genA; simp only [hg]
    rw [hc']
    refine ⟨⟨?_, i2.a.stuck, i2.a.peerRW, ?_⟩, ⟨i2.b.sentArrived, i2.b.stuck, i2.b.peerRW, i2.b.flags⟩⟩
    · intro h hh
      rcases i2.a.sentArrived h hh with h1 | ⟨m, hm, h1⟩
      · left; exact h1
      · right; exact ⟨m, List.mem_append_left _ hm, h1⟩
    · intro m hm
      rcases List.mem_append.mp hm with h1 | h1
      · exact i2.a.flags m h1
      · simp only [List.mem_singleton] at h1; subst h1
        exact ⟨FLAG_SUPPORTS_SYNC_RESET, rfl, by decide⟩
  · have : c.genA fp = c := by unfold Cfg.genA; simp only [hg]
    rw [this]; exact i2
  · have hcar := mkBuilder_carries fp c.docA c.stA
    generalize hb : mkBuilder fp c.docA c.stA = b at hg hcar
    have hc' : c.genA fp = { c with stA := sentState c.docA c.stA b,
                                    linkAB := c.linkAB ++ [mkMessage c.docA c.stA b] } := by
      unfold Cfg.genA; simp only [hg]
    rw [hc']
    refine ⟨⟨?_, i2.a.stuck, i2.a.peerRW, ?_⟩, ⟨i2.b.sentArrived, i2.b.stuck, i2.b.peerRW, i2.b.flags⟩⟩
    · intro h hh
      simp only [sentState] at hh
      rcases (mem_foldl_insertSorted _ _).mp hh with h1 | h1
      · right
        obtain ⟨hch, x, hx, hxh⟩ := hcar h h1
        exact ⟨mkMessage c.docA c.stA b, by simp, hch, x, hx, hxh⟩
      · rcases i2.a.sentArrived h h1 with h2 | ⟨m, hm, h2⟩
        · left; exact h2
        · right; exact ⟨m, List.mem_append_left _ hm, h2⟩
    · intro m hm
      rcases List.mem_append.mp hm with h1 | h1
      · exact i2.a.flags m h1
      · simp only [List.mem_singleton] at h1; subst h1
        exact ⟨outFlags c.stA, rfl, by rw [outFlags_readOnly]; exact hro⟩

theorem Inv2.recvW {c : Cfg} {m : Message} {rest : List Message} (roB : c.stB.readOnly = false)
    (i2 : Inv2 c) (hl : c.linkAB = m :: rest) : Inv2 (c.recvB m rest) := by
  have hdoc := recvDoc_rw c.docB c.stB m roB
  obtain ⟨f, hf, hfr⟩ := i2.a.flags m (by rw [hl]; simp)
  refine ⟨⟨?_, i2.a.stuck, i2.a.peerRW, ?_⟩, ⟨?_, ?_, ?_, i2.b.flags⟩⟩
  · intro h hh
    rcases i2.a.sentArrived h hh with h1 | ⟨m', hm', hch, x, hx, hxh⟩
    · left; exact recvDoc_has _ _ _ h1
    · rw [hl] at hm'
      rcases List.mem_cons.mp hm' with rfl | hm''
      · left
        show hasB (recvDoc c.docB _ m') h = true
        rw [hdoc]
        have : (m'.chunks != 0) = true := by simpa using hch
        rw [this, if_pos rfl, ← hxh]
        exact applyChanges_gets _ _ hx
      · right; exact ⟨m', hm'', hch, x, hx, hxh⟩
  · intro m' hm'
    exact i2.a.flags m' (by rw [hl]; exact List.mem_cons_of_mem _ hm')
  · intro h hh
    exact i2.b.sentArrived h (recvState_sent_sub _ _ _ h hh)
  · exact recvDoc_stuck _ _ _ i2.b.stuck
  · show (recvState c.docB c.stB m).peerReadOnly = false
    rw [recvState_peerReadOnly _ _ _ f hf]; exact hfr


/-! ### the bundle -/

structure WP (K : List Change) (c : Cfg) : Prop where
  topoK : Topo K
  oa : DocOK K c.docA
  ob : DocOK K c.docB
  sess : SessW K c
  inv2 : Inv2 c

theorem kinj_of_topo {K : List Change} (h : Topo K) : KInj K :=
  fun x hx y hy e => Topo.inj K h x hx y hy e

theorem WP.swap {K : List Change} {c : Cfg} (w : WP K c) : WP K c.swap :=
  ⟨w.topoK, w.ob, w.oa, w.sess.swap, w.inv2.swap⟩

theorem WP.gen (fp : Hash → Bool) {K : List Change} {c : Cfg} (w : WP K c) : WP K (c.genA fp) :=
  ⟨w.topoK, w.oa, w.ob, w.sess.gen fp w.oa, w.inv2.genW fp w.sess.a.rw.1⟩

theorem WP.recv {K : List Change} {c : Cfg} {m : Message} {rest : List Message} (w : WP K c)
    (hl : c.linkAB = m :: rest) : WP K (c.recvB m rest) :=
  ⟨w.topoK, w.oa,
   w.ob.recv _ m (w.sess.a.msgsK m (by rw [hl]; simp)),
   w.sess.recv hl w.ob, w.inv2.recvW w.sess.b.rw.1 hl⟩

theorem WP.deliverAll {K : List Change} : ∀ (l : List Message) (c : Cfg), c.linkAB = l → WP K c →
    WP K (deliverAllAB l c)
  | [], _, _, w => w
  | m :: rest, c, hl, w => WP.deliverAll rest (c.recvB m rest) rfl (w.recv hl)

theorem WP.halfRound (fp : Hash → Bool) {K : List Change} {c : Cfg} (w : WP K c) :
    WP K (halfRound fp c) :=
  WP.deliverAll _ _ rfl (w.gen fp)

theorem WP.round (fp : Hash → Bool) {K : List Change} {c : Cfg} (w : WP K c) : WP K (round fp c) :=
  (((w.halfRound fp).swap).halfRound fp).swap

theorem WP.rounds (fp : Hash → Bool) {K : List Change} : ∀ (n : Nat) {c : Cfg}, WP K c →
    WP K (rounds fp n c)
  | 0, _, w => w
  | n + 1, _, w => WP.rounds fp n (w.round fp)

/-! ### what a half round leaves alone, without any invariant -/

theorem deliverAll_frame : ∀ (l : List Message) (c : Cfg), c.linkAB = l →
    (deliverAllAB l c).docA = c.docA ∧ (deliverAllAB l c).stA = c.stA ∧
    (deliverAllAB l c).linkAB = [] ∧ (deliverAllAB l c).linkBA = c.linkBA
  | [], _, hl => ⟨rfl, rfl, hl, rfl⟩
  | _ :: rest, c, _ => deliverAll_frame rest (c.recvB _ rest) rfl

theorem halfRound_frame (fp : Hash → Bool) (c : Cfg) :
    (halfRound fp c).docA = c.docA ∧ (halfRound fp c).linkAB = [] ∧
    (halfRound fp c).linkBA = c.linkBA := by
  obtain ⟨h1, _, h3, h4⟩ := deliverAll_frame (c.genA fp).linkAB (c.genA fp) rfl
  exact ⟨h1, h3, h4⟩

theorem round_frame (fp : Hash → Bool) (c : Cfg) :
    (round fp c).linkAB = [] ∧ (round fp c).linkBA = [] ∧
    (round fp c).docB = (halfRound fp c).docB := by
  obtain ⟨_, a2, _⟩ := halfRound_frame fp c
  obtain ⟨b1, b2, b3⟩ := halfRound_frame fp (halfRound fp c).swap
  refine ⟨?_, b2, b1⟩
  show (halfRound fp (halfRound fp c).swap).linkBA = []
  rw [b3]; exact a2

/-! ### a calm round: no reset message, nothing arrives -/

/-- in the round that starts at `c` neither peer sends the reset message and neither document
    changes -/
structure Calm (fp : Hash → Bool) (c : Cfg) : Prop where
  nrA : resetCond c.docA c.stA = false
  nrB : resetCond (halfRound fp c).docB (halfRound fp c).stB = false
  fB : (halfRound fp c).docB = c.docB
  fA : (round fp c).docA = c.docA

theorem Calm.docB {fp : Hash → Bool} {c : Cfg} (h : Calm fp c) : (round fp c).docB = c.docB := by
  rw [(round_frame fp c).2.2]; exact h.fB

end AmVerif.Sync.Prog
