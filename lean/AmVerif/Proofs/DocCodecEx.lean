import AmVerif.Proofs.DocCodecImage
/-
  C11 / C16 (document chunk): the concrete history the property files evaluate — three actors, a
  counter with an increment, a concurrent conflict on a map key that a later change resolves, a list
  with a deleted element, a text edited by two actors, a nested map — and the executable checks of the
  hypotheses (`historyOkB`, `sizesOkB`) with their soundness.
-/
namespace AmVerif.DocCodec
open AmVerif AmVerif.Crdt
open AmVerif.Hexane (two63 two64 validStr)
open AmVerif.ChangeCodec (valueMeta valueRaw)

/-- decidable equality of outcomes (for evaluating the model on the examples) -/
instance instDecEqOutcome {ε α : Type} [DecidableEq ε] [DecidableEq α] : DecidableEq (Outcome ε α)
  | .ok a, .ok b => if h : a = b then isTrue (by rw [h]) else isFalse (by intro e; cases e; exact h rfl)
  | .err a, .err b => if h : a = b then isTrue (by rw [h]) else isFalse (by intro e; cases e; exact h rfl)
  | .panic a, .panic b => if h : a = b then isTrue (by rw [h]) else isFalse (by intro e; cases e; exact h rfl)
  | .ok _, .err _ => isFalse (by intro e; cases e)
  | .ok _, .panic _ => isFalse (by intro e; cases e)
  | .err _, .ok _ => isFalse (by intro e; cases e)
  | .err _, .panic _ => isFalse (by intro e; cases e)
  | .panic _, .ok _ => isFalse (by intro e; cases e)
  | .panic _, .err _ => isFalse (by intro e; cases e)

/-! ### executable checks of `HistoryOk` and `SizesOk` -/

def hIdOkB (authors : List Bytes) (i : OpId) : Bool := decide (i.ctr < 2 ^ 32) && authors.contains i.actor

def opOkB (authors : List Bytes) (o : Op) : Bool :=
  hIdOkB authors o.id &&
  (match o.obj with | .id i => hIdOkB authors i && decide (0 < i.ctr) | .root => true) &&
  (match o.key with | .map k => validStrB k | .head => true | .elem e => hIdOkB authors e && decide (0 < e.ctr)) &&
  valOkB (ChangeCodec.toRow [] o).val &&
  (match (ChangeCodec.toRow [] o).markName with | some s => validStrB s | none => true) &&
  o.pred.all (hIdOkB authors)

def dchangeOkB (applied : List DChange) (d : DChange) : Bool :=
  decide (d.c.seq < 2 ^ 32) && decide (d.maxOp < 2 ^ 32) && decide (-(2 ^ 62 : Int) ≤ d.time) && decide (d.time < (2 ^ 62 : Int)) &&
  (match d.message with | some s => validStrB s | none => true) && decide (extraMeta d.extra < 2 ^ 64) &&
  decide (d.c.deps.length < 2 ^ 32) && decide (d.c.hash.length = Consts.HASH_SIZE) &&
  d.c.deps.all (fun h => decide (hashIdx applied h < 2 ^ 32) &&
    (match applied[hashIdx applied h]? with | some e => decide (e.maxOp ≤ d.maxOp) | none => false))

def historyOkB (applied : List DChange) : Bool :=
  decide ((actorTable applied).length ≤ 2 ^ 32) && applied.all (fun d => decide (d.c.actor.length < 2 ^ 64)) &&
  (applied.flatMap (·.c.ops)).all (opOkB (applied.map (·.c.actor))) && applied.all (dchangeOkB applied)

def sizesOkB (limit : Nat) (img : DocImage) : Bool :=
  decide (limit < two63) && decide (img.heads.length < 2 ^ 64) && decide (img.ops.length ≤ limit) &&
  decide ((img.ops.map (·.succ.length)).sum ≤ limit) && img.ops.all (fun r => decide (r.succ.length < 2 ^ 32)) &&
  decide ((img.ops.map (fun r => valueMeta r.val / 16)).sum < two64) &&
  decide ((colData (nonEmptyCols (opCols img.ops))).length < 2 ^ 64) && decide (img.changes.length ≤ limit) &&
  decide ((img.changes.map (·.deps.length)).sum ≤ limit) &&
  decide ((img.changes.map (fun c => c.extra.length)).sum < two64) &&
  decide ((colData (nonEmptyCols (changeCols img.changes))).length < 2 ^ 64)

theorem hIdOkB_sound {authors : List Bytes} {i : OpId} (h : hIdOkB authors i = true) : HIdOk authors i := by
  simp only [hIdOkB, Bool.and_eq_true, decide_eq_true_eq, List.contains_iff_mem] at h
  exact h

theorem opOkB_sound {authors : List Bytes} {o : Op} (h : opOkB authors o = true) : OpOk authors o := by
  simp only [opOkB, Bool.and_eq_true, List.all_eq_true] at h
  obtain ⟨⟨⟨⟨⟨h1, h2⟩, h3⟩, h4⟩, h5⟩, h6⟩ := h
  refine ⟨hIdOkB_sound h1, ?_, ?_, ?_, ?_, fun p hp => hIdOkB_sound (h6 p hp)⟩
  · intro i hi
    rw [hi] at h2
    simp only [Bool.and_eq_true, decide_eq_true_eq] at h2
    exact ⟨hIdOkB_sound h2.1, h2.2⟩
  · cases hk : o.key with
    | map k => rw [hk] at h3; exact validStrB_sound h3
    | head => trivial
    | elem e =>
      rw [hk] at h3
      simp only [Bool.and_eq_true, decide_eq_true_eq] at h3
      exact ⟨hIdOkB_sound h3.1, h3.2⟩
  · simp only [valOkB, Bool.and_eq_true, decide_eq_true_eq] at h4
    exact ⟨h4.1.1, h4.1.2, h4.2⟩
  · intro s hs
    rw [hs] at h5
    exact validStrB_sound h5

theorem dchangeOkB_sound {applied : List DChange} {i : Nat} {d : DChange} (h : dchangeOkB applied d = true) :
    DChangeOk applied i d := by
  simp only [dchangeOkB, Bool.and_eq_true, decide_eq_true_eq, List.all_eq_true] at h
  obtain ⟨⟨⟨⟨⟨⟨⟨⟨h1, h2⟩, h3⟩, h4⟩, h5⟩, h6⟩, h7⟩, h8⟩, h9⟩ := h
  refine ⟨h1, h2, ⟨h3, h4⟩, ?_, h6, h7, h8, ?_⟩
  · intro s hs
    rw [hs] at h5
    exact validStrB_sound h5
  · intro hd hhd
    obtain ⟨e1, e2⟩ := h9 hd hhd
    refine ⟨e1, ?_⟩
    cases hg : applied[hashIdx applied hd]? with
    | none => rw [hg] at e2; cases e2
    | some e =>
      rw [hg] at e2
      simp only [decide_eq_true_eq] at e2
      obtain ⟨hj, he⟩ := List.getElem?_eq_some_iff.mp hg
      exact ⟨hj, by rw [he]; exact e2⟩

theorem historyOkB_sound {applied : List DChange} (h : historyOkB applied = true) : HistoryOk applied := by
  simp only [historyOkB, Bool.and_eq_true, decide_eq_true_eq, List.all_eq_true] at h
  obtain ⟨⟨⟨h1, h2⟩, h3⟩, h4⟩ := h
  exact ⟨h1, h2, fun o ho => opOkB_sound (h3 o ho), fun i hi => dchangeOkB_sound (h4 _ (List.getElem_mem hi))⟩

theorem sizesOkB_sound {limit : Nat} {img : DocImage} (h : sizesOkB limit img = true) : SizesOk limit img := by
  simp only [sizesOkB, Bool.and_eq_true, decide_eq_true_eq, List.all_eq_true] at h
  obtain ⟨⟨⟨⟨⟨⟨⟨⟨⟨⟨h1, h2⟩, h3⟩, h4⟩, h5⟩, h6⟩, h7⟩, h8⟩, h9⟩, h10⟩, h11⟩ := h
  exact ⟨h1, h2, h3, h4, h5, h6, h7, h8, h9, h10, h11⟩

/-! ### the example history -/

namespace Ex

def A : Bytes := [1]
def B : Bytes := [2]
def C : Bytes := [3]
def oid (c : Nat) (a : Bytes) : OpId := ⟨c, a⟩

/-- actor A: a counter `n`, a list `l` = ["x", 7], a text `t` = "ab", a nested map `m` = {k: true} -/
def opsA1 : List Op :=
  [ ⟨oid 1 A, .root, .map [0x6e], false, .put (.counter 5), []⟩,
    ⟨oid 2 A, .root, .map [0x6c], false, .make .list, []⟩,
    ⟨oid 3 A, .id (oid 2 A), .head, true, .put (.str [0x78]), []⟩,
    ⟨oid 4 A, .id (oid 2 A), .elem (oid 3 A), true, .put (.int 7), []⟩,
    ⟨oid 5 A, .root, .map [0x74], false, .make .text, []⟩,
    ⟨oid 6 A, .id (oid 5 A), .head, true, .put (.str [0x61]), []⟩,
    ⟨oid 7 A, .id (oid 5 A), .elem (oid 6 A), true, .put (.str [0x62]), []⟩,
    ⟨oid 8 A, .root, .map [0x6d], false, .make .map, []⟩,
    ⟨oid 9 A, .id (oid 8 A), .map [0x6b], false, .put (.bool true), []⟩ ]

/-- actor B (concurrent with C): `c` := "B", increments the counter, deletes the list element 7 -/
def opsB1 : List Op :=
  [ ⟨oid 10 B, .root, .map [0x63], false, .put (.str [0x42]), []⟩,
    ⟨oid 11 B, .root, .map [0x6e], false, .inc 2, [oid 1 A]⟩,
    ⟨oid 12 B, .id (oid 2 A), .elem (oid 4 A), false, .del, [oid 4 A]⟩ ]

/-- actor C (concurrent with B): `c` := "C" (the conflict), appends "c" to the text -/
def opsC1 : List Op :=
  [ ⟨oid 10 C, .root, .map [0x63], false, .put (.str [0x43]), []⟩,
    ⟨oid 11 C, .id (oid 5 A), .elem (oid 7 A), true, .put (.str [0x63]), []⟩ ]

/-- actor A again, after both: `c` := 9 over the two conflicting values -/
def opsA2 : List Op :=
  [ ⟨oid 13 A, .root, .map [0x63], false, .put (.int 9), [oid 10 B, oid 10 C]⟩ ]

def hA1 : Bytes := [102, 46, 180, 201, 149, 57, 231, 143, 21, 95, 223, 54, 62, 222, 114, 130, 188, 69, 171, 255, 83, 16, 168, 24, 255, 207, 36, 243, 144, 44, 10, 202]
def hB1 : Bytes := [198, 50, 157, 85, 26, 250, 73, 187, 241, 209, 33, 65, 53, 70, 246, 172, 237, 56, 101, 237, 6, 133, 86, 163, 248, 31, 7, 119, 49, 207, 154, 215]
def hC1 : Bytes := [201, 153, 189, 68, 226, 236, 57, 69, 19, 75, 142, 160, 111, 27, 113, 174, 48, 13, 155, 5, 175, 37, 27, 7, 1, 104, 191, 166, 22, 202, 152, 58]
def hA2 : Bytes := [244, 228, 232, 120, 28, 254, 44, 192, 172, 205, 210, 174, 127, 203, 233, 225, 114, 199, 249, 184, 52, 224, 244, 200, 16, 39, 240, 19, 101, 101, 183, 31]

/-- the four changes in graph order, with a time, a message and extra bytes on some of them; the
    hashes are the SHA-256 chunk hashes of the changes (checked by `C11_doc_reconstruct_example`) -/
def history : List DChange :=
  [ ⟨⟨hA1, A, 1, 1, [], opsA1⟩, 0, none, []⟩,
    ⟨⟨hB1, B, 1, 10, [hA1], opsB1⟩, 5, some [0x6d], []⟩,
    ⟨⟨hC1, C, 1, 10, [hA1], opsC1⟩, 0, none, [0xff]⟩,
    ⟨⟨hA2, A, 2, 13, [hB1, hC1], opsA2⟩, -3, none, []⟩ ]

/-- the history before the last change -/
def earlier : List DChange := history.take 3

def allOps : List Op := history.flatMap (·.c.ops)

/-- a chunk with the history (heads, change rows) of `earlier` and the op rows of `history`: the
    rows of change A2 belong to no change of the chunk -/
def mixed : DocImage := { imageOf earlier with ops := (imageOf history).ops }

/-- one change of 19 puts (the collector's progressive encoder handles changes of more than 18 ops) -/
def bigOps : List Op :=
  (List.range 19).map (fun i => ⟨⟨i + 1, A⟩, .root, .map [0x6b, UInt8.ofNat (0x41 + i)], false, .put (.int i), []⟩)

def hBig : Bytes := [56, 255, 201, 171, 229, 94, 95, 155, 78, 15, 192, 12, 150, 26, 7, 187, 109, 189, 229, 95, 255, 179, 206, 134, 219, 180, 86, 39, 207, 50, 35, 185]

def big : List DChange := [⟨⟨hBig, A, 1, 1, [], bigOps⟩, 0, none, []⟩]

/-- the image of `big` with the id of the last row changed from 19 to 18: two rows with one id -/
def dupImg : DocImage :=
  { imageOf big with ops := (imageOf big).ops.zipIdx.map (fun p => if p.2 = 18 then { p.1 with id := ⟨18, p.1.id.actor⟩ } else p.1) }

/-- the image of `big` with `max_op` of the change set to 4 000 000 000 -/
def maxImg : DocImage :=
  { imageOf big with changes := (imageOf big).changes.map (fun c => { c with maxOp := 4000000000 }) }

/-- a put by A, then a change by B whose only op is a delete of the same key that names NO
    predecessor (no library call makes such an op; `apply_changes` accepts it from a peer) -/
def delNoPred : List DChange :=
  [ ⟨⟨[182, 102, 132, 199, 153, 72, 14, 243, 87, 48, 95, 173, 19, 25, 238, 253, 151, 75, 57, 202, 46, 68, 198, 176, 67, 155, 140, 129, 171, 84, 247, 124],
      A, 1, 1, [], [⟨oid 1 A, .root, .map [0x61], false, .put (.int 1), []⟩]⟩, 0, none, []⟩,
    ⟨⟨[158, 169, 178, 142, 144, 241, 76, 168, 134, 126, 171, 181, 214, 82, 134, 146, 146, 2, 128, 230, 127, 255, 252, 252, 27, 177, 190, 56, 11, 69, 140, 197],
      B, 1, 2,
      [[182, 102, 132, 199, 153, 72, 14, 243, 87, 48, 95, 173, 19, 25, 238, 253, 151, 75, 57, 202, 46, 68, 198, 176, 67, 155, 140, 129, 171, 84, 247, 124]],
      [⟨oid 2 B, .root, .map [0x61], false, .del, []⟩]⟩, 0, none, []⟩ ]

/-- a put by A, then a change by B WITHOUT ops whose `start_op` (10) is beyond one past the `max_op`
    of its dependency (1): `apply_changes` accepts it from a peer; no library call makes one (an empty
    change made locally starts at `max_op + 1`) -/
def emptyGap : List DChange :=
  [ ⟨⟨[182, 102, 132, 199, 153, 72, 14, 243, 87, 48, 95, 173, 19, 25, 238, 253, 151, 75, 57, 202, 46, 68, 198, 176, 67, 155, 140, 129, 171, 84, 247, 124],
      A, 1, 1, [], [⟨oid 1 A, .root, .map [0x61], false, .put (.int 1), []⟩]⟩, 0, none, []⟩,
    ⟨⟨[167, 101, 73, 139, 246, 140, 226, 172, 226, 188, 170, 89, 198, 74, 202, 50, 186, 61, 50, 145, 179, 244, 76, 158, 106, 58, 198, 251, 149, 14, 188, 153],
      B, 1, 10,
      [[182, 102, 132, 199, 153, 72, 14, 243, 87, 48, 95, 173, 19, 25, 238, 253, 151, 75, 57, 202, 46, 68, 198, 176, 67, 155, 140, 129, 171, 84, 247, 124]],
      []⟩, 0, none, []⟩ ]

end Ex

end AmVerif.DocCodec
