import AmVerif.Model.Marks
/-
  Helper lemmas for C24: additivity of the code-unit widths, length = width of the text,
  concatenation of the spans.
-/
namespace AmVerif.Crdt
open AmVerif

theorem width_nil (e : Enc) : width e [] = 0 := by
  cases e <;> simp [width]

/-- additivity: every code-unit width is a count of bytes with a property -/
theorem width_append (e : Enc) (a b : Bytes) : width e (a ++ b) = width e a + width e b := by
  cases e <;> simp [width, List.filter_append, List.length_append] <;> omega

theorem width_flatMap {α : Type} (e : Enc) (f : α → Bytes) (l : List α) :
    width e (l.flatMap f) = (l.map (fun x => width e (f x))).sum := by
  induction l with
  | nil => simp [width_nil]
  | cons x xs ih => simp [List.flatMap_cons, width_append, ih]

theorem widthWith_of_ne_gc (g : Bytes → Nat) {e : Enc} (h : e ≠ .gc) (s : Bytes) : widthWith g e s = width e s := by
  cases e <;> simp_all [widthWith]

/-- `Op::width` of a text op is the width of the string it contributes -/
theorem opWidth_eq_width_opStr (e : Enc) (o : Op) : opWidth e true o = width e (opStr o) := by
  unfold opWidth opStr
  cases h : o.action with
  | put v => cases v <;> simp
  | markBegin n v x => simp [width_nil]
  | markEnd x => simp [width_nil]
  | make t => simp
  | del => simp
  | inc n => simp

/-- sum of per-element widths = width of the concatenation, for the three code-unit encodings -/
theorem lengthWith_eq_width (g : Bytes → Nat) {e : Enc} (h : e ≠ .gc) (ops : List Op) (obj : ObjId) :
    lengthWith g e ops obj = width e (textOf ops obj) := by
  unfold lengthWith textOf
  rw [width_flatMap]
  congr 1
  apply List.map_congr_left
  intro o _
  exact widthWith_of_ne_gc g h _

/-! ### the UTF-8 byte formulas against the per-character definition -/

private theorem u8 (k : Nat) (h : k < 256) : (UInt8.ofNat k).toNat = k := by
  simp [Nat.mod_eq_of_lt h]

/-- contribution of one byte to a width -/
def byteW (e : Enc) (n : Nat) : Nat :=
  match e with
  | .cp => if n / 64 = 2 then 0 else 1
  | .gc => if n / 64 = 2 then 0 else 1
  | .utf8 => 1
  | .utf16 => (if n / 64 = 2 then 0 else 1) + (if 0xF0 ≤ n then 1 else 0)

theorem width_cons (e : Enc) (b : UInt8) (s : Bytes) : width e (b :: s) = byteW e b.toNat + width e s := by
  cases e <;> simp only [width, byteW, List.filter_cons] <;>
    by_cases h1 : b.toNat / 64 = 2 <;> by_cases h2 : 0xF0 ≤ b.toNat <;> simp [h1, h2] <;> omega

private theorem width_ofNat_cons (e : Enc) (k : Nat) (h : k < 256) (s : Bytes) :
    width e (UInt8.ofNat k :: s) = byteW e k + width e s := by
  rw [width_cons, u8 k h]

theorem width_utf8EncodeChar {e : Enc} (he : e ≠ .gc) (c : Char) : width e (utf8EncodeChar c) = charWidth e c := by
  have hv : c.toNat < 0x110000 := by
    have := c.valid
    rcases this with h | h
    · exact Nat.lt_trans h (by decide)
    · exact h.2
  unfold utf8EncodeChar
  by_cases h1 : c.toNat < 0x80
  · simp only [h1, if_true]
    rw [width_ofNat_cons e _ (by omega), width_nil]
    cases e <;> first | exact absurd rfl he | (simp only [byteW, charWidth]; repeat' split) <;> omega
  · by_cases h2 : c.toNat < 0x800
    · simp only [h1, h2, if_true, if_false]
      rw [width_ofNat_cons e _ (by omega), width_ofNat_cons e _ (by omega), width_nil]
      cases e <;> first | exact absurd rfl he | (simp only [byteW, charWidth]; repeat' split) <;> omega
    · by_cases h3 : c.toNat < 0x10000
      · simp only [h1, h2, h3, if_true, if_false]
        rw [width_ofNat_cons e _ (by omega), width_ofNat_cons e _ (by omega), width_ofNat_cons e _ (by omega), width_nil]
        cases e <;> first | exact absurd rfl he | (simp only [byteW, charWidth]; repeat' split) <;> omega
      · simp only [h1, h2, h3, if_false]
        rw [width_ofNat_cons e _ (by omega), width_ofNat_cons e _ (by omega), width_ofNat_cons e _ (by omega),
          width_ofNat_cons e _ (by omega), width_nil]
        cases e <;> first | exact absurd rfl he | (simp only [byteW, charWidth]; repeat' split) <;> omega

/-- the byte-level width of an encoded string is the per-character width -/
theorem width_utf8Encode {e : Enc} (he : e ≠ .gc) (cs : List Char) : width e (utf8Encode cs) = widthChars e cs := by
  unfold utf8Encode widthChars
  rw [width_flatMap]
  congr 1
  apply List.map_congr_left
  intro c _
  exact width_utf8EncodeChar he c

end AmVerif.Crdt

namespace AmVerif.Crdt
open AmVerif

/-! ### concatenating the spans gives the text -/

def spanStr : Span → Bytes
  | .text s _ => s
  | .block => [0xEF, 0xBF, 0xBC]

/-- the value ops among the items -/
def itemTops : List Item → List Op
  | [] => []
  | .elem _ t :: rest => t :: itemTops rest
  | _ :: rest => itemTops rest

theorem itemTops_append (a b : List Item) : itemTops (a ++ b) = itemTops a ++ itemTops b := by
  induction a with
  | nil => rfl
  | cons x xs ih => cases x <;> simp [itemTops, ih]

/-- the item walk visits exactly the winning value ops of the visible elements, in order -/
theorem itemTops_items (ops : List Op) (obj : ObjId) : itemTops (items ops obj) = topOps ops obj := by
  unfold items topOps seqRegs
  generalize rgaOrder ops obj = l
  induction l with
  | nil => rfl
  | cons e es ih =>
    simp only [List.filterMap_cons]
    cases ha : e.action with
    | markBegin n v x =>
      have hm : e.isMark = true := by simp [Op.isMark, ha]
      simp only [hm, if_true]
      by_cases ho : overwritten ops e <;> simp [ho, itemTops, ih]
    | markEnd x =>
      have hm : e.isMark = true := by simp [Op.isMark, ha]
      simp only [hm, if_true]
      by_cases ho : overwritten ops e <;> simp [ho, itemTops, ih]
    | put v =>
      have hm : e.isMark = false := by simp [Op.isMark, ha]
      cases hr : elemRegOps ops obj e.id with
      | nil => simp [hm, ih]
      | cons r rs =>
        cases hgl : (r :: rs).getLast? with
        | none => simp at hgl
        | some x => simp [hm, itemTops, ih, hgl]
    | make t =>
      have hm : e.isMark = false := by simp [Op.isMark, ha]
      cases hr : elemRegOps ops obj e.id with
      | nil => simp [hm, ih]
      | cons r rs =>
        cases hgl : (r :: rs).getLast? with
        | none => simp at hgl
        | some x => simp [hm, itemTops, ih, hgl]
    | del =>
      have hm : e.isMark = false := by simp [Op.isMark, ha]
      cases hr : elemRegOps ops obj e.id with
      | nil => simp [hm, ih]
      | cons r rs =>
        cases hgl : (r :: rs).getLast? with
        | none => simp at hgl
        | some x => simp [hm, itemTops, ih, hgl]
    | inc n =>
      have hm : e.isMark = false := by simp [Op.isMark, ha]
      cases hr : elemRegOps ops obj e.id with
      | nil => simp [hm, ih]
      | cons r rs =>
        cases hgl : (r :: rs).getLast? with
        | none => simp at hgl
        | some x => simp [hm, itemTops, ih, hgl]

/-- text accumulated by a span walk: emitted spans and the pending buffer -/
def SpanWalk.content (w : SpanWalk) : Bytes :=
  w.out.flatMap spanStr ++ (match w.next with | some (buf, _, _) => buf | none => [])

/-- a pending buffer of width 0 is empty -/
def SpanWalk.Good (w : SpanWalk) : Prop :=
  match w.next with
  | some (buf, len, _) => len = 0 → buf = []
  | none => True

theorem SpanWalk.flush_content {w : SpanWalk} (hg : w.Good) : w.flush.content = w.content ∧ w.flush.next = none := by
  unfold SpanWalk.flush SpanWalk.content
  cases hn : w.next with
  | none => simp [hn]
  | some p =>
    obtain ⟨buf, len, ms⟩ := p
    unfold SpanWalk.Good at hg
    rw [hn] at hg
    by_cases hl : len = 0
    · have := hg hl
      simp [hl, this]
    · simp [hl, spanStr]

theorem SpanWalk.flush_good (w : SpanWalk) : w.flush.Good := by
  unfold SpanWalk.flush SpanWalk.Good
  cases hn : w.next with
  | none => simp [hn]
  | some p =>
    obtain ⟨buf, len, ms⟩ := p
    by_cases hl : (len == 0) = true <;> simp [hl]

theorem SpanWalk.append_spec {W : Bytes → Nat} {w : SpanWalk} (hg : w.Good) (s : Bytes) (hs : W s = 0 → s = []) :
    (w.append W s).content = w.content ++ s ∧ (w.append W s).Good := by
  unfold SpanWalk.append
  cases hn : w.next with
  | none =>
    simp only [SpanWalk.content, SpanWalk.Good, hn]
    exact ⟨by simp, hs⟩
  | some p =>
    obtain ⟨buf, len, ms⟩ := p
    unfold SpanWalk.Good at hg
    rw [hn] at hg
    simp only [SpanWalk.content, SpanWalk.Good, hn]
    refine ⟨by simp, ?_⟩
    intro h0
    have h1 : len = 0 := by omega
    have h2 : W s = 0 := by omega
    simp [hg h1, hs h2]

theorem SpanWalk.pushStr_spec {W : Bytes → Nat} {w : SpanWalk} (hg : w.Good) (s : Bytes) (hs : W s = 0 → s = []) :
    (w.pushStr W s).content = w.content ++ s ∧ (w.pushStr W s).Good := by
  unfold SpanWalk.pushStr
  by_cases hf : w.flushNeeded = true
  · simp only [hf, if_true]
    have h := SpanWalk.append_spec (W := W) (SpanWalk.flush_good w) s hs
    rw [(SpanWalk.flush_content hg).1] at h
    exact h
  · simp only [hf]
    exact SpanWalk.append_spec hg s hs

theorem SpanWalk.step_spec {W : Bytes → Nat} {w : SpanWalk} (hg : w.Good) (it : Item)
    (hW : ∀ t ∈ itemTops [it], W (opStr t) = 0 → opStr t = []) :
    (w.step W it).content = w.content ++ (itemTops [it]).flatMap opStr ∧ (w.step W it).Good := by
  cases it with
  | mbegin id d => simp [SpanWalk.step, itemTops, SpanWalk.content, SpanWalk.Good] ; exact hg
  | mend id => simp [SpanWalk.step, itemTops, SpanWalk.content, SpanWalk.Good] ; exact hg
  | elem eid top =>
    simp only [SpanWalk.step, itemTops, List.flatMap_cons, List.flatMap_nil, List.append_nil]
    by_cases hb : top.isBlock = true
    · simp only [hb, if_true]
      have hf := SpanWalk.flush_content hg
      have ha : top.action = .make .map := by simpa [Op.isBlock] using hb
      refine ⟨?_, ?_⟩
      · have : opStr top = [0xEF, 0xBF, 0xBC] := by simp [opStr, ha]
        rw [this, ← hf.1]
        simp [SpanWalk.pushBlock, SpanWalk.content, hf.2, spanStr]
      · simp [SpanWalk.pushBlock, SpanWalk.Good, hf.2]
    · simp only [hb]
      exact SpanWalk.pushStr_spec hg _ (hW top (by simp [itemTops]))

theorem SpanWalk.foldl_spec {W : Bytes → Nat} (its : List Item) :
    ∀ {w : SpanWalk}, w.Good → (∀ t ∈ itemTops its, W (opStr t) = 0 → opStr t = []) →
      (its.foldl (SpanWalk.step W) w).content = w.content ++ (itemTops its).flatMap opStr ∧
      (its.foldl (SpanWalk.step W) w).Good := by
  induction its with
  | nil => intro w hg _; simp [itemTops]; exact hg
  | cons it rest ih =>
    intro w hg hW
    have hsplit : itemTops (it :: rest) = itemTops [it] ++ itemTops rest := by
      cases it <;> simp [itemTops]
    have h1 := SpanWalk.step_spec (W := W) hg it (fun t ht => hW t (by rw [hsplit]; exact List.mem_append_left _ ht))
    have h2 := ih h1.2 (fun t ht => hW t (by rw [hsplit]; exact List.mem_append_right _ ht))
    simp only [List.foldl_cons]
    refine ⟨?_, h2.2⟩
    rw [h2.1, h1.1, hsplit, List.flatMap_append, List.append_assoc]

/-- `concat(spans) = text` whenever no visible element has a non-empty string of width 0 (blocks as U+FFFC) -/
theorem spans_concat_of {W : Bytes → Nat} (ops : List Op) (obj : ObjId)
    (hW : ∀ t ∈ topOps ops obj, W (opStr t) = 0 → opStr t = []) :
    (spansOf W ops obj).flatMap spanStr = textOf ops obj := by
  unfold spansOf textOf
  have hg0 : ({} : SpanWalk).Good := by simp [SpanWalk.Good]
  have h := SpanWalk.foldl_spec (W := W) (items ops obj) hg0 (by rw [itemTops_items]; exact hW)
  have hf := SpanWalk.flush_content h.2
  have : ((items ops obj).foldl (SpanWalk.step W) {}).flush.content
      = ((items ops obj).foldl (SpanWalk.step W) {}).flush.out.flatMap spanStr := by
    simp [SpanWalk.content, hf.2]
  rw [← this, hf.1, h.1, itemTops_items]
  simp [SpanWalk.content]

/-- a string that does not start with a UTF-8 continuation byte (true of every valid UTF-8 string) -/
def LeadFirst : Bytes → Prop
  | [] => True
  | b :: _ => b.toNat / 64 ≠ 2

theorem width_eq_zero {e : Enc} {s : Bytes} (hl : LeadFirst s) (h : width e s = 0) : s = [] := by
  cases s with
  | nil => rfl
  | cons b bs =>
    rw [width_cons] at h
    unfold LeadFirst at hl
    cases e <;> simp [byteW, hl] at h

theorem gOne_eq_zero {s : Bytes} (h : gOne s = 0) : s = [] := by
  unfold gOne at h
  cases s <;> simp_all

end AmVerif.Crdt
