import AmVerif.Proofs.DocCodecBuilders
/-
  C11 (document chunk), reconstruction: the sorted actor table.  `idxOf` is an order isomorphism between
  the table's actors (byte order) and their indexes, so sorting actors and sorting their indexes give
  corresponding lists, and looking an actor up in a list of actors is looking its index up in the list
  of indexes.
-/
namespace AmVerif.DocCodec
open AmVerif AmVerif.Crdt AmVerif.ChangeCodec

abbrev BSortedL (l : List Bytes) : Prop := l.Pairwise (fun a b => bytesLt a b = true)

theorem insertBytes_sorted (k : Bytes) {l : List Bytes} (h : BSortedL l) : BSortedL (insertBytes k l) := by
  induction l with
  | nil => exact List.pairwise_singleton _ _
  | cons x xs ih =>
    unfold insertBytes
    have h' := List.pairwise_cons.1 h
    split
    · exact h
    · rename_i hne
      split
      · rename_i hlt
        refine List.pairwise_cons.2 ⟨?_, h⟩
        intro y hy
        cases hy with
        | head => exact hlt
        | tail _ hy' => exact bytesLt_trans hlt (h'.1 y hy')
      · rename_i hnlt
        refine List.pairwise_cons.2 ⟨?_, ih h'.2⟩
        intro y hy
        rcases mem_insertBytes.1 hy with rfl | hy'
        · rcases bytesLt_total hne with h1 | h1
          · rw [h1] at hnlt; exact absurd rfl hnlt
          · exact h1
        · exact h'.1 y hy'

theorem sortBytes_sorted (l : List Bytes) : BSortedL (sortBytes l) := by
  induction l with
  | nil => exact List.Pairwise.nil
  | cons x xs ih => exact insertBytes_sorted x ih

theorem bsorted_nodup {l : List Bytes} (h : BSortedL l) : l.Nodup := by
  apply List.Pairwise.imp _ h
  intro a b hab heq
  subst heq
  rw [bytesLt_irrefl] at hab
  cases hab

theorem getElem?_idxOf {table : List Bytes} {a : Bytes} (h : a ∈ table) : table[idxOf table a]? = some a := by
  have hlt := idxOf_lt h
  rw [List.getElem?_eq_getElem hlt]
  have := List.findIdx_getElem (p := fun x => decide (x = a)) (xs := table) (w := hlt)
  simp only [decide_eq_true_eq] at this
  exact congrArg some this

theorem idxOf_inj {table : List Bytes} {a b : Bytes} (ha : a ∈ table) (hb : b ∈ table)
    (h : idxOf table a = idxOf table b) : a = b := by
  have h1 := getElem?_idxOf ha
  have h2 := getElem?_idxOf hb
  rw [h] at h1
  rw [h1] at h2
  cases h2
  rfl

theorem idxOf_getElem {table : List Bytes} (hn : table.Nodup) {i : Nat} {a : Bytes} (h : table[i]? = some a) :
    idxOf table a = i := by
  have ha : a ∈ table := List.mem_of_getElem? h
  have h1 := getElem?_idxOf ha
  obtain ⟨hi, hi'⟩ := List.getElem?_eq_some_iff.1 h
  obtain ⟨hj, hj'⟩ := List.getElem?_eq_some_iff.1 h1
  exact (List.getElem_inj hn).1 (hj'.trans hi'.symm)

/-- byte order on the table's actors is index order -/
theorem idxOf_lt_iff {table : List Bytes} (hs : BSortedL table) {a b : Bytes} (ha : a ∈ table) (hb : b ∈ table) :
    idxOf table a < idxOf table b ↔ bytesLt a b = true := by
  have h1 := getElem?_idxOf ha
  have h2 := getElem?_idxOf hb
  obtain ⟨hi, hi'⟩ := List.getElem?_eq_some_iff.1 h1
  obtain ⟨hj, hj'⟩ := List.getElem?_eq_some_iff.1 h2
  have hp := List.pairwise_iff_getElem.1 hs
  constructor
  · intro hlt
    have := hp _ _ hi hj hlt
    rw [hi', hj'] at this
    exact this
  · intro hlt
    rcases Nat.lt_trichotomy (idxOf table a) (idxOf table b) with h | h | h
    · exact h
    · have := idxOf_inj ha hb h
      subst this
      rw [bytesLt_irrefl] at hlt; cases hlt
    · have := hp _ _ hj hi h
      rw [hi', hj'] at this
      exact absurd hlt (fun h' => bytesLt_asymm h' this)

/-! ### sorted index lists -/

theorem mem_insertNat {n x : Nat} {l : List Nat} : x ∈ insertNat n l ↔ x = n ∨ x ∈ l := by
  induction l with
  | nil => simp [insertNat]
  | cons y ys ih =>
    unfold insertNat
    split
    · simp
    · split
      · rename_i h
        subst h
        simp
      · simp only [List.mem_cons, ih]
        constructor
        · rintro (h | h | h)
          · exact Or.inr (Or.inl h)
          · exact Or.inl h
          · exact Or.inr (Or.inr h)
        · rintro (h | h | h)
          · exact Or.inr (Or.inl h)
          · exact Or.inl h
          · exact Or.inr (Or.inr h)

theorem insertNat_sorted (n : Nat) {l : List Nat} (h : l.Pairwise (· < ·)) : (insertNat n l).Pairwise (· < ·) := by
  induction l with
  | nil => exact List.pairwise_singleton _ _
  | cons x xs ih =>
    unfold insertNat
    have h' := List.pairwise_cons.1 h
    split
    · rename_i hlt
      refine List.pairwise_cons.2 ⟨?_, h⟩
      intro y hy
      cases hy with
      | head => exact hlt
      | tail _ hy' => exact Nat.lt_trans hlt (h'.1 y hy')
    · split
      · exact h
      · refine List.pairwise_cons.2 ⟨?_, ih h'.2⟩
        intro y hy
        rcases mem_insertNat.1 hy with rfl | hy'
        · omega
        · exact h'.1 y hy'

theorem mem_sortNat {x : Nat} {l : List Nat} : x ∈ l.foldr insertNat [] ↔ x ∈ l := by
  induction l with
  | nil => simp
  | cons y ys ih =>
    show x ∈ insertNat y (ys.foldr insertNat []) ↔ _
    rw [mem_insertNat, ih]
    simp

theorem sortNat_sorted (l : List Nat) : (l.foldr insertNat []).Pairwise (· < ·) := by
  induction l with
  | nil => exact List.Pairwise.nil
  | cons x xs ih => exact insertNat_sorted x ih

/-- sorting indexes gives one list for all lists with the same members -/
theorem sortNat_congr {l₁ l₂ : List Nat} (h : ∀ x, x ∈ l₁ ↔ x ∈ l₂) :
    l₁.foldr insertNat [] = l₂.foldr insertNat [] := by
  apply eq_of_sorted_mem id _ _ (sortNat_sorted l₁) (sortNat_sorted l₂)
  intro x
  rw [mem_sortNat, mem_sortNat, h]

/-- the indexes of byte-sorted actors are the sorted indexes -/
theorem map_idxOf_sortBytes {table : List Bytes} (hs : BSortedL table) {l : List Bytes} (hl : ∀ a ∈ l, a ∈ table) :
    (sortBytes l).map (idxOf table) = (l.map (idxOf table)).foldr insertNat [] := by
  apply eq_of_sorted_mem id _ _ _ (sortNat_sorted _)
  · intro x
    rw [mem_sortNat]
    simp only [List.mem_map, mem_sortBytes]
  · rw [List.pairwise_map]
    apply List.Pairwise.imp_of_mem _ (sortBytes_sorted l)
    intro a b ha hb hab
    exact (idxOf_lt_iff hs (hl a (mem_sortBytes.1 ha)) (hl b (mem_sortBytes.1 hb))).2 hab

/-- looking an actor up in a list of table actors = looking its index up in the list of their indexes -/
theorem findIdx_map_idxOf {table : List Bytes} {l : List Bytes} (hl : ∀ a ∈ l, a ∈ table) {a : Bytes}
    (ha : a ∈ table) :
    (l.map (idxOf table)).findIdx (fun x => x = idxOf table a) = l.findIdx (fun x => x = a) := by
  induction l with
  | nil => rfl
  | cons y ys ih =>
    rw [List.map_cons, List.findIdx_cons, List.findIdx_cons,
      ih (fun z hz => hl z (List.mem_cons_of_mem _ hz))]
    by_cases h : y = a
    · subst h; simp
    · have : idxOf table y ≠ idxOf table a := fun h' => h (idxOf_inj (hl y (List.mem_cons_self ..)) ha h')
      simp [h, this]

theorem filterMap_getElem_idxOf {table : List Bytes} {l : List Bytes} (hl : ∀ a ∈ l, a ∈ table) :
    (l.map (idxOf table)).filterMap (fun i => table[i]?) = l := by
  induction l with
  | nil => rfl
  | cons y ys ih =>
    rw [List.map_cons, List.filterMap_cons, getElem?_idxOf (hl y (List.mem_cons_self ..)),
      ih (fun z hz => hl z (List.mem_cons_of_mem _ hz))]

end AmVerif.DocCodec
