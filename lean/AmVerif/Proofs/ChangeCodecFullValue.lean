import AmVerif.Proofs.ChangeCodecFullCols
import AmVerif.Proofs.Leb128
/-
  Helper lemmas for the whole-change round trip of C18, VALUE column: the metadata word
  (`ValueMeta::from`: `ulebsize` / `lebsize` computed from the bit length) and the raw bytes
  (`encode_val`) of a scalar value are read back as that value by the value iterator (`readValue`).
-/
namespace AmVerif.ChangeCodec.Full
open AmVerif AmVerif.Leb AmVerif.Crdt AmVerif.ChangeCodec
open AmVerif.Hexane (validUtf8 two63 two64 cU64)

/-! ### `ulebsize` / `lebsize` are the lengths of the varints written -/

theorem log2_div128 (n : Nat) (h : 128 ≤ n) : Nat.log2 n = Nat.log2 (n / 128) + 7 := by
  have hm : n / 128 ≠ 0 := by omega
  have hn : n ≠ 0 := by omega
  have h1 := Nat.log2_self_le hm
  have h2 := @Nat.lt_log2_self (n / 128)
  have e7 : 2 ^ (Nat.log2 (n / 128) + 7) = 128 * 2 ^ Nat.log2 (n / 128) := by rw [Nat.pow_add]; omega
  have e8 : 2 ^ (Nat.log2 (n / 128) + 7 + 1) = 256 * 2 ^ Nat.log2 (n / 128) := by
    rw [Nat.pow_add, Nat.pow_add]; omega
  have e1 : 2 ^ (Nat.log2 (n / 128) + 1) = 2 * 2 ^ Nat.log2 (n / 128) := by rw [Nat.pow_add]; omega
  rw [e1] at h2
  have lo : Nat.log2 (n / 128) + 7 ≤ Nat.log2 n := (Nat.le_log2 hn).mpr (by rw [e7]; omega)
  have hi : Nat.log2 n < Nat.log2 (n / 128) + 7 + 1 := (Nat.log2_lt hn).mpr (by rw [e8]; omega)
  omega

theorem ulebsize_small (n : Nat) (h : n < 128) : ulebsize n = 1 := by
  unfold ulebsize
  by_cases h0 : n = 0
  · simp [h0]
  · rw [if_neg h0]
    have : Nat.log2 n < 7 := (Nat.log2_lt h0).mpr (by omega)
    omega

theorem ulebsize_big (n : Nat) (h : 128 ≤ n) : ulebsize n = ulebsize (n / 128) + 1 := by
  unfold ulebsize
  rw [if_neg (by omega), if_neg (by omega), log2_div128 n h]
  omega

theorem ulebsize_eq : ∀ n : Nat, (ulebEncode n).length = ulebsize n := by
  intro n
  induction n using Nat.strongRecOn with
  | _ n ih =>
    by_cases h : n < 128
    · rw [ulebEncode_lt h, ulebsize_small n h]; rfl
    · rw [ulebEncode_ge h, List.length_cons, ih (n / 128) (by omega), ulebsize_big n (by omega)]

/-- the magnitude whose bit length `lebsize` counts -/
def mag (v : Int) : Nat := if v < 0 then (-v - 1).toNat else v.toNat

theorem lebsize_def (v : Int) :
    lebsize v = (1 + (if mag v = 0 then 0 else Nat.log2 (mag v) + 1) + 6) / 7 := rfl

theorem mag_div (v : Int) : mag (v / 128) = mag v / 128 := by
  unfold mag
  by_cases h : v < 0
  · have h' : v / 128 < 0 := by omega
    rw [if_pos h, if_pos h']
    omega
  · have h' : ¬ v / 128 < 0 := by omega
    rw [if_neg h, if_neg h']
    omega

theorem lebsize_small (v : Int) (h : -64 ≤ v ∧ v < 64) : lebsize v = 1 := by
  rw [lebsize_def]
  have hm : mag v < 64 := by unfold mag; split <;> omega
  by_cases h0 : mag v = 0
  · simp [h0]
  · rw [if_neg h0]
    have : Nat.log2 (mag v) < 6 := (Nat.log2_lt h0).mpr (by omega)
    omega

theorem lebsize_big (v : Int) (h : ¬ (-64 ≤ v ∧ v < 64)) : lebsize v = lebsize (v / 128) + 1 := by
  rw [lebsize_def, lebsize_def, mag_div]
  have hm : 64 ≤ mag v := by unfold mag; split <;> omega
  rw [if_neg (by omega)]
  by_cases h0 : mag v / 128 = 0
  · rw [if_pos h0]
    have h1 : Nat.log2 (mag v) < 7 := (Nat.log2_lt (by omega)).mpr (by omega)
    have h2 : 6 ≤ Nat.log2 (mag v) := (Nat.le_log2 (by omega)).mpr (by omega)
    omega
  · rw [if_neg h0, log2_div128 (mag v) (by omega)]
    omega

theorem lebsize_eq : ∀ (m : Nat) (v : Int), v.natAbs = m → (slebEncode v).length = lebsize v := by
  intro m
  induction m using Nat.strongRecOn with
  | _ m ih =>
    intro v hv
    by_cases h : -64 ≤ v ∧ v < 64
    · rw [slebEncode_small h, lebsize_small v h]; rfl
    · rw [slebEncode_big h, List.length_cons, ih (v / 128).natAbs (by omega) (v / 128) rfl, lebsize_big v h]

/-! ### little-endian floats -/

theorem leBytes_roundtrip : ∀ (k n : Nat), n < 256 ^ k → leBytesToNat (natToLeBytes k n) = n
  | 0, n, h => by simp at h; subst h; rfl
  | k + 1, n, h => by
    simp only [natToLeBytes, leBytesToNat]
    rw [leBytes_roundtrip k (n / 256) (by rw [Nat.pow_succ] at h; omega),
      toNat_ofNat_lt (by omega)]
    omega

theorem natToLeBytes_length : ∀ (k n : Nat), (natToLeBytes k n).length = k
  | 0, _ => rfl
  | k + 1, n => by simp [natToLeBytes, natToLeBytes_length k]

/-! ### one value -/

theorem readBytes_append (a rest : Bytes) : readBytes (a ++ rest) a.length = some (a, rest) := by
  unfold readBytes
  have : ¬ (a ++ rest).length < a.length := by simp
  rw [if_neg this, List.take_left' rfl, List.drop_left' rfl]

theorem strictU_encode (n : Nat) (h : n < 2 ^ 64) : strictU (ulebEncode n) = some n := by
  unfold strictU
  have := uleb64_encode n h []
  rw [List.append_nil] at this
  rw [this]

theorem strictS_encode (i : Int) (h : inI64v i) : strictS (slebEncode i) = some i := by
  unfold strictS
  have := sleb64_encode i h.1 h.2 []
  rw [List.append_nil] at this
  rw [this]

theorem ulebsize_le (n : Nat) (h : n < 2 ^ 64) : ulebsize n ≤ 10 := by
  rw [← ulebsize_eq]; exact (ulebEncode_length_le n h).2

theorem lebsize_le (i : Int) (h : inI64v i) : lebsize i ≤ 10 := by
  rw [← lebsize_eq _ i rfl]; exact (slebEncode_length_le i h.1 h.2).2

theorem valueMeta_lt (v : Scalar) (h : ScalarWF v) : valueMeta v < 2 ^ 64 := by
  cases v with
  | null => simp [valueMeta]
  | bool b => cases b <;> simp [valueMeta]
  | int i => have := lebsize_le i h; simp only [valueMeta]; omega
  | uint n => have := ulebsize_le n h; simp only [valueMeta]; omega
  | f64 b => simp [valueMeta]
  | str s => have := h.1; simp only [valueMeta]; omega
  | bytes b => have : b.length < 2 ^ 60 := h; simp only [valueMeta]; omega
  | counter i => have := lebsize_le i h; simp only [valueMeta]; omega
  | timestamp i => have := lebsize_le i h; simp only [valueMeta]; omega
  | unknown ty b => obtain ⟨_, _, _⟩ := h; simp only [valueMeta]; omega

/-- **one value**: the reader on the metadata word and the raw bytes the writer produced -/
theorem readValue_encode (v : Scalar) (h : ScalarWF v) (rest : Bytes) :
    readValue (valueMeta v) (valueRaw v ++ rest) = .ok (v, rest) := by
  cases v with
  | null => simp [readValue, valueMeta, valueRaw]
  | bool b => cases b <;> simp [readValue, valueMeta, valueRaw]
  | int i =>
    have hl := lebsize_eq _ i rfl
    have e1 : (lebsize i * 16 + 4) % 16 = 4 := by omega
    have e2 : (lebsize i * 16 + 4) / 16 = (slebEncode i).length := by omega
    simp only [readValue, valueMeta, valueRaw, e1, e2, readBytes_append, strictS_encode i h]
    simp
  | uint n =>
    have hl := ulebsize_eq n
    have e1 : (ulebsize n * 16 + 3) % 16 = 3 := by omega
    have e2 : (ulebsize n * 16 + 3) / 16 = (ulebEncode n).length := by omega
    simp only [readValue, valueMeta, valueRaw, e1, e2, readBytes_append, strictU_encode n h]
    simp
  | f64 b =>
    have e2 : (8 * 16 + 5) / 16 = (natToLeBytes 8 b).length := by rw [natToLeBytes_length]
    have e3 : leBytesToNat (natToLeBytes 8 b) = b := leBytes_roundtrip 8 b (by unfold ScalarWF at h; omega)
    simp only [readValue, valueMeta, valueRaw]
    rw [e2, readBytes_append]
    simp [e3]
  | str s =>
    have e1 : (s.length * 16 + 6) % 16 = 6 := by omega
    have e2 : (s.length * 16 + 6) / 16 = s.length := by omega
    simp only [readValue, valueMeta, valueRaw, e1, e2, readBytes_append, h.2]
    simp
  | bytes b =>
    have e1 : (b.length * 16 + 7) % 16 = 7 := by omega
    have e2 : (b.length * 16 + 7) / 16 = b.length := by omega
    simp only [readValue, valueMeta, valueRaw, e1, e2, readBytes_append]
    simp
  | counter i =>
    have hl := lebsize_eq _ i rfl
    have e1 : (lebsize i * 16 + 8) % 16 = 8 := by omega
    have e2 : (lebsize i * 16 + 8) / 16 = (slebEncode i).length := by omega
    simp only [readValue, valueMeta, valueRaw, e1, e2, readBytes_append, strictS_encode i h]
    simp
  | timestamp i =>
    have hl := lebsize_eq _ i rfl
    have e1 : (lebsize i * 16 + 9) % 16 = 9 := by omega
    have e2 : (lebsize i * 16 + 9) / 16 = (slebEncode i).length := by omega
    simp only [readValue, valueMeta, valueRaw, e1, e2, readBytes_append, strictS_encode i h]
    simp
  | unknown ty b =>
    obtain ⟨h1, h2, h3⟩ := h
    have e1 : (b.length * 16 + ty) % 16 = ty := by omega
    have e2 : (b.length * 16 + ty) / 16 = b.length := by omega
    simp only [readValue, valueMeta, valueRaw, e1, e2, readBytes_append]
    have n0 : ¬ ty = 0 := by omega
    have n1 : ¬ ty = 1 := by omega
    have n2 : ¬ ty = 2 := by omega
    have n3 : ¬ ty = 3 := by omega
    have n4 : ¬ ty = 4 := by omega
    have n5 : ¬ ty = 5 := by omega
    have n6 : ¬ ty = 6 := by omega
    have n7 : ¬ ty = 7 := by omega
    have n8 : ¬ ty = 8 := by omega
    have n9 : ¬ ty = 9 := by omega
    simp only [n0, n1, n2, n3, n4, n5, n6, n7, n8, n9, if_false]

/-! ### the value iterator -/

theorem bind_id_some {α : Type} {o : Option (Option α)} {a : α} (h : o.bind id = some a) : o = some (some a) := by
  cases o with
  | none => cases h
  | some o' =>
    cases o' with
    | none => cases h
    | some m => simp at h; rw [h]

/-- the value iterator stands in front of the values `vs` -/
def VRep (s : ValSt) (vs : List Scalar) : Prop :=
  RepN cU64 Hexane.validU64 s.vmeta (vs.map (fun v => some (valueMeta v))) ∧
    s.raw = (vs.map valueRaw).flatten

theorem vRep_step (s : ValSt) (v : Scalar) (vs : List Scalar) (hv : ScalarWF v) (h : VRep s (v :: vs)) :
    ∃ s', valNext s = .ok (v, s') ∧ VRep s' vs := by
  obtain ⟨h1, h2⟩ := h
  simp only [List.map_cons] at h1
  obtain ⟨o, ms, e1, e2, e3⟩ := repN_step Hexane.lawful_u64 _ _ _ h1
  have ho := bind_id_some e2
  subst ho
  refine ⟨⟨ms, (vs.map valueRaw).flatten⟩, ?_, e3, rfl⟩
  unfold valNext
  rw [e1]
  simp only
  rw [h2, List.map_cons, List.flatten_cons, readValue_encode v hv]

end AmVerif.ChangeCodec.Full
