import AmVerif.Proofs.MyersFullSteps
/-
  C27 helper: `middle_snake_in_range`.  The frontier invariant `FrontOK` of `MyersFullFront` is
  carried through the forward and the backward `for k` loop and the `for d` loop of
  `find_middle_snake`; every split point answered lies in the rectangle and is neither corner.
-/
namespace AmVerif.Myers
open AmVerif

/-- a split point inside the rectangle that is neither corner -/
def InRng (os oe ns ne : Nat) : KStep → Prop
  | .found X Y _ _ => (os : Int) ≤ X ∧ X ≤ oe ∧ (ns : Int) ≤ Y ∧ Y ≤ ne ∧ ¬ (X = os ∧ Y = ns) ∧ ¬ (X = oe ∧ Y = ne)
  | _ => True

/-- what is known about the rectangle at a call of `find_middle_snake` -/
structure Ctx {α : Type} [BEq α] (old : List α) (os : Nat) (new : List α) (ns n m : Nat) (delta : Int)
    (odd : Bool) : Prop where
  hdelta : delta = (n : Int) - m
  hn : 1 ≤ n
  hm : 1 ≤ m
  hodd1 : odd = true → delta % 2 = 1
  hodd0 : odd = false → delta % 2 = 0
  hpre0 : commonPrefixLen old os (os + n) new ns (ns + m) = 0
  hsuf0 : commonSuffixLen old os (os + n) new ns (ns + m) = 0
  hpre : old[os]? ≠ new[ns]?

section
variable {α : Type} [BEq α] [LawfulBEq α]

/-- one forward iteration -/
theorem fwdStep_keeps2 {old : List α} {os : Nat} {new : List α} {ns n m : Nat} {delta : Int} {odd : Bool}
    (C : Ctx old os new ns n m delta odd) (d j : Nat) (vf0 vf vb : V) (hj : j < d + 1)
    (hF : FrontOK n m delta 1 (odd = true) ((d : Int) - 1) (validP d) vf0.get)
    (hB : FrontOK n m delta 0 (odd = false) ((d : Int) - 1) (validP d) vb.get)
    (hag : ∀ k', validP d k' → vf.get k' = vf0.get k')
    (hc : FCur2 n m delta 1 (odd = true) d j vf0.get vf.get) :
    match fwdStep old os (os + n) new ns (ns + m) n m delta odd d ((d : Int) - 2 * (j : Int)) vf vb with
    | .cont a b => ((∀ k', validP d k' → a.get k' = vf0.get k') ∧
        FCur2 n m delta 1 (odd = true) d (j + 1) vf0.get a.get) ∧ b = vb
    | r => InRng os (os + n) ns (ns + m) r := by
  generalize hk : (d : Int) - 2 * (j : Int) = k
  have hk' : k = (d : Int) - 2 * (j : Int) := hk.symm
  cases hr : fwdStep old os (os + n) new ns (ns + m) n m delta odd d k vf vb with
  | panic p => trivial
  | cont a b =>
    simp only
    rcases fwdStep_tail hr with ⟨p, hp⟩ | ⟨x, hpick, ht⟩
    · cases hp
    rcases fwdTail_inv2 ht with ⟨p, hp⟩ | ⟨vf', hset, ⟨hres, hchk⟩ | ⟨hres, _⟩⟩
    · cases hp
    · cases hres
      have hs : StepFacts n m d k vf.get x (fwdX1 old os (os + n) new ns (ns + m) n m k x) :=
        ⟨hpick, fwdX1_snake old os new ns n m k x, fun hd0 hx0 => by
          have hk0 : k = 0 := by omega
          rw [hk0, hx0]; exact fwdX1_zero old os new ns n m C.hpre0⟩
      have hno : odd = true → inR delta ((d : Int) - 1) k →
          ((fwdX1 old os (os + n) new ns (ns + m) n m k x : Nat) : Int) < n ∧
          ((fwdX1 old os (os + n) new ns (ns + m) n m k x : Nat) : Int) - k < m := by
        intro ho hr'
        have hpar := C.hodd1 ho
        obtain ⟨b, hb, hlt⟩ := hchk ho (by unfold inR at hr'; omega)
        have hv : validP d (-(k - delta)) := by unfold validP; unfold inR at hr'; right; omega
        obtain ⟨⟨g1, _, _⟩, _, _⟩ := hB.ent _ b hv hb
        exact no_of_check C.hdelta hlt (by omega) hr'
      have := cur_step hF hag hc (by omega) hk' hs hno (V.get_set_self hset)
        (fun k' hne => V.get_set_ne hset hne)
      exact ⟨this, rfl⟩
    · cases hres
  | found X Y a b =>
    simp only
    rcases fwdStep_tail hr with ⟨p, hp⟩ | ⟨x, hpick, ht⟩
    · cases hp
    rcases fwdTail_inv2 ht with ⟨p, hp⟩ | ⟨vf', hset, ⟨hres, _⟩ | ⟨hres, ho, hrange, _⟩⟩
    · cases hp
    · cases hres
    · cases hres
      have hs : StepFacts n m d k vf.get x (fwdX1 old os (os + n) new ns (ns + m) n m k x) :=
        ⟨hpick, fwdX1_snake old os new ns n m k x, fun hd0 hx0 => by
          have hk0 : k = 0 := by omega
          rw [hk0, hx0]; exact fwdX1_zero old os new ns n m C.hpre0⟩
      have hpar := C.hodd1 ho
      obtain ⟨d1, d2, d3, d4⟩ := detect hF hag (by omega) hk' hs ho
        (by unfold inR; omega) (.inr rfl) (by omega) C.hn C.hm C.hdelta
      simp only [InRng]
      omega

/-- one backward iteration -/
theorem bwdStep_keeps2 {old : List α} {os : Nat} {new : List α} {ns n m : Nat} {delta : Int} {odd : Bool}
    (C : Ctx old os new ns n m delta odd) (d j : Nat) (vb0 vf vb : V) (hj : j < d + 1)
    (hB : FrontOK n m delta 0 (odd = false) ((d : Int) - 1) (validP d) vb0.get)
    (hF : FrontOK n m delta 1 (odd = true) (((d + 1 : Nat) : Int) - 1) (validP (d + 1)) vf.get)
    (hag : ∀ k', validP d k' → vb.get k' = vb0.get k')
    (hc : FCur2 n m delta 0 (odd = false) d j vb0.get vb.get) :
    match bwdStep old os new ns n m delta odd d ((d : Int) - 2 * (j : Int)) vf vb with
    | .cont a b => a = vf ∧ ((∀ k', validP d k' → b.get k' = vb0.get k') ∧
        FCur2 n m delta 0 (odd = false) d (j + 1) vb0.get b.get)
    | r => InRng os (os + n) ns (ns + m) r := by
  generalize hk : (d : Int) - 2 * (j : Int) = k
  have hk' : k = (d : Int) - 2 * (j : Int) := hk.symm
  have hD : (((d + 1 : Nat) : Int) - 1) = d := by omega
  rw [hD] at hF
  cases hr : bwdStep old os new ns n m delta odd d k vf vb with
  | panic p => trivial
  | cont a b =>
    simp only
    rcases bwdStep_tail hr with ⟨p, hp⟩ | ⟨x, hpick, ht⟩
    · cases hp
    rcases bwdTail_inv ht with ⟨p, hp⟩ | ⟨vb', hset, ⟨hres, hchk⟩ | ⟨hres, _⟩⟩
    · cases hp
    · cases hres
      have hs : StepFacts n m d k vb.get x (x + bwdAdv old os new ns n m k x) :=
        ⟨hpick, ⟨Nat.le_add_right _ _, bwdAdv_snake old os new ns n m k x⟩, fun hd0 hx0 => by
          have hk0 : k = 0 := by omega
          rw [hk0, hx0]; exact bwdAdv_zero old os new ns n m C.hsuf0⟩
      have hno : odd = false → inR delta ((d : Int) - 0) k →
          ((x + bwdAdv old os new ns n m k x : Nat) : Int) < n ∧
          ((x + bwdAdv old os new ns n m k x : Nat) : Int) - k < m := by
        intro ho hr'
        have hpar := C.hodd0 ho
        obtain ⟨b, hb, hlt⟩ := hchk ho (by unfold inR at hr'; omega)
        have hv : validP (d + 1) (-(k - delta)) := by unfold validP; unfold inR at hr'; right; omega
        obtain ⟨⟨g1, _, _⟩, _, _⟩ := hF.ent _ b hv hb
        exact no_of_check C.hdelta hlt (by omega) hr'
      have := cur_step hB hag hc (by omega) hk' hs hno (V.get_set_self hset)
        (fun k' hne => V.get_set_ne hset hne)
      exact ⟨rfl, this⟩
    · cases hres
  | found X Y a b =>
    simp only
    rcases bwdStep_tail hr with ⟨p, hp⟩ | ⟨x, hpick, ht⟩
    · cases hp
    rcases bwdTail_inv ht with ⟨p, hp⟩ | ⟨vb', hset, ⟨hres, _⟩ | ⟨hres, ho, hrange, bb, hbb, hge⟩⟩
    · cases hp
    · cases hres
    · cases hres
      have hs : StepFacts n m d k vb.get x (x + bwdAdv old os new ns n m k x) :=
        ⟨hpick, ⟨Nat.le_add_right _ _, bwdAdv_snake old os new ns n m k x⟩, fun hd0 hx0 => by
          have hk0 : k = 0 := by omega
          rw [hk0, hx0]; exact bwdAdv_zero old os new ns n m C.hsuf0⟩
      have hpar := C.hodd0 ho
      obtain ⟨d1, d2, d3, d4⟩ := detect hB hag (by omega) hk' hs ho
        (by unfold inR; omega) (.inl rfl) (by omega) C.hn C.hm C.hdelta
      have hv : validP (d + 1) (-(k - delta)) := by unfold validP; right; omega
      obtain ⟨_, _, hz⟩ := hF.ent _ bb hv hbb
      have hsn := bwdAdv_snake old os new ns n m k x
      have hcor := bwdAdv_corner old os new ns n m k x C.hpre
      have hn := C.hn
      have hm := C.hm
      have hdl := C.hdelta
      generalize bwdAdv old os new ns n m k x = adv at hge hsn hcor ⊢
      simp only [InRng]
      push_cast at hsn hcor ⊢
      by_cases hadv : adv = 0
      · subst hadv
        simp only [Nat.add_zero, Int.natCast_zero, Int.add_zero] at hge ⊢
        omega
      · have hcor' := hcor (by omega)
        omega

/-- the `for d` loop -/
theorem dLoop_InRng {old : List α} {os : Nat} {new : List α} {ns n m : Nat} {delta : Int} {odd : Bool}
    (C : Ctx old os new ns n m delta odd) :
    ∀ (j d : Nat) (vf vb : V),
      FrontOK n m delta 1 (odd = true) ((d : Int) - 1) (validP d) vf.get →
      FrontOK n m delta 0 (odd = false) ((d : Int) - 1) (validP d) vb.get →
      InRng os (os + n) ns (ns + m) (dLoop old os (os + n) new ns (ns + m) n m delta odd j d vf vb) := by
  intro j
  induction j with
  | zero => intro d vf vb _ _; trivial
  | succ j ih =>
    intro d vf vb hF hB
    unfold dLoop
    have e : ((d : Int) - 2 * ((0 : Nat) : Int)) = d := by omega
    have h1 := kLoop_ind (fwdStep old os (os + n) new ns (ns + m) n m delta odd d) (d : Int)
      (fun j a b => ((∀ k', validP d k' → a.get k' = vf.get k') ∧
        FCur2 n m delta 1 (odd = true) d j vf.get a.get) ∧ b = vb) (InRng os (os + n) ns (ns + m)) (d + 1)
      (fun j a b hj hP => by
        obtain ⟨⟨hp1, hp2⟩, hb⟩ := hP
        subst hb
        exact fwdStep_keeps2 C d j vf a b hj hF hB hp1 hp2)
      (d + 1) 0 vf vb (by omega) ⟨⟨fun _ _ => rfl, fun j' hj' => by omega⟩, rfl⟩
    rw [e] at h1
    cases hs1 : kLoop (fwdStep old os (os + n) new ns (ns + m) n m delta odd d) (d + 1) d vf vb with
    | panic p => trivial
    | found X Y a b => rw [hs1] at h1; exact h1
    | cont vf' vb' =>
      rw [hs1] at h1
      simp only at h1 ⊢
      obtain ⟨⟨_, hcur⟩, hvb⟩ := h1
      subst hvb
      have hF' := front_of_cur hcur
      have h2 := kLoop_ind (bwdStep old os new ns n m delta odd d) (d : Int)
        (fun j a b => a = vf' ∧ ((∀ k', validP d k' → b.get k' = vb'.get k') ∧
          FCur2 n m delta 0 (odd = false) d j vb'.get b.get)) (InRng os (os + n) ns (ns + m)) (d + 1)
        (fun j a b hj hP => by
          obtain ⟨ha, hp1, hp2⟩ := hP
          subst ha
          exact bwdStep_keeps2 C d j vb' a b hj hB hF' hp1 hp2)
        (d + 1) 0 vf' vb' (by omega) ⟨rfl, fun _ _ => rfl, fun j' hj' => by omega⟩
      rw [e] at h2
      cases hs2 : kLoop (bwdStep old os new ns n m delta odd d) (d + 1) d vf' vb' with
      | panic p => trivial
      | found X Y a b => rw [hs2] at h2; exact h2
      | cont vf'' vb'' =>
        rw [hs2] at h2
        simp only at h2 ⊢
        obtain ⟨hvf, _, hcur2⟩ := h2
        subst hvf
        exact ih (d + 1) vf'' vb'' hF' (front_of_cur hcur2)

/-- the frontier "before depth 0": `V[1] = 0` -/
theorem front_init {n m : Nat} {delta e : Int} {chk : Prop} (he : 0 ≤ e) {v v1 : V}
    (h : v.set 1 0 = some v1) :
    FrontOK n m delta e chk (((0 : Nat) : Int) - 1) (validP 0) v1.get := by
  have hv : ∀ k, validP 0 k → k = 1 := by intro k hk; unfold validP at hk; omega
  refine ⟨?_, ?_, ?_⟩
  · intro k hk
    rw [hv k hk]; exact ⟨0, V.get_set_self h⟩
  · intro k x hk hx
    rw [hv k hk, V.get_set_self h] at hx
    cases hx
    rw [hv k hk]
    refine ⟨⟨by omega, by omega, by omega⟩, ?_, fun _ => rfl⟩
    intro _ hr; unfold inR at hr; omega
  · intro k x x2 hk hk2
    have := hv k hk; have := hv _ hk2; omega

/-- `middle_snake_in_range`: under the call-site conditions of `conquer`, a split point answered by
    `find_middle_snake` lies in the rectangle and is neither of its two corners. -/
theorem findMiddleSnake_in_range (old : List α) (os oe : Nat) (new : List α) (ns ne : Nat) (vf vb : V)
    (hos : os < oe) (hns : ns < ne)
    (hpre : old[os]? ≠ new[ns]?) (hsuf : old[oe - 1]? ≠ new[ne - 1]?)
    {X Y : Int} {vf' vb' : V}
    (h : findMiddleSnake old os oe new ns ne vf vb = .found X Y vf' vb') :
    (os : Int) ≤ X ∧ X ≤ oe ∧ (ns : Int) ≤ Y ∧ Y ≤ ne ∧ ¬ (X = os ∧ Y = ns) ∧ ¬ (X = oe ∧ Y = ne) := by
  have e1 : os + (oe - os) = oe := by omega
  have e2 : ns + (ne - ns) = ne := by omega
  have C : Ctx old os new ns (oe - os) (ne - ns) (((oe - os : Nat) : Int) - ((ne - ns : Nat) : Int))
      ((((oe - os : Nat) : Int) - ((ne - ns : Nat) : Int)) % 2 == 1) := by
    refine ⟨rfl, by omega, by omega, ?_, ?_, ?_, ?_, hpre⟩
    · intro h; simpa using h
    · intro h
      have : ¬ ((((oe - os : Nat) : Int) - ((ne - ns : Nat) : Int)) % 2 = 1) := by simpa using h
      omega
    · exact commonPrefixLen_eq_zero old os _ new ns _ hpre
    · rw [e1, e2]; exact commonSuffixLen_eq_zero old os oe new ns ne hsuf
  unfold findMiddleSnake at h
  simp only at h
  cases hs1 : vf.set 1 0 with
  | none => rw [hs1] at h; cases h
  | some vf1 =>
    rw [hs1] at h
    simp only at h
    cases hs2 : vb.set 1 0 with
    | none => rw [hs2] at h; cases h
    | some vb1 =>
      rw [hs2] at h
      simp only at h
      split at h
      · cases h
      · split at h
        · cases h
        · have hq := dLoop_InRng C (maxD (oe - os) (ne - ns)) 0 vf1 vb1
            (front_init (by omega) hs1) (front_init (by omega) hs2)
          rw [e1, e2, h] at hq
          exact hq
end

end AmVerif.Myers
