import AmVerif.Proofs.MigrateFull
/-
  String migration, list elements (C40 at full strength), part 2: the whole run of
  `applyConversions` over map AND list conversions.

  The induction the PARTIAL theorem of Props/C40 left open: a list conversion is
  `put_object(list, i, Text)` with `i` computed on the op set BEFORE any conversion.  The
  invariant that makes the index meaningful: a conversion REPLACES the register of the element at
  position `i` and changes neither the ids nor the order of the visible elements of any list, so
  position `i` names the same element before and after every step.
-/
namespace AmVerif.Crdt
open AmVerif

/-- the strings a conversion list holds for position `i` of list `obj`, in list order -/
def convStringsL (convs : List Conv) (obj : ObjId) (i : Nat) : List Bytes :=
  convs.filterMap (fun c => if c.1 = obj ∧ c.2.1 = .inr i then some c.2.2 else none)

theorem replaceAt_getElem? {α : Type} {l : List α} {i : Nat} {x a : α} (h : l[i]? = some x) (j : Nat) :
    (l.take i ++ [a] ++ l.drop (i + 1))[j]? = if j = i then some a else l[j]? := by
  have hi : i < l.length := (List.getElem?_eq_some_iff.mp h).1
  have : l.take i ++ [a] ++ l.drop (i + 1) = l.set i a := by
    rw [List.set_eq_take_append_cons_drop, if_pos hi]; simp
  rw [this, List.getElem?_set]
  by_cases hji : j = i
  · subst hji; simp [hi]
  · have : ¬ i = j := fun h => hji h.symm
    simp [hji, this]

theorem replaceAt_ids {α : Type} {l : List (OpId × α)} {i : Nat} {el : OpId} {r r' : α}
    (h : l[i]? = some (el, r)) :
    (l.take i ++ [(el, r')] ++ l.drop (i + 1)).map (·.1) = l.map (·.1) := by
  apply List.ext_getElem?
  intro j
  rw [List.getElem?_map, List.getElem?_map, replaceAt_getElem? h]
  by_cases hji : j = i
  · subst hji; rw [if_pos rfl, h]; rfl
  · rw [if_neg hji]

/-- the conclusion of the run for the map keys -/
def MapSpec (convs : List Conv) (before after : List Op) : Prop :=
  ∀ obj k,
    (convStrings convs obj k = [] → mapRegister after obj k = mapRegister before obj k) ∧
    (∀ s, (convStrings convs obj k).getLast? = some s →
      ∃ id, mapRegister after obj k = [⟨id, .obj .text⟩] ∧
        objType after (.id id) = some .text ∧ textOf (seqElems after (.id id)) = s)

/-- the conclusion of the run for the list objects -/
def ListSpec (convs : List Conv) (before after : List Op) : Prop :=
  ∀ obj, objType before obj = some .list →
    (seqElems after obj).map (·.1) = (seqElems before obj).map (·.1) ∧
    ∀ i,
      (convStringsL convs obj i = [] → (seqElems after obj)[i]? = (seqElems before obj)[i]?) ∧
      (∀ s, (convStringsL convs obj i).getLast? = some s →
        ∃ el r id, (seqElems before obj)[i]? = some (el, r) ∧
          (seqElems after obj)[i]? = some (el, [⟨id, .obj .text⟩]) ∧
          objType after (.id id) = some .text ∧ textOf (seqElems after (.id id)) = s)

theorem convStrings_cons_inr (obj₁ : ObjId) (i₁ : Nat) (s₁ : Bytes) (rest : List Conv) (obj : ObjId) (k : Bytes) :
    convStrings ((obj₁, Sum.inr i₁, s₁) :: rest) obj k = convStrings rest obj k := by
  simp [convStrings]

theorem convStringsL_cons_inl (obj₁ : ObjId) (k₁ : Bytes) (s₁ : Bytes) (rest : List Conv) (obj : ObjId) (i : Nat) :
    convStringsL ((obj₁, Sum.inl k₁, s₁) :: rest) obj i = convStringsL rest obj i := by
  simp [convStringsL]

theorem convStringsL_cons_same (obj₁ : ObjId) (i₁ : Nat) (s₁ : Bytes) (rest : List Conv) :
    convStringsL ((obj₁, Sum.inr i₁, s₁) :: rest) obj₁ i₁ = s₁ :: convStringsL rest obj₁ i₁ := by
  simp [convStringsL]

theorem convStringsL_cons_other (obj₁ : ObjId) (i₁ : Nat) (s₁ : Bytes) (rest : List Conv) (obj : ObjId) (i : Nat)
    (hne : ¬ (obj₁ = obj ∧ i₁ = i)) :
    convStringsL ((obj₁, Sum.inr i₁, s₁) :: rest) obj i = convStringsL rest obj i := by
  simp [convStringsL, hne]

/-- **the migration run.**  Running the conversions one after the other (`put_object` +
    `splice_text` each), every list conversion addressing an existing LIST object:
    * every existing object keeps its type; every existing object that is neither a map nor a list
      (text, table) keeps its elements;
    * every map key the list names ends up holding exactly one value, a text object spelling the
      LAST string the list holds for that key; every other map register is unchanged;
    * every list keeps the ids and the order of its visible elements (hence its length); the
      element at a position the list names ends up holding exactly one value, a text object
      spelling the LAST string the list holds for that position; every other position keeps its
      register. -/
theorem applyConversions_spec (e : Enc) (base : List Op) :
    ∀ (convs : List Conv) (t t' : Tx),
      (∀ c ∈ convs, ∀ i, c.2.1 = .inr i → objType (base ++ t.pending) c.1 = some .list) →
      applyConversions e base t convs = .ok t' →
      TxInv (base ++ t.pending) t →
      TxInv (base ++ t'.pending) t' ∧
      (∀ obj' ty, objType (base ++ t.pending) obj' = some ty → objType (base ++ t'.pending) obj' = some ty) ∧
      (∀ obj' ty, objType (base ++ t.pending) obj' = some ty → ty ≠ .map → ty ≠ .list →
        seqElems (base ++ t'.pending) obj' = seqElems (base ++ t.pending) obj') ∧
      MapSpec convs (base ++ t.pending) (base ++ t'.pending) ∧
      ListSpec convs (base ++ t.pending) (base ++ t'.pending)
  | [], t, t', _, h, inv => by
    have : t' = t := by simp only [applyConversions, Except.ok.injEq] at h; exact h.symm
    subst this
    refine ⟨inv, fun _ _ h => h, fun _ _ _ _ _ => rfl, fun obj k => ⟨fun _ => rfl, fun s hs => ?_⟩,
      fun obj _ => ⟨rfl, fun i => ⟨fun _ => rfl, fun s hs => ?_⟩⟩⟩
    · simp [convStrings] at hs
    · simp [convStringsL] at hs
  | (obj₁, prop, s₁) :: rest, t, t', hlist, h, inv => by
    rw [applyConversions_cons] at h
    cases h1 : localPut e (base ++ t.pending) t obj₁ prop (.make .text) true with
    | error err => rw [h1] at h; cases h
    | ok newOps =>
      rw [h1] at h
      simp only at h
      cases hmk : newOps.head? with
      | none => rw [hmk] at h; cases h
      | some mk =>
        rw [hmk] at h
        simp only at h
        cases h2 : localSpliceText e (base ++ (t.pending ++ newOps)) { t with pending := t.pending ++ newOps }
            (.id mk.id) 0 0 s₁ with
        | error err => rw [h2] at h; cases h
        | ok more =>
          rw [h2] at h
          simp only at h
          rw [← List.append_assoc] at h2
          have hstate : base ++ t.pending ++ newOps ++ more = base ++ (t.pending ++ newOps ++ more) := by
            simp only [List.append_assoc]
          obtain ⟨hlt, _, _⟩ := inv.ctr.fresh (n := t.nextId) (Nat.le_refl _)
          cases prop with
          | inl k₁ =>
            obtain ⟨_, _, hty₁, hreg, hTty, hTtext, hothers, hseqs, htypes, inv2⟩ :=
              convert_map_step inv h1 hmk h2
            rw [hstate] at hreg hTty hTtext hothers hseqs htypes inv2
            have hlist' : ∀ c ∈ rest, ∀ i, c.2.1 = .inr i →
                objType (base ++ ({ t with pending := t.pending ++ newOps ++ more } : Tx).pending) c.1 = some .list := by
              intro c hc i hi
              have h0 := hlist c (List.mem_cons_of_mem _ hc) i hi
              show objType (base ++ (t.pending ++ newOps ++ more)) c.1 = some .list
              rw [htypes c.1 (obj_ne_next_of_objType hlt h0)]; exact h0
            obtain ⟨inv', types', texts', maps', lists'⟩ := applyConversions_spec e base rest
              { t with pending := t.pending ++ newOps ++ more } t' hlist' h inv2
            have hmid : ∀ obj' ty, objType (base ++ t.pending) obj' = some ty →
                objType (base ++ (t.pending ++ newOps ++ more)) obj' = some ty := by
              intro obj' ty hty
              rw [htypes obj' (obj_ne_next_of_objType hlt hty)]; exact hty
            refine ⟨inv', fun obj' ty hty => types' obj' ty (hmid obj' ty hty), ?_, ?_, ?_⟩
            · intro obj' ty hty hnm hnl
              have hne₁ : obj' ≠ obj₁ := by
                intro he; rw [he, hty₁] at hty; cases hty; exact hnm rfl
              rw [texts' obj' ty (hmid obj' ty hty) hnm hnl]
              exact hseqs obj' hne₁ (obj_ne_next_of_objType hlt hty)
            · intro obj k
              by_cases hsame : obj₁ = obj ∧ k₁ = k
              · obtain ⟨rfl, rfl⟩ := hsame
                have hcs : convStrings ((obj₁, Sum.inl k₁, s₁) :: rest) obj₁ k₁ = s₁ :: convStrings rest obj₁ k₁ := by
                  simp [convStrings]
                rw [hcs]
                refine ⟨fun hnil => (by cases hnil), fun s hs => ?_⟩
                cases hrest : convStrings rest obj₁ k₁ with
                | nil =>
                  rw [hrest] at hs
                  simp only [List.getLast?_singleton, Option.some.injEq] at hs
                  subst hs
                  refine ⟨t.nextId, ?_, types' _ _ hTty, ?_⟩
                  · rw [(maps' obj₁ k₁).1 hrest]; exact hreg
                  · rw [texts' _ _ hTty (by intro h; cases h) (by intro h; cases h)]; exact hTtext
                | cons x xs =>
                  rw [hrest, List.getLast?_cons_cons] at hs
                  exact (maps' obj₁ k₁).2 s (by rw [hrest]; exact hs)
              · have hcs : convStrings ((obj₁, Sum.inl k₁, s₁) :: rest) obj k = convStrings rest obj k := by
                  simp [convStrings, hsame]
                rw [hcs]
                have hne : obj ≠ obj₁ ∨ k ≠ k₁ := by
                  by_cases ho : obj₁ = obj
                  · right; intro hk; exact hsame ⟨ho, hk.symm⟩
                  · left; exact fun h => ho h.symm
                have hstep := hothers obj k hne
                refine ⟨fun hnil => (by rw [(maps' obj k).1 hnil]; exact hstep), (maps' obj k).2⟩
            · intro obj hty
              have hne₁ : obj ≠ obj₁ := by
                intro he; rw [he, hty₁] at hty; cases hty
              have hsq := hseqs obj hne₁ (obj_ne_next_of_objType hlt hty)
              obtain ⟨l1, l2⟩ := lists' obj (hmid obj _ hty)
              change (seqElems (base ++ t'.pending) obj).map (·.1) =
                (seqElems (base ++ (t.pending ++ newOps ++ more)) obj).map (·.1) at l1
              refine ⟨by rw [l1, hsq], fun i => ?_⟩
              rw [convStringsL_cons_inl]
              have := l2 i
              change (_ → (seqElems (base ++ t'.pending) obj)[i]? =
                (seqElems (base ++ (t.pending ++ newOps ++ more)) obj)[i]?) ∧
                (∀ s, _ → ∃ el r id, (seqElems (base ++ (t.pending ++ newOps ++ more)) obj)[i]? = some (el, r) ∧ _) at this
              rw [hsq] at this
              exact this
          | inr i₁ =>
            have hty₁ : objType (base ++ t.pending) obj₁ = some .list := hlist _ List.mem_cons_self i₁ rfl
            obtain ⟨⟨el₁, r₁, hget₁, hseq₁⟩, hTty, hTtext, hmaps, hseqs, htypes, inv2⟩ :=
              convert_list_step inv hty₁ h1 hmk h2
            rw [hstate] at hseq₁ hTty hTtext hmaps hseqs htypes inv2
            have hmid : ∀ obj' ty, objType (base ++ t.pending) obj' = some ty →
                objType (base ++ (t.pending ++ newOps ++ more)) obj' = some ty := by
              intro obj' ty hty
              rw [htypes obj' (obj_ne_next_of_objType hlt hty)]; exact hty
            have hlist' : ∀ c ∈ rest, ∀ i, c.2.1 = .inr i →
                objType (base ++ ({ t with pending := t.pending ++ newOps ++ more } : Tx).pending) c.1 = some .list :=
              fun c hc i hi => hmid _ _ (hlist c (List.mem_cons_of_mem _ hc) i hi)
            obtain ⟨inv', types', texts', maps', lists'⟩ := applyConversions_spec e base rest
              { t with pending := t.pending ++ newOps ++ more } t' hlist' h inv2
            refine ⟨inv', fun obj' ty hty => types' obj' ty (hmid obj' ty hty), ?_, ?_, ?_⟩
            · intro obj' ty hty hnm hnl
              have hne₁ : obj' ≠ obj₁ := by
                intro he; rw [he, hty₁] at hty; cases hty; exact hnl rfl
              rw [texts' obj' ty (hmid obj' ty hty) hnm hnl]
              exact hseqs obj' hne₁ (obj_ne_next_of_objType hlt hty)
            · intro obj k
              rw [convStrings_cons_inr]
              have := maps' obj k
              change (_ → mapRegister (base ++ t'.pending) obj k =
                mapRegister (base ++ (t.pending ++ newOps ++ more)) obj k) ∧ _ at this
              rw [hmaps obj k] at this
              exact this
            · intro obj hty
              obtain ⟨l1, l2⟩ := lists' obj (hmid obj _ hty)
              change (seqElems (base ++ t'.pending) obj).map (·.1) =
                (seqElems (base ++ (t.pending ++ newOps ++ more)) obj).map (·.1) at l1
              by_cases hobj : obj₁ = obj
              · subst hobj
                refine ⟨by rw [l1, hseq₁, replaceAt_ids hget₁], fun i => ?_⟩
                have l2i := l2 i
                change (_ → (seqElems (base ++ t'.pending) obj₁)[i]? =
                  (seqElems (base ++ (t.pending ++ newOps ++ more)) obj₁)[i]?) ∧
                  (∀ s, _ → ∃ el r id, (seqElems (base ++ (t.pending ++ newOps ++ more)) obj₁)[i]? = some (el, r) ∧ _) at l2i
                rw [hseq₁, replaceAt_getElem? hget₁] at l2i
                by_cases hi : i₁ = i
                · subst hi
                  rw [if_pos rfl] at l2i
                  rw [convStringsL_cons_same]
                  refine ⟨fun hnil => (by cases hnil), fun s hs => ?_⟩
                  cases hrest : convStringsL rest obj₁ i₁ with
                  | nil =>
                    rw [hrest] at hs
                    simp only [List.getLast?_singleton, Option.some.injEq] at hs
                    subst hs
                    refine ⟨el₁, r₁, t.nextId, hget₁, ?_, types' _ _ hTty, ?_⟩
                    · rw [l2i.1 hrest]
                    · rw [texts' _ _ hTty (by intro h; cases h) (by intro h; cases h)]; exact hTtext
                  | cons x xs =>
                    rw [hrest, List.getLast?_cons_cons] at hs
                    obtain ⟨el, r, id, g1, g2, g3, g4⟩ := l2i.2 s (by rw [hrest]; exact hs)
                    simp only [Option.some.injEq, Prod.mk.injEq] at g1
                    obtain ⟨rfl, _⟩ := g1
                    exact ⟨el₁, r₁, id, hget₁, g2, g3, g4⟩
                · have hne : i ≠ i₁ := fun h => hi h.symm
                  rw [if_neg hne] at l2i
                  rw [convStringsL_cons_other _ _ _ _ _ _ (fun h => hi h.2)]
                  exact l2i
              · have hne₁ : obj ≠ obj₁ := fun h => hobj h.symm
                have hsq := hseqs obj hne₁ (obj_ne_next_of_objType hlt hty)
                refine ⟨by rw [l1, hsq], fun i => ?_⟩
                rw [convStringsL_cons_other _ _ _ _ _ _ (fun h => hobj h.1)]
                have := l2 i
                change (_ → (seqElems (base ++ t'.pending) obj)[i]? =
                  (seqElems (base ++ (t.pending ++ newOps ++ more)) obj)[i]?) ∧
                  (∀ s, _ → ∃ el r id, (seqElems (base ++ (t.pending ++ newOps ++ more)) obj)[i]? = some (el, r) ∧ _) at this
                rw [hsq] at this
                exact this

end AmVerif.Crdt
