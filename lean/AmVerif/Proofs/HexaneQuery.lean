import AmVerif.Model.HexaneColumn
/-
  Helper lemmas for C34: the accumulator / pruning forms of the derived queries equal their list
  definitions.
-/
namespace AmVerif.Hexane
open AmVerif

variable {β : Type}

/-- exclusive prefix sum of the first `i` weights -/
def psum (wt : β → Nat) (xs : List β) (i : Nat) : Nat := ((xs.take i).map wt).sum

theorem psum_zero (wt : β → Nat) (xs : List β) : psum wt xs 0 = 0 := by simp [psum]

theorem psum_cons_succ (wt : β → Nat) (x : β) (xs : List β) (i : Nat) :
    psum wt (x :: xs) (i + 1) = wt x + psum wt xs i := by simp [psum]

/-- specification of the scanning loop: the result is the first position (counted from `idx`)
    whose running sum reaches `target`, or one past the end -/
theorem indexForPrefixLoop_spec (wt : β → Nat) (target : Nat) :
    ∀ (xs : List β) (acc idx : Nat), acc < target →
      idx < indexForPrefixLoop wt xs acc target idx ∧
      indexForPrefixLoop wt xs acc target idx ≤ idx + xs.length + 1 ∧
      (∀ j, j < indexForPrefixLoop wt xs acc target idx - idx → j ≤ xs.length → acc + psum wt xs j < target) ∧
      (indexForPrefixLoop wt xs acc target idx ≤ idx + xs.length →
        target ≤ acc + psum wt xs (indexForPrefixLoop wt xs acc target idx - idx)) := by
  intro xs
  induction xs with
  | nil =>
    intro acc idx h
    simp only [indexForPrefixLoop, List.length_nil]
    refine ⟨by omega, by omega, ?_, by omega⟩
    intro j hj hj2
    have : j = 0 := by omega
    subst this; simp [psum]; exact h
  | cons x xs ih =>
    intro acc idx h
    simp only [indexForPrefixLoop, List.length_cons]
    by_cases hx : acc + wt x ≥ target
    · simp only [hx, if_true]
      refine ⟨by omega, by omega, ?_, ?_⟩
      · intro j hj _
        have : j = 0 := by omega
        subst this; simp [psum]; exact h
      · intro _
        have : idx + 1 - idx = 1 := by omega
        rw [this, psum_cons_succ, psum_zero]; omega
    · simp only [hx, if_false]
      obtain ⟨h1, h2, h3, h4⟩ := ih (acc + wt x) (idx + 1) (by omega)
      refine ⟨by omega, by omega, ?_, ?_⟩
      · intro j hj hj2
        cases j with
        | zero => simp [psum]; exact h
        | succ j =>
          rw [psum_cons_succ]
          have := h3 j (by omega) (by omega)
          omega
      · intro hle
        have := h4 (by omega)
        have e : indexForPrefixLoop wt xs (acc + wt x) target (idx + 1) - idx
            = (indexForPrefixLoop wt xs (acc + wt x) target (idx + 1) - (idx + 1)) + 1 := by omega
        rw [e, psum_cons_succ]; omega

/-! ### run-at-a-time form -/

theorem loop_replicate (wt : β → Nat) (target : Nat) (v : β) (rest : List β) :
    ∀ (cnt acc items : Nat), acc < target → acc + wt v * cnt ≥ target →
      indexForPrefixLoop wt (List.replicate cnt v ++ rest) acc target items
        = items + (target - acc + wt v - 1) / wt v := by
  intro cnt
  induction cnt with
  | zero => intro acc items h1 h2; simp at h2; omega
  | succ n ih =>
    intro acc items h1 h2
    have hp : 0 < wt v := by
      rcases Nat.eq_zero_or_pos (wt v) with h | h
      · rw [h] at h2; simp at h2; omega
      · exact h
    rw [List.replicate_succ, List.cons_append]
    simp only [indexForPrefixLoop]
    by_cases hx : acc + wt v ≥ target
    · simp only [hx, if_true]
      have : (target - acc + wt v - 1) / wt v = 1 := by
        apply Nat.div_eq_of_lt_le
        · omega
        · have : (1 + 1) * wt v = wt v + wt v := by rw [Nat.add_mul]; omega
          omega
      rw [this]
    · simp only [hx, if_false]
      have h2' : acc + wt v + wt v * n ≥ target := by
        have : wt v * (n + 1) = wt v * n + wt v := Nat.mul_succ _ _
        omega
      rw [ih (acc + wt v) (items + 1) (by omega) h2']
      have e : target - acc + wt v - 1 = (target - (acc + wt v) + wt v - 1) + wt v := by omega
      rw [e, Nat.add_div_right _ hp]
      omega

theorem loop_replicate_skip (wt : β → Nat) (target : Nat) (v : β) (rest : List β) :
    ∀ (cnt acc items : Nat), acc + wt v * cnt < target →
      indexForPrefixLoop wt (List.replicate cnt v ++ rest) acc target items
        = indexForPrefixLoop wt rest (acc + wt v * cnt) target (items + cnt) := by
  intro cnt
  induction cnt with
  | zero => intro acc items _; simp
  | succ n ih =>
    intro acc items h
    have hm : wt v * (n + 1) = wt v * n + wt v := Nat.mul_succ _ _
    rw [List.replicate_succ, List.cons_append]
    simp only [indexForPrefixLoop]
    have hx : ¬ (acc + wt v ≥ target) := by omega
    simp only [hx, if_false]
    rw [ih (acc + wt v) (items + 1) (by omega)]
    congr 1 <;> omega

theorem indexForPrefixRuns_eq (wt : β → Nat) (target : Nat) :
    ∀ (runs : List (Nat × β)) (acc items : Nat), acc < target →
      indexForPrefixRuns wt runs acc target items = indexForPrefixLoop wt (expandRuns runs) acc target items := by
  intro runs
  induction runs with
  | nil => intro acc items _; simp [indexForPrefixRuns, expandRuns, indexForPrefixLoop]
  | cons r rs ih =>
    obtain ⟨cnt, v⟩ := r
    intro acc items h
    simp only [indexForPrefixRuns, expandRuns]
    by_cases hx : acc + wt v * cnt ≥ target
    · simp only [hx, if_true]
      rw [loop_replicate wt target v _ cnt acc items h hx]
    · simp only [hx, if_false]
      rw [loop_replicate_skip wt target v _ cnt acc items (by omega)]
      exact ih _ _ (by omega)

/-! ### min/max pruning -/

theorem findIdx_append (p : β → Bool) : ∀ (a b : List β) (i : Nat),
    findIdx p (a ++ b) i = findIdx p a i ++ findIdx p b (i + a.length) := by
  intro a
  induction a with
  | nil => intro b i; simp [findIdx]
  | cons x a ih =>
    intro b i
    simp only [List.cons_append, findIdx, List.length_cons]
    rw [ih]
    have : i + 1 + a.length = i + (a.length + 1) := by omega
    split <;> simp [this]

theorem findIdx_none (p : β → Bool) : ∀ (a : List β) (i : Nat), (∀ x ∈ a, p x = false) → findIdx p a i = [] := by
  intro a
  induction a with
  | nil => intro i _; simp [findIdx]
  | cons x a ih =>
    intro i h
    simp only [findIdx, h x List.mem_cons_self, Bool.false_eq_true, if_false]
    exact ih _ (fun y hy => h y (List.mem_cons_of_mem _ hy))

theorem chunkMinMax_none : ∀ c : List (Option Int), chunkMinMax c = none → ∀ x ∈ c, x = none := by
  intro c
  induction c with
  | nil => intro _ x hx; simp at hx
  | cons y c ih =>
    intro h x hx
    cases y with
    | none =>
      simp only [chunkMinMax] at h
      rcases List.mem_cons.mp hx with hx | hx
      · exact hx
      · exact ih h x hx
    | some v =>
      simp only [chunkMinMax] at h
      split at h <;> simp at h

theorem chunkMinMax_bounds : ∀ (c : List (Option Int)) (mn mx : Int), chunkMinMax c = some (mn, mx) →
    ∀ v, some v ∈ c → mn ≤ v ∧ v ≤ mx := by
  intro c
  induction c with
  | nil => intro mn mx h; simp [chunkMinMax] at h
  | cons y c ih =>
    intro mn mx h v hv
    cases y with
    | none =>
      simp only [chunkMinMax] at h
      rcases List.mem_cons.mp hv with hv | hv
      · simp at hv
      · exact ih mn mx h v hv
    | some w =>
      simp only [chunkMinMax] at h
      cases hc : chunkMinMax c with
      | none =>
        rw [hc] at h
        simp only [Option.some.injEq, Prod.mk.injEq] at h
        obtain ⟨h1, h2⟩ := h
        subst h1; subst h2
        rcases List.mem_cons.mp hv with hv | hv
        · simp only [Option.some.injEq] at hv; subst hv; omega
        · have := chunkMinMax_none c hc _ hv; simp at this
      | some lohi =>
        obtain ⟨lo, hi⟩ := lohi
        rw [hc] at h
        simp only [Option.some.injEq, Prod.mk.injEq] at h
        obtain ⟨h1, h2⟩ := h
        rcases List.mem_cons.mp hv with hv | hv
        · simp only [Option.some.injEq] at hv; subst hv; omega
        · have := ih lo hi hc v hv; omega

def inRangeP (lo hi : Int) : Option Int → Bool
  | some v => decide (lo ≤ v ∧ v < hi)
  | none => false

theorem findPruned_eq (lo hi : Int) : ∀ (cs : List (List (Option Int))) (base : Nat),
    findPruned cs lo hi base = findIdx (inRangeP lo hi) cs.flatten base := by
  intro cs
  induction cs with
  | nil => intro base; simp [findPruned, findIdx]
  | cons c cs ih =>
    intro base
    simp only [findPruned, List.flatten_cons]
    rw [findIdx_append, ih]
    congr 1
    cases hc : chunkMinMax c with
    | none =>
      simp only
      symm
      apply findIdx_none
      intro x hx
      rw [chunkMinMax_none c hc x hx]; rfl
    | some mm =>
      obtain ⟨mn, mx⟩ := mm
      simp only
      by_cases hp : mx < lo ∨ hi ≤ mn
      · simp only [hp, if_true]
        symm
        apply findIdx_none
        intro x hx
        cases x with
        | none => rfl
        | some v =>
          have := chunkMinMax_bounds c mn mx hc v hx
          simp only [inRangeP, decide_eq_false_iff_not]
          omega
      · simp only [hp, if_false]
        rfl

end AmVerif.Hexane
