import AmVerif.Proofs.StoreLocalEq
/-
  §4 of the local = remote argument: `add_succ_with_undo` (the `delete / expose / survivor` walk over
  the predecessor rows, from the last to the first) leaves exactly the last visible row of the
  register marked `top`, when the op names the visible rows of its register.
-/
namespace AmVerif.Crdt
open AmVerif

variable (w : Op → Nat) (N : Op)

def anyDel (l : Store) : Bool := l.any (fun y => N.pred.contains y.op.id && (incFor N y.op).isNone)
def anySurv (l : Store) : Bool := l.any (fun y => N.pred.contains y.op.id && (incFor N y.op).isSome)

theorem addSuccRow_op (pos : Nat) (st : AddSt) (x : Row) : (addSuccRow w N pos st x).1.op = x.op := by
  have := addSuccRow_core w N pos st x
  unfold Row.core at this
  simp only [Prod.mk.injEq] at this
  exact this.1

theorem addSuccRow_succ (pos : Nat) (st : AddSt) (x : Row) :
    (addSuccRow w N pos st x).1.succ = insertSucc N.id (incFor N x.op) x.succ := by
  have := addSuccRow_core w N pos st x
  unfold Row.core at this
  simp only [Prod.mk.injEq] at this
  exact this.2

theorem addSuccRow_isVisible (pos : Nat) (st : AddSt) (x : Row) :
    (addSuccRow w N pos st x).1.isVisible = (x.isVisible && (incFor N x.op).isSome) :=
  isVisible_insertSucc x N.id (incFor N x.op) _ (addSuccRow_op w N pos st x) (addSuccRow_succ w N pos st x)
    incFor_isSome_counter

theorem addSuccRow_top (pos : Nat) (st : AddSt) (x : Row) :
    (addSuccRow w N pos st x).1.top =
      if (incFor N x.op).isNone then false
      else if st.delete && !st.expose && !st.survivor then true else x.top := by
  unfold addSuccRow
  dsimp only
  split
  · rfl
  · split <;> rfl

theorem addSuccRow_vis (pos : Nat) (st : AddSt) (x : Row) :
    (addSuccRow w N pos st x).1.vis = if (incFor N x.op).isNone then false else x.vis := by
  unfold addSuccRow
  dsimp only
  split
  · rfl
  · split <;> rfl

theorem addSuccRow_widthOk (pos : Nat) (st : AddSt) (x : Row) (h : widthOk w x) :
    widthOk w (addSuccRow w N pos st x).1 := by
  unfold widthOk at *
  unfold addSuccRow
  dsimp only
  split
  · simp
  · split
    · simp
    · simpa using h

theorem addSuccRow_state (pos : Nat) (st : AddSt) (x : Row) :
    (addSuccRow w N pos st x).2.1.delete = (st.delete || (incFor N x.op).isNone) ∧
    ((addSuccRow w N pos st x).2.1.expose || (addSuccRow w N pos st x).2.1.survivor) =
      ((st.expose || st.survivor) || (incFor N x.op).isSome) := by
  unfold addSuccRow
  dsimp only
  cases h : incFor N x.op with
  | none => simp
  | some n =>
    simp only [Option.isNone_some, Bool.false_eq_true, if_false, Option.isSome_some, Bool.or_false,
      Bool.or_true]
    split <;> simp

theorem addSuccRev_state : ∀ (off : Nat) (l : Store),
    (addSuccRev w N off l).2.1.delete = anyDel N l ∧
    ((addSuccRev w N off l).2.1.expose || (addSuccRev w N off l).2.1.survivor) = anySurv N l
  | _, [] => ⟨rfl, rfl⟩
  | off, x :: xs => by
    obtain ⟨ih1, ih2⟩ := addSuccRev_state (off + 1) xs
    simp only [addSuccRev, anyDel, anySurv, List.any_cons]
    split
    · rename_i h
      obtain ⟨h1, h2⟩ := addSuccRow_state w N off (addSuccRev w N (off + 1) xs).2.1 x
      rw [h1, h2, ih1, ih2, h]
      simp only [Bool.true_and, anyDel, anySurv]
      exact ⟨Bool.or_comm _ _, Bool.or_comm _ _⟩
    · rename_i h
      have h' : N.pred.contains x.op.id = false := by simpa using h
      rw [h']
      simp only [Bool.false_and, Bool.false_or]
      exact ⟨ih1, ih2⟩

/-- the rows behind a position, after the walk: same ops, visibility `vis2` -/
theorem addSuccRev_any (hnp : N.pred.contains N.id = false) (g : Op → Bool) : ∀ (off : Nat) (l : Store),
    (addSuccRev w N off l).1.any (fun y => g y.op && y.isVisible) = l.any (fun y => g y.op && vis2 N y)
  | _, [] => rfl
  | off, x :: xs => by
    have ih := addSuccRev_any hnp g (off + 1) xs
    simp only [addSuccRev]
    split
    · rename_i h
      have hxold : (x.op.id == N.id) = false := by
        cases hc : (x.op.id == N.id)
        · rfl
        · have : x.op.id = N.id := by simpa using hc
          rw [this, hnp] at h; cases h
      simp only [List.any_cons, addSuccRow_op, addSuccRow_isVisible, ih]
      congr 2
      unfold vis2 live deletes
      rw [hxold, h]
      cases incFor N x.op <;> simp
    · rename_i h
      have h' : N.pred.contains x.op.id = false := by simpa using h
      simp only [List.any_cons, ih]
      congr 2
      unfold vis2 live deletes
      rw [h']
      split <;> simp

theorem addSuccRev_vis_ok (hnp : N.pred.contains N.id = false) : ∀ (off : Nat) (l : Store),
    (∀ y ∈ l, y.vis = y.isVisible) → ∀ y ∈ (addSuccRev w N off l).1, y.vis = y.isVisible
  | _, [], _ => fun _ h => by cases h
  | off, x :: xs, h => by
    have ih := addSuccRev_vis_ok hnp (off + 1) xs (fun y hy => h y (List.mem_cons_of_mem _ hy))
    have hx := h x List.mem_cons_self
    simp only [addSuccRev]
    split
    · intro y hy
      rcases List.mem_cons.mp hy with rfl | hy
      · rw [addSuccRow_vis, addSuccRow_isVisible, hx]
        cases incFor N x.op <;> simp
      · exact ih y hy
    · intro y hy
      rcases List.mem_cons.mp hy with rfl | hy
      · exact hx
      · exact ih y hy

theorem addSuccRev_widthOk : ∀ (off : Nat) (l : Store),
    (∀ y ∈ l, widthOk w y) → ∀ y ∈ (addSuccRev w N off l).1, widthOk w y
  | _, [], _ => fun _ h => by cases h
  | off, x :: xs, h => by
    have ih := addSuccRev_widthOk (off + 1) xs (fun y hy => h y (List.mem_cons_of_mem _ hy))
    have hx := h x List.mem_cons_self
    simp only [addSuccRev]
    split
    · intro y hy
      rcases List.mem_cons.mp hy with rfl | hy
      · exact addSuccRow_widthOk w N _ _ x hx
      · exact ih y hy
    · intro y hy
      rcases List.mem_cons.mp hy with rfl | hy
      · exact hx
      · exact ih y hy

theorem incFor_some_isInc {y : Op} (h : (incFor N y).isSome = true) : N.isInc = true ∧ N.isDel = false := by
  rw [incFor_isSome] at h
  simp only [Bool.and_eq_true] at h
  refine ⟨h.1, ?_⟩
  have := h.1
  unfold Op.isInc at this
  unfold Op.isDel
  revert this
  cases N.action <;> simp

/-- what the walk needs to know about the store it runs on (`s1`: the new row already placed) -/
structure LocalCtx (s1 : Store) : Prop where
  noSelf : N.pred.contains N.id = false
  /-- the predecessors are visible rows of the op's register -/
  named : ∀ y ∈ s1, N.pred.contains y.op.id = true →
    (y.op.obj == N.obj && y.op.regKey == N.regKey) = true ∧ y.isVisible = true
  /-- the `top` column of the old rows is exact -/
  oldTop : ∀ P x Q, s1 = P ++ x :: Q → (x.op.id == N.id) = false →
    x.top = (x.isVisible && !((Q.filter (fun y => !(y.op.id == N.id))).any (fun y => sameReg x y && y.isVisible)))
  /-- the new row: `top` and visible unless an increment, in the register, the last row of the register -/
  newRow : ∀ P x Q, s1 = P ++ x :: Q → (x.op.id == N.id) = true →
    x.top = !N.isInc ∧ x.isVisible = !N.isInc ∧ (x.op.obj == N.obj && x.op.regKey == N.regKey) = true ∧
      ∀ y ∈ Q, (y.op.obj == N.obj && y.op.regKey == N.regKey) = false
  /-- a delete has no row -/
  delNoRow : N.isDel = true → ∀ y ∈ s1, (y.op.id == N.id) = false
  /-- among the visible old rows of the register the named ones come first … -/
  prefixNamed : ∀ P x Q, s1 = P ++ x :: Q → ∀ y ∈ Q,
    (x.op.obj == N.obj && x.op.regKey == N.regKey) = true → (y.op.obj == N.obj && y.op.regKey == N.regKey) = true →
    (x.op.id == N.id) = false → (y.op.id == N.id) = false → x.isVisible = true → y.isVisible = true →
    N.pred.contains y.op.id = true → N.pred.contains x.op.id = true
  /-- … and all of them are named unless the op is a delete -/
  allNamed : N.isDel = false → ∀ y ∈ s1, (y.op.id == N.id) = false →
    (y.op.obj == N.obj && y.op.regKey == N.regKey) = true → y.isVisible = true → N.pred.contains y.op.id = true

/-- the row at one position after the walk: `top` says "visible and nothing visible of the register behind" -/
theorem head_ok {s1 : Store} (hc : LocalCtx N s1) {P Q : Store} {x : Row} (hl : s1 = P ++ x :: Q)
    (st : AddSt) (hst1 : st.delete = anyDel N Q) (hst2 : (st.expose || st.survivor) = anySurv N Q)
    (pos : Nat) :
    let x' := if N.pred.contains x.op.id then (addSuccRow w N pos st x).1 else x
    x'.top = (x'.isVisible && !(Q.any (fun y => sameReg x y && vis2 N y))) := by
  intro x'
  have hxs1 : x ∈ s1 := by rw [hl]; simp
  have hQs1 : ∀ y ∈ Q, y ∈ s1 := fun y hy => by rw [hl]; simp [hy]
  have hnamedOld : ∀ y ∈ s1, N.pred.contains y.op.id = true → (y.op.id == N.id) = false := by
    intro y _ hy
    cases hyn : (y.op.id == N.id)
    · rfl
    · have : y.op.id = N.id := by simpa using hyn
      rw [this, hc.noSelf] at hy; cases hy
  by_cases hreg : (x.op.obj == N.obj && x.op.regKey == N.regKey) = true
  · have hsame : ∀ y : Row, sameReg x y = (y.op.obj == N.obj && y.op.regKey == N.regKey) := by
      intro y
      simp only [Bool.and_eq_true, beq_iff_eq] at hreg
      unfold sameReg; rw [hreg.1, hreg.2]
    cases hxnew : (x.op.id == N.id)
    · -- an old row of the register
      have holdtop := hc.oldTop P x Q hl hxnew
      rw [List.any_filter] at holdtop
      cases hnamed : N.pred.contains x.op.id
      · -- not named: untouched
        have hx' : x' = x := by simp only [x', hnamed, Bool.false_eq_true, if_false]
        rw [hx', holdtop]
        cases hxv : x.isVisible
        · simp
        · simp only [Bool.true_and]
          congr 1
          have hdel : N.isDel = true := by
            cases hd : N.isDel
            · rw [hc.allNamed hd x hxs1 hxnew hreg hxv] at hnamed; cases hnamed
            · rfl
          apply any_congr_mem
          intro y hy
          rw [hsame y, hc.delNoRow hdel y (hQs1 y hy)]
          simp only [Bool.not_false, Bool.true_and]
          cases hyreg : (y.op.obj == N.obj && y.op.regKey == N.regKey)
          · simp
          · simp only [Bool.true_and]
            unfold vis2 live deletes
            rw [hc.delNoRow hdel y (hQs1 y hy)]
            simp only [Bool.false_eq_true, if_false]
            cases hyv : y.isVisible
            · simp
            · have : N.pred.contains y.op.id = false := by
                cases hyn : N.pred.contains y.op.id
                · rfl
                · rw [hc.prefixNamed P x Q hl y hy hreg hyreg hxnew (hc.delNoRow hdel y (hQs1 y hy)) hxv hyv hyn]
                    at hnamed
                  cases hnamed
              rw [this]; simp
      · -- named
        have hx' : x' = (addSuccRow w N pos st x).1 := by simp only [x', hnamed, if_true]
        have hxv := (hc.named x hxs1 hnamed).2
        rw [hx', addSuccRow_top, addSuccRow_isVisible, hxv]
        cases hinc : incFor N x.op with
        | none => simp
        | some n =>
          simp only [Option.isNone_some, Bool.false_eq_true, if_false, Option.isSome_some, Bool.true_and]
          obtain ⟨hNinc, hNdel⟩ := incFor_some_isInc N (y := x.op) (by rw [hinc]; rfl)
          -- the visible rows of the register behind `x` after the op: the surviving named rows
          have hA : Q.any (fun y => sameReg x y && vis2 N y) = anySurv N Q := by
            unfold anySurv
            apply any_congr_mem
            intro y hy
            rw [hsame y]
            cases hyn : N.pred.contains y.op.id
            · -- an unnamed row of the register is invisible, or the (invisible) row of the increment
              simp only [Bool.false_and]
              cases hyreg : (y.op.obj == N.obj && y.op.regKey == N.regKey)
              · simp
              · simp only [Bool.true_and]
                cases hynew : (y.op.id == N.id)
                · unfold vis2 live deletes
                  rw [hynew, hyn]
                  simp only [Bool.false_eq_true, if_false, Bool.false_and, Bool.not_false, Bool.and_true]
                  cases hyv : y.isVisible
                  · rfl
                  · rw [hc.allNamed hNdel y (hQs1 y hy) hynew hyreg hyv] at hyn; cases hyn
                · unfold vis2
                  rw [hynew]
                  simp only [if_true]
                  obtain ⟨A, B, hQ⟩ := List.append_of_mem hy
                  have := (hc.newRow (P ++ x :: A) y B (by rw [hl, hQ]; simp) hynew).2.1
                  rw [this, hNinc]; rfl
            · obtain ⟨hyreg, hyv⟩ := hc.named y (hQs1 y hy) hyn
              have hyold := hnamedOld y (hQs1 y hy) hyn
              rw [hyreg]
              unfold vis2 live deletes
              rw [hyold, hyn, hyv]
              cases incFor N y.op <;> simp
          rw [hA]
          cases hsurv : anySurv N Q
          · -- no surviving row behind `x`
            rw [hsurv] at hst2
            have hes : st.expose = false ∧ st.survivor = false := by
              cases h1 : st.expose <;> cases h2 : st.survivor <;> simp_all
            rw [hes.1, hes.2, hst1]
            cases hdel : anyDel N Q
            · -- nothing behind `x` is named at all: `x` was and stays the last visible row
              simp only [Bool.false_and, Bool.false_eq_true, if_false, Bool.not_false]
              rw [holdtop, hxv]
              simp only [Bool.true_and, Bool.not_eq_eq_eq_not, Bool.not_true]
              rw [List.any_eq_false]
              intro y hy hcon
              simp only [Bool.and_eq_true, Bool.not_eq_eq_eq_not, Bool.not_true] at hcon
              obtain ⟨hynew, hysame, hyv⟩ := hcon
              rw [hsame y] at hysame
              have hyn := hc.allNamed hNdel y (hQs1 y hy) hynew hysame hyv
              cases hyi : (incFor N y.op).isNone
              · have : anySurv N Q = true := by
                  unfold anySurv
                  rw [List.any_eq_true]
                  refine ⟨y, hy, ?_⟩
                  rw [hyn]
                  cases h : incFor N y.op <;> simp_all
                rw [this] at hsurv; cases hsurv
              · have : anyDel N Q = true := by
                  unfold anyDel
                  rw [List.any_eq_true]
                  exact ⟨y, hy, by rw [hyn, hyi]; rfl⟩
                rw [this] at hdel; cases hdel
            · simp
          · -- a surviving row behind `x`: `x` is not the last visible row, before or after
            rw [hsurv] at hst2
            have : (st.delete && !st.expose && !st.survivor) = false := by
              cases h1 : st.expose <;> cases h2 : st.survivor <;> simp_all
            rw [this]
            simp only [Bool.false_eq_true, if_false, Bool.not_true]
            rw [holdtop, hxv]
            simp only [Bool.true_and, Bool.not_eq_eq_eq_not, Bool.not_false]
            unfold anySurv at hsurv
            rw [List.any_eq_true] at hsurv ⊢
            obtain ⟨y, hy, hys⟩ := hsurv
            simp only [Bool.and_eq_true] at hys
            obtain ⟨hyreg, hyv⟩ := hc.named y (hQs1 y hy) hys.1
            refine ⟨y, hy, ?_⟩
            rw [hnamedOld y (hQs1 y hy) hys.1, hsame y, hyreg, hyv]
            rfl
    · -- the new row
      have hnn : N.pred.contains x.op.id = false := by
        have : x.op.id = N.id := by simpa using hxnew
        rw [this]; exact hc.noSelf
      have hx' : x' = x := by simp only [x', hnn, Bool.false_eq_true, if_false]
      obtain ⟨h1, h2, _, h4⟩ := hc.newRow P x Q hl hxnew
      rw [hx', h1, h2]
      have : Q.any (fun y => sameReg x y && vis2 N y) = false := by
        rw [List.any_eq_false]
        intro y hy
        rw [hsame y, h4 y hy]; simp
      rw [this]; simp
  · -- a row of another register: nothing changes for it
    have hreg' : (x.op.obj == N.obj && x.op.regKey == N.regKey) = false := by simpa using hreg
    have hnn : N.pred.contains x.op.id = false := by
      cases h : N.pred.contains x.op.id
      · rfl
      · rw [(hc.named x hxs1 h).1] at hreg'; cases hreg'
    have hxold : (x.op.id == N.id) = false := by
      cases h : (x.op.id == N.id)
      · rfl
      · rw [(hc.newRow P x Q hl h).2.2.1] at hreg'; cases hreg'
    have hx' : x' = x := by simp only [x', hnn, Bool.false_eq_true, if_false]
    rw [hx', hc.oldTop P x Q hl hxold, List.any_filter]
    congr 2
    apply any_congr_mem
    intro y hy
    cases hsr : sameReg x y
    · simp
    · have hyreg : (y.op.obj == N.obj && y.op.regKey == N.regKey) = false := by
        unfold sameReg at hsr
        simp only [Bool.and_eq_true, beq_iff_eq] at hsr
        rw [hsr.1, hsr.2]; exact hreg'
      have hyold : (y.op.id == N.id) = false := by
        cases h : (y.op.id == N.id)
        · rfl
        · obtain ⟨A, B, hQ⟩ := List.append_of_mem hy
          rw [(hc.newRow (P ++ x :: A) y B (by rw [hl, hQ]; simp) h).2.2.1] at hyreg; cases hyreg
      have hynn : N.pred.contains y.op.id = false := by
        cases h : N.pred.contains y.op.id
        · rfl
        · rw [(hc.named y (hQs1 y hy) h).1] at hyreg; cases hyreg
      unfold vis2 live deletes
      rw [hyold, hynn]
      simp

/-- **the walk leaves the `top` column exact** -/
theorem addSuccRev_topAny {s1 : Store} (hc : LocalCtx N s1) : ∀ (l P : Store) (off : Nat), s1 = P ++ l →
    (addSuccRev w N off l).1.map (·.top) = topAny (addSuccRev w N off l).1
  | [], _, _, _ => rfl
  | x :: Q, P, off, hl => by
    have ih := addSuccRev_topAny hc Q (P ++ [x]) (off + 1) (by rw [hl]; simp)
    obtain ⟨hst1, hst2⟩ := addSuccRev_state w N (off + 1) Q
    have hhead := head_ok w N hc hl (addSuccRev w N (off + 1) Q).2.1 hst1 hst2 off
    have hany : ∀ (x' : Row), x'.op = x.op →
        (addSuccRev w N (off + 1) Q).1.any (fun y => sameReg x' y && y.isVisible) =
          Q.any (fun y => sameReg x y && vis2 N y) := by
      intro x' hx'
      have := addSuccRev_any w N hc.noSelf (fun o => o.obj == x.op.obj && o.regKey == x.op.regKey) (off + 1) Q
      unfold sameReg
      rw [hx']
      exact this
    simp only [addSuccRev]
    split
    · rename_i hn
      simp only [hn, if_true] at hhead
      simp only [List.map_cons, topAny, ih, hany _ (addSuccRow_op w N off _ x)]
      rw [hhead]
    · rename_i hn
      have hn' : N.pred.contains x.op.id = false := by simpa using hn
      simp only [hn', Bool.false_eq_true, if_false] at hhead
      simp only [List.map_cons, topAny, ih, hany x rfl]
      rw [hhead]

end AmVerif.Crdt
