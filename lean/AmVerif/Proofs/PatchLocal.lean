import AmVerif.Model.PatchDiff
/-
  Helper lemmas for C09 / C37: the patch of a local operation (`finalize_op`) and basic facts about
  the applier.
-/
namespace AmVerif.Crdt
open AmVerif

theorem finalizeOp_sound (ops : List PVal) (a : LocalAct)
    (hpre : ∀ n, a = .inc n → (ops.filter PVal.isCounter).length ≥ 1) :
    applyEvent (localBefore ops) (finalizeOp ops a) = .ok (localAfter ops a) := by
  cases a with
  | put v =>
    cases hl : ops.getLast? with
    | none => simp [finalizeOp, hl, applyEvent, localAfter]
    | some w =>
      by_cases heq : (w == v && v.isScalar) = true
      · have hwv : w = v := eq_of_beq ((Bool.and_eq_true _ _).mp heq).1
        have hsc : v.isScalar = true := ((Bool.and_eq_true _ _).mp heq).2
        by_cases hlen : ops.length > 1
        · -- a conflict is resolved: the winner is put again without the flag
          simp [finalizeOp, hl, heq, hlen, applyEvent, localAfter, hwv, hsc]
        · simp [finalizeOp, hl, heq, applyEvent, localBefore, localAfter, hwv, hlen, hsc]
      · simp [finalizeOp, hl, heq, applyEvent, localAfter]
  | del =>
    by_cases he : ops.isEmpty = true
    · have : ops = [] := List.isEmpty_iff.mp he
      simp [finalizeOp, this, applyEvent, localBefore, localAfter]
    · simp [finalizeOp, he, applyEvent, localAfter]
  | inc n =>
    have hge := hpre n rfl
    by_cases hlen : ops.length > 1
    · -- every counter survives, the last one wins
      cases hc : (ops.filter PVal.isCounter).getLast? with
      | none =>
        have : ops.filter PVal.isCounter = [] := List.getLast?_eq_none_iff.mp hc
        rw [this] at hge; simp at hge
      | some c =>
        simp [finalizeOp, hlen, hc, applyEvent, localAfter, List.getLast?_map]
    · -- a single value, which is the counter
      have hops : ∃ c, ops = [.scalar (.counter c)] := by
        cases ops with
        | nil => simp at hge
        | cons v rest =>
          cases rest with
          | nil =>
            by_cases hv : v.isCounter = true
            · cases v with
              | obj t => simp [PVal.isCounter] at hv
              | scalar s => cases s <;> simp [PVal.isCounter] at hv; exact ⟨_, rfl⟩
            · simp [List.filter_cons, hv] at hge
          | cons v2 r => simp at hlen
      obtain ⟨c, hops⟩ := hops
      subst hops
      simp [finalizeOp, applyEvent, localBefore, localAfter, PVal.isCounter, PVal.bump, List.filter_cons]

/-! ### the applier -/

/-- `hydrate::Map::apply` has no panicking path -/
theorem applyMap_no_panic (es : List (Bytes × Bool × HView)) (a : PatchAction) :
    (applyMap es a).isPanic = false := by
  cases a with
  | putMap k v c => simp [applyMap, Outcome.isPanic]
  | deleteMap k => simp [applyMap, Outcome.isPanic]
  | increment p n =>
    cases p with
    | idx i => simp [applyMap, Outcome.isPanic]
    | key k =>
      simp only [applyMap]
      cases hg : mapGet k es with
      | none => simp [Outcome.isPanic]
      | some x =>
        simp only [incrementEntry]
        cases hv : x.2 with
        | scalar s => cases s <;> simp [Outcome.isPanic]
        | map _ => simp [Outcome.isPanic]
        | list _ => simp [Outcome.isPanic]
        | text _ => simp [Outcome.isPanic]
  | conflict p =>
    cases p with
    | idx i => simp [applyMap, Outcome.isPanic]
    | key k =>
      simp only [applyMap]
      cases hg : mapGet k es <;> simp [Outcome.isPanic]
  | putSeq _ _ _ => simp [applyMap, Outcome.isPanic]
  | insert _ _ => simp [applyMap, Outcome.isPanic]
  | spliceText _ _ => simp [applyMap, Outcome.isPanic]
  | deleteSeq _ _ => simp [applyMap, Outcome.isPanic]
  | mark => simp [applyMap, Outcome.isPanic]

end AmVerif.Crdt
