import AmVerif.Model.PatchDiff
/-
  Helper lemmas for C09 / C37: the patch of a local operation (`finalize_op`) and basic facts about
  the applier.
-/
namespace AmVerif.Crdt
open AmVerif

/-- finding D16: a put of the winner's own value on a conflicted register -/
def d16Class (ops : List PVal) (a : LocalAct) : Bool :=
  match a with
  | .put v => decide (ops.length > 1) && ops.getLast? == some v && v.isScalar
  | _ => false

/-- finding D17: an increment on a register holding more than one counter -/
def d17Class (ops : List PVal) (a : LocalAct) : Bool :=
  match a with
  | .inc _ => decide ((ops.filter PVal.isCounter).length > 1)
  | _ => false

theorem find_counter_of_filter {ops : List PVal} {x : PVal} (h : ops.filter PVal.isCounter = [x]) :
    ops.find? PVal.isCounter = some x := by
  induction ops with
  | nil => simp at h
  | cons v rest ih =>
    by_cases hv : v.isCounter = true
    · simp [List.filter_cons, hv] at h
      rw [List.find?_cons]
      have hxv : x.isCounter = true := by rw [← h.1]; exact hv
      simp [hv, ← h.1]
    · simp [List.filter_cons, hv] at h
      rw [List.find?_cons]
      simp [hv, ih h]

theorem finalizeOp_sound (ops : List PVal) (a : LocalAct)
    (hpre : ∀ n, a = .inc n → (ops.filter PVal.isCounter).length ≥ 1)
    (h16 : d16Class ops a = false) (h17 : d17Class ops a = false) :
    applyEvent (localBefore ops) (finalizeOp ops a) = .ok (localAfter ops a) := by
  cases a with
  | put v =>
    cases hl : ops.getLast? with
    | none => simp [finalizeOp, hl, applyEvent, localAfter]
    | some w =>
      by_cases heq : (w == v && v.isScalar) = true
      · -- the winner's own value: allowed only when the register is not conflicted
        have hwv : w = v := eq_of_beq ((Bool.and_eq_true _ _).mp heq).1
        have hsc : v.isScalar = true := ((Bool.and_eq_true _ _).mp heq).2
        have hlen : ¬ ops.length > 1 := by
          intro hgt
          simp [d16Class, hgt, hl, hwv, hsc] at h16
        simp [finalizeOp, hl, heq, applyEvent, localBefore, localAfter, hwv, hlen, hsc]
      · simp [finalizeOp, hl, heq, applyEvent, localAfter]
  | del =>
    by_cases he : ops.isEmpty = true
    · have : ops = [] := List.isEmpty_iff.mp he
      simp [finalizeOp, this, applyEvent, localBefore, localAfter]
    · simp [finalizeOp, he, applyEvent, localAfter]
  | inc n =>
    have hge := hpre n rfl
    have hone : (ops.filter PVal.isCounter).length = 1 := by
      have : ¬ (ops.filter PVal.isCounter).length > 1 := by
        intro h; simp [d17Class, h] at h17
      omega
    obtain ⟨x, hx⟩ := List.length_eq_one_iff.mp hone
    have hxc : x.isCounter = true := by
      have : x ∈ ops.filter PVal.isCounter := by rw [hx]; simp
      exact (List.mem_filter.mp this).2
    obtain ⟨c, hc⟩ : ∃ c, x = .scalar (.counter c) := by
      cases x with
      | obj t => simp [PVal.isCounter] at hxc
      | scalar s => cases s <;> simp [PVal.isCounter] at hxc; exact ⟨_, rfl⟩
    subst hc
    have hafter : localAfter ops (.inc n) = some (false, .scalar (.counter (c + n))) := by
      simp [localAfter, hx, PVal.bump]
    rw [hafter]
    by_cases hlen : ops.length > 1
    · simp [finalizeOp, hlen, find_counter_of_filter hx, applyEvent, PVal.bump]
    · -- a single value, which is the counter
      have hops : ops = [.scalar (.counter c)] := by
        cases ops with
        | nil => simp at hx
        | cons v rest =>
          cases rest with
          | nil =>
            by_cases hv : v.isCounter = true
            · simp [List.filter_cons, hv] at hx; simp [hx]
            · simp [List.filter_cons, hv] at hx
          | cons v2 r => simp at hlen
      simp [finalizeOp, hops, applyEvent, localBefore]

/-! ### the applier -/

/-- `hydrate::Map::apply` has no panicking path -/
theorem applyMap_no_panic (es : List (Bytes × Bool × HView)) (a : PatchAction) :
    (applyMap es a).isPanic = false := by
  cases a with
  | putMap k v c => simp [applyMap, Outcome.isPanic]
  | deleteMap k => simp [applyMap, Outcome.isPanic]
  | increment p n =>
    cases p with
    | idx i => simp [applyMap, Outcome.isPanic]
    | key k =>
      simp only [applyMap]
      cases hg : mapGet k es with
      | none => simp [Outcome.isPanic]
      | some x =>
        simp only [incrementEntry]
        cases hv : x.2 with
        | scalar s => cases s <;> simp [Outcome.isPanic]
        | map _ => simp [Outcome.isPanic]
        | list _ => simp [Outcome.isPanic]
        | text _ => simp [Outcome.isPanic]
  | conflict p =>
    cases p with
    | idx i => simp [applyMap, Outcome.isPanic]
    | key k =>
      simp only [applyMap]
      cases hg : mapGet k es <;> simp [Outcome.isPanic]
  | putSeq _ _ _ => simp [applyMap, Outcome.isPanic]
  | insert _ _ => simp [applyMap, Outcome.isPanic]
  | spliceText _ _ => simp [applyMap, Outcome.isPanic]
  | deleteSeq _ _ => simp [applyMap, Outcome.isPanic]
  | mark => simp [applyMap, Outcome.isPanic]

end AmVerif.Crdt
