import AmVerif.Proofs.StoreIndex
/-
  The `top` index column, part 1: in a store in canonical order the rows of one register are
  contiguous, so `IndexBuilder`'s run-based definition (`topCol`: last visible row of every RUN of
  rows of one register) is the set-based one (`topAny`: visible, and no later visible row of the same
  register anywhere behind).
-/
namespace AmVerif.Crdt
open AmVerif

/-- `y` belongs to the register of `x` -/
def sameReg (x y : Row) : Bool := y.op.obj == x.op.obj && y.op.regKey == x.op.regKey

/-- visible, and no visible row of the same register anywhere behind -/
def topAny : Store → List Bool
  | [] => []
  | x :: xs => (x.isVisible && !(xs.any (fun y => sameReg x y && y.isVisible))) :: topAny xs

/-- once the rows of a register end, none follows -/
def NoReturn (l : List Op) : Prop :=
  ∀ (A : List Op) (x : Op) (B : List Op) (z : Op) (C : List Op), l = A ++ x :: (B ++ z :: C) →
    z.obj = x.obj → z.regKey = x.regKey → ∀ b ∈ B, b.obj = x.obj ∧ b.regKey = x.regKey

theorem NoReturn.tail {x : Op} {l : List Op} (h : NoReturn (x :: l)) : NoReturn l := by
  intro A a B z C hl
  exact h (x :: A) a B z C (by rw [hl]; rfl)

theorem laterVisible_eq_any (obj : ObjId) (k : Key) :
    ∀ (xs : Store), (∀ (B : Store) (z : Row) (C : Store), xs = B ++ z :: C → z.op.obj = obj → z.op.regKey = k →
      ∀ b ∈ B, b.op.obj = obj ∧ b.op.regKey = k) →
    laterVisible obj k xs = xs.any (fun y => (y.op.obj == obj && y.op.regKey == k) && y.isVisible)
  | [], _ => rfl
  | y :: ys, h => by
    have ih := laterVisible_eq_any obj k ys (fun B z C hl => by
      intro ho hk b hb
      exact h (y :: B) z C (by rw [hl]; rfl) ho hk b (List.mem_cons_of_mem _ hb))
    simp only [laterVisible, List.any_cons]
    by_cases hy : (y.op.obj == obj && y.op.regKey == k) = true
    · rw [if_pos hy, hy, ih]; simp
    · rw [if_neg hy]
      have hy' : (y.op.obj == obj && y.op.regKey == k) = false := by simpa using hy
      rw [hy', Bool.false_and, Bool.false_or]
      symm
      rw [List.any_eq_false]
      intro z hz hzz
      simp only [Bool.and_eq_true, beq_iff_eq] at hzz
      obtain ⟨B, C, hsplit⟩ := List.append_of_mem hz
      have := h (y :: B) z C (by rw [hsplit]; rfl) hzz.1.1 hzz.1.2 y List.mem_cons_self
      rw [this.1, this.2] at hy'
      simp at hy'

/-- **`IndexBuilder`'s run-based `top` is the set-based one** on a store with contiguous registers -/
theorem topCol_eq_topAny : ∀ (s : Store), NoReturn (s.map (·.op)) → topCol s = topAny s
  | [], _ => rfl
  | x :: xs, h => by
    simp only [topCol, topAny]
    rw [topCol_eq_topAny xs (by simpa using h.tail)]
    congr 2
    rw [laterVisible_eq_any]
    · rfl
    · intro B z C hl ho hk b hb
      have hmap : (x :: xs).map (·.op) = [] ++ x.op :: (B.map (·.op) ++ z.op :: C.map (·.op)) := by
        rw [hl]; simp
      exact h [] x.op (B.map (·.op)) z.op (C.map (·.op)) hmap ho hk b.op (List.mem_map.mpr ⟨b, hb, rfl⟩)

/-! ### the canonical order has contiguous registers -/

/-- position of element `e` in the element list -/
def rankOf : List Op → OpId → Nat
  | [], _ => 0
  | x :: xs, e => if x.id = e then 0 else rankOf xs e + 1

theorem rankOf_inj : ∀ {E : List Op} {e e' : OpId}, (∃ c ∈ E, c.id = e) → (∃ c ∈ E, c.id = e') →
    rankOf E e = rankOf E e' → e = e'
  | [], _, _, ⟨_, hc, _⟩, _, _ => by cases hc
  | x :: xs, e, e', h₁, h₂, h => by
    simp only [rankOf] at h
    by_cases hx : x.id = e
    · by_cases hx' : x.id = e'
      · exact hx.symm.trans hx'
      · rw [if_pos hx, if_neg hx'] at h; omega
    · by_cases hx' : x.id = e'
      · rw [if_neg hx, if_pos hx'] at h; omega
      · rw [if_neg hx, if_neg hx'] at h
        obtain ⟨c, hc, hce⟩ := h₁
        obtain ⟨c', hc', hce'⟩ := h₂
        have hc1 : c ∈ xs := by
          rcases List.mem_cons.mp hc with rfl | hc
          · exact absurd hce hx
          · exact hc
        have hc2 : c' ∈ xs := by
          rcases List.mem_cons.mp hc' with rfl | hc'
          · exact absurd hce' hx'
          · exact hc'
        exact rankOf_inj ⟨c, hc1, hce⟩ ⟨c', hc2, hce'⟩ (by omega)

theorem rankOf_pairwise : ∀ {E : List Op}, (E.map (·.id)).Nodup →
    E.Pairwise (fun a b => rankOf E a.id < rankOf E b.id)
  | [], _ => List.Pairwise.nil
  | x :: xs, h => by
    rw [List.map_cons, List.nodup_cons] at h
    refine List.Pairwise.cons ?_ ?_
    · intro b hb
      have hne : x.id ≠ b.id := fun he => h.1 (List.mem_map.mpr ⟨b, hb, he.symm⟩)
      simp [rankOf, hne]
    · refine List.Pairwise.imp_of_mem ?_ (rankOf_pairwise h.2)
      intro a b ha hb hab
      have hna : x.id ≠ a.id := fun he => h.1 (List.mem_map.mpr ⟨a, ha, he.symm⟩)
      have hnb : x.id ≠ b.id := fun he => h.1 (List.mem_map.mpr ⟨b, hb, he.symm⟩)
      simp only [rankOf, hna, hnb, if_false]
      omega

/-- ops of one sequence object appear in the order of their elements -/
def RankSorted (ops : List Op) (l : List Op) : Prop :=
  l.Pairwise (fun a b => a.obj = b.obj → ∀ ea eb, a.regKey = .elem ea → b.regKey = .elem eb →
    rankOf (rgaOrder ops a.obj) ea ≤ rankOf (rgaOrder ops a.obj) eb)

def ObjSorted (l : List Op) : Prop := l.Pairwise (fun a b => b.obj.lt a.obj = false)

theorem block_regKey {ops : List Op} {obj : ObjId} {e x : Op} (he : e ∈ rgaOrder ops obj)
    (hx : x ∈ block ops obj e) : x.regKey = .elem e.id := by
  unfold block at hx
  rcases List.mem_cons.mp hx with rfl | hx
  · exact regKey_of_insert (mem_rgaFrom he).2.2
  · rw [regKey_of_noninsert (mem_updatesOf.mp hx).2.2.2.1, (mem_updatesOf.mp hx).2.2.2.2]

theorem seg_rankSorted {ops : List Op} (hw : OpsWF ops) (obj : ObjId) : RankSorted ops (seg ops obj) := by
  unfold RankSorted seg
  rw [List.pairwise_append]
  refine ⟨?_, ?_, ?_⟩
  · refine List.Pairwise.imp_of_mem ?_ (List.pairwise_of_forall (l := mapSeg ops obj)
      (R := fun _ _ => True) (fun _ _ => trivial))
    intro a b ha _ _ _ ea eb hka _
    exfalso
    rw [regKey_of_noninsert (mapSeg_noninsert hw ha)] at hka
    have := (mem_mapSeg.mp ha).2.2.2
    rw [hka] at this; cases this
  · unfold seqSeg
    rw [List.pairwise_flatMap]
    constructor
    · intro e he
      refine List.Pairwise.imp_of_mem ?_ (List.pairwise_of_forall (l := block ops obj e)
        (R := fun _ _ => True) (fun _ _ => trivial))
      intro a b ha hb _ _ ea eb hka hkb
      rw [block_regKey he ha] at hka
      rw [block_regKey he hb] at hkb
      rw [← Key.elem.inj hka, ← Key.elem.inj hkb]
      exact Nat.le_refl _
    · refine List.Pairwise.imp_of_mem ?_ (rankOf_pairwise (rgaOrder_ids_nodup hw.strict hw.refs obj))
      intro e₁ e₂ h₁ h₂ hlt x hx y hy _ ea eb hka hkb
      rw [block_regKey h₁ hx] at hka
      rw [block_regKey h₂ hy] at hkb
      have hxo : x.obj = obj := obj_of_mem_seg (List.mem_append_right _
        (List.mem_flatMap.mpr ⟨e₁, h₁, hx⟩))
      rw [← Key.elem.inj hka, ← Key.elem.inj hkb, hxo]
      exact Nat.le_of_lt hlt
  · intro a ha b _ _ ea eb hka _
    exfalso
    rw [regKey_of_noninsert (mapSeg_noninsert hw ha)] at hka
    have := (mem_mapSeg.mp ha).2.2.2
    rw [hka] at this; cases this

theorem canon_rankSorted {ops : List Op} (hw : OpsWF ops) : RankSorted ops (canon ops) :=
  canon_pairwise (fun obj => seg_rankSorted hw obj) (fun _ _ hne h => absurd h hne)

theorem canon_objSorted (ops : List Op) : ObjSorted (canon ops) := by
  unfold ObjSorted canon
  rw [List.pairwise_flatMap]
  constructor
  · intro obj _
    refine List.Pairwise.imp_of_mem ?_ (List.pairwise_of_forall (l := seg ops obj)
      (R := fun _ _ => True) (fun _ _ => trivial))
    intro a b ha hb _
    rw [obj_of_mem_seg ha, obj_of_mem_seg hb, ObjId.lt_irrefl]
  · refine List.Pairwise.imp ?_ (objsOf_sorted ops)
    intro o₁ o₂ hlt x hx y hy
    rw [obj_of_mem_seg hx, obj_of_mem_seg hy]
    cases h : o₂.lt o₁
    · rfl
    · exact (ObjId.lt_asymm hlt h).elim

/-- the register key of a row of a sequence object names an element of the object -/
theorem canon_seq_regKey {ops : List Op} (hw : OpsWF ops) {x : Op} (hx : x ∈ canon ops)
    (hm : x.key.isMap = false) : ∃ e ∈ rgaOrder ops x.obj, x.regKey = .elem e.id := by
  unfold canon at hx
  obtain ⟨obj, _, hxs⟩ := List.mem_flatMap.mp hx
  have ho := obj_of_mem_seg hxs
  unfold seg at hxs
  rcases List.mem_append.mp hxs with h | h
  · rw [(mem_mapSeg.mp h).2.2.2] at hm; cases hm
  · obtain ⟨e, he, hk, _⟩ := seqSeg_regKey h
    rw [ho]; exact ⟨e, he, hk⟩

/-- **in the canonical order the rows of one register are contiguous** -/
theorem canon_noReturn {ops : List Op} (hw : OpsWF ops) (hperm : (canon ops).Perm (stored ops)) :
    NoReturn (canon ops) := by
  intro A x B z C hl hzo hzk b hb
  have hmemops : ∀ y ∈ canon ops, y ∈ ops := fun y hy => (List.mem_filter.mp (hperm.mem_iff.mp hy)).1
  have hxm : x ∈ canon ops := by rw [hl]; simp
  have hbm : b ∈ canon ops := by rw [hl]; simp [hb]
  have hzm : z ∈ canon ops := by rw [hl]; simp
  -- the pairwise facts for (x, b), (b, z)
  have hpair : ∀ {R : Op → Op → Prop}, (canon ops).Pairwise R → R x b ∧ R b z := by
    intro R hR
    rw [hl] at hR
    have h1 := (List.pairwise_append.mp hR).2.1
    have hxb : R x b := List.rel_of_pairwise_cons h1 (List.mem_append_left _ hb)
    have h2 := (List.pairwise_append.mp (List.Pairwise.of_cons h1)).2.2
    exact ⟨hxb, h2 b hb z List.mem_cons_self⟩
  obtain ⟨ho1, ho2⟩ := hpair (canon_objSorted ops)
  have hbo : b.obj = x.obj := by
    apply Classical.byContradiction
    intro hne
    rcases ObjId.lt_total hne with h | h
    · rw [h] at ho1; cases ho1
    · rw [hzo, h] at ho2; cases ho2
  refine ⟨hbo, ?_⟩
  have hkinds := hw.kinds b (hmemops b hbm) x (hmemops x hxm) hbo
  cases hxmap : x.key.isMap
  · -- a sequence object
    rw [hxmap] at hkinds
    obtain ⟨ex, hex, hxk⟩ := canon_seq_regKey hw hxm hxmap
    obtain ⟨eb, heb, hbk⟩ := canon_seq_regKey hw hbm hkinds
    obtain ⟨hr1, hr2⟩ := hpair (canon_rankSorted hw)
    have h1 := hr1 hbo.symm ex.id eb.id hxk hbk
    have h2 := hr2 (hbo.trans hzo.symm) eb.id ex.id hbk (hzk.trans hxk)
    rw [hbo] at h2 heb
    have : eb.id = ex.id := rankOf_inj ⟨eb, heb, rfl⟩ ⟨ex, hex, rfl⟩ (by omega)
    rw [hbk, hxk, this]
  · -- a map object
    rw [hxmap] at hkinds
    have hni : ∀ y ∈ canon ops, y.key.isMap = true → y.insert = false := by
      intro y hy hym
      cases hyi : y.insert
      · rfl
      · rw [(hw.insSeq y (hmemops y hy) hyi).1] at hym; cases hym
    have hxi := hni x hxm hxmap
    have hbi := hni b hbm hkinds
    have hzkey : z.regKey = x.key := by rw [hzk, regKey_of_noninsert hxi]
    have hzi : z.insert = false := by
      cases hzi : z.insert
      · rfl
      · rw [regKey_of_insert hzi] at hzkey
        rw [← hzkey] at hxmap; cases hxmap
    rw [regKey_of_noninsert hzi] at hzkey
    rw [regKey_of_noninsert hbi, regKey_of_noninsert hxi]
    obtain ⟨hk1, hk2⟩ := hpair (canon_keySorted hw)
    cases hxk : x.key with
    | map kx =>
      cases hbk : b.key with
      | map kb =>
        have h1 := hk1 hbo.symm kx kb hxk hbk
        have h2 := hk2 (hbo.trans hzo.symm) kb kx hbk (hzkey.trans hxk)
        congr 1
        apply Classical.byContradiction
        intro hne
        rcases bytesLt_total hne with h | h
        · rw [h] at h1; cases h1
        · rw [h] at h2; cases h2
      | head => rw [hbk] at hkinds; cases hkinds
      | elem e => rw [hbk] at hkinds; cases hkinds
    | head => rw [hxk] at hxmap; cases hxmap
    | elem e => rw [hxk] at hxmap; cases hxmap

/-- on a store satisfying the invariant `IndexBuilder`'s `top` column is the set-based one -/
theorem storeInv_topCol {ops : List Op} {s : Store} (hw : OpsWF ops) (hi : StoreInv ops s) :
    topCol s = topAny s := by
  apply topCol_eq_topAny
  rw [hi.order]
  exact canon_noReturn hw hi.complete

end AmVerif.Crdt
