import AmVerif.Proofs.SyncProgressGen
/-
  Progress half of C20, part 5: what a round does to the documents (for arbitrary link contents),
  the shape of a half round on an empty link, and the measure.
-/
namespace AmVerif.Sync.Prog
open AmVerif AmVerif.Sync

/-! ### documents only grow, and only by changes of the other peer -/

/-- how the B side of `c'` relates to `c` after deliveries A→B (A itself is untouched) -/
structure Grows (c c' : Cfg) : Prop where
  docA : c'.docA = c.docA
  sub : ∀ x ∈ c.docB.applied, x ∈ c'.docB.applied
  from_ : ∀ x ∈ c'.docB.applied, x ∈ c.docB.applied ∨ x ∈ c.docA.applied
  has : ∀ h, hasB c.docB h = true → hasB c'.docB h = true
  linkAB : c'.linkAB = []
  linkBA : c'.linkBA = c.linkBA

theorem deliverAll_grows {fp : Hash → Bool} : ∀ (l : List Message) (c : Cfg), c.linkAB = l →
    Good c → Grows c (deliverAllAB l c)
  | [], c, hl, _ => ⟨rfl, fun _ h => h, fun _ h => Or.inl h, fun _ h => h, hl, rfl⟩
  | m :: rest, c, hl, hr => by
    have inv := hr.inv
    have hr' : Good (c.recvB m rest) := hr.step (fp := fp) (Step.recv c m rest hl)
    have ih := deliverAll_grows (fp := fp) rest (c.recvB m rest) rfl hr'
    have mOk : MsgOk c.docA c.docB m := inv.a.msgs m (by rw [hl]; simp)
    obtain ⟨_, s1, s2, _⟩ := recvDoc_spec c.docB
      (recvFlags { c.stB with inFlight := false } m.flags) m inv.b.wf
    show Grows c (deliverAllAB rest (c.recvB m rest))
    refine ⟨ih.docA, fun x hx => ih.sub x (s1 x hx), ?_, fun h hh => ih.has h (recvDoc_has _ _ _ hh),
      ih.linkAB, ih.linkBA⟩
    intro x hx
    rcases ih.from_ x hx with h1 | h1
    · rcases s2 x h1 with h2 | h2 | h2
      · left; exact h2
      · right; exact inv.b.queue x h2
      · exact (mOk.changes x h2).symm
    · right; exact h1

theorem genA_docs (fp : Hash → Bool) (c : Cfg) :
    (c.genA fp).docA = c.docA ∧ (c.genA fp).docB = c.docB ∧ (c.genA fp).linkBA = c.linkBA :=
  ⟨rfl, rfl, rfl⟩

theorem halfRound_grows {fp : Hash → Bool} {c : Cfg} (hr : Good c) :
    Grows c (halfRound fp c) := by
  have h1 : Good (c.genA fp) := hr.step (fp := fp) (Step.gen c)
  have g := deliverAll_grows (fp := fp) (c.genA fp).linkAB (c.genA fp) rfl h1
  exact ⟨g.docA, g.sub, g.from_, g.has, g.linkAB, g.linkBA⟩

/-- the effect of a whole round on the two documents and the links -/
structure RoundDocs (c c' : Cfg) : Prop where
  subA : ∀ x ∈ c.docA.applied, x ∈ c'.docA.applied
  subB : ∀ x ∈ c.docB.applied, x ∈ c'.docB.applied
  fromA : ∀ x ∈ c'.docA.applied, x ∈ c.docA.applied ∨ x ∈ c.docB.applied
  fromB : ∀ x ∈ c'.docB.applied, x ∈ c.docB.applied ∨ x ∈ c.docA.applied
  hasA : ∀ h, hasB c.docA h = true → hasB c'.docA h = true
  hasB : ∀ h, hasB c.docB h = true → hasB c'.docB h = true
  linkAB : c'.linkAB = []
  linkBA : c'.linkBA = []

theorem round_docs {fp : Hash → Bool} {c : Cfg} (hr : Good c) :
    RoundDocs c (round fp c) := by
  have g1 := halfRound_grows (fp := fp) hr
  have hr1 : Good (halfRound fp c).swap := (hr.halfRound fp).swap
  have g2 := halfRound_grows (fp := fp) hr1
  show RoundDocs c (halfRound fp (halfRound fp c).swap).swap
  refine ⟨?_, ?_, ?_, ?_, ?_, ?_, ?_, ?_⟩
  · intro x hx
    apply g2.sub
    show x ∈ (halfRound fp c).docA.applied
    rw [g1.docA]; exact hx
  · intro x hx
    show x ∈ (halfRound fp (halfRound fp c).swap).docA.applied
    rw [g2.docA]
    exact g1.sub x hx
  · intro x hx
    rcases g2.from_ x hx with h1 | h1
    · left
      have : x ∈ (halfRound fp c).docA.applied := h1
      rw [g1.docA] at this; exact this
    · rcases g1.from_ x h1 with h2 | h2
      · right; exact h2
      · left; exact h2
  · intro x hx
    have : x ∈ (halfRound fp (halfRound fp c).swap).docA.applied := hx
    rw [g2.docA] at this
    exact g1.from_ x this
  · intro h hh
    apply g2.has
    show hasB (halfRound fp c).docA h = true
    rw [g1.docA]; exact hh
  · intro h hh
    show hasB (halfRound fp (halfRound fp c).swap).docA h = true
    rw [g2.docA]
    exact g1.has h hh
  · show (halfRound fp (halfRound fp c).swap).linkBA = []
    rw [g2.linkBA]; exact g1.linkAB
  · exact g2.linkAB

/-! ### the measure and the universe -/

/-- hashes of the universe `u` that have not arrived (applied or queued) at A, plus those that have
    not arrived at B -/
def miss (u : List Hash) (c : Cfg) : Nat := lacking u c.docA + lacking u c.docB

/-- every applied change of either peer is in the universe -/
def Univ (u : List Hash) (c : Cfg) : Prop :=
  ∀ h, (h ∈ c.docA.hashes ∨ h ∈ c.docB.hashes) → h ∈ u

/-- both peers hold the same set of changes -/
def SameSet (c : Cfg) : Prop := ∀ x, x ∈ c.docA.applied ↔ x ∈ c.docB.applied

theorem SameSet.converged {c : Cfg} (h : SameSet c) : Converged c := ⟨heads_eq_of_same h, h⟩

theorem miss_round_le {fp : Hash → Bool} {c : Cfg} (hr : Good c) (u : List Hash) :
    miss u (round fp c) ≤ miss u c := by
  have rd := round_docs (fp := fp) hr
  unfold miss
  have h1 := lacking_mono (u := u) rd.hasA
  have h2 := lacking_mono (u := u) rd.hasB
  omega

theorem Univ.round {fp : Hash → Bool} {c : Cfg} {u : List Hash} (hu : Univ u c)
    (hr : Good c) : Univ u (round fp c) := by
  have rd := round_docs (fp := fp) hr
  intro h hh
  rcases hh with hh | hh
  · obtain ⟨x, hx, rfl⟩ := Doc.mem_hashes.mp hh
    rcases rd.fromA x hx with h1 | h1
    · exact hu _ (Or.inl (Doc.mem_hashes.mpr ⟨x, h1, rfl⟩))
    · exact hu _ (Or.inr (Doc.mem_hashes.mpr ⟨x, h1, rfl⟩))
  · obtain ⟨x, hx, rfl⟩ := Doc.mem_hashes.mp hh
    rcases rd.fromB x hx with h1 | h1
    · exact hu _ (Or.inr (Doc.mem_hashes.mpr ⟨x, h1, rfl⟩))
    · exact hu _ (Or.inl (Doc.mem_hashes.mpr ⟨x, h1, rfl⟩))

theorem SameSet.round {fp : Hash → Bool} {c : Cfg} (hs : SameSet c) (hr : Good c) :
    SameSet (round fp c) := by
  have rd := round_docs (fp := fp) hr
  intro x
  constructor
  · intro hx
    rcases rd.fromA x hx with h1 | h1
    · exact rd.subB x ((hs x).mp h1)
    · exact rd.subB x h1
  · intro hx
    rcases rd.fromB x hx with h1 | h1
    · exact rd.subA x ((hs x).mpr h1)
    · exact rd.subA x h1

/-- when both hold the same changes nothing is queued -/
theorem SameSet.queueA {c : Cfg} (hs : SameSet c) (inv : Inv c) : c.docA.queue = [] := by
  cases hq : c.docA.queue with
  | nil => rfl
  | cons x xs =>
    exfalso
    have hx : x ∈ c.docA.queue := by rw [hq]; simp
    have := (hs x).mpr (inv.a.queue x hx)
    exact inv.a.wf.qfresh x hx (Doc.mem_hashes.mpr ⟨x, this, rfl⟩)

theorem SameSet.swap {c : Cfg} (hs : SameSet c) : SameSet c.swap := fun x => (hs x).symm

/-! ### a half round on an empty link -/

/-- the configuration after "A builds a message, B receives it" on an empty link A→B -/
def sendA (fp : Hash → Bool) (c : Cfg) : Cfg :=
  ⟨c.docA,
   (receive c.docB c.stB (mkMessage c.docA c.stA (mkBuilder fp c.docA c.stA))).1,
   sentState c.docA c.stA (mkBuilder fp c.docA c.stA),
   (receive c.docB c.stB (mkMessage c.docA c.stA (mkBuilder fp c.docA c.stA))).2,
   [], c.linkBA⟩

theorem halfRound_cases (fp : Hash → Bool) (c : Cfg) (hl : c.linkAB = [])
    (hr : resetCond c.docA c.stA = false) :
    (quiet c.docA c.stA (mkBuilder fp c.docA c.stA) = true ∧ halfRound fp c = c) ∨
    (quiet c.docA c.stA (mkBuilder fp c.docA c.stA) = false ∧ halfRound fp c = sendA fp c) := by
  cases hq : quiet c.docA c.stA (mkBuilder fp c.docA c.stA) with
  | true =>
    left
    refine ⟨rfl, ?_⟩
    apply halfRound_quiescent _ hl
    rw [generate_quiet hr hq]
  | false =>
    right
    refine ⟨rfl, ?_⟩
    have hg := generate_sends hr hq
    unfold halfRound Cfg.genA
    simp only [hg, hl, List.nil_append, deliverAllAB, Cfg.recvB]
    rfl

theorem resetA_false {c : Cfg} (inv : Inv c) : resetCond c.docA c.stA = false :=
  resetCond_false_of (fun hs hhs hv hhv x hx => (inv.a.theirHave hs hhs hv hhv x hx).1)

theorem mkMessage_heads {d : Doc} {s : State} {b : Builder} (h : s.needsReset = false) :
    (mkMessage d s b).heads = d.heads := by
  simp [mkMessage, headsToSend, h]

/-- A's picture of B is what B would send right now, nothing is in flight, A is free to send -/
structure Fresh (c : Cfg) : Prop where
  linkAB : c.linkAB = []
  linkBA : c.linkBA = []
  theirHeads : c.stA.theirHeads = some c.docB.heads
  theirNeed : c.stA.theirNeed = some (ourNeed c.docB c.stB)
  theirHave : c.stA.theirHave = some (ourHave c.docB c.stB)
  flight : c.stA.inFlight = false

/-- after A has sent on an empty link and B has received, B's picture of A is fresh -/
theorem fresh_after_send (fp : Hash → Bool) {c : Cfg} (inv : Inv c) (hba : c.linkBA = []) :
    Fresh (sendA fp c).swap := by
  obtain ⟨f1, f2, f3, f4, _, _, _⟩ := recvState_fields c.docB c.stB
    (mkMessage c.docA c.stA (mkBuilder fp c.docA c.stA))
  refine ⟨hba, rfl, ?_, ?_, ?_, f1⟩
  · show (recvState c.docB c.stB _).theirHeads = some c.docA.heads
    rw [f2, mkMessage_heads inv.a.rw.2]
  · show (recvState c.docB c.stB _).theirNeed = some (ourNeed c.docA (sentState c.docA c.stA _))
    rw [f4]; rfl
  · show (recvState c.docB c.stB _).theirHave = some (ourHave c.docA (sentState c.docA c.stA _))
    rw [f3]; rfl

/-- the sender's state after sending: it waits for an acknowledgement, so it is quiet as long as
    its heads do not change -/
theorem quiet_sentState (d : Doc) (s : State) (b b' : Builder) :
    quiet d (sentState d s b) b' = true := by
  simp [quiet, sentState]

/-- B's document after a send by A on an empty link -/
theorem sendA_docB (fp : Hash → Bool) {c : Cfg} (inv : Inv c) :
    (sendA fp c).docB =
      if (mkBuilder fp c.docA c.stA).chunks != 0 then c.docB.applyChanges (mkBuilder fp c.docA c.stA).changes
      else c.docB := by
  exact recvDoc_rw c.docB c.stB (mkMessage c.docA c.stA (mkBuilder fp c.docA c.stA)) inv.b.rw.1

end AmVerif.Sync.Prog
