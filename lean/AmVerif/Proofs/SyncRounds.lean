import AmVerif.Proofs.SyncConv
/-
  Rounds of the two-peer system are sequences of steps (so everything proved about reachable
  configurations holds after any number of rounds), a quiescent configuration is a fixed point of
  a round, and reconnecting (C21) re-establishes the invariant.
-/
namespace AmVerif.Sync
open AmVerif

theorem Initial.swap {c : Cfg} (h : Initial c) : Initial c.swap :=
  ⟨h.wfB, h.wfA, h.queueB, h.queueA, fun x hx y hy hxy => (h.agree y hy x hx hxy.symm).symm,
   h.stB, h.stA, h.linkBA, h.linkAB⟩

theorem Step.swap' {fp : Hash → Bool} {c c' : Cfg} (h : Step fp c c') : Step fp c.swap c'.swap :=
  Step.swap c.swap c'.swap h

theorem Reachable.swap {fp : Hash → Bool} {c : Cfg} (h : Reachable fp c) : Reachable fp c.swap := by
  induction h with
  | init c hi => exact Reachable.init _ hi.swap
  | step c c' _ hs ih => exact Reachable.step _ _ ih hs.swap'

theorem Reachable.deliverAll {fp : Hash → Bool} : ∀ (l : List Message) (c : Cfg),
    c.linkAB = l → Reachable fp c → Reachable fp (deliverAllAB l c)
  | [], _, _, h => h
  | m :: rest, c, hl, h =>
    Reachable.deliverAll rest (c.recvB m rest) rfl (Reachable.step _ _ h (Step.recv c m rest hl))

theorem Reachable.halfRound {fp : Hash → Bool} {c : Cfg} (h : Reachable fp c) :
    Reachable fp (halfRound fp c) :=
  Reachable.deliverAll _ _ rfl (Reachable.step _ _ h (Step.gen c))

theorem Reachable.round {fp : Hash → Bool} {c : Cfg} (h : Reachable fp c) :
    Reachable fp (round fp c) :=
  (h.halfRound.swap.halfRound).swap

theorem Reachable.rounds {fp : Hash → Bool} : ∀ (n : Nat) {c : Cfg}, Reachable fp c →
    Reachable fp (rounds fp n c)
  | 0, _, h => h
  | n + 1, _, h => Reachable.rounds n h.round

theorem halfRound_quiescent {fp : Hash → Bool} {c : Cfg} (ga : (generate fp c.docA c.stA).2 = none)
    (lab : c.linkAB = []) : halfRound fp c = c := by
  have hq := generate_none ga
  rcases generate_cases fp c.docA c.stA with ⟨_, hg⟩ | ⟨_, _, hg⟩ | ⟨_, hq', _⟩
  · rw [hg] at ga; cases ga
  · have : c.genA fp = c := by unfold Cfg.genA; simp only [hg]
    unfold halfRound
    simp only [this, lab, deliverAllAB]
  · rw [hq] at hq'; cases hq'

/-- a quiescent configuration stays as it is: generating produces nothing, nothing is delivered -/
theorem round_quiescent {fp : Hash → Bool} {c : Cfg} (hq : Quiescent fp c) : round fp c = c := by
  obtain ⟨lab, lba, ga, gb⟩ := hq
  unfold round
  rw [halfRound_quiescent ga lab]
  have : halfRound fp c.swap = c.swap := halfRound_quiescent (c := c.swap) gb lba
  rw [this]
  rfl

theorem rounds_quiescent {fp : Hash → Bool} : ∀ (n : Nat) {c : Cfg}, Quiescent fp c →
    rounds fp n c = c
  | 0, _, _ => rfl
  | n + 1, c, hq => by
    show rounds fp n (round fp c) = c
    rw [round_quiescent hq]; exact rounds_quiescent n hq

/-- documents only grow: no step removes a change from either change graph -/
theorem Step.applied_mono {fp : Hash → Bool} {c c' : Cfg} (h : Step fp c c') : Inv c →
    (∀ x ∈ c.docA.applied, x ∈ c'.docA.applied) ∧ (∀ x ∈ c.docB.applied, x ∈ c'.docB.applied) := by
  induction h with
  | edit c ch _ _ _ => exact fun _ => ⟨fun x hx => List.mem_cons_of_mem _ hx, fun _ hx => hx⟩
  | gen c => exact fun _ => ⟨fun _ hx => hx, fun _ hx => hx⟩
  | recv c m rest _ =>
    intro inv
    refine ⟨fun _ hx => hx, ?_⟩
    exact (recvDoc_spec c.docB _ m inv.b.wf).2.1
  | swap c c' _ ih =>
    intro inv
    exact ⟨(ih inv.swap).2, (ih inv.swap).1⟩

/-! ### C21: reconnecting -/

theorem Inv.reconnect {c : Cfg} (inv : Inv c) (ra rb : Reconn) : Inv (c.reconnect ra rb) := by
  refine ⟨⟨inv.a.wf, inv.a.queue, ?_, ?_, ?_, ?_, ?_, ?_, ?_, ?_⟩,
          ⟨inv.b.wf, inv.b.queue, ?_, ?_, ?_, ?_, ?_, ?_, ?_, ?_⟩, inv.agree⟩
  · intro m hm; cases hm
  · cases ra
    · intro h hh; cases hh
    · exact inv.a.shared
  · cases ra <;> (intro h hh; cases hh)
  · cases ra <;> (intro H hH; cases hH)
  · cases ra
    · intro hs hhs; cases hhs
    · intro hs hhs hv hhv
      have : hs = [] := by
        have : some ([] : List Have) = some hs := hhs
        injection this with h; exact h.symm
      subst this; cases hhv
  · cases ra <;> exact ⟨rfl, rfl⟩
  · cases ra <;> (intro hf; cases hf)
  · cases ra <;> (intro hf; cases hf)
  · intro m hm; cases hm
  · cases rb
    · intro h hh; cases hh
    · exact inv.b.shared
  · cases rb <;> (intro h hh; cases hh)
  · cases rb <;> (intro H hH; cases hH)
  · cases rb
    · intro hs hhs; cases hhs
    · intro hs hhs hv hhv
      have : hs = [] := by
        have : some ([] : List Have) = some hs := hhs
        injection this with h; exact h.symm
      subst this; cases hhv
  · cases rb <;> exact ⟨rfl, rfl⟩
  · cases rb <;> (intro hf; cases hf)
  · cases rb <;> (intro hf; cases hf)

theorem Inv.of_reachable21 (fp : Hash → Bool) {c : Cfg} (h : Reachable21 fp c) : Inv c := by
  induction h with
  | init c hi => exact Inv.of_initial hi
  | step c c' _ hs ih =>
    cases hs with
    | base _ hb => exact Inv.step fp hb ih
    | reconnect ra rb => exact ih.reconnect ra rb

end AmVerif.Sync
