import AmVerif.Proofs.ChangeCodecFullValue
/-
  Helper lemmas for the whole-change round trip of C18, ROW level: `ChangeOpsIter` (`rowNext`,
  `rowsLoop`) pulls one value out of every column decoder per row; on decoders that stand in front
  of the column values of `rows` it returns exactly `rows`.
-/
namespace AmVerif.ChangeCodec.Full
open AmVerif AmVerif.Leb AmVerif.Crdt AmVerif.ChangeCodec
open AmVerif.Hexane (validUtf8 two63 two64 cU64 cI64 validU64 lawful_u64)

/-! ### the column values of a row (the lambdas of `encodeCols`, named) -/

def objActorV (r : Row) : Option Nat := if isRoot r then none else some r.obj.actor
def objCtrV (r : Row) : Option Nat := if isRoot r then none else some r.obj.ctr
def keyActorV (r : Row) : Option Nat :=
  match r.key with | .prop _ => none | .elem e => if e = ⟨0, 0⟩ then none else some e.actor
def keyCtrV (r : Row) : Option Int := match r.key with | .prop _ => none | .elem e => some (e.ctr : Int)
def keyStrV (r : Row) : Option Bytes := match r.key with | .prop s => some s | .elem _ => none

theorem encodeCols_eq (rows : List Row) : encodeCols rows =
    let objActor := rleEnc cU64 (rows.map objActorV)
    [ (mkSpec OBJ_COL_ID T_ACTOR, objActor),
      (mkSpec OBJ_COL_ID T_INT, if objActor.isEmpty then [] else rleEnc cU64 (rows.map objCtrV)),
      (mkSpec KEY_COL_ID T_ACTOR, rleEnc cU64 (rows.map keyActorV)),
      (mkSpec KEY_COL_ID T_DELTA, deltaEnc (rows.map keyCtrV)),
      (mkSpec KEY_COL_ID T_STRING, rleEnc cSmol (rows.map keyStrV)),
      (mkSpec INSERT_COL_ID T_BOOL, boolEnc (rows.map (·.insert))),
      (mkSpec ACTION_COL_ID T_INT, rleEnc cU64 (rows.map (fun r => some r.action))),
      (mkSpec VAL_COL_ID T_VALMETA, rleEnc cU64 (rows.map (fun r => some (valueMeta r.val)))),
      (mkSpec VAL_COL_ID T_VALUE, (rows.map (fun r => valueRaw r.val)).flatten),
      (mkSpec PRED_COL_ID T_GROUP, rleEnc cU64 (rows.map (fun r => some r.pred.length))),
      (mkSpec PRED_COL_ID T_ACTOR, rleEnc cU64 ((rows.flatMap (·.pred)).map (fun p => some p.actor))),
      (mkSpec PRED_COL_ID T_DELTA, deltaEnc ((rows.flatMap (·.pred)).map (fun p => some (p.ctr : Int)))),
      (mkSpec EXPAND_COL_ID T_BOOL, maybeBoolEnc (rows.map (·.expand))),
      (mkSpec MARK_NAME_COL_ID T_STRING, rleEnc cSmol (rows.map (·.markName))) ] := rfl

/-! ### what a row must satisfy to be read back -/

def IdOk (i : IdI) : Prop := i.ctr < 2 ^ 32 ∧ i.actor < 2 ^ 32

structure RowOK (r : Row) : Prop where
  obj : IdOk r.obj
  key : match r.key with | .prop s => validSmol s | .elem e => IdOk e
  action : r.action < 2 ^ 64 ∧ validAction r.action r.val = true
  val : ScalarWF r.val
  pred : ∀ p ∈ r.pred, IdOk p
  predLen : r.pred.length < 2 ^ 64
  markName : ∀ n, r.markName = some n → validSmol n

/-- every decoder of the row iterator stands in front of the column values of `rows` -/
structure IterRep (s : IterSt) (rows : List Row) : Prop where
  obj : match s.obj with
    | none => ∀ r ∈ rows, isRoot r = true
    | some os => RepN cU64 validU64 os.actor (rows.map objActorV) ∧ RepN cU64 validU64 os.ctr (rows.map objCtrV)
  keyA : RepN cU64 validU64 s.key.actor (rows.map keyActorV)
  keyC : DRep s.key.ctr (rows.map keyCtrV)
  keyS : RepN cSmol validSmol s.key.str (rows.map keyStrV)
  ins : BRep s.insert (rows.map (·.insert))
  act : RepN cU64 validU64 s.action (rows.map (fun r => some r.action))
  val : VRep s.val (rows.map (·.val))
  predN : RepN cU64 validU64 s.pred.num (rows.map (fun r => some r.pred.length))
  predA : RepN cU64 validU64 s.pred.actor ((rows.flatMap (·.pred)).map (fun p => some p.actor))
  predC : DRep s.pred.ctr ((rows.flatMap (·.pred)).map (fun p => some (p.ctr : Int)))
  exp : MBRep s.expand (rows.map (·.expand))
  mark : RepN cSmol validSmol s.markName (rows.map (·.markName))

theorem opIdNew_ok (c a : Nat) (h : c < 2 ^ 32 ∧ a < 2 ^ 32) : opIdNew c a = .ok ⟨c, a⟩ := by
  unfold opIdNew; rw [if_pos h]

theorem isRoot_eq (r : Row) (h : isRoot r = true) : r.obj = ⟨0, 0⟩ := by
  simp only [isRoot, decide_eq_true_eq] at h
  cases hr : r.obj with
  | mk c a => rw [hr] at h; simp only at h; rw [h.1, h.2]

theorem bind_id_none {α : Type} {o : Option (Option α)} (h : o.bind id = none) : o = none ∨ o = some none := by
  cases o with
  | none => exact Or.inl rfl
  | some o' =>
    cases o' with
    | none => exact Or.inr rfl
    | some m => cases h

/-! ### the object column pair -/

theorem objNext_ok (os : ObjSt) (r : Row) (rows : List Row) (hr : IdOk r.obj)
    (ha : RepN cU64 validU64 os.actor (objActorV r :: rows.map objActorV))
    (hc : RepN cU64 validU64 os.ctr (objCtrV r :: rows.map objCtrV)) :
    ∃ os', objNext os = .ok (r.obj, os') ∧ RepN cU64 validU64 os'.actor (rows.map objActorV) ∧
      RepN cU64 validU64 os'.ctr (rows.map objCtrV) := by
  obtain ⟨o1, s1, e1, b1, r1⟩ := repN_step lawful_u64 _ _ _ ha
  obtain ⟨o2, s2, e2, b2, r2⟩ := repN_step lawful_u64 _ _ _ hc
  refine ⟨⟨s1, s2⟩, ?_, r1, r2⟩
  unfold objNext
  rw [e1]; simp only; rw [e2]; simp only
  by_cases hroot : isRoot r = true
  · simp only [objActorV, objCtrV, hroot, if_true] at b1 b2
    rw [isRoot_eq r hroot]
    rcases bind_id_none b1 with rfl | rfl <;> rcases bind_id_none b2 with rfl | rfl <;> simp [isNullish]
  · simp only [objActorV, objCtrV, hroot, Bool.false_eq_true, if_false] at b1 b2
    rw [bind_id_some b1, bind_id_some b2]
    simp only [opIdNew_ok _ _ hr]

/-! ### the key column triple -/

theorem keyNext_ok (s : KeySt) (r : Row) (rows : List Row)
    (hk : match r.key with | .prop s => validSmol s | .elem e => IdOk e)
    (ha : RepN cU64 validU64 s.actor (keyActorV r :: rows.map keyActorV))
    (hc : DRep s.ctr (keyCtrV r :: rows.map keyCtrV))
    (hs : RepN cSmol validSmol s.str (keyStrV r :: rows.map keyStrV)) :
    ∃ s', keyNext s = .ok (r.key, s') ∧ RepN cU64 validU64 s'.actor (rows.map keyActorV) ∧
      DRep s'.ctr (rows.map keyCtrV) ∧ RepN cSmol validSmol s'.str (rows.map keyStrV) := by
  obtain ⟨o1, s1, e1, b1, r1⟩ := repN_step lawful_u64 _ _ _ ha
  obtain ⟨o2, s2, e2, b2, r2⟩ := dRep_step _ _ _ hc
  obtain ⟨o3, s3, e3, b3, r3⟩ := repN_step lawful_smol _ _ _ hs
  refine ⟨⟨s1, s2, s3⟩, ?_, r1, r2, r3⟩
  unfold keyNext
  rw [e1]; simp only; rw [e2]; simp only; rw [e3]; simp only
  cases hkey : r.key with
  | prop str =>
    simp only [keyActorV, keyCtrV, keyStrV, hkey] at b1 b2 b3
    rw [bind_id_some b3]
    rcases bind_id_none b1 with rfl | rfl <;> rcases bind_id_none b2 with rfl | rfl <;> simp [isNullish]
  | elem e =>
    rw [hkey] at hk
    simp only [keyActorV, keyCtrV, keyStrV, hkey] at b1 b2 b3
    rw [bind_id_some b2]
    by_cases hh : e = ⟨0, 0⟩
    · simp only [hh, if_true] at b1
      subst hh
      rcases bind_id_none b1 with rfl | rfl <;> rcases bind_id_none b3 with rfl | rfl <;> simp
    · simp only [hh, if_false] at b1
      rw [bind_id_some b1]
      have hnn : ¬ ((e.ctr : Int) < 0) := by omega
      rcases bind_id_none b3 with rfl | rfl <;>
        simp only [hnn, if_false, Int.toNat_natCast, opIdNew_ok _ _ hk]

/-! ### the predecessor group -/

theorem predItems_ok : ∀ (ps : List IdI) (as : RleSt Nat) (cs : DeltaSt) (ra : List (Option Nat)) (rc : List (Option Int)),
    (∀ p ∈ ps, IdOk p) →
    RepN cU64 validU64 as (ps.map (fun p => some p.actor) ++ ra) →
    DRep cs (ps.map (fun p => some (p.ctr : Int)) ++ rc) →
    ∃ as' cs', predItems ps.length as cs = .ok (ps, as', cs') ∧ RepN cU64 validU64 as' ra ∧ DRep cs' rc
  | [], as, cs, _, _, _, ha, hc => ⟨as, cs, rfl, ha, hc⟩
  | p :: ps, as, cs, ra, rc, hok, ha, hc => by
    simp only [List.map_cons, List.cons_append] at ha hc
    obtain ⟨o1, s1, e1, b1, r1⟩ := repN_step lawful_u64 _ _ _ ha
    obtain ⟨o2, s2, e2, b2, r2⟩ := dRep_step _ _ _ hc
    obtain ⟨as', cs', e3, r3, r4⟩ := predItems_ok ps s1 s2 ra rc (fun q hq => hok q (List.mem_cons_of_mem _ hq)) r1 r2
    refine ⟨as', cs', ?_, r3, r4⟩
    simp only [List.length_cons, predItems]
    rw [e1]; simp only; rw [e2]; simp only
    rw [bind_id_some b1, bind_id_some b2]
    have hnn : ¬ ((p.ctr : Int) < 0) := by omega
    simp only [hnn, if_false, Int.toNat_natCast, opIdNew_ok _ _ (hok p List.mem_cons_self), e3]

theorem predNext_ok (s : PredSt) (r : Row) (rows : List Row) (hok : ∀ p ∈ r.pred, IdOk p)
    (hn : RepN cU64 validU64 s.num (some r.pred.length :: rows.map (fun r => some r.pred.length)))
    (ha : RepN cU64 validU64 s.actor (((r :: rows).flatMap (·.pred)).map (fun p => some p.actor)))
    (hc : DRep s.ctr (((r :: rows).flatMap (·.pred)).map (fun p => some (p.ctr : Int)))) :
    ∃ s', predNext s = .ok (r.pred, s') ∧
      RepN cU64 validU64 s'.num (rows.map (fun r => some r.pred.length)) ∧
      RepN cU64 validU64 s'.actor ((rows.flatMap (·.pred)).map (fun p => some p.actor)) ∧
      DRep s'.ctr ((rows.flatMap (·.pred)).map (fun p => some (p.ctr : Int))) := by
  obtain ⟨o1, s1, e1, b1, r1⟩ := repN_step lawful_u64 _ _ _ hn
  simp only [List.flatMap_cons, List.map_append] at ha hc
  obtain ⟨as', cs', e2, r2, r3⟩ := predItems_ok r.pred s.actor s.ctr _ _ hok ha hc
  refine ⟨⟨s1, as', cs'⟩, ?_, r1, r2, r3⟩
  unfold predNext
  rw [e1, bind_id_some b1]
  simp only [e2]

/-! ### one row, all rows -/

theorem rowNext_ok (s : IterSt) (r : Row) (rows : List Row) (hr : RowOK r) (h : IterRep s (r :: rows)) :
    ∃ s', rowNext s = .ok (r, s') ∧ IterRep s' rows := by
  obtain ⟨hobj, hkA, hkC, hkS, hins, hact, hval, hpN, hpA, hpC, hexp, hmark⟩ := h
  simp only [List.map_cons] at hkA hkC hkS hins hact hval hpN hexp hmark
  -- object
  have hO : ∃ os', (match s.obj with
        | none => (Outcome.ok (⟨0, 0⟩, none) : Res (IdI × Option ObjSt))
        | some os => (match objNext os with | .ok (id, os) => .ok (id, some os) | .err e => .err e | .panic p => .panic p))
        = .ok (r.obj, os') ∧
      (match os' with
        | none => ∀ r ∈ rows, isRoot r = true
        | some os => RepN cU64 validU64 os.actor (rows.map objActorV) ∧ RepN cU64 validU64 os.ctr (rows.map objCtrV)) := by
    cases hso : s.obj with
    | none =>
      rw [hso] at hobj
      simp only at hobj
      refine ⟨none, ?_, fun q hq => hobj q (List.mem_cons_of_mem _ hq)⟩
      rw [isRoot_eq r (hobj r List.mem_cons_self)]
    | some os =>
      rw [hso] at hobj
      simp only [List.map_cons] at hobj
      obtain ⟨os', e, r1, r2⟩ := objNext_ok os r rows hr.obj hobj.1 hobj.2
      exact ⟨some os', by simp only [e], r1, r2⟩
  obtain ⟨os', eO, rO⟩ := hO
  obtain ⟨ks, eK, rkA, rkC, rkS⟩ := keyNext_ok s.key r rows hr.key hkA hkC hkS
  obtain ⟨is, eI, rI, -⟩ := bRep_step _ _ _ hins
  obtain ⟨oa, acs, eA, bA, rA⟩ := repN_step lawful_u64 _ _ _ hact
  have hoa := bind_id_some bA
  subst hoa
  obtain ⟨vs, eV, rV⟩ := vRep_step _ _ _ hr.val hval
  obtain ⟨ps, eP, rpN, rpA, rpC⟩ := predNext_ok s.pred r rows hr.pred hpN hpA hpC
  obtain ⟨es, eE, rE⟩ := mbRep_step _ _ _ hexp
  obtain ⟨om, ms, eM, bM, rM⟩ := repN_step lawful_smol _ _ _ hmark
  refine ⟨{ obj := os', key := ks, insert := is, action := acs, val := vs, pred := ps, expand := es, markName := ms },
    ?_, ⟨rO, rkA, rkC, rkS, rI, rA, rV, rpN, rpA, rpC, rE, rM⟩⟩
  unfold rowNext
  simp only [eK, eI, eA, eV, eP, eE, eM, hr.action.2, if_true, bM]
  cases hso : s.obj with
  | none =>
    rw [hso] at eO
    simp only [Outcome.ok.injEq, Prod.mk.injEq] at eO
    obtain ⟨e1, e2⟩ := eO
    subst e2
    obtain ⟨o, k, i, a, v, p, e, m⟩ := r
    simp only at e1
    subst e1
    rfl
  | some os =>
    rw [hso] at eO
    simp only at eO ⊢
    cases hon : objNext os with
    | ok pr =>
      rw [hon] at eO
      obtain ⟨id, os2⟩ := pr
      simp only [Outcome.ok.injEq, Prod.mk.injEq] at eO
      obtain ⟨e1, e2⟩ := eO
      subst e2
      obtain ⟨o, k, i, a, v, p, e, m⟩ := r
      simp only at e1
      subst e1
      rfl
    | err e => rw [hon] at eO; cases eO
    | panic p => rw [hon] at eO; cases eO

theorem rowsLoop_ok : ∀ (rows : List Row) (s : IterSt) (limit : Nat), rows.length ≤ limit →
    (∀ r ∈ rows, RowOK r) → IterRep s rows → rowsLoop limit s = .ok rows
  | [], s, limit, _, _, h => by
    have hd : s.action.done = true := repN_nil_done _ h.act
    cases limit <;> simp [rowsLoop, hd]
  | r :: rows, s, limit, hl, hok, h => by
    cases limit with
    | zero => simp at hl
    | succ n =>
      have hd : s.action.done = false := by
        have := h.act
        simp only [List.map_cons] at this
        exact repN_some_not_done _ _ _ this
      obtain ⟨s', e, h'⟩ := rowNext_ok s r rows (hok r List.mem_cons_self) h
      have ih := rowsLoop_ok rows s' n (by simpa using hl) (fun q hq => hok q (List.mem_cons_of_mem _ hq)) h'
      rw [rowsLoop]
      simp only [hd, Bool.false_eq_true, if_false, e, ih]

end AmVerif.ChangeCodec.Full
