import AmVerif.Proofs.DocCodecSearch
/-
  C11 (document chunk), reconstruction: what the builders hold after a list of ops with distinct ids was
  added, whatever the order of arrival — for both encoder strategies (`VecEncoder`: a slot per op;
  `ProgressiveEncoder`: the appended prefix and the sorted queue).
-/
namespace AmVerif.DocCodec
open AmVerif AmVerif.Crdt AmVerif.ChangeCodec

/-- the slot of an op in a builder -/
def idxIn (b : Builder) (op : RecOp) : Nat := op.id.ctr - b.start

/-- what a builder holds after exactly the ops `L` were added to it -/
def Holds (b : Builder) (L : List RecOp) : Prop :=
  match b.st with
  | .vec slots => slots.length = b.maxOp + 1 - b.start ∧
      ∀ k op, slots[k]? = some (some op) ↔ (op ∈ L ∧ idxIn b op = k)
  | .prog len out queue => len = out.length ∧
      (∀ j op, out[j]? = some op → idxIn b op = j) ∧
      (∀ x ∈ queue, x.1 = idxIn b x.2 ∧ len < x.1) ∧
      queue.Pairwise (fun x y => x.1 < y.1) ∧
      (∀ op, (op ∈ out ∨ op ∈ queue.map (·.2)) ↔ op ∈ L)

theorem id_of_idxIn {b : Builder} {x y : RecOp} (hx : Covers b.range x.id) (hy : Covers b.range y.id)
    (h : idxIn b x = idxIn b y) : x.id = y.id := by
  obtain ⟨a1, a2, _⟩ := hx
  obtain ⟨b1, b2, _⟩ := hy
  simp only [Builder.range] at a1 a2 b1 b2
  unfold idxIn at h
  have h1 : x.id.ctr = y.id.ctr := by omega
  have h2 : x.id.actor = y.id.actor := by omega
  cases hx' : x.id
  cases hy' : y.id
  rw [hx'] at h1 h2
  rw [hy'] at h1 h2
  simp only at h1 h2
  rw [h1, h2]

/-! ### the queue of the progressive encoder -/

theorem insertQueue_mem (i : Nat) (op : RecOp) (q : List (Nat × RecOp)) (hne : ∀ x ∈ q, x.1 ≠ i) (y : Nat × RecOp) :
    y ∈ insertQueue i op q ↔ y = (i, op) ∨ y ∈ q := by
  induction q with
  | nil => simp [insertQueue]
  | cons x xs ih =>
    unfold insertQueue
    split
    · simp only [List.mem_cons]
    · split
      · rename_i h
        exact absurd h.symm (hne x (List.mem_cons_self ..))
      · have := ih (fun z hz => hne z (List.mem_cons_of_mem _ hz))
        simp only [List.mem_cons, this]
        constructor
        · rintro (h | h | h)
          · exact Or.inr (Or.inl h)
          · exact Or.inl h
          · exact Or.inr (Or.inr h)
        · rintro (h | h | h)
          · exact Or.inr (Or.inl h)
          · exact Or.inl h
          · exact Or.inr (Or.inr h)

theorem insertQueue_sorted (i : Nat) (op : RecOp) (q : List (Nat × RecOp))
    (hs : q.Pairwise (fun x y => x.1 < y.1)) (hne : ∀ x ∈ q, x.1 ≠ i) :
    (insertQueue i op q).Pairwise (fun x y => x.1 < y.1) := by
  induction q with
  | nil => exact List.pairwise_singleton _ _
  | cons x xs ih =>
    rw [List.pairwise_cons] at hs
    unfold insertQueue
    split
    · rename_i hlt
      refine List.pairwise_cons.2 ⟨?_, List.pairwise_cons.2 hs⟩
      intro y hy
      cases hy with
      | head => exact hlt
      | tail _ hy' => exact Nat.lt_trans hlt (hs.1 y hy')
    · split
      · rename_i h
        exact absurd h.symm (hne x (List.mem_cons_self ..))
      · rename_i h1 h2
        have hne' : ∀ z ∈ xs, z.1 ≠ i := fun z hz => hne z (List.mem_cons_of_mem _ hz)
        refine List.pairwise_cons.2 ⟨?_, ih hs.2 hne'⟩
        intro y hy
        rcases (insertQueue_mem i op xs hne' y).1 hy with rfl | hy'
        · show x.1 < i
          omega
        · exact hs.1 y hy'

theorem sorted_key_inj {q : List (Nat × RecOp)} (hs : q.Pairwise (fun x y => x.1 < y.1)) {x y : Nat × RecOp}
    (hx : x ∈ q) (hy : y ∈ q) (h : x.1 = y.1) : x = y := by
  induction q with
  | nil => cases hx
  | cons z zs ih =>
    rw [List.pairwise_cons] at hs
    cases hx with
    | head =>
      cases hy with
      | head => rfl
      | tail _ hy' => have := hs.1 y hy'; omega
    | tail _ hx' =>
      cases hy with
      | head => have := hs.1 x hx'; omega
      | tail _ hy' => exact ih hs.2 hx' hy'

theorem length_filter_lt {α : Type} (p : α → Bool) {l : List α} {x : α} (hx : x ∈ l) (hp : p x = false) :
    (l.filter p).length < l.length := by
  induction l with
  | nil => cases hx
  | cons y ys ih =>
    cases hx with
    | head =>
      rw [List.filter_cons, hp]
      have := List.length_filter_le p ys
      simp only [Bool.false_eq_true, if_false, List.length_cons]
      omega
    | tail _ hx' =>
      have := ih hx'
      rw [List.filter_cons]
      split <;> simp only [List.length_cons] <;> omega

/-- `drainQueue` keeps the shape of the progressive encoder and loses no op -/
theorem drainQueue_spec (b : Builder) :
    ∀ (fuel len : Nat) (out : List RecOp) (q : List (Nat × RecOp)),
      q.length < fuel → len = out.length → (∀ j op, out[j]? = some op → idxIn b op = j) →
      (∀ x ∈ q, x.1 = idxIn b x.2 ∧ len ≤ x.1) → q.Pairwise (fun x y => x.1 < y.1) →
      ∀ len' out' q', drainQueue fuel len out q = (len', out', q') →
        len' = out'.length ∧ (∀ j op, out'[j]? = some op → idxIn b op = j) ∧
        (∀ x ∈ q', x.1 = idxIn b x.2 ∧ len' < x.1) ∧ q'.Pairwise (fun x y => x.1 < y.1) ∧
        (∀ op, (op ∈ out' ∨ op ∈ q'.map (·.2)) ↔ (op ∈ out ∨ op ∈ q.map (·.2))) := by
  intro fuel
  induction fuel with
  | zero => intro len out q hf; omega
  | succ fuel ih =>
    intro len out q hf hlen hpos hq hs len' out' q' hd
    unfold drainQueue at hd
    split at hd
    · rename_i x hx
      have hxm := List.mem_of_find?_eq_some hx
      have hxk : x.1 = len := by simpa using List.find?_some hx
      have hflt : (q.filter (fun y => y.1 ≠ len)).length < q.length :=
        length_filter_lt _ hxm (by simp [hxk])
      have := ih (len + 1) (out ++ [x.2]) (q.filter (fun y => y.1 ≠ len)) (by omega)
        (by simp [hlen])
        (by
          intro j op hj
          rcases Nat.lt_or_ge j out.length with h | h
          · rw [List.getElem?_append_left h] at hj
            exact hpos j op hj
          · rw [List.getElem?_append_right h] at hj
            cases hjj : j - out.length with
            | zero =>
              rw [hjj] at hj
              simp only [List.getElem?_cons_zero, Option.some.injEq] at hj
              subst hj
              have := (hq x hxm).1
              omega
            | succ n => rw [hjj] at hj; simp at hj)
        (by
          intro y hy
          have hy' := List.mem_filter.1 hy
          have h1 := hq y hy'.1
          have h2 : y.1 ≠ len := by simpa using hy'.2
          exact ⟨h1.1, by omega⟩)
        (hs.filter _) len' out' q' hd
      obtain ⟨g1, g2, g3, g4, g5⟩ := this
      refine ⟨g1, g2, g3, g4, fun op => ?_⟩
      rw [g5 op]
      constructor
      · rintro (h | h)
        · rcases List.mem_append.1 h with h | h
          · exact Or.inl h
          · right
            rw [List.mem_singleton] at h
            exact List.mem_map.2 ⟨x, hxm, h.symm⟩
        · obtain ⟨y, hy, rfl⟩ := List.mem_map.1 h
          exact Or.inr (List.mem_map.2 ⟨y, (List.mem_filter.1 hy).1, rfl⟩)
      · rintro (h | h)
        · exact Or.inl (List.mem_append_left _ h)
        · obtain ⟨y, hy, rfl⟩ := List.mem_map.1 h
          by_cases hyk : y.1 = len
          · have : y = x := sorted_key_inj hs hy hxm (by omega)
            subst this
            exact Or.inl (List.mem_append_right _ (List.mem_singleton.2 rfl))
          · exact Or.inr (List.mem_map.2 ⟨y, List.mem_filter.2 ⟨hy, by simpa using hyk⟩, rfl⟩)
    · rename_i hnone
      simp only [Prod.mk.injEq] at hd
      obtain ⟨rfl, rfl, rfl⟩ := hd
      refine ⟨hlen, hpos, ?_, hs, fun _ => Iff.rfl⟩
      intro x hx
      have h1 := hq x hx
      have h2 : x.1 ≠ len := by simpa using List.find?_eq_none.1 hnone x hx
      exact ⟨h1.1, by omega⟩

/-! ### one `add` -/

theorem Builder.add_change {b b' : Builder} {op : RecOp} (h : b.add op = .ok b') : b'.change = b.change := by
  unfold Builder.add at h
  simp only [] at h
  split at h
  · split at h
    · cases h; rfl
    · cases h
    · cases h
  · split at h
    · cases h; rfl
    · cases h; rfl

/-- adding an op of the builder's range whose id is new succeeds, and the builder holds it too -/
theorem Builder.add_holds {b : Builder} {L : List RecOp} {op : RecOp} (hh : Holds b L)
    (hc : Covers b.range op.id) (hL : ∀ x ∈ L, Covers b.range x.id) (hnew : ∀ x ∈ L, x.id ≠ op.id) :
    ∃ b', b.add op = .ok b' ∧ Holds b' (L ++ [op]) := by
  obtain ⟨c1, c2, c3⟩ := hc
  simp only [Builder.range] at c1 c2 c3
  unfold Holds at hh
  unfold Builder.add
  simp only []
  cases hst : b.st with
  | vec slots =>
    rw [hst] at hh
    simp only [] at hh ⊢
    obtain ⟨hlen, hiff⟩ := hh
    have hidx : op.id.ctr - b.start < slots.length := by omega
    cases hs : slots[op.id.ctr - b.start]? with
    | none =>
      have := List.getElem?_eq_getElem hidx
      rw [hs] at this; cases this
    | some X =>
      cases X with
      | some op' =>
        exfalso
        have := (hiff _ op').1 hs
        exact hnew op' this.1 (id_of_idxIn (hL op' this.1) ⟨c1, c2, c3⟩ this.2)
      | none =>
        simp only []
        refine ⟨_, rfl, ?_⟩
        unfold Holds
        simp only []
        refine ⟨by simpa using hlen, fun k op'' => ?_⟩
        rw [List.getElem?_set]
        by_cases hk : op.id.ctr - b.start = k
        · rw [if_pos hk, if_pos hidx]
          constructor
          · intro h
            simp only [Option.some.injEq] at h
            subst h
            exact ⟨List.mem_append_right _ (List.mem_singleton.2 rfl), hk⟩
          · rintro ⟨hm, hi⟩
            rcases List.mem_append.1 hm with hm | hm
            · have := (hiff k op'').2 ⟨hm, hi⟩
              rw [← hk, hs] at this
              cases this
            · rw [List.mem_singleton.1 hm]
        · rw [if_neg hk, hiff k op'']
          constructor
          · rintro ⟨hm, hi⟩
            exact ⟨List.mem_append_left _ hm, hi⟩
          · rintro ⟨hm, hi⟩
            rcases List.mem_append.1 hm with hm | hm
            · exact ⟨hm, hi⟩
            · rw [List.mem_singleton.1 hm] at hi
              exact absurd hi hk
  | prog len out queue =>
    rw [hst] at hh
    simp only [] at hh ⊢
    obtain ⟨hlen, hpos, hq, hs, hmem⟩ := hh
    have hcov : ∀ x, (x ∈ out ∨ x ∈ queue.map (·.2)) → Covers b.range x.id := fun x hx => hL x ((hmem x).1 hx)
    by_cases hi : op.id.ctr - b.start = len
    · rw [if_pos hi]
      cases hd : drainQueue (queue.length + 1) (len + 1) (out ++ [op]) queue with
      | mk l r =>
        cases r with
        | mk o q' =>
          simp only []
          refine ⟨_, rfl, ?_⟩
          have := drainQueue_spec b (queue.length + 1) (len + 1) (out ++ [op]) queue (by omega)
            (by simp [hlen])
            (by
              intro j op' hj
              rcases Nat.lt_or_ge j out.length with h | h
              · rw [List.getElem?_append_left h] at hj
                exact hpos j op' hj
              · rw [List.getElem?_append_right h] at hj
                cases hjj : j - out.length with
                | zero =>
                  rw [hjj] at hj
                  simp only [List.getElem?_cons_zero, Option.some.injEq] at hj
                  subst hj
                  unfold idxIn
                  omega
                | succ n => rw [hjj] at hj; simp at hj)
            (by
              intro x hx
              have := hq x hx
              exact ⟨this.1, by omega⟩)
            hs l o q' hd
          obtain ⟨g1, g2, g3, g4, g5⟩ := this
          unfold Holds
          simp only []
          refine ⟨g1, g2, g3, g4, fun op' => ?_⟩
          rw [g5 op']
          constructor
          · rintro (h | h)
            · rcases List.mem_append.1 h with h | h
              · exact List.mem_append_left _ ((hmem op').1 (Or.inl h))
              · exact List.mem_append_right _ h
            · exact List.mem_append_left _ ((hmem op').1 (Or.inr h))
          · intro h
            rcases List.mem_append.1 h with h | h
            · rcases (hmem op').2 h with h | h
              · exact Or.inl (List.mem_append_left _ h)
              · exact Or.inr h
            · exact Or.inl (List.mem_append_right _ h)
    · rw [if_neg hi]
      refine ⟨_, rfl, ?_⟩
      -- the index is beyond the appended prefix: an earlier one would be an op of the same id
      have hgt : len < op.id.ctr - b.start := by
        rcases Nat.lt_or_ge (op.id.ctr - b.start) len with h | h
        · exfalso
          have hlt : op.id.ctr - b.start < out.length := by omega
          have hget := List.getElem?_eq_getElem hlt
          have hidx := hpos _ _ hget
          have hin : out[op.id.ctr - b.start] ∈ out := List.getElem_mem hlt
          have hLm := (hmem _).1 (Or.inl hin)
          exact hnew _ hLm (id_of_idxIn (hL _ hLm) ⟨c1, c2, c3⟩ hidx)
        · omega
      have hne : ∀ x ∈ queue, x.1 ≠ op.id.ctr - b.start := by
        intro x hx heq
        have hx2 : x.2 ∈ queue.map (·.2) := List.mem_map.2 ⟨x, hx, rfl⟩
        have hLm := (hmem _).1 (Or.inr hx2)
        have : idxIn b x.2 = idxIn b op := by
          have := (hq x hx).1
          unfold idxIn at this ⊢
          omega
        exact hnew _ hLm (id_of_idxIn (hL _ hLm) ⟨c1, c2, c3⟩ this)
      unfold Holds
      simp only []
      refine ⟨hlen, hpos, ?_, insertQueue_sorted _ _ _ hs hne, fun op' => ?_⟩
      · intro x hx
        rcases (insertQueue_mem _ _ _ hne x).1 hx with rfl | hx'
        · exact ⟨rfl, hgt⟩
        · exact hq x hx'
      · constructor
        · rintro (h | h)
          · exact List.mem_append_left _ ((hmem op').1 (Or.inl h))
          · obtain ⟨y, hy, rfl⟩ := List.mem_map.1 h
            rcases (insertQueue_mem _ _ _ hne y).1 hy with rfl | hy'
            · exact List.mem_append_right _ (List.mem_singleton.2 rfl)
            · exact List.mem_append_left _ ((hmem _).1 (Or.inr (List.mem_map.2 ⟨y, hy', rfl⟩)))
        · intro h
          rcases List.mem_append.1 h with h | h
          · rcases (hmem op').2 h with h | h
            · exact Or.inl h
            · obtain ⟨y, hy, rfl⟩ := List.mem_map.1 h
              exact Or.inr (List.mem_map.2 ⟨y, (insertQueue_mem _ _ _ hne y).2 (Or.inr hy), rfl⟩)
          · rw [List.mem_singleton.1 h]
            exact Or.inr (List.mem_map.2 ⟨(op.id.ctr - b.start, op), (insertQueue_mem _ _ _ hne _).2 (Or.inl rfl), rfl⟩)

end AmVerif.DocCodec
