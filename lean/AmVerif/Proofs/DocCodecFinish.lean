import AmVerif.Proofs.DocCodecIdeal
/-
  C11 (document chunk), reconstruction: `ChangeCollector::collect` after the ops are placed — the per-actor
  sequence / `max_op` checks and `ChangeBuilder::finish` for every change row, in graph order.

  `finishChanges_applied`: when the builder looked up for change row `i` returns the ops of the `i`-th
  applied change (as `recOf`), the changes rebuilt are the applied changes — hashes included, given that
  every change's hash is the SHA-256 of its canonical encoding (`ReconOk.hash`).
-/
namespace AmVerif.DocCodec
open AmVerif AmVerif.Crdt AmVerif.ChangeCodec

/-- the change row `save` writes for an applied change -/
def metaOf (applied : List DChange) (d : DChange) : ChangeMeta :=
  { actor := idxOf (actorTable applied) d.c.actor, seq := d.c.seq, maxOp := d.maxOp, time := d.time,
    message := d.message, deps := d.c.deps.map (hashIdx applied), extra := d.extra }

theorem imageOf_changes (applied : List DChange) : (imageOf applied).changes = applied.map (metaOf applied) := rfl

theorem imageOf_actors (applied : List DChange) : (imageOf applied).actors = actorTable applied := rfl

/-- what the reconstruction needs of the history -/
structure ReconOk (applied : List DChange) : Prop where
  /-- ops name actors of the table, objects and elements have positive counters, predecessors are sorted -/
  ops : ∀ d ∈ applied, ∀ o ∈ d.c.ops, OpR (actorTable applied) o
  /-- the ops of a change have consecutive ids from `start_op`, of the change's actor -/
  ids : ∀ d ∈ applied, ∀ (j : Nat) (o : Op), d.c.ops[j]? = some o → o.id = (⟨d.c.startOp + j, d.c.actor⟩ : OpId)
  startPos : ∀ d ∈ applied, 0 < d.c.startOp
  /-- dependencies are earlier changes -/
  deps : ∀ (i : Nat) (d : DChange), applied[i]? = some d → ∀ h ∈ d.c.deps, hashIdx applied h < i
  /-- a change's hash is the hash of its encoding (C10), dependencies in the order the change lists them -/
  hash : ∀ d ∈ applied, d.c.hash = Chunk.chunkHash Consts.CHUNK_TYPE_CHANGE
    (encodeBody d.c.deps d.c.actor (otherActors d.c.actor d.c.ops) d.c.seq d.c.startOp d.time d.message
      (d.c.ops.map (toRow (d.c.actor :: otherActors d.c.actor d.c.ops))) d.extra)
  /-- the changes of an actor appear with sequence numbers 1, 2, … -/
  seqs : ∀ (i : Nat) (d : DChange), applied[i]? = some d →
    d.c.seq = ((applied.take i).filter (fun e => e.c.actor = d.c.actor)).length + 1
  /-- … and non-decreasing `max_op` -/
  maxOps : ∀ (i j : Nat) (di dj : DChange), applied[i]? = some di → applied[j]? = some dj → i < j →
    di.c.actor = dj.c.actor → di.maxOp ≤ dj.maxOp

theorem author_mem_table {applied : List DChange} {d : DChange} (hd : d ∈ applied) :
    d.c.actor ∈ actorTable applied :=
  mem_sortBytes.2 (List.mem_map.2 ⟨d, hd, rfl⟩)

theorem actorTable_sorted (applied : List DChange) : BSortedL (actorTable applied) := sortBytes_sorted _

theorem deps_resolve {applied : List DChange} {i : Nat} :
    ∀ {deps : List Hash}, (∀ h ∈ deps, hashIdx applied h < i) → i ≤ applied.length →
      (deps.map (hashIdx applied)).filterMap (fun d => (applied.take i)[d]?.map (·.c.hash)) = deps
  | [], _, _ => rfl
  | h :: rest, hlt, hi => by
    have h1 := hlt h (List.mem_cons_self ..)
    have hlen : hashIdx applied h < applied.length := by omega
    rw [List.map_cons, List.filterMap_cons, List.getElem?_take_of_lt h1, List.getElem?_eq_getElem hlen]
    have key : ∀ (hl : List.findIdx (fun d => d.c.hash == h) applied < applied.length),
        (applied[List.findIdx (fun d => d.c.hash == h) applied]).c.hash = h := fun hl => by
      simpa using List.findIdx_getElem (p := fun d => d.c.hash == h) (xs := applied) (w := hl)
    have : (applied[hashIdx applied h]).c.hash = h := key hlen
    simp only [Option.map_some, this]
    rw [deps_resolve (fun x hx => hlt x (List.mem_cons_of_mem _ hx)) hi]

/-- **one change rebuilt**: from the ops of the `i`-th applied change, the change itself -/
theorem rebuildChange_applied {applied : List DChange} (hr : ReconOk applied) {i : Nat} {d : DChange}
    (hi : applied[i]? = some d) :
    rebuildChange (actorTable applied) (applied.take i) (metaOf applied d)
      (d.c.ops.map (recOf (actorTable applied))) = .ok d := by
  have hd : d ∈ applied := List.mem_of_getElem? hi
  have hilt : i < applied.length := (List.getElem?_eq_some_iff.1 hi).1
  have hts := actorTable_sorted applied
  have hauth := author_mem_table hd
  have hops : ∀ o ∈ d.c.ops, ∀ a ∈ opActors o, a ∈ actorTable applied := fun o ho => (hr.ops d hd o ho).actors
  have hothers : ∀ a ∈ otherActors d.c.actor d.c.ops, a ∈ actorTable applied := by
    intro a ha
    unfold otherActors at ha
    obtain ⟨o, ho, hao⟩ := List.mem_flatMap.1 (List.mem_filter.1 (mem_sortBytes.1 ha)).1
    exact hops o ho a hao
  have hT : ∀ a ∈ d.c.actor :: otherActors d.c.actor d.c.ops, a ∈ actorTable applied := by
    intro a ha
    cases ha with
    | head => exact hauth
    | tail _ h => exact hothers a h
  unfold rebuildChange
  simp only [metaOf]
  rw [getElem?_idxOf hauth]
  simp only []
  -- no actor index outside the table
  have hany : ((d.c.ops.map (recOf (actorTable applied))).flatMap recActors).any
      (fun a => decide ((actorTable applied).length ≤ a)) = false := by
    rw [List.any_eq_false]
    intro x hx
    obtain ⟨r, hr', hxr⟩ := List.mem_flatMap.1 hx
    obtain ⟨o, ho, rfl⟩ := List.mem_map.1 hr'
    obtain ⟨a, hao, rfl⟩ := (mem_recActors_recOf _ o x).1 hxr
    have := idxOf_lt (hops o ho a hao)
    simp only [decide_eq_true_eq]
    omega
  simp only [hany, Bool.false_eq_true, if_false]
  -- every dependency is rebuilt already
  have hdeps := hr.deps i d hi
  have hdany : (d.c.deps.map (hashIdx applied)).any (fun x => decide ((applied.take i).length ≤ x)) = false := by
    rw [List.any_eq_false]
    intro x hx
    obtain ⟨h, hh, rfl⟩ := List.mem_map.1 hx
    have := hdeps h hh
    simp only [decide_eq_true_eq, List.length_take]
    omega
  simp only [hdany, Bool.false_eq_true, if_false]
  rw [otherIdx_recOf hts hauth hops, filterMap_getElem_idxOf hothers, deps_resolve hdeps (by omega)]
  -- the first op
  have hstart : firstCtr (d.c.ops.map (recOf (actorTable applied))) (d.maxOp + 1) = d.c.startOp := by
    unfold firstCtr
    cases hops' : d.c.ops with
    | nil =>
      have := hr.startPos d hd
      simp only [List.map_nil, List.head?_nil, DChange.maxOp, hops', List.length_nil, Nat.add_zero]
      exact Nat.sub_add_cancel this
    | cons o rest =>
      have := hr.ids d hd 0 o (by rw [hops']; rfl)
      simp only [List.map_cons, List.head?_cons, recOf, toIdx, this, Nat.add_zero]
  rw [hstart]
  -- the rows
  have hrows : (d.c.ops.map (recOf (actorTable applied))).map
      (RecOp.toChangeRow (idxOf (actorTable applied) d.c.actor ::
        (otherActors d.c.actor d.c.ops).map (idxOf (actorTable applied)))) =
      d.c.ops.map (toRow (d.c.actor :: otherActors d.c.actor d.c.ops)) := by
    rw [List.map_map]
    apply List.map_congr_left
    intro o ho
    exact toChangeRow_recOf (T' := d.c.actor :: otherActors d.c.actor d.c.ops) hT (hr.ops d hd o ho)
  rw [hrows]
  have hexp : expandRows (d.c.actor :: otherActors d.c.actor d.c.ops) d.c.actor d.c.startOp
      (d.c.ops.map (toRow (d.c.actor :: otherActors d.c.actor d.c.ops))) = .ok d.c.ops := by
    apply expandRows_toRow
    · intro o ho a hao
      by_cases h : a = d.c.actor
      · rw [h]; exact List.mem_cons_self ..
      · apply List.mem_cons_of_mem
        unfold otherActors
        rw [mem_sortBytes, List.mem_filter]
        exact ⟨List.mem_flatMap.2 ⟨o, ho, hao⟩, by simpa using h⟩
    · intro o ho
      have := hr.ops d hd o ho
      exact ⟨this.objPos, this.keyPos, this.predSorted⟩
    · exact hr.ids d hd
  rw [hexp]
  simp only []
  rw [← hr.hash d hd]

/-! ### the loop over the change rows -/

/-- the per-actor arrays of `collect` after `k` changes -/
structure SInv (applied : List DChange) (k : Nat) (seqs maxOps : List Nat) : Prop where
  seqs : ∀ (a : Nat), a < (actorTable applied).length →
    seqs[a]? = some ((applied.take k).filter (fun e => idxOf (actorTable applied) e.c.actor = a)).length
  maxOps : ∀ (a : Nat), a < (actorTable applied).length → ∃ m, maxOps[a]? = some m ∧
    (m = 0 ∨ ∃ (j : Nat) (dj : DChange), j < k ∧ applied[j]? = some dj ∧
      idxOf (actorTable applied) dj.c.actor = a ∧ dj.maxOp = m)

theorem drop_zip_range {α : Type} (l : List α) (k : Nat) (x : α) (h : l[k]? = some x) :
    ((List.range l.length).zip l).drop k = (k, x) :: ((List.range l.length).zip l).drop (k + 1) := by
  have hk : k < l.length := (List.getElem?_eq_some_iff.1 h).1
  have hz : k < ((List.range l.length).zip l).length := by simp [hk]
  rw [List.drop_eq_getElem_cons hz]
  congr 1
  simp only [List.getElem_zip, List.getElem_range]
  obtain ⟨_, h'⟩ := List.getElem?_eq_some_iff.1 h
  rw [h']

/-- **the rebuilt changes are the applied changes** -/
theorem finishChanges_applied {applied : List DChange} (hr : ReconOk applied) {bs : List Builder}
    (hb : ∀ (i : Nat) (d : DChange), applied[i]? = some d →
      ∃ b, bs.find? (fun b => b.change = i) = some b ∧ b.ops = .ok (d.c.ops.map (recOf (actorTable applied)))) :
    ∀ (r k : Nat) (seqs maxOps : List Nat), k + r = applied.length → SInv applied k seqs maxOps →
      finishChanges (actorTable applied) bs
        (((List.range (applied.map (metaOf applied)).length).zip (applied.map (metaOf applied))).drop k)
        seqs maxOps (applied.take k) = .ok applied := by
  intro r
  induction r with
  | zero =>
    intro k seqs maxOps hk _
    have hk' : k = applied.length := by omega
    subst hk'
    rw [List.drop_of_length_le (by simp), List.take_length]
    rfl
  | succ r ih =>
    intro k seqs maxOps hk hinv
    have hklt : k < applied.length := by omega
    have hd := List.getElem?_eq_getElem hklt
    have hdm : applied[k] ∈ applied := List.getElem_mem hklt
    have hm : (applied.map (metaOf applied))[k]? = some (metaOf applied applied[k]) := by
      rw [List.getElem?_map, hd]; rfl
    rw [drop_zip_range _ k _ hm]
    unfold finishChanges
    have hauth := author_mem_table hdm
    have halt := idxOf_lt hauth
    have hsq := hinv.seqs _ halt
    obtain ⟨mo, hmo, hmo'⟩ := hinv.maxOps _ halt
    simp only [metaOf] at hsq hmo ⊢
    rw [hsq, hmo]
    simp only []
    -- the sequence number
    have hfilter : (applied.take k).filter (fun e => idxOf (actorTable applied) e.c.actor =
        idxOf (actorTable applied) applied[k].c.actor) =
        (applied.take k).filter (fun e => e.c.actor = applied[k].c.actor) := by
      apply List.filter_congr
      intro e he
      have hem : e ∈ applied := List.mem_of_mem_take he
      by_cases h : e.c.actor = applied[k].c.actor
      · simp [h]
      · have : idxOf (actorTable applied) e.c.actor ≠ idxOf (actorTable applied) applied[k].c.actor :=
          fun h' => h (idxOf_inj (author_mem_table hem) hauth h')
        simp [h, this]
    have hseq := hr.seqs k _ hd
    simp only [hfilter, ← hseq, ne_eq, not_true_eq_false, if_false]
    -- `max_op`
    have hmax : ¬ applied[k].maxOp < mo := by
      rcases hmo' with h0 | ⟨j, dj, hj, hdj, hja, hjm⟩
      · omega
      · have := hr.maxOps j k dj _ hdj hd hj
          (idxOf_inj (author_mem_table (List.mem_of_getElem? hdj)) hauth hja)
        omega
    simp only [hmax, if_false]
    obtain ⟨b, hfind, hops⟩ := hb k _ hd
    rw [hfind]
    simp only []
    rw [hops]
    simp only []
    have hreb := rebuildChange_applied hr hd
    simp only [metaOf] at hreb
    rw [hreb]
    simp only []
    have htake : applied.take k ++ [applied[k]] = applied.take (k + 1) := by
      rw [List.take_succ, hd]; rfl
    rw [htake]
    apply ih (k + 1) _ _ (by omega)
    -- the arrays after this change
    refine ⟨fun a ha => ?_, fun a ha => ?_⟩
    · unfold setNth
      rw [List.getElem?_set]
      by_cases hia : idxOf (actorTable applied) applied[k].c.actor = a
      · have hlen : idxOf (actorTable applied) applied[k].c.actor < seqs.length :=
          (List.getElem?_eq_some_iff.1 hsq).1
        rw [if_pos hia, if_pos hlen, ← htake, List.filter_append, List.length_append, ← hia, hfilter, hseq]
        simp
      · rw [if_neg hia, hinv.seqs a ha, ← htake, List.filter_append, List.length_append]
        simp [hia]
    · unfold setNth
      rw [List.getElem?_set]
      by_cases hia : idxOf (actorTable applied) applied[k].c.actor = a
      · have hlen : idxOf (actorTable applied) applied[k].c.actor < maxOps.length :=
          (List.getElem?_eq_some_iff.1 hmo).1
        rw [if_pos hia, if_pos hlen]
        exact ⟨_, rfl, Or.inr ⟨k, _, by omega, hd, hia, rfl⟩⟩
      · rw [if_neg hia]
        obtain ⟨m, hm1, hm2⟩ := hinv.maxOps a ha
        refine ⟨m, hm1, ?_⟩
        rcases hm2 with h0 | ⟨j, dj, hj, hdj, hja, hjm⟩
        · exact Or.inl h0
        · exact Or.inr ⟨j, dj, by omega, hdj, hja, hjm⟩

theorem sinv_init (applied : List DChange) :
    SInv applied 0 (List.replicate (actorTable applied).length 0) (List.replicate (actorTable applied).length 0) := by
  refine ⟨fun a ha => ?_, fun a ha => ?_⟩
  · rw [List.getElem?_replicate, if_pos ha]; rfl
  · exact ⟨0, by rw [List.getElem?_replicate, if_pos ha], Or.inl rfl⟩

end AmVerif.DocCodec
