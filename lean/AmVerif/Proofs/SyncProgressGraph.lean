import AmVerif.Proofs.SyncProgressBasic
/-
  Progress half of C20, part 2: the two graph walks of the sync code.
  * `ancestorsIn` (used by `get_hashes`) computes reachability through `deps`, hence the same set
    for two application orders of the same changes;
  * `missing_deps_from`: everything it reports is really missing (neither applied nor queued) and is
    known to whoever supplied the start hashes and the queued changes; and if it reports nothing
    while no queued change is ready, every start hash is applied.
-/
namespace AmVerif.Sync.Prog
open AmVerif AmVerif.Sync

/-! ### `ancestorsIn` is reachability -/

/-- `h` is reachable from `s` through the `deps` of changes in `l` -/
inductive Anc (l : List Change) (s : List Hash) : Hash → Prop
  | base {h : Hash} : h ∈ s → Anc l s h
  | step {c : Change} {h : Hash} : c ∈ l → Anc l s c.hash → h ∈ c.deps → Anc l s h

theorem Anc.mono {l l' : List Change} {s : List Hash} {h : Hash} (sub : ∀ x ∈ l, x ∈ l')
    (a : Anc l s h) : Anc l' s h := by
  induction a with
  | base hs => exact Anc.base hs
  | step hc _ hd ih => exact Anc.step (sub _ hc) ih hd

theorem Anc.push {c : Change} {rest : List Change} {s : List Hash} {h : Hash}
    (a : Anc rest (c.deps ++ s) h) (hc : c.hash ∈ s) : Anc (c :: rest) s h := by
  induction a with
  | base hs =>
    rcases List.mem_append.mp hs with h1 | h1
    · exact Anc.step (List.mem_cons_self) (Anc.base hc) h1
    · exact Anc.base h1
  | step hc' _ hd ih => exact Anc.step (List.mem_cons_of_mem _ hc') ih hd

theorem Anc.pop {c : Change} {rest : List Change} {s : List Hash} {h : Hash}
    (a : Anc (c :: rest) s h) (hfresh : c.hash ∉ rest.map (·.hash)) :
    h = c.hash ∨ Anc rest (c.deps ++ s) h := by
  induction a with
  | base hs => exact Or.inr (Anc.base (List.mem_append_right _ hs))
  | @step c' h' hc' _ hd ih =>
    rcases List.mem_cons.mp hc' with rfl | hc''
    · exact Or.inr (Anc.base (List.mem_append_left _ hd))
    · rcases ih with h1 | h1
      · exact absurd (by rw [← h1]; exact mem_hashes_of_mem hc'') hfresh
      · exact Or.inr (Anc.step hc'' h1 hd)

theorem Anc.skip {c : Change} {rest : List Change} {s : List Hash} {h : Hash}
    (a : Anc (c :: rest) s h) (ht : Topo (c :: rest)) (hs : c.hash ∉ s) :
    Anc rest s h ∧ h ≠ c.hash := by
  induction a with
  | base hin => exact ⟨Anc.base hin, fun e => hs (e ▸ hin)⟩
  | @step c' h' hc' _ hd ih =>
    have hc'' : c' ∈ rest := by
      rcases List.mem_cons.mp hc' with rfl | h1
      · exact absurd rfl ih.2
      · exact h1
    refine ⟨Anc.step hc'' ih.1 hd, ?_⟩
    intro e
    have := Topo.deps_mem rest ht.2.2 c' hc'' _ hd
    rw [e] at this
    exact ht.2.1 this

theorem mem_ancestorsIn : ∀ (l : List Change) (s : List Hash) (h : Hash), Topo l →
    (h ∈ Doc.ancestorsIn l s ↔ h ∈ l.map (·.hash) ∧ Anc l s h)
  | [], s, h, _ => by simp [Doc.ancestorsIn]
  | c :: rest, s, h, ht => by
    unfold Doc.ancestorsIn
    split
    · rename_i hin
      have hin' : c.hash ∈ s := by simpa using hin
      have ih := mem_ancestorsIn rest (c.deps ++ s) h ht.2.2
      simp only [List.mem_cons, List.map_cons, ih]
      constructor
      · rintro (rfl | ⟨h1, h2⟩)
        · exact ⟨Or.inl rfl, Anc.base hin'⟩
        · exact ⟨Or.inr h1, h2.push hin'⟩
      · rintro ⟨h1 | h1, h2⟩
        · exact Or.inl h1
        · rcases h2.pop ht.2.1 with h3 | h3
          · exact Or.inl h3
          · exact Or.inr ⟨h1, h3⟩
    · rename_i hin
      have hin' : c.hash ∉ s := by simpa using hin
      have ih := mem_ancestorsIn rest s h ht.2.2
      simp only [List.map_cons, List.mem_cons, ih]
      constructor
      · rintro ⟨h1, h2⟩
        exact ⟨Or.inr h1, h2.mono (fun x hx => List.mem_cons_of_mem _ hx)⟩
      · rintro ⟨h1, h2⟩
        obtain ⟨h3, h4⟩ := h2.skip ht hin'
        rcases h1 with h1 | h1
        · exact absurd h1 h4
        · exact ⟨h1, h3⟩

/-- two application orders of the same set of changes have the same ancestors -/
theorem ancestorsIn_congr {l₁ l₂ : List Change} (t₁ : Topo l₁) (t₂ : Topo l₂)
    (same : ∀ x, x ∈ l₁ ↔ x ∈ l₂) (s : List Hash) (h : Hash) :
    h ∈ Doc.ancestorsIn l₁ s ↔ h ∈ Doc.ancestorsIn l₂ s := by
  rw [mem_ancestorsIn l₁ s h t₁, mem_ancestorsIn l₂ s h t₂]
  have hh : h ∈ l₁.map (·.hash) ↔ h ∈ l₂.map (·.hash) := by
    simp only [List.mem_map]
    constructor
    · rintro ⟨x, hx, e⟩; exact ⟨x, (same x).mp hx, e⟩
    · rintro ⟨x, hx, e⟩; exact ⟨x, (same x).mpr hx, e⟩
  constructor
  · rintro ⟨h1, h2⟩; exact ⟨hh.mp h1, h2.mono (fun x hx => (same x).mp hx)⟩
  · rintro ⟨h1, h2⟩; exact ⟨hh.mpr h1, h2.mono (fun x hx => (same x).mpr hx)⟩

theorem mem_getHashes {d : Doc} {L : List Hash} {h : Hash} :
    h ∈ d.getHashes L ↔ h ∈ d.hashes ∧ h ∉ d.ancestors L := by
  simp [Doc.getHashes]

theorem getHashes_congr {d₁ d₂ : Doc} (t₁ : Topo d₁.applied) (t₂ : Topo d₂.applied)
    (same : ∀ x, x ∈ d₁.applied ↔ x ∈ d₂.applied) (L : List Hash) (h : Hash) :
    h ∈ d₁.getHashes L ↔ h ∈ d₂.getHashes L := by
  rw [mem_getHashes, mem_getHashes]
  have hh : h ∈ d₁.hashes ↔ h ∈ d₂.hashes := by
    simp only [Doc.hashes, List.mem_map]
    constructor
    · rintro ⟨x, hx, e⟩; exact ⟨x, (same x).mp hx, e⟩
    · rintro ⟨x, hx, e⟩; exact ⟨x, (same x).mpr hx, e⟩
  have ha : h ∈ d₁.ancestors L ↔ h ∈ d₂.ancestors L := ancestorsIn_congr t₁ t₂ same L h
  rw [hh, ha]

/-! ### `missing_deps_from` -/

theorem findQueued_some {d : Doc} {h : Hash} {c : Change} (hf : d.findQueued h = some c) :
    c ∈ d.queue ∧ c.hash = h := by
  unfold Doc.findQueued at hf
  exact ⟨List.mem_of_find?_eq_some hf, by simpa using List.find?_some hf⟩

theorem findQueued_none {d : Doc} {h : Hash} (hf : d.findQueued h = none) :
    h ∉ d.queue.map (·.hash) := by
  unfold Doc.findQueued at hf
  intro hm
  obtain ⟨c, hc, rfl⟩ := List.mem_map.mp hm
  have := List.find?_eq_none.mp hf c hc
  simp at this

/-- what is already recorded as missing stays in the result -/
theorem missingLoop_keeps (d : Doc) : ∀ (fuel : Nat) (stack seen missing : List Hash) (x : Hash),
    x ∈ missing → x ∈ Doc.missingLoop d fuel stack seen missing
  | 0, _, _, _, _, h => by simpa [Doc.missingLoop] using h
  | _ + 1, [], _, _, _, h => by simpa [Doc.missingLoop] using h
  | fuel + 1, h :: stack, seen, missing, x, hx => by
    unfold Doc.missingLoop
    split
    · exact missingLoop_keeps d fuel _ _ _ x hx
    · split
      · exact missingLoop_keeps d fuel _ _ _ x hx
      · exact missingLoop_keeps d fuel _ _ _ x (List.mem_cons_of_mem _ hx)

/-- soundness: a reported hash has not arrived, and it satisfies any predicate that holds of the
    start hashes and of the dependencies of the queued changes -/
theorem missingLoop_sound (d : Doc) (P : Hash → Prop)
    (hq : ∀ c ∈ d.queue, ∀ h ∈ c.deps, P h) :
    ∀ (fuel : Nat) (stack seen missing : List Hash) (x : Hash), (∀ h ∈ stack, P h) →
    x ∈ Doc.missingLoop d fuel stack seen missing → x ∈ missing ∨ (P x ∧ hasB d x = false)
  | 0, _, _, _, _, _, h => by left; simpa [Doc.missingLoop] using h
  | _ + 1, [], _, _, _, _, h => by left; simpa [Doc.missingLoop] using h
  | fuel + 1, h :: stack, seen, missing, x, hs, hx => by
    unfold Doc.missingLoop at hx
    have hs' : ∀ y ∈ stack, P y := fun y hy => hs y (List.mem_cons_of_mem _ hy)
    split at hx
    · exact missingLoop_sound d P hq fuel _ _ _ x hs' hx
    · rename_i hcond
      split at hx
      · rename_i c hf
        apply missingLoop_sound d P hq fuel _ _ _ x _ hx
        intro y hy
        rcases List.mem_append.mp hy with h1 | h1
        · exact hq c (findQueued_some hf).1 y h1
        · exact hs' y h1
      · rename_i hf
        rcases missingLoop_sound d P hq fuel _ _ _ x hs' hx with h1 | h1
        · rcases List.mem_cons.mp h1 with rfl | h1
          · right
            refine ⟨hs x (by simp), ?_⟩
            rw [hasB_false_iff]
            simp only [Bool.or_eq_true, not_or, Bool.not_eq_true] at hcond
            refine ⟨?_, findQueued_none hf⟩
            intro hm
            rw [Doc.hasChange_iff.mpr hm] at hcond
            exact absurd hcond.1 (by simp)
          · left; exact h1
        · right; exact h1

theorem missingDepsFrom_sound (d : Doc) (P : Hash → Prop) (start : List Hash)
    (hq : ∀ c ∈ d.queue, ∀ h ∈ c.deps, P h) (hs : ∀ h ∈ start, P h) {x : Hash}
    (hx : x ∈ d.missingDepsFrom start) : P x ∧ hasB d x = false := by
  unfold Doc.missingDepsFrom at hx
  rw [mem_sortDedup] at hx
  rcases missingLoop_sound d P hq _ _ _ _ x hs hx with h | h
  · cases h
  · exact h

/-- the dependencies of a not yet expanded queued change: an upper bound on future pushes -/
def wt (seen : List Hash) (c : Change) : Nat := if seen.contains c.hash then 0 else c.deps.length

def unseenW (q : List Change) (seen : List Hash) : Nat := (q.map (wt seen)).sum

theorem wt_cons_ne {seen : List Hash} {h : Hash} {c : Change} (hne : c.hash ≠ h) :
    wt (h :: seen) c = wt seen c := by
  unfold wt
  have : (h :: seen).contains c.hash = seen.contains c.hash := by
    rw [List.contains_cons]
    have : (c.hash == h) = false := by simpa using hne
    rw [this]; rfl
  rw [this]

theorem wt_cons_self {seen : List Hash} {c : Change} : wt (c.hash :: seen) c = 0 := by
  unfold wt
  have : (c.hash :: seen).contains c.hash = true := by simp
  rw [this]; rfl

theorem wt_unseen {seen : List Hash} {c : Change} (h : c.hash ∉ seen) : wt seen c = c.deps.length := by
  unfold wt
  have : seen.contains c.hash = false := by simpa using h
  rw [this]; rfl

theorem unseenW_irrelevant : ∀ (q : List Change) (seen : List Hash) (h : Hash),
    h ∉ q.map (·.hash) → unseenW q (h :: seen) = unseenW q seen
  | [], _, _, _ => rfl
  | c :: q, seen, h, hn => by
    have h1 : c.hash ≠ h := fun e => hn (by simp [e])
    have h2 : h ∉ q.map (·.hash) := fun e => hn (by simp at e ⊢; exact Or.inr e)
    have ih := unseenW_irrelevant q seen h h2
    unfold unseenW at ih ⊢
    rw [List.map_cons, List.sum_cons, List.map_cons, List.sum_cons, ih, wt_cons_ne h1]

theorem unseenW_expand : ∀ (q : List Change) (seen : List Hash) (c : Change),
    (q.map (·.hash)).Nodup → c ∈ q → c.hash ∉ seen →
    unseenW q (c.hash :: seen) + c.deps.length = unseenW q seen
  | [], _, _, _, hc, _ => by cases hc
  | c0 :: q, seen, c, hnd, hc, hns => by
    have hnd' := List.nodup_cons.mp hnd
    rcases List.mem_cons.mp hc with rfl | hc'
    · have := unseenW_irrelevant q seen c.hash hnd'.1
      unfold unseenW at this ⊢
      rw [List.map_cons, List.sum_cons, List.map_cons, List.sum_cons, this, wt_cons_self,
        wt_unseen hns]
      omega
    · have hne : c0.hash ≠ c.hash := by
        intro e; apply hnd'.1; show c0.hash ∈ q.map (·.hash); rw [e]; exact mem_hashes_of_mem hc'
      have ih := unseenW_expand q seen c hnd'.2 hc' hns
      unfold unseenW at ih ⊢
      rw [List.map_cons, List.sum_cons, List.map_cons, List.sum_cons, wt_cons_ne hne]
      omega

/-- the depth-first search invariant: an expanded hash is a queued, not applied change all of whose
    dependencies are applied, expanded or waiting on the stack -/
def DFSInv (d : Doc) (stack seen : List Hash) : Prop :=
  ∀ s ∈ seen, s ∉ d.hashes ∧ ∃ c ∈ d.queue, c.hash = s ∧
    ∀ dep ∈ c.deps, dep ∈ d.hashes ∨ dep ∈ seen ∨ dep ∈ stack

/-- completeness: if the search reports nothing (and had enough fuel), the expanded set is closed
    and covers the stack -/
theorem missingLoop_complete (d : Doc) (hnd : (d.queue.map (·.hash)).Nodup) :
    ∀ (fuel : Nat) (stack seen missing : List Hash),
    stack.length + unseenW d.queue seen < fuel → DFSInv d stack seen →
    Doc.missingLoop d fuel stack seen missing = [] →
    ∃ seen', (∀ s ∈ seen, s ∈ seen') ∧ (∀ h ∈ stack, h ∈ d.hashes ∨ h ∈ seen') ∧ DFSInv d [] seen'
  | 0, _, _, _, hf, _, _ => by omega
  | fuel + 1, [], seen, _, _, hi, _ =>
    ⟨seen, fun _ h => h, fun _ h => (by cases h), hi⟩
  | fuel + 1, h :: stack, seen, missing, hf, hi, hres => by
    unfold Doc.missingLoop at hres
    split at hres
    · rename_i hcond
      have hh : h ∈ d.hashes ∨ h ∈ seen := by
        simp only [Bool.or_eq_true] at hcond
        rcases hcond with h1 | h1
        · left; exact Doc.hasChange_iff.mp h1
        · right; simpa using h1
      have hi' : DFSInv d stack seen := by
        intro s hs
        obtain ⟨h1, c, hc, hch, hdeps⟩ := hi s hs
        refine ⟨h1, c, hc, hch, ?_⟩
        intro dep hdep
        rcases hdeps dep hdep with h2 | h2 | h2
        · left; exact h2
        · right; left; exact h2
        · rcases List.mem_cons.mp h2 with rfl | h2
          · rcases hh with h3 | h3
            · left; exact h3
            · right; left; exact h3
          · right; right; exact h2
      obtain ⟨seen', s1, s2, s3⟩ := missingLoop_complete d hnd fuel stack seen missing
        (by simp at hf; omega) hi' hres
      refine ⟨seen', s1, ?_, s3⟩
      intro y hy
      rcases List.mem_cons.mp hy with rfl | hy
      · rcases hh with h3 | h3
        · left; exact h3
        · right; exact s1 _ h3
      · exact s2 y hy
    · rename_i hcond
      simp only [Bool.or_eq_true, not_or, Bool.not_eq_true] at hcond
      have hna : h ∉ d.hashes := by
        intro hm; rw [Doc.hasChange_iff.mpr hm] at hcond; exact absurd hcond.1 (by simp)
      have hns : h ∉ seen := by
        intro hm
        have : seen.contains h = true := by simpa using hm
        rw [this] at hcond; exact absurd hcond.2 (by simp)
      split at hres
      · rename_i c hfq
        obtain ⟨hcq, hch⟩ := findQueued_some hfq
        have hw := unseenW_expand d.queue seen c hnd hcq (by rw [hch]; exact hns)
        rw [hch] at hw
        have hi' : DFSInv d (c.deps ++ stack) (h :: seen) := by
          intro s hs
          rcases List.mem_cons.mp hs with rfl | hs
          · refine ⟨hna, c, hcq, hch, ?_⟩
            intro dep hdep
            right; right; exact List.mem_append_left _ hdep
          · obtain ⟨h1, c', hc', hch', hdeps⟩ := hi s hs
            refine ⟨h1, c', hc', hch', ?_⟩
            intro dep hdep
            rcases hdeps dep hdep with h2 | h2 | h2
            · left; exact h2
            · right; left; exact List.mem_cons_of_mem _ h2
            · rcases List.mem_cons.mp h2 with rfl | h2
              · right; left; simp
              · right; right; exact List.mem_append_right _ h2
        obtain ⟨seen', s1, s2, s3⟩ := missingLoop_complete d hnd fuel (c.deps ++ stack) (h :: seen)
          missing (by simp at hf ⊢; omega) hi' hres
        refine ⟨seen', fun s hs => s1 s (List.mem_cons_of_mem _ hs), ?_, s3⟩
        intro y hy
        rcases List.mem_cons.mp hy with rfl | hy
        · right; exact s1 _ (by simp)
        · exact s2 y (List.mem_append_right _ hy)
      · exfalso
        have := missingLoop_keeps d fuel stack (h :: seen) (h :: missing) h (by simp)
        rw [hres] at this; cases this

/-- a set of hashes of a topological list in which every member has a dependency in the set is
    empty (no infinite descent) -/
theorem no_descent : ∀ (l : List Change), Topo l → ∀ (S : List Hash),
    (∀ s ∈ S, s ∈ l.map (·.hash) → ∃ c ∈ l, c.hash = s ∧ ∃ dep ∈ c.deps, dep ∈ S) →
    ∀ s ∈ S, s ∉ l.map (·.hash)
  | [], _, _, _, _, _ => by simp
  | c :: rest, ht, S, hyp, s, hs => by
    have ih : ∀ s ∈ S, s ∉ rest.map (·.hash) := by
      apply no_descent rest ht.2.2 S
      intro s hs hm
      obtain ⟨c', hc', hch, hd⟩ := hyp s hs (by simp only [List.map_cons, List.mem_cons]; exact Or.inr hm)
      rcases List.mem_cons.mp hc' with rfl | hc''
      · exact absurd (hch ▸ hm) ht.2.1
      · exact ⟨c', hc'', hch, hd⟩
    intro hm
    obtain ⟨c', hc', hch, dep, hdep, hdS⟩ := hyp s hs hm
    rcases List.mem_cons.mp hc' with rfl | hc''
    · exact ih dep hdS (ht.1 dep hdep)
    · exact ih s hs (hch ▸ mem_hashes_of_mem hc'')

/-- If `missing_deps_from(start)` reports nothing, no queued change is ready and the queued changes
    come from a topological change list `l` (the peer's change graph), then every start hash is
    applied. -/
theorem applied_of_missing_nil (d : Doc) (l : List Change) (start : List Hash)
    (hnd : (d.queue.map (·.hash)).Nodup) (ht : Topo l) (hql : ∀ c ∈ d.queue, c ∈ l)
    (hst : Stuck d.applied d.queue) (hnil : d.missingDepsFrom start = []) :
    ∀ h ∈ start, h ∈ d.hashes := by
  have hnil0 : sortDedup (Doc.missingLoop d
      (start.length + (d.queue.map (fun c => c.deps.length)).sum + 1) start [] []) = [] := hnil
  have hnil' : Doc.missingLoop d (start.length + (d.queue.map (fun c => c.deps.length)).sum + 1)
      start [] [] = [] := by
    cases hm : Doc.missingLoop d (start.length + (d.queue.map (fun c => c.deps.length)).sum + 1)
        start [] [] with
    | nil => rfl
    | cons x xs =>
      have : x ∈ sortDedup (x :: xs) := mem_sortDedup.mpr (by simp)
      rw [hm] at hnil0
      rw [hnil0] at this; cases this
  have hw : unseenW d.queue [] = (d.queue.map (fun c => c.deps.length)).sum := by
    unfold unseenW
    congr 1
  obtain ⟨seen', _, s2, s3⟩ := missingLoop_complete d hnd _ start [] [] (by rw [hw]; omega)
    (fun s hs => by cases hs) hnil'
  have hempty : ∀ s ∈ seen', s ∉ l.map (·.hash) := by
    apply no_descent l ht seen'
    intro s hs _
    obtain ⟨_, c, hc, hch, hdeps⟩ := s3 s hs
    refine ⟨c, hql c hc, hch, ?_⟩
    have hr := hst c hc
    have : ¬ ∀ h ∈ c.deps, h ∈ d.applied.map (·.hash) := by
      intro hall; rw [ready_iff.mpr hall] at hr; cases hr
    have : ∃ dep ∈ c.deps, dep ∉ d.applied.map (·.hash) := by
      apply Classical.byContradiction
      intro hno
      apply this
      intro h hh
      apply Classical.byContradiction
      intro hn
      exact hno ⟨h, hh, hn⟩
    obtain ⟨dep, hdep, hdn⟩ := this
    refine ⟨dep, hdep, ?_⟩
    rcases hdeps dep hdep with h1 | h1 | h1
    · exact absurd h1 hdn
    · exact h1
    · cases h1
  intro h hh
  rcases s2 h hh with h1 | h1
  · exact h1
  · exfalso
    obtain ⟨_, c, hc, hch, _⟩ := s3 h h1
    exact hempty h h1 (hch ▸ mem_hashes_of_mem (hql c hc))

end AmVerif.Sync.Prog
