import AmVerif.Proofs.ChangeCodecFullRows
import AmVerif.Proofs.DocCodecRows
/-
  Helper lemmas for the whole-change round trip of C18, LAYOUT level: `Columns::parse2`
  (`parseLayout`) on the column table `ChangeBuilder::build` writes (the 14 op columns in
  specification order, the empty ones dropped) gives exactly the expected column layout, and
  `ChangeOpsColumns::try_from` (`pickCols`) finds every column's range in it.
-/
namespace AmVerif.ChangeCodec.Full
open AmVerif AmVerif.Leb AmVerif.Crdt AmVerif.ChangeCodec
open AmVerif.DocCodec (nonEmptyCols metaPairs rangesOf colData)

/-- the last column parsed so far ends at `off` (or there is none) -/
def EndsAt (cols : List Col) (off : Nat) : Prop :=
  ∀ e, cols.getLast?.map (fun c => c.range.stop) = some e → e = off

theorem endsAt_nil (off : Nat) : EndsAt [] off := by
  intro e h; simp at h

theorem endsAt_snoc (cols : List Col) (c : Col) : EndsAt (cols ++ [c]) c.range.stop := by
  intro e h
  simp only [List.getLast?_append, List.getLast?_singleton, Option.some_or, Option.map_some, Option.some.injEq] at h
  exact h.symm

theorem endsAt_check {o : Option Nat} {x : Nat} (h : ∀ e, o = some e → e = x) : ¬ (o.isSome ∧ o ≠ some x) := by
  intro ⟨h1, h2⟩
  cases o with
  | none => cases h1
  | some e => exact h2 (by rw [h e rfl])

/-- the ranges `RawColumns::parse` assigns to the non-empty columns of `L`, from offset `off` -/
def tbl (L : List (Nat × Bytes)) (off : Nat) : List (Nat × Rng) := colRanges (metaPairs (nonEmptyCols L)) off

theorem tbl_cons (s : Nat) (b : Bytes) (L : List (Nat × Bytes)) (off : Nat) (h : off + b.length < 2 ^ 64) :
    tbl ((s, b) :: L) off =
      if b.isEmpty then tbl L (off + b.length) else (s, ⟨off, off + b.length⟩) :: tbl L (off + b.length) := by
  unfold tbl nonEmptyCols
  cases b with
  | nil => simp
  | cons x xs =>
    have hm : min (off + (x :: xs).length) usizeMax = off + (x :: xs).length := by
      unfold usizeMax; omega
    simp only [List.filter_cons, List.isEmpty_cons, Bool.not_false, if_true, metaPairs, List.map_cons, colRanges, hm,
      Bool.false_eq_true, if_false]

theorem tbl_specs (L : List (Nat × Bytes)) (off : Nat) : ∀ c ∈ tbl L off, ∃ x ∈ L, x.1 = c.1 := by
  intro c hc
  have hm : c.1 ∈ (tbl L off).map (·.1) := List.mem_map.mpr ⟨c, hc, rfl⟩
  unfold tbl at hm
  rw [DocCodec.colRanges_specs] at hm
  simp only [metaPairs, List.map_map, List.mem_map, Function.comp] at hm
  obtain ⟨x, hx, hx1⟩ := hm
  exact ⟨x, DocCodec.nonEmptyCols_sub L x hx, hx1⟩

/-! ### closing a pending value / group -/

theorem addColumn_ready_fuel (total f g : Nat) (cols : List Col) (s : Nat) (r : Rng) :
    addColumn total (f + 1) ⟨cols, .ready⟩ s r = addColumn total (g + 1) ⟨cols, .ready⟩ s r := by
  simp only [addColumn]

theorem close_value (total : Nat) (T : List (Nat × Rng)) (cols : List Col) (vs : Nat) (mR : Rng)
    (hT : ∀ c ∈ T, specType c.1 ≠ T_VALUE) :
    parseLayout total T ⟨cols, .inValue vs mR⟩ = parseLayout total T ⟨cols ++ [⟨vs, .value mR Rng.zero⟩], .ready⟩ := by
  cases T with
  | nil => rfl
  | cons c T' =>
    obtain ⟨s, r⟩ := c
    have hne : specType s ≠ T_VALUE := hT (s, r) List.mem_cons_self
    have key : addColumn total 3 ⟨cols, .inValue vs mR⟩ s r =
        addColumn total 3 ⟨cols ++ [⟨vs, .value mR Rng.zero⟩], .ready⟩ s r := by
      rw [addColumn_ready_fuel total 2 1]
      conv => lhs; unfold addColumn
      simp only [if_neg hne]
      split
      · rename_i hc
        conv => rhs; unfold addColumn
        simp only [List.getLast?_append, List.getLast?_singleton, Option.some_or, Option.map_some, Col.range,
          DocCodec.valueRange_zero]
        rw [if_pos hc]
      · split
        · rename_i hc hb
          conv => rhs; unfold addColumn
          simp only [List.getLast?_append, List.getLast?_singleton, Option.some_or, Option.map_some, Col.range,
            DocCodec.valueRange_zero]
          rw [if_neg hc, if_pos hb]
        · rfl
    simp only [parseLayout, key]

theorem close_group (total : Nat) (T : List (Nat × Rng)) (cols : List Col) (id gspec : Nat) (num : Rng)
    (gcols : List GCol) (hT : ∀ c ∈ T, specId c.1 ≠ id) :
    parseLayout total T ⟨cols, .inGroup id (.ready gspec num gcols)⟩ =
      parseLayout total T ⟨cols ++ [⟨gspec, .group num gcols⟩], .ready⟩ := by
  cases T with
  | nil => rfl
  | cons c T' =>
    obtain ⟨s, r⟩ := c
    have hne : id ≠ specId s := fun h => hT (s, r) List.mem_cons_self h.symm
    have key : addColumn total 3 ⟨cols, .inGroup id (.ready gspec num gcols)⟩ s r =
        addColumn total 3 ⟨cols ++ [⟨gspec, .group num gcols⟩], .ready⟩ s r := by
      rw [addColumn_ready_fuel total 2 1]
      conv => lhs; unfold addColumn
      simp only [if_pos hne, GState.finish]
      split
      · rename_i hc
        conv => rhs; unfold addColumn
        simp only [List.getLast?_append, List.getLast?_singleton, Option.some_or, Option.map_some, Col.range]
        rw [if_pos hc]
      · split
        · rename_i hc hb
          conv => rhs; unfold addColumn
          simp only [List.getLast?_append, List.getLast?_singleton, Option.some_or, Option.map_some, Col.range]
          rw [if_neg hc, if_pos hb]
        · rfl
    simp only [parseLayout, key]

/-! ### single columns -/

theorem addColumn_ready_simple (total f : Nat) (cols : List Col) (s : Nat) (r : Rng)
    (hinv : EndsAt cols r.start) (hb : r.stop ≤ total)
    (h1 : specType s ≠ T_GROUP) (h2 : specType s ≠ T_VALMETA) (h3 : specType s ≠ T_VALUE) :
    addColumn total (f + 1) ⟨cols, .ready⟩ s r = .ok ⟨cols ++ [⟨s, .simple r⟩], .ready⟩ := by
  have hpe := endsAt_check hinv
  have hb' : ¬ r.stop > total := by omega
  unfold addColumn
  simp only [if_neg hpe, if_neg hb', if_neg h1, if_neg h2, if_neg h3]

theorem addColumn_ready_meta (total f : Nat) (cols : List Col) (s : Nat) (r : Rng)
    (hinv : EndsAt cols r.start) (hb : r.stop ≤ total) (h2 : specType s = T_VALMETA) :
    addColumn total (f + 1) ⟨cols, .ready⟩ s r = .ok ⟨cols, .inValue s r⟩ := by
  have hpe := endsAt_check hinv
  have hb' : ¬ r.stop > total := by omega
  have h1 : specType s ≠ T_GROUP := by rw [h2]; decide
  unfold addColumn
  simp only [if_neg hpe, if_neg hb', if_neg h1, if_pos h2]

theorem addColumn_ready_group (total f : Nat) (cols : List Col) (s : Nat) (r : Rng)
    (hinv : EndsAt cols r.start) (hb : r.stop ≤ total) (h1 : specType s = T_GROUP) :
    addColumn total (f + 1) ⟨cols, .ready⟩ s r = .ok ⟨cols, .inGroup (specId s) (.ready s r [])⟩ := by
  have hpe := endsAt_check hinv
  have hb' : ¬ r.stop > total := by omega
  unfold addColumn
  simp only [if_neg hpe, if_neg hb', if_pos h1]

theorem addColumn_value_raw (total f : Nat) (cols : List Col) (vs : Nat) (mR : Rng) (s : Nat) (r : Rng)
    (hst : mR.stop = r.start) (hb : r.stop ≤ total) (h3 : specType s = T_VALUE) (hid : specId vs = specId s) :
    addColumn total (f + 1) ⟨cols, .inValue vs mR⟩ s r = .ok ⟨cols ++ [⟨vs, .value mR r⟩], .ready⟩ := by
  have hb' : ¬ r.stop > total := by omega
  have hne : ¬ specId vs ≠ specId s := by simp [hid]
  unfold addColumn
  simp only [hst, Option.isSome_some, ne_eq, not_true_eq_false, and_false, if_false, hb', h3, if_true, hne]

theorem addColumn_group_simple (total f : Nat) (cols : List Col) (gspec : Nat) (num : Rng) (gcols : List GCol)
    (s : Nat) (r : Rng) (hst : (groupRange num gcols).stop = r.start) (hb : r.stop ≤ total)
    (h1 : specType s ≠ T_GROUP) (h2 : specType s ≠ T_VALMETA) (h3 : specType s ≠ T_VALUE) :
    addColumn total (f + 1) ⟨cols, .inGroup (specId s) (.ready gspec num gcols)⟩ s r =
      .ok ⟨cols, .inGroup (specId s) (.ready gspec num (gcols ++ [.simple (simpleKind (specType s)) r]))⟩ := by
  have hb' : ¬ r.stop > total := by omega
  unfold addColumn
  simp only [hst, Option.isSome_some, ne_eq, not_true_eq_false, and_false, if_false, hb', h1, h2, h3]

/-! ### one step of the table per column (or column block) of the writer -/

def optCol (s off : Nat) (b : Bytes) : List Col := if b.isEmpty then [] else [⟨s, .simple ⟨off, off + b.length⟩⟩]

/-- the range of a column in the data block; `Rng.zero` (the default of `ChangeOpsColumns`) when it
    was dropped -/
def rngD (off : Nat) (b : Bytes) : Rng := if b.isEmpty then Rng.zero else ⟨off, off + b.length⟩

theorem step_simple (total s : Nat) (b : Bytes) (L : List (Nat × Bytes)) (off : Nat) (cols : List Col)
    (h1 : specType s ≠ T_GROUP) (h2 : specType s ≠ T_VALMETA) (h3 : specType s ≠ T_VALUE)
    (hinv : EndsAt cols off) (hb : off + b.length ≤ total) (ht : total < 2 ^ 64) :
    parseLayout total (tbl ((s, b) :: L) off) ⟨cols, .ready⟩ =
      parseLayout total (tbl L (off + b.length)) ⟨cols ++ optCol s off b, .ready⟩ ∧
    EndsAt (cols ++ optCol s off b) (off + b.length) := by
  rw [tbl_cons s b L off (by omega)]
  cases b with
  | nil => simp [optCol]; exact hinv
  | cons x xs =>
    simp only [List.isEmpty_cons, Bool.false_eq_true, if_false, optCol]
    refine ⟨?_, ?_⟩
    · rw [parseLayout, addColumn_ready_simple total 2 cols s _ hinv hb h1 h2 h3]
    · exact endsAt_snoc cols _

theorem step_value (total sm sr : Nat) (m raw : Bytes) (L : List (Nat × Bytes)) (off : Nat) (cols : List Col)
    (hm : specType sm = T_VALMETA) (hr : specType sr = T_VALUE) (hid : specId sm = specId sr) (hmne : m ≠ [])
    (hL : ∀ c ∈ L, specType c.1 ≠ T_VALUE)
    (hinv : EndsAt cols off) (hb : off + m.length + raw.length ≤ total) (ht : total < 2 ^ 64) :
    parseLayout total (tbl ((sm, m) :: (sr, raw) :: L) off) ⟨cols, .ready⟩ =
      parseLayout total (tbl L (off + m.length + raw.length))
        ⟨cols ++ [⟨sm, .value ⟨off, off + m.length⟩ (rngD (off + m.length) raw)⟩], .ready⟩ ∧
    EndsAt (cols ++ [⟨sm, .value ⟨off, off + m.length⟩ (rngD (off + m.length) raw)⟩]) (off + m.length + raw.length) := by
  have hme : m.isEmpty = false := by cases m with | nil => exact absurd rfl hmne | cons a b => rfl
  have hmpos : 0 < m.length := Hexane.length_pos_of_ne_nil _ hmne
  rw [tbl_cons sm m _ off (by omega), hme]
  simp only [Bool.false_eq_true, if_false]
  rw [tbl_cons sr raw L _ (by omega)]
  rw [parseLayout, addColumn_ready_meta total 2 cols sm _ hinv (by simp only; omega) hm]
  simp only
  cases raw with
  | nil =>
    simp only [List.isEmpty_nil, if_true, List.length_nil, Nat.add_zero, rngD]
    refine ⟨?_, ?_⟩
    · apply close_value
      intro c hc
      obtain ⟨x, hx, hx1⟩ := tbl_specs L _ c hc
      rw [← hx1]; exact hL x hx
    · have := endsAt_snoc cols ⟨sm, .value ⟨off, off + m.length⟩ Rng.zero⟩
      simpa [Col.range, DocCodec.valueRange_zero] using this
  | cons x xs =>
    simp only [List.isEmpty_cons, Bool.false_eq_true, if_false, rngD]
    refine ⟨?_, ?_⟩
    · rw [parseLayout, addColumn_value_raw total 2 cols sm _ sr _ rfl (by simp only; omega) hr hid]
    · have := endsAt_snoc cols ⟨sm, .value ⟨off, off + m.length⟩ ⟨off + m.length, off + m.length + (x :: xs).length⟩⟩
      rw [show (Col.range ⟨sm, .value ⟨off, off + m.length⟩ ⟨off + m.length, off + m.length + (x :: xs).length⟩⟩).stop
        = off + m.length + (x :: xs).length from by
          simp only [Col.range]
          exact DocCodec.valueRange_stop _ _ (by simp only [List.length_cons]; omega)] at this
      exact this

/-- the columns of a group: none, or the (actor, counter) pair -/
def grpCols (off : Nat) (a d : Bytes) : List GCol :=
  if a.isEmpty then [] else [.simple 0 ⟨off, off + a.length⟩, .simple 2 ⟨off + a.length, off + a.length + d.length⟩]

theorem step_group (total sn sa sd : Nat) (n a d : Bytes) (L : List (Nat × Bytes)) (off : Nat) (cols : List Col)
    (hn : specType sn = T_GROUP) (ha : specType sa = T_ACTOR) (hd : specType sd = T_DELTA)
    (hida : specId sa = specId sn) (hidd : specId sd = specId sn) (hnne : n ≠ [])
    (had : a.isEmpty = d.isEmpty)
    (hL : ∀ c ∈ L, specId c.1 ≠ specId sn)
    (hinv : EndsAt cols off) (hb : off + n.length + a.length + d.length ≤ total) (ht : total < 2 ^ 64) :
    parseLayout total (tbl ((sn, n) :: (sa, a) :: (sd, d) :: L) off) ⟨cols, .ready⟩ =
      parseLayout total (tbl L (off + n.length + a.length + d.length))
        ⟨cols ++ [⟨sn, .group ⟨off, off + n.length⟩ (grpCols (off + n.length) a d)⟩], .ready⟩ ∧
    EndsAt (cols ++ [⟨sn, .group ⟨off, off + n.length⟩ (grpCols (off + n.length) a d)⟩])
      (off + n.length + a.length + d.length) := by
  have hne : n.isEmpty = false := by cases n with | nil => exact absurd rfl hnne | cons a b => rfl
  have hT : ∀ c ∈ tbl L (off + n.length + a.length + d.length), specId c.1 ≠ specId sn := by
    intro c hc
    obtain ⟨x, hx, hx1⟩ := tbl_specs L _ c hc
    rw [← hx1]; exact hL x hx
  rw [tbl_cons sn n _ off (by omega), hne]
  simp only [Bool.false_eq_true, if_false]
  rw [tbl_cons sa a _ _ (by omega), tbl_cons sd d L _ (by omega)]
  rw [parseLayout, addColumn_ready_group total 2 cols sn _ hinv (by simp only; omega) hn]
  simp only
  cases a with
  | nil =>
    have hd0 : d = [] := by
      cases d with
      | nil => rfl
      | cons x xs => simp at had
    subst hd0
    simp only [List.isEmpty_nil, if_true, List.length_nil, Nat.add_zero, grpCols]
    refine ⟨close_group total _ cols _ sn _ [] (by simpa using hT), ?_⟩
    have := endsAt_snoc cols ⟨sn, .group ⟨off, off + n.length⟩ []⟩
    simpa [Col.range, groupRange] using this
  | cons x xs =>
    have hde : d.isEmpty = false := by rw [← had]; rfl
    have h1a : specType sa ≠ T_GROUP := by rw [ha]; decide
    have h2a : specType sa ≠ T_VALMETA := by rw [ha]; decide
    have h3a : specType sa ≠ T_VALUE := by rw [ha]; decide
    have h1d : specType sd ≠ T_GROUP := by rw [hd]; decide
    have h2d : specType sd ≠ T_VALMETA := by rw [hd]; decide
    have h3d : specType sd ≠ T_VALUE := by rw [hd]; decide
    simp only [List.isEmpty_cons, hde, Bool.false_eq_true, if_false, grpCols]
    rw [parseLayout, ← hida,
      addColumn_group_simple total 2 cols sn _ [] sa _ (by simp [groupRange]) (by simp only; omega) h1a h2a h3a]
    simp only
    rw [parseLayout, hida, ← hidd,
      addColumn_group_simple total 2 cols sn _ _ sd _ (by simp [groupRange, GCol.range]) (by simp only; omega) h1d h2d h3d]
    simp only [List.nil_append, List.cons_append, ha, hd]
    refine ⟨?_, ?_⟩
    · rw [hidd]
      exact close_group total _ cols _ sn _ _ hT
    · have := endsAt_snoc cols ⟨sn, .group ⟨off, off + n.length⟩
        [.simple 0 ⟨off + n.length, off + n.length + (x :: xs).length⟩,
         .simple 2 ⟨off + n.length + (x :: xs).length, off + n.length + (x :: xs).length + d.length⟩]⟩
      simpa [Col.range, groupRange, GCol.range] using this

end AmVerif.ChangeCodec.Full
