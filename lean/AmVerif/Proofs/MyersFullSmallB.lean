import AmVerif.Proofs.MyersFullSmall
/-
  C27 helper (bounded exhaustive part, second half): old sequence of length exactly 4, new sequence of
  length ≤ 4, two letters; together with `diff_ok_bool_3_4`: all pairs of length ≤ 4.
-/
namespace AmVerif.Myers
open AmVerif

theorem allDiffOk_bool_eq4_4 : allDiffOk (listsOfLen [false, true] 4) (listsUpTo [false, true] 4) = true := by
  decide +kernel

theorem diff_ok_bool4 (a b : List Bool) (ha : a.length ≤ 4) (hb : b.length ≤ 4) :
    ∃ s, diff a b = .ok s := by
  have hall : ∀ c : Bool, c ∈ [false, true] := by decide
  by_cases h3 : a.length ≤ 3
  · exact diff_ok_bool_3_4 a b h3 hb
  · have e : a.length = 4 := by omega
    have h := allDiffOk_bool_eq4_4
    simp only [allDiffOk, List.all_eq_true] at h
    exact (Res.isOk_iff _).mp (h a (e ▸ mem_listsOfLen _ hall a) b (mem_listsUpTo _ hall 4 b hb))

end AmVerif.Myers
