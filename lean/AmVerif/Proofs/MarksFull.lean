import AmVerif.Proofs.Marks
/-
  Helper lemmas for C25 (full agreement clause): the ranges `marks()` reports (`marksOf`: the walk of
  `calculate_marks_slow` + `MarkAccumulator::add` + `into_iter_no_unmark`) cover exactly the unit
  positions at which `get_marks(i)` (`getMarksAt`) holds that (name, value).
-/
namespace AmVerif.Crdt
open AmVerif

/-! ### what an accumulator covers -/

/-- unit `i` lies in an entry (index, len, value) of an entry list -/
def EntriesCover (es : List (Nat × Nat × Scalar)) (v : Scalar) (i : Nat) : Prop :=
  ∃ x ∈ es, x.2.2 = v ∧ x.1 ≤ i ∧ i < x.1 + x.2.1

/-- unit `i` lies in an entry of name `n` with value `v` -/
def MarkAcc.Covers (acc : MarkAcc) (n : Bytes) (v : Scalar) (i : Nat) : Prop :=
  ∃ p ∈ acc, p.1 = n ∧ EntriesCover p.2 v i

/-- the entry list after `add` met the name (merge with the last entry when contiguous and equal) -/
def entriesPush (entries : List (Nat × Nat × Scalar)) (index len : Nat) (value : Scalar) : List (Nat × Nat × Scalar) :=
  match entries.getLast? with
  | some (i, l, v) =>
    if v == value && i + l == index then entries.dropLast ++ [(i, l + len, v)]
    else entries ++ [(index, len, value)]
  | none => [(index, len, value)]

theorem MarkAcc.addOne_cons (index len : Nat) (name : Bytes) (value : Scalar) (k : Bytes)
    (entries : List (Nat × Nat × Scalar)) (rest : MarkAcc) :
    MarkAcc.addOne index len name value ((k, entries) :: rest) =
      if k == name then (k, entriesPush entries index len value) :: rest
      else if bytesLt name k then (name, [(index, len, value)]) :: (k, entries) :: rest
      else (k, entries) :: MarkAcc.addOne index len name value rest := rfl

theorem entriesPush_cover (entries : List (Nat × Nat × Scalar)) (index len : Nat) (value v : Scalar) (i : Nat) :
    EntriesCover (entriesPush entries index len value) v i ↔
      (EntriesCover entries v i ∨ (v = value ∧ index ≤ i ∧ i < index + len)) := by
  unfold entriesPush
  cases hl : entries.getLast? with
  | none =>
    have : entries = [] := by simpa using hl
    subst this
    simp only [EntriesCover, List.mem_singleton, exists_eq_left, List.not_mem_nil, false_and, exists_false, false_or]
    constructor
    · rintro ⟨h1, h2, h3⟩; exact ⟨h1.symm, h2, h3⟩
    · rintro ⟨h1, h2, h3⟩; exact ⟨h1.symm, h2, h3⟩
  | some last =>
    obtain ⟨i0, l0, v0⟩ := last
    have hsplit : entries.dropLast ++ [(i0, l0, v0)] = entries := by
      obtain ⟨ys, rfl⟩ := List.getLast?_eq_some_iff.mp hl
      simp
    by_cases hc : (v0 == value && i0 + l0 == index) = true
    · simp only [hc, if_true]
      have hv : v0 = value := by simp at hc; exact hc.1
      have hi : i0 + l0 = index := by simp at hc; exact hc.2
      constructor
      · rintro ⟨x, hx, h1, h2, h3⟩
        rcases List.mem_append.mp hx with hx | hx
        · left; exact ⟨x, by rw [← hsplit]; exact List.mem_append_left _ hx, h1, h2, h3⟩
        · have : x = (i0, l0 + len, v0) := by simpa using hx
          subst this
          simp only at h1 h2 h3
          by_cases hlt : i < i0 + l0
          · left; exact ⟨(i0, l0, v0), by rw [← hsplit]; simp, h1, h2, hlt⟩
          · right; exact ⟨by rw [← h1, hv], by omega, by omega⟩
      · rintro (⟨x, hx, h1, h2, h3⟩ | ⟨h1, h2, h3⟩)
        · rw [← hsplit] at hx
          rcases List.mem_append.mp hx with hx | hx
          · exact ⟨x, List.mem_append_left _ hx, h1, h2, h3⟩
          · have : x = (i0, l0, v0) := by simpa using hx
            subst this
            simp only at h1 h2 h3
            exact ⟨(i0, l0 + len, v0), by simp, h1, h2, by simp only; omega⟩
        · exact ⟨(i0, l0 + len, v0), by simp, by simp only; rw [hv, h1], by simp only; omega, by simp only; omega⟩
    · simp only [hc, Bool.false_eq_true, if_false]
      constructor
      · rintro ⟨x, hx, h1, h2, h3⟩
        rcases List.mem_append.mp hx with hx | hx
        · left; exact ⟨x, hx, h1, h2, h3⟩
        · have : x = (index, len, value) := by simpa using hx
          subst this
          right; exact ⟨h1.symm, h2, h3⟩
      · rintro (⟨x, hx, h1, h2, h3⟩ | ⟨h1, h2, h3⟩)
        · exact ⟨x, List.mem_append_left _ hx, h1, h2, h3⟩
        · exact ⟨(index, len, value), by simp, h1.symm, h2, h3⟩

theorem MarkAcc.covers_cons (p : Bytes × List (Nat × Nat × Scalar)) (rest : MarkAcc) (n : Bytes) (v : Scalar) (i : Nat) :
    MarkAcc.Covers (p :: rest) n v i ↔ ((p.1 = n ∧ EntriesCover p.2 v i) ∨ MarkAcc.Covers rest n v i) := by
  simp [MarkAcc.Covers]

theorem MarkAcc.addOne_covers (index len : Nat) (name : Bytes) (value : Scalar) (acc : MarkAcc)
    (n : Bytes) (v : Scalar) (i : Nat) :
    (MarkAcc.addOne index len name value acc).Covers n v i ↔
      (acc.Covers n v i ∨ (n = name ∧ v = value ∧ index ≤ i ∧ i < index + len)) := by
  induction acc with
  | nil =>
    have : MarkAcc.addOne index len name value [] = [(name, [(index, len, value)])] := rfl
    rw [this, MarkAcc.covers_cons]
    simp only [MarkAcc.Covers, EntriesCover, List.mem_singleton, exists_eq_left, List.not_mem_nil, false_and, exists_false,
      false_or, or_false]
    constructor
    · rintro ⟨h0, h1, h2, h3⟩; exact ⟨h0.symm, h1.symm, h2, h3⟩
    · rintro ⟨h0, h1, h2, h3⟩; exact ⟨h0.symm, h1.symm, h2, h3⟩
  | cons p rest ih =>
    obtain ⟨k, entries⟩ := p
    rw [MarkAcc.addOne_cons]
    by_cases h1 : (k == name) = true
    · have hk : k = name := by simpa using h1
      simp only [h1, if_true]
      rw [MarkAcc.covers_cons, MarkAcc.covers_cons, entriesPush_cover]
      simp only
      constructor
      · rintro (⟨ha, hb | hb⟩ | hc)
        · left; left; exact ⟨ha, hb⟩
        · right; exact ⟨by rw [← ha, hk], hb⟩
        · left; right; exact hc
      · rintro ((⟨ha, hb⟩ | hc) | ⟨hn, hb⟩)
        · left; exact ⟨ha, Or.inl hb⟩
        · right; exact hc
        · left; exact ⟨by rw [hk, hn], Or.inr hb⟩
    · simp only [h1, Bool.false_eq_true, if_false]
      by_cases h2 : bytesLt name k = true
      · simp only [h2, if_true]
        rw [MarkAcc.covers_cons, MarkAcc.covers_cons]
        simp only [EntriesCover, List.mem_singleton, exists_eq_left]
        constructor
        · rintro (⟨ha, hb, hc, hd⟩ | h)
          · right; exact ⟨ha.symm, hb.symm, hc, hd⟩
          · left; exact h
        · rintro (h | ⟨ha, hb, hc, hd⟩)
          · right; exact h
          · left; exact ⟨ha.symm, hb.symm, hc, hd⟩
      · simp only [h2, Bool.false_eq_true, if_false]
        rw [MarkAcc.covers_cons, MarkAcc.covers_cons, ih]
        constructor
        · rintro (h | h | h)
          · left; left; exact h
          · left; right; exact h
          · right; exact h
        · rintro ((h | h) | h)
          · left; exact h
          · right; left; exact h
          · right; right; exact h

theorem MarkAcc.add_covers (index len : Nat) (set : MarkSet) : ∀ (acc : MarkAcc) (n : Bytes) (v : Scalar) (i : Nat),
    (acc.add index len set).Covers n v i ↔ (acc.Covers n v i ∨ ((n, v) ∈ set ∧ index ≤ i ∧ i < index + len)) := by
  induction set with
  | nil => intro acc n v i; simp [MarkAcc.add]
  | cons p rest ih =>
    intro acc n v i
    obtain ⟨k, x⟩ := p
    have : acc.add index len ((k, x) :: rest) = (MarkAcc.addOne index len k x acc).add index len rest := rfl
    rw [this, ih, MarkAcc.addOne_covers]
    simp only [List.mem_cons, Prod.mk.injEq]
    constructor
    · rintro ((h | ⟨h1, h2, h3, h4⟩) | ⟨h1, h2, h3⟩)
      · left; exact h
      · right; exact ⟨Or.inl ⟨h1, h2⟩, h3, h4⟩
      · right; exact ⟨Or.inr h1, h2, h3⟩
    · rintro (h | ⟨⟨h1, h2⟩ | h1, h3, h4⟩)
      · left; left; exact h
      · left; right; exact ⟨h1, h2, h3, h4⟩
      · right; exact ⟨h1, h3, h4⟩

/-- the reported ranges (`into_iter_no_unmark`) are the non-null entries -/
theorem MarkAcc.toMarks_covers (acc : MarkAcc) (n : Bytes) (v : Scalar) (i : Nat) :
    (∃ r ∈ acc.toMarks, r.name = n ∧ r.value = v ∧ r.start ≤ i ∧ i < r.stop) ↔ (v ≠ .null ∧ acc.Covers n v i) := by
  unfold MarkAcc.toMarks MarkAcc.Covers EntriesCover
  constructor
  · rintro ⟨r, hr, h1, h2, h3, h4⟩
    obtain ⟨p, hp, hr⟩ := List.mem_flatMap.mp hr
    obtain ⟨x, hx, rfl⟩ := List.mem_map.mp hr
    obtain ⟨hx1, hx2⟩ := List.mem_filter.mp hx
    simp only at h1 h2 h3 h4
    refine ⟨?_, p, hp, h1, x, hx1, h2, h3, h4⟩
    rw [← h2]; simpa using hx2
  · rintro ⟨hv, p, hp, h1, x, hx, h2, h3, h4⟩
    refine ⟨⟨p.1, x.1, x.1 + x.2.1, x.2.2⟩, ?_, h1, h2, h3, h4⟩
    apply List.mem_flatMap.mpr
    refine ⟨p, hp, List.mem_map.mpr ⟨x, List.mem_filter.mpr ⟨hx, ?_⟩, rfl⟩⟩
    rw [h2]; simpa using hv

/-! ### the walk of `calculate_marks_slow` -/

/-- `Option<Arc<MarkSet>>` read as a set (`None` = no marks) -/
def optSet : Option MarkSet → MarkSet
  | none => []
  | some m => m

theorem optSet_cur (m : Msm) : optSet m.cur = m.current := by
  unfold Msm.cur
  cases h : m.current with
  | nil => simp [optSet]
  | cons a b => simp [optSet]

/-- the final `acc.add` of the pending segment (also the flush inside the loop) -/
def MarksWalk.flushAcc (w : MarksWalk) : MarkAcc :=
  match w.lastMarks with
  | some m => if w.markLen > 0 then w.acc.add w.markIndex w.markLen m else w.acc
  | none => w.acc

theorem marksOf_eq (wf : Op → Nat) (ops : List Op) (obj : ObjId) :
    marksOf wf ops obj = (((items ops obj).foldl (MarksWalk.step wf) {}).flushAcc).toMarks := rfl

theorem MarksWalk.flushAcc_covers (w : MarksWalk) (n : Bytes) (v : Scalar) (i : Nat) :
    w.flushAcc.Covers n v i ↔
      (w.acc.Covers n v i ∨ ((n, v) ∈ optSet w.lastMarks ∧ w.markIndex ≤ i ∧ i < w.markIndex + w.markLen)) := by
  unfold MarksWalk.flushAcc
  cases hl : w.lastMarks with
  | none => simp [optSet]
  | some m =>
    by_cases hp : w.markLen > 0
    · simp only [hp, if_true, optSet]
      exact MarkAcc.add_covers _ _ _ _ _ _ _
    · simp only [hp, if_false, optSet]
      have : w.markLen = 0 := by omega
      constructor
      · intro h; left; exact h
      · rintro (h | ⟨_, h2, h3⟩)
        · exact h
        · omega

theorem getMarksGo_append_lt (wf : Op → Nat) (pre post : List Item) :
    ∀ (m : Msm) (index stop : Nat), index < stop + itemsWidth wf pre →
      getMarksGo wf m (pre ++ post) index stop = getMarksGo wf m pre index stop := by
  induction pre with
  | nil =>
    intro m index stop h
    simp only [itemsWidth, Nat.add_zero] at h
    rw [getMarksGo_done wf m _ h, getMarksGo_done wf m _ h]
  | cons it rest ih =>
    intro m index stop h
    by_cases hs : stop > index
    · rw [getMarksGo_done wf m _ hs, getMarksGo_done wf m _ hs]
    · cases it with
      | mbegin id d =>
        simp only [itemsWidth] at h
        simp only [List.cons_append, getMarksGo, hs, if_false]
        exact ih _ index stop h
      | mend id =>
        simp only [itemsWidth] at h
        simp only [List.cons_append, getMarksGo, hs, if_false]
        exact ih _ index stop h
      | elem e t =>
        simp only [itemsWidth] at h
        simp only [List.cons_append, getMarksGo, hs, if_false]
        exact ih m index (stop + wf t) (by omega)

theorem itemsWidth_append (wf : Op → Nat) (a b : List Item) : itemsWidth wf (a ++ b) = itemsWidth wf a + itemsWidth wf b := by
  induction a with
  | nil => simp [itemsWidth]
  | cons it rest ih => cases it <;> simp [itemsWidth, ih] <;> omega

/-- what the walk knows after the items `pre`: the accumulator covers exactly the non-null marks of the units
    before the pending segment, and the pending segment's units all carry `lastMarks` -/
structure MarksWalk.Inv (wf : Op → Nat) (pre : List Item) (w : MarksWalk) : Prop where
  msm : w.msm = pre.foldl Msm.step {}
  index : w.index = itemsWidth wf pre
  seg : w.markIndex + w.markLen = w.index
  acc : ∀ n v i, v ≠ Scalar.null → (w.acc.Covers n v i ↔ (i < w.markIndex ∧ (n, v) ∈ getMarksGo wf {} pre i 0))
  pending : ∀ i, w.markIndex ≤ i → i < w.index → getMarksGo wf {} pre i 0 = (optSet w.lastMarks).withoutUnmarks

theorem mem_withoutUnmarks (s : MarkSet) (n : Bytes) (v : Scalar) : (n, v) ∈ s.withoutUnmarks ↔ ((n, v) ∈ s ∧ v ≠ .null) := by
  simp [MarkSet.withoutUnmarks, List.mem_filter]

theorem MarksWalk.inv_empty (wf : Op → Nat) : MarksWalk.Inv wf [] {} := by
  refine ⟨rfl, rfl, rfl, ?_, ?_⟩
  · intro n v i _
    simp [MarkAcc.Covers]
  · intro i h1 h2
    simp [itemsWidth] at h2

theorem MarksWalk.step_inv (wf : Op → Nat) (pre : List Item) (w : MarksWalk) (h : MarksWalk.Inv wf pre w) (it : Item) :
    MarksWalk.Inv wf (pre ++ [it]) (w.step wf it) := by
  have hold : ∀ i, i < itemsWidth wf pre → getMarksGo wf {} (pre ++ [it]) i 0 = getMarksGo wf {} pre i 0 := by
    intro i hi
    exact getMarksGo_append_lt wf pre [it] {} i 0 (by omega)
  cases it with
  | mbegin id d =>
    refine ⟨?_, ?_, h.seg, ?_, ?_⟩
    · simp [MarksWalk.step, h.msm, List.foldl_append]
    · simp [MarksWalk.step, h.index, itemsWidth_append, itemsWidth]
    · intro n v i hv
      show w.acc.Covers n v i ↔ (i < w.markIndex ∧ (n, v) ∈ getMarksGo wf {} (pre ++ [.mbegin id d]) i 0)
      rw [h.acc n v i hv]
      constructor
      · rintro ⟨h1, h2⟩; exact ⟨h1, by rw [hold i (by have := h.seg; have := h.index; omega)]; exact h2⟩
      · rintro ⟨h1, h2⟩; exact ⟨h1, by rw [hold i (by have := h.seg; have := h.index; omega)] at h2; exact h2⟩
    · intro i h1 h2
      have h2' : i < w.index := h2
      rw [hold i (by rw [← h.index]; exact h2')]
      exact h.pending i h1 h2'
  | mend id =>
    refine ⟨?_, ?_, h.seg, ?_, ?_⟩
    · simp [MarksWalk.step, h.msm, List.foldl_append]
    · simp [MarksWalk.step, h.index, itemsWidth_append, itemsWidth]
    · intro n v i hv
      show w.acc.Covers n v i ↔ (i < w.markIndex ∧ (n, v) ∈ getMarksGo wf {} (pre ++ [.mend id]) i 0)
      rw [h.acc n v i hv]
      constructor
      · rintro ⟨h1, h2⟩; exact ⟨h1, by rw [hold i (by have := h.seg; have := h.index; omega)]; exact h2⟩
      · rintro ⟨h1, h2⟩; exact ⟨h1, by rw [hold i (by have := h.seg; have := h.index; omega)] at h2; exact h2⟩
    · intro i h1 h2
      have h2' : i < w.index := h2
      rw [hold i (by rw [← h.index]; exact h2')]
      exact h.pending i h1 h2'
  | elem e t =>
    -- units of the new element read the machine after `pre`
    have hnew : ∀ i, itemsWidth wf pre ≤ i → i < itemsWidth wf pre + wf t →
        getMarksGo wf {} (pre ++ [.elem e t]) i 0 = w.msm.current.withoutUnmarks := by
      intro i h1 h2
      rw [getMarksGo_split wf pre e t [] {} i 0 (by omega) (by omega), h.msm]
      rfl
    have hidx := h.index
    have hseg := h.seg
    by_cases hc : (w.lastMarks != w.msm.cur) = true
    · -- the marks changed: the pending segment goes to the accumulator, a new segment starts here
      have hstep : w.step wf (.elem e t) =
          { w with acc := w.flushAcc, lastMarks := w.msm.cur, markIndex := w.index, markLen := wf t, index := w.index + wf t } := by
        simp only [MarksWalk.step, hc, if_true, MarksWalk.flushAcc, Nat.zero_add]
        rfl
      rw [hstep]
      refine ⟨?_, ?_, ?_, ?_, ?_⟩
      · simp [h.msm, List.foldl_append, Msm.step]
      · simp [h.index, itemsWidth_append, itemsWidth]
      · rfl
      · intro n v i hv
        show w.flushAcc.Covers n v i ↔ (i < w.index ∧ _)
        rw [MarksWalk.flushAcc_covers, h.acc n v i hv]
        constructor
        · rintro (⟨h1, h2⟩ | ⟨h1, h2, h3⟩)
          · have hi : i < itemsWidth wf pre := by omega
            exact ⟨by omega, by rw [hold i hi]; exact h2⟩
          · have hi : i < itemsWidth wf pre := by omega
            refine ⟨by omega, ?_⟩
            rw [hold i hi, h.pending i h2 (by omega), mem_withoutUnmarks]
            exact ⟨h1, hv⟩
        · rintro ⟨h1, h2⟩
          have hi : i < itemsWidth wf pre := by omega
          rw [hold i hi] at h2
          by_cases hlt : i < w.markIndex
          · left; exact ⟨hlt, h2⟩
          · right
            rw [h.pending i (by omega) h1, mem_withoutUnmarks] at h2
            exact ⟨h2.1, by omega, by omega⟩
      · intro i h1 h2
        have h1' : w.index ≤ i := h1
        have h2' : i < w.index + wf t := h2
        show _ = (optSet w.msm.cur).withoutUnmarks
        rw [optSet_cur]
        exact hnew i (by omega) (by omega)
    · -- same marks: the pending segment grows
      have heq : w.lastMarks = w.msm.cur := by simpa using hc
      have hstep : w.step wf (.elem e t) = { w with markLen := w.markLen + wf t, index := w.index + wf t } := by
        simp only [MarksWalk.step, hc, Bool.false_eq_true, if_false]
      rw [hstep]
      refine ⟨?_, ?_, ?_, ?_, ?_⟩
      · simp [h.msm, List.foldl_append, Msm.step]
      · simp [h.index, itemsWidth_append, itemsWidth]
      · show w.markIndex + (w.markLen + wf t) = w.index + wf t
        omega
      · intro n v i hv
        show w.acc.Covers n v i ↔ (i < w.markIndex ∧ _)
        rw [h.acc n v i hv]
        constructor
        · rintro ⟨h1, h2⟩; exact ⟨h1, by rw [hold i (by omega)]; exact h2⟩
        · rintro ⟨h1, h2⟩; exact ⟨h1, by rw [hold i (by omega)] at h2; exact h2⟩
      · intro i h1 h2
        have h1' : w.markIndex ≤ i := h1
        have h2' : i < w.index + wf t := h2
        show _ = (optSet w.lastMarks).withoutUnmarks
        by_cases hlt : i < w.index
        · rw [hold i (by omega)]
          exact h.pending i h1' hlt
        · rw [heq, optSet_cur]
          exact hnew i (by omega) (by omega)

theorem MarksWalk.foldl_inv (wf : Op → Nat) (its : List Item) :
    ∀ (pre : List Item) (w : MarksWalk), MarksWalk.Inv wf pre w →
      MarksWalk.Inv wf (pre ++ its) (its.foldl (MarksWalk.step wf) w) := by
  induction its with
  | nil => intro pre w h; simpa using h
  | cons it rest ih =>
    intro pre w h
    have := ih (pre ++ [it]) _ (MarksWalk.step_inv wf pre w h it)
    simpa [List.append_assoc] using this

/-- `marks()` vs `get_marks(i)` over an arbitrary item walk -/
theorem marksWalk_agree (wf : Op → Nat) (its : List Item) (i : Nat) (hi : i < itemsWidth wf its)
    (n : Bytes) (v : Scalar) :
    (∃ r ∈ ((its.foldl (MarksWalk.step wf) {}).flushAcc).toMarks, r.name = n ∧ r.value = v ∧ r.start ≤ i ∧ i < r.stop)
      ↔ (n, v) ∈ getMarksGo wf {} its i 0 := by
  have h := MarksWalk.foldl_inv wf its [] {} (MarksWalk.inv_empty wf)
  simp only [List.nil_append] at h
  generalize its.foldl (MarksWalk.step wf) {} = w at h
  rw [MarkAcc.toMarks_covers, MarksWalk.flushAcc_covers]
  have hidx := h.index
  have hseg := h.seg
  constructor
  · rintro ⟨hv, ⟨h1, h2⟩ | ⟨h1, h2, h3⟩⟩
    · exact ((h.acc n v i hv).mp ⟨h1, h2⟩).2
    · rw [h.pending i h2 (by omega), mem_withoutUnmarks]
      exact ⟨h1, hv⟩
  · intro hm
    have hv : v ≠ .null := by
      -- `get_marks` never reports a null value
      have : ∀ (its : List Item) (m : Msm) (index stop : Nat), (n, v) ∈ getMarksGo wf m its index stop → v ≠ .null := by
        intro its
        induction its with
        | nil => intro m index stop h; exact ((mem_withoutUnmarks _ _ _).mp h).2
        | cons it rest ih =>
          intro m index stop h
          by_cases hs : stop > index
          · rw [getMarksGo_done wf m _ hs] at h; exact ((mem_withoutUnmarks _ _ _).mp h).2
          · cases it with
            | mbegin id d => simp only [getMarksGo, hs, if_false] at h; exact ih _ _ _ h
            | mend id => simp only [getMarksGo, hs, if_false] at h; exact ih _ _ _ h
            | elem e t => simp only [getMarksGo, hs, if_false] at h; exact ih _ _ _ h
      exact this its {} i 0 hm
    refine ⟨hv, ?_⟩
    by_cases hlt : i < w.markIndex
    · left; exact (h.acc n v i hv).mpr ⟨hlt, hm⟩
    · right
      rw [h.pending i (by omega) (by omega), mem_withoutUnmarks] at hm
      exact ⟨hm.1, by omega, by omega⟩

end AmVerif.Crdt
