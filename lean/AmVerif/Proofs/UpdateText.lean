import AmVerif.Model.UpdateText
import AmVerif.Proofs.Myers
/-
  Helper lemmas for C27 (`update_text`): running a well-formed Myers script through the `TxHook`
  model on a text object whose elements are aligned with the old grapheme clusters turns the text
  into the concatenation of the new clusters.
-/
namespace AmVerif.UpdateText
open AmVerif AmVerif.Myers

/-! ### widths add over concatenation (code points, UTF-8 bytes, UTF-16 units) -/

theorem widthCp_append (a b : Bytes) : widthCp (a ++ b) = widthCp a + widthCp b := by
  simp [widthCp, List.filter_append]

theorem widthUtf16_append (a b : Bytes) : widthUtf16 (a ++ b) = widthUtf16 a + widthUtf16 b := by
  simp [widthUtf16, widthCp, List.filter_append]; omega

/-- `width(a ++ b) = width(a) + width(b)` for the three code-unit encodings -/
theorem unitWidth_append (enc : Enc) (henc : enc ≠ .gc) (a b : Bytes) :
    unitWidth enc (a ++ b) = unitWidth enc a + unitWidth enc b := by
  cases enc with
  | cp => exact widthCp_append a b
  | utf8 => simp [unitWidth]
  | utf16 => exact widthUtf16_append a b
  | gc => exact absurd rfl henc

theorem unitWidth_nil (enc : Enc) (henc : enc ≠ .gc) : unitWidth enc [] = 0 := by
  cases enc <;> simp_all [unitWidth, widthCp, widthUtf16]

theorem unitWidth_flatten (enc : Enc) (henc : enc ≠ .gc) (cs : List Bytes) :
    unitWidth enc cs.flatten = (cs.map (unitWidth enc)).sum := by
  induction cs with
  | nil => simp [unitWidth_nil enc henc]
  | cons c cs ih => simp [unitWidth_append enc henc, ih]

theorem splitChars_flatten (s : Bytes) : (splitChars s).flatten = s := by
  induction s with
  | nil => simp [splitChars]
  | cons b rest ih =>
    cases rest with
    | nil => simp [splitChars]
    | cons r rs =>
      rw [splitChars]
      cases h : splitChars (r :: rs) with
      | nil => rw [h] at ih; simp at ih
      | cons c cs =>
        rw [h] at ih
        simp only
        split <;> simp [← ih]

theorem sumW_append (a b : List Elem) : sumW (a ++ b) = sumW a + sumW b := by
  simp [sumW]

theorem textOf_append (a b : List Elem) : textOf (a ++ b) = textOf a ++ textOf b := by
  simp [textOf]

/-- (A) the elements created by a splice spell the spliced string -/
theorem textOf_elemsOf (enc : Enc) (ps : List Piece) : textOf (elemsOf enc ps) = ps.flatten := by
  cases enc <;> simp [elemsOf, textOf, List.map_map, Function.comp_def, splitChars_flatten]

/-- (B) their widths add up to the width of the spliced string (`inserted_width` of
    `inner_splice` = what `TxHook` adds to `idx`) -/
theorem sumW_elemsOf (enc : Enc) (ps : List Piece) : sumW (elemsOf enc ps) = strWidth enc ps := by
  cases enc with
  | gc =>
    simp only [elemsOf, sumW, strWidth, List.map_map, Function.comp_def]
    induction ps with
    | nil => rfl
    | cons p ps ih => simp [ih]; omega
  | cp =>
    simp only [elemsOf, sumW, strWidth, List.map_map, Function.comp_def]
    rw [← unitWidth_flatten .cp (by decide), splitChars_flatten]
  | utf8 =>
    simp only [elemsOf, sumW, strWidth, List.map_map, Function.comp_def]
    rw [← unitWidth_flatten .utf8 (by decide), splitChars_flatten]
  | utf16 =>
    simp only [elemsOf, sumW, strWidth, List.map_map, Function.comp_def]
    rw [← unitWidth_flatten .utf16 (by decide), splitChars_flatten]

/-! ### the width-indexed splice on aligned positions -/

theorem splitAtW_boundary (a b : List Elem) (ha : ∀ e ∈ a, 0 < e.w) :
    splitAtW (a ++ b) (sumW a) = (a, b, sumW a) := by
  induction a with
  | nil =>
    cases b with
    | nil => simp [splitAtW, sumW]
    | cons e es => simp [splitAtW, sumW]
  | cons e a ih =>
    have he : 0 < e.w := ha e (by simp)
    have hne : ¬ (sumW (e :: a) = 0) := by simp [sumW]; omega
    have hsub : sumW (e :: a) - e.w = sumW a := by simp [sumW]
    simp only [List.cons_append, splitAtW, if_neg hne, hsub, ih (fun x hx => ha x (by simp [hx]))]
    simp [sumW]

theorem deleteW_exact (a b : List Elem) (ha : ∀ e ∈ a, 0 < e.w) :
    deleteW (a ++ b) (sumW a) = (b, sumW a, a.length) := by
  induction a with
  | nil => cases b <;> simp [deleteW, sumW]
  | cons e a ih =>
    have he : 0 < e.w := ha e (by simp)
    obtain ⟨k, hk⟩ : ∃ k, sumW (e :: a) = k + 1 := ⟨sumW (e :: a) - 1, by simp [sumW]; omega⟩
    have hsub : k + 1 - e.w = sumW a := by rw [← hk]; simp [sumW]
    rw [List.cons_append, hk]
    simp only [deleteW, hsub, ih (fun x hx => ha x (by simp [hx]))]
    simp [← hk, sumW]

theorem deleteW_zero (b : List Elem) : deleteW b 0 = (b, 0, 0) := by
  cases b <;> simp [deleteW]

/-- What the proof needs from the encoding, for the target segmentation `new`. -/
structure EncOK (enc : Enc) (new : List Piece) : Prop where
  pos : ∀ i len, ∀ e ∈ elemsOf enc ((new.drop i).take len), 0 < e.w
  empty : ∀ i len, ((new.drop i).take len).flatten = [] → strWidth enc ((new.drop i).take len) = 0

/-- alignment of the old text: each grapheme cluster, paired with the run of elements that spells
    it, whose widths add up to the cluster's width -/
def GroupOK (enc : Enc) (x : List Elem × Piece) : Prop :=
  textOf x.1 = x.2 ∧ sumW x.1 = pieceWidth enc x.2 ∧ ∀ e ∈ x.1, 0 < e.w

def groupsOf (gp : List (List Elem × Piece)) : List Elem := (gp.map (·.1)).flatten

theorem groupsOf_append (a b : List (List Elem × Piece)) : groupsOf (a ++ b) = groupsOf a ++ groupsOf b := by
  simp [groupsOf]

theorem groupsOf_pos (enc : Enc) (gp : List (List Elem × Piece)) (h : ∀ x ∈ gp, GroupOK enc x) :
    ∀ e ∈ groupsOf gp, 0 < e.w := by
  intro e he
  simp only [groupsOf, List.mem_flatten, List.mem_map] at he
  obtain ⟨l, ⟨x, hx, rfl⟩, hel⟩ := he
  exact (h x hx).2.2 e hel

theorem groupsOf_sumW (enc : Enc) (gp : List (List Elem × Piece)) (h : ∀ x ∈ gp, GroupOK enc x) :
    sumW (groupsOf gp) = sumP enc (gp.map (·.2)) := by
  induction gp with
  | nil => simp [groupsOf, sumW, sumP]
  | cons x gp ih =>
    have hx := h x (by simp)
    have := ih (fun y hy => h y (by simp [hy]))
    simp only [groupsOf, List.map_cons, List.flatten_cons] at this ⊢
    rw [sumW_append, this, hx.2.1]
    simp [sumP]

theorem groupsOf_text (enc : Enc) (gp : List (List Elem × Piece)) (h : ∀ x ∈ gp, GroupOK enc x) :
    textOf (groupsOf gp) = (gp.map (·.2)).flatten := by
  induction gp with
  | nil => simp [groupsOf, textOf]
  | cons x gp ih =>
    have hx := h x (by simp)
    have := ih (fun y hy => h y (by simp [hy]))
    simp only [groupsOf, List.map_cons, List.flatten_cons] at this ⊢
    rw [textOf_append, this, hx.1]

theorem drop_split {β : Type} (xs : List β) (o len : Nat) :
    xs.drop o = (xs.drop o).take len ++ xs.drop (o + len) :=
  (take_append_drop_drop xs o len).symm

/-- Invariant of the hook run over a well-formed script. -/
theorem runHooks_wf (enc : Enc) (old new : List Piece) (gp : List (List Elem × Piece))
    (hold : old = gp.map (·.2)) (hgp : ∀ x ∈ gp, GroupOK enc x) (hE : EncOK enc new)
    (script : List Hook) (o n o' n' : Nat) (hwf : Wf old new script o n o' n') :
    ∀ (st st' : St) (done : List Elem),
      st.idx = sumW done → st.els = done ++ groupsOf (gp.drop o) → (∀ e ∈ done, 0 < e.w) →
      runHooks enc old new st script = .ok st' →
      ∃ done', st'.idx = sumW done' ∧ st'.els = done' ++ groupsOf (gp.drop o') ∧ (∀ e ∈ done', 0 < e.w) ∧
        textOf done' ++ (new.drop n').flatten = textOf done ++ (new.drop n).flatten := by
  induction hwf with
  | nil o n =>
    intro st st' done h1 h2 h3 hrun
    simp only [runHooks] at hrun
    cases hrun
    exact ⟨done, h1, h2, h3, rfl⟩
  | @equal o n len o' n' r heq hob hnb _ ih =>
    intro st st' done h1 h2 h3 hrun
    simp only [runHooks, hookStep, slice, if_pos hob, bind, Except.bind, pure, Except.pure] at hrun
    -- the groups of the equal range move from "rest" to "done"
    have hsplit := drop_split gp o len
    have hg1 : ∀ x ∈ (gp.drop o).take len, GroupOK enc x :=
      fun x hx => hgp x (List.mem_of_mem_drop (List.mem_of_mem_take hx))
    have hps : (old.drop o).take len = ((gp.drop o).take len).map (·.2) := by
      rw [hold, List.map_take, List.map_drop]
    refine ih _ st' (done ++ groupsOf ((gp.drop o).take len)) ?_ ?_ ?_ hrun |>.imp ?_
    · simp only [h1, sumW_append, groupsOf_sumW enc _ hg1, hps]
    · simp only [h2]; rw [hsplit, groupsOf_append, List.append_assoc]
      congr 2
      rw [← hsplit]
    · intro e he
      rcases List.mem_append.mp he with he | he
      · exact h3 e he
      · exact groupsOf_pos enc _ hg1 e he
    · intro done' hd
      obtain ⟨a, b, c, d⟩ := hd
      refine ⟨a, b, c, ?_⟩
      rw [d, textOf_append, groupsOf_text enc _ hg1, ← hps, take_drop_eq_of_getElem? heq, List.append_assoc,
        ← List.flatten_append, take_append_drop_drop]
  | @delete o n len o' n' r hob _ ih =>
    intro st st' done h1 h2 h3 hrun
    have hsplit := drop_split gp o len
    have hg1 : ∀ x ∈ (gp.drop o).take len, GroupOK enc x :=
      fun x hx => hgp x (List.mem_of_mem_drop (List.mem_of_mem_take hx))
    have hps : (old.drop o).take len = ((gp.drop o).take len).map (·.2) := by
      rw [hold, List.map_take, List.map_drop]
    have hels : st.els = done ++ (groupsOf ((gp.drop o).take len) ++ groupsOf (gp.drop (o + len))) := by
      rw [h2]; rw [hsplit, groupsOf_append]; congr 3; rw [← hsplit]
    have hsp : splitAtW st.els st.idx = (done, groupsOf ((gp.drop o).take len) ++ groupsOf (gp.drop (o + len)), sumW done) := by
      rw [hels, h1]; exact splitAtW_boundary _ _ h3
    have hdel : deleteW (groupsOf ((gp.drop o).take len) ++ groupsOf (gp.drop (o + len))) (sumP enc ((old.drop o).take len))
        = (groupsOf (gp.drop (o + len)), sumW (groupsOf ((gp.drop o).take len)), (groupsOf ((gp.drop o).take len)).length) := by
      rw [hps, ← groupsOf_sumW enc _ hg1]
      exact deleteW_exact _ _ (groupsOf_pos enc _ hg1)
    simp only [runHooks, hookStep, slice, if_pos hob, bind, Except.bind, spliceText, List.flatten_nil,
      List.isEmpty_nil, if_true, hsp, hdel] at hrun
    refine ih _ st' done ?_ ?_ h3 hrun
    · exact h1
    · rfl
  | @insert oi o n len o' n' r hnb _ ih =>
    intro st st' done h1 h2 h3 hrun
    simp only [runHooks, hookStep, slice, if_pos hnb, bind, Except.bind, pure, Except.pure] at hrun
    have hsp : splitAtW st.els st.idx = (done, groupsOf (gp.drop o), sumW done) := by
      rw [h2, h1]; exact splitAtW_boundary _ _ h3
    by_cases hem : ((new.drop n).take len).flatten.isEmpty = true
    · -- nothing to insert
      have hem' : ((new.drop n).take len).flatten = [] := List.isEmpty_iff.mp hem
      simp only [spliceText, hem, if_true, hsp, deleteW_zero] at hrun
      refine ih _ st' done ?_ ?_ h3 hrun |>.imp ?_
      · simp [h1, hE.empty n len hem']
      · simp [h2]
      · intro done' hd
        obtain ⟨a, b, c, d⟩ := hd
        refine ⟨a, b, c, ?_⟩
        rw [d, ← take_append_drop_drop new n len, List.flatten_append, hem']
        simp
    · have hle : ¬ (st.idx > sumW st.els) := by
        rw [h2, h1, sumW_append]; omega
      simp only [spliceText, hem, if_neg hle, hsp, deleteW_zero] at hrun
      simp only [Bool.false_eq_true, if_false] at hrun
      refine ih _ st' (done ++ elemsOf enc ((new.drop n).take len)) ?_ ?_ ?_ hrun |>.imp ?_
      · simp [h1, sumW_append, sumW_elemsOf]
      · simp
      · intro e he
        rcases List.mem_append.mp he with he | he
        · exact h3 e he
        · exact hE.pos n len e he
      · intro done' hd
        obtain ⟨a, b, c, d⟩ := hd
        refine ⟨a, b, c, ?_⟩
        rw [d, textOf_append, textOf_elemsOf, List.append_assoc, ← List.flatten_append, take_append_drop_drop]

/-! ### `EncOK` for the four encodings -/

/-- a piece of valid UTF-8: non-empty, first byte not a continuation byte -/
def LeadOK (p : Piece) : Prop := ∃ b r, p = b :: r ∧ isCont b = false

theorem splitChars_heads (s : Bytes) : ∀ c cs, splitChars s = c :: cs →
    c.head? = s.head? ∧ ∀ c' ∈ cs, ∃ b r, c' = b :: r ∧ isCont b = false := by
  induction s with
  | nil => intro c cs h; simp [splitChars] at h
  | cons b rest ih =>
    intro c cs h
    cases rest with
    | nil => simp [splitChars] at h; obtain ⟨rfl, rfl⟩ := h; simp
    | cons r rs =>
      rw [splitChars] at h
      cases h2 : splitChars (r :: rs) with
      | nil => rw [h2] at h; simp at h; obtain ⟨rfl, rfl⟩ := h; simp
      | cons c2 cs2 =>
        obtain ⟨ih1, ih2⟩ := ih c2 cs2 h2
        rw [h2] at h
        simp only at h
        split at h
        · rename_i hc
          simp at h; obtain ⟨rfl, rfl⟩ := h
          exact ⟨by simp, ih2⟩
        · rename_i hc
          simp at h; obtain ⟨rfl, rfl⟩ := h
          refine ⟨by simp, ?_⟩
          intro c' hc'
          rcases List.mem_cons.mp hc' with rfl | hc'
          · cases c' with
            | nil => simp at ih1
            | cons x xs =>
              simp at ih1; subst ih1
              exact ⟨x, xs, rfl, by simpa using hc⟩
          · exact ih2 c' hc'

theorem splitChars_lead (s : Bytes) (hs : s = [] ∨ LeadOK s) : ∀ c ∈ splitChars s, LeadOK c := by
  intro c hc
  cases h : splitChars s with
  | nil => rw [h] at hc; simp at hc
  | cons c0 cs =>
    obtain ⟨h1, h2⟩ := splitChars_heads s c0 cs h
    rw [h] at hc
    rcases List.mem_cons.mp hc with rfl | hc
    · rcases hs with rfl | ⟨b, r, rfl, hb⟩
      · simp [splitChars] at h
      · cases c with
        | nil => simp at h1
        | cons x xs => simp at h1; subst h1; exact ⟨x, xs, rfl, hb⟩
    · exact h2 c hc

theorem splitChars_ne_nil (s : Bytes) : ∀ c ∈ splitChars s, c ≠ [] := by
  intro c hc
  cases h : splitChars s with
  | nil => rw [h] at hc; simp at hc
  | cons c0 cs =>
    obtain ⟨h1, h2⟩ := splitChars_heads s c0 cs h
    rw [h] at hc
    rcases List.mem_cons.mp hc with rfl | hc
    · intro hn; subst hn
      cases s with
      | nil => simp [splitChars] at h
      | cons b r => simp at h1
    · obtain ⟨b, r, rfl, _⟩ := h2 c hc; simp

theorem flatten_lead (ps : List Piece) (h : ∀ p ∈ ps, LeadOK p) : ps.flatten = [] ∨ LeadOK ps.flatten := by
  cases ps with
  | nil => left; rfl
  | cons p ps =>
    obtain ⟨b, r, rfl, hb⟩ := h p (by simp)
    right; exact ⟨b, r ++ ps.flatten, by simp, hb⟩

theorem widthCp_pos_of_lead (c : Bytes) (h : LeadOK c) : 0 < widthCp c := by
  obtain ⟨b, r, rfl, hb⟩ := h
  simp [widthCp, hb]

theorem encOK_of_lead (enc : Enc) (new : List Piece) (h : ∀ p ∈ new, LeadOK p) : EncOK enc new := by
  have hsub : ∀ i len, ∀ p ∈ (new.drop i).take len, LeadOK p :=
    fun i len p hp => h p (List.mem_of_mem_drop (List.mem_of_mem_take hp))
  constructor
  · intro i len e he
    cases enc with
    | gc =>
      simp only [elemsOf, List.mem_map] at he
      obtain ⟨_, _, rfl⟩ := he; exact Nat.one_pos
    | utf8 =>
      simp only [elemsOf, List.mem_map] at he
      obtain ⟨c, hc, rfl⟩ := he
      have := splitChars_ne_nil _ c hc
      simp only [unitWidth]
      exact List.length_pos_iff.mpr this
    | cp =>
      simp only [elemsOf, List.mem_map] at he
      obtain ⟨c, hc, rfl⟩ := he
      exact widthCp_pos_of_lead c (splitChars_lead _ (flatten_lead _ (hsub i len)) c hc)
    | utf16 =>
      simp only [elemsOf, List.mem_map] at he
      obtain ⟨c, hc, rfl⟩ := he
      have := widthCp_pos_of_lead c (splitChars_lead _ (flatten_lead _ (hsub i len)) c hc)
      simp only [unitWidth, widthUtf16]; omega
  · intro i len hem
    cases enc with
    | gc =>
      simp only [strWidth]
      cases hps : (new.drop i).take len with
      | nil => rfl
      | cons p ps =>
        obtain ⟨b, r, rfl, _⟩ := hsub i len p (by rw [hps]; simp)
        rw [hps] at hem; simp at hem
    | cp => simp [strWidth, hem, unitWidth, widthCp]
    | utf8 => simp [strWidth, hem, unitWidth]
    | utf16 => simp [strWidth, hem, unitWidth, widthUtf16, widthCp]

end AmVerif.UpdateText
