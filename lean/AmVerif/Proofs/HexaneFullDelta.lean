import AmVerif.Proofs.HexaneLoad
import AmVerif.Proofs.HexaneQuery
/-
  Helper lemmas for C35 (first sentence, delta columns): `DeltaColumn::load`'s own bookkeeping —
  the checked per-slab offsets of `IndexedDeltaWeightFn::accumulate_run` (`aggStep`), the slab cut
  every 32 segments, and the domain walk of `load_with` (`domainCheck`) — accepts the segments of
  the differences of any value list that lies in the type's domain and in a 2^63-wide window.
-/
namespace AmVerif.Hexane
open AmVerif

/-- `T::MIN_I64 ..= T::MAX_I64` of a `DeltaValue` type: inside `i64`, containing 0 -/
structure DeltaDom (lo hi : Int) : Prop where
  lo_ge : -(two63 : Int) ≤ lo
  lo_le : lo ≤ 0
  hi_ge : 0 ≤ hi
  hi_lt : hi < (two63 : Int)

/-- a set of realized values inside the domain whose pairwise differences fit an `i64` -/
structure Window (lo hi : Int) (S : Int → Prop) : Prop where
  dom : ∀ v, S v → lo ≤ v ∧ v ≤ hi
  span : ∀ v w, S v → S w → -(two63 : Int) ≤ v - w ∧ v - w < (two63 : Int)

theorem inI64_iff (z : Int) : inI64 z = true ↔ (-(two63 : Int) ≤ z ∧ z < (two63 : Int)) := by
  simp [inI64]

/-- what the segments must satisfy when read from running value `cur`: the first and the last
    value of every run are in `S` -/
def Fits (S : Int → Prop) : List (Item Int) → Int → Prop
  | [], _ => True
  | .head _ :: r, cur => Fits S r cur
  | .litv d :: r, cur => S (cur + d) ∧ Fits S r (cur + d)
  | .run n d :: r, cur => 1 ≤ n ∧ n < two63 ∧ S (cur + d) ∧ S (cur + d * (n : Int)) ∧ Fits S r (cur + d * (n : Int))
  | .null _ :: r, cur => Fits S r cur

/-- the aggregate of the slab being cut: `cur` is the running realized value, `base` the realized
    value at the start of the slab -/
structure DAggInv (lo hi : Int) (S : Int → Prop) (a : Agg) (cur base : Int) : Prop where
  tot0 : a.len = 0 → a.total = 0
  cur_eq : base + a.total = cur
  bnd : a.len > 0 → lo ≤ base + a.minOff ∧ base + a.maxOff ≤ hi
  curS : S cur ∨ (cur = 0 ∧ base = 0)
  baseS : S base ∨ base = 0

theorem aggStep_null {lo hi : Int} {S : Int → Prop} (hd : DeltaDom lo hi) (hw : Window lo hi S)
    (a : Agg) (cur base : Int) (count : Nat) (h : DAggInv lo hi S a cur base) :
    ∃ a', aggStep a count none = .ok a' ∧ DAggInv lo hi S a' cur base := by
  obtain ⟨t0, ce, bd, cs, bs⟩ := h
  have hbase : lo ≤ base ∧ base ≤ hi := by
    rcases bs with h | h
    · exact hw.dom _ h
    · subst h; exact ⟨hd.lo_le, hd.hi_ge⟩
  have hcur : lo ≤ cur ∧ cur ≤ hi := by
    rcases cs with h | h
    · exact hw.dom _ h
    · rw [h.1]; exact ⟨hd.lo_le, hd.hi_ge⟩
  simp only [aggStep]
  by_cases hl : a.len = 0
  · refine ⟨_, rfl, ?_⟩
    simp only [hl, if_true]
    exact ⟨fun _ => t0 hl, ce, fun _ => by simp only; omega, cs, bs⟩
  · refine ⟨_, rfl, ?_⟩
    simp only [hl, if_false]
    have := bd (by omega)
    exact ⟨fun h => by simp only at h; omega, ce, fun _ => by simp only; omega, cs, bs⟩

theorem aggStep_val {lo hi : Int} {S : Int → Prop} (hd : DeltaDom lo hi) (hw : Window lo hi S)
    (a : Agg) (cur base d : Int) (count : Nat) (h : DAggInv lo hi S a cur base)
    (hc1 : 1 ≤ count) (hc : count < two63) (h1 : S (cur + d)) (h2 : S (cur + d * (count : Int))) :
    ∃ a', aggStep a count (some d) = .ok a' ∧ DAggInv lo hi S a' (cur + d * (count : Int)) base := by
  obtain ⟨t0, ce, bd, cs, bs⟩ := h
  have d1 := hw.dom _ h1
  have d2 := hw.dom _ h2
  have hdlo := hd.lo_ge
  have hdhi := hd.hi_lt
  -- the run's span `d * count` is the difference of two values (or a value itself)
  have hstep : -(two63 : Int) ≤ d * (count : Int) ∧ d * (count : Int) < (two63 : Int) := by
    rcases cs with h | h
    · have := hw.span _ _ h2 h; omega
    · rw [h.1] at d2; omega
  have hfirst : -(two63 : Int) ≤ a.total + d ∧ a.total + d < (two63 : Int) := by
    rcases bs with h | h
    · have := hw.span _ _ h1 h; omega
    · subst h; omega
  have hlast : -(two63 : Int) ≤ a.total + d * (count : Int) ∧ a.total + d * (count : Int) < (two63 : Int) := by
    rcases bs with h | h
    · have := hw.span _ _ h2 h; omega
    · subst h; omega
  simp only [aggStep]
  have c0 : ¬ ¬ (count < two63) := by omega
  have c1 : ¬ ¬ (inI64 (d * (count : Int)) = true) := by rw [inI64_iff]; omega
  have c2 : ¬ ¬ (inI64 (a.total + d) = true) := by rw [inI64_iff]; omega
  have c3 : ¬ ¬ (inI64 (a.total + d * (count : Int)) = true) := by rw [inI64_iff]; omega
  rw [if_neg c0, if_neg c1, if_neg c2, if_neg c3]
  refine ⟨_, rfl, ?_⟩
  by_cases hl : a.len = 0
  · simp only [hl, if_true]
    exact ⟨fun h => by simp only at h; omega, by simp only; omega, fun _ => by simp only; omega,
      Or.inl h2, bs⟩
  · simp only [hl, if_false]
    have := bd (by omega)
    exact ⟨fun h => by simp only at h; omega, by simp only; omega, fun _ => by simp only; omega,
      Or.inl h2, bs⟩

/-- the closed slabs pass the domain walk and leave its running sum at `base` -/
def AggsOK (lo hi : Int) (aggs : List Agg) (base : Int) : Prop :=
  ∀ rest, domainCheck lo hi (aggs ++ rest) 0 = domainCheck lo hi rest base

/-- one segment through `acctStep` once its aggregate step is known to succeed -/
theorem acctStep_delta {lo hi : Int} {S : Int → Prop} (st : AState) (count : Nat) (v : Option Int)
    (cur' base : Int) (a' : Agg)
    (hlen : st.slabLen + count < two64)
    (hagg : aggStep st.agg count v = .ok a') (hok : AggsOK lo hi st.aggs base)
    (hinv : DAggInv lo hi S a' cur' base) :
    ∃ st' base', acctStep (.delta lo hi) st count v = .ok st' ∧ AggsOK lo hi st'.aggs base' ∧
      DAggInv lo hi S st'.agg cur' base' ∧
      st'.closed + st'.slabLen = st.closed + st.slabLen + count := by
  unfold acctStep
  have hn : ¬ ¬ (st.slabLen + count < two64) := by omega
  rw [if_neg hn]
  simp only [hagg]
  by_cases h32 : st.slabSegs + 1 = 32
  · rw [if_pos h32]
    refine ⟨_, cur', rfl, ?_, ?_, by simp only; omega⟩
    · intro rest
      simp only
      rw [List.append_assoc, hok ([a'] ++ rest)]
      simp only [List.singleton_append, domainCheck]
      by_cases hl : a'.len = 0
      · have := hinv.tot0 hl
        have := hinv.cur_eq
        rw [if_pos hl]
        have e : base = cur' := by omega
        rw [e]
      · rw [if_neg hl]
        have := hinv.bnd (by omega)
        have hb : ¬ (base + a'.minOff < lo ∨ base + a'.maxOff > hi) := by omega
        rw [if_neg hb, hinv.cur_eq]
    · refine ⟨fun _ => rfl, by simp, fun h => by simp at h, ?_, ?_⟩
      · rcases hinv.curS with h | h
        · exact Or.inl h
        · exact Or.inr ⟨h.1, h.1⟩
      · rcases hinv.curS with h | h
        · exact Or.inl h
        · exact Or.inr h.1
  · rw [if_neg h32]
    exact ⟨_, base, rfl, hok, hinv, by simp only; omega⟩

theorem account_delta {lo hi : Int} {S : Int → Prop} (hd : DeltaDom lo hi) (hw : Window lo hi S) :
    ∀ (items : List (Item Int)) (st : AState) (cur base : Int),
      Fits S items cur → AggsOK lo hi st.aggs base → DAggInv lo hi S st.agg cur base →
      st.closed + st.slabLen + itemsLen items < two64 →
      ∃ st' cur' base', account (.delta lo hi) id items st = .ok st' ∧ AggsOK lo hi st'.aggs base' ∧
        DAggInv lo hi S st'.agg cur' base' ∧
        st'.closed + st'.slabLen = st.closed + st.slabLen + itemsLen items := by
  intro items
  induction items with
  | nil => intro st cur base _ h1 h2 _; exact ⟨st, cur, base, rfl, h1, h2, by simp [itemsLen]⟩
  | cons x r ih =>
    intro st cur base hf hok hinv hl
    rw [itemsLen_cons] at hl
    cases x with
    | head k =>
      simp only [itemCount] at hl
      simp only [Fits] at hf
      obtain ⟨st', c', b', e, r1, r2, r3⟩ := ih st cur base hf hok hinv (by omega)
      exact ⟨st', c', b', by simpa [account] using e, r1, r2,
        by rw [itemsLen_cons]; simp only [itemCount]; omega⟩
    | litv d =>
      simp only [itemCount] at hl
      simp only [Fits] at hf
      obtain ⟨hs, hf'⟩ := hf
      have e1 : d * ((1 : Nat) : Int) = d := by simp
      obtain ⟨a', ea, ia⟩ := aggStep_val hd hw st.agg cur base d 1 hinv (by omega) (by unfold two63; omega)
        hs (by rw [e1]; exact hs)
      rw [e1] at ia
      obtain ⟨s1, b1, es, ok1, inv1, len1⟩ := acctStep_delta st 1 (some d) (cur + d) base a' (by omega) ea hok ia
      obtain ⟨st', c', b', e, r1, r2, r3⟩ := ih s1 (cur + d) b1 hf' ok1 inv1 (by omega)
      refine ⟨st', c', b', ?_, r1, r2, by rw [itemsLen_cons]; simp only [itemCount]; omega⟩
      simp only [account, id, es, e]
    | run n d =>
      simp only [itemCount] at hl
      simp only [Fits] at hf
      obtain ⟨hn1, hn, hs1, hs2, hf'⟩ := hf
      obtain ⟨a', ea, ia⟩ := aggStep_val hd hw st.agg cur base d n hinv hn1 hn hs1 hs2
      obtain ⟨s1, b1, es, ok1, inv1, len1⟩ :=
        acctStep_delta st n (some d) (cur + d * (n : Int)) base a' (by omega) ea hok ia
      obtain ⟨st', c', b', e, r1, r2, r3⟩ := ih s1 _ b1 hf' ok1 inv1 (by omega)
      refine ⟨st', c', b', ?_, r1, r2, by rw [itemsLen_cons]; simp only [itemCount]; omega⟩
      simp only [account, id, es, e]
    | null n =>
      simp only [itemCount] at hl
      simp only [Fits] at hf
      obtain ⟨a', ea, ia⟩ := aggStep_null hd hw st.agg cur base n hinv
      obtain ⟨s1, b1, es, ok1, inv1, len1⟩ := acctStep_delta st n none cur base a' (by omega) ea hok ia
      obtain ⟨st', c', b', e, r1, r2, r3⟩ := ih s1 cur b1 hf ok1 inv1 (by omega)
      refine ⟨st', c', b', ?_, r1, r2, by rw [itemsLen_cons]; simp only [itemCount]; omega⟩
      simp only [account, es, e]

theorem finish_delta {lo hi : Int} {S : Int → Prop} (st : AState) (cur base : Int)
    (hok : AggsOK lo hi st.aggs base) (hinv : DAggInv lo hi S st.agg cur base)
    (h : st.closed + st.slabLen < two64) :
    finish (.delta lo hi) none st = .ok (st.closed + st.slabLen) := by
  unfold finish
  have hn : ¬ ¬ (st.closed + st.slabLen < two64) := by omega
  simp only [hn, if_false, finish.finishW]
  have hcheck : domainCheck lo hi (if st.slabSegs > 0 then st.aggs ++ [st.agg] else st.aggs) 0 = true := by
    split
    · rw [hok [st.agg]]
      simp only [domainCheck]
      by_cases hl : st.agg.len = 0
      · rw [if_pos hl]
      · rw [if_neg hl]
        have := hinv.bnd (by omega)
        have hb : ¬ (base + st.agg.minOff < lo ∨ base + st.agg.maxOff > hi) := by omega
        rw [if_neg hb]
    · have := hok []
      rw [List.append_nil] at this
      rw [this]; rfl
  rw [hcheck]; rfl

/-! ### the realized values behind the segments -/

theorem realise_rep_none (rest : List (Option Int)) : ∀ (n : Nat) (cur : Int),
    realise (List.replicate n none ++ rest) cur = List.replicate n none ++ realise rest cur := by
  intro n
  induction n with
  | zero => intro cur; rfl
  | succ n ih => intro cur; simp only [List.replicate_succ, List.cons_append, realise, ih]

theorem mul_succ_cast (d : Int) (n : Nat) : d * ((n + 1 : Nat) : Int) = d + d * (n : Int) := by
  push_cast; rw [Int.mul_add, Int.mul_one]; omega

theorem realise_rep_rest (d : Int) (rest : List (Option Int)) (x : Option Int) : ∀ (n : Nat) (cur : Int),
    x ∈ realise rest (cur + d * (n : Int)) → x ∈ realise (List.replicate n (some d) ++ rest) cur := by
  intro n
  induction n with
  | zero => intro cur h; simpa using h
  | succ n ih =>
    intro cur h
    simp only [List.replicate_succ, List.cons_append, realise]
    refine List.mem_cons_of_mem _ (ih (cur + d) ?_)
    rw [mul_succ_cast] at h
    have e : cur + d + d * (n : Int) = cur + (d + d * (n : Int)) := by omega
    rw [e]; exact h

theorem realise_rep_first (d : Int) (rest : List (Option Int)) (n : Nat) (cur : Int) (hn : 1 ≤ n) :
    some (cur + d) ∈ realise (List.replicate n (some d) ++ rest) cur := by
  obtain ⟨k, rfl⟩ : ∃ k, n = k + 1 := ⟨n - 1, by omega⟩
  simp only [List.replicate_succ, List.cons_append, realise]
  exact List.mem_cons_self

theorem realise_rep_last (d : Int) (rest : List (Option Int)) : ∀ (n : Nat) (cur : Int), 1 ≤ n →
    some (cur + d * (n : Int)) ∈ realise (List.replicate n (some d) ++ rest) cur := by
  intro n
  induction n with
  | zero => intro cur h; omega
  | succ n ih =>
    intro cur _
    simp only [List.replicate_succ, List.cons_append, realise]
    by_cases hn : n = 0
    · subst hn
      have : cur + d * ((0 + 1 : Nat) : Int) = cur + d := by simp
      rw [this]; exact List.mem_cons_self
    · refine List.mem_cons_of_mem _ ?_
      have := ih (cur + d) (by omega)
      rw [mul_succ_cast]
      have e : cur + (d + d * (n : Int)) = cur + d + d * (n : Int) := by omega
      rw [e]; exact this

/-- canonical segments whose realized values are all in `S` fit -/
theorem fits_of_canon {S : Int → Prop} (nullable : Bool) :
    ∀ (items : List (Item Int)) (st : PState Int) (cur : Int), canon validI64 nullable st items →
      (∀ v, some v ∈ realise (expand items) cur → S v) → Fits S items cur := by
  intro items
  induction items with
  | nil => intro _ _ _ _; trivial
  | cons it r ih =>
    intro st cur hc hs
    cases it with
    | head k =>
      simp only [canon] at hc
      simp only [Fits]
      exact ih _ cur hc.2.2.2.2 (by simpa [expand] using hs)
    | litv d =>
      simp only [canon] at hc
      simp only [expand, realise] at hs
      simp only [Fits]
      exact ⟨hs _ List.mem_cons_self, ih _ _ hc.2.2.2.2 (fun v hv => hs v (List.mem_cons_of_mem _ hv))⟩
    | run n d =>
      simp only [canon] at hc
      obtain ⟨_, h2, h3, _, _, hr⟩ := hc
      simp only [expand] at hs
      simp only [Fits]
      exact ⟨by omega, h3, hs _ (realise_rep_first d _ n cur (by omega)),
        hs _ (realise_rep_last d _ n cur (by omega)),
        ih _ _ hr (fun v hv => hs v (realise_rep_rest d _ _ n cur hv))⟩
    | null n =>
      simp only [canon] at hc
      simp only [expand, realise_rep_none] at hs
      simp only [Fits]
      exact ih _ cur hc.2.2.2.2.2 (fun v hv => hs v (List.mem_append_right _ hv))

theorem deltas_length : ∀ (ys : List (Option Int)) (a : Int), (deltas ys a).length = ys.length := by
  intro ys
  induction ys with
  | nil => intro a; rfl
  | cons y ys ih => intro a; cases y <;> simp [deltas, ih]

/-- the differences of a windowed list are `i64`s -/
theorem deltas_valid (nullable : Bool) : ∀ (xs : List (Option Int)) (a : Int),
    (∀ v, some v ∈ xs → -(two63 : Int) ≤ v - a ∧ v - a < (two63 : Int)) →
    (∀ v w, some v ∈ xs → some w ∈ xs → -(two63 : Int) ≤ v - w ∧ v - w < (two63 : Int)) →
    (none ∈ xs → nullable = true) →
    ListValid validI64 nullable (deltas xs a) := by
  intro xs
  induction xs with
  | nil => intro a _ _ _ x hx; simp [deltas] at hx
  | cons y r ih =>
    intro a h1 h2 h3
    cases y with
    | none =>
      intro x hx
      simp only [deltas, List.mem_cons] at hx
      rcases hx with rfl | hx
      · exact h3 List.mem_cons_self
      · exact ih a (fun v hv => h1 v (List.mem_cons_of_mem _ hv))
          (fun v w hv hw' => h2 v w (List.mem_cons_of_mem _ hv) (List.mem_cons_of_mem _ hw'))
          (fun hn => h3 (List.mem_cons_of_mem _ hn)) x hx
    | some v =>
      intro x hx
      simp only [deltas, List.mem_cons] at hx
      rcases hx with rfl | hx
      · exact h1 v List.mem_cons_self
      · exact ih v (fun u hu => h2 u v (List.mem_cons_of_mem _ hu) List.mem_cons_self)
          (fun u w hu hw' => h2 u w (List.mem_cons_of_mem _ hu) (List.mem_cons_of_mem _ hw'))
          (fun hn => h3 (List.mem_cons_of_mem _ hn)) x hx

/-! ### the window as a decidable condition, and the composed round trip -/

/-- the documented `DeltaValue` contract, as a decidable condition on a value list: nulls only in
    nullable columns, every value in `lo ..= hi` (`T::MIN_I64 ..= T::MAX_I64`), and all values in a
    2^63-wide range (`max - min < 2^63`) -/
def deltaWindow (nullable : Bool) (lo hi : Int) (xs : List (Option Int)) : Bool :=
  (nullable || xs.all Option.isSome) &&
  (match chunkMinMax xs with
   | none => true
   | some (mn, mx) => decide (lo ≤ mn ∧ mx ≤ hi ∧ mx - mn < (two63 : Int)))

/-- the `DeltaValue` domains of the code: `u32`, `i32`, `u64` = `usize` (64-bit), `i64` -/
def deltaDom (lo hi : Int) : Bool :=
  decide (-(two63 : Int) ≤ lo ∧ lo ≤ 0 ∧ 0 ≤ hi ∧ hi < (two63 : Int))

theorem deltaDom_spec {lo hi : Int} (h : deltaDom lo hi = true) : DeltaDom lo hi := by
  simp only [deltaDom, decide_eq_true_eq] at h
  exact ⟨h.1, h.2.1, h.2.2.1, h.2.2.2⟩

theorem deltaWindow_spec {nullable : Bool} {lo hi : Int} {xs : List (Option Int)}
    (h : deltaWindow nullable lo hi xs = true) :
    (none ∈ xs → nullable = true) ∧ Window lo hi (fun v => some v ∈ xs) := by
  simp only [deltaWindow, Bool.and_eq_true, Bool.or_eq_true] at h
  obtain ⟨hn, hm⟩ := h
  constructor
  · intro hmem
    rcases hn with hn | hn
    · exact hn
    · have := List.all_eq_true.mp hn none hmem
      simp at this
  · cases hc : chunkMinMax xs with
    | none =>
      have hnone := chunkMinMax_none xs hc
      exact ⟨fun v hv => by have := hnone _ hv; simp at this,
        fun v w hv _ => by have := hnone _ hv; simp at this⟩
    | some p =>
      obtain ⟨mn, mx⟩ := p
      rw [hc] at hm
      simp only [decide_eq_true_eq] at hm
      have hb := chunkMinMax_bounds xs mn mx hc
      exact ⟨fun v hv => by have := hb v hv; omega,
        fun v w hv hw' => by have := hb v hv; have := hb w hw'; omega⟩

/-- `DeltaColumn::load` (its real bookkeeping) on the bytes `save()` writes returns the
    encoder's segments -/
theorem rleLoad_delta_encode (nullable : Bool) (lo hi : Int) (hd : DeltaDom lo hi)
    (xs : List (Option Int)) (hlen : xs.length < two63)
    (hnull : none ∈ xs → nullable = true) (hw : Window lo hi (fun v => some v ∈ xs)) :
    rleLoad cI64 nullable (.delta lo hi) id none (deltaEncode xs) = .ok (itemsOf (deltas xs 0)) := by
  have hdl := deltas_length xs 0
  have hv : ListValid validI64 nullable (deltas xs 0) := by
    apply deltas_valid nullable xs 0 _ hw.span hnull
    intro v hv
    have := hw.dom v hv
    have := hd.lo_ge
    have := hd.hi_lt
    omega
  have hcan := canon_itemsOf validI64 nullable (deltas xs 0) (by omega) hv
  unfold deltaEncode rleLoad parseAll rleEncode
  rw [parse_write lawful_i64 nullable (itemsOf (deltas xs 0)) {} _ hcan (by omega)]
  have hfit : Fits (fun v => some v ∈ xs) (itemsOf (deltas xs 0)) 0 := by
    apply fits_of_canon nullable _ _ 0 hcan
    intro v hv
    rw [expand_itemsOf, realise_deltas] at hv
    exact hv
  have hl : itemsLen (itemsOf (deltas xs 0)) < two64 := by
    rw [itemsLen_itemsOf]; unfold two63 two64 at *; omega
  obtain ⟨st', c', b', e, ok', inv', len'⟩ :=
    account_delta hd hw (itemsOf (deltas xs 0)) {} 0 0 hfit
      (by intro rest; rfl)
      ⟨fun _ => rfl, by simp, fun h => by simp at h, Or.inr ⟨rfl, rfl⟩, Or.inr rfl⟩
      (by simpa using hl)
  simp only [e]
  rw [finish_delta st' c' b' ok' inv' (by simp at len'; omega)]

theorem deltaDecode_encode (nullable : Bool) (lo hi : Int) (hd : deltaDom lo hi = true)
    (xs : List (Option Int)) (hlen : xs.length < two63) (hw : deltaWindow nullable lo hi xs = true) :
    deltaDecode nullable lo hi (deltaEncode xs) = .ok xs := by
  obtain ⟨hnull, hwin⟩ := deltaWindow_spec hw
  unfold deltaDecode rleDecode
  rw [rleLoad_delta_encode nullable lo hi (deltaDom_spec hd) xs hlen hnull hwin]
  simp only [expand_itemsOf, realise_deltas]

/-- the differences of the realized values are the stored differences (`Int` arithmetic) -/
theorem deltas_realise : ∀ (ds : List (Option Int)) (a : Int), deltas (realise ds a) a = ds := by
  intro ds
  induction ds with
  | nil => intro a; rfl
  | cons x r ih =>
    intro a
    cases x with
    | none => simp [realise, deltas, ih]
    | some d =>
      simp only [realise, deltas, ih]
      have : a + d - a = d := by omega
      rw [this]

end AmVerif.Hexane
