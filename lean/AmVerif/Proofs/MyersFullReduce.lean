import AmVerif.Proofs.Myers
import AmVerif.Proofs.MyersBounds
/-
  C27 helper (reduction part): `SnakeInRange old new` — the statement `middle_snake_in_range` for
  one pair of sequences, with exactly the hypotheses that hold at every call `conquer` makes (ranges
  non-empty and inside the slices, common prefix and suffix stripped, both `V` arrays in the shape
  `V::new(off)` gave them with arbitrary, possibly stale, contents) — implies that `conquer` never
  ends in `invalidSplit`, hence that `diff` returns a script.
-/
namespace AmVerif.Myers
open AmVerif

section
variable {α : Type} [BEq α] [LawfulBEq α]

/-- `prefixCount` stops only at a mismatch (or at the bound `k`) -/
theorem prefixCount_max (old new : List α) : ∀ (k os ns : Nat),
    prefixCount old new os ns k < k →
    os + prefixCount old new os ns k < old.length → ns + prefixCount old new os ns k < new.length →
    old[os + prefixCount old new os ns k]? ≠ new[ns + prefixCount old new os ns k]? := by
  intro k
  induction k with
  | zero => intro os ns h; omega
  | succ k ih =>
    intro os ns
    cases ha : old[os]? with
    | none =>
      intro _ h1 _
      have := List.getElem?_eq_none_iff.mp ha
      omega
    | some a =>
      cases hb : new[ns]? with
      | none =>
        intro _ _ h2
        have := List.getElem?_eq_none_iff.mp hb
        omega
      | some b =>
        simp only [prefixCount, ha, hb]
        by_cases hab : (b == a) = true
        · simp only [hab, if_true]
          intro h h1 h2
          have := ih (os+1) (ns+1) (by omega) (by omega) (by omega)
          have e1 : os + (prefixCount old new (os+1) (ns+1) k + 1) = os + 1 + prefixCount old new (os+1) (ns+1) k := by omega
          have e2 : ns + (prefixCount old new (os+1) (ns+1) k + 1) = ns + 1 + prefixCount old new (os+1) (ns+1) k := by omega
          rw [e1, e2]; exact this
        · simp only [hab, Bool.false_eq_true, if_false, Nat.add_zero, ha, hb]
          intro _ _ _ h
          cases h
          simp at hab

/-- `suffixCount` stops only at a mismatch (or at the bound `k`) -/
theorem suffixCount_max (old new : List α) : ∀ (k oe ne : Nat),
    suffixCount old new oe ne k < k →
    suffixCount old new oe ne k < oe → suffixCount old new oe ne k < ne →
    oe ≤ old.length → ne ≤ new.length →
    old[oe - suffixCount old new oe ne k - 1]? ≠ new[ne - suffixCount old new oe ne k - 1]? := by
  intro k
  induction k with
  | zero => intro oe ne h; omega
  | succ k ih =>
    intro oe ne
    cases oe with
    | zero => intro _ h; omega
    | succ oe' =>
      cases ne with
      | zero => intro _ _ h; omega
      | succ ne' =>
        intro h0 h1 h2 h3 h4
        have hla : oe' < old.length := by omega
        have hlb : ne' < new.length := by omega
        have ha : old[oe']? = some old[oe'] := List.getElem?_eq_getElem hla
        have hb : new[ne']? = some new[ne'] := List.getElem?_eq_getElem hlb
        revert h0 h1 h2
        simp only [suffixCount, ha, hb]
        by_cases hab : (new[ne'] == old[oe']) = true
        · simp only [hab, if_true]
          intro h0 h1 h2
          have := ih oe' ne' (by omega) (by omega) (by omega) (by omega) (by omega)
          have e1 : oe' + 1 - (suffixCount old new oe' ne' k + 1) - 1 = oe' - suffixCount old new oe' ne' k - 1 := by omega
          have e2 : ne' + 1 - (suffixCount old new oe' ne' k + 1) - 1 = ne' - suffixCount old new oe' ne' k - 1 := by omega
          rw [e1, e2]; exact this
        · simp only [hab, Bool.false_eq_true, if_false, Nat.sub_zero, Nat.add_sub_cancel, ha, hb]
          intro _ _ _ h
          have e := Option.some.inj h
          rw [e] at hab
          simp at hab

/-- after `common_prefix_len` has been stripped the two ranges, if still non-empty, start with
    different units -/
theorem commonPrefixLen_max (old : List α) (os oe : Nat) (new : List α) (ns ne : Nat)
    (h1 : os + commonPrefixLen old os oe new ns ne < oe) (h2 : ns + commonPrefixLen old os oe new ns ne < ne)
    (h3 : oe ≤ old.length) (h4 : ne ≤ new.length) :
    old[os + commonPrefixLen old os oe new ns ne]? ≠ new[ns + commonPrefixLen old os oe new ns ne]? := by
  revert h1 h2
  unfold commonPrefixLen isEmptyRange
  split
  · rename_i h
    simp only [Bool.or_eq_true, Bool.not_eq_true', decide_eq_false_iff_not] at h
    intro h1 h2; omega
  · intro h1 h2
    exact prefixCount_max old new _ os ns (by omega) (by omega) (by omega)

/-- after `common_suffix_len` has been stripped the two ranges, if still non-empty, end with
    different units -/
theorem commonSuffixLen_max (old : List α) (os oe : Nat) (new : List α) (ns ne : Nat)
    (h1 : os + commonSuffixLen old os oe new ns ne < oe) (h2 : ns + commonSuffixLen old os oe new ns ne < ne)
    (h3 : oe ≤ old.length) (h4 : ne ≤ new.length) :
    old[oe - commonSuffixLen old os oe new ns ne - 1]? ≠ new[ne - commonSuffixLen old os oe new ns ne - 1]? := by
  revert h1 h2
  unfold commonSuffixLen isEmptyRange
  split
  · rename_i h
    simp only [Bool.or_eq_true, Bool.not_eq_true', decide_eq_false_iff_not] at h
    intro h1 h2; omega
  · intro h1 h2
    exact suffixCount_max old new _ oe ne (by omega) (by omega) (by omega) h3 h4

/-- `middle_snake_in_range` for the pair `old`, `new`: under the conditions `conquer` guarantees at
    every call of `find_middle_snake` (non-empty ranges inside the slices, first units differ, last
    units differ, `V` arrays of the allocated shape with ARBITRARY contents — they are reused between
    calls and never cleared), a returned split point lies in the rectangle and is neither corner. -/
def SnakeInRange (old new : List α) : Prop :=
  ∀ (os oe ns ne off : Nat) (vf vb : V) (x y : Int) (vf' vb' : V),
    os < oe → ns < ne → oe ≤ old.length → ne ≤ new.length →
    old[os]? ≠ new[ns]? → old[oe - 1]? ≠ new[ne - 1]? →
    VInv off vf → VInv off vb → maxD (oe - os) (ne - ns) ≤ off →
    findMiddleSnake old os oe new ns ne vf vb = .found x y vf' vb' →
    (os : Int) ≤ x ∧ x ≤ oe ∧ (ns : Int) ≤ y ∧ y ≤ ne ∧ ¬ (x = os ∧ y = ns) ∧ ¬ (x = oe ∧ y = ne)

theorem Res.bind_ne_invalidSplit {β γ : Type} {x : Res β} {f : β → Res γ}
    (hx : x ≠ .invalidSplit) (hf : ∀ b, x = .ok b → f b ≠ .invalidSplit) : x.bind f ≠ .invalidSplit := by
  cases x with
  | ok b => exact hf b rfl
  | invalidSplit => exact absurd rfl hx
  | outOfFuel => intro h; cases h
  | panic p => intro h; cases h

/-- the reduction: `SnakeInRange` excludes `invalidSplit` -/
theorem conquer_ne_invalidSplit (old new : List α) (H : SnakeInRange old new) {off : Nat} :
    ∀ (fuel os oe ns ne : Nat) (vf vb : V),
    os ≤ oe → ns ≤ ne → oe ≤ old.length → ne ≤ new.length →
    VInv off vf → VInv off vb → maxD (oe - os) (ne - ns) ≤ off →
    conquer old new fuel os oe ns ne vf vb ≠ .invalidSplit := by
  intro fuel
  induction fuel with
  | zero => intro os oe ns ne vf vb _ _ _ _ _ _ _ h; simp [conquer] at h
  | succ fuel ih =>
    intro os oe ns ne vf vb hos hns hoe hne hf hb hoff
    unfold conquer
    simp only
    obtain ⟨pp1, pp2, _⟩ := commonPrefixLen_spec old os oe new ns ne
    have pmax := commonPrefixLen_max old os oe new ns ne
    generalize commonPrefixLen old os oe new ns ne = p at pp1 pp2 pmax
    obtain ⟨ss1, ss2, _⟩ := commonSuffixLen_spec old (os + p) oe new (ns + p) ne
    have smax := commonSuffixLen_max old (os + p) oe new (ns + p) ne
    generalize commonSuffixLen old (os + p) oe new (ns + p) ne = s at ss1 ss2 smax
    apply Res.bind_ne_invalidSplit
    · simp only [isEmptyRange]
      by_cases c1 : os + p < oe - s <;> by_cases c2 : ns + p < ne - s
      · simp only [c1, c2, decide_true, Bool.not_true, Bool.and_self, Bool.false_eq_true, if_false]
        have hsub : maxD (oe - s - (os + p)) (ne - s - (ns + p)) ≤ off :=
          Nat.le_trans (maxD_mono (by omega)) hoff
        have h2 : 2 ≤ off := by
          have : 2 ≤ maxD (oe - s - (os + p)) (ne - s - (ns + p)) := by unfold maxD; omega
          omega
        have hg := findMiddleSnake_good old (os + p) (oe - s) new (ns + p) (ne - s) hf hb hsub h2
        cases hfm : findMiddleSnake old (os + p) (oe - s) new (ns + p) (ne - s) vf vb with
        | panic q => intro h; cases h
        | cont vf' vb' => intro h; cases h
        | found x y vf' vb' =>
          rw [hfm] at hg
          simp only
          have hr := H (os + p) (oe - s) (ns + p) (ne - s) off vf vb x y vf' vb' c1 c2 (by omega) (by omega)
            (pmax (by omega) (by omega) hoe hne) (smax (by omega) (by omega) hoe hne) hf hb hsub hfm
          rw [if_pos hr]
          obtain ⟨hx1, hx2, hy1, hy2, _, _⟩ := hr
          have hxn : (x.toNat : Int) = x := Int.toNat_of_nonneg (by omega)
          have hyn : (y.toNat : Int) = y := Int.toNat_of_nonneg (by omega)
          apply Res.bind_ne_invalidSplit
          · exact ih (os + p) x.toNat (ns + p) y.toNat vf' vb' (by omega) (by omega) (by omega) (by omega)
              hg.1 hg.2 (Nat.le_trans (maxD_mono (by omega)) hoff)
          · intro r1 hr1
            have g1 := conquer_good old new fuel (os + p) x.toNat (ns + p) y.toNat vf' vb' hg.1 hg.2
              (Nat.le_trans (maxD_mono (by omega)) hoff)
            rw [hr1] at g1
            apply Res.bind_ne_invalidSplit
            · exact ih x.toNat (oe - s) y.toNat (ne - s) r1.2.1 r1.2.2 (by omega) (by omega) (by omega) (by omega)
                g1.1 g1.2 (Nat.le_trans (maxD_mono (by omega)) hoff)
            · intro r2 _ h; cases h
      · simp only [c1, c2, decide_true, decide_false, Bool.not_true, Bool.not_false, Bool.false_and,
          Bool.false_eq_true, if_false, if_true]
        intro h; cases h
      · simp only [c1, c2, decide_true, decide_false, Bool.not_true, Bool.not_false, Bool.and_false,
          Bool.false_eq_true, if_false, if_true]
        intro h; cases h
      · simp only [c1, c2, decide_false, Bool.not_false, Bool.and_self, if_true]
        intro h; cases h
    · intro b _ h; cases h

theorem diff_ne_invalidSplit (old new : List α) (H : SnakeInRange old new) : diff old new ≠ .invalidSplit := by
  unfold diff diffFuel
  have hv : VInv (maxD old.length new.length) (V.new (maxD old.length new.length)) := by
    simp [VInv, V.new]
  apply Res.bind_ne_invalidSplit
  · exact conquer_ne_invalidSplit old new H (old.length + new.length + 1) 0 old.length 0 new.length _ _
      (Nat.zero_le _) (Nat.zero_le _) (Nat.le_refl _) (Nat.le_refl _) hv hv (by simp)
  · intro b _ h; cases h

end
end AmVerif.Myers
