import AmVerif.Proofs.SyncProgress21PairW3
/-
  C21, n peers, part 3 (PairW, fourth file): the bridge the window argument needs — a receive that
  brings nothing that has not already arrived leaves the document literally unchanged (given that no
  queued change is ready), so "no arrival" in the sense of the measure implies the document
  equalities of `Calm`.
-/
namespace AmVerif.Sync.Prog
open AmVerif AmVerif.Sync

theorem enqueue_noop (d : Doc) : ∀ (cs q : List Change),
    (∀ c ∈ cs, c.hash ∈ d.hashes ∨ c.hash ∈ q.map (·.hash)) → Doc.enqueue d q cs = q
  | [], _, _ => rfl
  | c :: cs, q, h => by
    unfold Doc.enqueue
    have hc : (d.hasChange c.hash || (q.map (·.hash)).contains c.hash) = true := by
      rcases h c (by simp) with h1 | h1
      · simp [Doc.hasChange_iff.mpr h1]
      · have : (q.map (·.hash)).contains c.hash = true := by simpa using h1
        rw [this, Bool.or_true]
    rw [if_pos hc]
    exact enqueue_noop d cs q (fun x hx => h x (List.mem_cons_of_mem _ hx))

theorem sweep_noop : ∀ (q a : List Change), Stuck a q → Doc.sweep a q = (a, q)
  | [], _, _ => rfl
  | c :: q, a, h => by
    unfold Doc.sweep
    have hc : Doc.ready a c = false := h c (by simp)
    simp only [hc, Bool.false_eq_true, if_false]
    rw [sweep_noop q a (fun x hx => h x (List.mem_cons_of_mem _ hx))]

/-- `apply_changes` with nothing that has not already arrived, on a document whose queue holds no
    ready change, is the identity -/
theorem applyChanges_noop_stuck (d : Doc) (cs : List Change) (hst : Stuck d.applied d.queue)
    (h : ∀ c ∈ cs, hasB d c.hash = true) : d.applyChanges cs = d := by
  unfold Doc.applyChanges
  have he : Doc.enqueue d d.queue cs = d.queue :=
    enqueue_noop d cs d.queue (fun c hc => hasB_iff.mp (h c hc))
  simp only [he]
  unfold Doc.drain
  simp only [sweep_noop d.queue d.applied hst, if_true]

theorem recvDoc_noop_stuck (d : Doc) (s : State) (m : Message) (hst : Stuck d.applied d.queue)
    (h : ∀ c ∈ m.changes, hasB d c.hash = true) : recvDoc d s m = d := by
  unfold recvDoc
  split
  · exact applyChanges_noop_stuck d m.changes hst h
  · rfl

/-! ### a delivery from a third peer preserves the weak invariants of the pair (towards (I)) -/

theorem Inv2.extA {c : Cfg} (i2 : Inv2 c) (cs : List Change) :
    Inv2 { c with docA := c.docA.applyChanges cs } := by
  refine ⟨⟨i2.a.sentArrived, applyChanges_stuck c.docA cs, i2.a.peerRW, i2.a.flags⟩,
          ⟨?_, i2.b.stuck, i2.b.peerRW, i2.b.flags⟩⟩
  intro h hh
  rcases i2.b.sentArrived h hh with h1 | h1
  · left; exact applyChanges_has c.docA cs h1
  · right; exact h1

theorem DocOK.ext {K : List Change} {d : Doc} (o : DocOK K d) (cs : List Change)
    (hcs : ∀ x ∈ cs, x ∈ K) : DocOK K (d.applyChanges cs) := by
  obtain ⟨w, _, s2, s3⟩ := applyChanges_spec d cs o.wf
  refine ⟨w, ?_, ?_⟩
  · intro x hx
    rcases s2 x hx with h | h | h
    · exact o.applied x h
    · exact o.queue x h
    · exact hcs x h
  · intro x hx
    rcases (s3 x hx).2 with h | h
    · exact o.queue x h
    · exact hcs x h

/-- the weak invariants of the pair (A, B) survive a delivery of known changes to A from a third
    peer (out of band for this pair) -/
theorem WP.extA {K : List Change} {c : Cfg} (w : WP K c) (cs : List Change)
    (hcs : ∀ x ∈ cs, x ∈ K) : WP K { c with docA := c.docA.applyChanges cs } :=
  ⟨w.topoK, w.oa.ext cs hcs, w.ob,
   w.sess.growA w.oa (w.oa.ext cs hcs) (applyChanges_spec c.docA cs w.oa.wf).2.1,
   w.inv2.extA cs⟩

end AmVerif.Sync.Prog
