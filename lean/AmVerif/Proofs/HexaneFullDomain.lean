import AmVerif.Proofs.HexaneFullParse
/-
  Helper lemmas for C35 (second sentence, "reject bad data", delta columns): the domain walk of
  `DeltaColumn::load_with` is SOUND — if a load is accepted, every realized value lies in
  `T::MIN_I64 ..= T::MAX_I64`.  The per-slab aggregates of `accumulate_run` bound every value of
  their slab (a run's values are monotone, so its first and last value bound the others), and the
  walk checks every non-empty slab's bounds at the slab's true starting value.
-/
namespace AmVerif.Hexane
open AmVerif

/-- the running sum of the domain walk after a list of slab weights -/
def walk : List Agg → Int → Int
  | [], r => r
  | w :: ws, r => if w.len = 0 then walk ws r else walk ws (r + w.total)

theorem walk_snoc (a : Agg) : ∀ (aggs : List Agg) (r : Int),
    walk (aggs ++ [a]) r = if a.len = 0 then walk aggs r else walk aggs r + a.total := by
  intro aggs
  induction aggs with
  | nil => intro r; by_cases h : a.len = 0 <;> simp [walk, h]
  | cons w ws ih =>
    intro r
    simp only [List.cons_append, walk]
    split
    · exact ih r
    · exact ih _

theorem domainCheck_snoc (lo hi : Int) (a : Agg) : ∀ (aggs : List Agg) (r : Int),
    domainCheck lo hi (aggs ++ [a]) r = true →
      domainCheck lo hi aggs r = true ∧
        (a.len ≠ 0 → lo ≤ walk aggs r + a.minOff ∧ walk aggs r + a.maxOff ≤ hi) := by
  intro aggs
  induction aggs with
  | nil =>
    intro r h
    simp only [List.nil_append, domainCheck] at h
    refine ⟨rfl, fun hl => ?_⟩
    rw [if_neg hl] at h
    simp only [walk]
    split at h
    · cases h
    · omega
  | cons w ws ih =>
    intro r h
    simp only [List.cons_append, domainCheck] at h
    simp only [domainCheck, walk]
    split at h
    · rename_i hl
      simp only [hl, if_true]
      exact ih r h
    · rename_i hl
      simp only [hl, if_false]
      split at h
      · cases h
      · rename_i hb
        rw [if_neg hb]
        exact ih _ h

/-! ### what one accepted bookkeeping step did -/

theorem aggStep_none_ok (a a1 : Agg) (n : Nat) (h : aggStep a n none = .ok a1) :
    a1.len = a.len + n ∧ a1.total = a.total ∧
      (a.len ≠ 0 → a1.minOff ≤ a.minOff ∧ a.maxOff ≤ a1.maxOff) := by
  simp only [aggStep, Except.ok.injEq] at h
  subst h
  split
  · exact ⟨rfl, rfl, fun h => absurd ‹_› h⟩
  · exact ⟨rfl, rfl, fun _ => by simp only; omega⟩

theorem aggStep_some_ok (a a1 : Agg) (n : Nat) (d : Int) (h : aggStep a n (some d) = .ok a1) :
    a1.len = a.len + n ∧ a1.total = a.total + d * (n : Int) ∧
      a1.minOff ≤ min (a.total + d) (a.total + d * (n : Int)) ∧
      max (a.total + d) (a.total + d * (n : Int)) ≤ a1.maxOff ∧
      (a.len ≠ 0 → a1.minOff ≤ a.minOff ∧ a.maxOff ≤ a1.maxOff) := by
  simp only [aggStep] at h
  split at h
  · cases h
  · split at h
    · cases h
    · split at h
      · cases h
      · split at h
        · cases h
        · simp only [Except.ok.injEq] at h
          subst h
          split
          · exact ⟨rfl, rfl, by simp only; omega, by simp only; omega, fun h => absurd ‹_› h⟩
          · exact ⟨rfl, rfl, by simp only; omega, by simp only; omega, fun _ => by simp only; omega⟩

theorem acctStep_delta_ok (lo hi : Int) (st st1 : AState) (count : Nat) (v : Option Int)
    (h : acctStep (.delta lo hi) st count v = .ok st1) :
    ∃ a1, aggStep st.agg count v = .ok a1 ∧
      ((st1.aggs = st.aggs ++ [a1] ∧ st1.agg = {} ∧ st1.slabSegs = 0) ∨
       (st1.aggs = st.aggs ∧ st1.agg = a1 ∧ st1.slabSegs = st.slabSegs + 1 ∧ st1.slabSegs ≠ 32)) := by
  unfold acctStep at h
  split at h
  · cases h
  · simp only at h
    cases ha : aggStep st.agg count v with
    | error e => rw [ha] at h; simp at h
    | ok a1 =>
      rw [ha] at h
      simp only at h
      refine ⟨a1, rfl, ?_⟩
      split at h
      · simp only [Outcome.ok.injEq] at h
        subst h
        exact Or.inl ⟨rfl, rfl, rfl⟩
      · rename_i h32
        simp only [Outcome.ok.injEq] at h
        subst h
        exact Or.inr ⟨rfl, rfl, rfl, h32⟩

/-! ### the invariant: closed slabs are covered by the walk, the open slab by its aggregate -/

/-- `Vc`: values of closed slabs, `Vs`: values of the slab being cut; `cur` the running realized
    value, `base` the realized value at the start of the open slab -/
structure SInv (lo hi : Int) (st : AState) (cur base : Int) (Vc Vs : Int → Prop) : Prop where
  base_eq : base = walk st.aggs 0
  cur_eq : cur = base + st.agg.total
  empty : st.agg.len = 0 → st.agg.total = 0 ∧ ∀ v, ¬ Vs v
  segs : st.slabSegs = 0 → st.agg.len = 0
  closed : domainCheck lo hi st.aggs 0 = true → ∀ v, Vc v → lo ≤ v ∧ v ≤ hi
  opened : ∀ v, Vs v → base + st.agg.minOff ≤ v ∧ v ≤ base + st.agg.maxOff

/-- a run's values lie between its first and its last value -/
theorem mul_between (d : Int) (k n : Nat) (h1 : 1 ≤ k) (h2 : k ≤ n) :
    min d (d * (n : Int)) ≤ d * (k : Int) ∧ d * (k : Int) ≤ max d (d * (n : Int)) := by
  have hk1 : (1 : Int) ≤ (k : Int) := by omega
  have hkn : (k : Int) ≤ (n : Int) := by omega
  by_cases hd : 0 ≤ d
  · have a1 : d * 1 ≤ d * (k : Int) := Int.mul_le_mul_of_nonneg_left hk1 hd
    have a2 : d * (k : Int) ≤ d * (n : Int) := Int.mul_le_mul_of_nonneg_left hkn hd
    rw [Int.mul_one] at a1
    omega
  · have hd' : d ≤ 0 := by omega
    have a1 : d * (k : Int) ≤ d * 1 := Int.mul_le_mul_of_nonpos_left hd' hk1
    have a2 : d * (n : Int) ≤ d * (k : Int) := Int.mul_le_mul_of_nonpos_left hd' hkn
    rw [Int.mul_one] at a1
    omega

/-- one accepted step keeps the invariant, with the step's values `New` added -/
theorem acctStep_sound (lo hi : Int) (st st1 : AState) (count : Nat)
    (cur cur1 base : Int) (Vc Vs New : Int → Prop) (a1 : Agg)
    (hshape : (st1.aggs = st.aggs ++ [a1] ∧ st1.agg = {} ∧ st1.slabSegs = 0) ∨
       (st1.aggs = st.aggs ∧ st1.agg = a1 ∧ st1.slabSegs = st.slabSegs + 1 ∧ st1.slabSegs ≠ 32))
    (hinv : SInv lo hi st cur base Vc Vs)
    (hlen : a1.len = st.agg.len + count) (hcnt : count = 0 → ∀ x, ¬ New x)
    (htot : cur1 = base + a1.total)
    (hold : st.agg.len ≠ 0 → a1.minOff ≤ st.agg.minOff ∧ st.agg.maxOff ≤ a1.maxOff)
    (hnew : ∀ x, New x → base + a1.minOff ≤ x ∧ x ≤ base + a1.maxOff)
    (htot0 : a1.len = 0 → a1.total = 0) :
    ∃ base1 Vc1 Vs1, SInv lo hi st1 cur1 base1 Vc1 Vs1 ∧
      (∀ x, Vc x ∨ Vs x ∨ New x → Vc1 x ∨ Vs1 x) := by
  -- the open slab with the step added
  have hopen : ∀ x, Vs x ∨ New x → base + a1.minOff ≤ x ∧ x ≤ base + a1.maxOff := by
    intro x hx
    rcases hx with hx | hx
    · have hne : st.agg.len ≠ 0 := fun h0 => (hinv.empty h0).2 x hx
      have := hold hne
      have := hinv.opened x hx
      omega
    · exact hnew x hx
  have hnone : a1.len = 0 → ∀ x, ¬ (Vs x ∨ New x) := by
    intro h0 x hx
    rcases hx with hx | hx
    · exact (hinv.empty (by omega)).2 x hx
    · exact hcnt (by omega) x hx
  rcases hshape with ⟨e1, e2, e3⟩ | ⟨e1, e2, e3, e4⟩
  · -- the slab is closed
    refine ⟨cur1, fun x => Vc x ∨ Vs x ∨ New x, fun _ => False, ?_, fun x hx => Or.inl hx⟩
    refine ⟨?_, by rw [e2]; simp, fun _ => by rw [e2]; exact ⟨rfl, fun _ h => h⟩, fun _ => by rw [e2],
      ?_, fun x hx => absurd hx id⟩
    · rw [e1, walk_snoc, ← hinv.base_eq, htot]
      split
      · rename_i h0; rw [htot0 h0]; omega
      · rfl
    · intro hdc x hx
      rw [e1] at hdc
      obtain ⟨hdc0, hb⟩ := domainCheck_snoc lo hi a1 st.aggs 0 hdc
      rcases hx with hx | hx
      · exact hinv.closed hdc0 x hx
      · have hne : a1.len ≠ 0 := fun h0 => hnone h0 x hx
        have := hb hne
        rw [← hinv.base_eq] at this
        have := hopen x hx
        omega
  · refine ⟨base, Vc, fun x => Vs x ∨ New x, ?_, fun x hx => by
      rcases hx with h | h | h
      · exact Or.inl h
      · exact Or.inr (Or.inl h)
      · exact Or.inr (Or.inr h)⟩
    refine ⟨by rw [e1]; exact hinv.base_eq, by rw [e2]; exact htot,
      fun h0 => by rw [e2] at h0 ⊢; exact ⟨htot0 h0, hnone h0⟩, fun h0 => by omega,
      by rw [e1]; exact hinv.closed, fun x hx => by rw [e2]; exact hopen x hx⟩

/-- all realized values of a segment list read from `cur` satisfy `P` -/
def AllVals (P : Int → Prop) : List (Item Int) → Int → Prop
  | [], _ => True
  | .head _ :: r, cur => AllVals P r cur
  | .litv d :: r, cur => P (cur + d) ∧ AllVals P r (cur + d)
  | .run n d :: r, cur => (∀ k : Nat, 1 ≤ k → k ≤ n → P (cur + d * (k : Int))) ∧ AllVals P r (cur + d * (n : Int))
  | .null _ :: r, cur => AllVals P r cur

theorem AllVals.mono {P Q : Int → Prop} (hpq : ∀ x, P x → Q x) :
    ∀ (items : List (Item Int)) (cur : Int), AllVals P items cur → AllVals Q items cur := by
  intro items
  induction items with
  | nil => intro _ _; trivial
  | cons it r ih =>
    intro cur h
    cases it with
    | head k => exact ih cur h
    | litv d => exact ⟨hpq _ h.1, ih _ h.2⟩
    | run n d => exact ⟨fun k h1 h2 => hpq _ (h.1 k h1 h2), ih _ h.2⟩
    | null n => exact ih cur h

theorem account_sound (lo hi : Int) :
    ∀ (items : List (Item Int)) (st st' : AState) (cur base : Int) (Vc Vs : Int → Prop),
      account (.delta lo hi) id items st = .ok st' → SInv lo hi st cur base Vc Vs →
      ∃ cur' base' Vc' Vs', SInv lo hi st' cur' base' Vc' Vs' ∧
        (∀ x, Vc x ∨ Vs x → Vc' x ∨ Vs' x) ∧ AllVals (fun x => Vc' x ∨ Vs' x) items cur := by
  intro items
  induction items with
  | nil =>
    intro st st' cur base Vc Vs h hinv
    simp only [account, Outcome.ok.injEq] at h
    subst h
    exact ⟨cur, base, Vc, Vs, hinv, fun _ h => h, trivial⟩
  | cons it r ih =>
    intro st st' cur base Vc Vs h hinv
    cases it with
    | head k =>
      simp only [account] at h
      obtain ⟨c', b', Vc', Vs', i', m', a'⟩ := ih st st' cur base Vc Vs h hinv
      exact ⟨c', b', Vc', Vs', i', m', a'⟩
    | litv d =>
      simp only [account, id] at h
      cases hs : acctStep (.delta lo hi) st 1 (some d) with
      | err e => rw [hs] at h; simp at h
      | panic p => rw [hs] at h; simp at h
      | ok st1 =>
        rw [hs] at h
        simp only at h
        obtain ⟨a1, ha, hshape⟩ := acctStep_delta_ok lo hi st st1 1 (some d) hs
        obtain ⟨l1, t1, m1, m2, m3⟩ := aggStep_some_ok st.agg a1 1 d ha
        have e1 : d * ((1 : Nat) : Int) = d := by simp
        rw [e1] at t1 m1 m2
        have hce := hinv.cur_eq
        obtain ⟨b1, Vc1, Vs1, i1, mono1⟩ := acctStep_sound lo hi st st1 1 cur (cur + d) base Vc Vs
          (fun x => x = cur + d) a1 hshape hinv l1 (fun h => by omega) (by omega) m3
          (fun x hx => by subst hx; omega) (fun h => by omega)
        obtain ⟨c', b', Vc', Vs', i', m', a'⟩ := ih st1 st' (cur + d) b1 Vc1 Vs1 h i1
        refine ⟨c', b', Vc', Vs', i', fun x hx => m' x (mono1 x (hx.elim Or.inl (fun h => Or.inr (Or.inl h)))), ?_, a'⟩
        exact m' _ (mono1 _ (Or.inr (Or.inr rfl)))
    | run n d =>
      simp only [account, id] at h
      cases hs : acctStep (.delta lo hi) st n (some d) with
      | err e => rw [hs] at h; simp at h
      | panic p => rw [hs] at h; simp at h
      | ok st1 =>
        rw [hs] at h
        simp only at h
        obtain ⟨a1, ha, hshape⟩ := acctStep_delta_ok lo hi st st1 n (some d) hs
        obtain ⟨l1, t1, m1, m2, m3⟩ := aggStep_some_ok st.agg a1 n d ha
        have hce := hinv.cur_eq
        obtain ⟨b1, Vc1, Vs1, i1, mono1⟩ := acctStep_sound lo hi st st1 n cur (cur + d * (n : Int)) base Vc Vs
          (fun x => ∃ k : Nat, 1 ≤ k ∧ k ≤ n ∧ x = cur + d * (k : Int)) a1 hshape hinv l1
          (fun h x hx => by obtain ⟨k, h1, h2, _⟩ := hx; omega) (by omega) m3
          (fun x hx => by
            obtain ⟨k, h1, h2, rfl⟩ := hx
            have := mul_between d k n h1 h2
            omega)
          (fun h => by
            have hn : n = 0 := by omega
            have h0 := (hinv.empty (by omega)).1
            subst hn
            rw [t1, h0]; simp)
        obtain ⟨c', b', Vc', Vs', i', m', a'⟩ := ih st1 st' _ b1 Vc1 Vs1 h i1
        refine ⟨c', b', Vc', Vs', i', fun x hx => m' x (mono1 x (hx.elim Or.inl (fun h => Or.inr (Or.inl h)))), ?_, a'⟩
        intro k h1 h2
        exact m' _ (mono1 _ (Or.inr (Or.inr ⟨k, h1, h2, rfl⟩)))
    | null n =>
      simp only [account] at h
      cases hs : acctStep (.delta lo hi) st n none with
      | err e => rw [hs] at h; simp at h
      | panic p => rw [hs] at h; simp at h
      | ok st1 =>
        rw [hs] at h
        simp only at h
        obtain ⟨a1, ha, hshape⟩ := acctStep_delta_ok lo hi st st1 n none hs
        obtain ⟨l1, t1, m3⟩ := aggStep_none_ok st.agg a1 n ha
        have hce := hinv.cur_eq
        obtain ⟨b1, Vc1, Vs1, i1, mono1⟩ := acctStep_sound lo hi st st1 n cur cur base Vc Vs
          (fun _ => False) a1 hshape hinv l1 (fun _ _ h => h) (by omega) m3
          (fun x hx => absurd hx id) (fun h => by rw [t1]; exact (hinv.empty (by omega)).1)
        obtain ⟨c', b', Vc', Vs', i', m', a'⟩ := ih st1 st' cur b1 Vc1 Vs1 h i1
        exact ⟨c', b', Vc', Vs', i', fun x hx => m' x (mono1 x (hx.elim Or.inl (fun h => Or.inr (Or.inl h)))), a'⟩

/-! ### from the segments to the realized value list -/

theorem realise_rep_mem (d : Int) (rest : List (Option Int)) (x : Option Int) : ∀ (n : Nat) (cur : Int),
    x ∈ realise (List.replicate n (some d) ++ rest) cur →
      (∃ k : Nat, 1 ≤ k ∧ k ≤ n ∧ x = some (cur + d * (k : Int))) ∨ x ∈ realise rest (cur + d * (n : Int)) := by
  intro n
  induction n with
  | zero => intro cur h; right; simpa using h
  | succ n ih =>
    intro cur h
    simp only [List.replicate_succ, List.cons_append, realise, List.mem_cons] at h
    have hsucc : d * ((n + 1 : Nat) : Int) = d + d * (n : Int) := by
      push_cast; rw [Int.mul_add, Int.mul_one]; omega
    rcases h with h | h
    · left; exact ⟨1, by omega, by omega, by rw [h]; simp⟩
    · rcases ih (cur + d) h with ⟨k, h1, h2, hx⟩ | hr
      · left
        refine ⟨k + 1, by omega, by omega, ?_⟩
        have hk : d * ((k + 1 : Nat) : Int) = d + d * (k : Int) := by
          push_cast; rw [Int.mul_add, Int.mul_one]; omega
        rw [hx, hk]
        congr 1; omega
      · right
        rw [hsucc]
        have e : cur + (d + d * (n : Int)) = cur + d + d * (n : Int) := by omega
        rw [e]; exact hr

theorem realise_rep_none' (rest : List (Option Int)) : ∀ (n : Nat) (cur : Int),
    realise (List.replicate n none ++ rest) cur = List.replicate n none ++ realise rest cur := by
  intro n
  induction n with
  | zero => intro cur; rfl
  | succ n ih => intro cur; simp only [List.replicate_succ, List.cons_append, realise, ih]

theorem allVals_realise (P : Int → Prop) : ∀ (items : List (Item Int)) (cur : Int),
    AllVals P items cur → ∀ v, some v ∈ realise (expand items) cur → P v := by
  intro items
  induction items with
  | nil => intro cur _ v hv; simp [expand, realise] at hv
  | cons it r ih =>
    intro cur h v hv
    cases it with
    | head k => exact ih cur h v (by simpa [expand] using hv)
    | litv d =>
      simp only [expand, realise, List.mem_cons, Option.some.injEq] at hv
      rcases hv with rfl | hv
      · exact h.1
      · exact ih _ h.2 v hv
    | run n d =>
      simp only [expand] at hv
      rcases realise_rep_mem d _ _ n cur hv with ⟨k, h1, h2, hx⟩ | hr
      · simp only [Option.some.injEq] at hx
        rw [hx]; exact h.1 k h1 h2
      · exact ih _ h.2 v hr
    | null n =>
      simp only [expand, realise_rep_none'] at hv
      rcases List.mem_append.mp hv with hv | hv
      · simp at hv
      · exact ih cur h v hv

theorem finish_delta_ok (lo hi : Int) (st : AState) (n : Nat)
    (h : finish (.delta lo hi) none st = .ok n) :
    domainCheck lo hi (if st.slabSegs > 0 then st.aggs ++ [st.agg] else st.aggs) 0 = true := by
  unfold finish at h
  simp only [finish.finishW] at h
  by_cases h1 : st.closed + st.slabLen < two64
  · simp only [h1, not_true_eq_false, if_false] at h
    by_cases h2 : domainCheck lo hi (if st.slabSegs > 0 then st.aggs ++ [st.agg] else st.aggs) 0 = true
    · exact h2
    · simp [h2] at h
  · simp [h1] at h

/-- an accepted delta load has all its realized values in the domain -/
theorem deltaDecode_in_domain (nullable : Bool) (lo hi : Int) (bs : Bytes) (xs : List (Option Int))
    (h : deltaDecode nullable lo hi bs = .ok xs) : ∀ v, some v ∈ xs → lo ≤ v ∧ v ≤ hi := by
  unfold deltaDecode at h
  split at h
  · rename_i ds hds
    simp only [Outcome.ok.injEq] at h
    subst h
    obtain ⟨items, hl, rfl⟩ := rleDecode_ok cI64 nullable (.delta lo hi) id bs ds hds
    obtain ⟨_, st, n, hacc, hfin⟩ := rleLoad_ok cI64 nullable (.delta lo hi) id none bs items hl
    have hinit : SInv lo hi {} 0 0 (fun _ => False) (fun _ => False) :=
      ⟨rfl, rfl, fun _ => ⟨rfl, fun _ h => h⟩, fun _ => rfl, fun _ _ h => absurd h id, fun _ h => absurd h id⟩
    obtain ⟨c', b', Vc', Vs', inv', _, hall⟩ := account_sound lo hi items {} st 0 0 _ _ hacc hinit
    -- the final walk covers the closed slabs and the open one
    have hcheck := finish_delta_ok lo hi st n hfin
    have hdom : ∀ x, Vc' x ∨ Vs' x → lo ≤ x ∧ x ≤ hi := by
      intro x hx
      split at hcheck
      · obtain ⟨hdc0, hb⟩ := domainCheck_snoc lo hi st.agg st.aggs 0 hcheck
        rcases hx with hx | hx
        · exact inv'.closed hdc0 x hx
        · have hne : st.agg.len ≠ 0 := fun h0 => (inv'.empty h0).2 x hx
          have := hb hne
          rw [← inv'.base_eq] at this
          have := inv'.opened x hx
          omega
      · rename_i hseg
        rcases hx with hx | hx
        · exact inv'.closed hcheck x hx
        · exact absurd hx ((inv'.empty (inv'.segs (by omega))).2 x)
    intro v hv
    exact hdom v (allVals_realise _ items 0 hall v hv)
  · simp at h
  · simp at h

end AmVerif.Hexane
