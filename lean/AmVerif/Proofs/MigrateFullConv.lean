import AmVerif.Proofs.MigrateFullRun
/-
  String migration, list elements (C40 at full strength), part 3: what the first loop collects
  for a list position — the strings among the visible values of the element at that position
  (position = index among the visible elements of the ORIGINAL op set), ascending by id — and
  that every list conversion addresses a list object of the op set.
-/
namespace AmVerif.Crdt
open AmVerif

/-- the strings among the visible values of an element (`none`: no such position) -/
def elemStrs (p : Option (OpId × List Op)) : List Bytes :=
  match p with
  | some p => p.2.filterMap Op.strOf
  | none => []

theorem zipIdx_flatMap_at {α β : Type} (f : α → List β) (j : Nat) :
    ∀ (l : List α) (n : Nat),
      (l.zipIdx n).flatMap (fun q => if q.2 = j then f q.1 else []) =
        if n ≤ j then (match l[j - n]? with | some a => f a | none => []) else []
  | [], n => by simp
  | a :: l, n => by
    rw [List.zipIdx_cons, List.flatMap_cons, zipIdx_flatMap_at f j l (n + 1)]
    by_cases h1 : n = j
    · subst h1
      have h3 : ¬ n + 1 ≤ n := by omega
      simp [h3]
    · by_cases h2 : n < j
      · have h3 : n + 1 ≤ j := h2
        have h4 : n ≤ j := by omega
        have h5 : j - n = (j - (n + 1)) + 1 := by omega
        simp only [h1, if_false, h3, h4, if_true, List.nil_append]
        rw [h5, List.getElem?_cons_succ]
      · have h3 : ¬ n + 1 ≤ j := by omega
        have h4 : ¬ n ≤ j := by omega
        simp [h1, h3, h4]

/-- a member of `allObjects` is an object of that type -/
theorem objType_of_mem_allObjects {ops : List Op} (hs : StrictIds ops) {obj : ObjId} {ty : ObjType}
    (h : (obj, ty) ∈ allObjects ops) : objType ops obj = some ty := by
  unfold allObjects at h
  rcases List.mem_cons.mp h with h | h
  · cases h; rfl
  · obtain ⟨o, ho, hh⟩ := List.mem_filterMap.mp h
    have hom : o ∈ ops := (List.mem_filter.mp (mem_sortById.mp ho)).1
    split at hh
    · rename_i t hact
      cases hh
      simp only [objType]
      cases hf : ops.find? (fun p => p.id == o.id) with
      | none =>
        have := List.find?_eq_none.mp hf o hom
        simp at this
      | some x =>
        have hx := List.mem_of_find?_eq_some hf
        have he : x.id = o.id := by simpa using List.find?_some hf
        have := hs.distinctIds x hx o hom he
        subst this
        simp [hact]
    · cases hh

theorem mem_allObjects_of_objType {ops : List Op} {obj : ObjId} (h : objType ops obj = some .list) :
    (obj, ObjType.list) ∈ allObjects ops := by
  cases obj with
  | root => cases h
  | id i =>
    simp only [objType] at h
    cases hf : ops.find? (fun p => p.id == i) with
    | none => rw [hf] at h; cases h
    | some x =>
      rw [hf] at h
      have hx := List.mem_of_find?_eq_some hf
      have he : x.id = i := by simpa using List.find?_some hf
      unfold allObjects
      apply List.mem_cons_of_mem
      rw [List.mem_filterMap]
      refine ⟨x, mem_sortById.mpr (List.mem_filter.mpr ⟨hx, ?_⟩), ?_⟩
      · cases hact : x.action <;> simp_all
      · cases hact : x.action <;> simp_all

/-- every list conversion addresses a list object of the op set -/
theorem conversions_inr_list {ops : List Op} (hs : StrictIds ops) :
    ∀ c ∈ conversions ops, ∀ i, c.2.1 = .inr i → objType ops c.1 = some .list := by
  intro c hc i hi
  rw [conversions_eq, List.mem_flatMap] at hc
  obtain ⟨p, hp, hcp⟩ := hc
  obtain ⟨obj', ty⟩ := p
  cases ty with
  | map =>
    simp only [convBody, List.mem_flatMap, List.mem_filterMap] at hcp
    obtain ⟨k, _, o, _, ho⟩ := hcp
    split at ho
    · cases ho; cases hi
    · cases ho
  | list =>
    simp only [convBody, List.mem_flatMap, List.mem_filterMap] at hcp
    obtain ⟨q, _, o, _, ho⟩ := hcp
    split at ho
    · cases ho; exact objType_of_mem_allObjects hs hp
    · cases ho
  | text => simp [convBody] at hcp
  | table => simp [convBody] at hcp

/-- **what the conversion list holds for a list position**: for a list object of the op set, the
    strings among the visible values of the element at that position, ascending by op id — so the
    LAST one is the string with the greatest id -/
theorem convStringsL_conversions {ops : List Op} (hs : StrictIds ops) (obj : ObjId) (i : Nat) :
    convStringsL (conversions ops) obj i =
      if (obj, ObjType.list) ∈ allObjects ops then elemStrs ((seqRegs ops obj)[i]?) else [] := by
  rw [conversions_eq]
  unfold convStringsL
  rw [List.filterMap_flatMap]
  have hbody : ∀ p ∈ allObjects ops,
      (List.filterMap (fun c : Conv => if c.1 = obj ∧ c.2.1 = Sum.inr i then some c.2.2 else none)
        (convBody ops p)) =
      if p.1 = obj ∧ p.2 = .list then elemStrs ((seqRegs ops obj)[i]?) else [] := by
    intro p _
    obtain ⟨obj', ty⟩ := p
    cases ty with
    | list =>
      simp only [convBody, List.filterMap_flatMap, List.filterMap_filterMap]
      have hinner : ∀ q ∈ (seqRegs ops obj').zipIdx,
          q.1.2.filterMap (fun o =>
            (match o.action with | .put (.str s) => some ((obj', Sum.inr q.2, s) : Conv) | _ => none).bind
              (fun c : Conv => if c.1 = obj ∧ c.2.1 = Sum.inr i then some c.2.2 else none)) =
          if q.2 = i then (fun (p : OpId × List Op) => if obj' = obj then p.2.filterMap Op.strOf else []) q.1
            else [] := by
        intro q _
        by_cases hq : q.2 = i
        · by_cases ho : obj' = obj
          · subst ho
            simp only [hq, if_true]
            apply filterMap_congr'
            intro o _
            unfold Op.strOf
            cases o.action with
            | put v => cases v <;> simp
            | _ => simp
          · simp only [hq, ho, if_true, if_false]
            rw [filterMap_eq_nil_iff']
            intro o _
            split <;> simp [ho]
        · simp only [hq, if_false]
          rw [filterMap_eq_nil_iff']
          intro o _
          split <;> simp [hq]
      refine Eq.trans (flatMap_congr' hinner) ?_
      refine Eq.trans (zipIdx_flatMap_at
        (fun p : OpId × List Op => if obj' = obj then p.2.filterMap Op.strOf else []) i (seqRegs ops obj') 0) ?_
      by_cases ho : obj' = obj
      · subst ho
        simp only [Nat.zero_le, if_true, Nat.sub_zero, and_self]
        unfold elemStrs
        cases (seqRegs ops obj')[i]? <;> rfl
      · simp only [Nat.zero_le, if_true, Nat.sub_zero, ho, false_and, if_false]
        cases (seqRegs ops obj')[i]? <;> rfl
    | map =>
      simp only [convBody, List.filterMap_flatMap, List.filterMap_filterMap]
      have : ¬ ((obj', ObjType.map).1 = obj ∧ (obj', ObjType.map).2 = ObjType.list) := by
        intro h; cases h.2
      rw [if_neg this, flatMap_eq_nil_iff']
      intro q _
      rw [filterMap_eq_nil_iff']
      intro o _
      split <;> simp
    | text => simp [convBody]
    | table => simp [convBody]
  rw [flatMap_congr' hbody]
  have hpw : (allObjects ops).Pairwise (fun a b =>
      ¬ ((a.1 = obj ∧ a.2 = ObjType.list) ∧ (b.1 = obj ∧ b.2 = ObjType.list))) := by
    refine List.Pairwise.imp ?_ (allObjects_fst_pairwise hs)
    intro a b hab ⟨ha, hb⟩
    exact hab (ha.1.trans hb.1.symm)
  rw [flatMap_ite_unique (fun p : ObjId × ObjType => p.1 = obj ∧ p.2 = .list) _ hpw]
  have hiff : (∃ x ∈ allObjects ops, x.1 = obj ∧ x.2 = ObjType.list) ↔ (obj, ObjType.list) ∈ allObjects ops := by
    constructor
    · rintro ⟨⟨a, b⟩, hx, h1, h2⟩
      simp only at h1 h2
      subst h1; subst h2; exact hx
    · intro h; exact ⟨_, h, rfl, rfl⟩
  simp only [hiff]

end AmVerif.Crdt

namespace AmVerif.Crdt
open AmVerif

/-- one step of the second loop on an ASCII string, with the pieces given explicitly (`utf8Chars`
    is defined by well-founded recursion and does not evaluate in the kernel): used by the
    `decide`-checked examples -/
theorem applyConversions_step_ascii (e : Enc) (base : List Op) (t : Tx) (obj : ObjId) (prop : Sum Bytes Nat)
    (s : Bytes) (rest : List Conv) (mk : Op) (more : List Op) (hs : ∀ b ∈ s, b.toNat < 0x80)
    (h1 : localPut e (base ++ t.pending) t obj prop (.make .text) true = .ok [mk])
    (h2 : spliceWith e (base ++ (t.pending ++ [mk])) { t with pending := t.pending ++ [mk] } (.id mk.id) 0 0
      (s.map (fun b => [b])) = .ok more) :
    applyConversions e base t ((obj, prop, s) :: rest) =
      applyConversions e base { t with pending := t.pending ++ [mk] ++ more } rest := by
  rw [applyConversions_cons, h1]
  simp only [List.head?_cons]
  rw [localSpliceText_eq, utf8Chars_ascii s hs, h2]

/-- a register entry read from an op that is no string put is no string -/
theorem entryOf_not_str {ops : List Op} {o : Op} (h : o.strOf = none) (s : Bytes) :
    (entryOf ops o).val ≠ .scalar (.str s) := by
  unfold Op.strOf at h
  unfold entryOf
  cases hact : o.action with
  | put v => rw [hact] at h; cases v <;> simp_all
  | _ => simp

end AmVerif.Crdt
