import AmVerif.Proofs.DocCodecEmitAll
/-
  C11 (document chunk), reconstruction: two facts about the store order `canon ops` of a well-formed op
  set (`OpsWF`) that the collector relies on:

  * `canon_bnd` — the rows of a register (`κ o = (o.obj, o.regKey)`) are contiguous: wherever two
    neighbours belong to different registers, nothing before the boundary shares a register with
    anything behind it;
  * `canon_asc` — inside a register the rows ascend by op id.
-/
namespace AmVerif.DocCodec
open AmVerif AmVerif.Crdt AmVerif.ChangeCodec

/-! ### `Bnd`, generically -/

theorem bnd_nil {α K : Type} (f : α → K) : Bnd f ([] : List α) := by
  intro A x y B h
  have := congrArg List.length h
  simp at this

theorem bnd_const {α K : Type} {f : α → K} {l : List α} (h : ∀ a ∈ l, ∀ b ∈ l, f a = f b) : Bnd f l := by
  intro A x y B hl hne
  exact absurd (h x (by rw [hl]; simp) y (by rw [hl]; simp)) hne

theorem bnd_append {α K : Type} {f : α → K} {L M : List α} (hL : Bnd f L) (hM : Bnd f M)
    (hd : ∀ a ∈ L, ∀ b ∈ M, f a ≠ f b) : Bnd f (L ++ M) := by
  intro A x y B h hne a ha b hb
  have hcases := List.append_eq_append_iff.1 h
  rcases hcases with ⟨as, hA, hM'⟩ | ⟨bs, hL', hxy⟩
  · -- the boundary lies in `M`
    subst hA
    rcases List.mem_append.1 ha with ha | ha
    · rcases List.mem_append.1 ha with ha | ha
      · exact hd a ha b (by rw [hM']; exact List.mem_append_right _ (List.mem_cons_of_mem _ hb))
      · exact hM as x y B hM' hne a (List.mem_append_left _ ha) b hb
    · exact hM as x y B hM' hne a (List.mem_append_right _ ha) b hb
  · cases bs with
    | nil =>
      -- `M = x :: y :: B`
      simp only [List.nil_append, List.append_nil] at hxy hL'
      subst hL'
      rcases List.mem_append.1 ha with ha | ha
      · exact hd a ha b (by rw [← hxy]; exact List.mem_cons_of_mem _ hb)
      · exact hM [] x y B hxy.symm hne a (by simpa using ha) b hb
    | cons c cs =>
      simp only [List.cons_append, List.cons.injEq] at hxy
      obtain ⟨rfl, hrest⟩ := hxy
      cases cs with
      | nil =>
        -- the boundary is the junction
        simp only [List.nil_append] at hrest
        have haL : a ∈ L := by rw [hL']; exact ha
        have hbM : b ∈ M := by rw [← hrest]; exact hb
        exact hd a haL b hbM
      | cons c' cs' =>
        simp only [List.cons_append, List.cons.injEq] at hrest
        obtain ⟨rfl, hB⟩ := hrest
        -- the boundary lies in `L`
        subst hB
        rcases List.mem_cons.1 hb with rfl | hb
        · exact hL A x b cs' hL' hne a ha b (List.mem_cons_self ..)
        · rcases List.mem_append.1 hb with hb | hb
          · exact hL A x y cs' hL' hne a ha b (List.mem_cons_of_mem _ hb)
          · have haL : a ∈ L := by
              rw [hL']
              rcases List.mem_append.1 ha with h | h
              · exact List.mem_append_left _ h
              · rw [List.mem_singleton.1 h]; simp
            exact hd a haL b hb

theorem bnd_flatMap {α β K : Type} {f : β → K} {g : α → List β} :
    ∀ {l : List α}, (∀ x ∈ l, Bnd f (g x)) →
      l.Pairwise (fun x y => ∀ a ∈ g x, ∀ b ∈ g y, f a ≠ f b) → Bnd f (l.flatMap g)
  | [], _, _ => bnd_nil f
  | x :: rest, h1, h2 => by
    rw [List.flatMap_cons]
    rw [List.pairwise_cons] at h2
    apply bnd_append (h1 x (List.mem_cons_self ..))
      (bnd_flatMap (fun y hy => h1 y (List.mem_cons_of_mem _ hy)) h2.2)
    intro a ha b hb
    obtain ⟨y, hy, hby⟩ := List.mem_flatMap.1 hb
    exact h2.1 y hy a ha b hby

/-- a list sorted by a total preorder on the keys -/
theorem bnd_sorted {α K : Type} {f : α → K} (le : K → K → Prop) (hrefl : ∀ k, le k k)
    (htrans : ∀ a b c, le a b → le b c → le a c) (hanti : ∀ a b, le a b → le b a → a = b)
    {l : List α} (hs : l.Pairwise (fun a b => le (f a) (f b))) : Bnd f l := by
  intro A x y B hl hne a ha b hb hab
  rw [hl, List.pairwise_append] at hs
  obtain ⟨_, hxyB, hcross⟩ := hs
  rw [List.pairwise_cons] at hxyB
  obtain ⟨hx, hyB⟩ := hxyB
  rw [List.pairwise_cons] at hyB
  have h1 : le (f a) (f x) := by
    rcases List.mem_append.1 ha with ha | ha
    · exact hcross a ha x (List.mem_cons_self ..)
    · rw [List.mem_singleton.1 ha]; exact hrefl _
  have h2 : le (f y) (f b) := by
    rcases List.mem_cons.1 hb with rfl | hb
    · exact hrefl _
    · exact hyB.1 b hb
  have h3 : le (f x) (f y) := hx y (List.mem_cons_self ..)
  rw [← hab] at h2
  exact hne (hanti _ _ h3 (htrans _ _ _ h2 h1))

theorem bnd_congr {α K K' : Type} {f : α → K} {g : α → K'} {l : List α}
    (h : ∀ a ∈ l, ∀ b ∈ l, (f a = f b ↔ g a = g b)) (hg : Bnd g l) : Bnd f l := by
  intro A x y B hl hne a ha b hb hab
  have hx : x ∈ l := by rw [hl]; simp
  have hy : y ∈ l := by rw [hl]; simp
  have ha' : a ∈ l := by
    rw [hl]
    rcases List.mem_append.1 ha with h | h
    · exact List.mem_append_left _ h
    · rw [List.mem_singleton.1 h]; simp
  have hb' : b ∈ l := by rw [hl]; exact List.mem_append_right _ (List.mem_cons_of_mem _ hb)
  exact hg A x y B hl (fun h' => hne ((h x hx y hy).2 h')) a ha b hb ((h a ha' b hb').1 hab)

/-- `Bnd` through a map -/
theorem bnd_map {α β K : Type} {f : β → K} {ρ : α → β} {l : List α} (h : Bnd (fun a => f (ρ a)) l) :
    Bnd f (l.map ρ) := by
  intro A x y B hl hne a ha b hb
  obtain ⟨l₁, l₂, rfl, hA, h2⟩ := List.map_eq_append_iff.1 hl
  obtain ⟨x', l₃, rfl, hx', h3⟩ := List.map_eq_cons_iff.1 h2
  obtain ⟨y', l₄, rfl, hy', h4⟩ := List.map_eq_cons_iff.1 h3
  subst hA hx' hy' h4
  have ha' : ∃ a' ∈ l₁ ++ [x'], ρ a' = a := by
    rcases List.mem_append.1 ha with h | h
    · obtain ⟨a', ha', rfl⟩ := List.mem_map.1 h
      exact ⟨a', List.mem_append_left _ ha', rfl⟩
    · exact ⟨x', by simp, (List.mem_singleton.1 h).symm⟩
  have hb' : ∃ b' ∈ y' :: l₄, ρ b' = b := by
    rcases List.mem_cons.1 hb with rfl | h
    · exact ⟨y', List.mem_cons_self .., rfl⟩
    · obtain ⟨b', hb', rfl⟩ := List.mem_map.1 h
      exact ⟨b', List.mem_cons_of_mem _ hb', rfl⟩
  obtain ⟨a', ha1, rfl⟩ := ha'
  obtain ⟨b', hb1, rfl⟩ := hb'
  exact h l₁ x' y' l₄ rfl hne a' ha1 b' hb1

/-! ### the registers of `canon` -/

/-- the register of an op -/
def κ (o : Op) : ObjId × Key := (o.obj, o.regKey)

theorem bytes_le_trans {a b c : Bytes} (h1 : bytesLt b a = false) (h2 : bytesLt c b = false) :
    bytesLt c a = false := by
  cases h : bytesLt c a with
  | false => rfl
  | true =>
    -- `c < a ≤ b`, so `c < b`
    have : bytesLt c b = true := by
      by_cases hab : a = b
      · subst hab; exact h
      · rcases bytesLt_total hab with h' | h'
        · exact bytesLt_trans h h'
        · rw [h'] at h1; cases h1
    rw [this] at h2; cases h2

theorem bytes_le_antisymm {a b : Bytes} (h1 : bytesLt b a = false) (h2 : bytesLt a b = false) : a = b := by
  apply Classical.byContradiction
  intro h
  rcases bytesLt_total h with h' | h'
  · rw [h'] at h2; cases h2
  · rw [h'] at h1; cases h1

/-- an op of the map segment: its register is its map key -/
theorem mapSeg_reg {ops : List Op} (hw : OpsWF ops) {obj : ObjId} {a : Op} (ha : a ∈ mapSeg ops obj) :
    ∃ k, a.key = .map k ∧ κ a = (obj, .map k) := by
  obtain ⟨hm, ho, _, hk⟩ := mem_mapSeg.1 ha
  cases hkey : a.key with
  | map k =>
    refine ⟨k, rfl, ?_⟩
    have hins : a.insert = false := by
      cases hi : a.insert with
      | false => rfl
      | true =>
        have := (hw.insSeq a hm hi).1
        rw [hk] at this; cases this
    unfold κ Op.regKey
    rw [hins, ho, hkey]
    rfl
  | head => rw [hkey] at hk; cases hk
  | elem e => rw [hkey] at hk; cases hk

/-- an op of an element's block: its register is the element -/
theorem block_reg {ops : List Op} {obj : ObjId} {e a : Op} (he : e ∈ rgaOrder ops obj) (ha : a ∈ block ops obj e) :
    κ a = (obj, .elem e.id) := by
  unfold block at ha
  rcases List.mem_cons.1 ha with rfl | ha
  · obtain ⟨_, ho, hi⟩ := mem_rgaFrom he
    unfold κ Op.regKey
    rw [hi, ho]
    rfl
  · obtain ⟨_, ho, _, hi, hk⟩ := mem_updatesOf.1 ha
    unfold κ Op.regKey
    rw [hi, ho, hk]
    rfl

theorem seqSeg_reg {ops : List Op} {obj : ObjId} {a : Op} (ha : a ∈ seqSeg ops obj) :
    ∃ e ∈ rgaOrder ops obj, κ a = (obj, .elem e.id) := by
  unfold seqSeg at ha
  obtain ⟨e, he, hae⟩ := List.mem_flatMap.1 ha
  exact ⟨e, he, block_reg he hae⟩

theorem seg_obj {ops : List Op} {obj : ObjId} {a : Op} (ha : a ∈ seg ops obj) : (κ a).1 = obj :=
  obj_of_mem_seg ha

/-- **the registers are contiguous in the store order** -/
theorem canon_bnd {ops : List Op} (hw : OpsWF ops) : Bnd κ (canon ops) := by
  unfold canon
  apply bnd_flatMap
  · intro obj _
    unfold seg
    apply bnd_append
    · -- the map segment: sorted by key
      apply bnd_congr (g := fun (a : Op) => match a.key with | .map k => k | _ => [])
      · intro a ha b hb
        obtain ⟨ka, hka, hκa⟩ := mapSeg_reg hw ha
        obtain ⟨kb, hkb, hκb⟩ := mapSeg_reg hw hb
        rw [hκa, hκb, hka, hkb]
        simp
      · apply bnd_sorted (fun a b => bytesLt b a = false) (fun k => bytesLt_irrefl k)
          (fun a b c h1 h2 => bytes_le_trans h1 h2) (fun a b h1 h2 => bytes_le_antisymm h1 h2)
        apply List.Pairwise.imp_of_mem _ (sortKI_sorted _)
        intro a b ha hb hab
        obtain ⟨ka, hka, _⟩ := mapSeg_reg hw (obj := obj) ha
        obtain ⟨kb, hkb, _⟩ := mapSeg_reg hw (obj := obj) hb
        unfold mapStop at hab
        rw [hka, hkb] at hab ⊢
        simp only [Bool.or_eq_false_iff] at hab
        exact hab.1
    · -- the elements' blocks
      unfold seqSeg
      apply bnd_flatMap
      · intro e he
        apply bnd_const
        intro a ha b hb
        rw [block_reg he ha, block_reg he hb]
      · have hn := rgaOrder_ids_nodup hw.strict hw.refs obj
        unfold List.Nodup at hn
        rw [List.pairwise_map] at hn
        apply List.Pairwise.imp_of_mem _ hn
        intro e1 e2 he1 he2 hne a ha b hb hab
        rw [block_reg he1 ha, block_reg he2 hb] at hab
        simp only [Prod.mk.injEq, Key.elem.injEq, true_and] at hab
        exact hne hab
    · intro a ha b hb hab
      obtain ⟨k, _, hκa⟩ := mapSeg_reg hw ha
      obtain ⟨e, _, hκb⟩ := seqSeg_reg hb
      rw [hκa, hκb] at hab
      simp at hab
  · apply List.Pairwise.imp_of_mem _ (objsOf_nodup ops)
    intro o1 o2 _ _ hne a ha b hb hab
    have h1 := seg_obj ha
    have h2 := seg_obj hb
    rw [hab, h2] at h1
    exact hne h1.symm

/-- distinct positions of a list with `StrictIds` hold distinct ids, so "not greater" is "smaller" -/
theorem lt_of_not_gt {a b : OpId} (hne : a ≠ b) (h : b.lt a = false) : a.lt b = true := by
  rcases OpId.lt_total hne with h' | h'
  · exact h'
  · rw [h'] at h; cases h

/-- **inside a register the store order ascends by id** -/
theorem canon_asc {ops : List Op} (hw : OpsWF ops) :
    (canon ops).Pairwise (fun a b => κ a = κ b → a.id.lt b.id = true) := by
  unfold canon
  rw [List.pairwise_flatMap]
  refine ⟨?_, ?_⟩
  · intro obj _
    unfold seg
    rw [List.pairwise_append]
    refine ⟨?_, ?_, ?_⟩
    · -- the map segment
      have hstrict : StrictIds (mapSeg ops obj) :=
        (hw.strict.filter _).perm (sortKI_perm _).symm
      apply List.Pairwise.imp_of_mem _ ((sortKI_sorted _).and hstrict)
      intro a b ha hb hab hκ
      obtain ⟨ka, hka, hκa⟩ := mapSeg_reg hw (obj := obj) ha
      obtain ⟨kb, hkb, hκb⟩ := mapSeg_reg hw (obj := obj) hb
      rw [hκa, hκb] at hκ
      simp only [Prod.mk.injEq, Key.map.injEq, true_and] at hκ
      have hs := hab.1
      unfold mapStop at hs
      rw [hka, hkb, hκ] at hs
      simp only [Bool.or_eq_false_iff, beq_self_eq_true, Bool.true_and] at hs
      exact lt_of_not_gt hab.2 hs.2
    · unfold seqSeg
      rw [List.pairwise_flatMap]
      refine ⟨?_, ?_⟩
      · intro e he
        unfold block
        rw [List.pairwise_cons]
        refine ⟨?_, ?_⟩
        · intro u hu _
          obtain ⟨hm, _, _, hi, hk⟩ := mem_updatesOf.1 hu
          exact hw.updLater u hm hi e.id hk
        · have hstrict : StrictIds (updatesOf ops obj e.id) :=
            (hw.strict.filter _).perm (sortById_perm _).symm
          apply List.Pairwise.imp _ ((sortById_asc _).and hstrict)
          intro a b hab _
          exact lt_of_not_gt hab.2 hab.1
      · have hn := rgaOrder_ids_nodup hw.strict hw.refs obj
        unfold List.Nodup at hn
        rw [List.pairwise_map] at hn
        apply List.Pairwise.imp_of_mem _ hn
        intro e1 e2 he1 he2 hne a ha b hb hab
        rw [block_reg he1 ha, block_reg he2 hb] at hab
        simp only [Prod.mk.injEq, Key.elem.injEq, true_and] at hab
        exact absurd hab hne
    · intro a ha b hb hab
      obtain ⟨k, _, hκa⟩ := mapSeg_reg hw ha
      obtain ⟨e, _, hκb⟩ := seqSeg_reg hb
      rw [hκa, hκb] at hab
      simp at hab
  · apply List.Pairwise.imp_of_mem _ (objsOf_nodup ops)
    intro o1 o2 _ _ hne a ha b hb hab
    have h1 := seg_obj ha
    have h2 := seg_obj hb
    rw [hab, h2] at h1
    exact absurd h1.symm hne

end AmVerif.DocCodec
