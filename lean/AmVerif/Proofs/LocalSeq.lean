import AmVerif.Proofs.Local
/-
  Proofs about local editing calls on sequences (continuation of `Proofs/Local.lean`):
  `localInsert`, positions in the visible element list, `localSpliceText`.
-/
namespace AmVerif.Crdt
open AmVerif

/-! ### `localInsert` -/

theorem insertRef_ok_key {e : Enc} {isText : Bool} {regs : List (OpId × List Op)} {target acc : Nat}
    {last key : Key} {acc' : Nat} (h : insertRef e isText regs target acc last = .ok (key, acc')) :
    key = last ∨ ∃ id r, (id, r) ∈ regs ∧ key = .elem id := by
  induction regs generalizing acc last with
  | nil =>
    simp only [insertRef] at h
    split at h
    · cases h; exact .inl rfl
    · cases h
  | cons p regs ih =>
    obtain ⟨id, r⟩ := p
    rw [insertRef_cons] at h
    split at h
    · cases h; exact .inl rfl
    · rcases ih h with rfl | ⟨id', r', hm, rfl⟩
      · exact .inr ⟨id, r, List.mem_cons_self, rfl⟩
      · exact .inr ⟨id', r', List.mem_cons_of_mem _ hm, rfl⟩

theorem localInsert_shape {e : Enc} {ops : List Op} {t : Tx} {obj : ObjId} {i : Nat} {a : Action}
    {l : List Op} (h : localInsert e ops t obj i a = .ok l) :
    ∃ ty key acc, objType ops obj = some ty ∧ isSeq ty = true ∧
      insertRef e (ty == .text) (seqRegs ops obj) i 0 .head = .ok (key, acc) ∧
      l = [⟨t.nextId, obj, key, true, a, []⟩] := by
  unfold localInsert at h
  cases hty : objType ops obj with
  | none => rw [objMeta_eq_error.mpr ⟨rfl, hty⟩] at h; cases h
  | some ty =>
    rw [objMeta_eq_ok.mpr hty] at h
    simp only at h
    cases hs : isSeq ty
    · simp [hs] at h
    · simp only [hs, Bool.not_true, Bool.false_eq_true, if_false] at h
      cases hr : insertRef e (ty == .text) (seqRegs ops obj) i 0 .head with
      | error err => rw [hr] at h; cases h
      | ok p =>
        obtain ⟨key, acc⟩ := p
        rw [hr] at h
        cases h
        exact ⟨ty, key, acc, rfl, hs, hr, rfl⟩

theorem isMark_of_isValue {o : Op} (h : o.isValue = true) : o.isMark = false := by
  cases ha : o.action <;> simp_all [Op.isValue, Op.isMark]

/-- the reference element of a successful insert is HEAD or a visible element of the sequence -/
theorem localInsert_ref {e : Enc} {ops : List Op} {t : Tx} {obj : ObjId} {i : Nat} {a : Action} {o : Op}
    (h : localInsert e ops t obj i a = .ok [o]) :
    o.id = t.nextId ∧ o.obj = obj ∧ o.insert = true ∧ o.action = a ∧ o.pred = [] ∧
    (o.key = .head ∨ ∃ c ∈ rgaOrder ops obj, o.key = .elem c.id ∧ c.isMark = false ∧
      elemRegister ops obj c.id ≠ []) := by
  obtain ⟨ty, key, acc, _, _, hr, hl⟩ := localInsert_shape h
  cases hl
  refine ⟨rfl, rfl, rfl, rfl, rfl, ?_⟩
  rcases insertRef_ok_key hr with rfl | ⟨id, r, hm, rfl⟩
  · exact .inl rfl
  · obtain ⟨c, hc, hmk, rfl, rfl, hne⟩ := mem_seqRegs hm
    refine .inr ⟨c, hc, rfl, hmk, ?_⟩
    rw [elemRegister_eq, ← elemRegOps_eq]
    intro h0
    exact hne (List.map_eq_nil_iff.mp h0)

/-- the effect of appending one fresh insert op keyed on HEAD or on a visible element -/
theorem insert_core {ops : List Op} {o : Op}
    (hs : StrictIds ops) (hlt : ∀ x ∈ ops, x.id.lt o.id = true) (hnp : ∀ x ∈ ops, o.id ∉ x.pred)
    (hnk : ∀ x ∈ ops, x.key ≠ .elem o.id) (hr : RefsSmaller ops)
    (hi : o.insert = true) (hp : o.pred = [])
    (href : o.key = .head ∨ ∃ c ∈ rgaOrder ops o.obj, o.key = .elem c.id ∧ c.isMark = false ∧
      elemRegister ops o.obj c.id ≠ [])
    (hv : o.isValue = true) :
    RefsSmaller (ops ++ [o]) ∧
    rgaOrder (ops ++ [o]) o.obj = (if o.key = .head then [o] else []) ++ insAfter o.key o (rgaOrder ops o.obj) ∧
    elemRegister (ops ++ [o]) o.obj o.id = [⟨o.id, Val.ofAction o.action⟩] ∧
    seqElems (ops ++ [o]) o.obj =
      (if o.key = .head then [(o.id, [⟨o.id, Val.ofAction o.action⟩])] else []) ++
        insAfterE o.key (o.id, [⟨o.id, Val.ofAction o.action⟩]) (seqElems ops o.obj) := by
  have hr' : RefsSmaller (ops ++ [o]) := by
    apply refsSmaller_append hr
    intro _
    rcases href with hk | ⟨c, hc, hk, _⟩
    · rw [hk]
    · rw [hk]; exact hlt c (mem_rgaFrom hc).1
  have horder := rgaOrder_insert hlt hr hr' hi
  have hreg := insert_elemRegister_new hs hlt hnp hnk hp hi hv
  refine ⟨hr', horder, hreg, ?_⟩
  apply seqElems_insert horder
  · unfold elemEntry
    rw [isMark_of_isValue hv, hreg]
    rfl
  · intro c hc
    have hcm := (mem_rgaFrom hc).1
    have hne : c.id ≠ o.id := by
      intro he
      have := hlt c hcm
      rw [he, OpId.lt_irrefl] at this; cases this
    unfold elemEntry
    rw [insert_elemRegister_other hp hi (.inr hne)]
  · intro c hc hk
    rcases href with hh | ⟨c0, hc0, hk0, hm0, hne0⟩
    · rw [hh] at hk; cases hk
    · have hid0 : c.id = c0.id := by rw [hk0] at hk; exact Key.elem.inj hk
      have : c = c0 := hs.distinctIds c (mem_rgaFrom hc).1 c0 (mem_rgaFrom hc0).1 hid0
      subst this
      unfold elemEntry
      rw [hm0]
      cases hreg0 : elemRegister ops o.obj c.id with
      | nil => exact absurd hreg0 hne0
      | cons _ _ => simp

/-- **insert / insert_object.**  The element order and the visible element list are the old ones
    with the new element immediately after its reference element (in front for HEAD); the new
    element holds exactly the inserted value. -/
theorem insert_effect {e : Enc} {ops : List Op} {t : Tx} {obj : ObjId} {i : Nat} {a : Action} {o : Op}
    (hs : StrictIds ops) (hlt : ∀ x ∈ ops, x.id.lt t.nextId = true) (hnp : ∀ x ∈ ops, t.nextId ∉ x.pred)
    (hnk : ∀ x ∈ ops, x.key ≠ .elem t.nextId) (hr : RefsSmaller ops)
    (h : localInsert e ops t obj i a = .ok [o]) (hv : o.isValue = true) :
    rgaOrder (ops ++ [o]) obj = (if o.key = .head then [o] else []) ++ insAfter o.key o (rgaOrder ops obj) ∧
    elemRegister (ops ++ [o]) obj t.nextId = [⟨t.nextId, Val.ofAction a⟩] ∧
    seqElems (ops ++ [o]) obj =
      (if o.key = .head then [(t.nextId, [⟨t.nextId, Val.ofAction a⟩])] else []) ++
        insAfterE o.key (t.nextId, [⟨t.nextId, Val.ofAction a⟩]) (seqElems ops obj) := by
  obtain ⟨hid, hobj, hi, hact, hp, href⟩ := localInsert_ref h
  subst hobj
  rw [← hid] at hlt hnp hnk ⊢
  rw [← hact]
  exact (insert_core hs hlt hnp hnk hr hi hp href hv).2

/-! ### positions -/

theorem flatMap_eq_self_of_ne {α : Type} {l : List (OpId × α)} {id : OpId} {F : OpId × α → List (OpId × α)}
    (h : ∀ q ∈ l, q.1 ≠ id) : l.flatMap (fun q => if q.1 = id then F q else [q]) = l := by
  induction l with
  | nil => rfl
  | cons q l ih =>
    rw [List.flatMap_cons, if_neg (h q List.mem_cons_self), ih (fun x hx => h x (List.mem_cons_of_mem _ hx))]
    rfl

/-- in a list with pairwise different ids, rewriting "the element with id `p.1`" is rewriting
    position `j` where `p` sits -/
theorem flatMap_at_id {α : Type} {F : OpId × α → List (OpId × α)} :
    ∀ {l : List (OpId × α)} {j : Nat} {p : OpId × α}, (l.map (·.1)).Nodup → l[j]? = some p →
      l.flatMap (fun q => if q.1 = p.1 then F q else [q]) = l.take j ++ F p ++ l.drop (j + 1)
  | [], _, _, _, h => by simp at h
  | q :: l, 0, p, hn, h => by
    simp only [List.getElem?_cons_zero, Option.some.injEq] at h
    subst h
    rw [List.map_cons, List.nodup_cons] at hn
    rw [List.flatMap_cons, if_pos rfl, flatMap_eq_self_of_ne]
    · simp
    · intro x hx he
      exact hn.1 (List.mem_map.mpr ⟨x, hx, he⟩)
  | q :: l, j + 1, p, hn, h => by
    simp only [List.getElem?_cons_succ] at h
    rw [List.map_cons, List.nodup_cons] at hn
    have hne : q.1 ≠ p.1 := by
      intro he
      exact hn.1 (List.mem_map.mpr ⟨p, List.mem_of_getElem? h, he.symm⟩)
    rw [List.flatMap_cons, if_neg hne, flatMap_at_id hn.2 h]
    simp

theorem insAfterE_eq_flatMap {α : Type} (id : OpId) (new : OpId × α) (l : List (OpId × α)) :
    insAfterE (.elem id) new l = l.flatMap (fun q => if q.1 = id then [q, new] else [q]) := by
  unfold insAfterE
  apply flatMap_congr'
  intro q _
  by_cases h : q.1 = id
  · simp [h]
  · have : Key.elem q.1 ≠ Key.elem id := fun hh => h (Key.elem.inj hh)
    simp [h, this]

/-- inserting after the element at position `j` = inserting at position `j + 1` -/
theorem insAfterE_at {α : Type} {l : List (OpId × α)} {j : Nat} {p new : OpId × α}
    (hn : (l.map (·.1)).Nodup) (h : l[j]? = some p) :
    insAfterE (.elem p.1) new l = l.take (j + 1) ++ [new] ++ l.drop (j + 1) := by
  rw [insAfterE_eq_flatMap, flatMap_at_id hn h]
  have : l.take (j + 1) = l.take j ++ [p] := by
    rw [List.take_add_one, h]; rfl
  rw [this]; simp

theorem filterMap_eq_flatMap_toList {α β : Type} (f : α → Option β) (l : List α) :
    l.filterMap f = l.flatMap (fun a => (f a).toList) := by
  induction l with
  | nil => rfl
  | cons x xs ih => cases h : f x <;> simp [h, ih]

/-- replacing / dropping the element with id `p.1` = replacing / dropping position `j` -/
theorem filterMap_at_id {α : Type} {l : List (OpId × α)} {j : Nat} {p : OpId × α} (r : Option (OpId × α))
    (hn : (l.map (·.1)).Nodup) (h : l[j]? = some p) :
    l.filterMap (fun q => if q.1 = p.1 then r else some q) = l.take j ++ r.toList ++ l.drop (j + 1) := by
  rw [filterMap_eq_flatMap_toList]
  have : (fun q : OpId × α => (if q.1 = p.1 then r else some q).toList) =
      (fun q => if q.1 = p.1 then (fun _ => r.toList) q else [q]) := by
    funext q; split <;> rfl
  rw [this, flatMap_at_id hn h]


theorem unitsLen_nil (e : Enc) (isText : Bool) : unitsLen e isText [] = 0 := rfl

/-- `seekByIndex` in units: the element found is the one at some position `j`, it starts at unit
    `s` = total width of the elements before it, and the index lies inside it -/
theorem seekByIndex_some {e : Enc} {isText : Bool} {regs : List (OpId × List Op)} {i st : Nat}
    {el : OpId} {reg : List Op} {s : Nat} (hst : st ≤ i)
    (h : seekByIndex e isText regs i st = some (el, reg, s)) :
    ∃ j, regs[j]? = some (el, reg) ∧ s = st + unitsLen e isText (regs.take j) ∧ s ≤ i ∧
      i < s + regWidth e isText reg := by
  induction regs generalizing st with
  | nil => cases h
  | cons p regs ih =>
    obtain ⟨id, r⟩ := p
    rw [seekByIndex_cons] at h
    split at h
    · cases h
      exact ⟨0, rfl, by simp [unitsLen_nil], hst, by assumption⟩
    · obtain ⟨j, h1, h2, h3, h4⟩ := ih (by omega) h
      refine ⟨j + 1, h1, ?_, h3, h4⟩
      rw [List.take_succ_cons, unitsLen_cons, h2]; dsimp only; omega

/-- `insertRef` in units: the new element goes behind the shortest prefix (`j` elements) whose
    width reaches the target -/
theorem insertRef_ok {e : Enc} {isText : Bool} {regs : List (OpId × List Op)} {target acc : Nat}
    {last key : Key} {acc' : Nat} (h : insertRef e isText regs target acc last = .ok (key, acc')) :
    ∃ j, j ≤ regs.length ∧ acc' = acc + unitsLen e isText (regs.take j) ∧ target ≤ acc' ∧
      (j = 0 → key = last) ∧
      (0 < j → ∃ p, regs[j - 1]? = some p ∧ key = .elem p.1 ∧
        acc + unitsLen e isText (regs.take (j - 1)) < target) := by
  induction regs generalizing acc last with
  | nil =>
    simp only [insertRef] at h
    split at h
    · cases h
      exact ⟨0, Nat.le_refl _, by simp [unitsLen_nil], by assumption, fun _ => rfl, fun h => by omega⟩
    · cases h
  | cons p regs ih =>
    obtain ⟨id, r⟩ := p
    rw [insertRef_cons] at h
    split at h
    · cases h
      exact ⟨0, Nat.zero_le _, by simp [unitsLen_nil], by assumption, fun _ => rfl, fun h => by omega⟩
    · rename_i hlt
      obtain ⟨j, h1, h2, h3, h4, h5⟩ := ih h
      refine ⟨j + 1, by simp; omega, ?_, h3, fun h => by omega, fun _ => ?_⟩
      · rw [List.take_succ_cons, unitsLen_cons, h2]; dsimp only; omega
      · by_cases hj : j = 0
        · subst hj
          refine ⟨(id, r), rfl, h4 rfl, ?_⟩
          simp [unitsLen_nil]; omega
        · obtain ⟨p, hp1, hp2, hp3⟩ := h5 (by omega)
          refine ⟨p, ?_, hp2, ?_⟩
          · have : j + 1 - 1 = (j - 1) + 1 := by omega
            rw [this, List.getElem?_cons_succ]; exact hp1
          · have : j + 1 - 1 = (j - 1) + 1 := by omega
            rw [this, List.take_succ_cons, unitsLen_cons]; dsimp only; omega

theorem unitsLen_take_list {e : Enc} {regs : List (OpId × List Op)} (h : ∀ p ∈ regs, p.2 ≠ []) (j : Nat) :
    unitsLen e false (regs.take j) = min j regs.length := by
  rw [unitsLen_list (fun p hp => h p (List.mem_of_mem_take hp)), List.length_take]


/-- the ids of the visible elements are among the ids of the element order, in order -/
theorem seqElems_ids_sublist (ops : List Op) (obj : ObjId) :
    List.Sublist ((seqElems ops obj).map (·.1)) ((rgaOrder ops obj).map (·.id)) := by
  rw [seqElems_eq_filterMap]
  generalize rgaOrder ops obj = R
  induction R with
  | nil => exact List.Sublist.slnil
  | cons c R ih =>
    rw [List.filterMap_cons]
    cases hg : elemEntry ops obj c with
    | none => exact List.Sublist.cons _ ih
    | some p =>
      simp only [List.map_cons]
      rw [elemEntry_fst hg]
      exact List.Sublist.cons_cons _ ih

theorem seqElems_ids_nodup {ops : List Op} {obj : ObjId} (h : ((rgaOrder ops obj).map (·.id)).Nodup) :
    ((seqElems ops obj).map (·.1)).Nodup :=
  List.Sublist.nodup (seqElems_ids_sublist ops obj) h

theorem insAfterE_head {α : Type} (new : OpId × α) (l : List (OpId × α)) : insAfterE .head new l = l := by
  simp [insAfterE]

/-- the visible entry a `seqRegs` entry reads as -/
def regEntry (ops : List Op) (p : OpId × List Op) : OpId × List Entry := (p.1, p.2.map (entryOf ops))

theorem seqElems_getElem? (ops : List Op) (obj : ObjId) (j : Nat) :
    (seqElems ops obj)[j]? = ((seqRegs ops obj)[j]?).map (regEntry ops) := by
  rw [seqElems_eq_map_seqRegs, List.getElem?_map]; rfl

/-- **insert at a position.**  The new element lands behind the shortest run of visible elements
    whose width in units reaches the index (`j` elements): the visible element list is the old
    one with the new element at position `j`. -/
theorem insert_at {e : Enc} {ops : List Op} {t : Tx} {obj : ObjId} {i : Nat} {a : Action} {o : Op}
    (hs : StrictIds ops) (hlt : ∀ x ∈ ops, x.id.lt t.nextId = true) (hnp : ∀ x ∈ ops, t.nextId ∉ x.pred)
    (hnk : ∀ x ∈ ops, x.key ≠ .elem t.nextId) (hr : RefsSmaller ops)
    (hnd : ((rgaOrder ops obj).map (·.id)).Nodup)
    (h : localInsert e ops t obj i a = .ok [o]) (hv : o.isValue = true) :
    ∃ ty j, objType ops obj = some ty ∧ j ≤ (seqElems ops obj).length ∧
      i ≤ unitsLen e (ty == .text) ((seqRegs ops obj).take j) ∧
      (0 < j → unitsLen e (ty == .text) ((seqRegs ops obj).take (j - 1)) < i) ∧
      seqElems (ops ++ [o]) obj =
        (seqElems ops obj).take j ++ [(t.nextId, [⟨t.nextId, Val.ofAction a⟩])] ++ (seqElems ops obj).drop j := by
  obtain ⟨_, _, heff⟩ := insert_effect hs hlt hnp hnk hr h hv
  obtain ⟨ty, key, acc, hty, _, href, hl⟩ := localInsert_shape h
  have hkey : o.key = key := by cases hl; rfl
  obtain ⟨j, hj, hacc, hti, h0, hpos⟩ := insertRef_ok href
  refine ⟨ty, j, hty, ?_, ?_, ?_, ?_⟩
  · rw [seqElems_eq_map_seqRegs, List.length_map]; exact hj
  · rw [hacc] at hti; simpa using hti
  · intro hjp
    obtain ⟨_, _, _, hlt'⟩ := hpos hjp
    simpa using hlt'
  · rw [heff, hkey]
    by_cases hj0 : j = 0
    · subst hj0
      rw [h0 rfl, if_pos rfl, insAfterE_head]
      simp
    · obtain ⟨p, hp, hk, _⟩ := hpos (by omega)
      rw [hk, if_neg (by intro hh; cases hh)]
      have hget : (seqElems ops obj)[j - 1]? = some (regEntry ops p) := by
        rw [seqElems_getElem?, hp]; rfl
      have := insAfterE_at (new := (t.nextId, [⟨t.nextId, Val.ofAction a⟩])) (seqElems_ids_nodup hnd) hget
      have hj1 : j - 1 + 1 = j := by omega
      rw [hj1] at this
      have hfst : (regEntry ops p).1 = p.1 := rfl
      rw [hfst] at this
      simpa using this

/-- in a list (one unit per element) the position is the index -/
theorem insert_at_list {e : Enc} {ops : List Op} {t : Tx} {obj : ObjId} {i : Nat} {a : Action} {o : Op}
    (hs : StrictIds ops) (hlt : ∀ x ∈ ops, x.id.lt t.nextId = true) (hnp : ∀ x ∈ ops, t.nextId ∉ x.pred)
    (hnk : ∀ x ∈ ops, x.key ≠ .elem t.nextId) (hr : RefsSmaller ops)
    (hnd : ((rgaOrder ops obj).map (·.id)).Nodup) (hty : objType ops obj = some .list)
    (h : localInsert e ops t obj i a = .ok [o]) (hv : o.isValue = true) :
    i ≤ (seqElems ops obj).length ∧
    seqElems (ops ++ [o]) obj =
      (seqElems ops obj).take i ++ [(t.nextId, [⟨t.nextId, Val.ofAction a⟩])] ++ (seqElems ops obj).drop i := by
  obtain ⟨ty, j, hty', hj, h1, h2, h3⟩ := insert_at hs hlt hnp hnk hr hnd h hv
  rw [hty] at hty'
  cases hty'
  have hlen : (seqRegs ops obj).length = (seqElems ops obj).length := by
    rw [seqElems_eq_map_seqRegs, List.length_map]
  have hne : ∀ p ∈ seqRegs ops obj, p.2 ≠ [] := fun p hp => seqRegs_nonempty hp
  have e1 : (ObjType.list == ObjType.text) = false := rfl
  rw [e1, unitsLen_take_list hne] at h1
  have hji : j = i := by
    by_cases hj0 : j = 0
    · omega
    · have := h2 (by omega)
      rw [e1, unitsLen_take_list hne] at this
      omega
  subst hji
  exact ⟨hj, h3⟩


/-- **update / delete / increment at a position.**  The call acts on the visible element `el`
    containing unit `i` (position `j` of the visible list); afterwards the element order is the
    same and the visible list differs at position `j` only: the element shows its new register,
    or is gone when that is empty. -/
theorem list_op_at {e : Enc} {ops : List Op} {t : Tx} {obj : ObjId} {i : Nat} {a : Action} {ck : Bool} {o : Op}
    (hs : StrictIds ops) (hlt : ∀ x ∈ ops, x.id.lt t.nextId = true) (hnp : ∀ x ∈ ops, t.nextId ∉ x.pred)
    (hr : RefsSmaller ops) (hnd : ((rgaOrder ops obj).map (·.id)).Nodup)
    (h : localPut e ops t obj (.inr i) a ck = .ok [o]) :
    ∃ ty el j, objType ops obj = some ty ∧ o.key = .elem el ∧
      (seqRegs ops obj)[j]? = some (el, elemRegOps ops obj el) ∧
      (seqElems ops obj)[j]? = some (el, elemRegister ops obj el) ∧
      unitsLen e (ty == .text) ((seqRegs ops obj).take j) ≤ i ∧
      i < unitsLen e (ty == .text) ((seqRegs ops obj).take j) + regWidth e (ty == .text) (elemRegOps ops obj el) ∧
      rgaOrder (ops ++ [o]) obj = rgaOrder ops obj ∧
      seqElems (ops ++ [o]) obj =
        (seqElems ops obj).take j ++
          (match elemRegister (ops ++ [o]) obj el with | [] => none | r => some (el, r)).toList ++
          (seqElems ops obj).drop (j + 1) := by
  obtain ⟨ty, el, st, act, preds, hty, _, hseek, hne, ho, _, _⟩ := localPut_list_shape h
  have hk : o.key = .elem el := by rw [ho]; rfl
  obtain ⟨htx, _, hobj, hi⟩ := localPut_list_txOp hs hlt hnp h hk
  obtain ⟨j, hj, hst, h1, h2⟩ := seekByIndex_some (Nat.zero_le _) hseek
  have horder := rgaOrder_append_noninsert hr hi obj
  have hget : (seqElems ops obj)[j]? = some (el, elemRegister ops obj el) := by
    rw [seqElems_getElem?, hj]; rfl
  have hold : elemRegister ops obj el ≠ [] := by
    rw [elemRegister_eq, ← elemRegOps_eq]
    intro h0; exact hne (List.map_eq_nil_iff.mp h0)
  refine ⟨ty, el, j, hty, hk, hj, hget, by omega, by omega, horder, ?_⟩
  rw [seqElems_replace horder (fun el' hne' => htx.elem_other_elemRegister hobj hk hi (.inr hne')) hold]
  exact filterMap_at_id _ (seqElems_ids_nodup hnd) hget

/-- in a list the position is the index -/
theorem list_op_at_list {e : Enc} {ops : List Op} {t : Tx} {obj : ObjId} {i : Nat} {a : Action} {ck : Bool}
    {o : Op} (hs : StrictIds ops) (hlt : ∀ x ∈ ops, x.id.lt t.nextId = true)
    (hnp : ∀ x ∈ ops, t.nextId ∉ x.pred) (hr : RefsSmaller ops)
    (hnd : ((rgaOrder ops obj).map (·.id)).Nodup) (hty : objType ops obj = some .list)
    (h : localPut e ops t obj (.inr i) a ck = .ok [o]) :
    ∃ el, o.key = .elem el ∧ (seqElems ops obj)[i]? = some (el, elemRegister ops obj el) ∧
      rgaOrder (ops ++ [o]) obj = rgaOrder ops obj ∧
      seqElems (ops ++ [o]) obj =
        (seqElems ops obj).take i ++
          (match elemRegister (ops ++ [o]) obj el with | [] => none | r => some (el, r)).toList ++
          (seqElems ops obj).drop (i + 1) := by
  obtain ⟨ty, el, j, hty', hk, hreg, hget, h1, h2, h3, h4⟩ := list_op_at hs hlt hnp hr hnd h
  rw [hty] at hty'
  cases hty'
  have hne : ∀ p ∈ seqRegs ops obj, p.2 ≠ [] := fun p hp => seqRegs_nonempty hp
  have e1 : (ObjType.list == ObjType.text) = false := rfl
  have hjlt : j < (seqRegs ops obj).length := by
    have : j < (seqElems ops obj).length := (List.getElem?_eq_some_iff.mp hget).1
    rwa [seqElems_eq_map_seqRegs, List.length_map] at this
  have hw : regWidth e false (elemRegOps ops obj el) = 1 := by
    have hel : (el, elemRegOps ops obj el) ∈ seqRegs ops obj := List.mem_of_getElem? hreg
    have := hne _ hel
    unfold regWidth
    cases hg : (elemRegOps ops obj el).getLast? with
    | none => simp at hg; exact absurd hg this
    | some _ => simp [opWidth]
  rw [e1, unitsLen_take_list hne, hw] at h2
  rw [e1, unitsLen_take_list hne] at h1
  have hji : j = i := by omega
  subst hji
  exact ⟨el, hk, hget, h3, h4⟩


/-! ### the element order lists no element twice -/

/-- `p` is on the chain of reference elements above `x` -/
inductive Anc (ops : List Op) : Op → Key → Prop
  | direct {x : Op} {p : Key} : x.key = p → Anc ops x p
  | up {x y : Op} {p : Key} : x.key = .elem y.id → y ∈ ops → y.insert = true → Anc ops y p → Anc ops x p

theorem Anc.trans {ops : List Op} {x c : Op} {p : Key} (h : Anc ops x (.elem c.id)) (hc : c ∈ ops)
    (hi : c.insert = true) (hp : Anc ops c p) : Anc ops x p := by
  generalize hq : Key.elem c.id = q at h
  induction h with
  | direct hk => subst hq; exact .up hk hc hi hp
  | up hk hy hyi _ ih => exact .up hk hy hyi (ih hq)

theorem anc_of_mem_rgaFrom {ops : List Op} {obj : ObjId} {x : Op} :
    ∀ {f : Nat} {p : Key}, x ∈ rgaFrom ops obj f p → Anc ops x p
  | 0, _, h => by cases h
  | f + 1, p, h => by
    rw [rgaFrom_succ, List.mem_flatMap] at h
    obtain ⟨c, hc, hx⟩ := h
    obtain ⟨hco, _, hci, hck⟩ := mem_children.mp hc
    rcases List.mem_cons.mp hx with rfl | hx
    · exact .direct hck
    · exact (anc_of_mem_rgaFrom hx).trans hco hci (.direct hck)

theorem Anc.id_lt {ops : List Op} (hr : RefsSmaller ops) {x : Op} {p : Key} (h : Anc ops x p) :
    x ∈ ops → x.insert = true → ∀ e, p = .elem e → e.lt x.id = true := by
  induction h with
  | direct hk => intro hx hi e he; subst he; exact hr.lt hx hi hk
  | up hk hy hyi _ ih =>
    intro hx hi e he
    exact OpId.lt_trans (ih hy hyi e he) (hr.lt hx hi hk)

/-- two keys above the same op are comparable -/
theorem Anc.linear {ops : List Op} (hd : DistinctIds ops) {x : Op} {p : Key} (h₁ : Anc ops x p) :
    ∀ {q : Key}, Anc ops x q →
      p = q ∨ (∃ c ∈ ops, c.insert = true ∧ p = .elem c.id ∧ Anc ops c q) ∨
        (∃ c ∈ ops, c.insert = true ∧ q = .elem c.id ∧ Anc ops c p) := by
  induction h₁ with
  | direct hk =>
    intro q h₂
    cases h₂ with
    | direct hk' => exact .inl (hk.symm.trans hk')
    | up hk' hy hyi hyq => exact .inr (.inl ⟨_, hy, hyi, hk.symm.trans hk', hyq⟩)
  | @up x y p hk hy hyi hyp ih =>
    intro q h₂
    cases h₂ with
    | direct hk' => exact .inr (.inr ⟨y, hy, hyi, hk'.symm.trans hk, hyp⟩)
    | @up _ y' _ hk' hy' hyi' hyq =>
      have : y = y' := hd y hy y' hy' (Key.elem.inj (hk.symm.trans hk'))
      subst this
      exact ih hyq

/-- a descendant of `c` is not a sibling of `c` -/
theorem Anc.key_ne {ops : List Op} (hr : RefsSmaller ops) {x c : Op} (h : Anc ops x (.elem c.id))
    (hc : c ∈ ops) (hci : c.insert = true) : x.key ≠ c.key := by
  intro he
  cases h with
  | direct hk =>
    have := hr.lt hc hci (he.symm.trans hk)
    rw [OpId.lt_irrefl] at this; cases this
  | up hk hy hyi hyc =>
    have h1 := hyc.id_lt hr hy hyi c.id rfl
    have h2 := hr.lt hc hci (he.symm.trans hk)
    exact OpId.lt_asymm h1 h2

theorem children_nodup {ops : List Op} (hs : StrictIds ops) (obj : ObjId) (p : Key) :
    (children ops obj p).Nodup := by
  unfold children
  have h := ((hs.filter (fun o => o.obj == obj && o.insert && o.key == p)).perm (sortById_perm _).symm).nodup
  unfold List.Nodup at *
  rw [List.pairwise_reverse]
  exact List.Pairwise.imp (fun hne he => hne he.symm) h

theorem rgaFrom_nodup {ops : List Op} (hs : StrictIds ops) (hr : RefsSmaller ops) (obj : ObjId) :
    ∀ (f : Nat) (p : Key), (rgaFrom ops obj f p).Nodup
  | 0, _ => List.nodup_nil
  | f + 1, p => by
    rw [rgaFrom_succ]
    unfold List.Nodup
    rw [List.pairwise_flatMap]
    constructor
    · intro c hc
      obtain ⟨hco, _, hci, _⟩ := mem_children.mp hc
      show (c :: rgaFrom ops obj f (.elem c.id)).Nodup
      rw [List.nodup_cons]
      refine ⟨fun hm => ?_, rgaFrom_nodup hs hr obj f _⟩
      have := (anc_of_mem_rgaFrom hm).id_lt hr hco hci c.id rfl
      rw [OpId.lt_irrefl] at this; cases this
    · refine List.Pairwise.imp_of_mem ?_ (children_nodup hs obj p)
      intro c₁ c₂ h₁ h₂ hne x hx y hy hxy
      subst hxy
      obtain ⟨h1o, _, h1i, h1k⟩ := mem_children.mp h₁
      obtain ⟨h2o, _, h2i, h2k⟩ := mem_children.mp h₂
      have hkk : c₁.key = c₂.key := h1k.trans h2k.symm
      rcases List.mem_cons.mp hx with rfl | hx <;> rcases List.mem_cons.mp hy with hy | hy
      · exact hne hy
      · exact (anc_of_mem_rgaFrom hy).key_ne hr h2o h2i hkk
      · subst hy; exact (anc_of_mem_rgaFrom hx).key_ne hr h1o h1i hkk.symm
      · have hxo := (mem_rgaFrom hx).1
        rcases (anc_of_mem_rgaFrom hx).linear hs.distinctIds (anc_of_mem_rgaFrom hy) with
          he | ⟨c, hc, _, he, ha⟩ | ⟨c, hc, _, he, ha⟩
        · exact hne (hs.distinctIds c₁ h1o c₂ h2o (Key.elem.inj he))
        · have : c₁ = c := hs.distinctIds c₁ h1o c hc (Key.elem.inj he)
          subst this
          exact ha.key_ne hr h2o h2i hkk
        · have : c₂ = c := hs.distinctIds c₂ h2o c hc (Key.elem.inj he)
          subst this
          exact ha.key_ne hr h1o h1i hkk.symm

/-- under distinct ids and well-founded references the element order lists no id twice -/
theorem rgaOrder_ids_nodup {ops : List Op} (hs : StrictIds ops) (hr : RefsSmaller ops) (obj : ObjId) :
    ((rgaOrder ops obj).map (·.id)).Nodup := by
  have hn : (rgaOrder ops obj).Nodup := rgaFrom_nodup hs hr obj _ _
  unfold List.Nodup at *
  rw [List.pairwise_map]
  refine List.Pairwise.imp_of_mem ?_ hn
  intro a b ha hb hne he
  exact hne (hs.distinctIds a (mem_rgaFrom ha).1 b (mem_rgaFrom hb).1 he)

end AmVerif.Crdt
