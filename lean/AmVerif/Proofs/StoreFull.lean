import AmVerif.Proofs.StoreTop3
/-
  Stores built in an admissible order: the index columns equal their definitions, and the whole
  store (rows, successor lists, index columns) is a function of the op set.
-/
namespace AmVerif.Crdt
open AmVerif

/-- every op names predecessors of its own register only -/
def PredsOk (ops : List Op) : Prop :=
  ∀ N ∈ ops, ∀ x ∈ ops, x.id ∈ N.pred → x.obj = N.obj ∧ x.regKey = N.regKey

instance (ops : List Op) : Decidable (PredsOk ops) := by
  unfold PredsOk; infer_instance

theorem PredsOk.init {ops : List Op} {N : Op} (h : PredsOk (ops ++ [N])) :
    PredsOk ops ∧ PredsInReg ops N :=
  ⟨fun M hM x hx => h M (List.mem_append_left _ hM) x (List.mem_append_left _ hx),
   fun x hx => h N (by simp) x (List.mem_append_left _ hx)⟩

theorem predsOkB_sound {ops : List Op} (h : predsOkB ops = true) : PredsOk ops := by
  unfold predsOkB at h
  simp only [List.all_eq_true, Bool.or_eq_true, Bool.not_eq_eq_eq_not, Bool.not_true, Bool.and_eq_true,
    beq_iff_eq] at h
  intro N hN x hx hm
  rcases h N hN x hx with h | h
  · rw [List.contains_iff_mem.mpr hm] at h; cases h
  · exact h

/-- the three index columns equal their from-scratch definitions -/
def IndexInv (w : Op → Nat) (s : Store) : Prop :=
  s.map (·.vis) = visibleCol s ∧ s.map (·.top) = topCol s ∧ s.map (·.width) = widthCol w s ∧
    ∀ r ∈ s, widthOk w r

theorem indexInv_nil (w : Op → Nat) : IndexInv w [] :=
  ⟨rfl, rfl, rfl, fun _ h => by cases h⟩

/-- **every store built in an admissible order has exact index columns** -/
theorem buildStore_index (w : Op → Nat) {ops : List Op} (h : Admissible ops) (hp : PredsOk ops) :
    IndexInv w (buildStore w ops) := by
  induction h with
  | nil => exact indexInv_nil w
  | @snoc ops N hadm hw hf ih =>
    obtain ⟨hp0, hpN⟩ := hp.init
    obtain ⟨h1, h2, _, h4⟩ := ih hp0
    rw [buildStore_snoc]
    exact insertRemote_indexOk hw hf hpN (buildStore_inv w hadm) h1 h2 h4

theorem indexInv_indexOk {w : Op → Nat} {s : Store} (h : IndexInv w s) : indexOk w s = true := by
  unfold indexOk
  rw [h.1, h.2.1, h.2.2.1]
  simp

/-! ### the index columns are functions of the rows' ops and successor lists -/

theorem isVisible_core {x y : Row} (h : x.core = y.core) : x.isVisible = y.isVisible := by
  unfold Row.core at h
  simp only [Prod.mk.injEq] at h
  exact isVisible_congr h.1 h.2

theorem laterVisible_core (obj : ObjId) (k : Key) : ∀ {s₁ s₂ : Store}, s₁.map Row.core = s₂.map Row.core →
    laterVisible obj k s₁ = laterVisible obj k s₂
  | [], [], _ => rfl
  | [], _ :: _, h => by cases h
  | _ :: _, [], h => by cases h
  | x :: xs, y :: ys, h => by
    simp only [List.map_cons, List.cons.injEq] at h
    have hop : x.op = y.op := by
      have := h.1; unfold Row.core at this; simp only [Prod.mk.injEq] at this; exact this.1
    simp only [laterVisible, hop, isVisible_core h.1, laterVisible_core obj k h.2]

theorem topCol_core : ∀ {s₁ s₂ : Store}, s₁.map Row.core = s₂.map Row.core → topCol s₁ = topCol s₂
  | [], [], _ => rfl
  | [], _ :: _, h => by cases h
  | _ :: _, [], h => by cases h
  | x :: xs, y :: ys, h => by
    simp only [List.map_cons, List.cons.injEq] at h
    have hop : x.op = y.op := by
      have := h.1; unfold Row.core at this; simp only [Prod.mk.injEq] at this; exact this.1
    simp only [topCol, hop, isVisible_core h.1, laterVisible_core _ _ h.2, topCol_core h.2]

theorem rows_ext : ∀ {s₁ s₂ : Store}, s₁.map Row.core = s₂.map Row.core →
    s₁.map (·.vis) = s₂.map (·.vis) → s₁.map (·.top) = s₂.map (·.top) →
    s₁.map (·.width) = s₂.map (·.width) → s₁ = s₂
  | [], [], _, _, _, _ => rfl
  | [], _ :: _, h, _, _, _ => by cases h
  | _ :: _, [], h, _, _, _ => by cases h
  | x :: xs, y :: ys, h1, h2, h3, h4 => by
    simp only [List.map_cons, List.cons.injEq] at h1 h2 h3 h4
    rw [rows_ext h1.2 h2.2 h3.2 h4.2]
    congr 1
    obtain ⟨o1, s1, v1, t1, w1⟩ := x
    obtain ⟨o2, s2, v2, t2, w2⟩ := y
    have := h1.1
    unfold Row.core at this
    simp only [Prod.mk.injEq] at this
    simp only at h2 h3 h4
    rw [this.1, this.2, h2.1, h3.1, h4.1]

/-- two stores with the same rows and exact index columns are equal -/
theorem store_ext {w : Op → Nat} {s₁ s₂ : Store} (hc : s₁.map Row.core = s₂.map Row.core)
    (h₁ : IndexInv w s₁) (h₂ : IndexInv w s₂) : s₁ = s₂ := by
  have hvis : s₁.map (·.vis) = s₂.map (·.vis) := by
    rw [h₁.1, h₂.1]
    unfold visibleCol
    have : ∀ {a b : Store}, a.map Row.core = b.map Row.core → a.map Row.isVisible = b.map Row.isVisible := by
      intro a
      induction a with
      | nil => intro b h; cases b with
        | nil => rfl
        | cons _ _ => cases h
      | cons x xs ih => intro b h; cases b with
        | nil => cases h
        | cons y ys =>
          simp only [List.map_cons, List.cons.injEq] at h
          simp only [List.map_cons, isVisible_core h.1, ih h.2]
    exact this hc
  have htop : s₁.map (·.top) = s₂.map (·.top) := by rw [h₁.2.1, h₂.2.1, topCol_core hc]
  refine rows_ext hc hvis htop ?_
  -- widths follow from the tops and the ops
  have : ∀ {a b : Store}, a.map Row.core = b.map Row.core → a.map (·.top) = b.map (·.top) →
      (∀ r ∈ a, widthOk w r) → (∀ r ∈ b, widthOk w r) → a.map (·.width) = b.map (·.width) := by
    intro a
    induction a with
    | nil => intro b h _ _ _; cases b with
      | nil => rfl
      | cons _ _ => cases h
    | cons x xs ih => intro b h ht ha hb; cases b with
      | nil => cases h
      | cons y ys =>
        simp only [List.map_cons, List.cons.injEq] at h ht
        have hx := ha x List.mem_cons_self
        have hy := hb y List.mem_cons_self
        unfold widthOk at hx hy
        have hop : x.op = y.op := by
          have := h.1; unfold Row.core at this; simp only [Prod.mk.injEq] at this; exact this.1
        simp only [List.map_cons]
        rw [hx, hy, ht.1, hop, ih h.2 ht.2 (fun r hr => ha r (List.mem_cons_of_mem _ hr))
          (fun r hr => hb r (List.mem_cons_of_mem _ hr))]
  exact this hc htop h₁.2.2.2 h₂.2.2.2

end AmVerif.Crdt
