import AmVerif.Model.Bloom
namespace AmVerif.Bloom
open AmVerif

theorem u8_and_or_right (a b c : UInt8) : (a ||| b) &&& c = (a &&& c) ||| (b &&& c) := by
  simp [← UInt8.toBitVec_inj, BitVec.and_or_distrib_right]

theorem mask_ne_zero (p : Nat) : (1 : UInt8) <<< (UInt8.ofNat (p &&& 7)) ≠ 0 := by
  have h : p &&& 7 < 8 := by
    have := Nat.and_two_pow_sub_one_eq_mod p 3
    simp at this; omega
  have key : ∀ k : Fin 8, (1 : UInt8) <<< (UInt8.ofNat k.val) ≠ 0 := by decide
  exact key ⟨p &&& 7, h⟩

/-- bit `p` is present and set -/
def BitSet (bits : Bytes) (p : Nat) : Prop :=
  ∃ byte, bits[p >>> 3]? = some byte ∧ byte &&& (1 <<< (UInt8.ofNat (p &&& 7))) ≠ 0

@[simp] theorem setBit_length (bits : Bytes) (p : Nat) : (setBit bits p).length = bits.length := by
  unfold setBit; split <;> simp

theorem setBit_sets (bits : Bytes) (p : Nat) (h : p >>> 3 < bits.length) :
    BitSet (setBit bits p) p := by
  unfold setBit BitSet
  have : bits[p >>> 3]? = some bits[p >>> 3] := by simp [h]
  rw [this]; simp only
  refine ⟨_, by rw [List.getElem?_set, if_pos rfl, if_pos h], ?_⟩
  rw [u8_and_or_right, UInt8.and_self]
  intro hz
  exact mask_ne_zero p (UInt8.or_eq_zero_iff.mp hz).2

theorem setBit_mono (bits : Bytes) (p q : Nat) (h : BitSet bits q) : BitSet (setBit bits p) q := by
  unfold setBit
  split
  · rename_i byte hb
    obtain ⟨bq, hq, hne⟩ := h
    by_cases hpq : p >>> 3 = q >>> 3
    · have hlt : p >>> 3 < bits.length := by
        rcases Nat.lt_or_ge (p >>> 3) bits.length with h | h
        · exact h
        · simp [List.getElem?_eq_none h] at hb
      refine ⟨byte ||| (1 <<< (UInt8.ofNat (p &&& 7))), by rw [List.getElem?_set, if_pos hpq, if_pos hlt], ?_⟩
      rw [hpq] at hb; rw [hb] at hq; cases hq
      rw [u8_and_or_right]
      intro hz
      exact hne (UInt8.or_eq_zero_iff.mp hz).1
    · exact ⟨bq, by simp [List.getElem?_set, hpq, hq], hne⟩
  · exact h

theorem foldl_setBit_length (ps : List Nat) (bits : Bytes) :
    (ps.foldl setBit bits).length = bits.length := by
  induction ps generalizing bits with
  | nil => rfl
  | cons p ps ih => simp [ih]

theorem foldl_setBit_mono (ps : List Nat) (bits : Bytes) (q : Nat) (h : BitSet bits q) :
    BitSet (ps.foldl setBit bits) q := by
  induction ps generalizing bits with
  | nil => exact h
  | cons p ps ih => exact ih _ (setBit_mono bits p q h)

theorem foldl_setBit_sets (ps : List Nat) (bits : Bytes)
    (hr : ∀ p ∈ ps, p >>> 3 < bits.length) : ∀ p ∈ ps, BitSet (ps.foldl setBit bits) p := by
  induction ps generalizing bits with
  | nil => intro p hp; cases hp
  | cons a ps ih =>
    intro p hp
    simp only [List.foldl_cons]
    rcases List.mem_cons.mp hp with rfl | hp
    · exact foldl_setBit_mono ps _ _ (setBit_sets bits p (hr p (by simp)))
    · exact ih (setBit bits a) (fun q hq => by simpa using hr q (by simp [hq])) p hp

theorem allSet_of_bitSet (bits : Bytes) (ps : List Nat) (h : ∀ p ∈ ps, BitSet bits p) :
    allSet bits ps = true := by
  induction ps with
  | nil => rfl
  | cons p ps ih =>
    obtain ⟨byte, hb, hne⟩ := h p (by simp)
    unfold allSet getBit
    simp only [hb, Option.map_some, if_neg hne]
    exact ih (fun q hq => h q (by simp [hq]))

theorem probesLoop_lt (m z : Nat) (hm : 0 < m) : ∀ k x y, ∀ p ∈ probesLoop m z k x y, p < m := by
  intro k
  induction k with
  | zero => intro x y p hp; simp [probesLoop] at hp
  | succ k ih =>
    intro x y p hp
    simp only [probesLoop, List.mem_cons] at hp
    rcases hp with rfl | hp
    · exact Nat.mod_lt _ hm
    · exact ih _ _ p hp

/-- the probes of a hash depend only on the filter's size and probe count -/
theorem getProbes_congr (f g : Filter) (h : Hash) (hl : f.bits.length = g.bits.length)
    (hp : f.numProbes = g.numProbes) : getProbes f h = getProbes g h := by
  unfold getProbes; simp [hl, hp]

theorem getProbes_ok (f : Filter) (h : Hash) (hb : f.bits ≠ []) :
    ∃ ps, getProbes f h = .ok ps ∧ ∀ p ∈ ps, p >>> 3 < f.bits.length := by
  have hlen : 0 < f.bits.length := List.length_pos_iff.mpr hb
  have hm : 0 < 8 * f.bits.length := by omega
  unfold getProbes
  simp only [show ¬ (8 * f.bits.length = 0) by omega, if_false]
  refine ⟨_, rfl, ?_⟩
  intro p hp
  have hlt : p < 8 * f.bits.length := by
    rcases List.mem_cons.mp hp with rfl | hp
    · exact Nat.mod_lt _ hm
    · exact probesLoop_lt _ _ hm _ _ _ p hp
  rw [Nat.shiftRight_eq_div_pow]; simp; omega

/-- invariant carried through `from_hashes` -/
structure FHInv (n p len : Nat) (done : List Hash) (f : Filter) : Prop where
  entries : f.numEntries = n
  bpe : f.bitsPerEntry = Consts.BITS_PER_ENTRY
  probes : f.numProbes = p
  len : f.bits.length = len
  members : ∀ h ∈ done, ∀ ps, getProbes f h = .ok ps → ∀ q ∈ ps, BitSet f.bits q

theorem addHash_inv {n p len : Nat} {done : List Hash} {f : Filter} (h : Hash)
    (hlen : 0 < len) (inv : FHInv n p len done f) :
    ∃ f', addHash f h = .ok f' ∧ FHInv n p len (done ++ [h]) f' := by
  have hb : f.bits ≠ [] := by
    intro he; have := inv.len; simp [he] at this; omega
  obtain ⟨ps, hps, hr⟩ := getProbes_ok f h hb
  refine ⟨{ f with bits := ps.foldl setBit f.bits }, by simp [addHash, hps], ?_⟩
  have hcongr : ∀ h', getProbes { f with bits := ps.foldl setBit f.bits } h' = getProbes f h' :=
    fun h' => getProbes_congr _ _ h' (by simp [foldl_setBit_length]) rfl
  refine ⟨inv.entries, inv.bpe, inv.probes, by simp [foldl_setBit_length, inv.len], ?_⟩
  intro h' hmem ps' hps' q hq
  rw [hcongr] at hps'
  rcases List.mem_append.mp hmem with hm | hm
  · exact foldl_setBit_mono _ _ _ (inv.members h' hm ps' hps' q hq)
  · simp at hm; subst hm
    rw [hps] at hps'; cases hps'
    exact foldl_setBit_sets ps f.bits hr q hq

theorem foldl_addHash {n p len : Nat} (hlen : 0 < len) (hs done : List Hash) (f : Filter)
    (inv : FHInv n p len done f) :
    ∃ f', hs.foldl addHashStep (.ok f) = .ok f' ∧ FHInv n p len (done ++ hs) f' := by
  induction hs generalizing done f with
  | nil => exact ⟨f, rfl, by simpa using inv⟩
  | cons h hs ih =>
    obtain ⟨f1, h1, inv1⟩ := addHash_inv h hlen inv
    obtain ⟨f2, h2, inv2⟩ := ih (done ++ [h]) f1 inv1
    refine ⟨f2, ?_, by simpa using inv2⟩
    simp only [List.foldl_cons, addHashStep, h1]; exact h2

theorem cap_pos (n : Nat) (hn : 0 < n) : 0 < bitsCapacity n Consts.BITS_PER_ENTRY := by
  have hB : 0 < Consts.BITS_PER_ENTRY := by decide
  have : 0 < n * Consts.BITS_PER_ENTRY := Nat.mul_pos hn hB
  unfold bitsCapacity; omega

theorem fromHashes_inv (hs : List Hash) (hn : 0 < hs.length) :
    ∃ f, fromHashes hs = .ok f ∧
      FHInv hs.length Consts.NUM_PROBES (bitsCapacity hs.length Consts.BITS_PER_ENTRY) hs f := by
  have inv : FHInv hs.length Consts.NUM_PROBES (bitsCapacity hs.length Consts.BITS_PER_ENTRY) []
      ⟨hs.length, Consts.BITS_PER_ENTRY, Consts.NUM_PROBES,
        List.replicate (bitsCapacity hs.length Consts.BITS_PER_ENTRY) 0⟩ :=
    ⟨rfl, rfl, rfl, by simp, by intro h' hm; cases hm⟩
  obtain ⟨f', hf, inv'⟩ := foldl_addHash (cap_pos _ hn) hs [] _ inv
  exact ⟨f', hf, by simpa using inv'⟩

end AmVerif.Bloom
