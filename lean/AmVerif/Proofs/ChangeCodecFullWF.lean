import AmVerif.Proofs.ChangeCodecFullMeta
/-
  Helper lemmas for the whole-change round trip of C18: the well-formedness predicate `ChangeWF` of an
  expanded change (decidable), the actor-table translation (`Change::decode` ∘ `AsChangeOp`:
  `expandRow (toRow o) = o`), and the round trip itself.
-/
namespace AmVerif.ChangeCodec.Full
open AmVerif AmVerif.Leb AmVerif.Crdt AmVerif.ChangeCodec AmVerif.Chunk
open AmVerif.Hexane (two63 two64 validUtf8)

/-! ## the actor table -/

theorem mem_insertBytes (a k : Bytes) : ∀ xs : List Bytes, (a = k ∨ a ∈ xs) → a ∈ insertBytes k xs
  | [], h => by
    rcases h with rfl | h
    · simp [insertBytes]
    · cases h
  | x :: xs, h => by
    unfold insertBytes
    by_cases hkx : k = x
    · rw [if_pos hkx]
      rcases h with rfl | h
      · rw [hkx]; exact List.mem_cons_self
      · exact h
    · rw [if_neg hkx]
      by_cases hlt : bytesLt k x = true
      · rw [if_pos hlt]
        rcases h with rfl | h
        · exact List.mem_cons_self
        · exact List.mem_cons_of_mem _ h
      · rw [if_neg hlt]
        rcases h with rfl | h
        · exact List.mem_cons_of_mem _ (mem_insertBytes a a xs (Or.inl rfl))
        · rcases List.mem_cons.mp h with rfl | h
          · exact List.mem_cons_self
          · exact List.mem_cons_of_mem _ (mem_insertBytes a k xs (Or.inr h))

theorem mem_sortBytes (a : Bytes) : ∀ xs : List Bytes, a ∈ xs → a ∈ sortBytes xs
  | [], h => by cases h
  | x :: xs, h => by
    show a ∈ insertBytes x (sortBytes xs)
    apply mem_insertBytes
    rcases List.mem_cons.mp h with rfl | h
    · exact Or.inl rfl
    · exact Or.inr (mem_sortBytes a xs h)

theorem findIdx_get (a : Bytes) : ∀ l : List Bytes, a ∈ l → l[l.findIdx (fun x => x = a)]? = some a
  | [], h => by cases h
  | x :: xs, h => by
    rw [List.findIdx_cons]
    by_cases hx : x = a
    · simp [hx]
    · have : a ∈ xs := by
        rcases List.mem_cons.mp h with rfl | h
        · exact absurd rfl hx
        · exact h
      simp only [hx, decide_false, cond_false, List.getElem?_cons_succ]
      exact findIdx_get a xs this

theorem findIdx_le (a : Bytes) (l : List Bytes) : l.findIdx (fun x => decide (x = a)) ≤ l.length :=
  List.findIdx_le_length

/-- every actor named by an operation is in the table `author :: otherActors` -/
theorem mem_table (actor : Bytes) (ops : List Op) (o : Op) (ho : o ∈ ops) (a : Bytes) (ha : a ∈ opActors o) :
    a ∈ actor :: otherActors actor ops := by
  by_cases h : a = actor
  · rw [h]; exact List.mem_cons_self
  · apply List.mem_cons_of_mem
    unfold otherActors
    apply mem_sortBytes
    apply List.mem_filter.mpr
    exact ⟨List.mem_flatMap.mpr ⟨o, ho, ha⟩, by simpa using h⟩

theorem resolve_toIdI (table : List Bytes) (o : OpId) (h : o.actor ∈ table) : resolve table (toIdI table o) = .ok o := by
  unfold resolve toIdI actorIndex
  simp only
  rw [findIdx_get o.actor table h]

theorem resolveList_toIdI (table : List Bytes) : ∀ (ps : List OpId), (∀ p ∈ ps, p.actor ∈ table) →
    resolveList table (ps.map (toIdI table)) = .ok ps
  | [], _ => rfl
  | p :: ps, h => by
    simp only [List.map_cons, resolveList]
    rw [resolve_toIdI table p (h p List.mem_cons_self)]
    simp only
    rw [resolveList_toIdI table ps (fun q hq => h q (List.mem_cons_of_mem _ hq))]

/-! ## `Change::decode` of the rows `AsChangeOp` wrote -/

theorem actionOf_toRow (table : List Bytes) (o : Op) (h : ActionWF o.action) : actionOf (toRow table o) = o.action := by
  obtain ⟨id, obj, key, insert, action, pred⟩ := o
  cases action with
  | make t => cases t <;> rfl
  | put v => rfl
  | del => rfl
  | inc n => rfl
  | markBegin name v e => rfl
  | markEnd e => rfl

theorem expandRow_toRow (table : List Bytes) (o : Op) (hw : OpWF o) (hm : ∀ a ∈ opActors o, a ∈ table) :
    expandRow table o.id (toRow table o) = .ok o := by
  obtain ⟨hobj, hkey, hact, hsort, -⟩ := hw
  have hpred : resolveList table (toRow table o).pred = .ok o.pred := by
    show resolveList table ((sortOpIds o.pred).map (toIdI table)) = _
    rw [hsort]
    apply resolveList_toIdI
    intro p hp
    apply hm
    simp only [opActors, List.mem_append, List.mem_map]
    exact Or.inl (Or.inr ⟨p, hp, rfl⟩)
  have hact' := actionOf_toRow table o hact
  have hkf : ∀ e, o.key = .elem e → toIdI table e ≠ (⟨0, 0⟩ : IdI) ∧ resolve table (toIdI table e) = .ok e := by
    intro e hko
    rw [hko] at hkey
    refine ⟨?_, resolve_toIdI table e (hm _ (by simp [opActors, hko]))⟩
    intro h
    have : (toIdI table e).ctr = 0 := by rw [h]
    simp only [toIdI] at this
    have := hkey.1
    omega
  have hof : ∀ i, o.obj = .id i → ¬ (toIdI table i).ctr = 0 ∧ resolve table (toIdI table i) = .ok i := by
    intro i hoo
    rw [hoo] at hobj
    refine ⟨?_, resolve_toIdI table i (hm _ (by simp [opActors, hoo]))⟩
    simp only [toIdI]
    have := hobj.1
    omega
  unfold expandRow
  simp only [hpred, hact', hsort]
  obtain ⟨id, obj, key, insert, action, pred⟩ := o
  cases key with
  | map k =>
    cases obj with
    | root => simp [toRow]
    | id i => obtain ⟨h1, h2⟩ := hof i rfl; simp [toRow, h1, h2]
  | head =>
    cases obj with
    | root => simp [toRow]
    | id i => obtain ⟨h1, h2⟩ := hof i rfl; simp [toRow, h1, h2]
  | elem e =>
    obtain ⟨k1, k2⟩ := hkf e rfl
    cases obj with
    | root => simp [toRow, k1, k2]
    | id i => obtain ⟨h1, h2⟩ := hof i rfl; simp [toRow, h1, h2, k1, k2]

theorem expandRows_toRow (table : List Bytes) (actor : Bytes) : ∀ (ops : List Op) (n : Nat),
    idsFrom actor n ops = true → (∀ o ∈ ops, OpWF o) → (∀ o ∈ ops, ∀ a ∈ opActors o, a ∈ table) →
    expandRows table actor n (ops.map (toRow table)) = .ok ops
  | [], _, _, _, _ => rfl
  | o :: ops, n, hid, hw, hm => by
    simp only [idsFrom, Bool.and_eq_true, beq_iff_eq] at hid
    simp only [List.map_cons, expandRows]
    rw [← hid.1, expandRow_toRow table o (hw o List.mem_cons_self) (hm o List.mem_cons_self)]
    simp only
    rw [expandRows_toRow table actor ops (n + 1) hid.2 (fun q hq => hw q (List.mem_cons_of_mem _ hq))
      (fun q hq => hm q (List.mem_cons_of_mem _ hq))]

/-! ## the rows of a well-formed change can be read back -/

theorem sortOpIds_mem (p : OpId) : ∀ (xs : List OpId), p ∈ sortOpIds xs → p ∈ xs := by
  have hins : ∀ (o : OpId) (xs : List OpId), p ∈ insertOpId o xs → p = o ∨ p ∈ xs := by
    intro o xs
    induction xs with
    | nil => intro h; simpa [insertOpId] using h
    | cons x xs ih =>
      intro h
      unfold insertOpId at h
      split at h
      · rcases List.mem_cons.mp h with rfl | h
        · exact Or.inl rfl
        · exact Or.inr h
      · rcases List.mem_cons.mp h with rfl | h
        · exact Or.inr List.mem_cons_self
        · rcases ih h with h | h
          · exact Or.inl h
          · exact Or.inr (List.mem_cons_of_mem _ h)
  intro xs
  induction xs with
  | nil => intro h; exact h
  | cons x xs ih =>
    intro h
    rcases hins x (sortOpIds xs) h with h | h
    · rw [h]; exact List.mem_cons_self
    · exact List.mem_cons_of_mem _ (ih h)

theorem toRow_ok (table : List Bytes) (o : Op) (hw : OpWF o) (ht : table.length < 2 ^ 32)
    (hpl : o.pred.length < 2 ^ 64) : RowOK (toRow table o) := by
  obtain ⟨hobj, hkey, hact, hsort, hpred⟩ := hw
  have hidx : ∀ a, actorIndex table a < 2 ^ 32 := by
    intro a
    have := findIdx_le a table
    unfold actorIndex
    omega
  refine ⟨?_, ?_, ?_, ?_, ?_, ?_, ?_⟩
  · cases hoo : o.obj with
    | root => simp [toRow, hoo, IdOk]
    | id i =>
      rw [hoo] at hobj
      exact ⟨by simpa [toRow, hoo, toIdI] using hobj.2, by simpa [toRow, hoo, toIdI] using hidx i.actor⟩
  · cases hko : o.key with
    | map k => rw [hko] at hkey; simpa [toRow, hko, KeyWF] using hkey
    | head => simp [toRow, hko, IdOk]
    | elem e =>
      rw [hko] at hkey
      simp only [toRow, hko]
      exact ⟨hkey.2, hidx e.actor⟩
  · cases ha : o.action with
    | make t => cases t <;> simp [toRow, ha, validAction]
    | put v => simp [toRow, ha, validAction]
    | del => simp [toRow, ha, validAction]
    | inc n => simp [toRow, ha, validAction]
    | markBegin name v e => simp [toRow, ha, validAction]
    | markEnd e => simp [toRow, ha, validAction]
  · cases ha : o.action with
    | make t => simp [toRow, ha, ScalarWF]
    | put v => rw [ha] at hact; simpa [toRow, ha, ActionWF] using hact
    | del => simp [toRow, ha, ScalarWF]
    | inc n => rw [ha] at hact; simpa [toRow, ha, ScalarWF, ActionWF] using hact
    | markBegin name v e => rw [ha] at hact; simpa [toRow, ha] using hact.2
    | markEnd e => simp [toRow, ha, ScalarWF]
  · intro p hp
    simp only [toRow, hsort, List.mem_map] at hp
    obtain ⟨q, hq, rfl⟩ := hp
    exact ⟨hpred q hq, hidx q.actor⟩
  · simp only [toRow, hsort, List.length_map]; exact hpl
  · intro n hn
    cases ha : o.action with
    | markBegin name v e =>
      rw [ha] at hact
      simp only [toRow, ha, Option.some.injEq] at hn
      rw [← hn]; exact hact.1
    | make t => simp [toRow, ha] at hn
    | put v => simp [toRow, ha] at hn
    | del => simp [toRow, ha] at hn
    | inc n => simp [toRow, ha] at hn
    | markEnd e => simp [toRow, ha] at hn

theorem flatMap_pred_toRow (table : List Bytes) (ops : List Op) (h : ∀ o ∈ ops, OpWF o) :
    ((ops.map (toRow table)).flatMap (·.pred)).length = (ops.flatMap (·.pred)).length := by
  induction ops with
  | nil => rfl
  | cons o ops ih =>
    simp only [List.map_cons, List.flatMap_cons, List.length_append]
    rw [ih (fun q hq => h q (List.mem_cons_of_mem _ hq))]
    have := (h o List.mem_cons_self).2.2.2.1
    simp only [toRow, this, List.length_map]

theorem pred_le_flatMap (ops : List Op) (o : Op) (h : o ∈ ops) : o.pred.length ≤ (ops.flatMap (·.pred)).length := by
  induction ops with
  | nil => cases h
  | cons x xs ih =>
    simp only [List.flatMap_cons, List.length_append]
    rcases List.mem_cons.mp h with rfl | h
    · omega
    · have := ih h; omega

/-! ## the round trip -/

/-- the chunk body `Change::from(c)` writes -/
def changeBody (c : XChange) : Bytes :=
  encodeBody (sortDeps c.deps) c.actor (otherActors c.actor c.ops) c.seq c.startOp c.time c.message
    (c.ops.map (toRow (c.actor :: otherActors c.actor c.ops))) c.extra

theorem encodeChange_eq (c : XChange) : encodeChange c = encodeChunk Consts.CHUNK_TYPE_CHANGE (changeBody c) := rfl

/-- **`Change::from_bytes(Change::from(c).raw_bytes()).decode() = c`**, with the hash of the chunk -/
theorem decode_encode (limit : Nat) (c : XChange) (hw : ChangeWF c) (hlim : c.ops.length ≤ limit) :
    decodeChange limit (encodeChange c) = .ok (chunkHash Consts.CHUNK_TYPE_CHANGE (changeBody c), c) := by
  obtain ⟨hdeps, hdl, hnd, hal, hol, hnt, hseq, hso0, hso32, hso, htime, hmsg, hids, hops, hpl, hbody⟩ := hw
  have hrows : ∀ r ∈ c.ops.map (toRow (c.actor :: otherActors c.actor c.ops)), RowOK r := by
    intro r hr
    obtain ⟨o, ho, rfl⟩ := List.mem_map.mp hr
    apply toRow_ok _ o (hops o ho) (by simpa using hnt)
    have := pred_le_flatMap c.ops o ho
    omega
  have hfb := fromBytes_encode limit (sortDeps c.deps) c.actor (otherActors c.actor c.ops) c.seq c.startOp c.time c.message
    (c.ops.map (toRow (c.actor :: otherActors c.actor c.ops))) c.extra
    (by rw [hdeps]; exact hnd) (by rw [hdeps]; exact hdl) hal hseq (by omega) hso32 htime hmsg (by omega) hol hbody hrows
    (by simp only [List.length_map]; unfold two63; omega) (by simpa using hlim)
    (by rw [flatMap_pred_toRow _ _ hops]; exact hpl)
  rw [encodeChange_eq]
  unfold changeBody decodeChange
  rw [hfb]
  simp only
  unfold expand
  simp only
  rw [expandRows_toRow _ c.actor c.ops c.startOp hids hops (fun o ho a ha => mem_table c.actor c.ops o ho a ha)]
  simp only [hdeps]

end AmVerif.ChangeCodec.Full
