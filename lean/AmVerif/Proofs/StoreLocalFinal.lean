import AmVerif.Proofs.StoreLocalIdx
/-
  §5: a local op through `insertLocal` gives exactly the store `insertRemote` gives — rows, successor
  lists and the three index columns.
-/
namespace AmVerif.Crdt
open AmVerif

/-- what `local_map_op` / `local_list_op` / the delete loop of `inner_splice` guarantee about the
    predecessors of the op they make: they are visible rows of the op's register; unless the op is a
    delete they are ALL the visible rows; a delete may leave out the last ones (the winner, when a put
    of the value the winner already holds only resolves the conflict) -/
structure LocalPreds (s : Store) (N : Op) : Prop where
  named : ∀ y ∈ s, N.pred.contains y.op.id = true →
    (y.op.obj == N.obj && y.op.regKey == N.regKey) = true ∧ y.isVisible = true
  prefixNamed : (visReg s N).Pairwise (fun x y => N.pred.contains y.op.id = true → N.pred.contains x.op.id = true)
  allNamed : N.isDel = false → ∀ y ∈ visReg s N, N.pred.contains y.op.id = true

instance (s : Store) (N : Op) : Decidable (LocalPreds s N) :=
  decidable_of_iff
    ((∀ y ∈ s, N.pred.contains y.op.id = true →
        (y.op.obj == N.obj && y.op.regKey == N.regKey) = true ∧ y.isVisible = true) ∧
      (visReg s N).Pairwise (fun x y => N.pred.contains y.op.id = true → N.pred.contains x.op.id = true) ∧
      (N.isDel = false → ∀ y ∈ visReg s N, N.pred.contains y.op.id = true))
    ⟨fun h => ⟨h.1, h.2.1, h.2.2⟩, fun h => ⟨h.named, h.prefixNamed, h.allNamed⟩⟩

theorem prefixNamedB_sound (N : Op) : ∀ {l : Store}, prefixNamedB N l = true →
    l.Pairwise (fun x y => N.pred.contains y.op.id = true → N.pred.contains x.op.id = true)
  | [], _ => List.Pairwise.nil
  | x :: xs, h => by
    simp only [prefixNamedB, Bool.and_eq_true, List.all_eq_true, Bool.or_eq_true,
      Bool.not_eq_eq_eq_not, Bool.not_true] at h
    refine List.Pairwise.cons ?_ (prefixNamedB_sound N h.2)
    intro y hy hyn
    rcases h.1 y hy with h' | h'
    · rw [hyn] at h'; cases h'
    · exact h'

theorem localPredsB_sound {s : Store} {N : Op} (h : localPredsB s N = true) : LocalPreds s N := by
  unfold localPredsB at h
  simp only [Bool.and_eq_true, List.all_eq_true, Bool.or_eq_true, Bool.not_eq_eq_eq_not,
    Bool.not_true] at h
  obtain ⟨⟨h1, h2⟩, h3⟩ := h
  refine ⟨?_, prefixNamedB_sound N h2, ?_⟩
  · intro y hy hyn
    rcases h1 y hy with h' | h'
    · rw [hyn] at h'; cases h'
    · exact ⟨by rw [h'.1.1, h'.1.2]; rfl, h'.2⟩
  · intro hd y hy
    rcases h3 with h' | h'
    · rw [hd] at h'; cases h'
    · exact h' y hy

/-- in a store in canonical order the rows of a sequence object start with an insert op -/
theorem headOk_of_inv {w : Op → Nat} {ops : List Op} {s : Store} {N : Op}
    (hw : OpsWF (ops ++ [N])) (hi : StoreInv ops s) :
    ∀ pre l, s = pre ++ l → (∀ p ∈ pre, p.op.obj.lt N.obj = true) → HeadOk (localRow w N) l := by
  intro pre l hs hpre hk _ x xs hl hxo
  have hw0 := hw.init
  have hNkey : N.key = .head := hk
  have hxobj : x.op.obj = N.obj := hxo
  cases hxi : x.op.insert
  · exfalso
    have hxs : x ∈ s := by rw [hs, hl]; simp
    have hxops := hi.mem_ops hxs
    have hxc : x.op ∈ canon ops := by rw [← hi.order]; exact List.mem_map.mpr ⟨x, hxs, rfl⟩
    have hkind : x.op.key.isMap = false := by
      have := hw.kinds x.op (List.mem_append_left _ hxops) N (by simp) hxobj
      rw [this, hNkey]; rfl
    obtain ⟨e, he, hek⟩ := canon_seq_regKey hw0 hxc hkind
    rw [regKey_of_noninsert hxi] at hek
    -- the element's insert op is a stored op, hence a row of the store
    have heops := (mem_rgaFrom he).1
    have hei := (mem_rgaFrom he).2.2
    have heo := (mem_rgaFrom he).2.1
    have hec : e ∈ canon ops := (mem_canon_iff hi).mpr ⟨heops, (hw0.insSeq e heops hei).2⟩
    rw [← hi.order] at hec
    obtain ⟨y, hys, hye⟩ := List.mem_map.mp hec
    have hlt := hw0.updLater x.op hxops hxi e.id hek
    rw [hs, hl] at hys
    rcases List.mem_append.mp hys with hyp | hyq
    · have := hpre y hyp
      rw [hye, heo, hxobj, ObjId.lt_irrefl] at this; cases this
    · rcases List.mem_cons.mp hyq with rfl | hyq
      · rw [hye, hei] at hxi; cases hxi
      · -- `y` behind `x` in one register: ascending ids
        have hreg := canon_regSorted hw0
        unfold RegSorted at hreg
        rw [← hi.order, hs, hl, List.map_append, List.map_cons] at hreg
        have h1 := (List.pairwise_append.mp hreg).2.1
        have := List.rel_of_pairwise_cons h1 (List.mem_map.mpr ⟨y, hyq, rfl⟩) (by rw [hye, heo])
          (by rw [hye, regKey_of_noninsert hxi, hek, regKey_of_insert hei])
        rw [hye] at this
        exact OpId.lt_asymm hlt this
  · rfl

theorem localRow_isVisible (w : Op → Nat) (N : Op) : (localRow w N).isVisible = !N.isInc := by
  unfold Row.isVisible localRow
  cases N.isInc <;> simp

/-- **a local op gives the store a remote op with the same content gives** -/
theorem insertLocal_eq_insertRemote {w : Op → Nat} {ops : List Op} {s : Store} {N : Op}
    (hw : OpsWF (ops ++ [N])) (hf : Fresh ops N) (hp : PredsInReg ops N) (hi : StoreInv ops s)
    (hidx : IndexInv w s) (hgt : ∀ x ∈ ops, x.id.lt N.id = true) (hlp : LocalPreds s N) :
    (insertLocal w s N).1 = insertRemote w s N := by
  have hw0 := hw.init
  have hhead := headOk_of_inv (w := w) hw hi
  have hcore := insertLocal_core_eq (w := w) hw hf hi hgt hhead
  have hi' := insertRemote_inv (w := w) hw hf hi
  have hM : IndexInv w (insertRemote w s N) :=
    insertRemote_indexOk hw hf hp hi hidx.1 hidx.2.1 hidx.2.2.2
  refine store_ext hcore ?_ hM
  -- the local result
  have hnp : N.pred.contains N.id = false := by
    cases h : N.pred.contains N.id
    · rfl
    · exact absurd (List.contains_iff_mem.mp h) (hf.noPred N (by simp))
  have holdid : ∀ y ∈ s, (y.op.id == N.id) = false := by
    intro y hy
    have := hw.fresh_id y.op (hi.mem_ops hy)
    simpa using this
  have hvis_s : ∀ y ∈ s, y.vis = y.isVisible := by
    intro y hy
    have := hidx.1
    unfold visibleCol at this
    exact List.map_inj_left.mp this y hy
  have htop_s : s.map (·.top) = topAny s := by rw [← storeInv_topCol hw0 hi]; exact hidx.2.1
  let new : Row := localRow w N
  let s1 : Store := if N.isDel then s else (localPlaceRow new s).1
  have hL : (insertLocal w s N).1 = (addSuccRev w N 0 s1).1 := by
    unfold insertLocal
    simp only [s1, new]
    split <;> rfl
  -- `s1` is the old store with the new row at one position
  have hs1 : N.isDel = false → ∃ pre post, s = pre ++ post ∧ s1 = pre ++ new :: post := by
    intro hd
    have hlt : ∀ x ∈ s, x.op.id.lt new.op.id = true := fun x hx => hgt x.op (hi.mem_ops hx)
    have := localPlaceRow_eq new s hlt hhead
    obtain ⟨pre, post, h1, h2⟩ := placeRow_isInsertion new s
    refine ⟨pre, post, h1, ?_⟩
    simp only [s1, hd, Bool.false_eq_true, if_false]
    rw [this, h2]
  have hs1mem : ∀ y ∈ s1, y = new ∨ y ∈ s := by
    intro y hy
    cases hd : N.isDel
    · obtain ⟨pre, post, h1, h2⟩ := hs1 hd
      rw [h2] at hy
      rw [h1]
      simp only [List.mem_append, List.mem_cons] at hy ⊢
      rcases hy with h | h | h
      · exact .inr (.inl h)
      · exact .inl h
      · exact .inr (.inr h)
    · simp only [s1, hd, if_true] at hy
      exact .inr hy
  have hfilter : s1.filter (fun y => !(y.op.id == N.id)) = s := by
    have hsself : s.filter (fun y => !(y.op.id == N.id)) = s := by
      rw [List.filter_eq_self]
      intro y hy; rw [holdid y hy]; rfl
    cases hd : N.isDel
    · obtain ⟨pre, post, h1, h2⟩ := hs1 hd
      rw [h2, List.filter_append, List.filter_cons]
      have : (!(new.op.id == N.id)) = false := by simp [new, localRow]
      rw [this]
      simp only [Bool.false_eq_true, if_false]
      rw [← List.filter_append, ← h1]
      exact hsself
    · simp only [s1, hd, if_true]
      exact hsself
  have hs1ops : s1.map (·.op) = canon (ops ++ [N]) := by
    have : s1.map (·.op) = (insertLocal w s N).1.map (·.op) := by
      rw [hL]
      have := addSuccRev_core w N 0 s1
      have h2 := congrArg (List.map Prod.fst) this
      simp only [List.map_map] at h2
      have e1 : (Prod.fst ∘ Row.core) = (fun r : Row => r.op) := rfl
      have e2 : (Prod.fst ∘ succAfter N) = (fun r : Row => r.op) := rfl
      rw [e1, e2] at h2
      exact h2.symm
    rw [this, ← hi'.order]
    have h2 := congrArg (List.map Prod.fst) hcore
    simp only [List.map_map] at h2
    have e1 : (Prod.fst ∘ Row.core) = (fun r : Row => r.op) := rfl
    rw [e1] at h2
    exact h2
  have hnewuniq : ∀ y ∈ s1, (y.op.id == N.id) = true → y = new := by
    intro y hy hyid
    rcases hs1mem y hy with h | h
    · exact h
    · rw [holdid y h] at hyid; cases hyid
  -- the context of the walk
  have hctx : LocalCtx N s1 := by
    refine ⟨hnp, ?_, ?_, ?_, ?_, ?_, ?_⟩
    · intro y hy hyn
      rcases hs1mem y hy with h | h
      · rw [h] at hyn
        simp only [new, localRow] at hyn
        rw [hnp] at hyn; cases hyn
      · exact hlp.named y h hyn
    · intro P x Q hl hxold
      have hsold : s = P.filter (fun y => !(y.op.id == N.id)) ++ x :: Q.filter (fun y => !(y.op.id == N.id)) := by
        conv => lhs; rw [← hfilter, hl, List.filter_append, List.filter_cons]
        simp [hxold]
      exact topAny_spec htop_s _ x _ hsold
    · intro P x Q hl hxnew
      have hx : x = new := hnewuniq x (by rw [hl]; simp) hxnew
      refine ⟨by rw [hx]; rfl, by rw [hx]; exact localRow_isVisible w N, by rw [hx]; simp [new, localRow], ?_⟩
      intro y hy
      cases hyr : (y.op.obj == N.obj && y.op.regKey == N.regKey)
      · rfl
      · exfalso
        simp only [Bool.and_eq_true, beq_iff_eq] at hyr
        have hreg := canon_regSorted hw
        unfold RegSorted at hreg
        rw [← hs1ops, hl, List.map_append, List.map_cons] at hreg
        have h1 := (List.pairwise_append.mp hreg).2.1
        have hlt := List.rel_of_pairwise_cons h1 (List.mem_map.mpr ⟨y, hy, rfl⟩)
          (by rw [hx]; exact hyr.1.symm) (by rw [hx]; exact hyr.2.symm)
        have hys : y ∈ s := by
          rcases hs1mem y (by rw [hl]; simp [hy]) with h | h
          · -- `y` would be a second copy of the new row
            exfalso
            rw [h, hx] at hlt
            rw [OpId.lt_irrefl] at hlt; cases hlt
          · exact h
        rw [hx] at hlt
        exact OpId.lt_asymm hlt (hgt y.op (hi.mem_ops hys))
    · intro hd y hy
      simp only [s1, hd, if_true] at hy
      exact holdid y hy
    · intro P x Q hl y hy hxr hyr hxo hyo hxv hyv hyn
      have hpw := hlp.prefixNamed
      unfold visReg regRows at hpw
      rw [← hfilter, hl] at hpw
      simp only [List.filter_append, List.filter_cons, hxo, Bool.not_false, if_true, hxr, hxv] at hpw
      have h1 := (List.pairwise_append.mp hpw).2.1
      apply List.rel_of_pairwise_cons h1 _ hyn
      simp only [List.mem_filter, hyo, hyr, hyv, Bool.not_false, and_true]
      exact hy
    · intro hd y hy hyo hyr hyv
      apply hlp.allNamed hd
      unfold visReg regRows
      simp only [List.mem_filter, hyr, hyv, and_true]
      rcases hs1mem y hy with h | h
      · rw [h] at hyo; simp [new, localRow] at hyo
      · exact h
  -- index columns of the local result
  have hvis1 : ∀ y ∈ s1, y.vis = y.isVisible := by
    intro y hy
    rcases hs1mem y hy with h | h
    · rw [h, localRow_isVisible]; rfl
    · exact hvis_s y h
  have hwd1 : ∀ y ∈ s1, widthOk w y := by
    intro y hy
    rcases hs1mem y hy with h | h
    · rw [h]; unfold widthOk; simp only [new, localRow]
    · exact hidx.2.2.2 y h
  have hLvis := addSuccRev_vis_ok w N hnp 0 s1 hvis1
  have hLwd := addSuccRev_widthOk w N 0 s1 hwd1
  have hLtopAny := addSuccRev_topAny w N hctx s1 [] 0 rfl
  have hLops : (addSuccRev w N 0 s1).1.map (·.op) = canon (ops ++ [N]) := by
    rw [← hL]
    have h2 := congrArg (List.map Prod.fst) hcore
    simp only [List.map_map] at h2
    have e1 : (Prod.fst ∘ Row.core) = (fun r : Row => r.op) := rfl
    rw [e1] at h2
    rw [h2]; exact hi'.order
  have hLtop : (addSuccRev w N 0 s1).1.map (·.top) = topCol (addSuccRev w N 0 s1).1 := by
    rw [topCol_eq_topAny _ (by rw [hLops]; exact canon_noReturn hw hi'.complete)]
    exact hLtopAny
  rw [hL]
  refine ⟨?_, hLtop, widthCol_of_rows w _ hLtop hLwd, hLwd⟩
  unfold visibleCol
  apply List.map_congr_left
  exact hLvis

/-- a whole transaction: every op local = remote -/
theorem insertLocalAll_eq {w : Op → Nat} : ∀ (Ns : List Op) (ops : List Op) (s : Store),
    StoreInv ops s → IndexInv w s →
    (∀ (k : Nat) (N : Op), Ns[k]? = some N →
      OpsWF (ops ++ Ns.take (k + 1)) ∧ Fresh (ops ++ Ns.take k) N ∧ PredsInReg (ops ++ Ns.take k) N ∧
      (∀ x ∈ ops ++ Ns.take k, x.id.lt N.id = true) ∧
      LocalPreds ((Ns.take k).foldl (insertRemote w) s) N) →
    (insertLocalAll w s Ns).1 = Ns.foldl (insertRemote w) s
  | [], _, _, _, _, _ => rfl
  | N :: Ns, ops, s, hi, hidx, h => by
    obtain ⟨h1, h2, h3, h4, h5⟩ := h 0 N rfl
    simp only [List.take_zero, List.append_nil, List.foldl_nil, List.take_succ_cons, List.take_zero] at h1 h2 h3 h4 h5
    have heq := insertLocal_eq_insertRemote (w := w) h1 h2 h3 hi hidx h4 h5
    simp only [insertLocalAll, List.foldl_cons]
    rw [heq]
    apply insertLocalAll_eq Ns (ops ++ [N]) (insertRemote w s N) (insertRemote_inv h1 h2 hi)
      (insertRemote_indexOk h1 h2 h3 hi hidx.1 hidx.2.1 hidx.2.2.2)
    intro k M hk
    have := h (k + 1) M (by simpa using hk)
    simpa [List.append_assoc] using this

end AmVerif.Crdt
