import AmVerif.Proofs.DocCodecExRecon1
import AmVerif.Proofs.DocCodecExRecon2
import AmVerif.Proofs.DocCodecExRecon3
/-
  The example history passes `ReconChecks` (assembled from the parts decided in `DocCodecExRecon1..3`).
-/
namespace AmVerif.DocCodec
open AmVerif AmVerif.Crdt

theorem Ex.history_hashes : ∀ d ∈ Ex.history, HashD d := by
  intro d hd
  simp only [Ex.history, List.mem_cons, List.mem_nil_iff, or_false] at hd
  rcases hd with rfl | rfl | rfl | rfl
  · exact Ex.history_hash0
  · exact Ex.history_hash1
  · exact Ex.history_hash2
  · exact Ex.history_hash3

set_option maxRecDepth 100000 in
theorem Ex.history_reconD : ReconD Ex.history :=
  ⟨by decide +kernel, by decide +kernel, by decide +kernel, by decide +kernel, Ex.history_hashes,
    by decide +kernel, by decide +kernel⟩

theorem Ex.history_checks : ReconChecks Ex.history :=
  ⟨Ex.history_reconD, Ex.history_gapD, Ex.history_opsD, Ex.history_marks⟩

end AmVerif.DocCodec
