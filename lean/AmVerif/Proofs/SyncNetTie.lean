import AmVerif.Model.SyncNet
import AmVerif.Model.Sync2
/-
  The n-peer network `Net` (what the correspondence engine executes against the real code) seen
  through one pair of peers is the two-peer system `Cfg` (what the C20/C21 theorems are about):
  the pair projection commutes with edit / generate / deliver / reconnect.
-/
namespace AmVerif.Sync
open AmVerif

/-- the pair (a, b) of a network as a two-peer configuration -/
def Net.toCfg (net : Net) (a b : Nat) : Cfg :=
  ⟨net.docs a, net.docs b, net.st a b, net.st b a, net.link a b, net.link b a⟩

theorem Net.toCfg_swap (net : Net) (a b : Nat) : net.toCfg b a = (net.toCfg a b).swap := rfl

theorem Net.toCfg_edit (net : Net) (a b : Nat) (hab : a ≠ b) (ch : Change) (isFp : Bool) :
    (net.edit a ch isFp).toCfg a b = (net.toCfg a b).editA ch := by
  have hba : ¬ b = a := fun h => hab h.symm
  simp [Net.toCfg, Net.edit, Net.setDoc, Cfg.editA, hba]

theorem Net.toCfg_gen (net : Net) (a b : Nat) (hab : a ≠ b) (hleg : net.legacy a b = false) :
    (net.gen a b).1.toCfg a b = (net.toCfg a b).genA net.fp := by
  have hba : ¬ b = a := fun h => hab h.symm
  unfold Net.gen Cfg.genA
  cases hg : (generate net.fp (net.docs a) (net.st a b)).2 with
  | none =>
    simp [Net.toCfg, Net.setSt, hg, hab, hba]
  | some m =>
    simp [Net.toCfg, Net.setSt, Net.setLink, Net.transit, hg, hab, hba, hleg]

theorem Net.toCfg_deliver (net : Net) (a b : Nat) (hab : a ≠ b) (m : Message) (rest : List Message)
    (hl : net.link a b = m :: rest) :
    (net.deliver a b).1.toCfg a b = (net.toCfg a b).recvB m rest := by
  have hba : ¬ b = a := fun h => hab h.symm
  unfold Net.deliver Cfg.recvB
  simp [Net.toCfg, Net.setSt, Net.setLink, Net.setDoc, hl, hab, hba]

end AmVerif.Sync
