import AmVerif.Model.ChangeCodec
import AmVerif.Proofs.Chunk
import AmVerif.Proofs.HexaneRle
import AmVerif.Proofs.HexaneCanon
/-
  Helper lemmas for the change-chunk codec (`Model/ChangeCodec.lean`): framing, hash, UTF-8
  validity of everything the decoder hands out, iterator round trips of the legacy column decoders.
-/
namespace AmVerif.ChangeCodec
open AmVerif AmVerif.Leb AmVerif.Crdt AmVerif.Chunk
open AmVerif.Hexane (readU readS encU encS validUtf8 ValCodec two63 two64 cU64 cI64 Item PState canon writeItems writeItem
  itemsLen itemCount Lawful readS_encS readU_encU encS_ne_nil encU_ne_nil writeItems_cons)

/-- an 85-byte change chunk written by the library (author `01`, seq 1, message "m", three ops: a
    string put, a text object, an insert whose predecessor belongs to actor `02`) -/
def sampleChange : Bytes :=
  [133, 111, 74, 131, 56, 248, 8, 227, 1, 75, 0, 1, 1, 1, 1, 0, 1, 109, 1, 1, 2, 11, 1, 4, 2, 4, 19, 4, 21, 7, 52,
   2, 66, 4, 86, 4, 87, 4, 112, 4, 113, 2, 115, 2, 0, 2, 127, 0, 0, 2, 127, 2, 0, 2, 127, 0, 126, 1, 107, 1, 108,
   0, 1, 2, 1, 125, 1, 4, 1, 125, 54, 0, 19, 104, 195, 169, 7, 2, 0, 127, 1, 127, 1, 127, 1]

/-! ## framing and hash -/

/-- a successful `fromBytes` went through `parseChunk` on the whole input -/
theorem fromBytes_chunk {limit : Nat} {bs : Bytes} {s : Stored} (h : fromBytes limit bs = .ok s) :
    ∃ ch, parseChunk (fun _ _ => true) bs = .ok (ch, []) ∧ s.hash = ch.hash ∧
      (ch.ty = Consts.CHUNK_TYPE_CHANGE ∨ ch.ty = Consts.CHUNK_TYPE_COMPRESSED) ∧
      ∃ m, parseMeta ch.body = .ok m ∧ rowsLoop limit (IterSt.init m.cols m.data) = .ok s.rows ∧
        s.message = m.message ∧ s.deps = m.deps ∧ s.actor = m.actor ∧ s.others = m.others ∧
        s.seq = m.seq ∧ s.startOp = m.startOp ∧ s.time = m.time ∧ s.extra = m.extra ∧ m.startOp < 2 ^ 32 := by
  unfold fromBytes at h
  split at h
  · cases h
  rename_i ch rest hp
  split at h
  · cases h
  rename_i hty
  split at h
  · cases h
  · cases h
  rename_i m hm
  split at h
  · cases h
  rename_i hrest
  split at h
  · cases h
  · cases h
  rename_i rows hrows
  split at h
  · cases h
  rename_i hso
  have hrest' : rest = [] := by
    cases rest with
    | nil => rfl
    | cons a r => simp at hrest
  subst hrest'
  simp only [Outcome.ok.injEq] at h
  subst h
  refine ⟨ch, hp, rfl, ?_, m, hm, hrows, rfl, rfl, rfl, rfl, rfl, rfl, rfl, rfl, ?_⟩
  · by_cases h1 : ch.ty = Consts.CHUNK_TYPE_CHANGE
    · exact Or.inl h1
    · by_cases h2 : ch.ty = Consts.CHUNK_TYPE_COMPRESSED
      · exact Or.inr h2
      · exact absurd ⟨h1, h2⟩ hty
  · exact Decidable.of_not_not hso

/-- the compressed form of a change chunk reads exactly like the plain form (no property of DEFLATE
    is used beyond the hypothesis that these bytes inflate to that body) -/
theorem fromBytes_compressed (limit : Nat) (z body : Bytes) (hinf : Inflate.inflateExact z = some body)
    (hz : z.length < 2 ^ 64) (hb : body.length < 2 ^ 64) :
    fromBytes limit (encodeChunkWith ((chunkHash 1 body).take 4) 2 z) = fromBytes limit (encodeChunk 1 body) := by
  have h1 := Stored.parse (bodyOk := fun _ _ => true) (s := .compressed z body) ⟨hz, hinf, rfl⟩ []
  have h2 := Stored.parse (bodyOk := fun _ _ => true) (s := .plain 1 body) ⟨by decide, by decide, hb, rfl⟩ []
  simp only [Stored.bytes, List.append_nil, Stored.chunk] at h1 h2
  unfold fromBytes
  rw [h1, h2]
  simp [Chunk.checksumValid, Consts.CHUNK_TYPE_CHANGE, Consts.CHUNK_TYPE_COMPRESSED]

/-! ## UTF-8: every string the decoder hands out has been validated -/

def LastOk {α : Type} (P : α → Prop) (s : RleSt α) : Prop := ∀ v, s.last = some v → P v

theorem LastOk_init {α : Type} (P : α → Prop) (bs : Bytes) : LastOk P (RleSt.init (α := α) bs) := by
  intro v h; simp [RleSt.init] at h

theorem rleFill_lastOk {α : Type} (c : ValCodec α) (P : α → Prop)
    (hc : ∀ bs v r, c.unpack bs = .ok (v, r) → P v) :
    ∀ (fuel : Nat) (s s' : RleSt α), LastOk P s → rleFill c fuel s = .ok (some s') → LastOk P s' := by
  intro fuel
  induction fuel with
  | zero => intro s s' _ h; simp [rleFill] at h
  | succ f ih =>
    intro s s' hs h
    unfold rleFill at h
    split at h
    · simp only [Outcome.ok.injEq, Option.some.injEq] at h; subst h; exact hs
    split at h
    · cases h
    split at h
    · cases h
    rename_i n rest hr
    split at h
    · split at h
      · cases h
      rename_i v rest' hv
      simp only [Outcome.ok.injEq, Option.some.injEq] at h; subst h
      intro w hw; simp only [Option.some.injEq] at hw; subst hw; exact hc _ _ _ hv
    split at h
    · split at h
      · cases h
      simp only [Outcome.ok.injEq, Option.some.injEq] at h; subst h
      exact hs
    split at h
    · cases h
    rename_i k rest' hk
    exact ih _ _ (by intro w hw; simp at hw) h

theorem rleNext_lastOk {α : Type} (c : ValCodec α) (P : α → Prop)
    (hc : ∀ bs v r, c.unpack bs = .ok (v, r) → P v) (s s' : RleSt α) (o : Option (Option α))
    (hs : LastOk P s) (h : rleNext c s = .ok (o, s')) :
    LastOk P s' ∧ ∀ v, o = some (some v) → P v := by
  unfold rleNext at h
  split at h
  · cases h
  · cases h
  · simp only [Outcome.ok.injEq, Prod.mk.injEq] at h
    obtain ⟨rfl, rfl⟩ := h
    exact ⟨hs, by intro v hv; cases hv⟩
  rename_i s1 hf
  have h1 := rleFill_lastOk c P hc _ _ _ hs hf
  split at h
  · cases h
  simp only at h
  split at h
  · split at h
    · cases h
    rename_i v rest hv
    simp only [Outcome.ok.injEq, Prod.mk.injEq] at h
    obtain ⟨rfl, rfl⟩ := h
    refine ⟨h1, ?_⟩
    intro w hw; simp only [Option.some.injEq] at hw; subst hw; exact hc _ _ _ hv
  · simp only [Outcome.ok.injEq, Prod.mk.injEq] at h
    obtain ⟨rfl, rfl⟩ := h
    refine ⟨h1, ?_⟩
    intro w hw; simp only [Option.some.injEq] at hw; exact h1 w hw

def ValidStr (b : Bytes) : Prop := validUtf8 b = true

theorem unpackSmol_valid (bs v r : Bytes) (h : cSmol.unpack bs = .ok (v, r)) : ValidStr v := by
  simp only [cSmol, unpackSmol] at h
  split at h
  · cases h
  split at h
  · simp only [Except.ok.injEq, Prod.mk.injEq] at h; obtain ⟨rfl, -⟩ := h; rfl
  split at h
  · cases h
  split at h
  · cases h
  split at h
  · rename_i hv
    simp only [Except.ok.injEq, Prod.mk.injEq] at h; obtain ⟨rfl, -⟩ := h; exact hv
  · cases h

def KeyI.Valid : KeyI → Prop
  | .prop s => ValidStr s
  | .elem _ => True

def StrValid : Scalar → Prop
  | .str s => ValidStr s
  | _ => True

def Row.Valid (r : Row) : Prop := r.key.Valid ∧ StrValid r.val ∧ (∀ n, r.markName = some n → ValidStr n)

theorem keyNext_valid (s s' : KeySt) (k : KeyI) (hs : LastOk ValidStr s.str) (h : keyNext s = .ok (k, s')) :
    LastOk ValidStr s'.str ∧ k.Valid := by
  unfold keyNext at h
  split at h
  · cases h
  · cases h
  split at h
  · cases h
  · cases h
  split at h
  · cases h
  · cases h
  rename_i str ss hstr
  have hv := rleNext_lastOk cSmol ValidStr unpackSmol_valid _ _ _ hs hstr
  simp only at h
  split at h
  · cases h
  · split at h
    · cases h
    split at h
    · simp only [Outcome.ok.injEq, Prod.mk.injEq] at h; obtain ⟨rfl, rfl⟩ := h; exact ⟨hv.1, by simp [KeyI.Valid]⟩
    · cases h
    · cases h
  · split at h
    · simp only [Outcome.ok.injEq, Prod.mk.injEq] at h; obtain ⟨rfl, rfl⟩ := h
      exact ⟨hv.1, hv.2 _ rfl⟩
    · cases h
  · split at h
    · simp only [Outcome.ok.injEq, Prod.mk.injEq] at h; obtain ⟨rfl, rfl⟩ := h; exact ⟨hv.1, by simp [KeyI.Valid]⟩
    · cases h
  · cases h

theorem readValue_valid (m : Nat) (raw : Bytes) (v : Scalar) (r : Bytes) (h : readValue m raw = .ok (v, r)) :
    StrValid v := by
  unfold readValue at h
  simp only at h
  repeat' split at h
  all_goals first
    | (cases h; done)
    | (simp only [Outcome.ok.injEq, Prod.mk.injEq] at h; obtain ⟨rfl, -⟩ := h; simp [StrValid, ValidStr, *])

theorem valNext_valid (s s' : ValSt) (v : Scalar) (h : valNext s = .ok (v, s')) : StrValid v := by
  unfold valNext at h
  split at h
  · cases h
  · cases h
  · split at h
    · rename_i hr
      simp only [Outcome.ok.injEq, Prod.mk.injEq] at h; obtain ⟨rfl, -⟩ := h
      exact readValue_valid _ _ _ _ hr
    · cases h
    · cases h
  · cases h

theorem rowNext_valid (s s' : IterSt) (r : Row) (hk : LastOk ValidStr s.key.str) (hm : LastOk ValidStr s.markName)
    (h : rowNext s = .ok (r, s')) : LastOk ValidStr s'.key.str ∧ LastOk ValidStr s'.markName ∧ r.Valid := by
  unfold rowNext at h
  simp only at h
  split at h
  · cases h
  · cases h
  rename_i obj os hobj
  split at h
  · cases h
  · cases h
  rename_i key ks hkey
  split at h
  · cases h
  · cases h
  · cases h
  rename_i ins is hins
  split at h
  · cases h
  · cases h
  · cases h
  · cases h
  rename_i action acs hact
  split at h
  · cases h
  · cases h
  rename_i val vs hval
  split at h
  · cases h
  · cases h
  rename_i pred ps hpred
  split at h
  · cases h
  · cases h
  rename_i ex es hex
  split at h
  · cases h
  · cases h
  rename_i mn ms hmn
  split at h
  · simp only [Outcome.ok.injEq, Prod.mk.injEq] at h
    obtain ⟨rfl, rfl⟩ := h
    have h1 := keyNext_valid _ _ _ hk hkey
    have h2 := rleNext_lastOk cSmol ValidStr unpackSmol_valid _ _ _ hm hmn
    have h3 := valNext_valid _ _ _ hval
    refine ⟨h1.1, h2.1, h1.2, h3, ?_⟩
    intro n hn
    cases mn with
    | none => simp at hn
    | some o =>
      cases o with
      | none => simp at hn
      | some w => simp at hn; subst hn; exact h2.2 _ rfl
  · cases h

theorem rowsLoop_valid : ∀ (limit : Nat) (s : IterSt) (rows : List Row),
    LastOk ValidStr s.key.str → LastOk ValidStr s.markName → rowsLoop limit s = .ok rows →
    ∀ r ∈ rows, r.Valid := by
  intro limit
  induction limit with
  | zero =>
    intro s rows _ _ h
    unfold rowsLoop at h
    split at h
    · simp only [Outcome.ok.injEq] at h; subst h; intro r hr; cases hr
    · cases h
  | succ n ih =>
    intro s rows hk hm h
    unfold rowsLoop at h
    split at h
    · simp only [Outcome.ok.injEq] at h; subst h; intro r hr; cases hr
    split at h
    · cases h
    · cases h
    rename_i row s1 hrow
    have h1 := rowNext_valid _ _ _ hk hm hrow
    split at h
    · rename_i rows' hrows
      simp only [Outcome.ok.injEq] at h; subst h
      intro r hr
      cases hr with
      | head => exact h1.2.2
      | tail _ hr' => exact ih _ _ h1.1 h1.2.1 hrows r hr'
    · cases h
    · cases h

/-- what `parseMeta` returns as the message went through the UTF-8 check of `parse::utf_8` -/
theorem parseMeta_message_valid (body : Bytes) (m : Meta) (h : parseMeta body = .ok m) :
    ∀ msg, m.message = some msg → ValidStr msg := by
  unfold parseMeta at h
  split at h
  · cases h
  split at h
  · cases h
  split at h
  · cases h
  split at h
  · cases h
  split at h
  · cases h
  split at h
  · cases h
  split at h
  · cases h
  split at h
  · cases h
  rename_i msg i8 hmsg
  split at h
  · cases h
  rename_i hvalid
  split at h
  · cases h
  split at h
  · cases h
  split at h
  · cases h
  · cases h
  simp only at h
  split at h
  · cases h
  split at h
  · cases h
  split at h
  · cases h
  split at h
  · cases h
  simp only [Outcome.ok.injEq] at h
  subst h
  intro msg' hm
  simp only at hm
  split at hm
  · cases hm
  · simp only [Option.some.injEq] at hm; subst hm
    simpa [ValidStr] using hvalid

theorem IterSt_init_inv (o : OpCols) (data : Bytes) :
    LastOk ValidStr (IterSt.init o data).key.str ∧ LastOk ValidStr (IterSt.init o data).markName :=
  ⟨LastOk_init _ _, LastOk_init _ _⟩

/-- every string of a stored change accepted by `fromBytes` is valid UTF-8 -/
theorem fromBytes_strings_valid {limit : Nat} {bs : Bytes} {s : Stored} (h : fromBytes limit bs = .ok s) :
    (∀ msg, s.message = some msg → ValidStr msg) ∧ ∀ r ∈ s.rows, r.Valid := by
  obtain ⟨ch, -, -, -, m, hm, hrows, hmsg, -⟩ := fromBytes_chunk h
  refine ⟨?_, ?_⟩
  · rw [hmsg]; exact parseMeta_message_valid _ _ hm
  · exact rowsLoop_valid _ _ _ (IterSt_init_inv _ _).1 (IterSt_init_inv _ _).2 hrows

def ActionValid : Action → Prop
  | .put v => StrValid v
  | .markBegin n v _ => ValidStr n ∧ StrValid v
  | _ => True

def OpValid (o : Op) : Prop := (∀ k, o.key = .map k → ValidStr k) ∧ ActionValid o.action

theorem actionOf_valid (r : Row) (h : r.Valid) : ActionValid (actionOf r) := by
  unfold actionOf
  repeat' split
  all_goals first
    | exact h.2.1
    | exact ⟨h.2.2 _ (by assumption), h.2.1⟩
    | simp [ActionValid]

theorem expandRow_valid (actors : List Bytes) (id : OpId) (r : Row) (op : Op) (hr : r.Valid)
    (h : expandRow actors id r = .ok op) : OpValid op := by
  unfold expandRow at h
  simp only at h
  split at h
  · cases h
  · cases h
  rename_i key hkey
  split at h
  · cases h
  · cases h
  split at h
  · cases h
  · cases h
  simp only [Outcome.ok.injEq] at h
  subst h
  refine ⟨?_, actionOf_valid r hr⟩
  intro k hk
  simp only at hk
  subst hk
  split at hkey
  · simp only [Outcome.ok.injEq, Key.map.injEq] at hkey; subst hkey
    have := hr.1
    rename_i heq
    rw [heq] at this; exact this
  · split at hkey
    · cases hkey
    · split at hkey <;> cases hkey

theorem expandRows_valid (actors : List Bytes) (actor : Bytes) : ∀ (rows : List Row) (ctr : Nat) (ops : List Op),
    (∀ r ∈ rows, r.Valid) → expandRows actors actor ctr rows = .ok ops → ∀ o ∈ ops, OpValid o := by
  intro rows
  induction rows with
  | nil =>
    intro ctr ops _ h
    simp only [expandRows, Outcome.ok.injEq] at h; subst h; intro o ho; cases ho
  | cons r rest ih =>
    intro ctr ops hv h
    unfold expandRows at h
    split at h
    · cases h
    · cases h
    rename_i op hop
    split at h
    · rename_i ops' hops
      simp only [Outcome.ok.injEq] at h; subst h
      intro o ho
      cases ho with
      | head => exact expandRow_valid _ _ _ _ (hv r (List.mem_cons_self ..)) hop
      | tail _ ho' => exact ih _ _ (fun r' hr' => hv r' (List.mem_cons_of_mem _ hr')) hops o ho'
    · cases h
    · cases h

/-- every string of a change returned by `Change::from_bytes(..)?.decode()` is valid UTF-8 -/
theorem decodeChange_strings_valid {limit : Nat} {bs hash : Bytes} {x : XChange}
    (h : decodeChange limit bs = .ok (hash, x)) :
    (∀ msg, x.message = some msg → ValidStr msg) ∧ ∀ o ∈ x.ops, OpValid o := by
  unfold decodeChange at h
  split at h
  · cases h
  · cases h
  rename_i s hs
  split at h
  · cases h
  · cases h
  rename_i x' hx
  simp only [Outcome.ok.injEq, Prod.mk.injEq] at h
  obtain ⟨-, rfl⟩ := h
  obtain ⟨hm, hrows⟩ := fromBytes_strings_valid hs
  unfold expand at hx
  split at hx
  · cases hx
  · cases hx
  rename_i ops hops
  simp only [Outcome.ok.injEq] at hx
  subst hx
  exact ⟨hm, expandRows_valid _ _ _ _ _ hrows hops⟩

/-! ## the legacy `RleDecoder` on the encoder's output -/

/-- the decoder state `s` stands in front of the values `xs`: its unread bytes are canonical
    segments `items` (in the sense of `Hexane.canon`, started in parser state `st`), and it is either
    between segments / inside a literal run (`count = st.litLeft`) or inside a repeat or null run -/
def Rep {α : Type} [DecidableEq α] (c : ValCodec α) (Valid : α → Prop) (s : RleSt α) (xs : List (Option α)) : Prop :=
  ∃ (st : PState α) (items : List (Item α)),
    canon Valid true st items ∧ itemsLen items < two63 ∧ s.data = writeItems c items ∧
    ((s.count = (st.litLeft : Int) ∧ (st.litLeft > 0 → s.literal = true) ∧ xs = Hexane.expand items) ∨
     (st.litLeft = 0 ∧ s.literal = false ∧ ∃ n : Nat, 0 < n ∧ n < two63 ∧ s.count = (n : Int) ∧
        xs = List.replicate n s.last ++ Hexane.expand items))

theorem isEmpty_append_left {a b : Bytes} (h : a ≠ []) : (a ++ b).isEmpty = false := by
  cases a with
  | nil => exact absurd rfl h
  | cons x r => rfl

theorem itemsLen_cons {α : Type} (x : Item α) (r : List (Item α)) : itemsLen (x :: r) = itemCount x + itemsLen r := by
  simp [itemsLen]

theorem rep_step {α : Type} [DecidableEq α] {c : ValCodec α} {Valid : α → Prop} (law : Lawful c Valid)
    (s : RleSt α) (x : Option α) (xs : List (Option α)) (h : Rep c Valid s (x :: xs)) :
    ∃ s', rleNext c s = .ok (some x, s') ∧ Rep c Valid s' xs := by
  obtain ⟨st, items, hc, hlen, hdata, hcase⟩ := h
  rcases hcase with ⟨hcount, hlit, hxs⟩ | ⟨hl0, hlitf, n, hn0, hn63, hcount, hxs⟩
  · -- between segments or inside a literal run
    by_cases hk : st.litLeft > 0
    · -- inside a literal run: the next item is a literal value
      cases items with
      | nil => simp only [canon] at hc; omega
      | cons it r =>
        cases it with
        | head k => simp only [canon] at hc; omega
        | run n v => simp only [canon] at hc; omega
        | null n => simp only [canon] at hc; omega
        | litv v =>
          simp only [canon] at hc
          obtain ⟨-, -, -, hv, hc'⟩ := hc
          have hx : x = some v ∧ xs = Hexane.expand r := by
            simp only [Hexane.expand] at hxs; exact ⟨(List.cons.inj hxs).1, (List.cons.inj hxs).2⟩
          obtain ⟨rfl, rfl⟩ := hx
          have hcne : s.count ≠ 0 := by omega
          have hfill : rleFill c (s.data.length + 1) s = .ok (some s) := by
            rw [rleFill]; simp [hcne]
          have hmin : ¬ (s.count = -(two63 : Int)) := by omega
          have hd : s.data = c.pack v ++ writeItems c r := by rw [hdata, writeItems_cons]; rfl
          refine ⟨{ s with count := s.count - 1, data := writeItems c r }, ?_, ?_⟩
          · unfold rleNext
            rw [hfill]
            simp only [hmin, if_false, hlit hk, if_true, hd, law.rt v _ hv]
          · refine ⟨_, r, hc', ?_, rfl, Or.inl ⟨?_, ?_, rfl⟩⟩
            · rw [itemsLen_cons] at hlen; simp only [itemCount] at hlen; omega
            · simp only; omega
            · intro _; exact hlit hk
    · -- between segments: read the next segment header
      have hk0 : st.litLeft = 0 := by omega
      have hc0 : s.count = 0 := by rw [hcount, hk0]; rfl
      cases items with
      | nil => simp [Hexane.expand] at hxs
      | cons it r =>
        cases it with
        | litv v => simp only [canon] at hc; omega
        | head k =>
          simp only [canon] at hc
          obtain ⟨-, hk1, hk2, -, hc'⟩ := hc
          -- the literal run is not empty: its first value follows
          cases r with
          | nil => simp only [canon] at hc'; omega
          | cons it2 r2 =>
            cases it2 with
            | head _ => simp only [canon] at hc'; omega
            | run _ _ => simp only [canon] at hc'; omega
            | null _ => simp only [canon] at hc'; omega
            | litv v =>
              simp only [canon] at hc'
              obtain ⟨-, -, -, hv, hc''⟩ := hc'
              have hx : x = some v ∧ xs = Hexane.expand r2 := by
                simp only [Hexane.expand] at hxs; exact ⟨(List.cons.inj hxs).1, (List.cons.inj hxs).2⟩
              obtain ⟨rfl, rfl⟩ := hx
              have hd : s.data = encS (-(k : Int)) ++ (c.pack v ++ writeItems c r2) := by
                rw [hdata, writeItems_cons, writeItems_cons]; rfl
              have hkr : -(two63 : Int) ≤ -(k : Int) ∧ -(k : Int) < (two63 : Int) := by unfold two63 at *; omega
              have hfill : rleFill c (s.data.length + 1) s =
                  .ok (some { data := c.pack v ++ writeItems c r2, last := s.last, count := (k : Int), literal := true }) := by
                rw [rleFill]
                have hemp : s.data.isEmpty = false := by rw [hd]; exact isEmpty_append_left (encS_ne_nil _)
                have h1 : ¬ (-(k : Int) > 0) := by omega
                have h2 : -(k : Int) < 0 := by omega
                have h3 : ¬ (-(k : Int) = -(two63 : Int)) := by unfold two63 at *; omega
                simp only [hc0, ne_eq, not_true_eq_false, if_false, hemp, Bool.false_eq_true]
                rw [hd, readS_encS _ _ hkr.1 hkr.2]
                simp only [h1, if_false, h2, if_true, h3, Int.neg_neg]
              refine ⟨{ data := writeItems c r2, last := s.last, count := (k : Int) - 1, literal := true }, ?_, ?_⟩
              · unfold rleNext
                rw [hfill]
                have hmin : ¬ ((k : Int) = -(two63 : Int)) := by unfold two63 at *; omega
                simp only [hmin, if_false, if_true, law.rt v _ hv]
              · refine ⟨_, r2, hc'', ?_, rfl, Or.inl ⟨?_, ?_, rfl⟩⟩
                · rw [itemsLen_cons, itemsLen_cons] at hlen; simp only [itemCount] at hlen; omega
                · simp only; omega
                · intro _; rfl
        | run n v =>
          simp only [canon] at hc
          obtain ⟨-, hn2, hn63, -, hv, hc'⟩ := hc
          have hx : x = some v ∧ xs = List.replicate (n - 1) (some v) ++ Hexane.expand r := by
            simp only [Hexane.expand] at hxs
            obtain ⟨m, rfl⟩ : ∃ m, n = m + 1 := ⟨n - 1, by omega⟩
            simp only [List.replicate_succ, List.cons_append] at hxs
            exact ⟨(List.cons.inj hxs).1, by simpa using (List.cons.inj hxs).2⟩
          obtain ⟨rfl, rfl⟩ := hx
          have hd : s.data = encS (n : Int) ++ (c.pack v ++ writeItems c r) := by
            rw [hdata, writeItems_cons]; simp [writeItem]
          have hnr : -(two63 : Int) ≤ (n : Int) ∧ (n : Int) < (two63 : Int) := by unfold two63 at *; omega
          have hfill : rleFill c (s.data.length + 1) s =
              .ok (some { data := writeItems c r, last := some v, count := (n : Int), literal := false }) := by
            rw [rleFill]
            have hemp : s.data.isEmpty = false := by rw [hd]; exact isEmpty_append_left (encS_ne_nil _)
            have h1 : (n : Int) > 0 := by omega
            simp only [hc0, ne_eq, not_true_eq_false, if_false, hemp, Bool.false_eq_true]
            rw [hd, readS_encS _ _ hnr.1 hnr.2]
            simp only [h1, if_true, law.rt v _ hv]
          refine ⟨{ data := writeItems c r, last := some v, count := (n : Int) - 1, literal := false }, ?_, ?_⟩
          · unfold rleNext
            rw [hfill]
            have hmin : ¬ ((n : Int) = -(two63 : Int)) := by unfold two63 at *; omega
            simp only [hmin, if_false, Bool.false_eq_true]
          · refine ⟨_, r, hc', ?_, rfl, Or.inr ⟨rfl, rfl, n - 1, by omega, by omega, ?_, rfl⟩⟩
            · rw [itemsLen_cons] at hlen; simp only [itemCount] at hlen; omega
            · simp only; omega
        | null n =>
          simp only [canon] at hc
          obtain ⟨-, hn1, hn64, -, -, hc'⟩ := hc
          have hn63 : n < two63 := by rw [itemsLen_cons] at hlen; simp only [itemCount] at hlen; omega
          have hx : x = none ∧ xs = List.replicate (n - 1) none ++ Hexane.expand r := by
            simp only [Hexane.expand] at hxs
            obtain ⟨m, rfl⟩ : ∃ m, n = m + 1 := ⟨n - 1, by omega⟩
            simp only [List.replicate_succ, List.cons_append] at hxs
            exact ⟨(List.cons.inj hxs).1, by simpa using (List.cons.inj hxs).2⟩
          obtain ⟨rfl, rfl⟩ := hx
          have hd : s.data = encS 0 ++ (encU n ++ writeItems c r) := by
            rw [hdata, writeItems_cons]; simp [writeItem]
          have h0r : -(two63 : Int) ≤ (0 : Int) ∧ (0 : Int) < (two63 : Int) := by unfold two63; omega
          have hlen2 : 2 ≤ s.data.length := by
            rw [hd, List.length_append, List.length_append]
            have := Hexane.length_pos_of_ne_nil _ (encS_ne_nil 0)
            have := Hexane.length_pos_of_ne_nil _ (encU_ne_nil n)
            omega
          have hfill : rleFill c (s.data.length + 1) s =
              .ok (some { data := writeItems c r, last := none, count := (n : Int), literal := false }) := by
            obtain ⟨f, hf⟩ : ∃ f, s.data.length + 1 = (f + 1) + 1 := ⟨s.data.length - 1, by omega⟩
            rw [hf, rleFill]
            have hemp : s.data.isEmpty = false := by rw [hd]; exact isEmpty_append_left (encS_ne_nil _)
            have h1 : ¬ ((0 : Int) > 0) := by omega
            have h2 : ¬ ((0 : Int) < 0) := by omega
            simp only [hc0, ne_eq, not_true_eq_false, if_false, hemp, Bool.false_eq_true]
            rw [hd, readS_encS _ _ h0r.1 h0r.2]
            simp only [h1, if_false, h2, readU_encU n _ (by unfold two64 at hn64; exact hn64)]
            rw [rleFill, Hexane.toI64_small n hn63]
            have hnn : ¬ ((n : Int) = 0) := by omega
            simp only [ne_eq, hnn, not_false_eq_true, if_true]
          refine ⟨{ data := writeItems c r, last := none, count := (n : Int) - 1, literal := false }, ?_, ?_⟩
          · unfold rleNext
            rw [hfill]
            have hmin : ¬ ((n : Int) = -(two63 : Int)) := by unfold two63 at *; omega
            simp only [hmin, if_false, Bool.false_eq_true]
          · have hlen' : itemsLen r < two63 := by
              rw [itemsLen_cons] at hlen; simp only [itemCount] at hlen; omega
            by_cases hn1' : n = 1
            · subst hn1'
              refine ⟨_, r, hc', hlen', rfl, Or.inl ⟨?_, ?_, by simp⟩⟩
              · simp
              · intro h; simp at h
            · refine ⟨_, r, hc', hlen', rfl, Or.inr ⟨rfl, rfl, n - 1, by omega, by omega, ?_, rfl⟩⟩
              simp only; omega
  · -- inside a repeat / null run
    have hx : x = s.last ∧ xs = List.replicate (n - 1) s.last ++ Hexane.expand items := by
      obtain ⟨m, rfl⟩ : ∃ m, n = m + 1 := ⟨n - 1, by omega⟩
      simp only [List.replicate_succ, List.cons_append] at hxs
      exact ⟨(List.cons.inj hxs).1, by simpa using (List.cons.inj hxs).2⟩
    obtain ⟨rfl, rfl⟩ := hx
    have hcne : s.count ≠ 0 := by omega
    have hfill : rleFill c (s.data.length + 1) s = .ok (some s) := by
      rw [rleFill]; simp [hcne]
    have hmin : ¬ (s.count = -(two63 : Int)) := by unfold two63 at *; omega
    refine ⟨{ s with count := s.count - 1 }, ?_, ?_⟩
    · unfold rleNext
      rw [hfill]
      simp only [hmin, if_false, hlitf, Bool.false_eq_true]
    · by_cases hn1 : n = 1
      · subst hn1
        refine ⟨st, items, hc, hlen, hdata, Or.inl ⟨?_, ?_, by simp⟩⟩
        · simp only; rw [hcount, hl0]; rfl
        · intro h; omega
      · refine ⟨st, items, hc, hlen, hdata, Or.inr ⟨hl0, hlitf, n - 1, by omega, by omega, ?_, rfl⟩⟩
        simp only; omega

theorem rep_nil {α : Type} [DecidableEq α] {c : ValCodec α} {Valid : α → Prop}
    (s : RleSt α) (h : Rep c Valid s []) : rleNext c s = .ok (none, s) ∧ s.done = true := by
  obtain ⟨st, items, hc, hlen, hdata, hcase⟩ := h
  rcases hcase with ⟨hcount, hlit, hxs⟩ | ⟨hl0, hlitf, n, hn0, hn63, hcount, hxs⟩
  · have hitems : items = [] := by
      cases items with
      | nil => rfl
      | cons it r =>
        cases it with
        | litv v => simp [Hexane.expand] at hxs
        | run n v =>
          simp only [canon] at hc
          obtain ⟨m, hm⟩ : ∃ m, n = m + 1 := ⟨n - 1, by omega⟩
          simp [Hexane.expand, hm, List.replicate_succ] at hxs
        | null n =>
          simp only [canon] at hc
          obtain ⟨m, hm⟩ : ∃ m, n = m + 1 := ⟨n - 1, by omega⟩
          simp [Hexane.expand, hm, List.replicate_succ] at hxs
        | head k =>
          simp only [canon] at hc
          obtain ⟨-, hk1, -, -, hc'⟩ := hc
          cases r with
          | nil => simp only [canon] at hc'; omega
          | cons it2 r2 =>
            cases it2 with
            | litv v => simp [Hexane.expand] at hxs
            | head _ => simp only [canon] at hc'; omega
            | run _ _ => simp only [canon] at hc'; omega
            | null _ => simp only [canon] at hc'; omega
    subst hitems
    simp only [canon] at hc
    have hc0 : s.count = 0 := by rw [hcount, hc]; rfl
    have hd : s.data = [] := by rw [hdata]; rfl
    refine ⟨?_, by simp [RleSt.done, hd, hc0]⟩
    unfold rleNext
    rw [rleFill]
    simp [hc0, hd]
  · obtain ⟨m, hm⟩ : ∃ m, n = m + 1 := ⟨n - 1, by omega⟩
    simp [hm, List.replicate_succ] at hxs

theorem rep_not_done {α : Type} [DecidableEq α] {c : ValCodec α} {Valid : α → Prop}
    (s : RleSt α) (x : Option α) (xs : List (Option α)) (h : Rep c Valid s (x :: xs)) : s.done = false := by
  obtain ⟨st, items, hc, hlen, hdata, hcase⟩ := h
  rcases hcase with ⟨hcount, hlit, hxs⟩ | ⟨hl0, hlitf, n, hn0, hn63, hcount, hxs⟩
  · by_cases hk : st.litLeft > 0
    · have : s.count ≠ 0 := by omega
      simp [RleSt.done, this]
    · cases items with
      | nil => simp [Hexane.expand] at hxs
      | cons it r =>
        have hne : s.data ≠ [] := by
          rw [hdata, writeItems_cons]
          cases it with
          | litv v => simp only [canon] at hc; omega
          | head k => intro h; exact encS_ne_nil _ (List.append_eq_nil_iff.mp h).1
          | run n v =>
            intro h; simp only [writeItem] at h
            exact encS_ne_nil _ (List.append_eq_nil_iff.mp (List.append_eq_nil_iff.mp h).1).1
          | null n =>
            intro h; simp only [writeItem] at h
            exact encS_ne_nil _ (List.append_eq_nil_iff.mp (List.append_eq_nil_iff.mp h).1).1
        cases hd : s.data with
        | nil => exact absurd hd hne
        | cons a b => simp [RleSt.done, hd]
  · have : s.count ≠ 0 := by omega
    simp [RleSt.done, this]

theorem rep_init {α : Type} [DecidableEq α] {c : ValCodec α} {Valid : α → Prop}
    (xs : List (Option α)) (hlen : xs.length < two63) (hv : Hexane.ListValid Valid true xs) :
    Rep c Valid (RleSt.init (Hexane.rleEncode c xs)) xs := by
  refine ⟨{}, Hexane.itemsOf xs, Hexane.canon_itemsOf Valid true xs hlen hv, ?_, rfl, Or.inl ⟨rfl, ?_, ?_⟩⟩
  · rw [Hexane.itemsLen_itemsOf]; exact hlen
  · intro h; simp at h
  · exact (Hexane.expand_itemsOf xs).symm

/-- pull `n` values out of a column decoder (`None` = exhausted reads as null, as the row
    iterators treat it) -/
def drain {α : Type} (c : ValCodec α) : Nat → RleSt α → Res (List (Option α) × RleSt α)
  | 0, s => .ok ([], s)
  | n + 1, s =>
    match rleNext c s with
    | .err e => .err e
    | .panic p => .panic p
    | .ok (o, s1) =>
      match drain c n s1 with
      | .ok (os, s2) => .ok (o.bind id :: os, s2)
      | .err e => .err e
      | .panic p => .panic p

theorem drain_rep {α : Type} [DecidableEq α] {c : ValCodec α} {Valid : α → Prop} (law : Lawful c Valid) :
    ∀ (xs : List (Option α)) (s : RleSt α), Rep c Valid s xs →
      ∃ s', drain c xs.length s = .ok (xs, s') ∧ Rep c Valid s' [] := by
  intro xs
  induction xs with
  | nil => intro s h; exact ⟨s, rfl, h⟩
  | cons x xs ih =>
    intro s h
    obtain ⟨s1, h1, h2⟩ := rep_step law s x xs h
    obtain ⟨s2, h3, h4⟩ := ih s1 h2
    refine ⟨s2, ?_, h4⟩
    simp only [List.length_cons, drain, h1, h3]
    cases x <;> rfl

theorem drain_empty {α : Type} (c : ValCodec α) : ∀ n : Nat,
    drain c n (RleSt.init (α := α) []) = .ok (List.replicate n none, RleSt.init []) := by
  intro n
  induction n with
  | zero => rfl
  | succ n ih =>
    have h : rleNext c (RleSt.init (α := α) []) = .ok (none, RleSt.init []) := by
      unfold rleNext; rw [rleFill]; simp [RleSt.init]
    simp only [drain, h, ih, List.replicate_succ]
    rfl

theorem all_none_eq {α : Type} : ∀ xs : List (Option α), xs.all (fun x => x.isNone) = true →
    xs = List.replicate xs.length none := by
  intro xs
  induction xs with
  | nil => intro _; rfl
  | cons x xs ih =>
    intro h
    simp only [List.all_cons, Bool.and_eq_true] at h
    cases x with
    | none => simp only [List.length_cons, List.replicate_succ]; rw [← ih h.2]
    | some v => simp at h

/-- an RLE column written by the legacy encoder (`rleEnc`), read back value by value by the legacy
    `RleDecoder`, gives the values written, and the decoder is then exhausted -/
theorem rle_column_roundtrip {α : Type} [DecidableEq α] {c : ValCodec α} {Valid : α → Prop} (law : Lawful c Valid)
    (xs : List (Option α)) (hlen : xs.length < two63) (hv : Hexane.ListValid Valid true xs) :
    ∃ s', drain c xs.length (RleSt.init (rleEnc c xs)) = .ok (xs, s') ∧ s'.done = true := by
  unfold rleEnc
  by_cases hall : xs.all (fun x => x.isNone) = true
  · rw [if_pos hall]
    refine ⟨RleSt.init [], ?_, rfl⟩
    rw [drain_empty]
    rw [← all_none_eq xs hall]
  · rw [if_neg hall]
    obtain ⟨s', h1, h2⟩ := drain_rep law xs _ (rep_init xs hlen hv)
    exact ⟨s', h1, (rep_nil s' h2).2⟩

/-! ## `DeltaDecoder` on the `DeltaEncoder`'s output -/

def inI64 (z : Int) : Prop := -(two63 : Int) ≤ z ∧ z < (two63 : Int)

/-- no `saturating_sub` / `saturating_add` is hit: every value and every difference between
    successive non-null values fits an `i64` (op counters are below 2^32) -/
def NoSat : List (Option Int) → Int → Prop
  | [], _ => True
  | none :: r, a => NoSat r a
  | some v :: r, a => inI64 (v - a) ∧ inI64 v ∧ NoSat r v

theorem satAdd_id (a b : Int) (h : inI64 (a + b)) : satAdd a b = a + b := by
  unfold satAdd inI64 at *
  simp only
  split
  · omega
  · split
    · omega
    · rfl

def drainDelta : Nat → DeltaSt → Res (List (Option Int) × DeltaSt)
  | 0, s => .ok ([], s)
  | n + 1, s =>
    match deltaNext s with
    | .err e => .err e
    | .panic p => .panic p
    | .ok (o, s1) =>
      match drainDelta n s1 with
      | .ok (os, s2) => .ok (o.bind id :: os, s2)
      | .err e => .err e
      | .panic p => .panic p

theorem drainDelta_rep : ∀ (xs : List (Option Int)) (s : DeltaSt),
    Rep cI64 Hexane.validI64 s.rle (deltasSat xs s.abs) → NoSat xs s.abs →
    ∃ s', drainDelta xs.length s = .ok (xs, s') ∧ Rep cI64 Hexane.validI64 s'.rle [] := by
  intro xs
  induction xs with
  | nil => intro s h _; exact ⟨s, rfl, h⟩
  | cons x xs ih =>
    intro s h hs
    cases x with
    | none =>
      simp only [deltasSat] at h
      simp only [NoSat] at hs
      obtain ⟨r1, h1, h2⟩ := rep_step Hexane.lawful_i64 s.rle none _ h
      obtain ⟨s2, h3, h4⟩ := ih { s with rle := r1 } h2 hs
      refine ⟨s2, ?_, h4⟩
      simp only [List.length_cons, drainDelta, deltaNext, h1, h3]
      rfl
    | some v =>
      simp only [deltasSat] at h
      simp only [NoSat] at hs
      obtain ⟨hd, hv, hs'⟩ := hs
      have hsub : satSub v s.abs = v - s.abs := by
        unfold satSub; rw [satAdd_id _ _ (by simpa [Int.sub_eq_add_neg] using hd)]; omega
      rw [hsub] at h
      obtain ⟨r1, h1, h2⟩ := rep_step Hexane.lawful_i64 s.rle (some (v - s.abs)) _ h
      have hadd : satAdd s.abs (v - s.abs) = v := by
        rw [satAdd_id _ _ (by have : s.abs + (v - s.abs) = v := by omega
                              rw [this]; exact hv)]; omega
      obtain ⟨s2, h3, h4⟩ := ih ⟨r1, v⟩ h2 hs'
      refine ⟨s2, ?_, h4⟩
      simp only [List.length_cons, drainDelta, deltaNext, h1, hadd, h3]
      rfl

theorem deltasSat_length : ∀ (xs : List (Option Int)) (a : Int), (deltasSat xs a).length = xs.length := by
  intro xs
  induction xs with
  | nil => intro a; rfl
  | cons x xs ih => intro a; cases x <;> simp [deltasSat, ih]

theorem deltasSat_valid : ∀ (xs : List (Option Int)) (a : Int), NoSat xs a →
    Hexane.ListValid Hexane.validI64 true (deltasSat xs a) := by
  intro xs
  induction xs with
  | nil => intro a _ x hx; cases hx
  | cons x xs ih =>
    intro a hs y hy
    cases x with
    | none =>
      simp only [deltasSat] at hy
      cases hy with
      | head => rfl
      | tail _ hy' => exact ih a hs y hy'
    | some v =>
      simp only [deltasSat] at hy
      obtain ⟨hd, hv, hs'⟩ := hs
      cases hy with
      | head =>
        have hsub : satSub v a = v - a := by
          unfold satSub; rw [satAdd_id _ _ (by simpa [Int.sub_eq_add_neg] using hd)]; omega
        show Hexane.validI64 (satSub v a)
        rw [hsub]; exact hd
      | tail _ hy' => exact ih v hs' y hy'

theorem deltasSat_all_none : ∀ (xs : List (Option Int)) (a : Int),
    (deltasSat xs a).all (fun x => x.isNone) = xs.all (fun x => x.isNone) := by
  intro xs
  induction xs with
  | nil => intro a; rfl
  | cons x xs ih => intro a; cases x <;> simp [deltasSat, ih]

theorem drainDelta_empty : ∀ n : Nat,
    drainDelta n (DeltaSt.init []) = .ok (List.replicate n none, DeltaSt.init []) := by
  intro n
  induction n with
  | zero => rfl
  | succ n ih =>
    have h : rleNext cI64 (RleSt.init (α := Int) []) = .ok (none, RleSt.init []) := by
      unfold rleNext; rw [rleFill]; simp [RleSt.init]
    simp only [drainDelta, deltaNext, DeltaSt.init, h]
    have ih' := ih
    simp only [DeltaSt.init] at ih'
    rw [ih']
    rfl

/-- a delta column written by the legacy `DeltaEncoder`, read back by the legacy `DeltaDecoder` -/
theorem delta_column_roundtrip (xs : List (Option Int)) (hlen : xs.length < two63) (hs : NoSat xs 0) :
    ∃ s', drainDelta xs.length (DeltaSt.init (deltaEnc xs)) = .ok (xs, s') ∧ s'.rle.done = true := by
  unfold deltaEnc rleEnc
  by_cases hall : (deltasSat xs 0).all (fun x => x.isNone) = true
  · rw [if_pos hall]
    refine ⟨DeltaSt.init [], ?_, rfl⟩
    rw [drainDelta_empty]
    rw [deltasSat_all_none] at hall
    rw [← all_none_eq xs hall]
  · rw [if_neg hall]
    have hrep : Rep cI64 Hexane.validI64 (DeltaSt.init (Hexane.rleEncode cI64 (deltasSat xs 0))).rle (deltasSat xs (DeltaSt.init (Hexane.rleEncode cI64 (deltasSat xs 0))).abs) :=
      rep_init (deltasSat xs 0) (by rw [deltasSat_length]; exact hlen) (deltasSat_valid xs 0 hs)
    obtain ⟨s', h1, h2⟩ := drainDelta_rep xs _ hrep hs
    exact ⟨s', h1, (rep_nil s'.rle h2).2⟩


/-- a change accepted by `from_bytes` although it is not in canonical form: the sample with an unused
    actor `03` in its actor table (checksum valid) -/
def foreignChange : Bytes :=
  [133, 111, 74, 131, 154, 226, 219, 33, 1, 77, 0, 1, 1, 1, 1, 0, 1, 109, 2, 1, 2, 1, 3, 11, 1, 4, 2, 4, 19, 4, 21, 7, 52, 2, 66, 4,
   86, 4, 87, 4, 112, 4, 113, 2, 115, 2, 0, 2, 127, 0, 0, 2, 127, 2, 0, 2, 127, 0, 126, 1, 107, 1, 108, 0, 1, 2, 1, 125, 1, 4, 1,
   125, 54, 0, 19, 104, 195, 169, 7, 2, 0, 127, 1, 127, 1, 127, 1]

end AmVerif.ChangeCodec
