import AmVerif.Proofs.Myers
/-
  C27 helper: the `V` arrays are never indexed out of bounds and the two `assert!`s of
  `find_middle_snake` hold, i.e. `diff` never ends in `Res.panic`.
-/
namespace AmVerif.Myers
open AmVerif

/-- both arrays keep the shape `V::new(off)` gave them -/
def VInv (off : Nat) (v : V) : Prop := v.offset = off ∧ v.v.size = 2 * off

theorem V.get_some {off : Nat} {v : V} (hv : VInv off v) {k : Int} (h1 : -(off : Int) ≤ k) (h2 : k < off) :
    ∃ x, v.get k = some x := by
  obtain ⟨ho, hs⟩ := hv
  unfold V.get
  simp only [ho]
  have hn : ¬ (k + (off : Int) < 0) := by omega
  rw [if_neg hn]
  have : (k + (off : Int)).toNat < v.v.size := by omega
  exact ⟨v.v[(k + (off : Int)).toNat], by simp [this]⟩

theorem V.set_some {off : Nat} {v : V} (hv : VInv off v) {k : Int} (x : Nat) (h1 : -(off : Int) ≤ k) (h2 : k < off) :
    ∃ v', v.set k x = some v' ∧ VInv off v' := by
  obtain ⟨ho, hs⟩ := hv
  unfold V.set
  simp only [ho]
  have hn : ¬ (k + (off : Int) < 0) := by omega
  rw [if_neg hn]
  have : (k + (off : Int)).toNat < v.v.size := by omega
  rw [dif_pos this]
  refine ⟨_, rfl, ?_, ?_⟩ <;> simp [hs]

/-- a loop step that did not panic and kept the arrays in shape -/
def KGood (off : Nat) : KStep → Prop
  | .cont vf vb => VInv off vf ∧ VInv off vb
  | .found _ _ vf vb => VInv off vf ∧ VInv off vb
  | .panic _ => False

theorem rd_good {off : Nat} {v : V} (hv : VInv off v) {k : Int} (h1 : -(off : Int) ≤ k) (h2 : k < off)
    {f : Nat → KStep} (hf : ∀ x, KGood off (f x)) : KGood off (rd v k f) := by
  obtain ⟨x, hx⟩ := V.get_some hv h1 h2
  simp only [rd, hx]
  exact hf x

section
variable {α : Type} [BEq α]

theorem fwdStep_good (old : List α) (os oe : Nat) (new : List α) (ns ne n m : Nat) (delta : Int) (odd : Bool)
    {off d : Nat} {k : Int} {vf vb : V} (hf : VInv off vf) (hb : VInv off vb)
    (hd : d < off) (h2o : 2 ≤ off) (hk1 : -(d : Int) ≤ k) (hk2 : k ≤ d) :
    KGood off (fwdStep old os oe new ns ne n m delta odd d k vf vb) := by
  unfold fwdStep
  simp only
  -- the tail shared by the three ways of picking `x`
  have tail : ∀ x : Nat, KGood off
      (match vf.set k (if x < n ∧ 0 ≤ (x : Int) - k ∧ (x : Int) - k < (m : Int) then
          x + commonPrefixLen old (os + x) oe new (ns + ((x : Int) - k).toNat) ne else x) with
       | none => KStep.panic .sliceIndex
       | some vf =>
         if (odd && decide ((k - delta).natAbs + 1 ≤ d)) = true then
           rd vf k fun a => rd vb (-(k - delta)) fun b =>
             if a + b ≥ n then KStep.found ((x : Int) + os) ((x : Int) - k + ns) vf vb else KStep.cont vf vb
         else KStep.cont vf vb) := by
    intro x
    obtain ⟨vf', hset, hf'⟩ := V.set_some hf
      (if x < n ∧ 0 ≤ (x : Int) - k ∧ (x : Int) - k < (m : Int) then
          x + commonPrefixLen old (os + x) oe new (ns + ((x : Int) - k).toNat) ne else x)
      (k := k) (by omega) (by omega)
    rw [hset]
    simp only
    split
    · rename_i hc
      simp only [Bool.and_eq_true, decide_eq_true_eq] at hc
      apply rd_good hf' (by omega) (by omega)
      intro a
      apply rd_good hb (by omega) (by omega)
      intro b
      split <;> exact ⟨hf', hb⟩
    · exact ⟨hf', hb⟩
  split
  · rename_i hkd
    have hkd0 : k = -(d : Int) := by simpa using hkd
    apply rd_good hf (by omega) (by omega)
    exact tail
  · rename_i hkd
    have hkd' : k ≠ -(d : Int) := by simpa using hkd
    split
    · rename_i hkd2
      have hkd2' : k ≠ (d : Int) := by simpa using hkd2
      apply rd_good hf (by omega) (by omega)
      intro a
      apply rd_good hf (by omega) (by omega)
      intro b
      split
      · apply rd_good hf (by omega) (by omega)
        exact tail
      · apply rd_good hf (by omega) (by omega)
        intro a'
        exact tail (a' + 1)
    · apply rd_good hf (by omega) (by omega)
      intro a'
      exact tail (a' + 1)

theorem bwdStep_good (old : List α) (os : Nat) (new : List α) (ns n m : Nat) (delta : Int) (odd : Bool)
    {off d : Nat} {k : Int} {vf vb : V} (hf : VInv off vf) (hb : VInv off vb)
    (hd : d < off) (h2o : 2 ≤ off) (hk1 : -(d : Int) ≤ k) (hk2 : k ≤ d) :
    KGood off (bwdStep old os new ns n m delta odd d k vf vb) := by
  unfold bwdStep
  simp only
  have tail : ∀ x : Nat, KGood off
      (match vb.set k (x + if x < n ∧ 0 ≤ (x : Int) - k ∧ (x : Int) - k < (m : Int) then
          commonSuffixLen old os (os + n - x) new ns (ns + m - ((x : Int) - k).toNat) else 0) with
       | none => KStep.panic .sliceIndex
       | some vb =>
         if (!odd && decide ((k - delta).natAbs ≤ d)) = true then
           rd vb k fun a => rd vf (-(k - delta)) fun b =>
             if a + b ≥ n then
               KStep.found ((n : Int) - ((x + if x < n ∧ 0 ≤ (x : Int) - k ∧ (x : Int) - k < (m : Int) then
                  commonSuffixLen old os (os + n - x) new ns (ns + m - ((x : Int) - k).toNat) else 0 : Nat) : Int) + os)
                ((m : Int) - ((x : Int) - k + ((if x < n ∧ 0 ≤ (x : Int) - k ∧ (x : Int) - k < (m : Int) then
                  commonSuffixLen old os (os + n - x) new ns (ns + m - ((x : Int) - k).toNat) else 0 : Nat) : Int)) + ns) vf vb
             else KStep.cont vf vb
         else KStep.cont vf vb) := by
    intro x
    obtain ⟨vb', hset, hb'⟩ := V.set_some hb
      (x + if x < n ∧ 0 ≤ (x : Int) - k ∧ (x : Int) - k < (m : Int) then
          commonSuffixLen old os (os + n - x) new ns (ns + m - ((x : Int) - k).toNat) else 0)
      (k := k) (by omega) (by omega)
    rw [hset]
    simp only
    split
    · rename_i hc
      simp only [Bool.and_eq_true, Bool.not_eq_true', decide_eq_true_eq] at hc
      apply rd_good hb' (by omega) (by omega)
      intro a
      apply rd_good hf (by omega) (by omega)
      intro b
      split <;> exact ⟨hf, hb'⟩
    · exact ⟨hf, hb'⟩
  split
  · rename_i hkd
    have hkd0 : k = -(d : Int) := by simpa using hkd
    apply rd_good hb (by omega) (by omega)
    exact tail
  · rename_i hkd
    have hkd' : k ≠ -(d : Int) := by simpa using hkd
    split
    · rename_i hkd2
      have hkd2' : k ≠ (d : Int) := by simpa using hkd2
      apply rd_good hb (by omega) (by omega)
      intro a
      apply rd_good hb (by omega) (by omega)
      intro b
      split
      · apply rd_good hb (by omega) (by omega)
        exact tail
      · apply rd_good hb (by omega) (by omega)
        intro a'
        exact tail (a' + 1)
    · apply rd_good hb (by omega) (by omega)
      intro a'
      exact tail (a' + 1)
end

theorem kLoop_good {off d : Nat} (step : Int → V → V → KStep)
    (hstep : ∀ k vf vb, VInv off vf → VInv off vb → -(d : Int) ≤ k → k ≤ d → KGood off (step k vf vb)) :
    ∀ (i : Nat) (k : Int) (vf vb : V), VInv off vf → VInv off vb → k ≤ d → -(d : Int) ≤ k - 2 * ((i : Int) - 1) →
      KGood off (kLoop step i k vf vb) := by
  intro i
  induction i with
  | zero => intro k vf vb hf hb _ _; exact ⟨hf, hb⟩
  | succ i ih =>
    intro k vf vb hf hb hk1 hk2
    unfold kLoop
    have hg := hstep k vf vb hf hb (by omega) hk1
    cases hs : step k vf vb with
    | cont vf' vb' =>
      rw [hs] at hg
      simp only
      cases i with
      | zero => exact hg
      | succ j => exact ih (k - 2) vf' vb' hg.1 hg.2 (by omega) (by omega)
    | found x y vf' vb' => rw [hs] at hg; exact hg
    | panic p => rw [hs] at hg; exact hg.elim

section
variable {α : Type} [BEq α]

theorem dLoop_good (old : List α) (os oe : Nat) (new : List α) (ns ne n m : Nat) (delta : Int) (odd : Bool)
    {off : Nat} (h2o : 2 ≤ off) : ∀ (j d : Nat) (vf vb : V), VInv off vf → VInv off vb → d + j ≤ off →
      KGood off (dLoop old os oe new ns ne n m delta odd j d vf vb) := by
  intro j
  induction j with
  | zero => intro d vf vb hf hb _; exact ⟨hf, hb⟩
  | succ j ih =>
    intro d vf vb hf hb hd
    unfold dLoop
    have h1 := kLoop_good (off := off) (d := d) (fwdStep old os oe new ns ne n m delta odd d)
      (fun k vf vb hf hb h1 h2 => fwdStep_good old os oe new ns ne n m delta odd hf hb (by omega) h2o h1 h2)
      (d + 1) d vf vb hf hb (by omega) (by omega)
    cases hs1 : kLoop (fwdStep old os oe new ns ne n m delta odd d) (d + 1) d vf vb with
    | cont vf' vb' =>
      rw [hs1] at h1
      simp only
      have h2 := kLoop_good (off := off) (d := d) (bwdStep old os new ns n m delta odd d)
        (fun k vf vb hf hb h1 h2 => bwdStep_good old os new ns n m delta odd hf hb (by omega) h2o h1 h2)
        (d + 1) d vf' vb' h1.1 h1.2 (by omega) (by omega)
      cases hs2 : kLoop (bwdStep old os new ns n m delta odd d) (d + 1) d vf' vb' with
      | cont vf'' vb'' =>
        rw [hs2] at h2
        simp only
        exact ih (d + 1) vf'' vb'' h2.1 h2.2 (by omega)
      | found x y a b => rw [hs2] at h2; exact h2
      | panic p => rw [hs2] at h2; exact h2.elim
    | found x y a b => rw [hs1] at h1; exact h1
    | panic p => rw [hs1] at h1; exact h1.elim

theorem findMiddleSnake_good (old : List α) (os oe : Nat) (new : List α) (ns ne : Nat) {off : Nat} {vf vb : V}
    (hf : VInv off vf) (hb : VInv off vb) (hoff : maxD (oe - os) (ne - ns) ≤ off) (h2 : 2 ≤ off) :
    KGood off (findMiddleSnake old os oe new ns ne vf vb) := by
  unfold findMiddleSnake
  simp only
  obtain ⟨vf', hset1, hf'⟩ := V.set_some hf 0 (k := 1) (by omega) (by omega)
  obtain ⟨vb', hset2, hb'⟩ := V.set_some hb 0 (k := 1) (by omega) (by omega)
  rw [hset1]; simp only
  rw [hset2]; simp only
  have s1 : ¬ (vf'.v.size < maxD (oe - os) (ne - ns)) := by rw [hf'.2]; omega
  have s2 : ¬ (vb'.v.size < maxD (oe - os) (ne - ns)) := by rw [hb'.2]; omega
  rw [if_neg s1, if_neg s2]
  exact dLoop_good old os oe new ns ne _ _ _ _ h2 _ 0 vf' vb' hf' hb' (by omega)

/-- a `conquer` result that is not a panic and hands the arrays back in shape -/
def CGood (off : Nat) : Res (List Hook × V × V) → Prop
  | .ok r => VInv off r.2.1 ∧ VInv off r.2.2
  | .panic _ => False
  | _ => True

theorem maxD_mono {a b c d : Nat} (h : a + b ≤ c + d) : maxD a b ≤ maxD c d := by
  unfold maxD
  have : (a + b + 1) / 2 ≤ (c + d + 1) / 2 := Nat.div_le_div_right (by omega)
  omega

theorem conquer_good (old new : List α) {off : Nat} : ∀ (fuel os oe ns ne : Nat) (vf vb : V),
    VInv off vf → VInv off vb → maxD (oe - os) (ne - ns) ≤ off →
    CGood off (conquer old new fuel os oe ns ne vf vb) := by
  intro fuel
  induction fuel with
  | zero => intro os oe ns ne vf vb _ _ _; simp [conquer, CGood]
  | succ fuel ih =>
    intro os oe ns ne vf vb hf hb hoff
    unfold conquer
    simp only
    generalize commonPrefixLen old os oe new ns ne = p
    generalize commonSuffixLen old (os + p) oe new (ns + p) ne = s
    -- it is enough that the middle part is good
    suffices hmid : ∀ mid : Res (List Hook × V × V), CGood off mid →
        CGood off (mid.bind fun r => .ok ((if p > 0 then [Hook.equal os ns p] else []) ++ r.1 ++
          (if s > 0 then [Hook.equal (oe - s) (ne - s) s] else []), r.2.1, r.2.2)) by
      apply hmid
      simp only [isEmptyRange]
      by_cases c1 : os + p < oe - s <;> by_cases c2 : ns + p < ne - s
      · simp only [c1, c2, decide_true, Bool.not_true, Bool.and_self, Bool.false_eq_true, if_false]
        have hsub : maxD (oe - s - (os + p)) (ne - s - (ns + p)) ≤ off :=
          Nat.le_trans (maxD_mono (by omega)) hoff
        have h2 : 2 ≤ off := by
          have : 2 ≤ maxD (oe - s - (os + p)) (ne - s - (ns + p)) := by unfold maxD; omega
          omega
        have hg := findMiddleSnake_good old (os + p) (oe - s) new (ns + p) (ne - s) hf hb hsub h2
        cases hfm : findMiddleSnake old (os + p) (oe - s) new (ns + p) (ne - s) vf vb with
        | panic q => rw [hfm] at hg; exact hg.elim
        | cont vf' vb' => rw [hfm] at hg; exact hg
        | found x y vf' vb' =>
          rw [hfm] at hg
          simp only
          split
          · rename_i hc
            obtain ⟨hx1, hx2, hy1, hy2, _, _⟩ := hc
            have hxn : (x.toNat : Int) = x := Int.toNat_of_nonneg (by omega)
            have hyn : (y.toNat : Int) = y := Int.toNat_of_nonneg (by omega)
            have g1 := ih (os + p) x.toNat (ns + p) y.toNat vf' vb' hg.1 hg.2
              (Nat.le_trans (maxD_mono (by omega)) hoff)
            cases hc1 : conquer old new fuel (os + p) x.toNat (ns + p) y.toNat vf' vb' with
            | ok r1 =>
              rw [hc1] at g1
              simp only [Res.bind]
              have g2 := ih x.toNat (oe - s) y.toNat (ne - s) r1.2.1 r1.2.2 g1.1 g1.2
                (Nat.le_trans (maxD_mono (by omega)) hoff)
              cases hc2 : conquer old new fuel x.toNat (oe - s) y.toNat (ne - s) r1.2.1 r1.2.2 with
              | ok r2 => rw [hc2] at g2; exact g2
              | invalidSplit => trivial
              | outOfFuel => trivial
              | panic q => rw [hc2] at g2; exact g2.elim
            | invalidSplit => trivial
            | outOfFuel => trivial
            | panic q => rw [hc1] at g1; exact g1.elim
          · trivial
      · simp only [c1, c2, decide_true, decide_false, Bool.not_true, Bool.not_false, Bool.false_and,
          Bool.false_eq_true, if_false, if_true]
        exact ⟨hf, hb⟩
      · simp only [c1, c2, decide_true, decide_false, Bool.not_true, Bool.not_false, Bool.and_false,
          Bool.false_eq_true, if_false, if_true]
        exact ⟨hf, hb⟩
      · simp only [c1, c2, decide_false, Bool.not_false, Bool.and_self, if_true]
        exact ⟨hf, hb⟩
    intro mid hm
    cases mid with
    | ok r => exact hm
    | invalidSplit => trivial
    | outOfFuel => trivial
    | panic q => exact hm.elim

theorem Res.bind_ne_panic {β γ : Type} {x : Res β} {f : β → Res γ} {p : PanicSite}
    (hx : ∀ q, x ≠ .panic q) (hf : ∀ b, x = .ok b → f b ≠ .panic p) : x.bind f ≠ .panic p := by
  cases x with
  | ok b => exact hf b rfl
  | invalidSplit => intro h; cases h
  | outOfFuel => intro h; cases h
  | panic q => exact absurd rfl (hx q)

/-- `diff` never panics: every `V` index is in bounds and both asserts hold. -/
theorem diff_ne_panic (old new : List α) (p : PanicSite) : diff old new ≠ .panic p := by
  unfold diff diffFuel
  have hv : VInv (maxD old.length new.length) (V.new (maxD old.length new.length)) := by
    simp [VInv, V.new]
  have := conquer_good old new (old.length + new.length + 1) 0 old.length 0 new.length _ _ hv hv (by simp)
  apply Res.bind_ne_panic
  · intro q hq
    rw [hq] at this
    exact this
  · intro b _ h; cases h
end

end AmVerif.Myers
