import AmVerif.Proofs.Marks
/-
  Helper lemmas for C26: the op a cursor names is found again by the walk of `seek_list_opid`, at
  the start index of its element.
-/
namespace AmVerif.Crdt
open AmVerif

/-- decidable equality of outcomes (for evaluating the model on witnesses) -/
instance instDecEqOutcome {ε α : Type} [DecidableEq ε] [DecidableEq α] : DecidableEq (Outcome ε α) := fun a b =>
  match a, b with
  | .ok x, .ok y => if h : x = y then isTrue (by rw [h]) else isFalse (by intro h'; injection h' with h''; exact h h'')
  | .err x, .err y => if h : x = y then isTrue (by rw [h]) else isFalse (by intro h'; injection h' with h''; exact h h'')
  | .panic x, .panic y => if h : x = y then isTrue (by rw [h]) else isFalse (by intro h'; injection h' with h''; exact h h'')
  | .ok _, .err _ => isFalse (by intro h; cases h)
  | .ok _, .panic _ => isFalse (by intro h; cases h)
  | .err _, .ok _ => isFalse (by intro h; cases h)
  | .err _, .panic _ => isFalse (by intro h; cases h)
  | .panic _, .ok _ => isFalse (by intro h; cases h)
  | .panic _, .err _ => isFalse (by intro h; cases h)

/-! ### positions of rows -/

theorem idxOfId_of_mem {id : OpId} {rows : List Op} {r : Op} (hr : r ∈ rows) (hid : r.id = id) :
    ∃ k, idxOfId id rows = some k ∧ k < rows.length := by
  induction rows with
  | nil => cases hr
  | cons x xs ih =>
    unfold idxOfId
    by_cases hx : (x.id == id) = true
    · exact ⟨0, by simp [hx], by simp⟩
    · rcases List.mem_cons.mp hr with h | h
      · subst h; simp [hid] at hx
      · obtain ⟨k, hk, hlt⟩ := ih h
        exact ⟨k + 1, by simp [hx, hk], by simp; omega⟩

theorem idxOfId_append_left {id : OpId} {a : List Op} {k : Nat} (b : List Op) (h : idxOfId id a = some k) :
    idxOfId id (a ++ b) = some k := by
  induction a generalizing k with
  | nil => simp [idxOfId] at h
  | cons x xs ih =>
    simp only [List.cons_append, idxOfId] at h ⊢
    by_cases hx : (x.id == id) = true
    · simpa [hx] using h
    · simp only [hx, Bool.false_eq_true, if_false] at h ⊢
      cases hk : idxOfId id xs with
      | none => simp [hk] at h
      | some k' => rw [ih hk]; simpa [hk] using h

theorem idxOfId_append_right {id : OpId} {a : List Op} (b : List Op) (h : ∀ r ∈ a, r.id ≠ id) :
    idxOfId id (a ++ b) = (idxOfId id b).map (· + a.length) := by
  induction a with
  | nil => simp
  | cons x xs ih =>
    have hx : (x.id == id) = false := by simpa using h x (by simp)
    simp only [List.cons_append, idxOfId, hx, Bool.false_eq_true, if_false]
    rw [ih (fun r hr => h r (List.mem_cons_of_mem _ hr))]
    cases idxOfId id b <;> simp; omega

theorem idxOfId_lt {id : OpId} {rows : List Op} {k : Nat} (h : idxOfId id rows = some k) : k < rows.length := by
  induction rows generalizing k with
  | nil => simp [idxOfId] at h
  | cons x xs ih =>
    simp only [idxOfId] at h
    by_cases hx : (x.id == id) = true
    · simp [hx] at h; subst h; simp
    · simp only [hx, Bool.false_eq_true, if_false] at h
      cases hk : idxOfId id xs with
      | none => simp [hk] at h
      | some k' => simp [hk] at h; subst h; have := ih hk; simp; omega

theorem exists_of_idxOfId {id : OpId} {rows : List Op} {k : Nat} (h : idxOfId id rows = some k) :
    ∃ r ∈ rows, r.id = id := by
  induction rows generalizing k with
  | nil => simp [idxOfId] at h
  | cons y ys ih =>
    simp only [idxOfId] at h
    by_cases hy : (y.id == id) = true
    · exact ⟨y, by simp, by simpa using hy⟩
    · simp only [hy, Bool.false_eq_true, if_false] at h
      cases hk : idxOfId id ys with
      | none => simp [hk] at h
      | some k2 =>
        obtain ⟨r, hr, hid⟩ := ih hk
        exact ⟨r, List.mem_cons_of_mem _ hr, hid⟩

/-! ### rows, registers and groups over the same list of insert ops -/

/-- rows of a list of insert ops -/
def rowsOf (ops : List Op) (obj : ObjId) (l : List Op) : List Op :=
  l.flatMap (fun e => e :: updateRows ops obj e.id)

/-- `seqRegs` over a list of insert ops -/
def regsOf (ops : List Op) (obj : ObjId) (l : List Op) : List (OpId × List Op) :=
  l.filterMap (fun e =>
    if e.isMark then none else
    match elemRegOps ops obj e.id with
    | [] => none
    | r => some (e.id, r))

theorem objRows_eq (ops : List Op) (obj : ObjId) : objRows ops obj = rowsOf ops obj (rgaOrder ops obj) := rfl
theorem seqRegs_eq (ops : List Op) (obj : ObjId) : seqRegs ops obj = regsOf ops obj (rgaOrder ops obj) := rfl

/-- a visible value op of element `e` is the element's insert op (same id) or one of its update rows -/
theorem reg_mem_rows {ops : List Op} {obj : ObjId} {e o : Op} (h : o ∈ elemRegOps ops obj e.id) :
    ∃ r ∈ e :: updateRows ops obj e.id, r.id = o.id := by
  have hm : o ∈ ops.filter (fun o => o.obj == obj && o.elem == some e.id && visible ops o) := mem_sortById.mp h
  simp only [List.mem_filter, Bool.and_eq_true, beq_iff_eq] at hm
  obtain ⟨ho, ⟨hobj, helem⟩, hvis⟩ := hm
  by_cases hins : o.insert = true
  · simp [Op.elem, hins] at helem
    exact ⟨e, by simp, helem.symm⟩
  · refine ⟨o, List.mem_cons_of_mem _ ?_, rfl⟩
    have hkey : o.key = .elem e.id := by
      simp only [Op.elem, hins, Bool.false_eq_true, if_false] at helem
      cases hk : o.key with
      | elem x => simp [hk] at helem; rw [helem]
      | map k => simp [hk] at helem
      | head => simp [hk] at helem
    have hdel : o.isDel = false := by
      have : o.isValue = true := by
        simp only [visible, Bool.and_eq_true] at hvis; exact hvis.1
      cases ha : o.action <;> simp_all [Op.isValue, Op.isDel]
    apply mem_sortById.mpr
    simp [List.mem_filter, ho, hobj, hins, hkey, hdel]

theorem groupsFrom_cons_reg (ops : List Op) (obj : ObjId) (p0 : Nat) {e : Op} (es : List Op) (hm : ¬ e.isMark = true)
    {r0 : Op} {rs : List Op} (hreg : elemRegOps ops obj e.id = r0 :: rs) :
    groupsFrom ops obj p0 (e :: es) =
      (p0, p0 + (1 + (updateRows ops obj e.id).length), r0 :: rs) ::
        groupsFrom ops obj (p0 + (1 + (updateRows ops obj e.id).length)) es := by
  simp [groupsFrom, hm, hreg]

theorem seekSlowGo_cons (wf : Op → Nat) (x : Op) (pos startPos endPos : Nat) (reg : List Op)
    (rest : List (Nat × Nat × List Op)) (idx : Nat) :
    seekSlowGo wf x pos ((startPos, endPos, reg) :: rest) idx =
      if endPos > pos then some ⟨x, pos, idx, decide (startPos ≤ pos)⟩
      else seekSlowGo wf x pos rest (idx + lastW wf reg) := by
  simp [seekSlowGo]

/-- ids of the rows are pairwise distinct (the op store holds every op once) -/
def RowsDistinct (rows : List Op) : Prop := rows.Pairwise (fun a b => a.id ≠ b.id)

/-- `x` names a row (a present or overwritten value op) of the element that `seek_ops_by_index` finds at
    unit index `i`: the walk of `seek_list_opid` answers that element's start index and "visible". -/
theorem seek_tracks_aux (wf : Op → Nat) (ops : List Op) (obj : ObjId) (x : Op) :
    ∀ (l : List Op) (p0 idx0 start0 i : Nat) {eid : OpId} {reg : List Op} {start : Nat},
      RowsDistinct (rowsOf ops obj l) →
      seekByIndexW wf (regsOf ops obj l) i start0 = some (eid, reg, start) →
      (∀ e ∈ l, e.id = eid → ∃ r ∈ e :: updateRows ops obj e.id, r.id = x.id) →
      ∃ k, idxOfId x.id (rowsOf ops obj l) = some k ∧
        seekSlowGo wf x (p0 + k) (groupsFrom ops obj p0 l) idx0 = some ⟨x, p0 + k, idx0 + (start - start0), true⟩ ∧
        start0 ≤ start := by
  intro l
  induction l with
  | nil => intro p0 idx0 start0 i eid reg start _ h; simp [regsOf, seekByIndexW] at h
  | cons e es ih =>
    intro p0 idx0 start0 i eid reg start hd h hrow
    have hrows : rowsOf ops obj (e :: es) = (e :: updateRows ops obj e.id) ++ rowsOf ops obj es := by
      simp [rowsOf]
    have hd2 : RowsDistinct (rowsOf ops obj es) := by
      unfold RowsDistinct at hd ⊢
      rw [hrows] at hd
      exact (List.pairwise_append.mp hd).2.1
    have hrow2 : ∀ e' ∈ es, e'.id = eid → ∃ r ∈ e' :: updateRows ops obj e'.id, r.id = x.id :=
      fun e' he' => hrow e' (List.mem_cons_of_mem _ he')
    -- skipping the element `e`: the op lies in a later element
    have skip : ∀ idx1 start1,
        seekByIndexW wf (regsOf ops obj es) i start1 = some (eid, reg, start) →
        (∀ k', seekSlowGo wf x (p0 + (1 + (updateRows ops obj e.id).length) + k')
            (groupsFrom ops obj (p0 + (1 + (updateRows ops obj e.id).length)) es) idx1
          = seekSlowGo wf x (p0 + ((1 + (updateRows ops obj e.id).length) + k')) (groupsFrom ops obj p0 (e :: es)) idx0) →
        idx1 + (start - start1) = idx0 + (start - start0) → start0 ≤ start1 →
        ∃ k, idxOfId x.id (rowsOf ops obj (e :: es)) = some k ∧
          seekSlowGo wf x (p0 + k) (groupsFrom ops obj p0 (e :: es)) idx0 = some ⟨x, p0 + k, idx0 + (start - start0), true⟩ ∧
          start0 ≤ start := by
      intro idx1 start1 h1 hgo hidx hle
      obtain ⟨k', hk', hs', hle'⟩ := ih (p0 + (1 + (updateRows ops obj e.id).length)) idx1 start1 i hd2 h1 hrow2
      have hno : ∀ r ∈ e :: updateRows ops obj e.id, r.id ≠ x.id := by
        intro r hr heq
        unfold RowsDistinct at hd
        rw [hrows] at hd
        have hcross := (List.pairwise_append.mp hd).2.2
        obtain ⟨r', hr', hid'⟩ := exists_of_idxOfId hk'
        exact hcross r hr r' hr' (by rw [heq, hid'])
      refine ⟨(1 + (updateRows ops obj e.id).length) + k', ?_, ?_, by omega⟩
      · rw [hrows, idxOfId_append_right _ hno, hk']
        simp; omega
      · rw [← hgo k', ← hidx]
        have : p0 + (1 + (updateRows ops obj e.id).length) + k' = p0 + (1 + (updateRows ops obj e.id).length + k') := by omega
        rw [← this]
        exact hs'
    by_cases hm : e.isMark = true
    · have hregs : regsOf ops obj (e :: es) = regsOf ops obj es := by simp [regsOf, hm]
      rw [hregs] at h
      apply skip idx0 start0 h
      · intro k'; simp [groupsFrom, hm, Nat.add_assoc]
      · rfl
      · exact Nat.le_refl _
    · cases hreg : elemRegOps ops obj e.id with
      | nil =>
        have hregs : regsOf ops obj (e :: es) = regsOf ops obj es := by simp [regsOf, hm, hreg]
        rw [hregs] at h
        apply skip idx0 start0 h
        · intro k'; simp [groupsFrom, hm, hreg, Nat.add_assoc]
        · rfl
        · exact Nat.le_refl _
      | cons r0 rs =>
        have hregs : regsOf ops obj (e :: es) = (e.id, r0 :: rs) :: regsOf ops obj es := by
          simp [regsOf, hm, hreg]
        rw [hregs, seekByIndexW] at h
        by_cases hlt : i < start0 + lastW wf (r0 :: rs)
        · simp only [hlt, if_true, Option.some.injEq, Prod.mk.injEq] at h
          obtain ⟨h1, h2, h3⟩ := h
          subst h1 h2 h3
          obtain ⟨r, hr, hrid⟩ := hrow e (by simp) rfl
          obtain ⟨k, hk, hklt⟩ := idxOfId_of_mem hr hrid
          refine ⟨k, ?_, ?_, Nat.le_refl _⟩
          · rw [hrows]; exact idxOfId_append_left _ hk
          · have hlen : (e :: updateRows ops obj e.id).length = 1 + (updateRows ops obj e.id).length := by
              simp; omega
            have : p0 + (1 + (updateRows ops obj e.id).length) > p0 + k := by omega
            rw [groupsFrom_cons_reg ops obj p0 es hm hreg, seekSlowGo_cons, if_pos this]
            simp
        · simp only [hlt, if_false] at h
          apply skip (idx0 + lastW wf (r0 :: rs)) (start0 + lastW wf (r0 :: rs)) h
          · intro k'
            have : ¬ (p0 + (1 + (updateRows ops obj e.id).length) > p0 + (1 + (updateRows ops obj e.id).length + k')) := by omega
            rw [groupsFrom_cons_reg ops obj p0 es hm hreg, seekSlowGo_cons, if_neg this, Nat.add_assoc]
          · have := (ih (p0 + (1 + (updateRows ops obj e.id).length)) 0 (start0 + lastW wf (r0 :: rs)) i hd2 h hrow2)
            obtain ⟨_, _, _, hle'⟩ := this
            omega
          · omega

theorem findRow_of_idx {rows : List Op} {id : OpId} {k : Nat} (h : idxOfId id rows = some k) :
    ∃ r, findRow rows id = some (k, r) ∧ r.id = id := by
  have hlt := idxOfId_lt h
  unfold findRow
  rw [h]
  refine ⟨rows[k], by simp [List.getElem?_eq_getElem hlt], ?_⟩
  induction rows generalizing k with
  | nil => simp at hlt
  | cons y ys ih =>
    simp only [idxOfId] at h
    by_cases hy : (y.id == id) = true
    · simp [hy] at h; subst h; simpa using hy
    · simp only [hy, Bool.false_eq_true, if_false] at h
      cases hk : idxOfId id ys with
      | none => simp [hk] at h
      | some k2 =>
        simp [hk] at h; subst h
        have := ih hk (idxOfId_lt hk)
        simpa using this

/-- the rows of element `eid` (its insert op and the non-insert ops keyed on it) contain an op with id `xid`:
    `xid` names a value op — current or overwritten — of that element -/
def NamesRowOf (ops : List Op) (obj : ObjId) (xid eid : OpId) : Prop :=
  ∀ e ∈ rgaOrder ops obj, e.id = eid → ∃ r ∈ e :: updateRows ops obj e.id, r.id = xid

/-- the walk of `seek_list_opid` finds any value op of a visible element at the element's start index and
    reports the element as visible -/
theorem seekSlow_tracks (wf : Op → Nat) (ops : List Op) (obj : ObjId) (i : Nat) (xid : OpId)
    {eid : OpId} {reg : List Op} {start : Nat}
    (hd : RowsDistinct (objRows ops obj))
    (h : seekByIndexW wf (seqRegs ops obj) i 0 = some (eid, reg, start))
    (hx : NamesRowOf ops obj xid eid) :
    ∃ f, seekSlow wf ops obj xid = some f ∧ f.index = start ∧ f.visible = true ∧ f.op.id = xid := by
  rw [seqRegs_eq] at h
  rw [objRows_eq] at hd
  let x0 : Op := ⟨xid, obj, .head, false, .del, []⟩
  obtain ⟨k, hk, _, _⟩ := seek_tracks_aux wf ops obj x0 (rgaOrder ops obj) 0 0 0 i hd h hx
  obtain ⟨r, hfind, hrid⟩ := findRow_of_idx hk
  obtain ⟨k2, hk2, hgo, _⟩ := seek_tracks_aux wf ops obj r (rgaOrder ops obj) 0 0 0 i hd h (by rw [hrid]; exact hx)
  have hkk : k2 = k := by
    rw [hrid] at hk2
    have hk' : idxOfId xid (rowsOf ops obj (rgaOrder ops obj)) = some k := hk
    rw [hk'] at hk2; injection hk2 with h'; exact h'.symm
  subst hkk
  refine ⟨⟨r, k2, start, true⟩, ?_, rfl, rfl, hrid⟩
  unfold seekSlow
  rw [objRows_eq, hfind]
  simpa using hgo

/-- the winning value op of the element found at index `i` names a row of that element -/
theorem winner_namesRow {wf : Op → Nat} {ops : List Op} {obj : ObjId} {i : Nat}
    {eid : OpId} {reg : List Op} {start : Nat} {o : Op}
    (h : seekByIndexW wf (seqRegs ops obj) i 0 = some (eid, reg, start)) (hlast : reg.getLast? = some o) :
    NamesRowOf ops obj o.id eid := by
  intro e he heid
  -- `reg` is the register of the element with id `eid`
  rw [seqRegs_eq] at h
  have key : ∀ (l : List Op) (s0 : Nat), seekByIndexW wf (regsOf ops obj l) i s0 = some (eid, reg, start) →
      reg = elemRegOps ops obj eid := by
    intro l
    induction l with
    | nil => intro s0 h; simp [regsOf, seekByIndexW] at h
    | cons e' es ih =>
      intro s0 h
      by_cases hm : e'.isMark = true
      · have : regsOf ops obj (e' :: es) = regsOf ops obj es := by simp [regsOf, hm]
        rw [this] at h; exact ih s0 h
      · cases hreg : elemRegOps ops obj e'.id with
        | nil =>
          have : regsOf ops obj (e' :: es) = regsOf ops obj es := by simp [regsOf, hm, hreg]
          rw [this] at h; exact ih s0 h
        | cons r0 rs =>
          have : regsOf ops obj (e' :: es) = (e'.id, r0 :: rs) :: regsOf ops obj es := by simp [regsOf, hm, hreg]
          rw [this, seekByIndexW] at h
          split at h
          · simp only [Option.some.injEq, Prod.mk.injEq] at h
            rw [← h.1, ← h.2.1, hreg]
          · exact ih _ h
  have hreg := key _ 0 h
  have : o ∈ elemRegOps ops obj e.id := by
    rw [heid, ← hreg]; exact List.mem_of_getLast? hlast
  exact reg_mem_rows this

end AmVerif.Crdt
