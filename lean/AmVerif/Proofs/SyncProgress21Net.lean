import AmVerif.Proofs.SyncProgress21Pair
import AmVerif.Proofs.SyncNetTie
/-
  C21, n peers, part 2: the network `Net` (what the `sync` engine executes).  Steps: local edit,
  generate, deliver, drop a link (messages in flight lost), (re)connect with fresh or persisted
  states.  Every reachable network satisfies `NetInv` (documents well formed and made of known
  changes; every connected pair satisfies the weak session invariant `SessW`), hence:
  a network in which every link is quiet is converged on every connected component.
-/
namespace AmVerif.Sync.Prog
open AmVerif AmVerif.Sync

/-! ### the steps -/

inductive NetStep : Net → Net → Prop
  /-- a local edit at `p`: the new change depends on the heads of `p` and its hash is new -/
  | edit (net : Net) (p : Nat) (ch : Change) (isFp : Bool) :
      ch.deps = (net.docs p).heads → ch.hash ∉ net.known.map (·.hash) →
      NetStep net (net.edit p ch isFp)
  | gen (net : Net) (a b : Nat) : a ≠ b → net.up a b = true → NetStep net (net.gen a b).1
  | deliver (net : Net) (a b : Nat) : a ≠ b → net.up a b = true → NetStep net (net.deliver a b).1
  /-- the connection drops, whatever is in flight is lost -/
  | drop (net : Net) (a b : Nat) : a ≠ b → NetStep net (net.dropLink a b)
  /-- (re)connect, each side with a fresh state or with `decode (encode old)` -/
  | connect (net : Net) (a b : Nat) (ca cb : Conn) : a ≠ b → ca ≠ .readOnly → cb ≠ .readOnly →
      NetStep net (net.connect a b ca cb false)

/-- starting networks: any number of peers with arbitrary well-formed histories over a common set
    of known changes (shared, divergent, forked), nobody connected yet -/
structure NetStart (net : Net) : Prop where
  kinj : KInj net.known
  docs : ∀ p, DocOK net.known (net.docs p)
  down : ∀ a b, net.up a b = false
  legacy : ∀ a b, net.legacy a b = false

inductive NetReachable : Net → Prop
  | init (net : Net) : NetStart net → NetReachable net
  | step (net net' : Net) : NetReachable net → NetStep net net' → NetReachable net'

structure NetInv (net : Net) : Prop where
  kinj : KInj net.known
  docs : ∀ p, DocOK net.known (net.docs p)
  upSymm : ∀ a b, net.up a b = net.up b a
  legacy : ∀ a b, net.legacy a b = false
  sess : ∀ a b, a ≠ b → net.up a b = true → SessW net.known (net.toCfg a b)

/-! ### both documents of a pair grow (or stay) -/

theorem SessW.grow2 {K : List Change} {c : Cfg} {dA' dB' : Doc} (s : SessW K c)
    (oa : DocOK K c.docA) (oa' : DocOK K dA') (subA : ∀ x ∈ c.docA.applied, x ∈ dA'.applied)
    (ob : DocOK K c.docB) (ob' : DocOK K dB') (subB : ∀ x ∈ c.docB.applied, x ∈ dB'.applied) :
    SessW K { c with docA := dA', docB := dB' } := by
  have s1 := s.growA oa oa' subA
  exact s1.growB (c := { c with docA := dA' }) ob ob' subB

/-! ### generate -/

theorem gen_frame (net : Net) (a b : Nat) :
    (net.gen a b).1.docs = net.docs ∧ (net.gen a b).1.known = net.known ∧
    (net.gen a b).1.up = net.up ∧ (net.gen a b).1.legacy = net.legacy ∧
    (∀ x y, ¬ (x = a ∧ y = b) → (net.gen a b).1.st x y = net.st x y ∧
      (net.gen a b).1.link x y = net.link x y) := by
  unfold Net.gen
  simp only
  split <;>
    (refine ⟨rfl, rfl, rfl, rfl, ?_⟩
     intro x y hxy
     simp [Net.setSt, Net.setLink, hxy])

theorem NetInv.gen {net : Net} (inv : NetInv net) (a b : Nat) (hab : a ≠ b)
    (hup : net.up a b = true) : NetInv (net.gen a b).1 := by
  obtain ⟨f1, f2, f3, f4, f5⟩ := gen_frame net a b
  have hmain : SessW net.known ((net.gen a b).1.toCfg a b) := by
    rw [Net.toCfg_gen net a b hab (inv.legacy a b)]
    exact (inv.sess a b hab hup).gen net.fp (inv.docs a)
  refine ⟨by rw [f2]; exact inv.kinj, by rw [f1, f2]; exact inv.docs, by rw [f3]; exact inv.upSymm,
    by rw [f4]; exact inv.legacy, ?_⟩
  intro x y hxy hupxy
  rw [f2]
  rw [f3] at hupxy
  by_cases h1 : x = a ∧ y = b
  · obtain ⟨rfl, rfl⟩ := h1; exact hmain
  · by_cases h2 : x = b ∧ y = a
    · obtain ⟨rfl, rfl⟩ := h2
      exact hmain.swap
    · have e : (net.gen a b).1.toCfg x y = net.toCfg x y := by
        have g1 := f5 x y h1
        have g2 := f5 y x (fun h => h2 ⟨h.2, h.1⟩)
        simp only [Net.toCfg, f1, g1.1, g1.2, g2.1, g2.2]
      rw [e]; exact inv.sess x y hxy hupxy

/-! ### deliver -/

theorem deliver_nil {net : Net} {a b : Nat} (h : net.link a b = []) : (net.deliver a b).1 = net := by
  unfold Net.deliver; rw [h]

theorem deliver_frame (net : Net) (a b : Nat) (m : Message) (rest : List Message)
    (hl : net.link a b = m :: rest) :
    (net.deliver a b).1.known = net.known ∧ (net.deliver a b).1.up = net.up ∧
    (net.deliver a b).1.legacy = net.legacy ∧
    (∀ p, (net.deliver a b).1.docs p =
      if p = b then (receive (net.docs b) (net.st b a) m).1 else net.docs p) ∧
    (∀ x y, ¬ (x = b ∧ y = a) → (net.deliver a b).1.st x y = net.st x y) ∧
    (∀ x y, ¬ (x = a ∧ y = b) → (net.deliver a b).1.link x y = net.link x y) := by
  unfold Net.deliver
  rw [hl]
  refine ⟨rfl, rfl, rfl, ?_, ?_, ?_⟩
  · intro p; simp [Net.setSt, Net.setDoc, Net.setLink]
  · intro x y hxy; simp [Net.setSt, Net.setDoc, Net.setLink, hxy]
  · intro x y hxy; simp [Net.setSt, Net.setDoc, Net.setLink, hxy]

theorem NetInv.deliver {net : Net} (inv : NetInv net) (a b : Nat) (hab : a ≠ b)
    (hup : net.up a b = true) : NetInv (net.deliver a b).1 := by
  cases hl : net.link a b with
  | nil => rw [deliver_nil hl]; exact inv
  | cons m rest =>
    obtain ⟨f1, f2, f3, f4, f5, f6⟩ := deliver_frame net a b m rest hl
    have sab := inv.sess a b hab hup
    have hmK : ∀ x ∈ m.changes, x ∈ net.known :=
      sab.a.msgsK m (by show m ∈ net.link a b; rw [hl]; simp)
    have hdocB : DocOK net.known (receive (net.docs b) (net.st b a) m).1 :=
      (inv.docs b).recv _ m hmK
    have hdocs : ∀ p, DocOK net.known ((net.deliver a b).1.docs p) := by
      intro p; rw [f4]; split
      · exact hdocB
      · exact inv.docs p
    have hsub : ∀ p, ∀ x ∈ (net.docs p).applied, x ∈ ((net.deliver a b).1.docs p).applied := by
      intro p x hx; rw [f4]; split
      · rename_i hp; subst hp
        exact (recvDoc_spec (net.docs p) _ m (inv.docs p).wf).2.1 x hx
      · exact hx
    have hmain : SessW net.known ((net.deliver a b).1.toCfg a b) := by
      rw [Net.toCfg_deliver net a b hab m rest hl]
      exact sab.recv (c := net.toCfg a b) hl (inv.docs b)
    refine ⟨by rw [f1]; exact inv.kinj, by rw [f1]; exact hdocs, by rw [f2]; exact inv.upSymm,
      by rw [f3]; exact inv.legacy, ?_⟩
    intro x y hxy hupxy
    rw [f1]
    rw [f2] at hupxy
    by_cases h1 : x = a ∧ y = b
    · obtain ⟨rfl, rfl⟩ := h1; exact hmain
    · by_cases h2 : x = b ∧ y = a
      · obtain ⟨rfl, rfl⟩ := h2; exact hmain.swap
      · -- another pair: states and links untouched, the documents may have grown
        have e : (net.deliver a b).1.toCfg x y =
            { net.toCfg x y with docA := (net.deliver a b).1.docs x,
                                 docB := (net.deliver a b).1.docs y } := by
          simp only [Net.toCfg, f5 x y h2, f5 y x (fun h => h1 ⟨h.2, h.1⟩), f6 x y h1,
            f6 y x (fun h => h2 ⟨h.2, h.1⟩)]
        rw [e]
        exact (inv.sess x y hxy hupxy).grow2 (inv.docs x) (hdocs x) (hsub x) (inv.docs y) (hdocs y)
          (hsub y)

/-! ### edit -/

theorem NetInv.edit {net : Net} (inv : NetInv net) (p : Nat) (ch : Change) (isFp : Bool)
    (hdeps : ch.deps = (net.docs p).heads) (hnew : ch.hash ∉ net.known.map (·.hash)) :
    NetInv (net.edit p ch isFp) := by
  have hK : (net.edit p ch isFp).known = ch :: net.known := rfl
  have hdocsEq : ∀ q, (net.edit p ch isFp).docs q =
      if q = p then (net.docs p).applyLocal ch else net.docs q := by
    intro q; simp [Net.edit, Net.setDoc]
  have subK : ∀ x ∈ net.known, x ∈ ch :: net.known := fun x hx => List.mem_cons_of_mem _ hx
  have hnotin : ∀ x ∈ net.known, x.hash ≠ ch.hash := by
    intro x hx e; exact hnew (e ▸ mem_hashes_of_mem hx)
  have hlocal : DocOK (ch :: net.known) ((net.docs p).applyLocal ch) := by
    have o := inv.docs p
    refine ⟨⟨⟨?_, ?_, o.wf.topo⟩, o.wf.qnodup, ?_⟩, ?_, fun x hx => subK x (o.queue x hx)⟩
    · intro h hh; rw [hdeps] at hh; exact Doc.heads_sub_hashes hh
    · intro hm
      obtain ⟨y, hy, hyh⟩ := List.mem_map.mp hm
      exact hnotin y (o.applied y hy) hyh
    · intro q hq hm
      simp only [Doc.hashes, Doc.applyLocal, List.map_cons, List.mem_cons] at hm
      rcases hm with h | h
      · exact hnotin q (o.queue q hq) h
      · exact o.wf.qfresh q hq h
    · intro x hx
      simp only [Doc.applyLocal, List.mem_cons] at hx
      rcases hx with rfl | hx
      · simp
      · exact subK x (o.applied x hx)
  have hdocs : ∀ q, DocOK (ch :: net.known) ((net.edit p ch isFp).docs q) := by
    intro q; rw [hdocsEq]; split
    · exact hlocal
    · exact (inv.docs q).mono subK
  have hsub : ∀ q, ∀ x ∈ (net.docs q).applied, x ∈ ((net.edit p ch isFp).docs q).applied := by
    intro q x hx; rw [hdocsEq]; split
    · rename_i hq; subst hq; exact List.mem_cons_of_mem _ hx
    · exact hx
  refine ⟨?_, by rw [hK]; exact hdocs, inv.upSymm, inv.legacy, ?_⟩
  · rw [hK]
    intro x hx y hy hxy
    rcases List.mem_cons.mp hx with rfl | hx' <;> rcases List.mem_cons.mp hy with rfl | hy'
    · rfl
    · exact absurd hxy.symm (hnotin y hy')
    · exact absurd hxy (hnotin x hx')
    · exact inv.kinj x hx' y hy' hxy
  · intro x y hxy hupxy
    rw [hK]
    have e : (net.edit p ch isFp).toCfg x y =
        { net.toCfg x y with docA := (net.edit p ch isFp).docs x,
                             docB := (net.edit p ch isFp).docs y } := rfl
    rw [e]
    exact ((inv.sess x y hxy hupxy).mono subK).grow2 ((inv.docs x).mono subK) (hdocs x) (hsub x)
      ((inv.docs y).mono subK) (hdocs y) (hsub y)

/-! ### drop and (re)connect -/

theorem NetInv.drop {net : Net} (inv : NetInv net) (a b : Nat) : NetInv (net.dropLink a b) := by
  refine ⟨inv.kinj, inv.docs, ?_, inv.legacy, ?_⟩
  · intro x y
    simp only [Net.dropLink, Net.setUp, Net.setLink]
    by_cases h : (x = a ∧ y = b) ∨ (x = b ∧ y = a)
    · have h' : (y = a ∧ x = b) ∨ (y = b ∧ x = a) := by
        rcases h with h | h
        · exact Or.inr ⟨h.2, h.1⟩
        · exact Or.inl ⟨h.2, h.1⟩
      simp [h, h']
    · have h' : ¬ ((y = a ∧ x = b) ∨ (y = b ∧ x = a)) := by
        intro h''; apply h
        rcases h'' with h'' | h''
        · exact Or.inr ⟨h''.2, h''.1⟩
        · exact Or.inl ⟨h''.2, h''.1⟩
      simp [h, h']; exact inv.upSymm x y
  · intro x y hxy hup
    simp only [Net.dropLink, Net.setUp, Net.setLink] at hup
    by_cases h : (x = a ∧ y = b) ∨ (x = b ∧ y = a)
    · simp [h] at hup
    · simp only [h, if_false] at hup
      have h1 : ¬ (x = a ∧ y = b) := fun h' => h (Or.inl h')
      have h2 : ¬ (x = b ∧ y = a) := fun h' => h (Or.inr h')
      have h3 : ¬ (y = a ∧ x = b) := fun h' => h2 ⟨h'.2, h'.1⟩
      have h4 : ¬ (y = b ∧ x = a) := fun h' => h1 ⟨h'.2, h'.1⟩
      have e : (net.dropLink a b).toCfg x y = net.toCfg x y := by
        simp [Net.toCfg, Net.dropLink, Net.setUp, Net.setLink, h1, h2, h3, h4]
      rw [e]; exact inv.sess x y hxy hup

theorem reconnState_new (old : State) (c : Conn) (h : c ≠ .readOnly) :
    (Net.reconnState old c).inFlight = false ∧ (Net.reconnState old c).theirHeads = none ∧
    (Net.reconnState old c).lastSentHeads = [] ∧ (Net.reconnState old c).readOnly = false ∧
    (Net.reconnState old c).needsReset = false := by
  cases c with
  | fresh => exact ⟨rfl, rfl, rfl, rfl, rfl⟩
  | readOnly => exact absurd rfl h
  | persisted =>
    unfold Net.reconnState
    cases hd : State.decode old.encode with
    | ok s => exact decode_new hd
    | error e => exact ⟨rfl, rfl, rfl, rfl, rfl⟩

theorem NetInv.connect {net : Net} (inv : NetInv net) (a b : Nat) (ca cb : Conn) (hab : a ≠ b)
    (ha : ca ≠ .readOnly) (hb : cb ≠ .readOnly) : NetInv (net.connect a b ca cb false) := by
  have hba : b ≠ a := fun h => hab h.symm
  refine ⟨inv.kinj, inv.docs, ?_, ?_, ?_⟩
  · intro x y
    simp only [Net.connect, Net.setUp, Net.setLegacy, Net.setSt, Net.setLink]
    by_cases h : (x = a ∧ y = b) ∨ (x = b ∧ y = a)
    · have h' : (y = a ∧ x = b) ∨ (y = b ∧ x = a) := by
        rcases h with h | h
        · exact Or.inr ⟨h.2, h.1⟩
        · exact Or.inl ⟨h.2, h.1⟩
      simp [h, h']
    · have h' : ¬ ((y = a ∧ x = b) ∨ (y = b ∧ x = a)) := by
        intro h''; apply h
        rcases h'' with h'' | h''
        · exact Or.inr ⟨h''.2, h''.1⟩
        · exact Or.inl ⟨h''.2, h''.1⟩
      simp [h, h']; exact inv.upSymm x y
  · intro x y
    simp only [Net.connect, Net.setUp, Net.setLegacy, Net.setSt, Net.setLink]
    split
    · rfl
    · exact inv.legacy x y
  · intro x y hxy hup
    by_cases h1 : x = a ∧ y = b
    · obtain ⟨rfl, rfl⟩ := h1
      apply SessW.of_new
      · have := reconnState_new (net.st x y) ca ha
        simpa [Net.toCfg, Net.connect, Net.setUp, Net.setLegacy, Net.setSt, Net.setLink, hab, hba]
          using this
      · have := reconnState_new (net.st y x) cb hb
        simpa [Net.toCfg, Net.connect, Net.setUp, Net.setLegacy, Net.setSt, Net.setLink, hab, hba]
          using this
      · simp [Net.toCfg, Net.connect, Net.setUp, Net.setLegacy, Net.setSt, Net.setLink, hab, hba]
      · simp [Net.toCfg, Net.connect, Net.setUp, Net.setLegacy, Net.setSt, Net.setLink, hab, hba]
    · by_cases h2 : x = b ∧ y = a
      · obtain ⟨rfl, rfl⟩ := h2
        apply SessW.of_new
        · have := reconnState_new (net.st x y) cb hb
          simpa [Net.toCfg, Net.connect, Net.setUp, Net.setLegacy, Net.setSt, Net.setLink, hab, hba]
            using this
        · have := reconnState_new (net.st y x) ca ha
          simpa [Net.toCfg, Net.connect, Net.setUp, Net.setLegacy, Net.setSt, Net.setLink, hab, hba]
            using this
        · simp [Net.toCfg, Net.connect, Net.setUp, Net.setLegacy, Net.setSt, Net.setLink, hab, hba]
        · simp [Net.toCfg, Net.connect, Net.setUp, Net.setLegacy, Net.setSt, Net.setLink, hab, hba]
      · have h3 : ¬ (y = a ∧ x = b) := fun h' => h2 ⟨h'.2, h'.1⟩
        have h4 : ¬ (y = b ∧ x = a) := fun h' => h1 ⟨h'.2, h'.1⟩
        have e : (net.connect a b ca cb false).toCfg x y = net.toCfg x y := by
          simp [Net.toCfg, Net.connect, Net.setUp, Net.setLegacy, Net.setSt, Net.setLink, h1, h2, h3, h4]
        have hup' : net.up x y = true := by
          simpa [Net.connect, Net.setUp, Net.setLegacy, Net.setSt, Net.setLink, h1, h2] using hup
        rw [e]; exact inv.sess x y hxy hup'

/-! ### every reachable network satisfies the invariant -/

theorem NetInv.of_start {net : Net} (h : NetStart net) : NetInv net :=
  ⟨h.kinj, h.docs, fun a b => by rw [h.down a b, h.down b a], h.legacy,
   fun a b _ hup => by rw [h.down a b] at hup; cases hup⟩

theorem NetInv.step {net net' : Net} (h : NetStep net net') (inv : NetInv net) : NetInv net' := by
  cases h with
  | edit p ch isFp h1 h2 => exact inv.edit p ch isFp h1 h2
  | gen a b hab hup => exact inv.gen a b hab hup
  | deliver a b hab hup => exact inv.deliver a b hab hup
  | drop a b _ => exact inv.drop a b
  | connect a b ca cb hab ha hb => exact inv.connect a b ca cb hab ha hb

theorem NetInv.of_reachable {net : Net} (h : NetReachable net) : NetInv net := by
  induction h with
  | init net hs => exact NetInv.of_start hs
  | step net net' _ hs ih => exact ih.step hs

/-! ### quiet networks are converged on connected components -/

theorem mem_pairs {n a b : Nat} (ha : a < n) (hb : b < n) (hab : a ≠ b) : (a, b) ∈ Net.pairs n := by
  unfold Net.pairs
  simp only [List.mem_flatMap, List.mem_range, List.mem_map, List.mem_filter]
  exact ⟨a, ha, b, ⟨hb, by simpa using fun h => hab h.symm⟩, rfl⟩

theorem ne_of_mem_pairs {n : Nat} {p : Nat × Nat} (h : p ∈ Net.pairs n) : p.1 ≠ p.2 := by
  unfold Net.pairs at h
  simp only [List.mem_flatMap, List.mem_range, List.mem_map, List.mem_filter] at h
  obtain ⟨a, _, b, ⟨_, hb⟩, rfl⟩ := h
  intro e
  have : b = a := e.symm
  simp [this] at hb

/-- every connected link between peers of the network is empty and neither end has anything to
    say (`generate_sync_message` returns `None` in both directions) -/
def NetQuiescent (net : Net) : Prop :=
  ∀ p ∈ Net.pairs net.n, net.up p.1 p.2 = true →
    net.link p.1 p.2 = [] ∧ (generate net.fp (net.docs p.1) (net.st p.1 p.2)).2 = none

instance (net : Net) : Decidable (NetQuiescent net) := by
  unfold NetQuiescent; infer_instance

/-- `b` can be reached from `a` over connected links between peers of the network -/
inductive Connected (net : Net) : Nat → Nat → Prop
  | refl (a : Nat) : Connected net a a
  | step (a b c : Nat) : Connected net a b → b < net.n → c < net.n → b ≠ c → net.up b c = true →
      Connected net a c

theorem pair_quiescent {net : Net} (inv : NetInv net) (hq : NetQuiescent net) {a b : Nat}
    (ha : a < net.n) (hb : b < net.n) (hab : a ≠ b) (hup : net.up a b = true) :
    Quiescent net.fp (net.toCfg a b) := by
  have hup' : net.up b a = true := by rw [← inv.upSymm a b]; exact hup
  obtain ⟨l1, g1⟩ := hq (a, b) (mem_pairs ha hb hab) hup
  obtain ⟨l2, g2⟩ := hq (b, a) (mem_pairs hb ha (fun h => hab h.symm)) hup'
  exact ⟨l1, l2, g1, g2⟩

theorem link_converged {net : Net} (inv : NetInv net) (hq : NetQuiescent net) {a b : Nat}
    (ha : a < net.n) (hb : b < net.n) (hab : a ≠ b) (hup : net.up a b = true) :
    ∀ x, x ∈ (net.docs a).applied ↔ x ∈ (net.docs b).applied :=
  sameSet_of_quiescentW inv.kinj (c := net.toCfg a b) (inv.docs a) (inv.docs b)
    (inv.sess a b hab hup) (pair_quiescent inv hq ha hb hab hup)

theorem component_converged {net : Net} (inv : NetInv net) (hq : NetQuiescent net) {a b : Nat}
    (hc : Connected net a b) : ∀ x, x ∈ (net.docs a).applied ↔ x ∈ (net.docs b).applied := by
  induction hc with
  | refl => intro x; exact Iff.rfl
  | step b c _ hb hc' hbc hup ih =>
    intro x
    exact (ih x).trans (link_converged inv hq hb hc' hbc hup x)

/-! ### the round-robin rounds of the engine are step sequences -/

theorem NetReachable.deliverAll (a b : Nat) (hab : a ≠ b) : ∀ (k : Nat) (net : Net) (evs : List Net.Event),
    net.up a b = true → NetReachable net → NetReachable (Net.deliverAll a b k net evs).1
  | 0, _, _, _, h => h
  | k + 1, net, evs, hup, h => by
    unfold Net.deliverAll
    cases hd : net.deliver a b with
    | mk net' om =>
      cases om with
      | none => exact h
      | some m =>
        simp only
        have hstep : NetReachable net' := by
          have := NetReachable.step _ _ h (NetStep.deliver net a b hab hup)
          rw [hd] at this; exact this
        have hup' : net'.up a b = true := by
          have : net' = (net.deliver a b).1 := by rw [hd]
          rw [this]
          cases hl : net.link a b with
          | nil => rw [deliver_nil hl]; exact hup
          | cons m' rest => rw [(deliver_frame net a b m' rest hl).2.1]; exact hup
        exact NetReachable.deliverAll a b hab k net' _ hup' hstep

theorem deliverAll_up (a b : Nat) : ∀ (k : Nat) (net : Net) (evs : List Net.Event),
    (Net.deliverAll a b k net evs).1.up = net.up ∧ (Net.deliverAll a b k net evs).1.n = net.n
  | 0, _, _ => ⟨rfl, rfl⟩
  | k + 1, net, evs => by
    unfold Net.deliverAll
    cases hd : net.deliver a b with
    | mk net' om =>
      cases om with
      | none => exact ⟨rfl, rfl⟩
      | some m =>
        simp only
        have e : net' = (net.deliver a b).1 := by rw [hd]
        have hup : net'.up = net.up ∧ net'.n = net.n := by
          rw [e]
          cases hl : net.link a b with
          | nil => rw [deliver_nil hl]; exact ⟨rfl, rfl⟩
          | cons m' rest =>
            refine ⟨(deliver_frame net a b m' rest hl).2.1, ?_⟩
            unfold Net.deliver; rw [hl]; rfl
        obtain ⟨i1, i2⟩ := deliverAll_up a b k net' (evs ++ [Net.Event.delivered a b m (net'.docs b) (net'.st b a)])
        exact ⟨i1.trans hup.1, i2.trans hup.2⟩

theorem gen_n (net : Net) (a b : Nat) : (net.gen a b).1.n = net.n := by
  unfold Net.gen
  simp only
  split <;> rfl

theorem NetReachable.quiesceRound : ∀ (ps : List (Nat × Nat)) (net : Net) (evs : List Net.Event)
    (busy : Bool), (∀ p ∈ ps, p.1 ≠ p.2) → NetReachable net →
    NetReachable (Net.quiesceRound ps net evs busy).1 ∧
      (Net.quiesceRound ps net evs busy).1.n = net.n
  | [], _, _, _, _, h => ⟨h, rfl⟩
  | (a, b) :: ps, net, evs, busy, hne, h => by
    have hab : a ≠ b := hne (a, b) (by simp)
    have hne' : ∀ p ∈ ps, p.1 ≠ p.2 := fun p hp => hne p (List.mem_cons_of_mem _ hp)
    unfold Net.quiesceRound
    split
    · rename_i hup
      simp only
      have h1 : NetReachable (net.gen a b).1 := NetReachable.step _ _ h (NetStep.gen net a b hab hup)
      have hup1 : (net.gen a b).1.up a b = true := by rw [(gen_frame net a b).2.2.1]; exact hup
      have h2 := NetReachable.deliverAll a b hab ((net.gen a b).1.link a b).length (net.gen a b).1
        (evs ++ [Net.Event.generated a b (net.gen a b).2 ((net.gen a b).1.st a b)]) hup1 h1
      have hn2 := (deliverAll_up a b ((net.gen a b).1.link a b).length (net.gen a b).1
        (evs ++ [Net.Event.generated a b (net.gen a b).2 ((net.gen a b).1.st a b)])).2
      obtain ⟨i1, i2⟩ := NetReachable.quiesceRound ps _ _ _ hne' h2
      exact ⟨i1, i2.trans (hn2.trans (gen_n net a b))⟩
    · exact NetReachable.quiesceRound ps net evs busy hne' h

/-- whatever the `q` step of the engine computes (round-robin rounds over all connected ordered
    pairs: generate, then deliver everything queued in that direction) is reachable -/
theorem NetReachable.quiesce : ∀ (k used : Nat) (net : Net) (evs : List Net.Event),
    NetReachable net → NetReachable (Net.quiesce k used net evs).1
  | 0, _, _, _, h => h
  | k + 1, used, net, evs, h => by
    unfold Net.quiesce
    obtain ⟨i1, i2⟩ := NetReachable.quiesceRound (Net.pairs net.n) net evs false
      (fun p hp => ne_of_mem_pairs hp) h
    cases hr : Net.quiesceRound (Net.pairs net.n) net evs false with
    | mk net' rest =>
      cases rest with
      | mk evs' busy =>
        simp only
        rw [hr] at i1
        split
        · exact NetReachable.quiesce k (used + 1) net' evs' i1
        · exact i1

end AmVerif.Sync.Prog
