import AmVerif.Proofs.DocCodecPlaced
/-
  C11 (document chunk), reconstruction: `builders_index` on well-formed change rows.

  The builders are sorted by (actor, seq).  When the counter ranges of one actor's changes increase with
  the sequence number (`RSorted`: what a history made of contiguous, causally ordered changes gives),
  the comparator of `builders_index` is monotone along the list and the loop of
  `slice::binary_search_by` ends on THE builder whose range holds the id.
-/
namespace AmVerif.DocCodec
open AmVerif AmVerif.Crdt AmVerif.ChangeCodec

/-- a builder's range lies before another's: smaller actor, or the same actor and all counters below -/
def RLt (a b : Nat × Nat × Nat) : Prop := a.1 < b.1 ∨ (a.1 = b.1 ∧ a.2.2 < b.2.1)

/-- the ranges are in order, and none is inverted (`start ≤ max_op + 1`) -/
def RSorted (l : List (Nat × Nat × Nat)) : Prop := l.Pairwise RLt ∧ ∀ p ∈ l, p.2.1 ≤ p.2.2 + 1

theorem builderCmp_covers {b : Builder} {id : IdI} (h : Covers b.range id) : builderCmp b id = 1 := by
  obtain ⟨h1, h2, h3⟩ := h
  simp only [Builder.range] at h1 h2 h3
  unfold builderCmp
  rw [if_neg (by omega), if_neg (by omega), if_neg (by omega), if_neg (by omega)]

/-- before the covering builder the comparator never says Greater -/
theorem cmp_before {a b : Builder} {id : IdI} (hlt : RLt a.range b.range) (ha : a.start ≤ a.maxOp + 1)
    (hc : Covers b.range id) : builderCmp a id ≠ 2 := by
  obtain ⟨h1, h2, h3⟩ := hc
  simp only [Builder.range] at h1 h2 h3
  unfold RLt at hlt
  simp only [Builder.range] at hlt
  unfold builderCmp
  rcases hlt with h | ⟨h, h'⟩
  · rw [if_pos (by omega)]; decide
  · rw [if_neg (by omega), if_neg (by omega), if_neg (by omega), if_pos (by omega)]; decide

/-- behind it always -/
theorem cmp_after {a b : Builder} {id : IdI} (hlt : RLt b.range a.range)
    (hc : Covers b.range id) : builderCmp a id = 2 := by
  obtain ⟨h1, h2, h3⟩ := hc
  simp only [Builder.range] at h1 h2 h3
  unfold RLt at hlt
  simp only [Builder.range] at hlt
  unfold builderCmp
  rcases hlt with h | ⟨h, h'⟩
  · rw [if_neg (by omega), if_pos (by omega)]
  · rw [if_neg (by omega), if_neg (by omega), if_pos (by omega)]

theorem rsorted_get {bs : List Builder} (hs : RSorted (bs.map Builder.range)) {i j : Nat} {a b : Builder}
    (hi : bs[i]? = some a) (hj : bs[j]? = some b) (hij : i < j) : RLt a.range b.range := by
  have hp := List.pairwise_map.1 hs.1
  rw [List.pairwise_iff_getElem] at hp
  obtain ⟨hi', rfl⟩ := List.getElem?_eq_some_iff.1 hi
  obtain ⟨hj', rfl⟩ := List.getElem?_eq_some_iff.1 hj
  exact hp i j hi' hj' hij

theorem rsorted_start {bs : List Builder} (hs : RSorted (bs.map Builder.range)) {b : Builder} (hb : b ∈ bs) :
    b.start ≤ b.maxOp + 1 :=
  hs.2 b.range (List.mem_map.2 ⟨b, hb, rfl⟩)

/-- the loop of `binary_search_by` ends on the covering builder -/
theorem bsearchLoop_spec {bs : List Builder} (hs : RSorted (bs.map Builder.range)) {t : Nat} {b : Builder}
    (ht : bs[t]? = some b) {id : IdI} (hc : Covers b.range id) :
    ∀ (fuel base size : Nat), base ≤ t → t < base + size → base + size ≤ bs.length → size ≤ fuel →
      bsearchLoop bs id fuel base size = t := by
  intro fuel
  induction fuel with
  | zero => intro base size h1 h2 _ h4; omega
  | succ fuel ih =>
    intro base size h1 h2 h3 h4
    unfold bsearchLoop
    split
    · rename_i hsz
      simp only []
      have hmid : base + size / 2 < bs.length := by omega
      obtain ⟨bm, hm⟩ : ∃ bm, bs[base + size / 2]? = some bm := ⟨_, List.getElem?_eq_getElem hmid⟩
      rw [hm]
      simp only []
      have hmem : bm ∈ bs := List.mem_of_getElem? hm
      split
      · rename_i hc2
        -- the probe says Greater: it lies behind the covering builder
        have : t < base + size / 2 := by
          rcases Nat.lt_or_ge t (base + size / 2) with h | h
          · exact h
          · exfalso
            rcases Nat.lt_or_ge (base + size / 2) t with h' | h'
            · exact cmp_before (rsorted_get hs hm ht h') (rsorted_start hs hmem) hc hc2
            · have : base + size / 2 = t := by omega
              rw [this, ht] at hm
              cases hm
              rw [builderCmp_covers hc] at hc2
              cases hc2
        exact ih base (size - size / 2) h1 (by omega) (by omega) (by omega)
      · rename_i hc2
        have : base + size / 2 ≤ t := by
          rcases Nat.lt_or_ge t (base + size / 2) with h | h
          · exact absurd (cmp_after (rsorted_get hs ht hm h) hc) hc2
          · exact h
        exact ih (base + size / 2) (size - size / 2) this (by omega) (by omega) (by omega)
    · omega

/-- **`builders_index` finds the covering builder** -/
theorem builderIdx_sorted {bs : List Builder} (hs : RSorted (bs.map Builder.range)) {t : Nat} {b : Builder}
    (ht : bs[t]? = some b) {id : IdI} (hc : Covers b.range id) : builderIdx bs id = some t := by
  unfold builderIdx
  have hlen : t < bs.length := (List.getElem?_eq_some_iff.1 ht).1
  have hne : bs.isEmpty = false := by
    cases bs with
    | nil => simp at hlen
    | cons _ _ => rfl
  rw [hne]
  simp only [Bool.false_eq_true, if_false]
  rw [bsearchLoop_spec hs ht hc (bs.length + 1) 0 bs.length (Nat.zero_le _) (by omega) (by omega) (by omega)]
  rw [ht]
  simp only [builderCmp_covers hc, if_true]

/-- two builders of a sorted list that cover one id are the same entry -/
theorem covers_unique {bs : List Builder} (hs : RSorted (bs.map Builder.range)) {i j : Nat} {a b : Builder}
    (hi : bs[i]? = some a) (hj : bs[j]? = some b) {id : IdI} (ha : Covers a.range id) (hb : Covers b.range id) :
    i = j := by
  have key : ∀ {i j : Nat} {a b : Builder}, bs[i]? = some a → bs[j]? = some b → Covers a.range id →
      Covers b.range id → ¬ i < j := by
    intro i j a b hi hj ha hb hij
    have hlt := rsorted_get hs hi hj hij
    obtain ⟨a1, a2, a3⟩ := ha
    obtain ⟨b1, b2, b3⟩ := hb
    unfold RLt at hlt
    simp only [Builder.range] at hlt a1 a2 a3 b1 b2 b3
    omega
  have h1 := key hi hj ha hb
  have h2 := key hj hi hb ha
  omega

/-! ### the builders of `mkBuilders` are sorted -/

/-- the order `try_from_change_meta` sorts by -/
def SLt (a b : Builder) : Prop := a.actor < b.actor ∨ (a.actor = b.actor ∧ a.seq < b.seq)

theorem insertBuilder_sorted (b : Builder) {l : List Builder} (hl : l.Pairwise SLt)
    (hd : ∀ x ∈ l, ¬ (x.actor = b.actor ∧ x.seq = b.seq)) : (insertBuilder b l).Pairwise SLt := by
  induction l with
  | nil => exact List.pairwise_singleton _ _
  | cons x xs ih =>
    unfold insertBuilder
    rw [List.pairwise_cons] at hl
    split
    · rename_i hlt
      refine List.pairwise_cons.2 ⟨?_, List.pairwise_cons.2 hl⟩
      intro y hy
      cases hy with
      | head => exact hlt
      | tail _ hy' =>
        have hxy := hl.1 y hy'
        unfold SLt at hxy ⊢
        rcases hlt with h | ⟨h, h'⟩ <;> rcases hxy with g | ⟨g, g'⟩
        · left; omega
        · left; omega
        · left; omega
        · right; exact ⟨by omega, by omega⟩
    · rename_i hnlt
      refine List.pairwise_cons.2 ⟨?_, ih hl.2 (fun y hy => hd y (List.mem_cons_of_mem _ hy))⟩
      intro y hy
      rcases mem_insertBuilder hy with rfl | hy'
      · have hne := hd x (List.mem_cons_self ..)
        unfold SLt
        rcases Nat.lt_trichotomy x.actor y.actor with h | h | h
        · exact Or.inl h
        · right
          refine ⟨h, ?_⟩
          rcases Nat.lt_trichotomy x.seq y.seq with g | g | g
          · exact g
          · exact absurd ⟨h, g⟩ hne
          · exact absurd (Or.inr ⟨h.symm, g⟩) hnlt
        · exact absurd (Or.inl h) hnlt
      · exact hl.1 y hy'

end AmVerif.DocCodec
