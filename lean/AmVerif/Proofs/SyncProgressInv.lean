import AmVerif.Proofs.SyncProgressGraph
import AmVerif.Proofs.SyncReadOnly
/-
  Progress half of C20, part 3: three more invariants of every reachable configuration of the
  two-peer system (on top of `Inv`), and the field-by-field effect of a receive.
  * whatever a peer remembers in `sent_hashes` has arrived at the other peer (applied or queued) or
    is inside a message still in flight — nothing is lost on a FIFO link;
  * no queued change is ready (`apply_changes` drains to a fixed point);
  * nobody claims to be read-only: messages in flight do not carry READ_ONLY and `peer_read_only`
    is false.
-/
namespace AmVerif.Sync.Prog
open AmVerif AmVerif.Sync

/-! ### the state after a receive, field by field -/

theorem recvState_fields (d : Doc) (s : State) (m : Message) :
    (recvState d s m).inFlight = false ∧
    (recvState d s m).theirHeads = some m.heads ∧
    (recvState d s m).theirHave = some m.have_ ∧
    (recvState d s m).theirNeed = some m.need ∧
    (recvState d s m).haveResponded = s.haveResponded ∧
    (recvState d s m).readOnly = s.readOnly ∧
    (recvState d s m).needsReset = s.needsReset := by
  unfold recvState recvShared
  simp only
  refine ⟨?_, ?_, ?_, ?_, ?_, ?_, ?_⟩ <;>
    first
    | trivial
    | (split <;> split <;> split <;> (try split) <;> (unfold recvFlags; split <;> simp))

theorem recvState_sent_sub (d : Doc) (s : State) (m : Message) :
    ∀ h ∈ (recvState d s m).sentHashes, h ∈ s.sentHashes := by
  intro h hh
  unfold recvState at hh
  simp only at hh
  have h1 := recvShared_sent_sub _ _ _ h hh
  have hfl : ∀ x ∈ (recvFlags { s with inFlight := false } m.flags).sentHashes, x ∈ s.sentHashes :=
    recvFlags_sent _ _
  split at h1 <;>
    (simp only [Doc.filterChanges] at h1
     split at h1 <;> exact hfl h (List.mem_filter.mp h1).1)

theorem recvState_lastSentHeads (d : Doc) (s : State) (m : Message)
    (h : s.lastSentHeads = m.heads) : (recvState d s m).lastSentHeads = m.heads := by
  have hfl : (recvFlags { s with inFlight := false } m.flags).lastSentHeads = m.heads := by
    unfold recvFlags; split <;> simpa using h
  unfold recvState recvShared
  simp only
  split <;> split <;> split <;> (try split) <;> simp_all

theorem recvState_peerReadOnly (d : Doc) (s : State) (m : Message) (f : Nat) (hf : m.flags = some f) :
    (recvState d s m).peerReadOnly = flagSet f FLAG_READ_ONLY :=
  receive_peerReadOnly d s m f hf

/-- the document after a receive by a read-write peer -/
theorem recvDoc_rw (d : Doc) (s : State) (m : Message) (hro : s.readOnly = false) :
    recvDoc d (recvFlags { s with inFlight := false } m.flags) m =
      if m.chunks != 0 then d.applyChanges m.changes else d := by
  unfold recvDoc
  rw [recvFlags_readOnly]
  simp [hro]

theorem recvDoc_has (d : Doc) (s : State) (m : Message) {h : Hash} (hh : hasB d h = true) :
    hasB (recvDoc d s m) h = true := by
  unfold recvDoc
  split
  · exact applyChanges_has d m.changes hh
  · exact hh

theorem recvDoc_stuck (d : Doc) (s : State) (m : Message) (hs : Stuck d.applied d.queue) :
    Stuck (recvDoc d s m).applied (recvDoc d s m).queue := by
  unfold recvDoc
  split
  · exact applyChanges_stuck d m.changes
  · exact hs

/-! ### what a builder names, it carries -/

theorem mkBuilder_carries (fp : Hash → Bool) (d : Doc) (s : State) :
    ∀ h ∈ (mkBuilder fp d s).hashes,
      (mkBuilder fp d s).chunks ≠ 0 ∧ ∃ x ∈ (mkBuilder fp d s).changes, x.hash = h := by
  have hdoc : ∀ h ∈ (Builder.ofDoc d).hashes,
      (Builder.ofDoc d).chunks ≠ 0 ∧ ∃ x ∈ (Builder.ofDoc d).changes, x.hash = h := by
    intro h hh
    simp only [Builder.ofDoc, List.mem_reverse] at hh
    obtain ⟨x, hx, hxh⟩ := Doc.mem_hashes.mp hh
    refine ⟨by simp [Builder.ofDoc], x, ?_, hxh⟩
    simp only [Builder.ofDoc, List.mem_append, List.mem_reverse]
    exact Or.inl hx
  have hch : ∀ cs : List Change, ∀ h ∈ (Builder.ofChanges cs s).hashes,
      (Builder.ofChanges cs s).chunks ≠ 0 ∧ ∃ x ∈ (Builder.ofChanges cs s).changes, x.hash = h := by
    intro cs h hh
    rw [builder_ofChanges_hashes.1] at hh
    rw [builder_ofChanges_hashes.2]
    obtain ⟨x, hx, hxh⟩ := List.mem_map.mp hh
    refine ⟨?_, x, hx, hxh⟩
    unfold Builder.ofChanges
    cases cs with
    | nil => cases hx
    | cons a as => split <;> simp
  unfold mkBuilder
  split
  · exact hch []
  · split
    · split
      · exact hdoc
      · simp only
        split
        · exact hdoc
        · exact hch _
    · exact hch []

/-! ### the invariants -/

structure Half2 (c : Cfg) : Prop where
  /-- what A remembers having sent has arrived at B or is still in flight -/
  sentArrived : ∀ h ∈ c.stA.sentHashes, hasB c.docB h = true ∨
      ∃ m ∈ c.linkAB, m.chunks ≠ 0 ∧ ∃ x ∈ m.changes, x.hash = h
  /-- no queued change of A is ready -/
  stuck : Stuck c.docA.applied c.docA.queue
  peerRW : c.stA.peerReadOnly = false
  flags : ∀ m ∈ c.linkAB, ∃ f, m.flags = some f ∧ flagSet f FLAG_READ_ONLY = false

structure Inv2 (c : Cfg) : Prop where
  a : Half2 c
  b : Half2 c.swap

theorem Inv2.swap {c : Cfg} (h : Inv2 c) : Inv2 c.swap := ⟨h.b, h.a⟩

theorem Inv2.of_initial {c : Cfg} (h : Initial c) : Inv2 c := by
  refine ⟨⟨?_, ?_, ?_, ?_⟩, ⟨?_, ?_, ?_, ?_⟩⟩ <;>
    simp [Cfg.swap, Stuck, h.queueA, h.queueB, h.stA, h.stB, h.linkAB, h.linkBA, State.new]

theorem Inv2.edit {c : Cfg} {ch : Change} (inv : Inv c) (i2 : Inv2 c)
    (hB : ch.hash ∉ c.docB.hashes) : Inv2 (c.editA ch) := by
  refine ⟨⟨i2.a.sentArrived, ?_, i2.a.peerRW, i2.a.flags⟩, ⟨?_, i2.b.stuck, i2.b.peerRW, i2.b.flags⟩⟩
  · -- the new change is not a dependency of anything queued (queued changes come from B)
    intro q hq
    have hr := i2.a.stuck q hq
    have hqB : q ∈ c.docB.applied := inv.a.queue q hq
    cases hnew : Doc.ready (c.editA ch).docA.applied q with
    | false => rfl
    | true =>
      exfalso
      have hall := ready_iff.mp hnew
      have : Doc.ready c.docA.applied q = true := by
        apply ready_iff.mpr
        intro h hh
        have h1 := hall h hh
        simp only [Cfg.editA, Doc.applyLocal, List.map_cons, List.mem_cons] at h1
        rcases h1 with h1 | h1
        · exfalso; apply hB
          rw [← h1]
          exact Topo.deps_mem _ inv.b.wf.topo q hqB h hh
        · exact h1
      rw [hr] at this; cases this
  · intro h hh
    rcases i2.b.sentArrived h hh with h1 | h1
    · left
      rw [hasB_iff] at h1 ⊢
      rcases h1 with h1 | h1
      · left
        simp only [Cfg.swap, Cfg.editA, Doc.applyLocal, Doc.hashes, List.map_cons, List.mem_cons]
        exact Or.inr h1
      · right; exact h1
    · right; exact h1

theorem Inv2.gen (fp : Hash → Bool) {c : Cfg} (inv : Inv c) (i2 : Inv2 c) : Inv2 (c.genA fp) := by
  rcases generate_cases fp c.docA c.stA with ⟨_, hg⟩ | ⟨_, _, hg⟩ | ⟨_, _, hg⟩
  · -- a reset message (never happens between two peers that lost nothing, but harmless)
    have hc' : c.genA fp = { c with linkAB := c.linkAB ++ [Message.reset c.docA.heads] } := by
      unfold Cfg.genA; simp only [hg]
    rw [hc']
    refine ⟨⟨?_, i2.a.stuck, i2.a.peerRW, ?_⟩, ⟨i2.b.sentArrived, i2.b.stuck, i2.b.peerRW, i2.b.flags⟩⟩
    · intro h hh
      rcases i2.a.sentArrived h hh with h1 | ⟨m, hm, h1⟩
      · left; exact h1
      · right; exact ⟨m, List.mem_append_left _ hm, h1⟩
    · intro m hm
      rcases List.mem_append.mp hm with h1 | h1
      · exact i2.a.flags m h1
      · simp only [List.mem_singleton] at h1; subst h1
        exact ⟨FLAG_SUPPORTS_SYNC_RESET, rfl, by decide⟩
  · have : c.genA fp = c := by unfold Cfg.genA; simp only [hg]
    rw [this]; exact i2
  · have hcar := mkBuilder_carries fp c.docA c.stA
    generalize hb : mkBuilder fp c.docA c.stA = b at hg hcar
    have hc' : c.genA fp = { c with stA := sentState c.docA c.stA b,
                                    linkAB := c.linkAB ++ [mkMessage c.docA c.stA b] } := by
      unfold Cfg.genA; simp only [hg]
    rw [hc']
    refine ⟨⟨?_, i2.a.stuck, i2.a.peerRW, ?_⟩, ⟨i2.b.sentArrived, i2.b.stuck, i2.b.peerRW, i2.b.flags⟩⟩
    · intro h hh
      simp only [sentState] at hh
      rcases (mem_foldl_insertSorted _ _).mp hh with h1 | h1
      · right
        obtain ⟨hch, x, hx, hxh⟩ := hcar h h1
        exact ⟨mkMessage c.docA c.stA b, by simp, hch, x, hx, hxh⟩
      · rcases i2.a.sentArrived h h1 with h2 | ⟨m, hm, h2⟩
        · left; exact h2
        · right; exact ⟨m, List.mem_append_left _ hm, h2⟩
    · intro m hm
      rcases List.mem_append.mp hm with h1 | h1
      · exact i2.a.flags m h1
      · simp only [List.mem_singleton] at h1; subst h1
        exact ⟨outFlags c.stA, rfl, by rw [outFlags_readOnly]; exact inv.a.rw.1⟩

theorem Inv2.recv {c : Cfg} {m : Message} {rest : List Message} (inv : Inv c) (i2 : Inv2 c)
    (hl : c.linkAB = m :: rest) : Inv2 (c.recvB m rest) := by
  have roB : c.stB.readOnly = false := inv.b.rw.1
  have hdoc := recvDoc_rw c.docB c.stB m roB
  obtain ⟨f, hf, hfr⟩ := i2.a.flags m (by rw [hl]; simp)
  refine ⟨⟨?_, i2.a.stuck, i2.a.peerRW, ?_⟩, ⟨?_, ?_, ?_, i2.b.flags⟩⟩
  · intro h hh
    rcases i2.a.sentArrived h hh with h1 | ⟨m', hm', hch, x, hx, hxh⟩
    · left; exact recvDoc_has _ _ _ h1
    · rw [hl] at hm'
      rcases List.mem_cons.mp hm' with rfl | hm''
      · left
        show hasB (recvDoc c.docB _ m') h = true
        rw [hdoc]
        have : (m'.chunks != 0) = true := by simpa using hch
        rw [this, if_pos rfl, ← hxh]
        exact applyChanges_gets _ _ hx
      · right; exact ⟨m', hm'', hch, x, hx, hxh⟩
  · intro m' hm'
    exact i2.a.flags m' (by rw [hl]; exact List.mem_cons_of_mem _ hm')
  · intro h hh
    exact i2.b.sentArrived h (recvState_sent_sub _ _ _ h hh)
  · exact recvDoc_stuck _ _ _ i2.b.stuck
  · show (recvState c.docB c.stB m).peerReadOnly = false
    rw [recvState_peerReadOnly _ _ _ f hf]; exact hfr

theorem Inv2.step (fp : Hash → Bool) {c c' : Cfg} (h : Step fp c c') : Inv c → Inv2 c → Inv2 c' := by
  induction h with
  | edit c ch _ _ h3 => exact fun inv i2 => i2.edit inv h3
  | gen c => exact fun inv i2 => i2.gen fp inv
  | recv c m rest hl => exact fun inv i2 => i2.recv inv hl
  | swap c c' _ ih => exact fun inv i2 => (ih inv.swap i2.swap).swap

theorem Inv2.of_reachable (fp : Hash → Bool) {c : Cfg} (h : Reachable fp c) : Inv2 c := by
  induction h with
  | init c hi => exact Inv2.of_initial hi
  | step c c' hr hs ih => exact Inv2.step fp hs (Inv.of_reachable fp hr) ih

/-! ### C21: reconnecting.  Both sides come back with `sent_hashes = []` and `peer_read_only = false`
    (fresh or persisted), the links are empty: the additional invariants survive trivially. -/

theorem Inv2.reconnect {c : Cfg} (i2 : Inv2 c) (ra rb : Reconn) : Inv2 (c.reconnect ra rb) := by
  refine ⟨⟨?_, i2.a.stuck, ?_, ?_⟩, ⟨?_, i2.b.stuck, ?_, ?_⟩⟩
  · cases ra <;> (intro h hh; cases hh)
  · cases ra <;> rfl
  · intro m hm; cases hm
  · cases rb <;> (intro h hh; cases hh)
  · cases rb <;> rfl
  · intro m hm; cases hm

theorem Inv2.of_reachable21 (fp : Hash → Bool) {c : Cfg} (h : Reachable21 fp c) : Inv2 c := by
  induction h with
  | init c hi => exact Inv2.of_initial hi
  | step c c' hr hs ih =>
    cases hs with
    | base _ hb => exact Inv2.step fp hb (Inv.of_reachable21 fp hr) ih
    | reconnect ra rb => exact ih.reconnect ra rb

/-! ### all that the progress argument needs to know about a configuration -/

/-- the safety invariants of C20 (`Inv`) and the three additional ones (`Inv2`).  Every
    configuration reachable in the two-peer system — with or without reconnects — is `Good`, and
    `Good` is closed under the steps of the system, hence under rounds. -/
structure Good (c : Cfg) : Prop where
  inv : Inv c
  inv2 : Inv2 c

theorem Good.of_reachable (fp : Hash → Bool) {c : Cfg} (h : Reachable fp c) : Good c :=
  ⟨Inv.of_reachable fp h, Inv2.of_reachable fp h⟩

theorem Good.of_reachable21 (fp : Hash → Bool) {c : Cfg} (h : Reachable21 fp c) : Good c :=
  ⟨Inv.of_reachable21 fp h, Inv2.of_reachable21 fp h⟩

theorem Good.step {fp : Hash → Bool} {c c' : Cfg} (g : Good c) (h : Step fp c c') : Good c' :=
  ⟨Inv.step fp h g.inv, Inv2.step fp h g.inv g.inv2⟩

theorem Good.swap {c : Cfg} (g : Good c) : Good c.swap := ⟨g.inv.swap, g.inv2.swap⟩

theorem Good.reconnect {c : Cfg} (g : Good c) (ra rb : Reconn) : Good (c.reconnect ra rb) :=
  ⟨g.inv.reconnect ra rb, g.inv2.reconnect ra rb⟩

theorem Good.deliverAll {fp : Hash → Bool} : ∀ (l : List Message) (c : Cfg),
    c.linkAB = l → Good c → Good (deliverAllAB l c)
  | [], _, _, h => h
  | m :: rest, c, hl, h =>
    Good.deliverAll (fp := fp) rest (c.recvB m rest) rfl (h.step (fp := fp) (Step.recv c m rest hl))

theorem Good.halfRound (fp : Hash → Bool) {c : Cfg} (g : Good c) : Good (halfRound fp c) :=
  Good.deliverAll (fp := fp) _ _ rfl (g.step (Step.gen c))

theorem Good.round (fp : Hash → Bool) {c : Cfg} (g : Good c) : Good (round fp c) :=
  (((g.halfRound fp).swap).halfRound fp).swap

theorem Good.rounds (fp : Hash → Bool) : ∀ (n : Nat) {c : Cfg}, Good c → Good (rounds fp n c)
  | 0, _, g => g
  | n + 1, _, g => Good.rounds fp n (g.round fp)

end AmVerif.Sync.Prog
