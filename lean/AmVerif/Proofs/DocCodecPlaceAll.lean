import AmVerif.Proofs.DocCodecPlace
/-
  C11 (document chunk), reconstruction: `ChangeCollector::add` over a whole list of ops, and what
  `ChangeBuilder::finish` hands to the change encoder afterwards.

  * `placeAll_holds` — ops with distinct ids, each inside the range of one of the (sorted) builders, are
    all placed: no panic, `unplaced` stays, every builder holds exactly the ops of its range;
  * `Builder.ops_of_holds` — a builder that holds the ops `T` of a change (counters contiguous up to
    `max_op`, possibly starting behind the estimated first counter) returns exactly `T`, in order —
    for the vector strategy and for the progressive one.
-/
namespace AmVerif.DocCodec
open AmVerif AmVerif.Crdt AmVerif.ChangeCodec

/-- `Covers`, decided -/
def inR (p : Nat × Nat × Nat) (x : RecOp) : Bool :=
  decide (p.1 = x.id.actor) && decide (p.2.1 ≤ x.id.ctr) && decide (x.id.ctr ≤ p.2.2)

theorem inR_iff {p : Nat × Nat × Nat} {x : RecOp} : inR p x = true ↔ Covers p x.id := by
  unfold inR Covers
  simp only [Bool.and_eq_true, decide_eq_true_eq, and_assoc]

/-- the collector's builders after the ops `D` were added -/
structure PInv (bs : List Builder) (D : List RecOp) : Prop where
  sorted : RSorted (bs.map Builder.range)
  holds : ∀ (i : Nat) (b : Builder), bs[i]? = some b → Holds b (D.filter (inR b.range))

theorem map_set_same' {α β : Type} (f : α → β) (l : List α) (i : Nat) (a b : α) (hi : l[i]? = some a)
    (hf : f b = f a) : (l.set i b).map f = l.map f := map_set_same f l i a b hi hf

/-- **every op is placed** -/
theorem placeAll_holds (E : List RecOp) :
    ∀ (bs : List Builder) (u : Nat) (D : List RecOp), PInv bs D →
      (∀ op ∈ E, ∃ p ∈ bs.map Builder.range, Covers p op.id) → ((D ++ E).map (·.id)).Nodup →
      ∃ bs', placeAll E (bs, u) = .ok (bs', u) ∧ PInv bs' (D ++ E) ∧
        bs'.map Builder.range = bs.map Builder.range ∧ bs'.map (·.change) = bs.map (·.change) := by
  induction E with
  | nil =>
    intro bs u D hinv _ _
    exact ⟨bs, rfl, by simpa using hinv, rfl, rfl⟩
  | cons op rest ih =>
    intro bs u D hinv hcov hnd
    obtain ⟨p, hp, hc⟩ := hcov op (List.mem_cons_self ..)
    obtain ⟨b, hb, rfl⟩ := List.mem_map.1 hp
    obtain ⟨t, ht⟩ := List.mem_iff_getElem?.1 hb
    have hidx := builderIdx_sorted hinv.sorted ht hc
    have hnew : ∀ x ∈ D.filter (inR b.range), x.id ≠ op.id := by
      intro x hx heq
      have hxD := (List.mem_filter.1 hx).1
      rw [List.map_append, List.nodup_append] at hnd
      exact hnd.2.2 x.id (List.mem_map.2 ⟨x, hxD, rfl⟩) op.id
        (List.mem_map.2 ⟨op, List.mem_cons_self .., rfl⟩) heq
    obtain ⟨b', hadd, hholds⟩ := Builder.add_holds (hinv.holds t b ht) hc
      (fun x hx => inR_iff.1 (List.mem_filter.1 hx).2) hnew
    have hrange := Builder.add_range hadd
    have hchange := Builder.add_change hadd
    have hstep : placeOp (bs, u) op = .ok (bs.set t b', u) := by
      unfold placeOp
      simp only [hidx, ht, hadd]
    have hmr : (bs.set t b').map Builder.range = bs.map Builder.range := map_set_same _ _ _ _ _ ht hrange
    have hmc : (bs.set t b').map (·.change) = bs.map (·.change) := map_set_same _ _ _ _ _ ht hchange
    have hinv' : PInv (bs.set t b') (D ++ [op]) := by
      refine ⟨by rw [hmr]; exact hinv.sorted, fun i bi hi => ?_⟩
      rw [List.getElem?_set] at hi
      by_cases hti : t = i
      · subst hti
        have hlt : t < bs.length := (List.getElem?_eq_some_iff.1 ht).1
        rw [if_pos rfl, if_pos hlt] at hi
        cases hi
        rw [hrange, List.filter_append]
        have : [op].filter (inR b.range) = [op] := by
          simp only [List.filter_cons, inR_iff.2 hc, if_true, List.filter_nil]
        rw [this]
        exact hholds
      · rw [if_neg hti] at hi
        rw [List.filter_append]
        have : [op].filter (inR bi.range) = [] := by
          simp only [List.filter_cons, List.filter_nil]
          split
          · rename_i hcov'
            exact absurd (covers_unique hinv.sorted ht hi hc (inR_iff.1 hcov')) hti
          · rfl
        rw [this, List.append_nil]
        exact hinv.holds i bi hi
    have hcov' : ∀ o ∈ rest, ∃ p ∈ (bs.set t b').map Builder.range, Covers p o.id := by
      intro o ho
      rw [hmr]
      exact hcov o (List.mem_cons_of_mem _ ho)
    have hnd' : (((D ++ [op]) ++ rest).map (·.id)).Nodup := by
      rw [List.append_assoc]; exact hnd
    obtain ⟨bs', h1, h2, h3, h4⟩ := ih (bs.set t b') u (D ++ [op]) hinv' hcov' hnd'
    refine ⟨bs', ?_, ?_, h3.trans hmr, h4.trans hmc⟩
    · unfold placeAll
      rw [hstep]
      exact h1
    · rw [List.append_assoc] at h2
      exact h2

/-! ### what a builder returns -/

theorem eq_of_sorted_mem {α : Type} (f : α → Nat) :
    ∀ (A B : List α), A.Pairwise (fun x y => f x < f y) → B.Pairwise (fun x y => f x < f y) →
      (∀ x, x ∈ A ↔ x ∈ B) → A = B := by
  intro A
  induction A with
  | nil =>
    intro B _ _ h
    cases B with
    | nil => rfl
    | cons b bs => exact absurd ((h b).2 (List.mem_cons_self ..)) (by simp)
  | cons a as ih =>
    intro B hA hB h
    cases B with
    | nil => exact absurd ((h a).1 (List.mem_cons_self ..)) (by simp)
    | cons b bs =>
      rw [List.pairwise_cons] at hA hB
      have hab : a = b := by
        have h1 := (h a).1 (List.mem_cons_self ..)
        have h2 := (h b).2 (List.mem_cons_self ..)
        cases h1 with
        | head => rfl
        | tail _ h1' =>
          cases h2 with
          | head => rfl
          | tail _ h2' =>
            have := hA.1 b h2'
            have := hB.1 a h1'
            omega
      subst hab
      congr 1
      apply ih bs hA.2 hB.2
      intro x
      constructor
      · intro hx
        have := (h x).1 (List.mem_cons_of_mem _ hx)
        cases this with
        | head => have := hA.1 _ hx; omega
        | tail _ h' => exact h'
      · intro hx
        have := (h x).2 (List.mem_cons_of_mem _ hx)
        cases this with
        | head => have := hB.1 _ hx; omega
        | tail _ h' => exact h'

theorem dropWhile_replicate_none (g : Nat) (T : List RecOp) :
    (List.replicate g (none : Option RecOp) ++ T.map some).dropWhile (fun o => o.isNone) = T.map some := by
  induction g with
  | zero =>
    cases T with
    | nil => rfl
    | cons t ts => rfl
  | succ g ih =>
    rw [List.replicate_succ, List.cons_append, List.dropWhile_cons]
    simp only [Option.isNone_none, if_true]
    exact ih

theorem filterMap_id_map_some (T : List RecOp) : (T.map some).filterMap id = T := by
  induction T with
  | nil => rfl
  | cons t ts ih => simp only [List.map_cons, List.filterMap_cons, id, ih]

/-- **`ChangeBuilder::finish`'s ops**: a builder that holds the ops `T` of its change — counters
    `s, s+1, …` up to the builder's `max_op`, `s` not before the estimated start, an empty change exactly
    at the estimated start — returns `T` -/
theorem Builder.ops_of_holds {b : Builder} {L T : List RecOp} {s : Nat} (hh : Holds b L)
    (hLT : ∀ op, op ∈ L ↔ op ∈ T) (hpos : ∀ j op, T[j]? = some op → op.id.ctr = s + j)
    (hend : s + T.length = b.maxOp + 1) (hempty : T = [] → s = b.start) (hstart : b.start ≤ s) :
    b.ops = .ok T := by
  have hidx : ∀ j op, T[j]? = some op → idxIn b op = (s - b.start) + j := by
    intro j op h
    have := hpos j op h
    unfold idxIn
    omega
  have hTs : T.Pairwise (fun x y => idxIn b x < idxIn b y) := by
    rw [List.pairwise_iff_getElem]
    intro i j hi hj hij
    have h1 := hidx i _ (List.getElem?_eq_getElem hi)
    have h2 := hidx j _ (List.getElem?_eq_getElem hj)
    omega
  unfold Holds at hh
  unfold Builder.ops
  cases hst : b.st with
  | vec slots =>
    rw [hst] at hh
    simp only [] at hh ⊢
    obtain ⟨hlen, hiff⟩ := hh
    have hslots : slots = List.replicate (s - b.start) none ++ T.map some := by
      apply List.ext_getElem?
      intro k
      rcases Nat.lt_or_ge k (s - b.start) with hk | hk
      · rw [List.getElem?_append_left (by simpa using hk), List.getElem?_replicate, if_pos hk]
        have hkl : k < slots.length := by omega
        have hget := List.getElem?_eq_getElem hkl
        cases hX : slots[k] with
        | none => rw [hget, hX]
        | some op =>
          exfalso
          rw [hX] at hget
          have := (hiff k op).1 hget
          obtain ⟨j, hj⟩ := List.mem_iff_getElem?.1 ((hLT op).1 this.1)
          have := hidx j op hj
          omega
      · rw [List.getElem?_append_right (by simpa using hk)]
        simp only [List.length_replicate]
        rcases Nat.lt_or_ge (k - (s - b.start)) T.length with hj | hj
        · have hget := List.getElem?_eq_getElem hj
          rw [List.getElem?_map, hget]
          have hm : T[k - (s - b.start)] ∈ L := (hLT _).2 (List.getElem_mem hj)
          have := hidx _ _ hget
          exact (hiff k _).2 ⟨hm, by omega⟩
        · rw [List.getElem?_map, List.getElem?_eq_none hj]
          exact List.getElem?_eq_none (by omega)
    cases T with
    | nil =>
      have h0 : s - b.start = 0 := by have := hempty rfl; omega
      rw [h0] at hslots
      simp only [List.replicate_zero, List.map_nil, List.append_nil] at hslots
      subst hslots
      rfl
    | cons t ts =>
      have hall : slots.all (fun o => o.isNone) = false := by
        rw [hslots]
        simp [List.all_append]
      rw [hall]
      simp only [Bool.false_eq_true, if_false]
      rw [hslots, dropWhile_replicate_none]
      have hany : ((t :: ts).map some).any (fun o => o.isNone) = false := by
        simp [List.any_map, Function.comp_def]
      rw [hany]
      simp only [Bool.false_eq_true, if_false]
      rw [filterMap_id_map_some]
  | prog len out queue =>
    rw [hst] at hh
    simp only [] at hh ⊢
    obtain ⟨hlen, hposo, hq, hs, hmem⟩ := hh
    congr 1
    apply eq_of_sorted_mem (idxIn b) _ _ _ hTs
    · intro x
      rw [← hLT x, ← hmem x, List.mem_append]
    · rw [List.pairwise_append]
      refine ⟨?_, ?_, ?_⟩
      · rw [List.pairwise_iff_getElem]
        intro i j hi hj hij
        have h1 := hposo i _ (List.getElem?_eq_getElem hi)
        have h2 := hposo j _ (List.getElem?_eq_getElem hj)
        omega
      · rw [List.pairwise_map]
        apply List.Pairwise.imp_of_mem _ hs
        intro x y hx hy hxy
        have := (hq x hx).1
        have := (hq y hy).1
        omega
      · intro x hx y hy
        obtain ⟨j, hj⟩ := List.mem_iff_getElem?.1 hx
        have h1 := hposo j x hj
        have hjl : j < out.length := (List.getElem?_eq_some_iff.1 hj).1
        obtain ⟨z, hz, rfl⟩ := List.mem_map.1 hy
        have := hq z hz
        omega

end AmVerif.DocCodec
