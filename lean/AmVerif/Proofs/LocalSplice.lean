import AmVerif.Proofs.LocalSeq
/-
  `localSpliceText` without deletions: the inserted pieces form a chain, each keyed on the
  previous one; the visible element list is the old one with the chain at one position.
-/
namespace AmVerif.Crdt
open AmVerif

/-- every counter occurring in `ops` (ids, predecessors, reference elements) is below `b`: what
    "start op greater than every op counter" (C04) plus "references are to existing ops" give -/
def CtrBelow (ops : List Op) (b : Nat) : Prop :=
  ∀ x ∈ ops, x.id.ctr < b ∧ (∀ p ∈ x.pred, p.ctr < b) ∧
    (match x.key with | .elem el => decide (el.ctr < b) | _ => true) = true

instance (ops : List Op) (b : Nat) : Decidable (CtrBelow ops b) := by unfold CtrBelow; infer_instance

theorem lt_of_ctr_lt {a b : OpId} (h : a.ctr < b.ctr) : a.lt b = true := by
  simp [OpId.lt, h]

theorem CtrBelow.fresh {ops : List Op} {b : Nat} (h : CtrBelow ops b) {n : OpId} (hn : b ≤ n.ctr) :
    (∀ x ∈ ops, x.id.lt n = true) ∧ (∀ x ∈ ops, n ∉ x.pred) ∧ (∀ x ∈ ops, x.key ≠ .elem n) := by
  refine ⟨fun x hx => lt_of_ctr_lt (by have := (h x hx).1; omega), fun x hx hm => ?_, fun x hx hk => ?_⟩
  · have := (h x hx).2.1 n hm; omega
  · have := (h x hx).2.2
    rw [hk] at this
    simp at this; omega

/-- a list of (id, value) pairs with the run `news` put after every pair whose id `ref` names -/
def insAfterEL {α : Type} (ref : Key) (news : List (OpId × α)) (l : List (OpId × α)) : List (OpId × α) :=
  l.flatMap (fun p => p :: (if Key.elem p.1 = ref then news else []))

theorem insAfterEL_nil {α : Type} (ref : Key) (l : List (OpId × α)) : insAfterEL ref [] l = l := by
  simp [insAfterEL]

theorem insAfterEL_append {α : Type} (ref : Key) (news : List (OpId × α)) (l₁ l₂ : List (OpId × α)) :
    insAfterEL ref news (l₁ ++ l₂) = insAfterEL ref news l₁ ++ insAfterEL ref news l₂ := by
  simp [insAfterEL]

/-- inserting `new` after `ref`, then the run `news` after `new`, is inserting `new :: news` after `ref` -/
theorem insAfterEL_insAfterE {α : Type} (ref : Key) (new : OpId × α) (news : List (OpId × α))
    (l : List (OpId × α)) (hfresh : ∀ q ∈ l, q.1 ≠ new.1) :
    insAfterEL (.elem new.1) news (insAfterE ref new l) = insAfterEL ref (new :: news) l := by
  unfold insAfterEL insAfterE
  rw [List.flatMap_assoc]
  apply flatMap_congr'
  intro q hq
  have hne : Key.elem q.1 ≠ Key.elem new.1 := fun h => hfresh q hq (Key.elem.inj h)
  have hne' : q.1 ≠ new.1 := hfresh q hq
  by_cases hk : Key.elem q.1 = ref
  · simp [hk, hne']
  · simp [hk, hne']

/-- the visible entries of the chain of inserted pieces -/
def chainEntries (t : Tx) : List Bytes → Nat → List (OpId × List Entry)
  | [], _ => []
  | p :: ps, n => (t.nextId n, [⟨t.nextId n, .scalar (.str p)⟩]) :: chainEntries t ps (n + 1)

theorem mem_insAfter_of_ref {ref : Key} {o c : Op} {l : List Op} (hc : c ∈ l) (hk : Key.elem c.id = ref) :
    o ∈ insAfter ref o l := by
  unfold insAfter
  rw [List.mem_flatMap]
  exact ⟨c, hc, by simp [hk]⟩

theorem seqElems_id_mem_ops {ops : List Op} {obj : ObjId} {q : OpId × List Entry} (h : q ∈ seqElems ops obj) :
    ∃ c ∈ ops, c.id = q.1 := by
  have : q.1 ∈ (seqElems ops obj).map (·.1) := List.mem_map.mpr ⟨q, h, rfl⟩
  have := (seqElems_ids_sublist ops obj).subset this
  obtain ⟨c, hc, he⟩ := List.mem_map.mp this
  exact ⟨c, (mem_rgaFrom hc).1, he⟩

/-- **the chain of `splice_text`.**  Appending the insert ops of the pieces — the first keyed on
    `key`, each next one on the previous — puts the pieces, in order, immediately after the
    reference element (in front for HEAD). -/
theorem chain_effect (t : Tx) (obj : ObjId) :
    ∀ (pieces : List Bytes) (key : Key) (n : Nat) (ops : List Op),
      StrictIds ops → CtrBelow ops (t.startOp + t.pending.length + n) → RefsSmaller ops →
      (key = .head ∨ ∃ c ∈ rgaOrder ops obj, key = .elem c.id ∧ c.isMark = false ∧
        elemRegister ops obj c.id ≠ []) →
      StrictIds (ops ++ chainInserts t obj pieces key n) ∧
      RefsSmaller (ops ++ chainInserts t obj pieces key n) ∧
      seqElems (ops ++ chainInserts t obj pieces key n) obj =
        (if key = .head then chainEntries t pieces n else []) ++
          insAfterEL key (chainEntries t pieces n) (seqElems ops obj)
  | [], key, n, ops, hs, _, hr, _ => by
    simp only [chainInserts, List.append_nil, chainEntries, insAfterEL_nil]
    exact ⟨hs, hr, by split <;> rfl⟩
  | p :: ps, key, n, ops, hs, hb, hr, href => by
    let o : Op := ⟨t.nextId n, obj, key, true, .put (.str p), []⟩
    have hoid : o.id = t.nextId n := rfl
    obtain ⟨hlt, hnp, hnk⟩ := hb.fresh (n := o.id) (Nat.le_refl _)
    have hcore := insert_core (o := o) hs hlt hnp hnk hr rfl rfl href rfl
    obtain ⟨hr', horder, hreg, hseq⟩ := hcore
    have hs' : StrictIds (ops ++ [o]) := strictIds_append_fresh hs hlt
    have hb' : CtrBelow (ops ++ [o]) (t.startOp + t.pending.length + (n + 1)) := by
      intro x hx
      rcases List.mem_append.mp hx with hx | hx
      · obtain ⟨h1, h2, h3⟩ := hb x hx
        refine ⟨by omega, fun q hq => by have := h2 q hq; omega, ?_⟩
        cases hk : x.key with
        | elem el => rw [hk] at h3; simp at h3 ⊢; omega
        | _ => rfl
      · have : x = o := by simpa using hx
        subst this
        refine ⟨by show t.startOp + t.pending.length + n < _; omega, fun q hq => (by cases hq), ?_⟩
        have hok : o.key = key := rfl
        rw [hok]
        rcases href with hk | ⟨c, hc, hk, _⟩
        · rw [hk]
        · rw [hk]
          have := (hb c (mem_rgaFrom hc).1).1
          simp; omega
    have hmem : o ∈ rgaOrder (ops ++ [o]) obj := by
      rw [show obj = o.obj from rfl, horder]
      rcases href with hk | ⟨c, hc, hk, _⟩
      · have : o.key = .head := hk
        rw [if_pos this]; simp
      · exact List.mem_append_right _ (mem_insAfter_of_ref hc hk.symm)
    have href' : (Key.elem o.id = .head ∨ ∃ c ∈ rgaOrder (ops ++ [o]) obj, Key.elem o.id = .elem c.id ∧
        c.isMark = false ∧ elemRegister (ops ++ [o]) obj c.id ≠ []) :=
      .inr ⟨o, hmem, rfl, rfl, by rw [show obj = o.obj from rfl, hreg]; exact List.cons_ne_nil _ _⟩
    obtain ⟨ihs, ihr, ihseq⟩ := chain_effect t obj ps (.elem o.id) (n + 1) (ops ++ [o]) hs' hb' hr' href'
    have happ : ops ++ chainInserts t obj (p :: ps) key n =
        (ops ++ [o]) ++ chainInserts t obj ps (.elem o.id) (n + 1) := by
      simp [chainInserts, o]
    rw [happ]
    refine ⟨ihs, ihr, ?_⟩
    rw [ihseq, if_neg (by intro h; cases h)]
    have hseq' : seqElems (ops ++ [o]) obj =
        (if key = .head then [(t.nextId n, [⟨t.nextId n, .scalar (.str p)⟩])] else []) ++
          insAfterE key (t.nextId n, [⟨t.nextId n, .scalar (.str p)⟩]) (seqElems ops obj) := hseq
    rw [hseq', List.nil_append, insAfterEL_append]
    have hfresh : ∀ q ∈ seqElems ops obj, q.1 ≠ t.nextId n := by
      intro q hq he
      obtain ⟨c, hc, hce⟩ := seqElems_id_mem_ops hq
      have := hlt c hc
      rw [hce, he, hoid, OpId.lt_irrefl] at this; cases this
    have h2 := insAfterEL_insAfterE key (t.nextId n, [⟨t.nextId n, .scalar (.str p)⟩])
      (chainEntries t ps (n + 1)) (seqElems ops obj) hfresh
    rw [hoid]
    rw [h2]
    congr 1
    by_cases hk : key = .head
    · simp [hk, insAfterEL, chainEntries]
    · simp [hk, insAfterEL]


theorem deleteLoop_zero (e : Enc) (isText : Bool) (t : Tx) (obj : ObjId) (fuel : Nat) (ops : List Op)
    (di : Nat) (acc : List Op) : deleteLoop e isText t obj fuel ops di 0 0 acc = acc := by
  cases fuel <;> simp [deleteLoop]

theorem insAfterEL_head {α : Type} (news : List (OpId × α)) (l : List (OpId × α)) :
    insAfterEL .head news l = l := by
  simp [insAfterEL]

theorem insAfterEL_at {α : Type} {l : List (OpId × α)} {j : Nat} {p : OpId × α} (news : List (OpId × α))
    (hn : (l.map (·.1)).Nodup) (h : l[j]? = some p) :
    insAfterEL (.elem p.1) news l = l.take (j + 1) ++ news ++ l.drop (j + 1) := by
  have : insAfterEL (.elem p.1) news l = l.flatMap (fun q => if q.1 = p.1 then (fun q => q :: news) q else [q]) := by
    unfold insAfterEL
    apply flatMap_congr'
    intro q _
    by_cases hq : q.1 = p.1
    · simp [hq]
    · have : Key.elem q.1 ≠ Key.elem p.1 := fun hh => hq (Key.elem.inj hh)
      simp [hq, this]
  rw [this, flatMap_at_id hn h]
  have : l.take (j + 1) = l.take j ++ [p] := by
    rw [List.take_add_one, h]; rfl
  rw [this]; simp

/-- **splice_text without deletion.**  The call appends the chain of insert ops of the pieces;
    the visible element list is the old one with the pieces, in order, at the position `j` behind
    the shortest run of elements whose width reaches the index. -/
theorem splice_insert_at {e : Enc} {ops : List Op} {t : Tx} {obj : ObjId} {index : Nat} {text : Bytes}
    {l : List Op} (hs : StrictIds ops) (hb : CtrBelow ops (t.startOp + t.pending.length))
    (hr : RefsSmaller ops) (h : localSpliceText e ops t obj index 0 text = .ok l) (hne : text ≠ []) :
    objType ops obj = some .text ∧
    ∃ key j, l = chainInserts t obj (utf8Chars text) key 0 ∧ j ≤ (seqElems ops obj).length ∧
      index ≤ unitsLen e true ((seqRegs ops obj).take j) ∧
      (0 < j → unitsLen e true ((seqRegs ops obj).take (j - 1)) < index) ∧
      seqElems (ops ++ l) obj =
        (seqElems ops obj).take j ++ chainEntries t (utf8Chars text) 0 ++ (seqElems ops obj).drop j := by
  rw [localSpliceText_eq] at h
  unfold spliceWith at h
  cases hty : objType ops obj with
  | none => rw [objMeta_eq_error.mpr ⟨rfl, hty⟩] at h; cases h
  | some ty =>
    rw [objMeta_eq_ok.mpr hty] at h
    simp only at h
    by_cases htt : ty = .text
    · subst htt
      simp only [bne_self_eq_false, Bool.false_eq_true, if_false] at h
      have hp' : (utf8Chars text).isEmpty = false := by
        cases hh : utf8Chars text with
        | nil => exact absurd (utf8Chars_eq_nil.mp hh) hne
        | cons _ _ => rfl
      simp only [hp', Bool.false_eq_true, if_false] at h
      cases href : insertRef e true (seqRegs ops obj) index 0 .head with
      | error err => rw [href] at h; cases h
      | ok p =>
        obtain ⟨key, idx⟩ := p
        rw [href] at h
        simp only [deleteLoop_zero, List.append_nil] at h
        cases h
        refine ⟨rfl, key, ?_⟩
        obtain ⟨j, hj, hacc, hti, h0, hpos⟩ := insertRef_ok href
        have hkey : key = .head ∨ ∃ c ∈ rgaOrder ops obj, key = .elem c.id ∧ c.isMark = false ∧
            elemRegister ops obj c.id ≠ [] := by
          rcases insertRef_ok_key href with rfl | ⟨id, r, hm, rfl⟩
          · exact .inl rfl
          · obtain ⟨c, hc, hmk, rfl, rfl, hne'⟩ := mem_seqRegs hm
            refine .inr ⟨c, hc, rfl, hmk, ?_⟩
            rw [elemRegister_eq, ← elemRegOps_eq]
            intro h0
            exact hne' (List.map_eq_nil_iff.mp h0)
        obtain ⟨_, _, hseq⟩ := chain_effect t obj (utf8Chars text) key 0 ops hs (by simpa using hb) hr hkey
        refine ⟨j, rfl, ?_, ?_, ?_, ?_⟩
        · rw [seqElems_eq_map_seqRegs, List.length_map]; exact hj
        · rw [hacc] at hti; simpa using hti
        · intro hjp
          obtain ⟨_, _, _, hlt'⟩ := hpos hjp
          simpa using hlt'
        · rw [hseq]
          by_cases hj0 : j = 0
          · subst hj0
            rw [h0 rfl, if_pos rfl, insAfterEL_head]
            simp
          · obtain ⟨p, hp, hk, _⟩ := hpos (by omega)
            rw [hk, if_neg (by intro hh; cases hh)]
            have hget : (seqElems ops obj)[j - 1]? = some (regEntry ops p) := by
              rw [seqElems_getElem?, hp]; rfl
            have := insAfterEL_at (chainEntries t (utf8Chars text) 0)
              (seqElems_ids_nodup (rgaOrder_ids_nodup hs hr obj)) hget
            have hj1 : j - 1 + 1 = j := by omega
            rw [hj1] at this
            have hfst : (regEntry ops p).1 = p.1 := rfl
            rw [hfst] at this
            simpa using this
    · have : (ty != .text) = true := by simpa using htt
      simp [this] at h

/-- the text a list of visible entries reads as: the winner's string, U+FFFC for anything else -/
def textOf (es : List (OpId × List Entry)) : Bytes :=
  es.flatMap (fun p => match p.2.getLast? with
    | some ⟨_, .scalar (.str s)⟩ => s
    | _ => [0xEF, 0xBF, 0xBC])

theorem textOf_append (a b : List (OpId × List Entry)) : textOf (a ++ b) = textOf a ++ textOf b := by
  simp [textOf]

theorem textOf_chainEntries (t : Tx) : ∀ (ps : List Bytes) (n : Nat), textOf (chainEntries t ps n) = ps.flatten
  | [], _ => rfl
  | p :: ps, n => by
    have ih := textOf_chainEntries t ps (n + 1)
    simp only [chainEntries, List.flatten_cons]
    rw [← ih]
    simp [textOf]

theorem utf8Chars_flatten : ∀ (b : Bytes), (utf8Chars b).flatten = b
  | [] => by simp [utf8Chars]
  | x :: rest => by
    rw [utf8Chars]
    simp only [List.flatten_cons, List.cons_append]
    have : (List.drop (if x.toNat < 0x80 then 0 else if x.toNat < 0xE0 then 1 else if x.toNat < 0xF0 then 2 else 3) rest).length < (x :: rest).length := by
      simp; omega
    rw [utf8Chars_flatten (List.drop _ rest), List.take_append_drop]
termination_by b => b.length


/-- the text after a deletion-free `splice_text`: the old text with the new text at position `j` -/
theorem splice_text_content {e : Enc} {ops : List Op} {t : Tx} {obj : ObjId} {index : Nat} {text : Bytes}
    {l : List Op} (hs : StrictIds ops) (hb : CtrBelow ops (t.startOp + t.pending.length))
    (hr : RefsSmaller ops) (h : localSpliceText e ops t obj index 0 text = .ok l) (hne : text ≠ []) :
    ∃ j, j ≤ (seqElems ops obj).length ∧
      index ≤ unitsLen e true ((seqRegs ops obj).take j) ∧
      (0 < j → unitsLen e true ((seqRegs ops obj).take (j - 1)) < index) ∧
      textOf (seqElems (ops ++ l) obj) =
        textOf ((seqElems ops obj).take j) ++ text ++ textOf ((seqElems ops obj).drop j) := by
  obtain ⟨_, key, j, _, h1, h2, h3, h4⟩ := splice_insert_at hs hb hr h hne
  refine ⟨j, h1, h2, h3, ?_⟩
  rw [h4, textOf_append, textOf_append, textOf_chainEntries, utf8Chars_flatten]

/-- with nothing to insert and nothing to delete the call does nothing -/
theorem splice_text_empty {e : Enc} {ops : List Op} {t : Tx} {obj : ObjId} {index : Nat} {l : List Op}
    (h : localSpliceText e ops t obj index 0 [] = .ok l) : l = [] := by
  rw [localSpliceText_eq, utf8Chars_nil] at h
  unfold spliceWith at h
  split at h
  · cases h
  · split at h
    · cases h
    · simp only [List.isEmpty_nil, if_true, chainInserts, List.append_nil, deleteLoop_zero] at h
      cases h; rfl

end AmVerif.Crdt
