import AmVerif.Model.Store
import AmVerif.Proofs.StoreRga
/-
  The canonical order of the op store (`canon`), as a function of the op SET:
    objects ascending; a map object's ops by (key bytes, id); a sequence object's elements in RGA
    order, each followed by its updates in id order.
  §1 order facts, §2 objects, §3 (key, id) sort, §4 `canon` and what it contains.
-/
namespace AmVerif.Crdt
open AmVerif

/-! ## §1 `ObjId.lt` is a strict total order -/

theorem ObjId.lt_irrefl (a : ObjId) : a.lt a = false := by
  cases a <;> simp [ObjId.lt, OpId.lt_irrefl]

theorem ObjId.lt_trans {a b c : ObjId} (h₁ : a.lt b = true) (h₂ : b.lt c = true) : a.lt c = true := by
  cases a <;> cases b <;> cases c <;> simp_all [ObjId.lt]
  exact OpId.lt_trans h₁ h₂

theorem ObjId.lt_total {a b : ObjId} (h : a ≠ b) : a.lt b = true ∨ b.lt a = true := by
  cases a <;> cases b <;> simp_all [ObjId.lt]
  exact OpId.lt_total h

theorem ObjId.lt_asymm {a b : ObjId} (h₁ : a.lt b = true) (h₂ : b.lt a = true) : False := by
  have := ObjId.lt_trans h₁ h₂
  rw [ObjId.lt_irrefl] at this
  cases this

/-! ## §2 the objects that hold stored ops, ascending -/

def insertObj (o : ObjId) : List ObjId → List ObjId
  | [] => [o]
  | x :: xs => if o == x then x :: xs else if o.lt x then o :: x :: xs else x :: insertObj o xs

/-- a delete is not stored -/
def stored (ops : List Op) : List Op := ops.filter (fun o => !o.isDel)

def objsOf (ops : List Op) : List ObjId := (stored ops).foldr (fun o acc => insertObj o.obj acc) []

theorem mem_insertObj {o x : ObjId} {l : List ObjId} : x ∈ insertObj o l ↔ x = o ∨ x ∈ l := by
  induction l with
  | nil => simp [insertObj]
  | cons y ys ih =>
    simp only [insertObj]
    split
    · rename_i h
      have : o = y := by simpa using h
      subst this
      simp
    · split
      · simp
      · simp only [List.mem_cons, ih]
        constructor
        · rintro (h | h | h) <;> simp [h]
        · rintro (h | h | h) <;> simp [h]

theorem insertObj_sorted (o : ObjId) {l : List ObjId} (h : l.Pairwise (fun a b => a.lt b = true)) :
    (insertObj o l).Pairwise (fun a b => a.lt b = true) := by
  induction l with
  | nil => exact List.pairwise_singleton _ _
  | cons y ys ih =>
    simp only [insertObj]
    split
    · exact h
    · rename_i hne
      have hne : o ≠ y := by simpa using hne
      split
      · rename_i hlt
        refine List.Pairwise.cons (fun b hb => ?_) h
        rcases List.mem_cons.mp hb with rfl | hb
        · exact hlt
        · exact ObjId.lt_trans hlt (List.rel_of_pairwise_cons h hb)
      · rename_i hnlt
        refine List.Pairwise.cons (fun b hb => ?_) (ih (List.Pairwise.of_cons h))
        rcases mem_insertObj.mp hb with rfl | hb
        · rcases ObjId.lt_total hne with h' | h'
          · exact absurd h' hnlt
          · exact h'
        · exact List.rel_of_pairwise_cons h hb

theorem objsOf_sorted (ops : List Op) : (objsOf ops).Pairwise (fun a b => a.lt b = true) := by
  unfold objsOf
  induction stored ops with
  | nil => exact List.Pairwise.nil
  | cons x xs ih => exact insertObj_sorted _ ih

theorem mem_objsOf {ops : List Op} {obj : ObjId} :
    obj ∈ objsOf ops ↔ ∃ o ∈ ops, o.isDel = false ∧ o.obj = obj := by
  unfold objsOf stored
  have : ∀ l : List Op, obj ∈ l.foldr (fun o acc => insertObj o.obj acc) [] ↔ ∃ o ∈ l, o.obj = obj := by
    intro l
    induction l with
    | nil => simp
    | cons x xs ih =>
      simp only [List.foldr_cons, mem_insertObj, ih, List.mem_cons, exists_eq_or_imp]
      constructor
      · rintro (h | h)
        · exact .inl h.symm
        · exact .inr h
      · rintro (h | h)
        · exact .inl h.symm
        · exact .inr h
  rw [this]
  simp only [List.mem_filter, Bool.not_eq_eq_eq_not, Bool.not_true]
  constructor
  · rintro ⟨o, ⟨h1, h2⟩, h3⟩; exact ⟨o, h1, h2, h3⟩
  · rintro ⟨o, h1, h2, h3⟩; exact ⟨o, ⟨h1, h2⟩, h3⟩

theorem objsOf_nodup (ops : List Op) : (objsOf ops).Nodup := by
  have := objsOf_sorted ops
  unfold List.Nodup
  refine List.Pairwise.imp ?_ this
  intro a b h he
  subst he
  rw [ObjId.lt_irrefl] at h; cases h

/-- a strictly ascending list splits around any object -/
theorem sorted_split (x : ObjId) :
    ∀ {l : List ObjId}, l.Pairwise (fun a b => a.lt b = true) →
      ∃ A C, l = A ++ (if x ∈ l then [x] else []) ++ C ∧ insertObj x l = A ++ [x] ++ C ∧
        (∀ a ∈ A, a.lt x = true) ∧ (∀ c ∈ C, x.lt c = true)
  | [], _ => ⟨[], [], by simp, by simp [insertObj], by simp, by simp⟩
  | y :: ys, h => by
    by_cases hxy : x = y
    · subst hxy
      refine ⟨[], ys, by simp, by simp [insertObj], by simp, ?_⟩
      exact fun c hc => List.rel_of_pairwise_cons h hc
    · by_cases hlt : x.lt y = true
      · have hnm : x ∉ y :: ys := by
          intro hm
          rcases List.mem_cons.mp hm with rfl | hm
          · exact hxy rfl
          · exact ObjId.lt_asymm hlt (List.rel_of_pairwise_cons h hm)
        refine ⟨[], y :: ys, by simp [hnm], ?_, by simp, ?_⟩
        · simp [insertObj, hxy, hlt]
        · intro c hc
          rcases List.mem_cons.mp hc with rfl | hc
          · exact hlt
          · exact ObjId.lt_trans hlt (List.rel_of_pairwise_cons h hc)
      · obtain ⟨A, C, h1, h2, h3, h4⟩ := sorted_split x (List.Pairwise.of_cons h)
        have hyx : y.lt x = true := by
          rcases ObjId.lt_total hxy with h' | h'
          · exact absurd h' hlt
          · exact h'
        refine ⟨y :: A, C, ?_, ?_, ?_, h4⟩
        · have : (x ∈ y :: ys) ↔ x ∈ ys := by
            simp [hxy]
          simp only [this, List.cons_append]
          rw [← h1]
        · have hlt' : x.lt y = false := by simpa using hlt
          simp only [insertObj, beq_iff_eq, hxy, if_false, hlt', Bool.false_eq_true, List.cons_append]
          rw [h2]
        · intro a ha
          rcases List.mem_cons.mp ha with rfl | ha
          · exact hyx
          · exact h3 a ha

theorem objsOf_eq_of_mem_iff {l₁ l₂ : List Op} (h : ∀ obj, obj ∈ objsOf l₁ ↔ obj ∈ objsOf l₂) :
    objsOf l₁ = objsOf l₂ :=
  eq_of_pairwise_of_mem_iff (fun _ _ h₁ h₂ => ObjId.lt_asymm h₁ h₂) _ _ (objsOf_sorted l₁)
    (objsOf_sorted l₂) h

theorem objsOf_append (ops : List Op) (N : Op) :
    objsOf (ops ++ [N]) = if N.isDel then objsOf ops else insertObj N.obj (objsOf ops) := by
  split
  · rename_i hd
    apply objsOf_eq_of_mem_iff
    intro obj
    simp only [mem_objsOf, List.mem_append, List.mem_singleton]
    constructor
    · rintro ⟨o, ho | rfl, h1, h2⟩
      · exact ⟨o, ho, h1, h2⟩
      · rw [hd] at h1; cases h1
    · rintro ⟨o, ho, h1, h2⟩; exact ⟨o, .inl ho, h1, h2⟩
  · rename_i hd
    have hd : N.isDel = false := by simpa using hd
    refine eq_of_pairwise_of_mem_iff (fun _ _ h₁ h₂ => ObjId.lt_asymm h₁ h₂) _ _ (objsOf_sorted _)
      (insertObj_sorted _ (objsOf_sorted _)) (fun obj => ?_)
    simp only [mem_insertObj, mem_objsOf, List.mem_append, List.mem_singleton]
    constructor
    · rintro ⟨o, ho | rfl, h1, h2⟩
      · exact .inr ⟨o, ho, h1, h2⟩
      · exact .inl h2.symm
    · rintro (rfl | ⟨o, ho, h1, h2⟩)
      · exact ⟨N, .inr rfl, hd, rfl⟩
      · exact ⟨o, .inl ho, h1, h2⟩

/-! ## §3 sorting a map object's ops by (key bytes, id) -/

def insertKI (o : Op) : List Op → List Op
  | [] => [o]
  | x :: xs => if mapStop x o then o :: x :: xs else x :: insertKI o xs

def sortKI (l : List Op) : List Op := l.foldr insertKI []

theorem insertKI_perm (o : Op) (l : List Op) : (insertKI o l).Perm (o :: l) := by
  induction l with
  | nil => exact List.Perm.refl _
  | cons x xs ih =>
    simp only [insertKI]
    split
    · exact List.Perm.refl _
    · exact ((List.Perm.cons x ih).trans (List.Perm.swap o x xs))

theorem sortKI_perm (l : List Op) : (sortKI l).Perm l := by
  induction l with
  | nil => exact List.Perm.refl _
  | cons x xs ih =>
    show (insertKI x (sortKI xs)).Perm (x :: xs)
    exact (insertKI_perm x _).trans (List.Perm.cons x ih)

theorem mem_sortKI {l : List Op} {o : Op} : o ∈ sortKI l ↔ o ∈ l := (sortKI_perm l).mem_iff

/-- `o` strictly before `x`, `x` not after `y` ⇒ `o` not after `y` -/
theorem mapStop_trans {o x y : Op} (h₁ : mapStop x o = true) (h₂ : mapStop x y = false) :
    mapStop o y = false := by
  unfold mapStop at *
  cases hx : x.key <;> cases ho : o.key <;> cases hy : y.key <;> simp_all
  rename_i a b c
  -- x.key = map a, o.key = map b, y.key = map c
  obtain ⟨h2a, h2b⟩ := h₂
  constructor
  · cases hcb : bytesLt c b
    · rfl
    · exfalso
      rcases h₁ with h | ⟨rfl, _⟩
      · rw [bytesLt_trans hcb h] at h2a; cases h2a
      · rw [hcb] at h2a; cases h2a
  · intro hbc
    subst hbc
    rcases h₁ with h | ⟨rfl, h⟩
    · rw [h] at h2a; cases h2a
    · have := h2b rfl
      cases hyo : y.id.lt o.id
      · rfl
      · rw [OpId.lt_trans hyo h] at this; cases this

abbrev KISorted (l : List Op) : Prop := l.Pairwise (fun a b => mapStop a b = false)

theorem insertKI_sorted (o : Op) {l : List Op} (h : KISorted l) : KISorted (insertKI o l) := by
  induction l with
  | nil => exact List.pairwise_singleton _ _
  | cons x xs ih =>
    simp only [insertKI]
    split
    · rename_i hox
      refine List.Pairwise.cons (fun b hb => ?_) h
      rcases List.mem_cons.mp hb with rfl | hb
      · -- `mapStop b o` ⇒ not `mapStop o b`
        exact mapStop_trans hox (by
          unfold mapStop; cases b.key <;> simp [bytesLt_irrefl, OpId.lt_irrefl])
      · exact mapStop_trans hox (List.rel_of_pairwise_cons h hb)
    · rename_i hox
      refine List.Pairwise.cons (fun b hb => ?_) (ih (List.Pairwise.of_cons h))
      rcases List.mem_cons.mp ((insertKI_perm o xs).mem_iff.mp hb) with rfl | hb
      · simpa using hox
      · exact List.rel_of_pairwise_cons h hb

theorem sortKI_sorted (l : List Op) : KISorted (sortKI l) := by
  induction l with
  | nil => exact List.Pairwise.nil
  | cons x xs ih => exact insertKI_sorted x ih

/-- two map-keyed ops neither of which has to follow the other share key and id -/
theorem mapStop_antisymm {a b : Op} (ha : a.key.isMap = true) (hb : b.key.isMap = true)
    (h₁ : mapStop a b = false) (h₂ : mapStop b a = false) : a.key = b.key ∧ a.id = b.id := by
  unfold mapStop at *
  cases hka : a.key <;> cases hkb : b.key <;> simp_all [Key.isMap]
  rename_i ka kb
  have hk : ka = kb := by
    apply Classical.byContradiction
    intro hne
    rcases bytesLt_total hne with h | h
    · rw [h] at h₂; exact absurd h₂.1 (by simp)
    · rw [h] at h₁; exact absurd h₁.1 (by simp)
  subst hk
  exact ⟨rfl, OpId.eq_of_not_lt (h₂.2 rfl) (h₁.2 rfl)⟩

/-- the sorted list depends only on the multiset of (map-keyed, distinctly identified) ops -/
theorem sortKI_eq_of_perm {l₁ l₂ : List Op} (h : l₁.Perm l₂) (hd : DistinctIds l₁)
    (hm : ∀ o ∈ l₁, o.key.isMap = true) : sortKI l₁ = sortKI l₂ := by
  refine List.Perm.eq_of_pairwise (le := fun a b => mapStop a b = false) ?_ (sortKI_sorted l₁)
    (sortKI_sorted l₂) ((sortKI_perm l₁).trans (h.trans (sortKI_perm l₂).symm))
  intro a b ha hb hab hba
  have ha' := mem_sortKI.mp ha
  have hb' := h.mem_iff.mpr (mem_sortKI.mp hb)
  exact hd a ha' b hb' (mapStop_antisymm (hm a ha') (hm b hb') hab hba).2

theorem sortKI_append_singleton {l : List Op} {o : Op} (hd : DistinctIds (l ++ [o]))
    (hm : ∀ x ∈ l ++ [o], x.key.isMap = true) : sortKI (l ++ [o]) = insertKI o (sortKI l) := by
  rw [sortKI_eq_of_perm (l₂ := o :: l) List.perm_append_comm hd hm]
  rfl

/-! ## §4 the canonical order -/

/-- the ops of a map object in store order -/
def mapSeg (ops : List Op) (obj : ObjId) : List Op :=
  sortKI (ops.filter (fun o => o.obj == obj && !o.isDel && o.key.isMap))

/-- the stored updates of element `e` of `obj`, ascending by id -/
def updatesOf (ops : List Op) (obj : ObjId) (e : OpId) : List Op :=
  sortById (ops.filter (fun o => o.obj == obj && !o.isDel && !o.insert && o.key == .elem e))

/-- an element's insert op followed by its updates -/
def block (ops : List Op) (obj : ObjId) (e : Op) : List Op := e :: updatesOf ops obj e.id

def seqSeg (ops : List Op) (obj : ObjId) : List Op := (rgaOrder ops obj).flatMap (block ops obj)

def seg (ops : List Op) (obj : ObjId) : List Op := mapSeg ops obj ++ seqSeg ops obj

/-- **the store order as a function of the op set** -/
def canon (ops : List Op) : List Op := (objsOf ops).flatMap (seg ops)

theorem mem_mapSeg {ops : List Op} {obj : ObjId} {x : Op} :
    x ∈ mapSeg ops obj ↔ x ∈ ops ∧ x.obj = obj ∧ x.isDel = false ∧ x.key.isMap = true := by
  unfold mapSeg
  rw [mem_sortKI]
  simp only [List.mem_filter, Bool.and_eq_true, beq_iff_eq, Bool.not_eq_eq_eq_not, Bool.not_true,
    and_assoc]

theorem mem_updatesOf {ops : List Op} {obj : ObjId} {e : OpId} {x : Op} :
    x ∈ updatesOf ops obj e ↔
      x ∈ ops ∧ x.obj = obj ∧ x.isDel = false ∧ x.insert = false ∧ x.key = .elem e := by
  unfold updatesOf
  rw [mem_sortById]
  simp only [List.mem_filter, Bool.and_eq_true, beq_iff_eq, Bool.not_eq_eq_eq_not, Bool.not_true,
    and_assoc]

theorem mem_seqSeg {ops : List Op} {obj : ObjId} {x : Op} :
    x ∈ seqSeg ops obj ↔
      x ∈ rgaOrder ops obj ∨ ∃ e ∈ rgaOrder ops obj, x ∈ updatesOf ops obj e.id := by
  unfold seqSeg block
  simp only [List.mem_flatMap, List.mem_cons]
  constructor
  · rintro ⟨e, he, rfl | hx⟩
    · exact .inl he
    · exact .inr ⟨e, he, hx⟩
  · rintro (h | ⟨e, he, hx⟩)
    · exact ⟨x, h, .inl rfl⟩
    · exact ⟨e, he, .inr hx⟩

theorem obj_of_mem_seg {ops : List Op} {obj : ObjId} {x : Op} (h : x ∈ seg ops obj) : x.obj = obj := by
  unfold seg at h
  rcases List.mem_append.mp h with h | h
  · exact (mem_mapSeg.mp h).2.1
  · rcases mem_seqSeg.mp h with h | ⟨e, _, h⟩
    · exact (mem_rgaFrom h).2.1
    · exact (mem_updatesOf.mp h).2.1

theorem mem_ops_of_mem_seg {ops : List Op} {obj : ObjId} {x : Op} (h : x ∈ seg ops obj) : x ∈ ops := by
  unfold seg at h
  rcases List.mem_append.mp h with h | h
  · exact (mem_mapSeg.mp h).1
  · rcases mem_seqSeg.mp h with h | ⟨e, _, h⟩
    · exact (mem_rgaFrom h).1
    · exact (mem_updatesOf.mp h).1

theorem children_nil_of_no_inserts {ops : List Op} {obj : ObjId}
    (h : ∀ x ∈ ops, x.obj = obj → x.insert = false) (p : Key) : children ops obj p = [] := by
  unfold children
  have : ops.filter (fun o => o.obj == obj && o.insert && o.key == p) = [] := by
    rw [List.filter_eq_nil_iff]
    intro x hx
    by_cases ho : x.obj = obj
    · simp [h x hx ho]
    · simp [ho]
  rw [this]; rfl

theorem rgaOrder_nil_of_no_inserts {ops : List Op} {obj : ObjId}
    (h : ∀ x ∈ ops, x.obj = obj → x.insert = false) : rgaOrder ops obj = [] := by
  unfold rgaOrder
  rw [rgaFrom_succ, children_nil_of_no_inserts h]; rfl

theorem seg_nil_of_not_mem {ops : List Op} {obj : ObjId} (h : obj ∉ objsOf ops)
    (hnd : ∀ x ∈ ops, x.isDel = true → x.insert = false) : seg ops obj = [] := by
  have hno : ∀ x ∈ ops, x.obj = obj → x.isDel = true := by
    intro x hx ho
    cases hd : x.isDel
    · exact absurd (mem_objsOf.mpr ⟨x, hx, hd, ho⟩) h
    · rfl
  unfold seg seqSeg mapSeg
  rw [rgaOrder_nil_of_no_inserts (fun x hx ho => hnd x hx (hno x hx ho))]
  have : ops.filter (fun o => o.obj == obj && !o.isDel && o.key.isMap) = [] := by
    rw [List.filter_eq_nil_iff]
    intro x hx
    by_cases ho : x.obj = obj
    · simp [hno x hx ho]
    · simp [ho]
  rw [this]; rfl

end AmVerif.Crdt
