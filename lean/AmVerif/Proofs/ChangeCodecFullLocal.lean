import AmVerif.Proofs.ChangeCodecFullWF
import AmVerif.Model.Local
/-
  Helper lemmas for C18 (`C18_wf_of_local_partial`): the operations the model's local editing
  functions (`Model/Local.lean`) append to an open transaction continue its numbering, so the
  operations of a committed transaction are numbered `startOp@actor, (startOp+1)@actor, …`.
-/
namespace AmVerif.ChangeCodec.Full
open AmVerif AmVerif.Crdt AmVerif.ChangeCodec

theorem idsFrom_append (actor : Bytes) : ∀ (a b : List Op) (n : Nat),
    idsFrom actor n a = true → idsFrom actor (n + a.length) b = true → idsFrom actor n (a ++ b) = true
  | [], b, n, _, hb => by simpa using hb
  | o :: a, b, n, ha, hb => by
    simp only [idsFrom, Bool.and_eq_true] at ha
    simp only [List.cons_append, idsFrom, Bool.and_eq_true]
    refine ⟨ha.1, idsFrom_append actor a b (n + 1) ha.2 ?_⟩
    simp only [List.length_cons] at hb
    rw [show n + 1 + a.length = n + (a.length + 1) by omega]
    exact hb

/-- the new operations of a call continue the numbering of the transaction -/
def Continues (t : Tx) (new : List Op) : Prop := idsFrom t.actor (t.startOp + t.pending.length) new = true

theorem continues_nil (t : Tx) : Continues t [] := rfl

theorem continues_single (t : Tx) (o : Op) (h : o.id = t.nextId) : Continues t [o] := by
  simp [Continues, idsFrom, h, Tx.nextId]

theorem ite_error_ok {c : Prop} [Decidable c] {e : EditErr} {x new : List Op}
    (h : (if c then (Except.error e : Except EditErr (List Op)) else .ok x) = .ok new) : new = x := by
  split at h
  · cases h
  · cases h; rfl

theorem localMapOp_ids (ops : List Op) (t : Tx) (obj : ObjId) (k : Bytes) (a : Action) (new : List Op)
    (h : localMapOp ops t obj k a = .ok new) : Continues t new := by
  unfold localMapOp at h
  simp only at h
  split at h
  · cases h; exact continues_nil t
  · have := ite_error_ok h
    subst this
    exact continues_single t _ rfl

theorem localListOp_ids (e : Enc) (ops : List Op) (t : Tx) (obj : ObjId) (ty : ObjType) (i : Nat) (a : Action)
    (new : List Op) (h : localListOp e ops t obj ty i a = .ok new) : Continues t new := by
  unfold localListOp at h
  split at h
  · cases h
  · split at h
    · cases h
    · split at h
      · cases h; exact continues_nil t
      · simp only at h
        have := ite_error_ok h
        subst this
        exact continues_single t _ rfl

theorem localPut_ids (e : Enc) (ops : List Op) (t : Tx) (obj : ObjId) (prop : Sum Bytes Nat) (a : Action) (ck : Bool)
    (new : List Op) (h : localPut e ops t obj prop a ck = .ok new) : Continues t new := by
  unfold localPut at h
  split at h
  · cases h
  · split at h
    · split at h
      · cases h
      · exact localMapOp_ids _ _ _ _ _ _ h
    · split at h
      · cases h
      · exact localListOp_ids _ _ _ _ _ _ _ _ h

theorem localInsert_ids (e : Enc) (ops : List Op) (t : Tx) (obj : ObjId) (i : Nat) (a : Action)
    (new : List Op) (h : localInsert e ops t obj i a = .ok new) : Continues t new := by
  unfold localInsert at h
  split at h
  · cases h
  · split at h
    · cases h
    · split at h
      · cases h
      · cases h; exact continues_single t _ rfl

theorem chainInserts_ids (t : Tx) (obj : ObjId) : ∀ (ps : List Bytes) (key : Key) (n : Nat),
    idsFrom t.actor (t.startOp + t.pending.length + n) (chainInserts t obj ps key n) = true
  | [], _, _ => rfl
  | p :: ps, key, n => by
    simp only [chainInserts, idsFrom, Bool.and_eq_true, beq_iff_eq]
    exact ⟨rfl, chainInserts_ids t obj ps _ (n + 1)⟩

theorem deleteLoop_ids (e : Enc) (isText : Bool) (t : Tx) (obj : ObjId) : ∀ (fuel : Nat) (ops : List Op)
    (delIndex deleted del : Nat) (acc : List Op),
    idsFrom t.actor (t.startOp + t.pending.length) acc = true →
    idsFrom t.actor (t.startOp + t.pending.length) (deleteLoop e isText t obj fuel ops delIndex deleted del acc) = true
  | 0, _, _, _, _, acc, h => h
  | fuel + 1, ops, delIndex, deleted, del, acc, h => by
    unfold deleteLoop
    split
    · exact h
    · split
      · exact h
      · simp only
        split
        · exact deleteLoop_ids e isText t obj fuel _ _ _ _ acc h
        · apply deleteLoop_ids e isText t obj fuel
          apply idsFrom_append _ _ _ _ h
          simp [idsFrom, Tx.nextId]

theorem chainInserts_length (t : Tx) (obj : ObjId) : ∀ (ps : List Bytes) (key : Key) (n : Nat),
    (chainInserts t obj ps key n).length = ps.length
  | [], _, _ => rfl
  | p :: ps, key, n => by simp [chainInserts, chainInserts_length t obj ps]

theorem localSpliceText_ids (e : Enc) (ops : List Op) (t : Tx) (obj : ObjId) (i del : Nat) (text : Bytes)
    (new : List Op) (h : localSpliceText e ops t obj i del text = .ok new) : Continues t new := by
  unfold localSpliceText at h
  split at h
  · cases h
  · split at h
    · cases h
    · simp only at h
      split at h
      · cases h
      · cases h
        rename_i key idx _
        apply idsFrom_append
        · exact chainInserts_ids t obj _ _ 0
        · have := deleteLoop_ids e true { t with pending := t.pending ++ chainInserts t obj (utf8Chars text) key 0 } obj
            (del + 1) (ops ++ chainInserts t obj (utf8Chars text) key 0)
            (idx + (List.map (width e) (utf8Chars text)).foldl (· + ·) 0) 0 del [] rfl
          simpa [List.length_append, Nat.add_assoc] using this

/-- the transactions the local editing functions build: `beginTx`, then any of `localPut`
    (`put` / `put_object` / `increment` / `delete`), `localInsert` (`insert` / `insert_object`),
    `localSpliceText` (`splice_text`), each on any view `ops` of the document, its result appended to
    the pending operations (as `Driver/Crdt.lean` `edit` does) -/
inductive TxReach (e : Enc) : Tx → Prop
  | begin (actor : Bytes) (startOp : Nat) : TxReach e ⟨actor, startOp, []⟩
  | put {t : Tx} (h : TxReach e t) (ops : List Op) (obj : ObjId) (prop : Sum Bytes Nat) (a : Action) (ck : Bool)
      (new : List Op) (hn : localPut e ops t obj prop a ck = .ok new) : TxReach e { t with pending := t.pending ++ new }
  | insert {t : Tx} (h : TxReach e t) (ops : List Op) (obj : ObjId) (i : Nat) (a : Action)
      (new : List Op) (hn : localInsert e ops t obj i a = .ok new) : TxReach e { t with pending := t.pending ++ new }
  | splice {t : Tx} (h : TxReach e t) (ops : List Op) (obj : ObjId) (i del : Nat) (text : Bytes)
      (new : List Op) (hn : localSpliceText e ops t obj i del text = .ok new) : TxReach e { t with pending := t.pending ++ new }

/-- the operations of a reachable transaction are numbered from its start op -/
theorem txReach_ids (e : Enc) (t : Tx) (h : TxReach e t) : idsFrom t.actor t.startOp t.pending = true := by
  induction h with
  | begin actor startOp => rfl
  | put h ops obj prop a ck new hn ih => exact idsFrom_append _ _ _ _ ih (localPut_ids _ _ _ _ _ _ _ _ hn)
  | insert h ops obj i a new hn ih => exact idsFrom_append _ _ _ _ ih (localInsert_ids _ _ _ _ _ _ _ hn)
  | splice h ops obj i del text new hn ih => exact idsFrom_append _ _ _ _ ih (localSpliceText_ids _ _ _ _ _ _ _ _ hn)

/-- `ChangeWF` without the numbering clause -/
def ChangeWFRest (c : XChange) : Prop :=
  sortDeps c.deps = c.deps ∧ (∀ h ∈ c.deps, h.length = Consts.HASH_SIZE) ∧ c.deps.length < 2 ^ 64 ∧
  c.actor.length < 2 ^ 64 ∧ (∀ a ∈ otherActors c.actor c.ops, a.length < 2 ^ 64) ∧
  (otherActors c.actor c.ops).length + 1 < 2 ^ 32 ∧
  c.seq < 2 ^ 64 ∧ 0 < c.startOp ∧ c.startOp < 2 ^ 32 ∧ c.startOp + c.ops.length ≤ 2 ^ 32 ∧ inI64v c.time ∧ MsgWF c.message ∧
  (∀ o ∈ c.ops, OpWF o) ∧
  (c.ops.flatMap (·.pred)).length < 2 ^ 63 ∧
  (encodeBody (sortDeps c.deps) c.actor (otherActors c.actor c.ops) c.seq c.startOp c.time c.message
    (c.ops.map (toRow (c.actor :: otherActors c.actor c.ops))) c.extra).length < 2 ^ 64

instance (c : XChange) : Decidable (ChangeWFRest c) := by unfold ChangeWFRest; infer_instance

theorem changeWF_of_rest (c : XChange) (hid : idsFrom c.actor c.startOp c.ops = true) (h : ChangeWFRest c) : ChangeWF c := by
  obtain ⟨h1, h2, h3, h4, h5, h6, h7, h8, h9, h10, h11, h12, h13, h14, h15⟩ := h
  exact ⟨h1, h2, h3, h4, h5, h6, h7, h8, h9, h10, h11, h12, hid, h13, h14, h15⟩

/-! ### a sample transaction -/

def txPush (t : Tx) (r : Except EditErr (List Op)) : Tx :=
  match r with
  | .ok new => { t with pending := t.pending ++ new }
  | .error _ => t

theorem txReach_push_put (e : Enc) (t : Tx) (h : TxReach e t) (ops : List Op) (obj : ObjId) (prop : Sum Bytes Nat)
    (a : Action) (ck : Bool) : TxReach e (txPush t (localPut e ops t obj prop a ck)) := by
  cases hr : localPut e ops t obj prop a ck with
  | ok new => exact TxReach.put h ops obj prop a ck new hr
  | error err => exact h

theorem txReach_push_insert (e : Enc) (t : Tx) (h : TxReach e t) (ops : List Op) (obj : ObjId) (i : Nat)
    (a : Action) : TxReach e (txPush t (localInsert e ops t obj i a)) := by
  cases hr : localInsert e ops t obj i a with
  | ok new => exact TxReach.insert h ops obj i a new hr
  | error err => exact h

/-- on the empty document: make a list, insert two elements, delete the first, put a map key -/
def sampleTx : Tx :=
  let a : Bytes := [1]
  let t0 : Tx := ⟨a, 1, []⟩
  let t1 := txPush t0 (localPut .cp t0.pending t0 .root (.inl [108]) (.make .list) true)
  let t2 := txPush t1 (localInsert .cp t1.pending t1 (.id ⟨1, a⟩) 0 (.put (.uint 5)))
  let t3 := txPush t2 (localInsert .cp t2.pending t2 (.id ⟨1, a⟩) 1 (.put (.str [120])))
  let t4 := txPush t3 (localPut .cp t3.pending t3 (.id ⟨1, a⟩) (.inr 0) .del false)
  txPush t4 (localPut .cp t4.pending t4 .root (.inl [107]) (.put (.int 1)) true)

theorem sampleTx_reach : TxReach .cp sampleTx := by
  unfold sampleTx
  exact txReach_push_put _ _ (txReach_push_put _ _ (txReach_push_insert _ _ (txReach_push_insert _ _
    (txReach_push_put _ _ (TxReach.begin _ _) _ _ _ _ _) _ _ _ _) _ _ _ _) _ _ _ _ _) _ _ _ _ _

end AmVerif.ChangeCodec.Full
