import AmVerif.Proofs.HexaneRle
import AmVerif.Model.HexaneColumn
/-
  Helper lemmas: the segments `itemsOf xs` the encoder produces for a value list are canonical
  (`canon`), expand back to `xs`, and cover `xs.length` items.
-/
namespace AmVerif.Hexane
open AmVerif

/-! ### maximal runs -/

/-- every count is positive and neighbouring groups carry different values -/
def GroupsOK {β : Type} : List (Nat × β) → Prop
  | [] => True
  | [(n, _)] => 1 ≤ n
  | (n, x) :: (m, y) :: r => 1 ≤ n ∧ x ≠ y ∧ GroupsOK ((m, y) :: r)

def sumCounts {β : Type} (gs : List (Nat × β)) : Nat := (gs.map (·.1)).sum

theorem groups_cons {β : Type} [DecidableEq β] (x : β) (xs : List β) :
    groups (x :: xs) =
      match groups xs with
      | (n, y) :: gs => if x = y then (n + 1, y) :: gs else (1, x) :: (n, y) :: gs
      | [] => [(1, x)] := by
  rfl

theorem groups_ok {β : Type} [DecidableEq β] : ∀ xs : List β, GroupsOK (groups xs) := by
  intro xs
  induction xs with
  | nil => simp [groups, GroupsOK]
  | cons x xs ih =>
    rw [groups_cons]
    cases h : groups xs with
    | nil => simp [GroupsOK]
    | cons g gs =>
      obtain ⟨n, y⟩ := g
      rw [h] at ih
      simp only
      by_cases hxy : x = y
      · simp only [hxy, if_true]
        cases gs with
        | nil => simp [GroupsOK]
        | cons g2 gs2 =>
          obtain ⟨m, z⟩ := g2
          simp only [GroupsOK] at ih ⊢
          exact ⟨by omega, ih.2.1, ih.2.2⟩
      · simp only [hxy, if_false]
        simp only [GroupsOK]
        exact ⟨by omega, hxy, ih⟩

theorem expandRuns_groups {β : Type} [DecidableEq β] : ∀ xs : List β, expandRuns (groups xs) = xs := by
  intro xs
  induction xs with
  | nil => simp [groups, expandRuns]
  | cons x xs ih =>
    rw [groups_cons]
    cases h : groups xs with
    | nil =>
      rw [h] at ih
      simp [expandRuns] at ih ⊢
      exact ih
    | cons g gs =>
      obtain ⟨n, y⟩ := g
      rw [h] at ih
      simp only
      by_cases hxy : x = y
      · simp only [hxy, if_true, expandRuns] at ih ⊢
        rw [List.replicate_succ, List.cons_append, ih]
      · simp only [hxy, if_false, expandRuns] at ih ⊢
        simp [ih]

theorem sumCounts_groups {β : Type} [DecidableEq β] : ∀ xs : List β, sumCounts (groups xs) = xs.length := by
  intro xs
  induction xs with
  | nil => simp [groups, sumCounts]
  | cons x xs ih =>
    rw [groups_cons]
    cases h : groups xs with
    | nil =>
      rw [h] at ih
      simp only [sumCounts, List.map_nil, List.sum_nil] at ih
      simp [sumCounts, ← ih]
    | cons g gs =>
      obtain ⟨n, y⟩ := g
      rw [h] at ih
      simp only
      by_cases hxy : x = y
      · simp only [hxy, if_true, sumCounts, List.map_cons, List.sum_cons, List.length_cons] at ih ⊢; omega
      · simp only [hxy, if_false, sumCounts, List.map_cons, List.sum_cons, List.length_cons] at ih ⊢; omega

theorem groups_mem {β : Type} [DecidableEq β] : ∀ (xs : List β) (g : Nat × β), g ∈ groups xs → g.2 ∈ xs := by
  intro xs
  induction xs with
  | nil => intro g hg; simp [groups] at hg
  | cons x xs ih =>
    intro g hg
    rw [groups_cons] at hg
    cases h : groups xs with
    | nil => rw [h] at hg; simp at hg; subst hg; simp
    | cons g0 gs =>
      obtain ⟨n, y⟩ := g0
      rw [h] at hg ih
      simp only at hg
      by_cases hxy : x = y
      · simp only [hxy, if_true, List.mem_cons] at hg
        rcases hg with hg | hg
        · subst hg; simp [hxy]
        · exact List.mem_cons_of_mem _ (ih g (List.mem_cons_of_mem _ hg))
      · simp only [hxy, if_false, List.mem_cons] at hg
        rcases hg with hg | hg | hg
        · subst hg; simp
        · subst hg; exact List.mem_cons_of_mem _ (ih _ (List.mem_cons_self))
        · exact List.mem_cons_of_mem _ (ih g (List.mem_cons_of_mem _ hg))

/-! ### segments of a group list -/

theorem itemsAux_none {α : Type} (n : Nat) (gs : List (Nat × Option α)) :
    itemsAux ((n, none) :: gs) = ([], .null n :: closeLit (itemsAux gs).1 (itemsAux gs).2) := by
  simp [itemsAux]

theorem itemsAux_some {α : Type} (n : Nat) (v : α) (gs : List (Nat × Option α)) :
    itemsAux ((n, some v) :: gs) =
      if n = 1 then (v :: (itemsAux gs).1, (itemsAux gs).2)
      else ([], .run n v :: closeLit (itemsAux gs).1 (itemsAux gs).2) := by
  simp only [itemsAux]

theorem expand_litv_append {α : Type} (lit : List α) (items : List (Item α)) :
    expand (lit.map Item.litv ++ items) = lit.map some ++ expand items := by
  induction lit with
  | nil => simp
  | cons v l ih => simp [expand, ih]

theorem expand_closeLit {α : Type} (lit : List α) (items : List (Item α)) :
    expand (closeLit lit items) = lit.map some ++ expand items := by
  unfold closeLit
  cases lit with
  | nil => simp
  | cons v l => simp [expand, expand_litv_append]

theorem expand_itemsAux {α : Type} : ∀ gs : List (Nat × Option α),
    (itemsAux gs).1.map some ++ expand (itemsAux gs).2 = expandRuns gs := by
  intro gs
  induction gs with
  | nil => simp [itemsAux, expand, expandRuns]
  | cons g gs ih =>
    obtain ⟨n, x⟩ := g
    cases x with
    | none =>
      rw [itemsAux_none]
      simp [expand, expand_closeLit, expandRuns, ih]
    | some v =>
      rw [itemsAux_some]
      by_cases h1 : n = 1
      · subst h1
        simp only [if_true, List.map_cons, List.cons_append, expandRuns]
        rw [ih]; simp
      · simp only [h1, if_false, List.map_nil, List.nil_append, expand, expand_closeLit, expandRuns, ih]

theorem expand_itemsOf {α : Type} [DecidableEq α] (xs : List (Option α)) : expand (itemsOf xs) = xs := by
  unfold itemsOf
  show expand (closeLit (itemsAux (groups xs)).1 (itemsAux (groups xs)).2) = xs
  rw [expand_closeLit, expand_itemsAux, expandRuns_groups]

theorem itemsLen_litv_append {α : Type} (lit : List α) (items : List (Item α)) :
    itemsLen (lit.map Item.litv ++ items) = lit.length + itemsLen items := by
  induction lit with
  | nil => simp
  | cons v l ih =>
    simp only [List.map_cons, List.cons_append, List.length_cons]
    unfold itemsLen at ih ⊢
    simp only [List.map_cons, List.sum_cons, itemCount]
    omega

theorem itemsLen_closeLit {α : Type} (lit : List α) (items : List (Item α)) :
    itemsLen (closeLit lit items) = lit.length + itemsLen items := by
  unfold closeLit
  cases lit with
  | nil => simp
  | cons v l =>
    simp only [List.isEmpty_cons, Bool.false_eq_true, if_false]
    have := itemsLen_litv_append (v :: l) items
    unfold itemsLen at this ⊢
    simp only [List.map_cons, List.sum_cons, itemCount] at this ⊢
    omega

theorem itemsLen_itemsAux {α : Type} : ∀ gs : List (Nat × Option α),
    (itemsAux gs).1.length + itemsLen (itemsAux gs).2 = sumCounts gs := by
  intro gs
  induction gs with
  | nil => simp [itemsAux, itemsLen, sumCounts]
  | cons g gs ih =>
    obtain ⟨n, x⟩ := g
    cases x with
    | none =>
      rw [itemsAux_none]
      have := itemsLen_closeLit (itemsAux gs).1 (itemsAux gs).2
      unfold itemsLen sumCounts at *
      simp only [List.length_nil, List.map_cons, List.sum_cons, itemCount]
      omega
    | some v =>
      rw [itemsAux_some]
      by_cases h1 : n = 1
      · subst h1
        unfold itemsLen sumCounts at *
        simp only [if_true, List.length_cons, List.map_cons, List.sum_cons]
        omega
      · have := itemsLen_closeLit (itemsAux gs).1 (itemsAux gs).2
        unfold itemsLen sumCounts at *
        simp only [h1, if_false, List.length_nil, List.map_cons, List.sum_cons, itemCount]
        omega

theorem itemsLen_itemsOf {α : Type} [DecidableEq α] (xs : List (Option α)) : itemsLen (itemsOf xs) = xs.length := by
  unfold itemsOf
  show itemsLen (closeLit (itemsAux (groups xs)).1 (itemsAux (groups xs)).2) = xs.length
  rw [itemsLen_closeLit, itemsLen_itemsAux, sumCounts_groups]

/-! ### the encoder's segments are canonical -/

/-- what the state must satisfy for the first group when that group is read *inside* the state
    (a literal value continues the open literal run; a run / null starts a new segment) -/
def compatFirst {α : Type} [DecidableEq α] (st : PState α) : List (Nat × Option α) → Prop
  | [] => True
  | (_, none) :: _ => st.prev.isNull = false
  | (n, some v) :: _ =>
    if n = 1 then st.prevLit ≠ some v ∧ ¬ (st.prevLit = none ∧ st.prev.sameValue v = true)
    else st.prev.sameValue v = false

/-- what the previous segment must satisfy at a segment boundary before the first group -/
def boundaryCompat {α : Type} [DecidableEq α] (p : Prev α) : List (Nat × Option α) → Prop
  | [] => True
  | (_, none) :: _ => p.isNull = false
  | (_, some v) :: _ => p.sameValue v = false

def GroupValid {α : Type} (Valid : α → Prop) (nullable : Bool) (gs : List (Nat × Option α)) : Prop :=
  ∀ g ∈ gs, match g.2 with
    | some v => Valid v
    | none => nullable = true

/-- the statement proved by induction over the groups -/
def CanonAux {α : Type} [DecidableEq α] (Valid : α → Prop) (nullable : Bool) (gs : List (Nat × Option α)) : Prop :=
  ∀ st : PState α, st.litLeft = (itemsAux gs).1.length → compatFirst st gs →
    canon Valid nullable st ((itemsAux gs).1.map Item.litv ++ (itemsAux gs).2)

theorem lit_length_le {α : Type} : ∀ gs : List (Nat × Option α), (itemsAux gs).1.length ≤ sumCounts gs := by
  intro gs
  have := itemsLen_itemsAux gs
  omega

theorem close_canon {α : Type} [DecidableEq α] (Valid : α → Prop) (nullable : Bool)
    (gs : List (Nat × Option α)) (ih : CanonAux Valid nullable gs) (hb : sumCounts gs < two63)
    (st : PState α) (h0 : st.litLeft = 0) (hl : st.prev.isLit = false) (hc : boundaryCompat st.prev gs) :
    canon Valid nullable st (closeLit (itemsAux gs).1 (itemsAux gs).2) := by
  have hlen := lit_length_le gs
  cases gs with
  | nil => simp [itemsAux, closeLit, canon, h0]
  | cons g gs' =>
    obtain ⟨m, y⟩ := g
    cases y with
    | none =>
      have e : (itemsAux ((m, none) :: gs')).1 = [] := by rw [itemsAux_none]
      have := ih st (by rw [e]; simpa using h0) (by simpa [compatFirst, boundaryCompat] using hc)
      rw [e] at this ⊢
      simpa [closeLit] using this
    | some w =>
      by_cases h1 : m = 1
      · subst h1
        have e : (itemsAux ((1, some w) :: gs')).1 = w :: (itemsAux gs').1 := by rw [itemsAux_some]; simp
        have e2 : (itemsAux ((1, some w) :: gs')).2 = (itemsAux gs').2 := by rw [itemsAux_some]; simp
        rw [e] at hlen
        have hc' : st.prev.sameValue w = false := by simpa [boundaryCompat] using hc
        have := ih { litLeft := (w :: (itemsAux gs').1).length, prev := st.prev, prevLit := none }
          (by rw [e]) (by simp [compatFirst, hc'])
        rw [e, e2] at this ⊢
        simp only [closeLit, List.isEmpty_cons, Bool.false_eq_true, if_false, canon]
        refine ⟨h0, by simp, by simp only [List.length_cons] at hlen ⊢; omega, hl, ?_⟩
        exact this
      · have e : (itemsAux ((m, some w) :: gs')).1 = [] := by rw [itemsAux_some]; simp [h1]
        have hc' : st.prev.sameValue w = false := by simpa [boundaryCompat] using hc
        have := ih st (by rw [e]; simpa using h0) (by simp [compatFirst, h1, hc'])
        rw [e] at this ⊢
        simpa [closeLit] using this

theorem sumCounts_cons {β : Type} (n : Nat) (x : β) (gs : List (Nat × β)) :
    sumCounts ((n, x) :: gs) = n + sumCounts gs := by
  simp [sumCounts]

theorem groupsOK_tail {β : Type} (g : Nat × β) (gs : List (Nat × β)) (h : GroupsOK (g :: gs)) : GroupsOK gs := by
  obtain ⟨n, x⟩ := g
  cases gs with
  | nil => simp [GroupsOK]
  | cons g2 r => obtain ⟨m, y⟩ := g2; simp only [GroupsOK] at h; exact h.2.2

theorem groupsOK_head {β : Type} (n : Nat) (x : β) (gs : List (Nat × β)) (h : GroupsOK ((n, x) :: gs)) : 1 ≤ n := by
  cases gs with
  | nil => simpa [GroupsOK] using h
  | cons g2 r => obtain ⟨m, y⟩ := g2; simp only [GroupsOK] at h; exact h.1

theorem groupsOK_ne {β : Type} (n m : Nat) (x y : β) (gs : List (Nat × β))
    (h : GroupsOK ((n, x) :: (m, y) :: gs)) : x ≠ y := by
  simp only [GroupsOK] at h; exact h.2.1

theorem canon_aux {α : Type} [DecidableEq α] (Valid : α → Prop) (nullable : Bool) :
    ∀ gs : List (Nat × Option α), GroupsOK gs → sumCounts gs < two63 → GroupValid Valid nullable gs →
      CanonAux Valid nullable gs := by
  intro gs
  induction gs with
  | nil =>
    intro _ _ _ st h _
    simpa [itemsAux, canon] using h
  | cons g gs ih =>
    obtain ⟨n, x⟩ := g
    intro hok hb hv st hl hc
    have hn1 := groupsOK_head n x gs hok
    have hok' := groupsOK_tail _ _ hok
    rw [sumCounts_cons] at hb
    have hv' : GroupValid Valid nullable gs := fun g hg => hv g (List.mem_cons_of_mem _ hg)
    have ih' := ih hok' (by omega) hv'
    have hvx := hv (n, x) List.mem_cons_self
    cases x with
    | none =>
      rw [itemsAux_none] at hl ⊢
      simp only [List.map_nil, List.nil_append, canon]
      refine ⟨by simpa using hl, hn1, by unfold two64 two63 at *; omega, by simpa [compatFirst] using hc,
        by simpa using hvx, ?_⟩
      apply close_canon Valid nullable gs ih' (by omega)
      · rfl
      · rfl
      · cases gs with
        | nil => simp [boundaryCompat]
        | cons g2 r =>
          obtain ⟨m, y⟩ := g2
          have hne := groupsOK_ne _ _ _ _ _ hok
          cases y with
          | none => exact absurd rfl hne
          | some w => simp [boundaryCompat, Prev.sameValue]
    | some v =>
      have hvv : Valid v := by simpa using hvx
      by_cases h1 : n = 1
      · subst h1
        have e : (itemsAux ((1, some v) :: gs)).1 = v :: (itemsAux gs).1 := by rw [itemsAux_some]; simp
        have e2 : (itemsAux ((1, some v) :: gs)).2 = (itemsAux gs).2 := by rw [itemsAux_some]; simp
        rw [e] at hl
        rw [e, e2]
        simp only [compatFirst, if_true] at hc
        simp only [List.map_cons, List.cons_append, canon]
        refine ⟨by simp only [List.length_cons] at hl; omega, hc.1, hc.2, hvv, ?_⟩
        apply ih'
        · simp only [List.length_cons] at hl; simp only; omega
        · cases gs with
          | nil => simp [compatFirst]
          | cons g2 r =>
            obtain ⟨m, y⟩ := g2
            have hne := groupsOK_ne _ _ _ _ _ hok
            cases y with
            | none => simp [compatFirst, Prev.isNull]
            | some w =>
              have hvw : v ≠ w := fun h => hne (by rw [h])
              by_cases hm : m = 1
              · simp [compatFirst, hm, hvw]
              · simp [compatFirst, hm, Prev.sameValue, hvw]
      · have e : itemsAux ((n, some v) :: gs) = ([], .run n v :: closeLit (itemsAux gs).1 (itemsAux gs).2) := by
          rw [itemsAux_some]; simp [h1]
        rw [e] at hl ⊢
        simp only [compatFirst, h1, if_false] at hc
        simp only [List.map_nil, List.nil_append, canon]
        refine ⟨by simpa using hl, by omega, by omega, hc, hvv, ?_⟩
        apply close_canon Valid nullable gs ih' (by omega)
        · rfl
        · rfl
        · cases gs with
          | nil => simp [boundaryCompat]
          | cons g2 r =>
            obtain ⟨m, y⟩ := g2
            have hne := groupsOK_ne _ _ _ _ _ hok
            cases y with
            | none => simp [boundaryCompat, Prev.isNull]
            | some w =>
              have hvw : v ≠ w := fun h => hne (by rw [h])
              simp [boundaryCompat, Prev.sameValue, hvw]

/-- every value of the list is packable, and nulls only occur in nullable columns -/
def ListValid {α : Type} (Valid : α → Prop) (nullable : Bool) (xs : List (Option α)) : Prop :=
  ∀ x ∈ xs, match x with
    | some v => Valid v
    | none => nullable = true

theorem canon_itemsOf {α : Type} [DecidableEq α] (Valid : α → Prop) (nullable : Bool) (xs : List (Option α))
    (hlen : xs.length < two63) (hv : ListValid Valid nullable xs) :
    canon Valid nullable {} (itemsOf xs) := by
  unfold itemsOf
  show canon Valid nullable {} (closeLit (itemsAux (groups xs)).1 (itemsAux (groups xs)).2)
  have hgv : GroupValid Valid nullable (groups xs) := by
    intro g hg
    exact hv g.2 (groups_mem xs g hg)
  have hs : sumCounts (groups xs) < two63 := by rw [sumCounts_groups]; exact hlen
  apply close_canon Valid nullable (groups xs) (canon_aux Valid nullable _ (groups_ok xs) hs hgv) hs
  · rfl
  · rfl
  · cases groups xs with
    | nil => simp [boundaryCompat]
    | cons g r =>
      obtain ⟨m, y⟩ := g
      cases y <;> simp [boundaryCompat, Prev.isNull, Prev.sameValue]

end AmVerif.Hexane
