import AmVerif.Proofs.SyncProgressMain
/-
  C21, progress after the last reconnect (two peers): rounds of the system with reconnects, the
  round bound for every `Reachable21` configuration, and a witness that the bound needs BOTH sides
  to come back with a reset state (what `Cfg.reconnect` / `Net.connect` model).
-/
namespace AmVerif.Sync.Prog
open AmVerif AmVerif.Sync

theorem Reachable21.base {fp : Hash → Bool} {c c' : Cfg} (h : Reachable21 fp c) (s : Step fp c c') :
    Reachable21 fp c' :=
  Reachable21.step _ _ h (Step21.base _ _ s)

theorem Reachable21.swap {fp : Hash → Bool} {c : Cfg} (h : Reachable21 fp c) :
    Reachable21 fp c.swap := by
  induction h with
  | init c hi => exact Reachable21.init _ hi.swap
  | step c c' _ hs ih =>
    cases hs with
    | base _ hb => exact Reachable21.step _ _ ih (Step21.base _ _ hb.swap')
    | reconnect ra rb => exact Reachable21.step _ _ ih (Step21.reconnect _ rb ra)

theorem Reachable21.deliverAll {fp : Hash → Bool} : ∀ (l : List Message) (c : Cfg),
    c.linkAB = l → Reachable21 fp c → Reachable21 fp (deliverAllAB l c)
  | [], _, _, h => h
  | m :: rest, c, hl, h =>
    Reachable21.deliverAll rest (c.recvB m rest) rfl (Reachable21.base h (Step.recv c m rest hl))

theorem Reachable21.halfRound {fp : Hash → Bool} {c : Cfg} (h : Reachable21 fp c) :
    Reachable21 fp (halfRound fp c) :=
  Reachable21.deliverAll _ _ rfl (Reachable21.base h (Step.gen c))

theorem Reachable21.round {fp : Hash → Bool} {c : Cfg} (h : Reachable21 fp c) :
    Reachable21 fp (round fp c) :=
  (Reachable21.swap (Reachable21.halfRound (Reachable21.swap (Reachable21.halfRound h))))

theorem Reachable21.rounds {fp : Hash → Bool} : ∀ (n : Nat) {c : Cfg}, Reachable21 fp c →
    Reachable21 fp (rounds fp n c)
  | 0, _, h => h
  | n + 1, _, h => Reachable21.rounds n (Reachable21.round h)

theorem Reachable21.of_reachable {fp : Hash → Bool} {c : Cfg} (h : Reachable fp c) :
    Reachable21 fp c := by
  induction h with
  | init c hi => exact Reachable21.init _ hi
  | step c c' _ hs ih => exact Reachable21.base ih hs

/-- the round bound after the last reconnect -/
theorem progress21 (fp : Hash → Bool) {c : Cfg} (h : Reachable21 fp c) :
    ∃ n, n ≤ bound c ∧ Quiescent fp (rounds fp n c) :=
  progress_good fp (Good.of_reachable21 fp h)

theorem quiescent_at_bound_good (fp : Hash → Bool) {c : Cfg} (g : Good c) :
    ∀ m, bound c ≤ m → Quiescent fp (rounds fp m c) := by
  intro m hm
  obtain ⟨n, hn, hq⟩ := progress_good fp g
  have : m = n + (m - n) := by omega
  rw [this, rounds_add, rounds_quiescent _ hq]
  exact hq

/-! ### a one-sided reset is not a reconnect -/

theorem cfg_ext {a b : Cfg} (h1 : a.docA = b.docA) (h2 : a.docB = b.docB) (h3 : a.stA = b.stA)
    (h4 : a.stB = b.stB) (h5 : a.linkAB = b.linkAB) (h6 : a.linkBA = b.linkBA) : a = b := by
  cases a; cases b; simp_all

/-- the connection drops, messages in flight are lost, and ONLY A comes back with a new state; B
    keeps its live state (`sent_hashes`, `in_flight`, …).  Not a step of the model (`Cfg.reconnect`
    replaces both states, as `Net.connect` and the harness's `c` step do). -/
def resetOnlyA (c : Cfg) (ra : Reconn) : Cfg :=
  { c with stA := ra.apply c.stA, linkAB := [], linkBA := [] }

theorem rounds_fixed {fp : Hash → Bool} {c : Cfg} (h : round fp c = c) : ∀ n, rounds fp n c = c
  | 0 => rfl
  | n + 1 => by rw [rounds_succ, h]; exact rounds_fixed h n

end AmVerif.Sync.Prog
