import AmVerif.Proofs.DocCodecLayout
import AmVerif.Proofs.DocCodecRows
import AmVerif.Proofs.HexaneLoad
/-
  Helper lemmas for C11 (document chunk): the assembly of `decodeDoc (encodeDoc img) = ok img` from
  the framing (`DocCodecFrame`, `DocCodecLayout`), the row level (`DocCodecRows`) and the column-level
  facts `OpColFacts` / `ChangeColFacts` (every column of the image loads back to its values).
-/
namespace AmVerif.DocCodec
open AmVerif AmVerif.Leb
open AmVerif.Hexane (ValCodec Item Weight cU64 cU32 cI64 cStr rleEncode deltaEncode boolEncode rleLoad boolLoad
  two63 two64 HErr itemsOf itemsLen)
open AmVerif.ChangeCodec (valueMeta valueRaw)

def natI : Nat → Int := fun n => n
def metaLen : Nat → Int := fun m => ((m / 16 : Nat) : Int)
def intsOf (xs : List Nat) : List (Option Int) := xs.map (fun (n : Nat) => some (Int.ofNat n))
def optIntsOf (xs : List (Option Nat)) : List (Option Int) := xs.map (fun x => x.map (fun (n : Nat) => Int.ofNat n))

theorem somes_map_some {α : Type} (xs : List α) : somes (xs.map some) = xs := by
  induction xs with
  | nil => rfl
  | cons x xs ih => simp only [somes, List.map_cons, List.filterMap_cons, id] at ih ⊢; rw [ih]

theorem somes_intsOf (xs : List Nat) : (somes (intsOf xs)).map Int.toNat = xs := by
  induction xs with
  | nil => rfl
  | cons x xs ih =>
    simp only [somes, intsOf, List.map_cons, List.filterMap_cons, id] at ih ⊢
    rw [ih]; simp

theorem natsOf_optIntsOf (xs : List (Option Nat)) : natsOf (optIntsOf xs) = xs := by
  induction xs with
  | nil => rfl
  | cons x xs ih =>
    simp only [natsOf, optIntsOf, List.map_cons, List.map_map] at ih ⊢
    rw [ih]
    cases x <;> simp

/-- **column-level facts about the op columns**: each column of the image, as `encodeDoc` writes it,
    is loaded back to its value list by the loader `Columns::load` uses for it -/
structure OpColFacts (limit : Nat) (rows : List OpRow) : Prop where
  len : rows.length ≤ limit
  succLen : (rows.map (·.succ.length)).sum ≤ limit
  dataLen : (colData (nonEmptyCols (opCols rows))).length < 2 ^ 64
  idActor : rleLoad cActor false .len natI none (encNonNull cActor (rows.map (·.id.actor)))
    = .ok (itemsOf ((rows.map (·.id.actor)).map some))
  idCtr : loadDelta false 0 u32max rows.length none (encDelta (rows.map (·.id.ctr))) = .ok (intsOf (rows.map (·.id.ctr)))
  objActor : loadRle cActor true .len natI rows.length (some none) (encNullable cActor (rows.map objActorOf))
    = .ok (rows.map objActorOf)
  objCtr : loadRle cU32 true .len natI rows.length (some none) (encNullable cU32 (rows.map objCtrOf))
    = .ok (rows.map objCtrOf)
  keyActor : loadRle cActor true .len natI rows.length (some none) (encNullable cActor (rows.map keyActorOf))
    = .ok (rows.map keyActorOf)
  keyCtr : loadDelta true 0 u32max rows.length (some none) (encDeltaNullable (rows.map keyCtrOf))
    = .ok (optIntsOf (rows.map keyCtrOf))
  keyStr : loadRle cStr true .len (fun _ => 0) rows.length (some none) (encNullable cStr (rows.map keyStrOf))
    = .ok (rows.map keyStrOf)
  insert : loadBool true rows.length (boolEncode (rows.map (·.insert))) = .ok (rows.map (·.insert))
  action : loadRle cAction false .len natI rows.length none (encNonNull cAction (rows.map (·.action)))
    = .ok ((rows.map (·.action)).map some)
  markName : loadRle cStr true .len (fun _ => 0) rows.length (some none) (encNullable cStr (rows.map (·.markName)))
    = .ok (rows.map (·.markName))
  expand : loadBool false rows.length (encBoolUnless (rows.map (·.expand))) = .ok (rows.map (·.expand))
  succCount : loadRle cU32 false (.prefixU two64) natI rows.length none (encNonNull cU32 (rows.map (·.succ.length)))
    = .ok ((rows.map (·.succ.length)).map some)
  succActor : loadRle cActor false .len natI (rows.map (·.succ.length)).sum none
      (encNonNull cActor ((rows.flatMap (·.succ)).map (·.actor)))
    = .ok (((rows.flatMap (·.succ)).map (·.actor)).map some)
  succCtr : loadDelta false 0 u32max (rows.map (·.succ.length)).sum none (encDelta ((rows.flatMap (·.succ)).map (·.ctr)))
    = .ok (intsOf ((rows.flatMap (·.succ)).map (·.ctr)))
  valMeta : loadRle cU64 false (.prefixU two64) metaLen rows.length none
      (encNonNull cU64 (rows.map (fun r => valueMeta r.val)))
    = .ok ((rows.map (fun r => valueMeta r.val)).map some)

theorem opSpecs_nodup : opSpecs.Nodup := by decide
theorem changeSpecs_nodup : changeSpecs.Nodup := by decide

/-- **`Columns::load` on the encoded op table** gives the image's columns -/
theorem loadOpCols_encode (limit : Nat) (rows : List OpRow) (h : OpColFacts limit rows) :
    loadOpCols limit (rangesOf (nonEmptyCols (opCols rows))) (colData (nonEmptyCols (opCols rows)))
      = .ok (colsOfRows rows) := by
  have hnd : ((opCols rows).map (·.1)).Nodup := by rw [opCols_specs]; exact opSpecs_nodup
  have B : ∀ spec b, (spec, b) ∈ opCols rows →
      colBytes (rangesOf (nonEmptyCols (opCols rows))) (colData (nonEmptyCols (opCols rows))) spec = b :=
    fun spec b hm => colBytes_encoded (opCols rows) spec b hnd hm h.dataLen
  have hlen : itemsLen (itemsOf ((rows.map (·.id.actor)).map some)) = rows.length := by
    rw [Hexane.itemsLen_itemsOf]; simp
  have hexp : somes (Hexane.expand (itemsOf ((rows.map (·.id.actor)).map some))) = rows.map (·.id.actor) := by
    rw [Hexane.expand_itemsOf, somes_map_some]
  have hnl : ¬ rows.length > limit := by have := h.len; omega
  have hns : ¬ (rows.map (·.succ.length)).sum > limit := by have := h.succLen; omega
  unfold loadOpCols
  have m (k : Nat) (c : Nat × Bytes) (hk : (opCols rows)[k]? = some c) :
      colBytes (rangesOf (nonEmptyCols (opCols rows))) (colData (nonEmptyCols (opCols rows))) c.1 = c.2 :=
    B c.1 c.2 (List.mem_of_getElem? hk)
  have b0 := m 0 _ rfl; have b1 := m 1 _ rfl; have b2 := m 2 _ rfl; have b3 := m 3 _ rfl
  have b4 := m 4 _ rfl; have b5 := m 5 _ rfl; have b6 := m 6 _ rfl; have b7 := m 7 _ rfl
  have b8 := m 8 _ rfl; have b9 := m 9 _ rfl; have b10 := m 10 _ rfl; have b11 := m 11 _ rfl
  have b12 := m 12 _ rfl; have b13 := m 13 _ rfl; have b14 := m 14 _ rfl; have b15 := m 15 _ rfl
  simp only at b0 b1 b2 b3 b4 b5 b6 b7 b8 b9 b10 b11 b12 b13 b14 b15
  simp only [b0, b1, b2, b3, b4, b5, b6, b7, b8, b9, b10, b11, b12, b13, b14, b15]
  have e1 := h.idActor; unfold natI at e1
  rw [e1]
  simp only [hlen, if_neg hnl, hexp]
  have e2 := h.idCtr; have e3 := h.objActor; have e4 := h.objCtr; have e5 := h.keyActor; have e6 := h.keyCtr
  have e7 := h.keyStr; have e8 := h.insert; have e9 := h.action; have e10 := h.markName; have e11 := h.expand
  have e12 := h.succCount; have e13 := h.succActor; have e14 := h.succCtr; have e15 := h.valMeta
  unfold natI at e3 e4 e5 e9 e12 e13
  unfold metaLen at e15
  simp only [e2, e3, e4, e5, e6, e7, e8, e9, e10, e11, e12, liftH, bind, Outcome.bind, somes_map_some, if_neg hns,
    e13, e14, e15, pure, somes_intsOf, natsOf_optIntsOf, colsOfRows]

/-! ### the change columns -/

/-- the lookup `RawColumns::bytes` does (first match) on the encoded table -/
theorem colFind_aux : ∀ (ne : List (Nat × Bytes)) (pre : Bytes) (spec : Nat),
    pre.length + (colData ne).length < 2 ^ 64 →
    colFirst (ChangeCodec.colRanges (metaPairs ne) pre.length) (pre ++ colData ne) spec =
      (match ne.find? (fun c => c.1 = spec) with | some c => c.2 | none => [])
  | [], pre, spec, _ => by simp [colFirst, metaPairs, ChangeCodec.colRanges]
  | (s, b) :: rest, pre, spec, hlen => by
    unfold colFirst
    have hcd : colData ((s, b) :: rest) = b ++ colData rest := by simp [colData]
    rw [hcd] at hlen ⊢
    simp only [List.length_append] at hlen
    have hm : min (pre.length + b.length) ChangeCodec.usizeMax = pre.length + b.length := by
      unfold ChangeCodec.usizeMax; omega
    have ih := colFind_aux rest (pre ++ b) spec (by simp only [List.length_append]; omega)
    unfold colFirst at ih
    simp only [List.length_append, List.append_assoc] at ih
    simp only [metaPairs, List.map_cons, ChangeCodec.colRanges, hm, List.find?_cons]
    by_cases hs : s = spec
    · subst hs
      simp only [decide_true]
      exact slice_mid pre b (colData rest)
    · simp only [hs, decide_false]
      simp only [metaPairs] at ih
      exact ih

theorem colFind_encoded (cols : List (Nat × Bytes)) (spec : Nat) (b : Bytes)
    (hnd : (cols.map (·.1)).Nodup) (hm : (spec, b) ∈ cols)
    (hlen : (colData (nonEmptyCols cols)).length < 2 ^ 64) :
    colFirst (rangesOf (nonEmptyCols cols)) (colData (nonEmptyCols cols)) spec = b := by
  have := colFind_aux (nonEmptyCols cols) [] spec (by simpa using hlen)
  simp only [List.length_nil, List.nil_append] at this
  unfold rangesOf
  rw [this]
  by_cases hb : b = []
  · subst hb
    have : (nonEmptyCols cols).find? (fun c => c.1 = spec) = none := by
      rw [List.find?_eq_none]
      intro c hc
      simp only [decide_eq_true_eq]
      intro hcs
      have hc' := List.mem_filter.mp hc
      have : c = (spec, []) := by
        have h1 := hc'.1
        obtain ⟨c1, c2⟩ := c
        simp only at hcs
        subst hcs
        have := nodup_fst_unique hnd h1 hm
        rw [this]
      rw [this] at hc'
      simp at hc'
    rw [this]
  · have hmem : (spec, b) ∈ nonEmptyCols cols := List.mem_filter.mpr ⟨hm, by simp [hb]⟩
    cases hf : (nonEmptyCols cols).find? (fun c => c.1 = spec) with
    | none =>
      rw [List.find?_eq_none] at hf
      exact absurd (hf _ hmem) (by simp)
    | some c =>
      have hc := List.mem_of_find?_eq_some hf
      have hcs := List.find?_some hf
      simp only [decide_eq_true_eq] at hcs
      obtain ⟨c1, c2⟩ := c
      simp only at hcs
      subst hcs
      have := nodup_fst_unique hnd (nonEmptyCols_sub cols _ hc) hm
      simp only
      rw [this]

def i64lo : Int := -(two63 : Int)
def i64hi : Int := (two63 : Int) - 1

/-- **column-level facts about the change columns** -/
structure ChangeColFacts (limit numActors : Nat) (cs : List ChangeMeta) : Prop where
  dataLen : (colData (nonEmptyCols (changeCols cs))).length < 2 ^ 64
  actorBound : ∀ c ∈ cs, c.actor < numActors
  actor : lenientCol cActor limit (encNonNull cActor (cs.map (·.actor))) = .ok (some (cs.map (·.actor)))
  maxOp : lenientDelta limit (encDelta (cs.map (·.maxOp))) = .ok (some (cs.map (·.maxOp)))
  seq : lenientDelta limit (encDelta (cs.map (·.seq))) = .ok (some (cs.map (·.seq)))
  time : loadDelta false i64lo i64hi cs.length (some (some 0)) (deltaEncode (cs.map (fun c => some c.time)))
    = .ok (cs.map (fun c => some c.time))
  message : loadRle cStr true .len (fun _ => 0) cs.length (some none) (encNullable cStr (cs.map (·.message)))
    = .ok (cs.map (·.message))
  extraMeta : loadRle cU64 false (.prefixU two64) metaLen cs.length none (encNonNull cU64 (cs.map (fun c => extraMeta c.extra)))
    = .ok ((cs.map (fun c => extraMeta c.extra)).map some)
  depsCount : lenientCol cU32 limit (encNonNull cU64 (cs.map (·.deps.length))) = .ok (some (cs.map (·.deps.length)))
  deps : depsLoop (cs.map (·.maxOp)) (cs.map (·.deps.length)) (lInit (encDelta (cs.flatMap (·.deps))), 0) 0
    = .ok (cs.map (·.deps))

theorem extras_encode (raw : Bytes) : ∀ (cs : List ChangeMeta) (pre : Bytes), raw = pre ++ cs.flatMap (·.extra) →
    loadChangeCols.extras raw (cs.map (fun c => extraMeta c.extra)) pre.length = .ok (cs.map (·.extra))
  | [], _, _ => rfl
  | c :: cs, pre, h => by
    have hl : extraMeta c.extra / 16 = c.extra.length := by unfold extraMeta; omega
    have ih := extras_encode raw cs (pre ++ c.extra) (by rw [h]; simp [List.flatMap_cons])
    simp only [List.length_append] at ih
    simp only [List.map_cons, loadChangeCols.extras, hl, ih]
    have : ¬ raw.length < pre.length + c.extra.length := by rw [h]; simp
    rw [if_neg this]
    have : (raw.drop pre.length).take c.extra.length = c.extra := by
      rw [h, List.drop_left' rfl]
      simp only [List.flatMap_cons]
      exact List.take_left' rfl
    rw [this]

theorem zip_changeMeta : ∀ (cs : List ChangeMeta),
    ((cs.map (·.actor)).zip ((cs.map (·.seq)).zip ((cs.map (·.maxOp)).zip ((cs.map (·.time)).zip
      ((cs.map (·.message)).zip ((cs.map (·.deps)).zip (cs.map (·.extra)))))))).map
      (fun (a, s, m, t, msg, d, e) => (⟨a, s, m, t, msg, d, e⟩ : ChangeMeta)) = cs
  | [] => rfl
  | c :: cs => by simp only [List.map_cons, List.zip_cons_cons, zip_changeMeta cs]

/-- **`ChangeGraphCols::load` + `ChangeIter` on the encoded change table** give the image's change rows -/
theorem loadChangeCols_encode (limit numActors : Nat) (cs : List ChangeMeta) (h : ChangeColFacts limit numActors cs) :
    loadChangeCols limit numActors (rangesOf (nonEmptyCols (changeCols cs))) (colData (nonEmptyCols (changeCols cs)))
      = .ok cs := by
  have hnd : ((changeCols cs).map (·.1)).Nodup := by rw [changeCols_specs]; exact changeSpecs_nodup
  have m (k : Nat) (c : Nat × Bytes) (hk : (changeCols cs)[k]? = some c) :
      colFirst (rangesOf (nonEmptyCols (changeCols cs))) (colData (nonEmptyCols (changeCols cs))) c.1 = c.2 :=
    colFind_encoded (changeCols cs) c.1 c.2 hnd (List.mem_of_getElem? hk) h.dataLen
  have b0 := m 0 _ rfl; have b1 := m 1 _ rfl; have b2 := m 2 _ rfl; have b3 := m 3 _ rfl
  have b4 := m 4 _ rfl; have b5 := m 5 _ rfl; have b6 := m 6 _ rfl; have b7 := m 7 _ rfl; have b8 := m 8 _ rfl
  simp only at b0 b1 b2 b3 b4 b5 b6 b7 b8
  have hab : (cs.map (·.actor)).any (fun a => decide (numActors ≤ a)) = false := by
    rw [List.any_eq_false]
    intro a ha
    obtain ⟨c, hc, rfl⟩ := List.mem_map.mp ha
    have := h.actorBound c hc
    simp; omega
  have e1 := h.time; have e2 := h.message; have e3 := h.extraMeta
  unfold i64lo i64hi at e1
  unfold metaLen at e3
  unfold loadChangeCols
  simp only [b0, b1, b2, b3, b4, b5, b6, b7, b8, h.actor, h.maxOp, h.seq, hab, List.length_map, e1, e2, e3,
    liftH, bind, Outcome.bind, h.depsCount, h.deps, somes_map_some, Bool.false_eq_true, if_false,
    ne_eq, not_true_eq_false, pure]
  have hex := extras_encode (cs.flatMap (·.extra)) cs [] (by simp)
  simp only [List.length_nil] at hex
  rw [hex]
  simp only
  have : somes (cs.map (fun c => some c.time)) = cs.map (·.time) := by
    have := somes_map_some (cs.map (·.time))
    simpa [List.map_map, Function.comp_def] using this
  rw [this, zip_changeMeta]

/-- **the chunk body round trip**, from the framing, the layout, the column-level facts and the
    row conditions -/
theorem decodeDoc_encode (limit : Nat) (img : DocImage) (hf : FrameWF img) (hl : LayoutOk img)
    (ho : OpColFacts limit img.ops) (hc : ChangeColFacts limit img.actors.length img.changes)
    (hr : ∀ r ∈ img.ops, RowWF r) :
    decodeDoc limit (encodeDoc img) = .ok img := by
  unfold decodeDoc decodeParts
  rw [parseBody_encode img hf hl]
  simp only
  rw [loadOpCols_encode limit img.ops ho, loadChangeCols_encode limit _ img.changes hc]
  simp only
  rw [readRows_colsOfRows img.ops hr]

end AmVerif.DocCodec
