import AmVerif.Proofs.DocCodecRecon
/-
  C11 (document chunk), reconstruction: the bookkeeping of `ChangeCollector::process_op / process_succ /
  flush_deletes` (`emitRow`) in closed form.

  * `lk`: the pending successor ids as a lookup; `pushPred`, the removal of a met id and the successor
    loop in terms of `lk`; key uniqueness and non-emptiness of the entries are kept;
  * `RunInv P s`: after the rows `P` of one register run the pending entries are exactly the successor
    ids not met as a row yet, each with the rows naming it (`namers`), in row order;
  * `emitRow_same` / `emitRow_new`: one row that continues the run / starts a new run.
-/
namespace AmVerif.DocCodec
open AmVerif AmVerif.Crdt AmVerif.ChangeCodec

/-- the register a row belongs to -/
def keyOf (r : OpRow) : Option IdI × DKey := (r.obj, r.regKey)

/-- the row's op with a predecessor list -/
def mkOp (r : OpRow) (pred : List IdI) : RecOp :=
  ⟨r.id, r.obj, r.key, r.insert, r.action, r.val, pred, r.expand, r.markName⟩

/-- the delete `flush_deletes` makes of a pending entry of the run `k` -/
def mkDel (k : Option IdI × DKey) (p : IdI × List IdI) : RecOp :=
  ⟨p.1, k.1, k.2, false, 3, .null, p.2, false, none⟩

/-- the rows naming `sid` as successor, in row order -/
def namers (R : List OpRow) (sid : IdI) : List IdI := (R.filter (fun x => x.succ.contains sid)).map (·.id)

/-- the pending entry of a successor id (`[]` when there is none) -/
def lk (L : List (IdI × List IdI)) (sid : IdI) : List IdI :=
  match L.find? (fun x => x.1 = sid) with | some x => x.2 | none => []

def pushAll (S : List IdI) (id : IdI) (L : List (IdI × List IdI)) : List (IdI × List IdI) :=
  S.foldl (fun acc sid => pushPred sid id acc) L

theorem flushOps_eq (s : EState) :
    flushOps s = match s.last with | none => [] | some k => s.preds.map (mkDel k) := by
  unfold flushOps
  cases s.last with
  | none => rfl
  | some k => rfl

theorem emitRow_eq (s : EState) (r : OpRow) :
    emitRow s r =
      ((if s.last ≠ some (keyOf r) then flushOps s else []) ++
        [mkOp r (lk (if s.last ≠ some (keyOf r) ∧ s.last.isSome then [] else s.preds) r.id)],
       ⟨if s.last ≠ some (keyOf r) then some (keyOf r) else s.last,
        pushAll r.succ r.id ((if s.last ≠ some (keyOf r) ∧ s.last.isSome then [] else s.preds).filter
          (fun x => x.1 ≠ r.id))⟩) := rfl

/-! ### lookups -/

theorem lk_nil (sid : IdI) : lk [] sid = [] := rfl

theorem lk_cons (p : IdI × List IdI) (L : List (IdI × List IdI)) (sid : IdI) :
    lk (p :: L) sid = if p.1 = sid then p.2 else lk L sid := by
  unfold lk
  rw [List.find?_cons]
  by_cases h : p.1 = sid
  · simp [h]
  · simp [h]

theorem lk_pushPred (sid id : IdI) (L : List (IdI × List IdI)) (k : IdI) :
    lk (pushPred sid id L) k = if k = sid then lk L sid ++ [id] else lk L k := by
  induction L with
  | nil =>
    unfold pushPred
    rw [lk_cons, lk_nil, lk_nil]
    by_cases h : k = sid
    · simp [h]
    · have : ¬ sid = k := fun h' => h h'.symm
      simp [h, this]
  | cons x xs ih =>
    unfold pushPred
    by_cases hx : x.1 = sid
    · rw [if_pos hx, lk_cons, lk_cons, lk_cons]
      by_cases h : k = sid
      · subst h; simp [hx]
      · have : ¬ x.1 = k := fun h' => h (h'.symm.trans hx)
        simp [h, this]
    · rw [if_neg hx, lk_cons, ih, lk_cons, lk_cons]
      by_cases h : k = sid
      · subst h; simp [hx]
      · simp [h]

theorem lk_filter (rid : IdI) (L : List (IdI × List IdI)) (k : IdI) :
    lk (L.filter (fun x => x.1 ≠ rid)) k = if k = rid then [] else lk L k := by
  induction L with
  | nil => simp [lk_nil]
  | cons x xs ih =>
    rw [List.filter_cons]
    by_cases hx : x.1 = rid
    · simp only [hx, ne_eq, not_true_eq_false, decide_false, Bool.false_eq_true, if_false, ih, lk_cons]
      by_cases h : k = rid
      · simp [h]
      · have : ¬ rid = k := fun h' => h h'.symm
        simp [h, this]
    · simp only [ne_eq, hx, not_false_eq_true, decide_true, if_true, lk_cons, ih]
      by_cases h : k = rid
      · subst h; simp [hx]
      · simp [h]

theorem lk_pushAll (S : List IdI) (hS : S.Nodup) (id : IdI) (L : List (IdI × List IdI)) (k : IdI) :
    lk (pushAll S id L) k = if k ∈ S then lk L k ++ [id] else lk L k := by
  induction S generalizing L with
  | nil => simp [pushAll]
  | cons a rest ih =>
    rw [List.nodup_cons] at hS
    show lk (pushAll rest id (pushPred a id L)) k = _
    rw [ih hS.2, lk_pushPred]
    by_cases hk : k = a
    · subst hk
      simp [hS.1]
    · by_cases hr : k ∈ rest
      · simp [hk, hr]
      · simp [hk, hr]

/-! ### the entries keep distinct keys and non-empty lists -/

def KN (L : List (IdI × List IdI)) : Prop := (L.map (·.1)).Nodup
def NE (L : List (IdI × List IdI)) : Prop := ∀ p ∈ L, p.2 ≠ []

theorem kn_pushPred (sid id : IdI) {L : List (IdI × List IdI)} (h : KN L) : KN (pushPred sid id L) := by
  unfold KN at h ⊢
  induction L with
  | nil => simp [pushPred]
  | cons x xs ih =>
    rw [List.map_cons, List.nodup_cons] at h
    unfold pushPred
    split
    · rw [List.map_cons, List.nodup_cons]
      exact h
    · rename_i hx
      rw [List.map_cons, List.nodup_cons]
      refine ⟨?_, ih h.2⟩
      intro hm
      rcases (mem_keys_pushPred sid id x.1 xs).1 hm with h' | h'
      · exact hx h'
      · exact h.1 h'

theorem ne_pushPred (sid id : IdI) {L : List (IdI × List IdI)} (h : NE L) : NE (pushPred sid id L) := by
  unfold NE at h ⊢
  induction L with
  | nil =>
    intro p hp
    simp only [pushPred, List.mem_singleton] at hp
    subst hp
    simp
  | cons x xs ih =>
    unfold pushPred
    split
    · intro p hp
      cases hp with
      | head => simp
      | tail _ hp' => exact h p (List.mem_cons_of_mem _ hp')
    · intro p hp
      cases hp with
      | head => exact h _ (List.mem_cons_self ..)
      | tail _ hp' => exact ih (fun q hq => h q (List.mem_cons_of_mem _ hq)) p hp'

theorem kn_pushAll (S : List IdI) (id : IdI) {L : List (IdI × List IdI)} (h : KN L) : KN (pushAll S id L) := by
  induction S generalizing L with
  | nil => exact h
  | cons a rest ih => exact ih (kn_pushPred a id h)

theorem ne_pushAll (S : List IdI) (id : IdI) {L : List (IdI × List IdI)} (h : NE L) : NE (pushAll S id L) := by
  induction S generalizing L with
  | nil => exact h
  | cons a rest ih => exact ih (ne_pushPred a id h)

theorem kn_filter (p : IdI × List IdI → Bool) {L : List (IdI × List IdI)} (h : KN L) : KN (L.filter p) := by
  unfold KN at h ⊢
  exact List.Nodup.sublist (List.Sublist.map _ List.filter_sublist) h

theorem ne_filter (p : IdI × List IdI → Bool) {L : List (IdI × List IdI)} (h : NE L) : NE (L.filter p) :=
  fun q hq => h q (List.mem_filter.1 hq).1

/-- with distinct keys an entry is what the lookup finds -/
theorem lk_of_mem {L : List (IdI × List IdI)} (h : KN L) {p : IdI × List IdI} (hp : p ∈ L) : lk L p.1 = p.2 := by
  unfold KN at h
  induction L with
  | nil => cases hp
  | cons x xs ih =>
    rw [List.map_cons, List.nodup_cons] at h
    rw [lk_cons]
    cases hp with
    | head => simp
    | tail _ hp' =>
      have : x.1 ≠ p.1 := fun hx => h.1 (hx ▸ List.mem_map.2 ⟨p, hp', rfl⟩)
      rw [if_neg this]
      exact ih h.2 hp'

theorem mem_of_lk {L : List (IdI × List IdI)} {sid : IdI} (h : lk L sid ≠ []) : (sid, lk L sid) ∈ L := by
  unfold lk at h ⊢
  cases hf : L.find? (fun x => x.1 = sid) with
  | none => rw [hf] at h; exact absurd rfl h
  | some x =>
    have h1 := List.mem_of_find?_eq_some hf
    have h2 : x.1 = sid := by simpa using List.find?_some hf
    simp only []
    rw [← h2]
    exact h1

/-- the deletes of a finished run -/
theorem mem_flush {L : List (IdI × List IdI)} (hk : KN L) (hn : NE L) (k : Option IdI × DKey) (x : RecOp) :
    x ∈ L.map (mkDel k) ↔ ∃ sid, lk L sid ≠ [] ∧ x = mkDel k (sid, lk L sid) := by
  rw [List.mem_map]
  constructor
  · rintro ⟨p, hp, rfl⟩
    have := lk_of_mem hk hp
    exact ⟨p.1, by rw [this]; exact hn p hp, by rw [this]⟩
  · rintro ⟨sid, hne, rfl⟩
    exact ⟨_, mem_of_lk hne, rfl⟩

theorem flush_ids (L : List (IdI × List IdI)) (k : Option IdI × DKey) :
    (L.map (mkDel k)).map (·.id) = L.map (·.1) := by
  rw [List.map_map]
  rfl

/-! ### namers -/

theorem namers_append (A B : List OpRow) (sid : IdI) : namers (A ++ B) sid = namers A sid ++ namers B sid := by
  unfold namers
  rw [List.filter_append, List.map_append]

theorem namers_nil (sid : IdI) : namers [] sid = [] := rfl

theorem namers_single (r : OpRow) (sid : IdI) : namers [r] sid = if sid ∈ r.succ then [r.id] else [] := by
  unfold namers
  by_cases h : sid ∈ r.succ
  · simp [h]
  · simp [h]

theorem namers_eq_nil {R : List OpRow} {sid : IdI} : namers R sid = [] ↔ ∀ x ∈ R, sid ∉ x.succ := by
  unfold namers
  rw [List.map_eq_nil_iff, List.filter_eq_nil_iff]
  simp

/-! ### one run -/

/-- the state after the rows `P` of a run -/
structure RunInv (P : List OpRow) (s : EState) : Prop where
  kn : KN s.preds
  ne : NE s.preds
  look : ∀ sid, lk s.preds sid = if sid ∈ P.map (·.id) then [] else namers P sid

theorem runInv_init : RunInv [] ⟨none, []⟩ := by
  refine ⟨List.nodup_nil, ?_, ?_⟩
  · intro p hp; cases hp
  · intro sid
    show lk [] sid = _
    rw [lk_nil]
    simp [namers_nil]

/-- a row that continues the run -/
theorem emitRow_same {P : List OpRow} {s : EState} {r : OpRow} (hinv : RunInv P s)
    (hlast : s.last = some (keyOf r)) (hnew : r.id ∉ P.map (·.id)) (hsn : r.succ.Nodup) (hself : r.id ∉ r.succ)
    (hback : ∀ sid ∈ r.succ, sid ∉ P.map (·.id)) :
    emitRow s r = ([mkOp r (namers P r.id)], ⟨s.last, pushAll r.succ r.id (s.preds.filter (fun x => x.1 ≠ r.id))⟩) ∧
      RunInv (P ++ [r]) ⟨s.last, pushAll r.succ r.id (s.preds.filter (fun x => x.1 ≠ r.id))⟩ := by
  have hlook := hinv.look r.id
  rw [if_neg hnew] at hlook
  refine ⟨?_, ?_, ?_, ?_⟩
  · rw [emitRow_eq]
    have h1 : ¬ (s.last ≠ some (keyOf r)) := fun h => h hlast
    have h2 : ¬ (s.last ≠ some (keyOf r) ∧ s.last.isSome = true) := fun h => h1 h.1
    simp only [if_neg h1, if_neg h2, List.nil_append, hlook]
  · exact kn_pushAll _ _ (kn_filter _ hinv.kn)
  · exact ne_pushAll _ _ (ne_filter _ hinv.ne)
  · intro sid
    simp only []
    rw [lk_pushAll _ hsn, lk_filter, hinv.look sid, namers_append, namers_single]
    simp only [List.map_append, List.mem_append, List.map_cons, List.map_nil, List.mem_singleton]
    by_cases h1 : sid = r.id
    · subst h1
      simp [hself]
    · by_cases h2 : sid ∈ P.map (·.id)
      · -- a met id is never named again
        have h3 : sid ∉ r.succ := fun h => hback sid h h2
        simp [h1, h2, h3]
      · by_cases h3 : sid ∈ r.succ
        · simp [h1, h2, h3]
        · simp [h1, h2, h3]

end AmVerif.DocCodec
