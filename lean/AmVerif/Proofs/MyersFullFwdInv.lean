import AmVerif.Proofs.MyersFullFwd
/-
  C27 helper: the "diagonal count" invariant of the forward `V` array and its consequence for a split
  point detected by the forward pass (the case `delta` odd).

  Every value `x` the forward pass stores on diagonal `k` at depth `d` satisfies
    `d + k ≤ 2 x ≤ 2 min(n, m) + d + k`
  (`x - (d + k) / 2` is the number of diagonal steps of the path, between 0 and `min(n, m)`); the
  entries read at depth `d` are exactly those written at depth `d - 1` (or the initial `V[1] = 0`), so
  stale contents of the reused arrays are never looked at.  NOTE that `x ≤ n` is NOT an invariant
  of this implementation (`old = [A]`, `new = [B, A, C, D]` stores `x = 2 > n = 1` at depth 2).
-/
namespace AmVerif.Myers
open AmVerif

/-- `x` is a possible end point on diagonal `k` of a path with `d` non-diagonal steps -/
def G (n m : Nat) (d k : Int) (x : Nat) : Prop :=
  d + k ≤ 2 * (x : Int) ∧ 2 * (x : Int) ≤ 2 * n + d + k ∧ 2 * (x : Int) ≤ 2 * m + d + k

/-- the entries the forward pass of depth `d` reads hold depth `d - 1` values -/
def FPrev (n m d : Nat) (vf : V) : Prop :=
  ∀ k : Int, ((d = 0 ∧ k = 1) ∨ (1 ≤ d ∧ -(d : Int) + 1 ≤ k ∧ k ≤ d - 1 ∧ (k + d + 1) % 2 = 0)) →
    ∃ x, vf.get k = some x ∧ G n m ((d : Int) - 1) k x

/-- the first `j` entries written by the forward pass of depth `d` -/
def FCur (n m d j : Nat) (vf : V) : Prop :=
  ∀ j' : Nat, j' < j → ∃ x, vf.get ((d : Int) - 2 * (j' : Int)) = some x ∧ G n m d ((d : Int) - 2 * (j' : Int)) x

/-- a split point found by the forward pass: inside the lower bounds and not the origin corner -/
def QF (os ns : Nat) : KStep → Prop
  | .found X Y _ _ => (os : Int) ≤ X ∧ (ns : Int) ≤ Y ∧ ¬ (X = os ∧ Y = ns)
  | _ => True

section
variable {α : Type} [BEq α] [LawfulBEq α]

theorem fwdX1_G (old : List α) (os : Nat) (new : List α) (ns n m : Nat) {d : Nat} {k : Int} {x : Nat}
    (hk1 : -(d : Int) ≤ k) (hk2 : k ≤ d)
    (h1 : (d : Int) + k ≤ 2 * (x : Int)) (h2 : 2 * (x : Int) ≤ 2 * n + d + k) (h3 : 2 * (x : Int) ≤ 2 * m + d + k) :
    G n m d k (fwdX1 old os (os + n) new ns (ns + m) n m k x) := by
  unfold fwdX1
  split
  · rename_i hc
    obtain ⟨c1, c2, c3⟩ := hc
    obtain ⟨s1, s2, _⟩ := commonPrefixLen_spec old (os + x) (os + n) new (ns + ((x : Int) - k).toNat) (ns + m)
    generalize commonPrefixLen old (os + x) (os + n) new (ns + ((x : Int) - k).toNat) (ns + m) = c at s1 s2
    have ht : (((x : Int) - k).toNat : Int) = (x : Int) - k := Int.toNat_of_nonneg c2
    refine ⟨?_, ?_, ?_⟩
    · push_cast; omega
    · push_cast; omega
    · push_cast; omega
  · exact ⟨h1, h2, h3⟩

/-- one forward iteration keeps the invariant; a detected split point satisfies `QF` -/
theorem fwdStep_keeps (old : List α) (os : Nat) (new : List α) (ns n m : Nat) (delta : Int) (odd : Bool)
    (d j : Nat) (vf vb : V) (hj : j < d + 1)
    (hp : FPrev n m d vf) (hc : FCur n m d j vf) :
    match fwdStep old os (os + n) new ns (ns + m) n m delta odd d ((d : Int) - 2 * (j : Int)) vf vb with
    | .cont a b => (FPrev n m d a ∧ FCur n m d (j + 1) a) ∧ b = vb
    | r => QF os ns r := by
  generalize hk : (d : Int) - 2 * (j : Int) = k
  have hk1 : -(d : Int) ≤ k := by omega
  have hk2 : k ≤ d := by omega
  cases hr : fwdStep old os (os + n) new ns (ns + m) n m delta odd d k vf vb with
  | panic p => trivial
  | cont a b =>
    simp only
    rcases fwdStep_inv hr with ⟨p, hp'⟩ | ⟨x, vf', hd⟩
    · cases hp'
    · -- bounds of the picked `x`
      have hx : (d : Int) + k ≤ 2 * (x : Int) ∧ 2 * (x : Int) ≤ 2 * n + d + k ∧ 2 * (x : Int) ≤ 2 * m + d + k := by
        rcases hd.pick with ⟨hg, hcase⟩ | ⟨hne, a', ha', hxa, -⟩
        · obtain ⟨x', hx', g1, g2, g3⟩ := hp (k + 1) (by
            rcases hcase with h | ⟨h, _⟩
            · by_cases hd0 : d = 0
              · left; omega
              · right; omega
            · right; omega)
          rw [hg] at hx'; cases hx'
          omega
        · obtain ⟨x', hx', g1, g2, g3⟩ := hp (k - 1) (by right; omega)
          rw [ha'] at hx'; cases hx'
          omega
      rcases hd.res with hres | ⟨hres, _⟩
      · cases hres
        refine ⟨⟨?_, ?_⟩, rfl⟩
        · intro k' hk'
          obtain ⟨x', hx', g⟩ := hp k' hk'
          refine ⟨x', ?_, g⟩
          rw [V.get_set_ne hd.stored (by omega)]
          exact hx'
        · intro j' hj'
          by_cases hjj : j' = j
          · subst hjj
            rw [hk]
            exact ⟨_, V.get_set_self hd.stored, fwdX1_G old os new ns n m hk1 hk2 hx.1 hx.2.1 hx.2.2⟩
          · obtain ⟨x', hx', g⟩ := hc j' (by omega)
            refine ⟨x', ?_, g⟩
            rw [V.get_set_ne hd.stored (by omega)]
            exact hx'
      · cases hres
  | found X Y a b =>
    simp only
    rcases fwdStep_inv hr with ⟨p, hp'⟩ | ⟨x, vf', hd⟩
    · cases hp'
    · have hx : (d : Int) + k ≤ 2 * (x : Int) := by
        rcases hd.pick with ⟨hg, hcase⟩ | ⟨hne, a', ha', hxa, -⟩
        · obtain ⟨x', hx', g1, g2, g3⟩ := hp (k + 1) (by
            rcases hcase with h | ⟨h, _⟩
            · by_cases hd0 : d = 0
              · left; omega
              · right; omega
            · right; omega)
          rw [hg] at hx'; cases hx'
          omega
        · obtain ⟨x', hx', g1, g2, g3⟩ := hp (k - 1) (by right; omega)
          rw [ha'] at hx'; cases hx'
          omega
      rcases hd.res with hres | ⟨hres, _, hrange, _⟩
      · cases hres
      · cases hres
        simp only [QF]
        omega
end

/-- with `delta` odd the backward pass never answers and leaves the forward array alone -/
def RB (vf : V) : KStep → Prop
  | .cont a _ => a = vf
  | .found _ _ _ _ => False
  | .panic _ => True

theorem rd_RB {vf v : V} {k : Int} {f : Nat → KStep} (hf : ∀ x, RB vf (f x)) : RB vf (rd v k f) := by
  unfold rd
  cases v.get k with
  | none => trivial
  | some x => exact hf x

section
variable {α : Type} [BEq α]

theorem bwdStep_odd (old : List α) (os : Nat) (new : List α) (ns n m : Nat) (delta : Int)
    (d : Nat) (k : Int) (vf vb : V) :
    RB vf (bwdStep old os new ns n m delta true d k vf vb) := by
  unfold bwdStep
  simp only [Bool.not_true, Bool.false_and, Bool.false_eq_true, if_false]
  have tail : ∀ (x1 : Nat), RB vf (match vb.set k x1 with
      | none => KStep.panic .sliceIndex
      | some vb => KStep.cont vf vb) := by
    intro x1
    cases vb.set k x1 with
    | none => trivial
    | some v => rfl
  split
  · exact rd_RB fun x => tail _
  · split
    · apply rd_RB; intro a
      apply rd_RB; intro b
      split
      · exact rd_RB fun x => tail _
      · exact rd_RB fun x => tail _
    · exact rd_RB fun x => tail _
end

section
variable {α : Type} [BEq α] [LawfulBEq α]

/-- the `for d` loop, `delta` odd: a split point, if one is answered, satisfies `QF` -/
theorem dLoop_odd_QF (old : List α) (os : Nat) (new : List α) (ns n m : Nat) (delta : Int) :
    ∀ (j d : Nat) (vf vb : V), FPrev n m d vf →
      QF os ns (dLoop old os (os + n) new ns (ns + m) n m delta true j d vf vb) := by
  intro j
  induction j with
  | zero => intro d vf vb _; trivial
  | succ j ih =>
    intro d vf vb hp
    unfold dLoop
    have h1 := kLoop_ind (fwdStep old os (os + n) new ns (ns + m) n m delta true d) (d : Int)
      (fun j a b => (FPrev n m d a ∧ FCur n m d j a) ∧ b = vb) (QF os ns) (d + 1)
      (fun j a b hj hP => by
        obtain ⟨⟨hp1, hp2⟩, hb⟩ := hP
        subst hb
        exact fwdStep_keeps old os new ns n m delta true d j a b hj hp1 hp2)
      (d + 1) 0 vf vb (by omega) ⟨⟨hp, fun j' hj' => by omega⟩, rfl⟩
    have e : ((d : Int) - 2 * ((0 : Nat) : Int)) = d := by omega
    rw [e] at h1
    cases hs1 : kLoop (fwdStep old os (os + n) new ns (ns + m) n m delta true d) (d + 1) d vf vb with
    | panic p => trivial
    | found X Y a b => rw [hs1] at h1; exact h1
    | cont vf' vb' =>
      rw [hs1] at h1
      simp only at h1 ⊢
      obtain ⟨⟨_, hcur⟩, _⟩ := h1
      have h2 := kLoop_ind (bwdStep old os new ns n m delta true d) (d : Int)
        (fun _ a _ => a = vf') (RB vf') (d + 1)
        (fun j a b hj hP => by
          subst hP
          have := bwdStep_odd old os new ns n m delta d ((d : Int) - 2 * (j : Int)) a b
          cases hb : bwdStep old os new ns n m delta true d ((d : Int) - 2 * (j : Int)) a b with
          | cont a' b' => rw [hb] at this; exact this
          | found X Y a' b' => rw [hb] at this; exact this
          | panic p => trivial)
        (d + 1) 0 vf' vb' (by omega) rfl
      rw [e] at h2
      cases hs2 : kLoop (bwdStep old os new ns n m delta true d) (d + 1) d vf' vb' with
      | panic p => trivial
      | found X Y a b => rw [hs2] at h2; exact h2.elim
      | cont vf'' vb'' =>
        rw [hs2] at h2
        simp only at h2 ⊢
        subst h2
        apply ih (d + 1)
        intro k hk
        rcases hk with ⟨h0, _⟩ | ⟨_, hk1, hk2, hk3⟩
        · omega
        · obtain ⟨x, hx, g⟩ := hcur (((d : Int) - k) / 2).toNat (by omega)
          have ek : (d : Int) - 2 * (((((d : Int) - k) / 2).toNat : Nat) : Int) = k := by omega
          rw [ek] at hx g
          refine ⟨x, hx, ?_⟩
          have : ((d + 1 : Nat) : Int) - 1 = d := by omega
          rw [this]; exact g

/-- `find_middle_snake` with `delta` odd: a split point it answers is `≥` the lower-left… i.e. lies
    right of / below the start corner of the rectangle and is not that corner (`x ≥ os`, `y ≥ ns`,
    `(x, y) ≠ (os, ns)`), whatever the (stale) contents of the two arrays. -/
theorem findMiddleSnake_odd_lower (old : List α) (os oe : Nat) (new : List α) (ns ne : Nat) (vf vb : V)
    (hos : os ≤ oe) (hns : ns ≤ ne)
    (hodd : (((oe - os : Nat) : Int) - ((ne - ns : Nat) : Int)) % 2 = 1)
    {X Y : Int} {vf' vb' : V}
    (h : findMiddleSnake old os oe new ns ne vf vb = .found X Y vf' vb') :
    (os : Int) ≤ X ∧ (ns : Int) ≤ Y ∧ ¬ (X = os ∧ Y = ns) := by
  unfold findMiddleSnake at h
  simp only at h
  cases hs1 : vf.set 1 0 with
  | none => rw [hs1] at h; cases h
  | some vf1 =>
    rw [hs1] at h
    simp only at h
    cases hs2 : vb.set 1 0 with
    | none => rw [hs2] at h; cases h
    | some vb1 =>
      rw [hs2] at h
      simp only at h
      split at h
      · cases h
      · split at h
        · cases h
        · have hb : ((((oe - os : Nat) : Int) - ((ne - ns : Nat) : Int)) % 2 == 1) = true := by
            simp [hodd]
          rw [hb] at h
          have e1 : oe = os + (oe - os) := by omega
          have e2 : ne = ns + (ne - ns) := by omega
          have hq := dLoop_odd_QF old os new ns (oe - os) (ne - ns)
            (((oe - os : Nat) : Int) - ((ne - ns : Nat) : Int)) (maxD (oe - os) (ne - ns)) 0 vf1 vb1 (by
              intro k hk
              rcases hk with ⟨_, hk⟩ | ⟨h0, _⟩
              · subst hk
                exact ⟨0, V.get_set_self hs1, by simp only [G]; omega⟩
              · omega)
          rw [← e1, ← e2, h] at hq
          exact hq
end

end AmVerif.Myers
