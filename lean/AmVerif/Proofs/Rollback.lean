import AmVerif.Proofs.Local
/-
  Transactions as the driver runs them (`Driver/Crdt.lean` `edit`, `crdt.commit`, `crdt.rollback`):
  a session is a document plus an optional open transaction; an editing call opens the
  transaction if needed (`beginTx`: a function of the document alone), evaluates the call on
  applied ++ pending ops and appends the new ops on success; rollback drops the transaction.
-/
namespace AmVerif.Crdt
open AmVerif

/-- an editing call with its arguments -/
inductive Call where
  | put (obj : ObjId) (prop : Sum Bytes Nat) (a : Action) (ck : Bool)
  | insert (obj : ObjId) (index : Nat) (a : Action)
  | spliceText (obj : ObjId) (index del : Nat) (text : Bytes)

def Call.eval (e : Enc) (ops : List Op) (t : Tx) : Call → Except EditErr (List Op)
  | .put obj prop a ck => localPut e ops t obj prop a ck
  | .insert obj index a => localInsert e ops t obj index a
  | .spliceText obj index del text => localSpliceText e ops t obj index del text

structure Session where
  doc : Doc
  tx : Option Tx

/-- `ensure_transaction_open` -/
def Session.openTx (s : Session) (actor : Bytes) : Tx :=
  match s.tx with
  | some t => t
  | none => s.doc.beginTx actor

/-- one editing call (successful or failing): the document is not touched -/
def Session.call (e : Enc) (actor : Bytes) (s : Session) (c : Call) : Session :=
  let t := s.openTx actor
  { doc := s.doc, tx := some (t.after (c.eval e (s.doc.ops ++ t.pending) t)) }

def Session.run (e : Enc) (actor : Bytes) (s : Session) (cs : List Call) : Session :=
  cs.foldl (Session.call e actor) s

/-- `rollback`: the open transaction is dropped -/
def Session.rollback (s : Session) : Session := { doc := s.doc, tx := none }

/-- the ops the next commit would put into its change -/
def Session.pendingOps (s : Session) : List Op :=
  match s.tx with
  | some t => t.pending
  | none => []

/-- what a read inside the session sees -/
def Session.view (s : Session) : List Op := s.doc.ops ++ s.pendingOps

theorem Session.call_doc (e : Enc) (actor : Bytes) (s : Session) (c : Call) :
    (s.call e actor c).doc = s.doc := rfl

theorem Session.run_doc (e : Enc) (actor : Bytes) : ∀ (cs : List Call) (s : Session),
    (s.run e actor cs).doc = s.doc
  | [], _ => rfl
  | c :: cs, s => by
    show ((s.call e actor c).run e actor cs).doc = s.doc
    rw [Session.run_doc e actor cs]; rfl

theorem Session.run_append (e : Enc) (actor : Bytes) (s : Session) (cs₁ cs₂ : List Call) :
    s.run e actor (cs₁ ++ cs₂) = (s.run e actor cs₁).run e actor cs₂ := by
  simp [Session.run, List.foldl_append]

/-- rolling back whatever ran gives back a session with the same document and no transaction -/
theorem Session.rollback_run (e : Enc) (actor : Bytes) (s : Session) (cs : List Call) :
    (s.run e actor cs).rollback = { doc := s.doc, tx := none } := by
  unfold Session.rollback
  rw [Session.run_doc]

/-- any number of rolled-back transactions -/
def Session.rolledBack (e : Enc) (actor : Bytes) (s : Session) : List (List Call) → Session
  | [] => s
  | cs :: rest => Session.rolledBack e actor ((s.run e actor cs).rollback) rest

theorem Session.rolledBack_eq (e : Enc) (actor : Bytes) : ∀ (txs : List (List Call)) (s : Session),
    s.tx = none → Session.rolledBack e actor s txs = s
  | [], _, _ => rfl
  | cs :: rest, s, h => by
    show Session.rolledBack e actor ((s.run e actor cs).rollback) rest = s
    rw [Session.rollback_run]
    have : ({ doc := s.doc, tx := none } : Session) = s := by cases s; simp_all
    rw [this]
    exact Session.rolledBack_eq e actor rest s h

theorem Session.run_txRun_aux (e : Enc) (actor : Bytes) (d : Doc) : ∀ (cs : List Call) (s : Session),
    s.doc = d → (∀ t, s.tx = some t → TxRun e d.ops (d.beginTx actor) t) →
    ∀ t, (s.run e actor cs).tx = some t → TxRun e d.ops (d.beginTx actor) t
  | [], _, _, h => h
  | c :: cs, s, hd, h => by
    apply Session.run_txRun_aux e actor d cs (s.call e actor c) (by rw [Session.call_doc]; exact hd)
    intro t ht
    have hopen : TxRun e d.ops (d.beginTx actor) (s.openTx actor) := by
      unfold Session.openTx
      cases htx : s.tx with
      | none => simp only [hd]; exact .start
      | some t0 => exact h t0 htx
    have hcall : (s.call e actor c).tx = some ((s.openTx actor).after
        (c.eval e (s.doc.ops ++ (s.openTx actor).pending) (s.openTx actor))) := rfl
    rw [hcall] at ht
    cases ht
    rw [hd]
    refine .step hopen ?_
    cases c with
    | put obj prop a ck => exact .put obj prop a ck
    | insert obj index a => exact .insert obj index a
    | spliceText obj index del text => exact .spliceText obj index del text

/-- the open transaction of a session that started without one is a `TxRun` from `beginTx` -/
theorem Session.run_txRun (e : Enc) (actor : Bytes) (d : Doc) (cs : List Call) (t : Tx)
    (h : (Session.run e actor ⟨d, none⟩ cs).tx = some t) : TxRun e d.ops (d.beginTx actor) t :=
  Session.run_txRun_aux e actor d cs ⟨d, none⟩ rfl (fun _ h => by cases h) t h

end AmVerif.Crdt
