import AmVerif.Proofs.DocCodecTable
/-
  C11 (document chunk), reconstruction: the op the collector must hand to the change encoder
  (`recOf`: the op with its ids as indexes into the document's actor table), and its way through
  `ActorMapper` (`otherIdx`, `RecOp.toChangeRow`) and back through `Change::decode` (`expandRows`):

  * `otherIdx_recOf`, `toChangeRow_recOf` — the change-local actor table and the change rows computed
    from indexes are those `ChangeCodec.encodeChange` computes from the actor ids;
  * `expandRows_toRow` — expanding the rows of a change's ops gives the ops back (ids consecutive from
    `start_op`, predecessors sorted, object / element counters positive).
-/
namespace AmVerif.DocCodec
open AmVerif AmVerif.Crdt AmVerif.ChangeCodec

/-- the op as `OpBuilder`: ids as indexes into the sorted actor table of the document -/
def recOf (table : List Bytes) (o : Op) : RecOp :=
  let cr := ChangeCodec.toRow table o
  { id := toIdx table o.id
    obj := match o.obj with | .root => none | .id i => some (toIdx table i)
    key := match o.key with | .map k => .prop k | .head => .head | .elem e => .elem (toIdx table e)
    insert := o.insert, action := cr.action, val := cr.val
    pred := o.pred.map (toIdx table)
    expand := cr.expand, markName := cr.markName }

/-- what the rebuild needs of an op -/
structure OpR (table : List Bytes) (o : Op) : Prop where
  actors : ∀ a ∈ opActors o, a ∈ table
  objPos : ∀ i, o.obj = .id i → 0 < i.ctr
  keyPos : ∀ e, o.key = .elem e → 0 < e.ctr
  predSorted : sortOpIds o.pred = o.pred

theorem mem_opActors_key {o : Op} {e : OpId} (h : o.key = .elem e) : e.actor ∈ opActors o := by
  unfold opActors
  rw [h]
  simp

theorem mem_opActors_obj {o : Op} {i : OpId} (h : o.obj = .id i) : i.actor ∈ opActors o := by
  unfold opActors
  rw [h]
  simp

theorem mem_opActors_pred {o : Op} {p : OpId} (h : p ∈ o.pred) : p.actor ∈ opActors o := by
  unfold opActors
  simp only [List.mem_append, List.mem_map]
  exact Or.inl (Or.inr ⟨p, h, rfl⟩)

theorem mem_recActors_recOf (table : List Bytes) (o : Op) (x : Nat) :
    x ∈ recActors (recOf table o) ↔ ∃ a ∈ opActors o, x = idxOf table a := by
  obtain ⟨id, obj, key, ins, act, pred⟩ := o
  unfold recActors recOf opActors
  simp only [List.mem_append, List.mem_map]
  constructor
  · rintro ((h | h) | ⟨p, hp, rfl⟩)
    · cases obj with
      | root => cases h
      | id i =>
        simp only [List.mem_singleton] at h
        exact ⟨i.actor, Or.inr (by simp), h⟩
    · cases key with
      | map k => cases h
      | head => cases h
      | elem e =>
        simp only [List.mem_singleton] at h
        exact ⟨e.actor, Or.inl (Or.inl (by simp)), h⟩
    · obtain ⟨q, hq, rfl⟩ := hp
      exact ⟨q.actor, Or.inl (Or.inr ⟨q, hq, rfl⟩), rfl⟩
  · rintro ⟨a, (h | ⟨q, hq, rfl⟩) | h, rfl⟩
    · cases key with
      | map k => cases h
      | head => cases h
      | elem e =>
        simp only [List.mem_singleton] at h
        subst h
        exact Or.inl (Or.inr (by simp [toIdx]))
    · exact Or.inr ⟨toIdx table q, ⟨q, hq, rfl⟩, rfl⟩
    · cases obj with
      | root => cases h
      | id i =>
        simp only [List.mem_singleton] at h
        subst h
        exact Or.inl (Or.inl (by simp [toIdx]))

/-- **the change-local actor table**: the other actors of a change, computed from indexes, are the
    indexes of the other actors computed from actor ids -/
theorem otherIdx_recOf {table : List Bytes} (hs : BSortedL table) {author : Bytes} (ha : author ∈ table)
    {ops : List Op} (hops : ∀ o ∈ ops, ∀ a ∈ opActors o, a ∈ table) :
    otherIdx (idxOf table author) (ops.map (recOf table)) = (otherActors author ops).map (idxOf table) := by
  unfold otherIdx otherActors
  have hsub : ∀ a ∈ (ops.flatMap opActors).filter (fun a => a ≠ author), a ∈ table := by
    intro a h
    obtain ⟨o, ho, hao⟩ := List.mem_flatMap.1 (List.mem_filter.1 h).1
    exact hops o ho a hao
  rw [map_idxOf_sortBytes hs hsub]
  apply sortNat_congr
  intro x
  simp only [List.mem_filter, List.mem_flatMap, List.mem_map, decide_eq_true_eq]
  constructor
  · rintro ⟨⟨r, ⟨o, ho, rfl⟩, hx⟩, hne⟩
    obtain ⟨a, hao, rfl⟩ := (mem_recActors_recOf table o x).1 hx
    exact ⟨a, ⟨⟨o, ho, hao⟩, fun h => hne (by rw [h])⟩, rfl⟩
  · rintro ⟨a, ⟨⟨o, ho, hao⟩, hne⟩, rfl⟩
    refine ⟨⟨recOf table o, ⟨o, ho, rfl⟩, (mem_recActors_recOf table o _).2 ⟨a, hao, rfl⟩⟩, ?_⟩
    intro h
    exact hne (idxOf_inj (hops o ho a hao) ha h)

theorem remap_toIdx {table T' : List Bytes} (hT : ∀ a ∈ T', a ∈ table) (i : OpId) (hi : i.actor ∈ table) :
    remapIdx (T'.map (idxOf table)) (toIdx table i) = toIdI T' i := by
  unfold remapIdx toIdx toIdI actorIndex
  simp only []
  congr 1
  exact findIdx_map_idxOf hT hi

/-- **the change rows**: from indexes through the change-local index table = from actor ids through the
    change-local actor table -/
theorem toChangeRow_recOf {table T' : List Bytes} (hT : ∀ a ∈ T', a ∈ table) {o : Op}
    (ho : OpR table o) :
    (recOf table o).toChangeRow (T'.map (idxOf table)) = toRow T' o := by
  have hact := ho.actors
  have hps := ho.predSorted
  obtain ⟨id, obj, key, ins, act, pred⟩ := o
  have hpred : (pred.map (toIdx table)).map (remapIdx (T'.map (idxOf table))) = (sortOpIds pred).map (toIdI T') := by
    simp only [] at hps
    rw [hps, List.map_map]
    apply List.map_congr_left
    intro p hp
    exact remap_toIdx hT p (hact p.actor (mem_opActors_pred hp))
  unfold RecOp.toChangeRow recOf toRow
  simp only [hpred]
  cases obj with
  | root =>
    cases key with
    | map k => rfl
    | head => rfl
    | elem e =>
      simp only [remap_toIdx hT e (hact e.actor (mem_opActors_key rfl))]
  | id i =>
    have hi := remap_toIdx hT i (hact i.actor (mem_opActors_obj rfl))
    cases key with
    | map k => simp only [hi]
    | head => simp only [hi]
    | elem e =>
      simp only [hi, remap_toIdx hT e (hact e.actor (mem_opActors_key rfl))]

/-! ### back through `Change::decode` -/

theorem resolve_toIdI {T' : List Bytes} {i : OpId} (hi : i.actor ∈ T') : resolve T' (toIdI T' i) = .ok i := by
  unfold resolve toIdI
  simp only []
  have := getElem?_idxOf hi
  unfold idxOf at this
  rw [this]

theorem resolveList_toIdI {T' : List Bytes} : ∀ {l : List OpId}, (∀ p ∈ l, p.actor ∈ T') →
    resolveList T' (l.map (toIdI T')) = .ok l
  | [], _ => rfl
  | p :: ps, h => by
    rw [List.map_cons]
    unfold resolveList
    rw [resolve_toIdI (h p (List.mem_cons_self ..))]
    simp only []
    rw [resolveList_toIdI (fun q hq => h q (List.mem_cons_of_mem _ hq))]

theorem actionOf_toRow (T' : List Bytes) (o : Op) : actionOf (toRow T' o) = o.action := by
  obtain ⟨id, obj, key, ins, act, pred⟩ := o
  unfold actionOf toRow
  cases act with
  | make t => cases t <;> simp
  | put v => simp
  | del => simp
  | inc n => simp
  | markBegin a b c => simp
  | markEnd e => simp

/-- one row back to its op -/
theorem expandRow_toRow {T' : List Bytes} {o : Op} (hact : ∀ a ∈ opActors o, a ∈ T')
    (hobj : ∀ i, o.obj = .id i → 0 < i.ctr) (hkey : ∀ e, o.key = .elem e → 0 < e.ctr)
    (hps : sortOpIds o.pred = o.pred) :
    expandRow T' o.id (toRow T' o) = .ok o := by
  have hao := actionOf_toRow T' o
  obtain ⟨id, obj, key, ins, act, pred⟩ := o
  simp only [] at hps hao
  have hpred : resolveList T' (pred.map (toIdI T')) = .ok pred :=
    resolveList_toIdI (fun p hp => hact p.actor (mem_opActors_pred hp))
  have hne0 : ∀ e : OpId, 0 < e.ctr → (toIdI T' e = ⟨0, 0⟩) = False := by
    intro e hpos
    apply eq_false
    intro h
    have := congrArg IdI.ctr h
    simp only [toIdI] at this
    omega
  have hne1 : ∀ e : OpId, 0 < e.ctr → ((toIdI T' e).ctr = 0) = False := by
    intro e hpos
    apply eq_false
    simp only [toIdI]
    omega
  unfold expandRow
  rw [hao]
  cases obj with
  | root =>
    cases key with
    | map k => simp only [toRow, hpred, hps, if_true]
    | head => simp only [toRow, hpred, hps, if_true]
    | elem e =>
      simp only [toRow, hpred, hps, if_true, hne0 e (hkey e rfl), if_false,
        resolve_toIdI (hact e.actor (mem_opActors_key rfl))]
  | id i =>
    cases key with
    | map k =>
      simp only [toRow, hpred, hps, hne1 i (hobj i rfl), if_false,
        resolve_toIdI (hact i.actor (mem_opActors_obj rfl))]
    | head =>
      simp only [toRow, hpred, hps, if_true, hne1 i (hobj i rfl), if_false,
        resolve_toIdI (hact i.actor (mem_opActors_obj rfl))]
    | elem e =>
      simp only [toRow, hpred, hps, hne0 e (hkey e rfl), hne1 i (hobj i rfl), if_false,
        resolve_toIdI (hact i.actor (mem_opActors_obj rfl)), resolve_toIdI (hact e.actor (mem_opActors_key rfl))]

/-- **the ops of a change come back**: their ids are consecutive from `ctr` and belong to `actor` -/
theorem expandRows_toRow {T' : List Bytes} {actor : Bytes} :
    ∀ {ops : List Op} {ctr : Nat}, (∀ o ∈ ops, ∀ a ∈ opActors o, a ∈ T') →
      (∀ o ∈ ops, (∀ i, o.obj = .id i → 0 < i.ctr) ∧ (∀ e, o.key = .elem e → 0 < e.ctr) ∧ sortOpIds o.pred = o.pred) →
      (∀ (j : Nat) (o : Op), ops[j]? = some o → o.id = (⟨ctr + j, actor⟩ : OpId)) →
      expandRows T' actor ctr (ops.map (toRow T')) = .ok ops
  | [], _, _, _, _ => rfl
  | o :: rest, ctr, hact, hok, hid => by
    rw [List.map_cons]
    unfold expandRows
    have h0 : o.id = (⟨ctr, actor⟩ : OpId) := hid 0 o rfl
    have hm := hok o (List.mem_cons_self ..)
    rw [← h0, expandRow_toRow (hact o (List.mem_cons_self ..)) hm.1 hm.2.1 hm.2.2]
    simp only []
    rw [expandRows_toRow (fun x hx => hact x (List.mem_cons_of_mem _ hx))
      (fun x hx => hok x (List.mem_cons_of_mem _ hx))
      (fun j x hj => by
        have := hid (j + 1) x (by simpa using hj)
        rw [this]
        congr 1
        omega)]

end AmVerif.DocCodec
