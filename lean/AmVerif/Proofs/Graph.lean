import AmVerif.Model.Graph
/-
  Proofs about M5 (`AmVerif.Model.Graph`): change graph, pending queue, `apply_changes`.

  §0  list utilities (core Lean only)
  §1  `sortHashes` sorts and removes duplicates (`bytesLt` is a strict total order)
  §2  `DepsClosed` (topological order) and `headsOf`
  §3  the document invariant `Doc.Inv`
  §4  `remove_actor_branch_from`
  §5  `collectBatch` (the filter / `ChangeBatch::push` loop)
  §6  Kahn's algorithm (`kahnLoop`, `popTopoSortedReady`)
  §7  `applyBatch` preserves `Doc.Inv`; `localCommit`; `Reachable`
  §8  `missing_deps_from`
  §9  delivery schedules (C01, delivery half)

  Hashes are opaque byte strings in the model.  Nothing below assumes anything about how a hash
  is computed; where acyclicity of the dependency relation is needed (§9) it is a hypothesis
  (`WF.acyclic`) — in the implementation it follows from SHA-256 preimage resistance, as a
  change's hash covers the hashes of its dependencies.
-/
namespace AmVerif.Crdt
open AmVerif

/-! ## §0 list utilities -/

theorem snoc_induction {α : Type} {P : List α → Prop} (nil : P [])
    (snoc : ∀ l a, P l → P (l ++ [a])) : ∀ l, P l := by
  have : ∀ r : List α, P r.reverse := by
    intro r
    induction r with
    | nil => exact nil
    | cons a r ih => simpa using snoc _ a ih
  intro l
  simpa using this l.reverse

theorem nodup_subset_length_le {α : Type} [DecidableEq α] :
    ∀ {l m : List α}, l.Nodup → (∀ x ∈ l, x ∈ m) → l.length ≤ m.length
  | [], _, _, _ => Nat.zero_le _
  | a :: l, m, hn, hs => by
    have ha : a ∈ m := hs a List.mem_cons_self
    have hn' := List.nodup_cons.mp hn
    have : l.length ≤ (m.erase a).length := by
      apply nodup_subset_length_le hn'.2
      intro x hx
      have hne : x ≠ a := fun h => hn'.1 (h ▸ hx)
      exact (List.mem_erase_of_ne hne).mpr (hs x (List.mem_cons_of_mem _ hx))
    have hl := List.length_erase_of_mem ha
    have hpos : 0 < m.length := List.length_pos_of_mem ha
    simp only [List.length_cons]
    omega

theorem nodup_filter {α : Type} {l : List α} (p : α → Bool) (h : l.Nodup) : (l.filter p).Nodup :=
  List.Nodup.sublist List.filter_sublist h

/-- strict decrease of a filter's length when the predicate shrinks and loses a witness -/
theorem filter_length_lt {α : Type} (p q : α → Bool) :
    ∀ (l : List α), (∀ x ∈ l, q x = true → p x = true) → (∃ x ∈ l, p x = true ∧ q x = false) →
      (l.filter q).length < (l.filter p).length
  | [], _, ⟨_, hx, _⟩ => by cases hx
  | a :: l, himp, ⟨x, hx, hpx, hqx⟩ => by
    have himp' : ∀ x ∈ l, q x = true → p x = true := fun y hy => himp y (List.mem_cons_of_mem _ hy)
    have hle : ∀ (l : List α), (∀ x ∈ l, q x = true → p x = true) →
        (l.filter q).length ≤ (l.filter p).length := by
      intro l
      induction l with
      | nil => intro _; simp
      | cons b l ih =>
        intro hi
        have := ih (fun y hy => hi y (List.mem_cons_of_mem _ hy))
        have hb := hi b List.mem_cons_self
        simp only [List.filter_cons]
        by_cases hqb : q b = true
        · simp [hqb, hb hqb]; omega
        · by_cases hpb : p b = true
          · simp [hqb, hpb]; omega
          · simp [hqb, hpb]; omega
    rcases List.mem_cons.mp hx with rfl | hx'
    · have := hle l himp'
      simp [hpx, hqx]; omega
    · have ih := filter_length_lt p q l himp' ⟨x, hx', hpx, hqx⟩
      have ha := himp a List.mem_cons_self
      simp only [List.filter_cons]
      by_cases hqa : q a = true
      · simp [hqa, ha hqa]; omega
      · by_cases hpa : p a = true
        · simp [hqa, hpa]; omega
        · simp [hqa, hpa]; omega

/-! ## §1 `sortHashes` -/

namespace GraphOrd

theorem bytesLt_irrefl (a : Bytes) : bytesLt a a = false := by
  induction a with
  | nil => rfl
  | cons x xs ih => simp [bytesLt, ih]

theorem bytesLt_trans : ∀ {a b c : Bytes}, bytesLt a b = true → bytesLt b c = true → bytesLt a c = true
  | [], [], _, h, _ => by simp [bytesLt] at h
  | [], _ :: _, [], _, h => by simp [bytesLt] at h
  | [], _ :: _, _ :: _, _, _ => by simp [bytesLt]
  | _ :: _, [], _, h, _ => by simp [bytesLt] at h
  | _ :: _, _ :: _, [], _, h => by simp [bytesLt] at h
  | x :: xs, y :: ys, z :: zs, h₁, h₂ => by
    simp only [bytesLt, Bool.or_eq_true, Bool.and_eq_true, decide_eq_true_eq, beq_iff_eq] at *
    rcases h₁ with h₁ | ⟨rfl, h₁⟩
    · rcases h₂ with h₂ | ⟨rfl, _⟩
      · exact .inl (UInt8.lt_trans h₁ h₂)
      · exact .inl h₁
    · rcases h₂ with h₂ | ⟨rfl, h₂⟩
      · exact .inl h₂
      · exact .inr ⟨rfl, bytesLt_trans h₁ h₂⟩

theorem bytesLt_total : ∀ {a b : Bytes}, a ≠ b → bytesLt a b = true ∨ bytesLt b a = true
  | [], [], h => absurd rfl h
  | [], _ :: _, _ => by simp [bytesLt]
  | _ :: _, [], _ => by simp [bytesLt]
  | x :: xs, y :: ys, h => by
    simp only [bytesLt, Bool.or_eq_true, Bool.and_eq_true, decide_eq_true_eq, beq_iff_eq]
    by_cases hxy : x = y
    · subst hxy
      have : xs ≠ ys := fun he => h (by rw [he])
      rcases bytesLt_total this with h' | h'
      · exact .inl (.inr ⟨rfl, h'⟩)
      · exact .inr (.inr ⟨rfl, h'⟩)
    · rcases UInt8.lt_or_lt_of_ne hxy with h' | h'
      · exact .inl (.inl h')
      · exact .inr (.inl h')

end GraphOrd

/-- strictly ascending in byte order (hence duplicate-free) -/
def SortedHashes (l : List Hash) : Prop := l.Pairwise (fun a b => bytesLt a b = true)

instance (l : List Hash) : Decidable (SortedHashes l) := by unfold SortedHashes; infer_instance

theorem SortedHashes.nodup {l : List Hash} (h : SortedHashes l) : l.Nodup := by
  refine List.Pairwise.imp ?_ h
  intro a b hab he
  subst he
  rw [GraphOrd.bytesLt_irrefl] at hab
  cases hab

theorem mem_insertHash {k x : Hash} {l : List Hash} : x ∈ insertHash k l ↔ x = k ∨ x ∈ l := by
  induction l with
  | nil => simp [insertHash]
  | cons y ys ih =>
    simp only [insertHash]
    split
    · rename_i h
      have : k = y := by simpa using h
      subst this
      simp
    · split
      · simp
      · simp only [List.mem_cons, ih]
        constructor
        · rintro (h | h | h) <;> simp [h]
        · rintro (h | h | h) <;> simp [h]

theorem insertHash_sorted (k : Hash) {l : List Hash} (h : SortedHashes l) :
    SortedHashes (insertHash k l) := by
  unfold SortedHashes at *
  induction l with
  | nil => exact List.pairwise_singleton _ _
  | cons y ys ih =>
    simp only [insertHash]
    split
    · exact h
    · rename_i hne
      have hne : k ≠ y := by simpa using hne
      split
      · rename_i hlt
        refine List.Pairwise.cons (fun b hb => ?_) h
        rcases List.mem_cons.mp hb with rfl | hb
        · exact hlt
        · exact GraphOrd.bytesLt_trans hlt (List.rel_of_pairwise_cons h hb)
      · rename_i hnlt
        refine List.Pairwise.cons (fun b hb => ?_) (ih (List.Pairwise.of_cons h))
        rcases mem_insertHash.mp hb with rfl | hb
        · rcases GraphOrd.bytesLt_total hne with h' | h'
          · exact absurd h' hnlt
          · exact h'
        · exact List.rel_of_pairwise_cons h hb

theorem mem_sortHashes {l : List Hash} {h : Hash} : h ∈ sortHashes l ↔ h ∈ l := by
  induction l with
  | nil => simp [sortHashes]
  | cons x xs ih =>
    have : sortHashes (x :: xs) = insertHash x (sortHashes xs) := rfl
    rw [this, mem_insertHash, ih]; simp

theorem sortHashes_sorted (l : List Hash) : SortedHashes (sortHashes l) := by
  induction l with
  | nil => exact List.Pairwise.nil
  | cons x xs ih => exact insertHash_sorted x ih

/-! ## §2 `DepsClosed` and `headsOf` -/

def hashes (l : List Change) : List Hash := l.map (·.hash)

@[simp] theorem hashes_nil : hashes [] = [] := rfl
@[simp] theorem hashes_append (l m : List Change) : hashes (l ++ m) = hashes l ++ hashes m := by
  simp [hashes]
@[simp] theorem hashes_cons (c : Change) (l : List Change) : hashes (c :: l) = c.hash :: hashes l := rfl

theorem mem_hashes {l : List Change} {h : Hash} : h ∈ hashes l ↔ ∃ c ∈ l, c.hash = h := by
  simp [hashes]

theorem mem_hashes_of_mem {l : List Change} {c : Change} (h : c ∈ l) : c.hash ∈ hashes l :=
  mem_hashes.mpr ⟨c, h, rfl⟩

theorem any_hash_iff {l : List Change} {h : Hash} :
    l.any (fun r => r.hash == h) = true ↔ h ∈ hashes l := by
  simp [mem_hashes]

theorem hasChange_iff {d : Doc} {h : Hash} : d.hasChange h = true ↔ h ∈ hashes d.applied := by
  unfold Doc.hasChange; exact any_hash_iff

theorem queueHas_iff {d : Doc} {h : Hash} : d.queueHas h = true ↔ h ∈ hashes d.queue := by
  unfold Doc.queueHas; exact any_hash_iff

theorem hasChange_false_iff {d : Doc} {h : Hash} : d.hasChange h = false ↔ h ∉ hashes d.applied := by
  rw [← hasChange_iff]; simp

/-- reverse-order reading of `DepsClosed` (head = latest change) -/
def DepsClosedRev : List Change → Prop
  | [] => True
  | c :: earlier => (∀ dep ∈ c.deps, dep ∈ hashes earlier) ∧ DepsClosedRev earlier

instance : (l : List Change) → Decidable (DepsClosedRev l)
  | [] => isTrue trivial
  | c :: earlier =>
    have : Decidable (DepsClosedRev earlier) := instDecidableDepsClosedRev earlier
    by unfold DepsClosedRev; infer_instance

/-- topological order: every dep of a change in the list is the hash of an EARLIER change -/
def DepsClosed (l : List Change) : Prop := DepsClosedRev l.reverse

instance (l : List Change) : Decidable (DepsClosed l) := by unfold DepsClosed; infer_instance

@[simp] theorem depsClosed_nil : DepsClosed [] := trivial

theorem depsClosed_snoc {l : List Change} {c : Change} :
    DepsClosed (l ++ [c]) ↔ DepsClosed l ∧ ∀ dep ∈ c.deps, dep ∈ hashes l := by
  unfold DepsClosed
  simp only [List.reverse_append, List.reverse_cons, List.reverse_nil, List.nil_append,
    List.singleton_append, DepsClosedRev]
  constructor
  · rintro ⟨h₁, h₂⟩
    refine ⟨h₂, fun dep hd => ?_⟩
    have := h₁ dep hd
    simpa [hashes] using this
  · rintro ⟨h₁, h₂⟩
    refine ⟨fun dep hd => ?_, h₁⟩
    have := h₂ dep hd
    simpa [hashes] using this

theorem DepsClosed.prefix {l m : List Change} (h : DepsClosed (l ++ m)) : DepsClosed l := by
  induction m using snoc_induction with
  | nil => simpa using h
  | snoc m a ih =>
    rw [← List.append_assoc] at h
    exact ih (depsClosed_snoc.mp h).1

/-- the pointwise reading: deps of the element at any split point are hashes of the prefix -/
theorem DepsClosed.deps_mem {l : List Change} (h : DepsClosed l) {pre post : List Change} {c : Change}
    (hl : l = pre ++ c :: post) : ∀ dep ∈ c.deps, dep ∈ hashes pre := by
  subst hl
  have : DepsClosed ((pre ++ [c]) ++ post) := by simpa using h
  exact (depsClosed_snoc.mp this.prefix).2

theorem DepsClosed.deps_applied {l : List Change} (h : DepsClosed l) {c : Change} (hc : c ∈ l) :
    ∀ dep ∈ c.deps, dep ∈ hashes l := by
  obtain ⟨pre, post, rfl⟩ := List.append_of_mem hc
  intro dep hd
  have := h.deps_mem rfl dep hd
  simp [this]

theorem headsOf_snoc (l : List Change) (c : Change) :
    headsOf (l ++ [c]) = (headsOf l).filter (fun h => !c.deps.contains h) ++ [c.hash] := by
  simp [headsOf, List.foldl_append]

/-- **C04 (heads)**: `update_heads` folded over a topologically ordered list of changes with
    distinct hashes leaves exactly the hashes no other change depends on. -/
theorem headsOf_spec {applied : List Change} (hc : DepsClosed applied) (hn : (hashes applied).Nodup)
    (h : Hash) :
    h ∈ headsOf applied ↔ (∃ c ∈ applied, c.hash = h) ∧ ¬ ∃ c ∈ applied, h ∈ c.deps := by
  induction applied using snoc_induction generalizing h with
  | nil => simp [headsOf]
  | snoc l c ih =>
    obtain ⟨hcl, hdeps⟩ := depsClosed_snoc.mp hc
    rw [hashes_append, List.nodup_append] at hn
    obtain ⟨hnl, _, hdisj⟩ := hn
    have hfresh : c.hash ∉ hashes l := fun hm => hdisj _ hm c.hash (by simp [hashes]) rfl
    rw [headsOf_snoc]
    simp only [List.mem_append, List.mem_filter, ih hcl hnl, Bool.not_eq_true',
      List.mem_cons, List.not_mem_nil, or_false]
    constructor
    · rintro (⟨⟨⟨x, hx, rfl⟩, hno⟩, hnd⟩ | rfl)
      · refine ⟨⟨x, .inl hx, rfl⟩, ?_⟩
        rintro ⟨y, hy | rfl, hyd⟩
        · exact hno ⟨y, hy, hyd⟩
        · rw [List.contains_iff_mem.mpr hyd] at hnd; cases hnd
      · refine ⟨⟨c, .inr rfl, rfl⟩, ?_⟩
        rintro ⟨y, hy | rfl, hyd⟩
        · exact hfresh (hcl.deps_applied hy _ hyd)
        · exact hfresh (hdeps _ hyd)
    · rintro ⟨⟨x, hx | rfl, rfl⟩, hno⟩
      · left
        refine ⟨⟨⟨x, hx, rfl⟩, fun ⟨y, hy, hyd⟩ => hno ⟨y, .inl hy, hyd⟩⟩, ?_⟩
        cases hcd : c.deps.contains x.hash
        · rfl
        · exact (hno ⟨c, .inr rfl, List.contains_iff_mem.mp hcd⟩).elim
      · right; rfl

/-! ## §3 the document invariant -/

def actorSeqs (l : List Change) : List (Bytes × Nat) := l.map (fun c => (c.actor, c.seq))

@[simp] theorem actorSeqs_append (l m : List Change) : actorSeqs (l ++ m) = actorSeqs l ++ actorSeqs m := by
  simp [actorSeqs]

theorem mem_actorSeqs {l : List Change} {p : Bytes × Nat} :
    p ∈ actorSeqs l ↔ ∃ c ∈ l, c.actor = p.1 ∧ c.seq = p.2 := by
  simp only [actorSeqs, List.mem_map]
  constructor
  · rintro ⟨c, hc, rfl⟩; exact ⟨c, hc, rfl, rfl⟩
  · rintro ⟨c, hc, h₁, h₂⟩; exact ⟨c, hc, by rw [h₁, h₂]⟩

theorem nodup_of_map {α β : Type} (f : α → β) {l : List α} (h : (l.map f).Nodup) : l.Nodup := by
  unfold List.Nodup at *
  rw [List.pairwise_map] at h
  exact h.imp (fun hab he => hab (by rw [he]))

theorem inj_of_nodup_map {α β : Type} (f : α → β) :
    ∀ {l : List α}, (l.map f).Nodup → ∀ a ∈ l, ∀ b ∈ l, f a = f b → a = b
  | [], _, _, ha, _, _, _ => by cases ha
  | x :: l, h, a, ha, b, hb, hab => by
    simp only [List.map_cons, List.nodup_cons, List.mem_map, not_exists, not_and] at h
    rcases List.mem_cons.mp ha with rfl | ha' <;> rcases List.mem_cons.mp hb with rfl | hb'
    · rfl
    · exact (h.1 b hb' hab.symm).elim
    · exact (h.1 a ha' hab).elim
    · exact inj_of_nodup_map f h.2 a ha' b hb' hab

theorem hash_inj {l : List Change} (h : (hashes l).Nodup) {a b : Change} (ha : a ∈ l) (hb : b ∈ l)
    (hab : a.hash = b.hash) : a = b := inj_of_nodup_map _ h a ha b hb hab

theorem nodup_of_hashes {l : List Change} (h : (hashes l).Nodup) : l.Nodup := nodup_of_map _ h

/-- The invariant of every reachable document.
    (i) all known changes (applied or queued) have pairwise distinct hashes — in particular the
        queue is disjoint from the applied changes;
    (ii) the applied changes are in a topological order of the dependency relation;
    (iii) no queued change is causally ready;
    (iv) **C38**: all known changes have pairwise distinct (actor, seq). -/
structure Doc.Inv (d : Doc) : Prop where
  hashNodup : (hashes (d.applied ++ d.queue)).Nodup
  depsClosed : DepsClosed d.applied
  noneReady : ∀ c ∈ d.queue, ∃ dep ∈ c.deps, d.hasChange dep = false
  seqNodup : (actorSeqs (d.applied ++ d.queue)).Nodup

instance (d : Doc) : Decidable d.Inv :=
  decidable_of_iff
    ((hashes (d.applied ++ d.queue)).Nodup ∧ DepsClosed d.applied ∧
      (∀ c ∈ d.queue, ∃ dep ∈ c.deps, d.hasChange dep = false) ∧
      (actorSeqs (d.applied ++ d.queue)).Nodup)
    ⟨fun ⟨a, b, c, e⟩ => ⟨a, b, c, e⟩, fun h => ⟨h.1, h.2, h.3, h.4⟩⟩

/-- `Inv` without (iii): what holds between `ChangeQueue::extend` and `pop_topo_sorted_ready` -/
structure Doc.Inv0 (d : Doc) : Prop where
  hashNodup : (hashes (d.applied ++ d.queue)).Nodup
  depsClosed : DepsClosed d.applied
  seqNodup : (actorSeqs (d.applied ++ d.queue)).Nodup

theorem Doc.Inv.inv0 {d : Doc} (h : d.Inv) : d.Inv0 := ⟨h.hashNodup, h.depsClosed, h.seqNodup⟩

theorem Doc.empty_inv : Doc.empty.Inv := by decide

theorem Doc.Inv0.applied_nodup {d : Doc} (h : d.Inv0) : (hashes d.applied).Nodup := by
  have := h.hashNodup
  rw [hashes_append, List.nodup_append] at this
  exact this.1

theorem Doc.Inv0.queue_nodup {d : Doc} (h : d.Inv0) : (hashes d.queue).Nodup := by
  have := h.hashNodup
  rw [hashes_append, List.nodup_append] at this
  exact this.2.1

theorem Doc.Inv0.disjoint {d : Doc} (h : d.Inv0) {x : Hash} (ha : x ∈ hashes d.applied)
    (hq : x ∈ hashes d.queue) : False := by
  have := h.hashNodup
  rw [hashes_append, List.nodup_append] at this
  exact this.2.2 x ha x hq rfl

/-- a known change is applied iff all its deps are applied: "takes effect exactly when its last
    missing ancestor arrives" as a state invariant -/
theorem Doc.Inv.applied_iff_ready {d : Doc} (h : d.Inv) {c : Change} (hc : c ∈ d.applied ++ d.queue) :
    c ∈ d.applied ↔ ∀ dep ∈ c.deps, d.hasChange dep = true := by
  constructor
  · intro ha dep hd
    exact hasChange_iff.mpr (h.depsClosed.deps_applied ha dep hd)
  · intro hall
    rcases List.mem_append.mp hc with ha | hq
    · exact ha
    · obtain ⟨dep, hd, hf⟩ := h.noneReady c hq
      rw [hall dep hd] at hf; cases hf

/-- **C04**: `get_heads` of a document satisfying the invariant -/
theorem Doc.Inv0.mem_heads {d : Doc} (h : d.Inv0) (x : Hash) :
    x ∈ d.heads ↔ (∃ c ∈ d.applied, c.hash = x) ∧ ¬ ∃ c ∈ d.applied, x ∈ c.deps := by
  unfold Doc.heads
  rw [mem_sortHashes, headsOf_spec h.depsClosed h.applied_nodup]

theorem Doc.heads_sorted (d : Doc) : SortedHashes d.heads := sortHashes_sorted _

/-! ### `seq_for_actor` -/

theorem foldl_max_le (l : List Change) (m : Nat) :
    m ≤ l.foldl (fun m c => max m c.seq) m ∧ ∀ c ∈ l, c.seq ≤ l.foldl (fun m c => max m c.seq) m := by
  induction l generalizing m with
  | nil => simp
  | cons x l ih =>
    simp only [List.foldl_cons, List.mem_cons, forall_eq_or_imp]
    have h1 := (ih (max m x.seq)).1
    have h2 := (ih (max m x.seq)).2
    refine ⟨by omega, by omega, h2⟩

theorem foldl_max_attained (l : List Change) (m : Nat) :
    l.foldl (fun m c => max m c.seq) m = m ∨ ∃ c ∈ l, c.seq = l.foldl (fun m c => max m c.seq) m := by
  induction l generalizing m with
  | nil => simp
  | cons x l ih =>
    simp only [List.foldl_cons, List.mem_cons]
    rcases ih (max m x.seq) with h | ⟨c, hc, he⟩
    · rw [h]
      by_cases hm : x.seq ≤ m
      · left; omega
      · right; exact ⟨x, .inl rfl, by omega⟩
    · right; exact ⟨c, .inr hc, he⟩

theorem le_seqForActor {d : Doc} {x : Change} (hx : x ∈ d.applied) : x.seq ≤ d.seqForActor x.actor := by
  unfold Doc.seqForActor
  apply (foldl_max_le _ 0).2
  simp [hx]

theorem seqForActor_attained {d : Doc} {a : Bytes} (h : 0 < d.seqForActor a) :
    ∃ x ∈ d.applied, x.actor = a ∧ x.seq = d.seqForActor a := by
  unfold Doc.seqForActor at *
  rcases foldl_max_attained (d.applied.filter (fun c => c.actor == a)) 0 with h0 | ⟨c, hc, he⟩
  · omega
  · simp only [List.mem_filter, beq_iff_eq] at hc
    exact ⟨c, hc.1, hc.2, he⟩

theorem hasActorSeq_false {d : Doc} {c : Change} (h : d.hasActorSeq c = false) :
    (c.actor, c.seq) ∉ actorSeqs d.applied := by
  intro hm
  obtain ⟨x, hx, ha, hs⟩ := mem_actorSeqs.mp hm
  have := le_seqForActor hx
  simp only [Doc.hasActorSeq, decide_eq_false_iff_not] at h
  simp only at ha hs
  rw [ha] at this
  omega

theorem queueHasActorSeq_iff {q : List Change} {c : Change} :
    queueHasActorSeq q c = true ↔ (c.actor, c.seq) ∈ actorSeqs q := by
  simp only [queueHasActorSeq, List.any_eq_true, Bool.and_eq_true, beq_iff_eq, mem_actorSeqs]

/-! ## §4 `remove_actor_branch_from` -/

/-- the hashes `remove_actor_branch_from q actor seq` has to remove: queued changes of `actor` with
    sequence number ≥ `seq` and, transitively, queued changes depending on one of them -/
inductive InBranch (q : List Change) (actor : Bytes) (seq : Nat) : Hash → Prop
  | base {c : Change} : c ∈ q → c.actor = actor → seq ≤ c.seq → InBranch q actor seq c.hash
  | step {c : Change} {dep : Hash} :
      InBranch q actor seq dep → c ∈ q → dep ∈ c.deps → InBranch q actor seq c.hash

theorem closeRemoved_spec (q : List Change) (a : Bytes) (n : Nat) :
    ∀ (fuel : Nat) (removed : List Hash),
      (q.filter (fun c => !removed.contains c.hash)).length ≤ fuel →
      (∀ h ∈ removed, InBranch q a n h) →
      (∀ h ∈ removed, h ∈ closeRemoved q fuel removed) ∧
      (∀ h ∈ closeRemoved q fuel removed, InBranch q a n h) ∧
      (∀ c ∈ q, c.hash ∉ closeRemoved q fuel removed →
        ∀ dep ∈ c.deps, dep ∉ closeRemoved q fuel removed) := by
  intro fuel
  induction fuel with
  | zero =>
    intro removed hlen hin
    simp only [closeRemoved]
    refine ⟨fun h hh => hh, hin, ?_⟩
    intro c hc hnot
    have hnil : q.filter (fun c => !removed.contains c.hash) = [] :=
      List.eq_nil_of_length_eq_zero (Nat.le_zero.mp hlen)
    have := List.filter_eq_nil_iff.mp hnil c hc
    simp only [Bool.not_eq_true', Bool.not_eq_false, List.contains_iff_mem] at this
    exact (hnot this).elim
  | succ fuel ih =>
    intro removed hlen hin
    simp only [closeRemoved]
    split
    · rename_i hemp
      refine ⟨fun h hh => hh, hin, ?_⟩
      intro c hc hnot dep hd hdr
      have hnil := List.isEmpty_iff.mp hemp
      rw [List.map_eq_nil_iff] at hnil
      have := List.filter_eq_nil_iff.mp hnil c hc
      apply this
      simp only [Bool.and_eq_true, Bool.not_eq_true', List.any_eq_true, List.contains_iff_mem]
      refine ⟨?_, dep, hd, hdr⟩
      cases hcc : removed.contains c.hash
      · rfl
      · exact (hnot (List.contains_iff_mem.mp hcc)).elim
    · rename_i hne
      generalize hmore : (q.filter (fun c => !removed.contains c.hash &&
        c.deps.any (fun d => removed.contains d))).map (·.hash) = more at hne
      have hmem : ∀ h ∈ more, ∃ c ∈ q, c.hash = h ∧ c.hash ∉ removed ∧ ∃ dep ∈ c.deps, dep ∈ removed := by
        intro h hh
        rw [← hmore] at hh
        simp only [List.mem_map, List.mem_filter, Bool.and_eq_true, Bool.not_eq_true',
          List.any_eq_true, List.contains_iff_mem] at hh
        obtain ⟨c, ⟨hc, hnr, dep, hd, hdr⟩, rfl⟩ := hh
        refine ⟨c, hc, rfl, ?_, dep, hd, hdr⟩
        intro hm
        rw [List.contains_iff_mem.mpr hm] at hnr; cases hnr
      have hin' : ∀ h ∈ removed ++ more, InBranch q a n h := by
        intro h hh
        rcases List.mem_append.mp hh with hh | hh
        · exact hin h hh
        · obtain ⟨c, hc, rfl, _, dep, hd, hdr⟩ := hmem h hh
          exact .step (hin dep hdr) hc hd
      have hlen' : (q.filter (fun c => !(removed ++ more).contains c.hash)).length ≤ fuel := by
        have hex : ∃ h, h ∈ more := by
          cases more with
          | nil => simp at hne
          | cons h t => exact ⟨h, List.mem_cons_self⟩
        obtain ⟨h, hh⟩ := hex
        obtain ⟨c, hc, rfl, hnr, _⟩ := hmem h hh
        have := filter_length_lt (fun c => !removed.contains c.hash)
          (fun c => !(removed ++ more).contains c.hash) q
          (by
            intro x _ hx
            simp only [Bool.not_eq_true', List.contains_eq_mem, List.mem_append,
              decide_eq_false_iff_not, not_or] at hx ⊢
            exact hx.1)
          ⟨c, hc, by simp [hnr], by simp [hh]⟩
        omega
      obtain ⟨h1, h2, h3⟩ := ih (removed ++ more) hlen' hin'
      exact ⟨fun h hh => h1 h (List.mem_append_left _ hh), h2, h3⟩

/-- **C38 (third sentence)**: `remove_actor_branch_from` removes exactly the conflicting branch:
    the queued changes of the actor at or after the claimed sequence number and everything queued
    that transitively depends on them; every other queued change stays, in order. -/
theorem mem_removeActorBranchFrom {q : List Change} {a : Bytes} {n : Nat} {x : Change} :
    x ∈ removeActorBranchFrom q a n ↔ x ∈ q ∧ ¬ InBranch q a n x.hash := by
  unfold removeActorBranchFrom
  generalize hr0 : (q.filter (fun c => c.actor == a && decide (c.seq ≥ n))).map (·.hash) = removed0
  have hin0 : ∀ h ∈ removed0, InBranch q a n h := by
    intro h hh
    rw [← hr0] at hh
    simp only [List.mem_map, List.mem_filter, Bool.and_eq_true, beq_iff_eq, decide_eq_true_eq] at hh
    obtain ⟨c, ⟨hc, ha, hs⟩, rfl⟩ := hh
    exact .base hc ha hs
  obtain ⟨h1, h2, h3⟩ := closeRemoved_spec q a n q.length removed0 (List.length_filter_le _ _) hin0
  have hall : ∀ h, InBranch q a n h → h ∈ closeRemoved q q.length removed0 := by
    intro h hb
    induction hb with
    | base hc ha hs =>
      apply h1
      rw [← hr0]
      simp only [List.mem_map, List.mem_filter, Bool.and_eq_true, beq_iff_eq, decide_eq_true_eq]
      exact ⟨_, ⟨hc, ha, hs⟩, rfl⟩
    | @step c dep _ hc hd ih =>
      by_cases hm : c.hash ∈ closeRemoved q q.length removed0
      · exact hm
      · exact (h3 c hc hm dep hd ih).elim
  simp only [List.mem_filter, Bool.not_eq_true', List.contains_eq_mem, decide_eq_false_iff_not]
  constructor
  · rintro ⟨hx, hn⟩
    exact ⟨hx, fun hb => hn (hall _ hb)⟩
  · rintro ⟨hx, hn⟩
    exact ⟨hx, fun hm => hn (h2 _ hm)⟩

theorem removeActorBranchFrom_eq_filter (q : List Change) (a : Bytes) (n : Nat) :
    ∃ p : Change → Bool, removeActorBranchFrom q a n = q.filter p := ⟨_, rfl⟩

theorem removeActorBranchFrom_sublist (q : List Change) (a : Bytes) (n : Nat) :
    (removeActorBranchFrom q a n).Sublist q := List.filter_sublist

end AmVerif.Crdt
